(* RadixProofs.v — proofs behind C06: the mp_bases table check, positional notation (digits),
   the chunked mpn_get_str / mpn_set_str, the mpz_get_str -> mpz_set_str / mpz_inp_str round trip
   with the regenerated digit value table, rejection, and mpz_sizeinbase for powers of two. *)
From Coq Require Import ZArith List Lia Bool.
From Mpir Require Import Word DivDefs RadixDefs.
From MpirGen Require Import Gen_Consts.
Import ListNotations.
Local Open Scope Z_scope.

(* ------------------------------------------------------------------------------------------ *)
(* the table                                                                                    *)
(* ------------------------------------------------------------------------------------------ *)
Lemma bases_table_ok :
  forallb (fun e : Z * (Z * (Z * Z) * Z * Z) => let '(b, (cpl, me, bb, bbi)) := e in base_entry_ok b cpl bb bbi) bases64 = true
  /\ map fst bases64 = map Z.of_nat (seq 2 61).
Proof. split; vm_compute; reflexivity. Qed.

(* ------------------------------------------------------------------------------------------ *)
(* Horner evaluation                                                                            *)
(* ------------------------------------------------------------------------------------------ *)
Definition hstep (b : Z) : Z -> Z -> Z := fun acc d => acc * b + d.

Lemma horner_fold b l : horner b l = fold_left (hstep b) l 0.
Proof. reflexivity. Qed.

Lemma fold_horner b l : forall a,
  fold_left (hstep b) l a = a * b ^ Z.of_nat (length l) + horner b l.
Proof.
  induction l as [|d r IH]; intros a.
  - cbn. lia.
  - rewrite horner_fold. cbn [fold_left length].
    rewrite (IH (hstep b a d)), (IH (hstep b 0 d)).
    rewrite Nat2Z.inj_succ, Z.pow_succ_r by lia. unfold hstep. ring.
Qed.

Lemma horner_nil b : horner b [] = 0.
Proof. reflexivity. Qed.

Lemma horner_cons b d r : horner b (d :: r) = d * b ^ Z.of_nat (length r) + horner b r.
Proof.
  rewrite horner_fold. cbn [fold_left]. rewrite fold_horner. unfold hstep. ring.
Qed.

Lemma horner_app b l1 l2 :
  horner b (l1 ++ l2) = horner b l1 * b ^ Z.of_nat (length l2) + horner b l2.
Proof.
  rewrite horner_fold, fold_left_app, fold_horner. reflexivity.
Qed.

Lemma horner_snoc b l d : horner b (l ++ [d]) = horner b l * b + d.
Proof.
  rewrite horner_fold, fold_left_app. reflexivity.
Qed.

Definition dig (b : Z) : Z -> Prop := fun d => 0 <= d < b.
Definition nlz (l : list Z) : Prop := match l with d :: _ => d <> 0 | [] => True end.

Lemma horner_bounds b l : 2 <= b -> Forall (dig b) l ->
  0 <= horner b l < b ^ Z.of_nat (length l).
Proof.
  intros Hb Hl. induction Hl as [|d r Hd Hr IH].
  - cbn. lia.
  - rewrite horner_cons. cbn [length]. rewrite Nat2Z.inj_succ, Z.pow_succ_r by lia.
    set (P := b ^ Z.of_nat (length r)) in *. unfold dig in Hd.
    assert (H1 : d * P <= (b - 1) * P) by (apply Z.mul_le_mono_nonneg_r; lia).
    assert (H2 : 0 <= d * P) by (apply Z.mul_nonneg_nonneg; lia).
    lia.
Qed.

Lemma horner_lower b d r : 2 <= b -> Forall (dig b) (d :: r) -> d <> 0 ->
  b ^ Z.of_nat (length r) <= horner b (d :: r).
Proof.
  intros Hb Hl Hd. inversion Hl as [|d' r' Hd' Hr]; subst.
  pose proof (horner_bounds b r Hb Hr) as Hbd. rewrite horner_cons.
  set (P := b ^ Z.of_nat (length r)) in *. unfold dig in Hd'.
  assert (H1 : 1 * P <= d * P) by (apply Z.mul_le_mono_nonneg_r; lia).
  lia.
Qed.

(* lists of the same length with the same value are equal *)
Lemma divmod_unique P q1 r1 q2 r2 :
  0 <= r1 < P -> 0 <= r2 < P -> q1 * P + r1 = q2 * P + r2 -> q1 = q2 /\ r1 = r2.
Proof.
  intros H1 H2 E.
  assert (Eq : q1 = q2).
  { rewrite (Z.div_unique (q1 * P + r1) P q1 r1) by (try left; lia).
    rewrite (Z.div_unique (q1 * P + r1) P q2 r2) by (try left; lia). reflexivity. }
  subst q2. split; [reflexivity | lia].
Qed.

Lemma horner_inj_len b : 2 <= b -> forall l1 l2, length l1 = length l2 ->
  Forall (dig b) l1 -> Forall (dig b) l2 -> horner b l1 = horner b l2 -> l1 = l2.
Proof.
  intros Hb. induction l1 as [|d1 r1 IH]; intros [|d2 r2] Hlen H1 H2 E; try discriminate.
  - reflexivity.
  - cbn [length] in Hlen. injection Hlen as Hlen.
    inversion H1 as [|x1 y1 Hd1 Hr1]; subst. inversion H2 as [|x2 y2 Hd2 Hr2]; subst.
    rewrite !horner_cons in E. rewrite Hlen in E.
    pose proof (horner_bounds b r1 Hb Hr1) as B1. rewrite Hlen in B1.
    pose proof (horner_bounds b r2 Hb Hr2) as B2.
    destruct (divmod_unique _ _ _ _ _ B1 B2 E) as [Ed Er].
    subst d2. f_equal. apply IH; assumption.
Qed.

Lemma pow_sandwich b n m x : 2 <= b -> 0 <= n -> 0 <= m ->
  b ^ n <= x < b ^ (n + 1) -> b ^ m <= x < b ^ (m + 1) -> n = m.
Proof.
  intros Hb Hn Hm H1 H2.
  assert (A : n < m + 1) by (apply (Z.pow_lt_mono_r_iff b); lia).
  assert (C : m < n + 1) by (apply (Z.pow_lt_mono_r_iff b); lia).
  lia.
Qed.

Lemma len_bounds b d r : 2 <= b -> Forall (dig b) (d :: r) -> d <> 0 ->
  b ^ Z.of_nat (length r) <= horner b (d :: r) < b ^ (Z.of_nat (length r) + 1).
Proof.
  intros Hb Hl Hd. split.
  - apply horner_lower; assumption.
  - pose proof (horner_bounds b (d :: r) Hb Hl) as H. cbn [length] in H.
    rewrite Nat2Z.inj_succ in H. unfold Z.succ in H. lia.
Qed.

Definition is_digits (b x : Z) (l : list Z) : Prop :=
  horner b l = x /\ Forall (fun d => 0 <= d < b) l /\ match l with d :: _ => d <> 0 | [] => x = 0 end.

Lemma is_digits_unique b x l1 l2 : 2 <= b -> is_digits b x l1 -> is_digits b x l2 -> l1 = l2.
Proof.
  intros Hb (E1 & F1 & N1) (E2 & F2 & N2).
  change (Forall (dig b) l1) in F1. change (Forall (dig b) l2) in F2.
  apply (horner_inj_len b Hb); try assumption; [|congruence].
  destruct l1 as [|d1 r1], l2 as [|d2 r2].
  - reflexivity.
  - exfalso. pose proof (horner_lower b d2 r2 Hb F2 N2) as H.
    assert (0 < b ^ Z.of_nat (length r2)) by (apply Z.pow_pos_nonneg; lia). lia.
  - exfalso. pose proof (horner_lower b d1 r1 Hb F1 N1) as H.
    assert (0 < b ^ Z.of_nat (length r1)) by (apply Z.pow_pos_nonneg; lia). lia.
  - cbn [length]. f_equal. apply Nat2Z.inj.
    apply (pow_sandwich b _ _ x Hb); try lia.
    + rewrite <- E1. apply len_bounds; assumption.
    + rewrite <- E2. apply len_bounds; assumption.
Qed.

(* ------------------------------------------------------------------------------------------ *)
(* digits                                                                                       *)
(* ------------------------------------------------------------------------------------------ *)
Lemma digits_fuel_acc b : forall f x acc, digits_fuel f x b acc = digits_fuel f x b [] ++ acc.
Proof.
  induction f as [|f IH]; intros x acc.
  - reflexivity.
  - cbn [digits_fuel]. destruct (x <=? 0); [reflexivity|].
    rewrite (IH (x / b) (x mod b :: acc)), (IH (x / b) [x mod b]).
    rewrite <- app_assoc. reflexivity.
Qed.

Lemma half_fuel x c f : 2 <= c -> 0 < x < 2 ^ Z.of_nat (S f) -> 0 <= x / c < 2 ^ Z.of_nat f.
Proof.
  intros Hc Hx. rewrite Nat2Z.inj_succ, Z.pow_succ_r in Hx by lia. split.
  - apply Z.div_pos; lia.
  - apply Z.le_lt_trans with (x / 2).
    + apply Z.div_le_compat_l; lia.
    + apply Z.div_lt_upper_bound; lia.
Qed.

Lemma digits_fuel_spec b : 2 <= b -> forall f x, 0 <= x < 2 ^ Z.of_nat f ->
  is_digits b x (digits_fuel f x b []).
Proof.
  intros Hb. induction f as [|f IH]; intros x Hx.
  - cbn in Hx. assert (x = 0) by lia. subst x. cbn. repeat split. constructor.
  - cbn [digits_fuel]. destruct (Z.leb_spec x 0) as [Hle|Hgt].
    + assert (x = 0) by lia. subst x. repeat split. constructor.
    + rewrite digits_fuel_acc.
      destruct (IH (x / b) (half_fuel x b f Hb (conj Hgt (proj2 Hx)))) as (E & F & N).
      pose proof (Z.div_mod x b ltac:(lia)) as Hdm.
      pose proof (Z.mod_pos_bound x b ltac:(lia)) as Hmod.
      set (l := digits_fuel f (x / b) b []) in *.
      split; [|split].
      * rewrite horner_snoc, E. lia.
      * apply Forall_app. split; [exact F|]. constructor; [exact Hmod | constructor].
      * destruct l as [|d r].
        -- cbn [app]. rewrite N in Hdm. lia.
        -- cbn [app]. exact N.
Qed.

Lemma log2_fuel x : 0 <= x -> 0 <= x < 2 ^ Z.of_nat (S (Z.to_nat (Z.log2 x))).
Proof.
  intros Hx. rewrite Nat2Z.inj_succ, Z2Nat.id by apply Z.log2_nonneg.
  destruct (Z.eq_dec x 0) as [->|Hnz].
  - cbn. lia.
  - pose proof (Z.log2_spec x ltac:(lia)). lia.
Qed.

Lemma digits_is_digits x b : 0 <= x -> 2 <= b -> is_digits b x (digits x b).
Proof.
  intros Hx Hb. unfold digits. apply digits_fuel_spec; [exact Hb|]. apply log2_fuel. exact Hx.
Qed.

Lemma digits_spec : forall x b, 0 <= x -> 2 <= b ->
  horner b (digits x b) = x
  /\ Forall (fun d => 0 <= d < b) (digits x b)
  /\ (match digits x b with d :: _ => d <> 0 | [] => x = 0 end).
Proof. intros x b Hx Hb. exact (digits_is_digits x b Hx Hb). Qed.

(* ------------------------------------------------------------------------------------------ *)
(* chunked generation and consumption                                                           *)
(* ------------------------------------------------------------------------------------------ *)
Lemma chunk_digits_spec b : 2 <= b -> forall n r acc, 0 <= r < b ^ Z.of_nat n ->
  exists l, chunk_digits n r b acc = l ++ acc /\ length l = n
            /\ Forall (dig b) l /\ horner b l = r.
Proof.
  intros Hb. induction n as [|n IH]; intros r acc Hr.
  - cbn in Hr. exists []. cbn. repeat split; [constructor | lia].
  - cbn [chunk_digits]. rewrite Nat2Z.inj_succ, Z.pow_succ_r in Hr by lia.
    assert (Hq : 0 <= r / b < b ^ Z.of_nat n).
    { split; [apply Z.div_pos; lia | apply Z.div_lt_upper_bound; lia]. }
    destruct (IH (r / b) (r mod b :: acc) Hq) as (l & E & Hlen & F & Hh).
    pose proof (Z.div_mod r b ltac:(lia)) as Hdm.
    pose proof (Z.mod_pos_bound r b ltac:(lia)) as Hmod.
    exists (l ++ [r mod b]). split; [|split; [|split]].
    + rewrite E, <- app_assoc. reflexivity.
    + rewrite app_length, Hlen. cbn. lia.
    + apply Forall_app. split; [exact F|]. constructor; [exact Hmod | constructor].
    + rewrite horner_snoc, Hh. lia.
Qed.

Lemma get_str_chunks_spec b cpl : 2 <= b -> 1 <= cpl ->
  forall f x acc, 0 <= x < 2 ^ Z.of_nat f ->
  exists l, get_str_chunks f x b cpl (b ^ cpl) acc = l ++ acc
            /\ Forall (dig b) l /\ horner b l = x.
Proof.
  intros Hb Hcpl.
  assert (Hbig : 2 <= b ^ cpl).
  { apply Z.le_trans with (b ^ 1); [rewrite Z.pow_1_r; lia|].
    apply Z.pow_le_mono_r; lia. }
  induction f as [|f IH]; intros x acc Hx.
  - cbn in Hx. assert (x = 0) by lia. subst x. exists []. cbn. repeat split. constructor.
  - cbn [get_str_chunks]. destruct (Z.leb_spec x 0) as [Hle|Hgt].
    + assert (x = 0) by lia. subst x. exists []. cbn. repeat split. constructor.
    + pose proof (Z.div_mod x (b ^ cpl) ltac:(lia)) as Hdm.
      pose proof (Z.mod_pos_bound x (b ^ cpl) ltac:(lia)) as Hmod.
      assert (Hr : 0 <= x mod b ^ cpl < b ^ Z.of_nat (Z.to_nat cpl)) by (rewrite Z2Nat.id; lia).
      destruct (chunk_digits_spec b Hb (Z.to_nat cpl) (x mod b ^ cpl) acc Hr)
        as (lc & Ec & Hlen & Fc & Hc).
      rewrite Ec.
      destruct (IH (x / b ^ cpl) (lc ++ acc) (half_fuel x (b ^ cpl) f Hbig (conj Hgt (proj2 Hx))))
        as (lg & Eg & Fg & Hg).
      exists (lg ++ lc). split; [|split].
      * rewrite Eg, <- app_assoc. reflexivity.
      * apply Forall_app. split; assumption.
      * rewrite horner_app, Hg, Hc, Hlen, Z2Nat.id by lia. lia.
Qed.

Lemma strip_lead0_horner b : forall l, horner b (strip_lead0 l) = horner b l.
Proof.
  induction l as [|[|p|p] r IH]; cbn [strip_lead0]; try reflexivity.
  rewrite IH, (horner_cons b 0 r). lia.
Qed.

Lemma strip_lead0_Forall (P : Z -> Prop) : forall l, Forall P l -> Forall P (strip_lead0 l).
Proof.
  induction l as [|[|p|p] r IH]; intros H; cbn [strip_lead0]; try exact H.
  apply IH. inversion H; assumption.
Qed.

Lemma strip_lead0_nlz : forall l, nlz (strip_lead0 l).
Proof.
  induction l as [|[|p|p] r IH]; cbn [strip_lead0 nlz]; try exact I; try exact IH; discriminate.
Qed.

Lemma strip_lead0_zeros : forall k l, nlz l -> strip_lead0 (repeat 0 k ++ l) = l.
Proof.
  induction k as [|k IH]; intros l Hl.
  - cbn [repeat app]. destruct l as [|[|p|p] r]; try reflexivity. cbn in Hl. congruence.
  - cbn [repeat app strip_lead0]. apply IH. exact Hl.
Qed.

Lemma mpn_get_str_spec x b cpl : 0 <= x -> 2 <= b -> 1 <= cpl ->
  mpn_get_str x b cpl (b ^ cpl) = digits x b.
Proof.
  intros Hx Hb Hcpl. unfold mpn_get_str.
  destruct (get_str_chunks_spec b cpl Hb Hcpl _ x [] (log2_fuel x Hx)) as (l & E & F & Hh).
  rewrite E, app_nil_r.
  apply (is_digits_unique b x); [exact Hb| |apply digits_is_digits; assumption].
  split; [|split].
  - rewrite strip_lead0_horner. exact Hh.
  - apply strip_lead0_Forall. exact F.
  - pose proof (strip_lead0_nlz l) as Hn. pose proof (strip_lead0_horner b l) as Hs.
    destruct (strip_lead0 l) as [|d r].
    + rewrite <- Hh, <- Hs. reflexivity.
    + exact Hn.
Qed.

Lemma take_chunk_spec b : forall n ds acc k,
  take_chunk n ds b acc k
  = (fold_left (hstep b) (firstn n ds) acc, k + Z.of_nat (length (firstn n ds)), skipn n ds).
Proof.
  induction n as [|n IH]; intros ds acc k.
  - cbn. rewrite Z.add_0_r. destruct ds; reflexivity.
  - destruct ds as [|d r].
    + cbn. rewrite Z.add_0_r. reflexivity.
    + cbn [take_chunk firstn skipn fold_left length]. rewrite IH.
      rewrite Nat2Z.inj_succ. unfold hstep at 2. f_equal. f_equal. lia.
Qed.

Lemma set_str_chunks_spec b cpl : 1 <= cpl -> forall f ds acc, (length ds < f)%nat ->
  set_str_chunks f ds b cpl acc = fold_left (hstep b) ds acc.
Proof.
  intros Hcpl. induction f as [|f IH]; intros ds acc Hlen.
  - lia.
  - destruct ds as [|d r]; [reflexivity|].
    cbn [set_str_chunks]. rewrite take_chunk_spec. cbv beta iota.
    destruct (Z.to_nat cpl) as [|m] eqn:Em; [lia|].
    rewrite IH.
    + rewrite Z.add_0_l, <- fold_horner, <- fold_left_app, firstn_skipn. reflexivity.
    + rewrite skipn_length. cbn [length] in *. lia.
Qed.

Lemma mpn_set_str_spec ds b cpl : 1 <= cpl -> mpn_set_str ds b cpl = horner b ds.
Proof.
  intros Hcpl. unfold mpn_set_str. rewrite set_str_chunks_spec by (try assumption; lia).
  reflexivity.
Qed.

Lemma chunks_spec : forall x b cpl ds, 0 <= x -> 2 <= b -> 1 <= cpl ->
  Forall (fun d => 0 <= d < b) ds ->
  mpn_get_str x b cpl (b ^ cpl) = digits x b /\ mpn_set_str ds b cpl = horner b ds.
Proof.
  intros x b cpl ds Hx Hb Hcpl _. split.
  - apply mpn_get_str_spec; assumption.
  - apply mpn_set_str_spec; assumption.
Qed.

(* ------------------------------------------------------------------------------------------ *)
(* mpz_sizeinbase, powers of two                                                                *)
(* ------------------------------------------------------------------------------------------ *)
Lemma log2_exact_pow2 k : 0 <= k -> log2_exact (2 ^ k) = Some k.
Proof.
  intros Hk. unfold log2_exact. rewrite Z.log2_pow2 by exact Hk. rewrite Z.eqb_refl. reflexivity.
Qed.

Lemma sizeinbase_pow2_spec : forall x k m e, x <> 0 -> 1 <= k ->
  sizeinbase x (2 ^ k) m e = Z.of_nat (length (digits (Z.abs x) (2 ^ k))).
Proof.
  intros x k m e Hx Hk. unfold sizeinbase.
  destruct (Z.eqb_spec x 0) as [|_]; [contradiction|].
  rewrite log2_exact_pow2 by lia.
  set (y := Z.abs x). assert (Hy : 0 < y) by (unfold y; lia).
  assert (Hb : 2 <= 2 ^ k).
  { change 2 with (2 ^ 1) at 1. apply Z.pow_le_mono_r; lia. }
  destruct (digits_is_digits y (2 ^ k) ltac:(lia) Hb) as (E & F & N).
  destruct (digits y (2 ^ k)) as [|d r].
  - exfalso. lia.
  - pose proof (len_bounds (2 ^ k) d r Hb F N) as Hlb. rewrite E in Hlb.
    pose proof (Z.log2_spec y Hy) as Hl. pose proof (Z.log2_nonneg y) as Hl0.
    set (L := Z.log2 y) in *. cbn [length]. rewrite Nat2Z.inj_succ.
    set (n := Z.of_nat (length r)) in *. assert (Hn : 0 <= n) by (unfold n; lia).
    rewrite <- !Z.pow_mul_r in Hlb by lia.
    assert (A : k * n < Z.succ L) by (apply (Z.pow_lt_mono_r_iff 2); lia).
    assert (C : L < k * (n + 1)) by (apply (Z.pow_lt_mono_r_iff 2); nia).
    symmetry. apply Z.div_unique with (r := L + 1 + k - 1 - k * Z.succ n); lia.
Qed.

(* ------------------------------------------------------------------------------------------ *)
(* rejection                                                                                    *)
(* ------------------------------------------------------------------------------------------ *)
Lemma rejects_spec : forall s base c rest,
  2 <= base <= 62 -> skip_space s = c :: rest -> c <> 45 ->
  base <= dv digit_value_tab (if 36 <? base then 224 else 0) c ->
  set_str digit_value_tab s base = None.
Proof.
  intros s base c rest Hb Hs Hc Hd. unfold set_str.
  destruct (Z.ltb_spec 62 base) as [|_]; [reflexivity|].
  rewrite Hs. cbn [hd0].
  destruct (Z.eqb_spec c 45) as [|_]; [contradiction|].
  cbn [hd0].
  destruct (Z.eqb_spec base 0) as [|_]; [lia|].
  destruct (Z.leb_spec base (dv digit_value_tab (if 36 <? base then 224 else 0) c)) as [_|Hlt];
    [reflexivity | lia].
Qed.

(* ------------------------------------------------------------------------------------------ *)
(* round trip: the parsers on what mpz_get_str writes, for an abstract digit value table        *)
(* ------------------------------------------------------------------------------------------ *)
Definition set_core (tab : list Z) (off base : Z) (neg : bool) (s2 : list Z) : option Z :=
  if base <=? dv tab off (hd0 s2) then None
  else
    let s4 := skip_zeros_space s2 in
    if hd0 s4 =? 0 then Some 0
    else match collect tab off base s4 with
         | None => None
         | Some ds => Some (if neg then - horner base ds else horner base ds)
         end.

Lemma set_str_unfold tab s base : 1 <= base <= 62 ->
  set_str tab s base =
  let s1 := skip_space s in
  let neg := hd0 s1 =? 45 in
  set_core tab (if 36 <? base then 224 else 0) base neg (if neg then tl0 s1 else s1).
Proof.
  intros Hb. unfold set_str, set_core.
  destruct (Z.ltb_spec 62 base) as [|_]; [lia|].
  destruct (Z.eqb_spec base 0) as [|_]; [lia|].
  reflexivity.
Qed.

Definition inp_core (tab : list Z) (off base : Z) (fuel : nat) (neg : bool) (c : Z) (r : list Z)
    (nread : Z) : Z * option Z :=
  if (c =? -1) || (base <=? dv tab off c) then (0, None)
  else
    let '(c, r, nread) := inp_skip_zeros fuel c r nread in
    let ds := inp_digits fuel tab off base c r [] in
    let v := horner base ds in
    (nread + Z.of_nat (length ds) - 1, Some (if neg then - v else v)).

Lemma inp_str_unfold tab s base : 1 <= base <= 62 ->
  inp_str tab s base =
  let fuel := S (length s) in
  let '(c, r, nread) := inp_skip_space fuel s 0 in
  let neg := c =? 45 in
  let '(c, r, nread) :=
    if neg then let '(c', r') := getc r in (c', r', nread + 1) else (c, r, nread) in
  inp_core tab (if 36 <? base then 224 else 0) base fuel neg c r nread.
Proof.
  intros Hb. unfold inp_str, inp_core. cbv zeta.
  destruct (inp_skip_space (S (length s)) s 0) as [[c r] n].
  destruct (Z.ltb_spec 62 base) as [|_]; [lia|].
  destruct (Z.eqb_spec base 0) as [|_]; [lia|].
  destruct (c =? 45); [destruct (getc r) as [c' r']|]; reflexivity.
Qed.

Section RoundTrip.
Variables (tab : list Z) (base b off : Z).
Hypothesis Hb : 2 <= b <= 62.
Hypothesis Hbb : b = Z.abs base.
Hypothesis Hoff : off = if 36 <? b then 224 else 0.
Hypothesis Hdv : forall d, 0 <= d < b -> dv tab off (digit_char base d) = d.
Hypothesis Hch : forall d, 0 <= d < b ->
  digit_char base d <> 0 /\ digit_char base d <> 45 /\ digit_char base d <> -1
  /\ isspace (digit_char base d) = false /\ (digit_char base d = 48 -> d = 0).

Let dc := digit_char base.

Lemma dv48 : dv tab off 48 = 0.
Proof. exact (Hdv 0 ltac:(lia)). Qed.

Lemma collect_digits : forall ds, Forall (dig b) ds ->
  collect tab off b (map dc ds ++ [0]) = Some ds.
Proof.
  induction ds as [|d r IH]; intros F.
  - reflexivity.
  - inversion F as [|d' r' Hd Hr]; subst d' r'.
    destruct (Hch d Hd) as (H0 & H45 & Hm1 & Hsp & H48). pose proof (Hdv d Hd) as Hv. fold dc in H0, H45, Hm1, Hsp, H48, Hv.
    cbn [map app collect].
    destruct (Z.eqb_spec (dc d) 0) as [|_]; [contradiction|].
    rewrite Hsp. rewrite Hv.
    destruct (Z.leb_spec b d) as [|_]; [unfold dig in Hd; lia|].
    rewrite (IH Hr). reflexivity.
Qed.

Lemma set_core_digits neg d r : Forall (dig b) (d :: r) -> d <> 0 ->
  set_core tab off b neg (map dc (d :: r) ++ [0])
  = Some (if neg then - horner b (d :: r) else horner b (d :: r)).
Proof.
  intros F Hd0. pose proof (collect_digits (d :: r) F) as Hcol.
  inversion F as [|d' r' Hd Hr]; subst d' r'.
  destruct (Hch d Hd) as (H0 & H45 & Hm1 & Hsp & H48). pose proof (Hdv d Hd) as Hv. fold dc in H0, H45, Hm1, Hsp, H48, Hv.
  unfold set_core. cbn [map app hd0 skip_zeros_space] in *.
  rewrite Hv.
  destruct (Z.leb_spec b d) as [|_]; [unfold dig in Hd; lia|].
  destruct (Z.eqb_spec (dc d) 48) as [E48|_]; [apply H48 in E48; contradiction|].
  rewrite Hsp. cbn [orb hd0].
  destruct (Z.eqb_spec (dc d) 0) as [|_]; [contradiction|].
  rewrite Hcol. reflexivity.
Qed.

Lemma inp_digits_spec : forall ds fuel acc c r, Forall (dig b) ds -> (length ds <= fuel)%nat ->
  getc (map dc ds) = (c, r) ->
  inp_digits fuel tab off b c r acc = rev acc ++ ds.
Proof.
  induction ds as [|d ds IH]; intros fuel acc c r F Hlen Hg.
  - cbn in Hg. injection Hg as <- <-. rewrite app_nil_r. destruct fuel; reflexivity.
  - cbn [map getc] in Hg. injection Hg as <- <-.
    inversion F as [|d' r' Hd Hr]; subst d' r'.
    destruct (Hch d Hd) as (H0 & H45 & Hm1 & Hsp & H48). pose proof (Hdv d Hd) as Hv. fold dc in H0, H45, Hm1, Hsp, H48, Hv.
    destruct fuel as [|fuel]; [cbn [length] in Hlen; lia|].
    cbn [inp_digits].
    destruct (Z.eqb_spec (dc d) (-1)) as [|_]; [contradiction|].
    rewrite Hv.
    destruct (Z.leb_spec b d) as [|_]; [unfold dig in Hd; lia|].
    destruct (getc (map dc ds)) as [c' r'] eqn:Eg.
    rewrite (IH fuel (d :: acc) c' r' Hr); [|cbn [length] in Hlen; lia|reflexivity].
    cbn [rev]. rewrite <- app_assoc. reflexivity.
Qed.

Lemma inp_core_digits neg d r fuel nread : Forall (dig b) (d :: r) -> d <> 0 ->
  (length (d :: r) <= fuel)%nat ->
  inp_core tab off b fuel neg (dc d) (map dc r) nread
  = (nread + Z.of_nat (length (d :: r)) - 1,
     Some (if neg then - horner b (d :: r) else horner b (d :: r))).
Proof.
  intros F Hd0 Hlen.
  pose proof (inp_digits_spec (d :: r) fuel [] (dc d) (map dc r) F Hlen eq_refl) as Hds.
  cbn [rev app] in Hds.
  inversion F as [|d' r' Hd Hr]; subst d' r'.
  destruct (Hch d Hd) as (H0 & H45 & Hm1 & Hsp & H48). pose proof (Hdv d Hd) as Hv. fold dc in H0, H45, Hm1, Hsp, H48, Hv.
  unfold inp_core.
  destruct (Z.eqb_spec (dc d) (-1)) as [|_]; [contradiction|].
  rewrite Hv.
  destruct (Z.leb_spec b d) as [|_]; [unfold dig in Hd; lia|].
  cbn [orb].
  destruct fuel as [|fuel]; [cbn [length] in Hlen; lia|].
  cbn [inp_skip_zeros].
  destruct (Z.eqb_spec (dc d) 48) as [E48|_]; [apply H48 in E48; contradiction|].
  cbv zeta. rewrite Hds. reflexivity.
Qed.

Lemma get_str_cases x :
  (x = 0 /\ mpz_get_str x base = [48])
  \/ (exists d r, Forall (dig b) (d :: r) /\ d <> 0 /\ horner b (d :: r) = Z.abs x
        /\ mpz_get_str x base = (if x <? 0 then [45] else []) ++ map dc (d :: r)).
Proof.
  unfold mpz_get_str. cbv zeta. rewrite <- Hbb.
  destruct (digits_is_digits (Z.abs x) b ltac:(lia) ltac:(lia)) as (E & F & N).
  destruct (digits (Z.abs x) b) as [|d r].
  - left. assert (x = 0) by lia. subst x. split; reflexivity.
  - right. exists d, r. repeat split; assumption.
Qed.

Lemma rt_set x : set_str tab (mpz_get_str x base ++ [0]) b = Some x.
Proof.
  rewrite set_str_unfold by lia. rewrite <- Hoff.
  destruct (get_str_cases x) as [[-> E]|(d & r & F & Hd0 & Hh & E)]; rewrite E.
  - cbn [app skip_space isspace]. cbn. unfold set_core. cbn [hd0]. rewrite dv48.
    destruct (Z.leb_spec b 0) as [|_]; [lia|]. reflexivity.
  - inversion F as [|d' r' Hd Hr]; subst d' r'.
    destruct (Hch d Hd) as (H0 & H45 & Hm1 & Hsp & H48). pose proof (Hdv d Hd) as Hv. fold dc in H0, H45, Hm1, Hsp, H48, Hv.
    destruct (Z.ltb_spec x 0) as [Hneg|Hpos].
    + cbn [app skip_space]. change (isspace 45) with false. cbv iota zeta. cbn [hd0 tl0].
      change (45 =? 45) with true. cbv iota.
      rewrite (set_core_digits true d r F Hd0), Hh. f_equal. lia.
    + cbn [app map skip_space]. rewrite Hsp. cbv iota zeta. cbn [hd0].
      destruct (Z.eqb_spec (dc d) 45) as [|_]; [contradiction|].
      change (dc d :: map dc r ++ [0]) with (map dc (d :: r) ++ [0]).
      rewrite (set_core_digits false d r F Hd0), Hh. f_equal. lia.
Qed.

Lemma rt_inp x :
  inp_str tab (mpz_get_str x base) b = (Z.of_nat (length (mpz_get_str x base)), Some x).
Proof.
  rewrite inp_str_unfold by lia. rewrite <- Hoff.
  destruct (get_str_cases x) as [[-> E]|(d & r & F & Hd0 & Hh & E)]; rewrite E.
  - cbn [length inp_skip_space getc]. change (isspace 48) with false. cbv iota zeta.
    change (48 =? 45) with false. cbv iota. unfold inp_core.
    change (48 =? -1) with false. rewrite dv48.
    destruct (Z.leb_spec b 0) as [|_]; [lia|]. cbn. reflexivity.
  - inversion F as [|d' r' Hd Hr]; subst d' r'.
    destruct (Hch d Hd) as (H0 & H45 & Hm1 & Hsp & H48). pose proof (Hdv d Hd) as Hv. fold dc in H0, H45, Hm1, Hsp, H48, Hv.
    destruct (Z.ltb_spec x 0) as [Hneg|Hpos].
    + cbn [app map inp_skip_space getc]. change (isspace 45) with false. cbv iota zeta.
      change (45 =? 45) with true. cbv iota. cbn [getc]. cbv iota beta.
      rewrite (inp_core_digits true d r _ _ F Hd0) by (cbn [length]; rewrite map_length; lia).
      rewrite Hh. f_equal; [cbn [length]; rewrite map_length; lia | f_equal; lia].
    + cbn [app map inp_skip_space getc]. rewrite Hsp. cbv iota zeta.
      destruct (Z.eqb_spec (dc d) 45) as [|_]; [contradiction|].
      rewrite (inp_core_digits false d r _ _ F Hd0) by (cbn [length]; rewrite map_length; lia).
      rewrite Hh. f_equal; [cbn [length]; rewrite map_length; lia | f_equal; lia].
Qed.
End RoundTrip.

(* the finite facts about the regenerated table and the alphabets of mpz_get_str *)
Definition char_ok (base d : Z) : bool :=
  let c := digit_char base d in
  (dv digit_value_tab (if 36 <? Z.abs base then 224 else 0) c =? d)
  && negb (c =? 0) && negb (c =? 45) && negb (c =? -1) && negb (isspace c)
  && (negb (c =? 48) || (d =? 0)).

Definition all_bases : list Z := map Z.of_nat (seq 2 61) ++ map (fun n => - Z.of_nat n) (seq 2 35).

Lemma char_ok_table :
  forallb (fun base => forallb (fun n => char_ok base (Z.of_nat n)) (seq 0 (Z.to_nat (Z.abs base))))
          all_bases = true.
Proof. vm_compute. reflexivity. Qed.

Lemma char_ok_all base d : (2 <= base <= 62 \/ -36 <= base <= -2) -> 0 <= d < Z.abs base ->
  char_ok base d = true.
Proof.
  intros Hbase Hd. pose proof char_ok_table as T. rewrite forallb_forall in T.
  assert (Hin : In base all_bases).
  { unfold all_bases. apply in_or_app. destruct Hbase as [Hp|Hn].
    - left. apply in_map_iff. exists (Z.to_nat base). split; [lia|]. apply in_seq. lia.
    - right. apply in_map_iff. exists (Z.to_nat (- base)). split; [lia|]. apply in_seq. lia. }
  specialize (T base Hin). rewrite forallb_forall in T.
  specialize (T (Z.to_nat d)). rewrite Z2Nat.id in T by lia. apply T. apply in_seq. lia.
Qed.

Lemma roundtrip_spec : forall x base,
  (2 <= base <= 62 \/ -36 <= base <= -2) ->
  set_str digit_value_tab (mpz_get_str x base ++ [0]) (Z.abs base) = Some x
  /\ inp_str digit_value_tab (mpz_get_str x base) (Z.abs base)
     = (Z.of_nat (length (mpz_get_str x base)), Some x).
Proof.
  intros x base Hbase.
  assert (Hb : 2 <= Z.abs base <= 62) by lia.
  assert (Hdv : forall d, 0 <= d < Z.abs base ->
            dv digit_value_tab (if 36 <? Z.abs base then 224 else 0) (digit_char base d) = d).
  { intros d Hd. pose proof (char_ok_all base d Hbase Hd) as H. unfold char_ok in H. cbv zeta in H.
    rewrite !andb_true_iff in H. destruct H as (((((H & _) & _) & _) & _) & _).
    apply Z.eqb_eq in H. exact H. }
  assert (Hch : forall d, 0 <= d < Z.abs base ->
    digit_char base d <> 0 /\ digit_char base d <> 45 /\ digit_char base d <> -1
    /\ isspace (digit_char base d) = false /\ (digit_char base d = 48 -> d = 0)).
  { intros d Hd. pose proof (char_ok_all base d Hbase Hd) as H. unfold char_ok in H. cbv zeta in H.
    rewrite !andb_true_iff in H. destruct H as (((((_ & H0) & H45) & Hm1) & Hsp) & H48).
    rewrite negb_true_iff in H0, H45, Hm1, Hsp. rewrite Z.eqb_neq in H0, H45, Hm1.
    repeat split; try assumption.
    intros E. rewrite E in H48. cbn in H48. apply Z.eqb_eq in H48. exact H48. }
  split.
  - exact (rt_set digit_value_tab base (Z.abs base) _ Hb eq_refl eq_refl Hdv Hch x).
  - exact (rt_inp digit_value_tab base (Z.abs base) _ Hb eq_refl eq_refl Hdv Hch x).
Qed.

(* ------------------------------------------------------------------------------------------ *)
Lemma C06_example :
  set_str digit_value_tab [32; 45; 48; 120; 49; 70; 0] 0 = Some (-31)
  /\ mpz_get_str (-255) 16 = [45; 102; 102] /\ mpz_get_str 255 (-16) = [70; 70]
  /\ set_str digit_value_tab [43; 53; 0] 10 = None
  /\ sizeinbase (10 ^ 19) 10 5422874305198589 (-54) = 20.
Proof. repeat split; vm_compute; reflexivity. Qed.
