(* RadixReal.v — the real-number statement about mp_bases[].chars_per_bit_exactly used by C06:
   the double constant (mantissa / 2^k) is log 2 / log base to within 2^-50.  Uses the standard
   library's real numbers (and so its axioms); only this statement and its proofs do. *)
From Coq Require Import Reals ZArith List.
From Mpir Require Import RadixDefs.
Import ListNotations.
Local Open Scope R_scope.

Definition cpb_ok (b m den : Z) : Prop :=
  Rabs (IZR m / IZR den - ln 2 / ln (IZR b)) <= 1 / 1125899906842624.

(* the non-power-of-two entries of a bases table as (base, mantissa, 2^-exponent) *)
Definition cpb_of_bases (t : list (Z * (Z * (Z * Z) * Z * Z))) : list (Z * (Z * Z)) :=
  flat_map (fun e : Z * (Z * (Z * Z) * Z * Z) =>
              let '(b, (cpl, me, bb, bbi)) := e in
              match log2_exact b with
              | Some _ => []
              | None => [(b, (fst me, (2 ^ (- snd me))%Z))]
              end) t.
