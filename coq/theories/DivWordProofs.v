(* DivWordProofs.v — word-level division proofs behind C02:
   invert_limb and udiv_qrnnd_preinv1 (Granlund–Montgomery, "Division by invariant
   integers using multiplication", section 8) return the exact quotient/remainder. *)
From Coq Require Import ZArith List Lia Bool ZifyBool.
From Mpir Require Import Word Limbs DivDefs.
Local Open Scope Z_scope.

(* ---- small generic facts ---- *)
Lemma B_half : B = 2 * (B / 2).
Proof. rewrite B_val. reflexivity. Qed.

Lemma qr_unique N d q r : 0 <= r < d -> N = q * d + r -> (q, r) = (N / d, N mod d).
Proof.
  intros Hr HN. f_equal.
  - apply Z.div_unique with (r := r); lia.
  - apply Z.mod_unique with (q := q); lia.
Qed.

Lemma mul_pos_cancel b x : 0 < b -> 0 <= b * x -> 0 <= x.
Proof. intros Hb Hx. nia. Qed.

Lemma mul_lt_cancel b x y : 0 < b -> b * x < b * y -> x < y.
Proof. intros Hb Hx. nia. Qed.

(* two-limb subtraction without final borrow *)
Lemma sub_ddmmss_spec ah al bh bl :
  limb ah -> limb al -> limb bh -> limb bl ->
  0 <= (ah * B + al) - (bh * B + bl) ->
  let '(sh, sl) := sub_ddmmss ah al bh bl in
  sh * B + sl = (ah * B + al) - (bh * B + bl) /\ limb sh /\ limb sl.
Proof.
  intros Hah Hal Hbh Hbl Hge. unfold sub_ddmmss.
  pose proof (wrap_limb (al - bl)) as Hsl.
  rewrite (wrap_sub_borrow al bl Hal Hbl) in *.
  unfold limb in *. pose proof B_pos as HB.
  assert (Hsh : 0 <= ah - bh - b2z (al <? bl) < B).
  { destruct (Z.ltb_spec al bl) as [Hlt|Hle]; cbn [b2z] in *; nia. }
  rewrite (wrap_small _ Hsh).
  destruct (Z.ltb_spec al bl) as [Hlt|Hle]; cbn [b2z] in *; repeat split; lia.
Qed.

(* ---- invert_limb ---- *)
Lemma invert_limb_spec : forall d, B / 2 <= d < B ->
  invert_limb d = (B * B - 1) / d - B /\ limb (invert_limb d).
Proof.
  intros d Hd. pose proof B_pos as HB. pose proof B_half as Hh.
  assert (E : invert_limb d = (B * B - 1) / d - B).
  { unfold invert_limb, udiv_qrnnd. cbn [fst].
    replace ((B - 1 - d) * B + (B - 1)) with ((B * B - 1) + (- B) * d) by ring.
    rewrite Z.div_add by lia. lia. }
  split; [exact E|]. rewrite E. unfold limb.
  assert (H1 : B <= (B * B - 1) / d) by (apply Z.div_le_lower_bound; nia).
  assert (H2 : (B * B - 1) / d < 2 * B) by (apply Z.div_lt_upper_bound; nia).
  lia.
Qed.

(* (B + di) * d = B^2 - k with 1 <= k <= d *)
Lemma invert_limb_k d : B / 2 <= d < B ->
  exists k, (B + invert_limb d) * d = B * B - k /\ 1 <= k <= d.
Proof.
  intros Hd. destruct (invert_limb_spec d Hd) as [E _]. rewrite E.
  pose proof B_pos as HB. pose proof B_half as Hh.
  assert (Hd0 : 0 < d) by lia.
  pose proof (Z.div_mod (B * B - 1) d ltac:(lia)) as Hdm.
  pose proof (Z.mod_pos_bound (B * B - 1) d Hd0) as Hmb.
  exists (1 + (B * B - 1) mod d). split; [|lia].
  replace (B + ((B * B - 1) / d - B)) with ((B * B - 1) / d) by ring.
  lia.
Qed.

(* ---- the quotient estimate, over an abstract base ---- *)
Lemma preinv_estimate b d di k nh nl q0 ql :
  0 < b -> b <= 2 * d -> d < b ->
  (b + di) * d = b * b - k -> 1 <= k <= d ->
  0 <= nh < d -> 0 <= nl < b ->
  q0 * b + ql = nh * di -> 0 <= ql < b ->
  0 <= nh * b + nl - (q0 + nh) * d < b + 2 * d.
Proof.
  intros Hb Hbd Hdb Hk Hkr Hnh Hnl Hq Hql.
  set (X := nh * b + nl - (q0 + nh) * d).
  assert (E : b * X = b * nl + nh * k + ql * d).
  { assert (Eql : ql = nh * di - q0 * b) by lia.
    assert (Ek : k = b * b - (b + di) * d) by lia.
    subst X. rewrite Eql, Ek. ring. }
  assert (H1 : 0 <= nh * k) by nia.
  assert (H2 : 0 <= ql * d) by nia.
  assert (H3 : 0 <= b * nl) by nia.
  assert (H4 : nh * k <= (d - 1) * d) by nia.
  assert (H5 : ql * d <= (b - 1) * d) by nia.
  assert (H6 : b * nl <= b * (b - 1)) by nia.
  assert (H7 : (d - 1) * d <= (b - 1) * d) by nia.
  split.
  - apply (mul_pos_cancel b); lia.
  - apply (mul_lt_cancel b); [lia|]. rewrite E. nia.
Qed.

(* ---- udiv_qrnnd_preinv1 ---- *)
Lemma preinv1_spec : forall nh nl d, B / 2 <= d < B -> 0 <= nh < d -> limb nl ->
  udiv_qrnnd_preinv1 nh nl d (invert_limb d) = ((nh * B + nl) / d, (nh * B + nl) mod d).
Proof.
  intros nh nl d Hd Hnh Hnl.
  pose proof B_pos as HB. pose proof B_half as Hh.
  destruct (invert_limb_spec d Hd) as [_ Hdi].
  destruct (invert_limb_k d Hd) as [k [Hk Hkr]].
  set (di := invert_limb d) in *.
  assert (Hnhl : limb nh) by (unfold limb; lia).
  assert (Hdl : limb d) by (unfold limb; lia).
  unfold udiv_qrnnd_preinv1.
  pose proof (umul_ppmm_spec nh di Hnhl Hdi) as Hm1.
  destruct (umul_ppmm nh di) as [q0 ql]. destruct Hm1 as [Hq0 [Hq0l Hqll]].
  unfold limb in Hnl, Hq0l, Hqll.
  assert (Hq0' : q0 * B + ql = nh * di) by exact Hq0.
  pose proof (preinv_estimate B d di k nh nl q0 ql HB ltac:(lia) ltac:(lia)
                Hk Hkr Hnh Hnl Hq0' Hqll) as HX.
  set (q := q0 + nh) in *.
  set (N := nh * B + nl) in *.
  assert (HNlt : N < d * B) by (subst N; nia).
  assert (Hq0nn : 0 <= q) by (subst q; lia).
  (* every candidate quotient q + j with (q + j) * d <= N is a limb *)
  assert (Hqj : forall j, 0 <= j -> (q + j) * d <= N -> wrap (q + j) = q + j).
  { intros j Hj Hle. apply wrap_small. split; [lia|].
    assert (Hlt : d * (q + j) < d * B) by lia.
    apply (mul_lt_cancel d); lia. }
  assert (Hwq : wrap q = q).
  { rewrite <- (Z.add_0_r q). apply (Hqj 0); lia. }
  rewrite Hwq.
  assert (Hql' : limb q).
  { rewrite <- Hwq. apply wrap_limb. }
  pose proof (umul_ppmm_spec q d Hql' Hdl) as Hm2.
  destruct (umul_ppmm q d) as [xh0 xl]. destruct Hm2 as [Hx0 [Hxh0l Hxll]].
  assert (Hnll : limb nl) by exact Hnl.
  pose proof (sub_ddmmss_spec nh nl xh0 xl Hnhl Hnll Hxh0l Hxll ltac:(subst N; lia)) as Hs1.
  destruct (sub_ddmmss nh nl xh0 xl) as [xh r]. destruct Hs1 as [Hxr [Hxhl Hrl]].
  assert (HXr : xh * B + r = N - q * d) by (subst N; lia).
  clear Hxr Hx0.
  set (X := N - q * d) in *.
  unfold limb in Hxhl, Hrl.
  destruct (Z.eqb_spec xh 0) as [Hxh0|Hxhn]; cbn [negb].
  - (* X < B *)
    assert (HrX : r = X) by lia.
    destruct (Z.leb_spec d r) as [Hdr|Hdr].
    + rewrite (Hqj 1) by (subst X; lia).
      rewrite wrap_small by lia.
      apply qr_unique; [lia|]. subst X. lia.
    + apply qr_unique; [lia|]. subst X. lia.
  - (* X >= B *)
    assert (HXB : B <= X) by nia.
    assert (H0l : limb 0) by (unfold limb; lia).
    pose proof (sub_ddmmss_spec xh r 0 d Hxhl Hrl H0l Hdl ltac:(lia)) as Hs2.
    destruct (sub_ddmmss xh r 0 d) as [xh1 r1]. destruct Hs2 as [Hxr1 [Hxh1l Hr1l]].
    unfold limb in Hxh1l, Hr1l.
    assert (HX1 : xh1 * B + r1 = X - d) by lia. clear Hxr1.
    rewrite (Hqj 1) by (subst X; lia).
    destruct (Z.eqb_spec xh1 0) as [Hxh10|Hxh1n]; cbn [negb].
    + (* X - d < B *)
      assert (Hr1X : r1 = X - d) by lia.
      destruct (Z.leb_spec d r1) as [Hdr|Hdr].
      * replace (q + 1 + 1) with (q + 2) by ring.
        rewrite (Hqj 2) by (subst X; lia).
        rewrite wrap_small by lia.
        apply qr_unique; [lia|]. subst X. lia.
      * apply qr_unique; [lia|]. subst X. lia.
    + (* X - d >= B, so xh1 = 1 *)
      assert (Hxh1 : xh1 = 1) by nia.
      assert (Hr1X : r1 = X - d - B) by lia.
      replace (q + 1 + 1) with (q + 2) by ring.
      rewrite (Hqj 2) by (subst X; lia).
      assert (Hw : wrap (r1 - d) = X - 2 * d).
      { unfold wrap. symmetry. apply Z.mod_unique with (q := -1); lia. }
      rewrite Hw.
      destruct (Z.leb_spec d (X - 2 * d)) as [Hdr|Hdr].
      * replace (q + 2 + 1) with (q + 3) by ring.
        rewrite (Hqj 3) by (subst X; lia).
        rewrite wrap_small by lia.
        apply qr_unique; [lia|]. subst X. lia.
      * apply qr_unique; [lia|]. subst X. lia.
Qed.
