(* MpzDefs.v — the mpz object and models of the integer functions of C03:
   mpz_add, mpz_sub (mpz/aors.h), mpz_add_ui, mpz_sub_ui (mpz/aors_ui.h),
   mpz_ui_sub, mpz_neg, mpz_abs, mpz_mul_2exp, mpz_set, mpz_swap.
   An mpz is its signed size field and its |size| significant limbs. *)
From Coq Require Import ZArith List Bool.
From Mpir Require Import Word Limbs MpnBasicDefs.
Import ListNotations.
Local Open Scope Z_scope.

Record mpz := mkz { sz : Z; d : list Z }.

Definition value (z : mpz) : Z := Z.sgn (sz z) * eval (d z).

(* the format rules of an mpz_t: |size| limbs, all in range, top limb non-zero *)
Definition mpz_wf (z : mpz) : Prop :=
  Z.abs (sz z) = len (d z) /\ wf (d z) /\ normalized (d z).

(* conversion used by the correspondence driver: |x| as limbs, least significant first *)
Fixpoint limbs_of_pos (fuel : nat) (x : Z) : list Z :=
  match fuel with
  | O => []
  | S f => if x <=? 0 then [] else (x mod B) :: limbs_of_pos f (x / B)
  end.
Definition limbs_of_Z (x : Z) : list Z :=
  limbs_of_pos (S (Z.to_nat (Z.log2 (Z.abs x)))) (Z.abs x).
Definition mpz_of_Z (x : Z) : mpz :=
  let l := limbs_of_Z x in mkz (Z.sgn x * len l) l.

(* pad a limb list with high zeros to n limbs (reading an n-limb C array) *)
Definition pad (l : list Z) (n : nat) : list Z := l ++ repeat 0 (n - length l).
(* MPN_NORMALIZE followed by the sign choice *)
Definition mk_norm (neg : bool) (l : list Z) : mpz :=
  let s := strip l in mkz (if neg then - len s else len s) s.

(* mpz/aors.h with v's size already multiplied by VARIATION *)
Definition aors (u v : mpz) (vneg : bool) : mpz :=
  let usize := sz u in
  let vsize := if vneg then - sz v else sz v in
  (* swap so that abs_usize >= abs_vsize *)
  let '(usize, up, vsize, vp) :=
    if Z.abs usize <? Z.abs vsize then (vsize, d v, usize, d u) else (usize, d u, vsize, d v) in
  if ((usize <? 0) && (0 <=? vsize)) || ((0 <=? usize) && (vsize <? 0)) then
    (* different signs *)
    if negb (Z.abs usize =? Z.abs vsize) then
      mk_norm (usize <? 0) (fst (sub up vp))
    else if cmp up vp <? 0 then
      mk_norm (0 <=? usize) (fst (sub_n vp up))
    else
      mk_norm (usize <? 0) (fst (sub_n up vp))
  else
    let '(w, cy) := add up vp in
    let w' := if cy =? 0 then w else w ++ [cy] in
    mkz (if usize <? 0 then - len w' else len w') w'.

Definition mpz_add (u v : mpz) : mpz := aors u v false.
Definition mpz_sub (u v : mpz) : mpz := aors u v true.

(* mpz/aors_ui.h; [isub] selects the sub_ui variation *)
Definition aors_ui (u : mpz) (vval : Z) (isub : bool) : mpz :=
  let usize := sz u in
  let abs_usize := Z.abs usize in
  if abs_usize =? 0 then
    if vval =? 0 then mkz 0 [] else mkz (if isub then -1 else 1) [vval]
  else if (if isub then usize <? 0 else 0 <=? usize) then
    let '(w, cy) := add_1 (d u) vval in
    let w' := if cy =? 0 then w else w ++ [cy] in
    mkz (if isub then - len w' else len w') w'
  else
    match d u with
    | [u0] =>
        if u0 <? vval then mkz (if isub then -1 else 1) [wrap (vval - u0)]
        else mk_norm (negb isub) (fst (sub_1 (d u) vval))
    | _ => mk_norm (negb isub) (fst (sub_1 (d u) vval))
    end.
Definition mpz_add_ui (u : mpz) (v : Z) : mpz := aors_ui u v false.
Definition mpz_sub_ui (u : mpz) (v : Z) : mpz := aors_ui u v true.

(* mpz/ui_sub.c *)
Definition mpz_ui_sub (uval : Z) (v : mpz) : mpz :=
  let vn := sz v in
  if 1 <? vn then mk_norm true (fst (sub_1 (d v) uval))
  else if vn =? 1 then
    match d v with
    | v0 :: _ =>
        if v0 <=? uval then mk_norm false [wrap (uval - v0)]
        else mkz (-1) [wrap (v0 - uval)]
    | [] => mkz 0 []
    end
  else if vn =? 0 then mk_norm false [uval]
  else
    let '(w, cy) := add_1 (d v) uval in
    let w' := if cy =? 0 then w else w ++ [cy] in
    mkz (len w') w'.

Definition mpz_neg (u : mpz) : mpz := mkz (- sz u) (d u).
Definition mpz_abs (u : mpz) : mpz := mkz (Z.abs (sz u)) (d u).
Definition mpz_set (u : mpz) : mpz := mkz (sz u) (d u).
Definition mpz_swap (u v : mpz) : mpz * mpz := (v, u).

(* mpz/mul_2exp.c *)
Definition mpz_mul_2exp (u : mpz) (cnt : Z) : mpz :=
  if sz u =? 0 then mkz 0 []
  else
    let limb_cnt := Z.to_nat (cnt / 64) in
    let c := cnt mod 64 in
    let hi :=
      if negb (c =? 0) then
        let '(w, wlimb) := lshift (d u) c in
        if negb (wlimb =? 0) then w ++ [wlimb] else w
      else d u in
    let w := repeat 0 limb_cnt ++ hi in
    mkz (if 0 <=? sz u then len w else - len w) w.
