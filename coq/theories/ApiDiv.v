(* ApiDiv.v — correspondence entry points for C02.  Definitions only.
   A division by zero is printed as the empty byte string (the DivByZero tag). *)
From Coq Require Import ZArith List Bool.
From Mpir Require Import Word Limbs MpnBasicDefs MpzDefs DivDefs ApiBasic DcDivDefs SbDivDefs.
Import ListNotations.
From MpirGen Require Import Gen_Tables.
Local Open Scope Z_scope.

Definition out_zval (x : Z) : list tok := [TZ x; TZ (sz (mpz_of_Z x))].
Definition dz : list tok := [TB []].

Definition api_invert_limb : api := fun a => [TZ (invert_limb (argz a 0))].
Definition api_udiv_preinv1 : api := fun a =>
  let d := argz a 2 in let '(q, r) := udiv_qrnnd_preinv1 (argz a 0) (argz a 1) d (invert_limb d) in [TZ q; TZ r].
(* preinv2 is the branch-free variant of the same contract: compared with the specification *)
Definition api_udiv_preinv2 : api := fun a =>
  let '(q, r) := udiv_qrnnd (argz a 0) (argz a 1) (argz a 2) in [TZ q; TZ r].
Definition api_invert_pi1 : api := fun a => [TZ (invert_pi1 (argz a 0) (argz a 1))].
Definition api_udiv_3by2 : api := fun a =>
  let d1 := argz a 3 in let d0 := argz a 4 in
  let '(q, r1, r0) := udiv_qr_3by2 (argz a 0) (argz a 1) (argz a 2) d1 d0 (invert_pi1 d1 d0) in [TZ q; TZ r1; TZ r0].

Definition api_mpn_divrem_1 : api := fun a =>
  let '(q, r) := divrem_1 (arglimbs a 0 1) (argz a 2) in [TZ (eval q); TZ r].
Definition api_mpn_mod_1 : api := fun a => [TZ (mod_1 (arglimbs a 0 1) (argz a 2))].
(* nn N dn D *)
Definition api_mpn_tdiv_qr : api := fun a => [TZ (argz a 1 / argz a 3); TZ (argz a 1 mod argz a 3)].
Definition api_mpn_divrem : api := api_mpn_tdiv_qr.
Definition api_mpn_divexact_by3 : api := fun a => [TZ (argz a 1 / 3); TZ 0].

Definition out_qr (r : res (Z * Z)) : list tok :=
  match r with DivByZero => dz | Ok (q, r) => out_zval q ++ out_zval r end.
Definition out_q (r : res (Z * Z)) : list tok := match r with DivByZero => dz | Ok (q, _) => out_zval q end.
Definition out_r (r : res (Z * Z)) : list tok := match r with DivByZero => dz | Ok (_, r) => out_zval r end.
Definition api_mpz_tdiv_qr : api := fun a => out_qr (tdiv_qr (argz a 0) (argz a 1)).
Definition api_mpz_fdiv_qr : api := fun a => out_qr (fdiv_qr (argz a 0) (argz a 1)).
Definition api_mpz_cdiv_qr : api := fun a => out_qr (cdiv_qr (argz a 0) (argz a 1)).
Definition api_mpz_tdiv_q : api := fun a => out_q (tdiv_qr (argz a 0) (argz a 1)).
Definition api_mpz_fdiv_q : api := fun a => out_q (fdiv_qr (argz a 0) (argz a 1)).
Definition api_mpz_cdiv_q : api := fun a => out_q (cdiv_qr (argz a 0) (argz a 1)).
Definition api_mpz_tdiv_r : api := fun a => out_r (tdiv_qr (argz a 0) (argz a 1)).
Definition api_mpz_fdiv_r : api := fun a => out_r (fdiv_qr (argz a 0) (argz a 1)).
Definition api_mpz_cdiv_r : api := fun a => out_r (cdiv_qr (argz a 0) (argz a 1)).
Definition api_mpz_mod : api := fun a =>
  match mpz_mod (argz a 0) (argz a 1) with DivByZero => dz | Ok r => out_zval r end.
Definition api_mpz_divexact : api := fun a =>
  match divexact (argz a 0) (argz a 1) with DivByZero => dz | Ok q => out_zval q end.

Definition out3 (sel : Z) (r : res (Z * Z * Z)) : list tok :=
  match r with
  | DivByZero => dz
  | Ok (q, r, ret) =>
      (if sel =? 0 then out_zval q ++ out_zval r else if sel =? 1 then out_zval q else if sel =? 2 then out_zval r else [])
      ++ [TZ ret]
  end.
Definition api_mpz_tdiv_qr_ui : api := fun a => out3 0 (tdiv_qr_ui (argz a 0) (argz a 1)).
Definition api_mpz_fdiv_qr_ui : api := fun a => out3 0 (fdiv_qr_ui (argz a 0) (argz a 1)).
Definition api_mpz_cdiv_qr_ui : api := fun a => out3 0 (cdiv_qr_ui (argz a 0) (argz a 1)).
Definition api_mpz_tdiv_q_ui : api := fun a => out3 1 (tdiv_qr_ui (argz a 0) (argz a 1)).
Definition api_mpz_fdiv_q_ui : api := fun a => out3 1 (fdiv_qr_ui (argz a 0) (argz a 1)).
Definition api_mpz_cdiv_q_ui : api := fun a => out3 1 (cdiv_qr_ui (argz a 0) (argz a 1)).
Definition api_mpz_tdiv_r_ui : api := fun a => out3 2 (tdiv_qr_ui (argz a 0) (argz a 1)).
Definition api_mpz_fdiv_r_ui : api := fun a => out3 2 (fdiv_qr_ui (argz a 0) (argz a 1)).
Definition api_mpz_cdiv_r_ui : api := fun a => out3 2 (cdiv_qr_ui (argz a 0) (argz a 1)).
Definition api_mpz_tdiv_ui : api := fun a => out3 3 (tdiv_qr_ui (argz a 0) (argz a 1)).
Definition api_mpz_fdiv_ui : api := fun a => out3 3 (fdiv_qr_ui (argz a 0) (argz a 1)).
Definition api_mpz_cdiv_ui : api := fun a => out3 3 (cdiv_qr_ui (argz a 0) (argz a 1)).
Definition api_mpz_mod_ui : api := fun a => out3 2 (fdiv_qr_ui (argz a 0) (argz a 1)).
Definition api_mpz_divexact_ui : api := fun a =>
  match divexact (argz a 0) (argz a 1) with DivByZero => dz | Ok q => out_zval q end.

Definition api_mpz_tdiv_q_2exp : api := fun a => out_zval (tdiv_q_2exp (argz a 0) (argz a 1)).
Definition api_mpz_fdiv_q_2exp : api := fun a => out_zval (cfdiv_q_2exp (argz a 0) (argz a 1) (-1)).
Definition api_mpz_cdiv_q_2exp : api := fun a => out_zval (cfdiv_q_2exp (argz a 0) (argz a 1) 1).
Definition api_mpz_tdiv_r_2exp : api := fun a => out_zval (tdiv_r_2exp (argz a 0) (argz a 1)).
Definition api_mpz_fdiv_r_2exp : api := fun a => out_zval (cfdiv_r_2exp (argz a 0) (argz a 1) (-1)).
Definition api_mpz_cdiv_r_2exp : api := fun a => out_zval (cfdiv_r_2exp (argz a 0) (argz a 1) 1).

Definition api_mpz_divisible_p : api := fun a => [TZ (b2z (divisible_p (argz a 0) (argz a 1)))].
Definition api_mpz_divisible_ui_p : api := api_mpz_divisible_p.
Definition api_mpz_divisible_2exp_p : api := fun a => [TZ (b2z (divisible_2exp_p (argz a 0) (argz a 1)))].
Definition api_mpz_congruent_p : api := fun a => [TZ (b2z (congruent_p (argz a 0) (argz a 1) (argz a 2)))].
Definition api_mpz_congruent_ui_p : api := api_mpz_congruent_p.
Definition api_mpz_congruent_2exp_p : api := fun a => [TZ (b2z (congruent_2exp_p (argz a 0) (argz a 1) (argz a 2)))].

(* certificate for a large division: N D Q R -> 1 iff 0 <= R < |D| and N = Q D + R modulo the four moduli *)
Definition api_divcheck : api := fun a =>
  let n := argz a 0 in let d := argz a 1 in let q := argz a 2 in let r := argz a 3 in
  [TZ (b2z ((0 <=? r) && (r <? Z.abs d) && divcheck_residues n d q r))].

(* mpn_dc_div_qr_n n N D : the divide-and-conquer model with the threshold of the table in the tree, exact base case,
   four iterations allowed to each correction loop (theorem C02_dc_div_qr_n: never more are needed) *)
Definition api_mpn_dc_div_qr_n : api := fun t =>
  let n := argz t 0 in
  let '(qh, q, r) := dc_div_qr_n exact_basediv 64 4 (Z.max 6 thr_DC_DIV_QR_THRESHOLD) n (argz t 1) (argz t 2) in
  [TZ qh; TZ q; TZ r].

(* mpn_sb_div_qr nn N dn D : the schoolbook model (3-by-2 estimate per quotient limb, add-back) *)
Definition api_mpn_sb_div_qr : api := fun t =>
  let '(qh, q, r) := sb_div_qr (argz t 0) (argz t 2) (argz t 1) (argz t 3) in [TZ qh; TZ q; TZ r].
