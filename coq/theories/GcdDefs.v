(* GcdDefs.v — models behind C07: the binary gcd of mpn_gcd_1 (odd parts, subtract and strip),
   extended Euclid with the manual's normalisation of the cofactors, the mpz wrappers
   (gcdext operand swap and t = (g - a s)/b, lcm, invert's range fix-up) and the Kronecker symbol
   by the binary reciprocity algorithm.  Definitions only. *)
From Coq Require Import ZArith List Bool.
From Mpir Require Import Word DivDefs.
Import ListNotations.
Local Open Scope Z_scope.

(* ---- mpn_gcd_1: both odd: u <- |u - v| with its trailing zeros removed, v <- min (u, v) ---- *)
Definition strip2 (x : Z) : Z := x / 2 ^ ctz x.          (* odd part of x > 0 *)
Fixpoint bin_gcd_odd (fuel : nat) (u v : Z) : Z :=
  match fuel with
  | O => u
  | S f => if u =? v then u
           else let t := Z.abs (u - v) in bin_gcd_odd f (strip2 t) (Z.min u v)
  end.
(* gcd of two non-zero limbs (or of a multi-limb u reduced modulo v first) *)
Definition gcd_1 (u v : Z) : Z :=
  let zb := Z.min (ctz u) (ctz v) in
  let vo := strip2 v in
  let ur := if vo <? u then u mod vo else u in      (* "if u is much bigger, reduce by a division" *)
  if ur =? 0 then vo * 2 ^ zb
  else bin_gcd_odd (Z.to_nat (Z.log2 (Z.max u v)) * 2 + 2) (strip2 ur) vo * 2 ^ zb.

(* ---- extended Euclid on non-negative operands: (g, s, t) with a s + b t = g ---- *)
Fixpoint egcd (fuel : nat) (a b : Z) : Z * Z * Z :=
  match fuel with
  | O => (a, 1, 0)
  | S f => if b =? 0 then (a, 1, 0)
           else let '(g, s, t) := egcd f b (a mod b) in (g, t, s - (a / b) * t)
  end.
Definition egcd_fuel (a b : Z) : nat := Z.to_nat (2 * Z.log2 (Z.max a b) + 4).

(* mpz_gcdext (g, s, t, a, b) with the manual's cofactors: g >= 0, a s + b t = g, and for
   a, b <> 0 the unique s with |s| < |b| / (2 g) (exceptional cases as the manual lists them:
   |a| = |b| gives s = 0, t = sgn b; |b| = 2 g gives s = sgn a; s = 0 only if g = |b|) *)
Definition gcdext (a b : Z) : Z * Z * Z :=
  if b =? 0 then (Z.abs a, Z.sgn a, 0)
  else if a =? 0 then (Z.abs b, 0, Z.sgn b)
  else
    let aa := Z.abs a in let ab := Z.abs b in
    let '(g, s0, _) := egcd (egcd_fuel aa ab) aa ab in
    let b' := ab / g in
    (* representative of s0 modulo b' with the least absolute value; ties (b' = 2) go to +1 *)
    let r := s0 mod b' in
    let s' := if 2 * r <=? b' then r else r - b' in
    let s' := if (ab =? aa) then 0 else s' in
    let s := Z.sgn a * s' in
    (g, s, (g - a * s) / b).

Definition mpz_gcd (a b : Z) : Z := Z.gcd a b.
Definition mpz_lcm (a b : Z) : Z := if (a =? 0) || (b =? 0) then 0 else Z.abs (a * b) / Z.gcd a b.
(* mpz_invert: 0 (no inverse) for x = 0 or |n| = 1 or gcd <> 1; else the inverse in [0, |n|) *)
Definition mpz_invert (x n : Z) : option Z :=
  if (x =? 0) || (Z.abs n =? 1) || (n =? 0) then None
  else
    let '(g, s, _) := gcdext x n in
    if negb (g =? 1) then None
    else Some (if s <? 0 then s + Z.abs n else s).

(* ---- Kronecker symbol ---- *)
(* (2 / n) for odd n: +1 if n = +-1 mod 8, -1 if n = +-3 mod 8 *)
Definition two_over (n : Z) : Z := let r := n mod 8 in if (r =? 1) || (r =? 7) then 1 else -1.
(* Jacobi symbol (a / n), n odd positive: reduce a mod n, pull out twos, swap by reciprocity *)
Fixpoint jacobi_loop (fuel : nat) (a n sign : Z) : Z :=
  match fuel with
  | O => 0
  | S f =>
      let a := a mod n in
      if a =? 0 then (if n =? 1 then sign else 0)
      else
        let k := ctz a in
        let a' := a / 2 ^ k in
        let sign := if Z.odd k then sign * two_over n else sign in
        (* reciprocity: (a'/n) = (n/a') (-1)^((a'-1)/2 (n-1)/2) *)
        let sign := if (a' mod 4 =? 3) && (n mod 4 =? 3) then - sign else sign in
        jacobi_loop f n a' sign
  end.
Definition jacobi (a n : Z) : Z := jacobi_loop (Z.to_nat (2 * Z.log2 n + 4)) a n 1.
(* Kronecker extension to any b: (a/0) = [|a| = 1]; (a/-1) = -1 iff a < 0; (a/2) = (2/a) for odd a, 0 for even a *)
Definition kronecker (a b : Z) : Z :=
  if b =? 0 then (if Z.abs a =? 1 then 1 else 0)
  else if Z.even a && Z.even b then 0
  else
    let k := ctz (Z.abs b) in
    let bo := Z.abs b / 2 ^ k in
    let s1 := if (b <? 0) && (a <? 0) then -1 else 1 in
    let s2 := if Z.odd k then two_over a else 1 in
    s1 * s2 * jacobi a bo.
