(* Toom4Defs.v — value-level model of MPIR's Toom-4 multiplication as coded in
   mpn/generic/toom4_mul_n.c (mpn_toom4_mul_n and mpn_toom4_interpolate, the latter in the
   same file).  Definitions only; the proofs are in Toom4Proofs.v.

   Values, not limb arrays: an operand {up, n} is the integer 0 <= a < B^n, B = 2^64.
   The code takes sn = (n + 3) / 4 (written k here), h1 = n - 3 sn and reads
       a0 = {up, sn}  a1 = {up + sn, sn}  a2 = {up + 2sn, sn}  a3 = {up + 3sn, h1}
   i.e. a = a0 + a1 B^k + a2 B^(2k) + a3 B^(3k) with a0, a1, a2 < B^k, a3 < B^h1.  The
   recursive products (MUL_TC4_UNSIGNED / MUL_TC4: mpn_mul_n, mpn_toom4_mul_n again, or
   mpn_mul for the top parts) go through the parameter [mulrec].

   Seven evaluation points: oo, 2, 1, -1, 1/2, -1/2, 0; the two at +-1/2 are scaled, the
   code evaluates 8 a(1/2) = 8 a0 + 4 a1 + 2 a2 + a3, so the product is 64 p(1/2).

   Every intermediate carries the name of the C object that holds it (r1 .. r7 are the
   seven product areas, u2 .. u6 the sn+1-limb scratch areas).

   Signs.  In mpn_toom4_mul_n a signed intermediate is an unsigned magnitude in a limb
   area plus an mp_size_t whose sign is the sign of the value (n4, n5, n6, n8); so is it
   here: the magnitude is a Z >= 0 and the size field is modelled by its sign, a Z in
   {-1, 0, 1} ({-1, 1} straight after the mpn_cmp, where the C size is +-(sn+1) even for a
   zero magnitude).  mpn_toom4_interpolate only ever tests  n4 < 0  and  n6 < 0.
   Inside mpn_toom4_interpolate the areas r2 .. r6 are s4 = 2sn+1 limbs of two's complement
   (the code says so: "r6 is now in twos complement format"); the model has signed
   integers (Z) there.  Additions, subtractions and multiplications by small constants are
   the same function on both sides modulo B^s4; TC4_RSHIFT1 is an arithmetic shift = Z's
   floor division by 2; mpn_rshift (logical) and mpn_divexact_by3 / mpn_divexact_byfobm1
   (unsigned) agree with Z's [/] when the operand is >= 0 and below B^s4, which
   Toom4Proofs.toom4_interpolate_trace_range / toom4_dividends_nonneg show at each of
   those places.  Toom4Proofs.toom4_divisions_exact shows each dividend is a multiple of
   its divisor.

   This build has none of HAVE_NATIVE_mpn_addlsh_n, _addlsh1_n, _sublsh_n, _subadd_n,
   _rshift1 (config.h); the model writes the generic branches.  The native branches
   compute the same values in another order (noted at each place). *)
From Coq Require Import ZArith List.
From Mpir Require Import Toom3Defs.   (* Bpow k = 2 ^ (64 * k) *)
Import ListNotations.
Local Open Scope Z_scope.

(* ---- splitting ---------------------------------------------------------------- *)

(* {x, k}, {x + k, k}, {x + 2k, k}, {x + 3k, h1}: the last chunk is whatever is left
   above 3k limbs. *)
Definition toom4_part0 (k x : Z) : Z := x mod Bpow k.
Definition toom4_part1 (k x : Z) : Z := (x / Bpow k) mod Bpow k.
Definition toom4_part2 (k x : Z) : Z := (x / Bpow (2 * k)) mod Bpow k.
Definition toom4_part3 (k x : Z) : Z := x / Bpow (3 * k).

(* ---- evaluation (mpn_toom4_mul_n up to the call of mpn_toom4_interpolate) -------- *)

(* n = sn + 1;
   if (mpn_cmp (x, y, sn + 1) >= 0) mpn_sub_n (d, x, y, sn + 1);
   else { mpn_sub_n (d, y, x, sn + 1); n = -n; }
   The sign of the size field n, then the magnitude d. *)
Definition toom4_cmp_sign (x y : Z) : Z := if y <=? x then 1 else -1.
Definition toom4_absdiff (s x y : Z) : Z := if 0 <? s then x - y else y - x.

(* MUL_TC4 (r, n, x, n1, y, n2):
     sign = n1 ^ n2;  r = |x| * |y|;  n = n1 + n2 limbs, MPN_NORMALIZEd (0 for a zero
     product);  if (sign < 0) n = -n;
   n1 ^ n2 is negative exactly when one of n1, n2 is negative.  The result is the sign of
   the new size field n, given the product v >= 0. *)
Definition toom4_mul_sign (n1 n2 v : Z) : Z :=
  if n1 * n2 <? 0 then - Z.sgn v else Z.sgn v.

(* The even and the odd half of 8 x(1/2) = 8 x0 + 4 x1 + 2 x2 + x3.
   generic:   r1[sn] = mpn_lshift (r1, x2, sn, 1);  r1[sn] += mpn_addmul_1 (r1, x0, sn, 8);
   native:    r1 <- x2 + 4 x0 (mpn_addlsh_n .. 2);  r1 <- 2 r1 (mpn_lshift .. 1)          *)
Definition toom4_evalh_even (x0 x2 : Z) : Z :=
  let r1 := 2 * x2 in
  r1 + 8 * x0.

(* generic:   MPN_COPY (r2, x3, h1);  cy = mpn_addmul_1 (r2, x1, h1, 4);
              if (sn > h1) { the remaining sn - h1 limbs of x1, shifted by 2, plus cy }
              r2[sn] = cy;
   native:    cy = mpn_addlsh_n (r2, x3, x1, h1, 2), then the same tail.                   *)
Definition toom4_evalh_odd (x1 x3 : Z) : Z :=
  let r2 := x3 in
  r2 + 4 * x1.

(* x0 + 2 x1 + 4 x2 + 8 x3.
   generic:   MPN_COPY (u2, x0, sn);  u2[sn] = mpn_addmul_1 (u2, x1, sn, 2);
              u2[sn] += mpn_addmul_1 (u2, x2, sn, 4);  cy = mpn_addmul_1 (u2, x3, h1, 8); ..
   native:    u2 <- x2 + 2 x3;  u2 <- x1 + 2 u2;  u2 <- x0 + 2 u2   (Horner)               *)
Definition toom4_eval2 (x0 x1 x2 x3 : Z) : Z :=
  let u2 := x0 in
  let u2 := u2 + 2 * x1 in
  let u2 := u2 + 4 * x2 in
  u2 + 8 * x3.

(* What mpn_toom4_mul_n hands to mpn_toom4_interpolate. *)
Record toom4_points : Set := mk_toom4_points {
  pt4_r1 : Z;   (* {tp, ..}            p(oo)      = a3 * b3                            *)
  pt4_r2 : Z;   (* {tp + t4, ..}       p(2)       = (a0+2a1+4a2+8a3) * (b0+..)          *)
  pt4_r3 : Z;   (* {rp + 4sn, ..}      p(1)       = (a0+a1+a2+a3) * (b0+..)             *)
  pt4_r4 : Z;   (* {tp + 2 t4, ..}     |p(-1)|    = |a0-a1+a2-a3| * |b0-..| (magnitude) *)
  pt4_r5 : Z;   (* {rp + 2sn, ..}      64 p(1/2)  = (8a0+4a1+2a2+a3) * (8b0+..)         *)
  pt4_r6 : Z;   (* {tp + 3 t4, ..}     |64 p(-1/2)| = |8a0-4a1+2a2-a3| * |..| (magnitude) *)
  pt4_r7 : Z;   (* {rp, 2sn}           p(0)       = a0 * b0                            *)
  pt4_n4 : Z;   (* mp_size_t n4 after MUL_TC4: its sign is the sign of p(-1)           *)
  pt4_n6 : Z    (* mp_size_t n6 after MUL_TC4: its sign is the sign of p(-1/2)         *)
}.

Definition toom4_eval (mulrec : Z -> Z -> Z) (a0 a1 a2 a3 b0 b1 b2 b3 : Z) : toom4_points :=
  (* u6[sn] = mpn_add (u6, a1, sn, a3, h1) *)
  let u6 := a1 + a3 in
  (* u5[sn] = mpn_add_n (u5, a2, a0, sn) *)
  let u5 := a2 + a0 in
  (* mpn_add_n (u3, u5, u6, sn + 1) *)
  let u3 := u5 + u6 in
  (* n4 = sn + 1; if (mpn_cmp (u5, u6, sn + 1) >= 0) u4 = u5 - u6 else { u4 = u6 - u5; n4 = -n4; } *)
  let n4 := toom4_cmp_sign u5 u6 in
  let u4 := toom4_absdiff n4 u5 u6 in
  (* u6[sn] = mpn_add (u6, b1, sn, b3, h1) *)
  let u6 := b1 + b3 in
  (* u5[sn] = mpn_add_n (u5, b2, b0, sn) *)
  let u5 := b2 + b0 in
  (* mpn_add_n (r2, u5, u6, sn + 1) *)
  let r2 := u5 + u6 in
  (* n5 = sn + 1; if (mpn_cmp (u5, u6, sn + 1) >= 0) u5 = u5 - u6 else { u5 = u6 - u5; n5 = -n5; } *)
  let n5 := toom4_cmp_sign u5 u6 in
  let u5 := toom4_absdiff n5 u5 u6 in
  (* MUL_TC4_UNSIGNED (r3, n3, u3, sn + 1, r2, sn + 1);   1 *)
  let r3 := mulrec u3 r2 in
  (* MUL_TC4 (r4, n4, u4, n4, u5, n5);   -1 *)
  let r4 := mulrec u4 u5 in
  let n4 := toom4_mul_sign n4 n5 r4 in
  (* r1 <- 2 a2 + 8 a0 ;  r2 <- a3 + 4 a1 *)
  let r1 := toom4_evalh_even a0 a2 in
  let r2 := toom4_evalh_odd a1 a3 in
  (* mpn_add_n (u5, r1, r2, sn + 1) *)
  let u5 := r1 + r2 in
  (* n6 = sn + 1; if (mpn_cmp (r1, r2, sn + 1) >= 0) u6 = r1 - r2 else { u6 = r2 - r1; n6 = -n6; } *)
  let n6 := toom4_cmp_sign r1 r2 in
  let u6 := toom4_absdiff n6 r1 r2 in
  (* r1 <- 2 b2 + 8 b0 ;  r2 <- b3 + 4 b1 *)
  let r1 := toom4_evalh_even b0 b2 in
  let r2 := toom4_evalh_odd b1 b3 in
  (* mpn_add_n (u2, r1, r2, sn + 1) *)
  let u2 := r1 + r2 in
  (* n8 = sn + 1; if (mpn_cmp (r1, r2, sn + 1) >= 0) r2 = r1 - r2 else { r2 = r2 - r1; n8 = -n8; } *)
  let n8 := toom4_cmp_sign r1 r2 in
  let r2 := toom4_absdiff n8 r1 r2 in
  (* r30 = r3[0]; r31 = r3[1];  (r5's top two limbs land on r3's low two)
     MUL_TC4_UNSIGNED (r5, n5, u5, sn + 1, u2, sn + 1);   1/2 *)
  let r5 := mulrec u5 u2 in
  (* MUL_TC4 (r6, n6, u6, n6, r2, n8);   -1/2 *)
  let r6 := mulrec u6 r2 in
  let n6 := toom4_mul_sign n6 n8 r6 in
  (* r3[1] = r31;   (no change of value: r5 < B^(2sn+1), toom4_bounds) *)
  (* u2 <- a0 + 2 a1 + 4 a2 + 8 a3 ;  r1 <- b0 + 2 b1 + 4 b2 + 8 b3 *)
  let u2 := toom4_eval2 a0 a1 a2 a3 in
  let r1 := toom4_eval2 b0 b1 b2 b3 in
  (* MUL_TC4_UNSIGNED (r2, n2, u2, sn + 1, r1, sn + 1);   2 *)
  let r2 := mulrec u2 r1 in
  (* MUL_TC4_UNSIGNED (r1, n1, a3, h1, b3, h1);   oo *)
  let r1 := mulrec a3 b3 in
  (* MUL_TC4_UNSIGNED (r7, n7, a0, sn, b0, sn);   0 *)
  let r7 := mulrec a0 b0 in
  (* TC4_DENORM (r1, n1, t4 - 1);   zero limbs above r1, no change of value *)
  mk_toom4_points r1 r2 r3 r4 r5 r6 r7 n4 n6.

(* ---- interpolation (mpn_toom4_interpolate), one [let] per statement ----------- *)

(* if (n < 0) mpn_add_n (d, x, m, s4); else mpn_sub_n (d, x, m, s4);
   x minus the signed value whose magnitude is m and whose size field is n.
   Used twice: r6 <- r5 - r6 (n6) and r4 <- r3 - r4 (n4). *)
Definition toom4_step_sub_signed (n x m : Z) : Z :=
  if n <? 0 then x + m else x - m.

(* The dividends of the eight exact divisions of mpn_toom4_interpolate, and the
   intermediates they are built from, named so that Toom4Proofs.toom4_divisions_exact can
   speak about them.  In program order:
     TC4_RSHIFT1 (r4, s4)                  toom4_dividend_half1     / 2
     mpn_rshift (r5, r5, s4, 3)            toom4_dividend_shift3    / 8
     mpn_divexact_by3 (r5, r5, s4)         toom4_dividend_by3_r5    / 3
     mpn_rshift (r2, r2, s4, 1)            toom4_dividend_half2     / 2
     mpn_divexact_by3 (r2, r2, s4)         toom4_dividend_by3_r2a   / 3
     mpn_divexact_by3 (r2, r2, s4)         toom4_dividend_by3_r2b   / 3
     mpn_divexact_byfobm1 (r6, .., 15, ..) toom4_dividend_by15      / 15
     mpn_rshift (r6, r6, s4, 2)            toom4_dividend_shift2    / 4               *)

(* r6 after  r6 <- r5 -/+ r6 *)
Definition toom4_r6a (p : toom4_points) : Z :=
  toom4_step_sub_signed (pt4_n6 p) (pt4_r5 p) (pt4_r6 p).
(* r4 after  r4 <- r3 -/+ r4 : the operand of TC4_RSHIFT1 *)
Definition toom4_dividend_half1 (p : toom4_points) : Z :=
  toom4_step_sub_signed (pt4_n4 p) (pt4_r3 p) (pt4_r4 p).
(* r4 after the shift *)
Definition toom4_r4h (p : toom4_points) : Z := toom4_dividend_half1 p / 2.
(* r3 after  r3 <- r3 - r4 *)
Definition toom4_r3a (p : toom4_points) : Z := pt4_r3 p - toom4_r4h p.
(* r3 after  r3 <- r3 - r7 - r1 *)
Definition toom4_r3b (p : toom4_points) : Z := toom4_r3a p - pt4_r7 p - pt4_r1 p.
(* r5 just before mpn_rshift (r5, r5, s4, 3) *)
Definition toom4_dividend_shift3 (p : toom4_points) : Z :=
  2 * (pt4_r5 p - pt4_r1 p - 64 * pt4_r7 p) - toom4_r6a p - 8 * toom4_r3b p.
Definition toom4_dividend_by3_r5 (p : toom4_points) : Z := toom4_dividend_shift3 p / 8.
(* r2 after  r2 += r5 ; r2 -= 65 r3 ; r2 += 45 r3 *)
Definition toom4_r2c (p : toom4_points) : Z :=
  pt4_r2 p + pt4_r5 p - 65 * toom4_r3a p + 45 * toom4_r3b p.
(* r2 just before mpn_rshift (r2, r2, s4, 1) *)
Definition toom4_dividend_half2 (p : toom4_points) : Z := toom4_r2c p - 16 * toom4_r4h p.
Definition toom4_dividend_by3_r2a (p : toom4_points) : Z := toom4_dividend_half2 p / 2.
Definition toom4_dividend_by3_r2b (p : toom4_points) : Z := toom4_dividend_by3_r2a p / 3.
(* r2 after the second mpn_divexact_by3 *)
Definition toom4_r2f (p : toom4_points) : Z := toom4_dividend_by3_r2b p / 3.
(* r6 just before mpn_divexact_byfobm1 (.., 15, ..) *)
Definition toom4_dividend_by15 (p : toom4_points) : Z :=
  toom4_r6a p - toom4_r2c p + 30 * toom4_r2f p.
Definition toom4_dividend_shift2 (p : toom4_points) : Z := toom4_dividend_by15 p / 15.

(* The seven coefficient areas as they stand just before the closing additions into rp. *)
Record toom4_coeffs : Set := mk_toom4_coeffs {
  co4_0 : Z;   (* r7 *)
  co4_1 : Z;   (* r6 *)
  co4_2 : Z;   (* r5 *)
  co4_3 : Z;   (* r4 *)
  co4_4 : Z;   (* r3 *)
  co4_5 : Z;   (* r2 *)
  co4_6 : Z    (* r1 *)
}.

(* The r3[0] / r30 / saved / saved2 traffic of the C code is limb bookkeeping for the
   overlaps  r5[s4-1] == r3[0]  and  r7[s4-1] == r5[0]  (r7, r5, r3 live in rp, 2sn limbs
   apart, each s4 = 2sn+1 limbs long): whenever r3 is an operand its true low limb r30 is
   put in place, whenever r7 is an s4-limb operand its limb s4-1 is forced to 0, and when
   r5 is the destination of an s4-limb operation the top limb is done separately on
   r3[0].  At value level each such group is the plain operation written next to it. *)
Definition toom4_interpolate (p : toom4_points) : toom4_coeffs :=
  let r1 := pt4_r1 p in
  let r2 := pt4_r2 p in
  let r3 := pt4_r3 p in
  let r4 := pt4_r4 p in
  let r5 := pt4_r5 p in
  let r6 := pt4_r6 p in
  let r7 := pt4_r7 p in
  let n4 := pt4_n4 p in
  let n6 := pt4_n6 p in
  (* mpn_add_n (r2, r2, r5, s4) *)
  let r2 := r2 + r5 in
  (* if (n6 < 0) mpn_add_n (r6, r5, r6, s4); else mpn_sub_n (r6, r5, r6, s4); *)
  let r6 := toom4_step_sub_signed n6 r5 r6 in
  (* if (n4 < 0) mpn_add_n (r4, r3, r4, s4); else mpn_sub_n (r4, r3, r4, s4); *)
  let r4 := toom4_step_sub_signed n4 r3 r4 in
  (* mpn_sub_n (r5, r5, r1, s4) *)
  let r5 := r5 - r1 in
  (* r5[s4-1] -= mpn_submul_1 (r5, r7, s4-1, 64)       [native: mpn_sublsh_n .. 6] *)
  let r5 := r5 - 64 * r7 in
  (* TC4_RSHIFT1 (r4, s4)                                arithmetic shift right by 1 *)
  let r4 := r4 / 2 in
  (* mpn_sub_n (r3, r3, r4, s4) *)
  let r3 := r3 - r4 in
  (* mpn_double (r5, s4) *)
  let r5 := 2 * r5 in
  (* mpn_sub_n (r5, r5, r6, s4) *)
  let r5 := r5 - r6 in
  (* mpn_submul_1 (r2, r3, s4, 65) *)
  let r2 := r2 - 65 * r3 in
  (* mpn_sub_n (r3, r3, r7, s4); mpn_sub_n (r3, r3, r1, s4);   [native: mpn_subadd_n] *)
  let r3 := r3 - r7 in
  let r3 := r3 - r1 in
  (* mpn_addmul_1 (r2, r3, s4, 45) *)
  let r2 := r2 + 45 * r3 in
  (* cy = mpn_submul_1 (r5, r3, s4 - 1, 8); r3[0] -= (cy + 8*r3[s4-1]);   [native: sublsh 3] *)
  let r5 := r5 - 8 * r3 in
  (* mpn_rshift (r5, r5, s4, 3) *)
  let r5 := r5 / 8 in
  (* mpn_divexact_by3 (r5, r5, s4) *)
  let r5 := r5 / 3 in
  (* mpn_sub_n (r6, r6, r2, s4) *)
  let r6 := r6 - r2 in
  (* mpn_submul_1 (r2, r4, s4, 16)                      [native: mpn_sublsh_n .. 4] *)
  let r2 := r2 - 16 * r4 in
  (* mpn_rshift (r2, r2, s4, 1) *)
  let r2 := r2 / 2 in
  (* mpn_divexact_by3 (r2, r2, s4) *)
  let r2 := r2 / 3 in
  (* mpn_divexact_by3 (r2, r2, s4) *)
  let r2 := r2 / 3 in
  (* cy = mpn_sub_n (r3, r3, r5, s4 - 1); r3[s4-1] -= (cy + r5[s4-1]); *)
  let r3 := r3 - r5 in
  (* mpn_sub_n (r4, r4, r2, s4) *)
  let r4 := r4 - r2 in
  (* mpn_addmul_1 (r6, r2, s4, 30) *)
  let r6 := r6 + 30 * r2 in
  (* mpn_divexact_byfobm1 (r6, r6, s4, CNST_LIMB(15), CNST_LIMB(~0/15)) *)
  let r6 := r6 / 15 in
  (* mpn_rshift (r6, r6, s4, 2) *)
  let r6 := r6 / 4 in
  (* mpn_sub_n (r2, r2, r6, s4) *)
  let r2 := r2 - r6 in
  mk_toom4_coeffs r7 r6 r5 r4 r3 r2 r1.

(* The same run, keeping every value written into r2 .. r6, in program order (27 values;
   positions counted from 0).  Toom4Proofs.toom4_interpolate_trace_coeffs ties it to
   toom4_interpolate; toom4_interpolate_trace_range shows what fits where. *)
Definition toom4_interpolate_trace (p : toom4_points) : list Z :=
  let r1 := pt4_r1 p in
  let r2 := pt4_r2 p in
  let r3 := pt4_r3 p in
  let r4 := pt4_r4 p in
  let r5 := pt4_r5 p in
  let r6 := pt4_r6 p in
  let r7 := pt4_r7 p in
  let n4 := pt4_n4 p in
  let n6 := pt4_n6 p in
  let r2_0 := r2 + r5 in                               (*  0  r2 += r5            *)
  let r6_1 := toom4_step_sub_signed n6 r5 r6 in        (*  1  r6 = r5 -/+ r6      *)
  let r4_2 := toom4_step_sub_signed n4 r3 r4 in        (*  2  r4 = r3 -/+ r4      *)
  let r5_3 := r5 - r1 in                               (*  3  r5 -= r1            *)
  let r5_4 := r5_3 - 64 * r7 in                        (*  4  r5 -= 64 r7         *)
  let r4_5 := r4_2 / 2 in                              (*  5  r4 >>= 1            *)
  let r3_6 := r3 - r4_5 in                             (*  6  r3 -= r4            *)
  let r5_7 := 2 * r5_4 in                              (*  7  r5 *= 2             *)
  let r5_8 := r5_7 - r6_1 in                           (*  8  r5 -= r6            *)
  let r2_9 := r2_0 - 65 * r3_6 in                      (*  9  r2 -= 65 r3  signed *)
  let r3_10 := r3_6 - r7 in                            (* 10  r3 -= r7            *)
  let r3_11 := r3_10 - r1 in                           (* 11  r3 -= r1            *)
  let r2_12 := r2_9 + 45 * r3_11 in                    (* 12  r2 += 45 r3         *)
  let r5_13 := r5_8 - 8 * r3_11 in                     (* 13  r5 -= 8 r3          *)
  let r5_14 := r5_13 / 8 in                            (* 14  r5 >>= 3            *)
  let r5_15 := r5_14 / 3 in                            (* 15  r5 /= 3             *)
  let r6_16 := r6_1 - r2_12 in                         (* 16  r6 -= r2     signed *)
  let r2_17 := r2_12 - 16 * r4_5 in                    (* 17  r2 -= 16 r4         *)
  let r2_18 := r2_17 / 2 in                            (* 18  r2 >>= 1            *)
  let r2_19 := r2_18 / 3 in                            (* 19  r2 /= 3             *)
  let r2_20 := r2_19 / 3 in                            (* 20  r2 /= 3             *)
  let r3_21 := r3_11 - r5_15 in                        (* 21  r3 -= r5            *)
  let r4_22 := r4_5 - r2_20 in                         (* 22  r4 -= r2            *)
  let r6_23 := r6_16 + 30 * r2_20 in                   (* 23  r6 += 30 r2         *)
  let r6_24 := r6_23 / 15 in                           (* 24  r6 /= 15            *)
  let r6_25 := r6_24 / 4 in                            (* 25  r6 >>= 2            *)
  let r2_26 := r2_20 - r6_25 in                        (* 26  r2 -= r6            *)
  [r2_0; r6_1; r4_2; r5_3; r5_4; r4_5; r3_6; r5_7; r5_8; r2_9; r3_10; r3_11; r2_12; r5_13;
   r5_14; r5_15; r6_16; r2_17; r2_18; r2_19; r2_20; r3_21; r4_22; r6_23; r6_24; r6_25;
   r2_26].

(* The closing additions of mpn_toom4_interpolate, at value level:
     {rp, 2sn} holds r7, {rp + 2sn, ..} holds r5, {rp + 4sn, ..} holds r3 (r5's top limb
     sits in r3[0]; r3's own low limb comes back through mpn_add_1 (r3, r3, 2sn+1, r30));
     TC4_NORM (r1, n1, s4); TC4_NORM (r2, n2, s4);
     tc4_copy (rp, rpn, 5sn, r2, n2)  adds r2 at limb offset 5sn, carry propagated;
     tc4_copy (rp, rpn, 6sn, r1, n1)  adds r1 at limb offset 6sn;
     tc4_copy (rp, rpn, sn, r6, s4)   adds r6 at limb offset sn;
     tc4_copy (rp, rpn, 3sn, r4, s4)  adds r4 at limb offset 3sn.
   r2, r1, r6, r4 are taken as unsigned there (sizes n2, n1, s4, s4 >= 0). *)
Definition toom4_recompose (k : Z) (c : toom4_coeffs) : Z :=
  let t := Bpow k in
  co4_0 c + co4_1 c * t + co4_2 c * (t * t) + co4_3 c * (t * t * t)
  + co4_4 c * (t * t * t * t) + co4_5 c * (t * t * t * t * t)
  + co4_6 c * (t * t * t * t * t * t).

(* ---- the whole function ------------------------------------------------------------ *)

Definition toom4_mul_parts (mulrec : Z -> Z -> Z) (k : Z) (a0 a1 a2 a3 b0 b1 b2 b3 : Z) : Z :=
  toom4_recompose k (toom4_interpolate (toom4_eval mulrec a0 a1 a2 a3 b0 b1 b2 b3)).

Definition toom4_mul (mulrec : Z -> Z -> Z) (k : Z) (a b : Z) : Z :=
  toom4_mul_parts mulrec k
    (toom4_part0 k a) (toom4_part1 k a) (toom4_part2 k a) (toom4_part3 k a)
    (toom4_part0 k b) (toom4_part1 k b) (toom4_part2 k b) (toom4_part3 k b).

(* The product polynomial
   (a0 + a1 t + a2 t^2 + a3 t^3)(b0 + b1 t + b2 t^2 + b3 t^3) = c0 + c1 t + .. + c6 t^6. *)
Definition toom4_c0 (a0 a1 a2 a3 b0 b1 b2 b3 : Z) : Z := a0 * b0.
Definition toom4_c1 (a0 a1 a2 a3 b0 b1 b2 b3 : Z) : Z := a0 * b1 + a1 * b0.
Definition toom4_c2 (a0 a1 a2 a3 b0 b1 b2 b3 : Z) : Z := a0 * b2 + a1 * b1 + a2 * b0.
Definition toom4_c3 (a0 a1 a2 a3 b0 b1 b2 b3 : Z) : Z := a0 * b3 + a1 * b2 + a2 * b1 + a3 * b0.
Definition toom4_c4 (a0 a1 a2 a3 b0 b1 b2 b3 : Z) : Z := a1 * b3 + a2 * b2 + a3 * b1.
Definition toom4_c5 (a0 a1 a2 a3 b0 b1 b2 b3 : Z) : Z := a2 * b3 + a3 * b2.
Definition toom4_c6 (a0 a1 a2 a3 b0 b1 b2 b3 : Z) : Z := a3 * b3.

(* Signed values of the points at -1 and -1/2: the magnitude the code stores times the
   sign of its size field. *)
Definition toom4_r4_signed (p : toom4_points) : Z := pt4_n4 p * pt4_r4 p.
Definition toom4_r6_signed (p : toom4_points) : Z := pt4_n6 p * pt4_r6 p.
