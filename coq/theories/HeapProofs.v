(* HeapProofs.v — mpz_add / mpz_sub on the heap model of HeapDefs.v: for every alias
   pattern among w, u, v the call is memory-safe (never touches an invalid block or a limb
   outside a block), leaves in w the exact sum / difference in well-formed form and changes
   no other variable; the variant that loads the pointers before the reallocation reads a
   freed block. *)
From Coq Require Import ZArith List Lia Bool.
From Mpir Require Import Word Limbs MpnBasicDefs MpnBasicProofs MpzDefs MpzProofs HeapDefs.
Import ListNotations.
Local Open Scope Z_scope.

(* ------------------------------------------------------------------ *)
(* updates                                                              *)

Lemma hupd_same h k b : hupd h k b k = b.
Proof. unfold hupd. rewrite Nat.eqb_refl. reflexivity. Qed.

Lemma hupd_other h k b p : p <> k -> hupd h k b p = h p.
Proof. unfold hupd. intros H. destruct (Nat.eqb_spec p k); [contradiction|reflexivity]. Qed.

Lemma vupd_same vs k r : vupd vs k r k = r.
Proof. unfold vupd. rewrite Nat.eqb_refl. reflexivity. Qed.

Lemma vupd_other vs k r x : x <> k -> vupd vs k r x = vs x.
Proof. unfold vupd. intros H. destruct (Nat.eqb_spec x k); [contradiction|reflexivity]. Qed.

(* ------------------------------------------------------------------ *)
(* lists                                                                *)

Lemma firstn_app_le {A} (a b : list A) k : (k <= length a)%nat -> firstn k (a ++ b) = firstn k a.
Proof.
  intros H. rewrite firstn_app. replace (k - length a)%nat with 0%nat by lia.
  cbn [firstn]. apply app_nil_r.
Qed.

Lemma firstn_S_nth_error {A} : forall m (l : list A) x,
  nth_error l m = Some x -> firstn (S m) l = firstn m l ++ [x].
Proof.
  induction m as [|m IH]; intros [|y l] x H; try discriminate.
  - cbn in H. injection H as ->. reflexivity.
  - cbn [nth_error] in H. change (firstn (S (S m)) (y :: l)) with (y :: firstn (S m) l).
    rewrite (IH l x H). reflexivity.
Qed.

Lemma strip_snoc a x : strip (a ++ [x]) = if x =? 0 then strip a else a ++ [x].
Proof.
  induction a as [|y a IH].
  - cbn. destruct (x =? 0); reflexivity.
  - cbn [app strip]. rewrite IH. destruct (x =? 0); [reflexivity|].
    destruct (a ++ [x]) eqn:E; [|reflexivity]. destruct a; discriminate.
Qed.

Lemma len_firstn (l : list Z) n : (n <= length l)%nat -> len (firstn n l) = Z.of_nat n.
Proof. intros H. unfold len. rewrite firstn_length. lia. Qed.

Lemma normb_sound l : normb l = true -> normalized l.
Proof.
  unfold normb, normalized. destruct l as [|x r]; [left; reflexivity|].
  intros H. right. apply negb_true_iff in H. apply Z.eqb_neq in H. exact H.
Qed.

Lemma wf_junk st a n : (forall i, limb (st_junk st i)) -> wf (junk_fill st a n).
Proof.
  intros H. unfold wf, junk_fill. apply Forall_forall. intros x Hx.
  apply in_map_iff in Hx. destruct Hx as (i & <- & _). apply H.
Qed.

Lemma length_junk st a n : length (junk_fill st a n) = n.
Proof. unfold junk_fill. rewrite map_length, seq_length. reflexivity. Qed.

(* ------------------------------------------------------------------ *)
(* memory accesses that succeed                                         *)

Lemma load_ok h p l n : h p = Some l -> (n <= length l)%nat -> load h p n = Some (firstn n l).
Proof.
  intros Hp Hn. unfold load. rewrite Hp.
  destruct (Nat.leb_spec n (length l)); [reflexivity|lia].
Qed.

Lemma store_ok h p l r : h p = Some l -> (length r <= length l)%nat ->
  store h p r = Some (hupd h p (Some (r ++ skipn (length r) l))).
Proof.
  intros Hp Hn. unfold store. rewrite Hp.
  destruct (Nat.leb_spec (length r) (length l)); [reflexivity|lia].
Qed.

Lemma store1_ok h p l i x : h p = Some l -> (i < length l)%nat ->
  store1 h p i x = Some (hupd h p (Some (firstn i l ++ x :: skipn (S i) l))).
Proof.
  intros Hp Hn. unfold store1. rewrite Hp.
  destruct (Nat.ltb_spec i (length l)); [reflexivity|lia].
Qed.

(* MPN_NORMALIZE on a block computes strip of the limbs it scans *)
Lemma normalize_ok h p l : h p = Some l -> forall n, (n <= length l)%nat ->
  exists k, normalize_h h p n = Some k /\ (k <= n)%nat /\ firstn k l = strip (firstn n l).
Proof.
  intros Hp. induction n as [|m IH]; intros Hn.
  - exists 0%nat. cbn. auto.
  - cbn [normalize_h]. unfold load1. rewrite Hp.
    destruct (nth_error l m) as [x|] eqn:E.
    2:{ apply nth_error_None in E. lia. }
    cbn [bind]. rewrite (firstn_S_nth_error _ _ _ E), strip_snoc.
    destruct (x =? 0).
    + destruct (IH ltac:(lia)) as (k & K1 & K2 & K3). exists k.
      split; [exact K1|]. split; [lia|exact K3].
    + exists (S m). rewrite <- (firstn_S_nth_error _ _ _ E). auto.
Qed.

(* the three mpn calls: both sources are read (whatever blocks they are, possibly the
   destination block), the result lands in the low limbs of the destination block *)
Lemma mpn_add_h_ok h wp up vp lw lu lv un vn :
  h wp = Some lw -> h up = Some lu -> h vp = Some lv ->
  (vn <= un)%nat -> (un <= length lu)%nat -> (vn <= length lv)%nat -> (un <= length lw)%nat ->
  wf lu -> wf lv ->
  mpn_add_h h wp up un vp vn =
    Some (hupd h wp (Some (fst (add (firstn un lu) (firstn vn lv)) ++ skipn un lw)),
          snd (add (firstn un lu) (firstn vn lv)))
  /\ length (fst (add (firstn un lu) (firstn vn lv))) = un.
Proof.
  intros Hw Hu Hv Hvu Hul Hvl Hwl Wu Wv.
  assert (L : length (fst (add (firstn un lu) (firstn vn lv))) = un).
  { destruct (add_spec (firstn un lu) (firstn vn lv)) as (_ & _ & L & _).
    - apply wf_firstn; exact Wu.
    - apply wf_firstn; exact Wv.
    - rewrite !firstn_length. lia.
    - rewrite L, firstn_length. lia. }
  split; [|exact L]. unfold mpn_add_h.
  destruct (Nat.leb_spec vn un); [|lia].
  rewrite (load_ok _ _ _ _ Hu Hul), (load_ok _ _ _ _ Hv Hvl). cbn [bind]. cbv zeta.
  rewrite (store_ok _ _ lw _ Hw) by lia. rewrite L. reflexivity.
Qed.

Lemma mpn_sub_h_ok h wp up vp lw lu lv un vn :
  h wp = Some lw -> h up = Some lu -> h vp = Some lv ->
  (vn <= un)%nat -> (un <= length lu)%nat -> (vn <= length lv)%nat -> (un <= length lw)%nat ->
  wf lu -> wf lv ->
  mpn_sub_h h wp up un vp vn =
    Some (hupd h wp (Some (fst (sub (firstn un lu) (firstn vn lv)) ++ skipn un lw)),
          snd (sub (firstn un lu) (firstn vn lv)))
  /\ length (fst (sub (firstn un lu) (firstn vn lv))) = un.
Proof.
  intros Hw Hu Hv Hvu Hul Hvl Hwl Wu Wv.
  assert (L : length (fst (sub (firstn un lu) (firstn vn lv))) = un).
  { destruct (sub_spec (firstn un lu) (firstn vn lv)) as (_ & _ & L & _).
    - apply wf_firstn; exact Wu.
    - apply wf_firstn; exact Wv.
    - rewrite !firstn_length. lia.
    - rewrite L, firstn_length. lia. }
  split; [|exact L]. unfold mpn_sub_h.
  destruct (Nat.leb_spec vn un); [|lia].
  rewrite (load_ok _ _ _ _ Hu Hul), (load_ok _ _ _ _ Hv Hvl). cbn [bind]. cbv zeta.
  rewrite (store_ok _ _ lw _ Hw) by lia. rewrite L. reflexivity.
Qed.

Lemma mpn_sub_n_h_ok h wp up vp lw lu lv n :
  h wp = Some lw -> h up = Some lu -> h vp = Some lv ->
  (1 <= n)%nat -> (n <= length lu)%nat -> (n <= length lv)%nat -> (n <= length lw)%nat ->
  wf lu -> wf lv ->
  mpn_sub_n_h h wp up vp n =
    Some (hupd h wp (Some (fst (sub_n (firstn n lu) (firstn n lv)) ++ skipn n lw)),
          snd (sub_n (firstn n lu) (firstn n lv)))
  /\ length (fst (sub_n (firstn n lu) (firstn n lv))) = n.
Proof.
  intros Hw Hu Hv H1 Hul Hvl Hwl Wu Wv.
  assert (L : length (fst (sub_n (firstn n lu) (firstn n lv))) = n).
  { destruct (sub_n_spec (firstn n lu) (firstn n lv)) as (_ & _ & L & _).
    - apply wf_firstn; exact Wu.
    - apply wf_firstn; exact Wv.
    - rewrite !firstn_length. lia.
    - rewrite L, firstn_length. lia. }
  split; [|exact L]. unfold mpn_sub_n_h.
  destruct (Nat.leb_spec 1 n); [|lia].
  rewrite (load_ok _ _ _ _ Hu Hul), (load_ok _ _ _ _ Hv Hvl). cbn [bind]. cbv zeta.
  rewrite (store_ok _ _ lw _ Hw) by lia. rewrite L. reflexivity.
Qed.

Lemma mpn_cmp_h_ok h up vp lu lv n :
  h up = Some lu -> h vp = Some lv -> (n <= length lu)%nat -> (n <= length lv)%nat ->
  mpn_cmp_h h up vp n = Some (cmp (firstn n lu) (firstn n lv)).
Proof.
  intros Hu Hv Hul Hvl. unfold mpn_cmp_h.
  rewrite (load_ok _ _ _ _ Hu Hul), (load_ok _ _ _ _ Hv Hvl). reflexivity.
Qed.

(* ------------------------------------------------------------------ *)
(* observation                                                          *)

Lemma mag_eq st x l : st_heap st (v_ptr (st_vars st x)) = Some l ->
  mag st x = firstn (Z.to_nat (Z.abs (v_size (st_vars st x)))) l.
Proof. intros H. unfold mag. rewrite H. reflexivity. Qed.

Lemma zview_inv st1 st x : zview st1 x = zview st x ->
  v_size (st_vars st1 x) = v_size (st_vars st x) /\ mag st1 x = mag st x.
Proof. unfold zview. intros H. injection H as H1 H2. auto. Qed.

(* a variable of a well-formed state holds a well-formed mpz *)
Lemma zview_wf dom st x : st_wf dom st -> In x dom -> mpz_wf (zview st x).
Proof.
  intros (Hok & _) Hx. destruct (Hok x Hx) as (l & Hl & Hlen & Ha & Hs & Wl & Nl & _).
  unfold zview, mpz_wf. cbn [sz d]. rewrite (mag_eq _ _ _ Hl).
  split; [|split; [apply wf_firstn; exact Wl|exact Nl]].
  rewrite len_firstn by (unfold len in Hlen; lia). lia.
Qed.

Lemma value_opt_ok dom st x : st_wf dom st -> In x dom -> value_opt st x = Some (value_of st x).
Proof.
  intros (Hok & _) Hx. destruct (Hok x Hx) as (l & Hl & Hlen & Ha & Hs & _).
  unfold value_opt, value_of, value, zview. cbn [sz d]. rewrite (mag_eq _ _ _ Hl).
  rewrite (load_ok _ _ _ _ Hl) by (unfold len in Hlen; lia). reflexivity.
Qed.

(* ------------------------------------------------------------------ *)
(* (i) _mpz_realloc to a larger size: the state stays well-formed, every variable keeps
   its size field and limbs, w owns a fresh block of the requested size                   *)

Lemma realloc_spec dom st w n :
  st_wf dom st -> In w dom -> v_alloc (st_vars st w) < n ->
  exists st1, mpz_realloc st w n = Some st1 /\ st_wf dom st1
    /\ v_alloc (st_vars st1 w) = n
    /\ st_heap st (v_ptr (st_vars st w)) <> None
    /\ st_heap st1 (v_ptr (st_vars st w)) = None
    /\ (forall x, In x dom -> zview st1 x = zview st x).
Proof.
  intros (Hok & Hdis & Hfresh & Hjunk) Hw Hn.
  destruct (Hok w Hw) as (l & Hl & Hlen & Ha & Hs & Wl & Nl & Hlt).
  assert (Emax : Z.max n 1 = n) by lia.
  assert (Hn' : (length l <= Z.to_nat n)%nat) by (unfold len in Hlen; lia).
  unfold mpz_realloc. rewrite Hl, Emax. cbv zeta. rewrite (firstn_all2 l Hn').
  destruct (Z.ltb_spec n (Z.abs (v_size (st_vars st w)))) as [C|C]; [lia|].
  set (blk := l ++ junk_fill st (length l) (Z.to_nat n - length l)).
  set (p := st_next st) in *. set (q := v_ptr (st_vars st w)) in *.
  assert (Hqp : q <> p) by lia.
  eexists. split; [reflexivity|].
  assert (Hsmall : (Z.to_nat (Z.abs (v_size (st_vars st w))) <= length l)%nat)
    by (unfold len in Hlen; lia).
  assert (Hother : forall x, In x dom -> x <> w ->
            v_ptr (st_vars st x) <> q /\ v_ptr (st_vars st x) <> p).
  { intros x Hx Hxw. split; [apply Hdis; assumption|].
    destruct (Hok x Hx) as (l' & _ & _ & _ & _ & _ & _ & Hlt'). fold p in Hlt'. lia. }
  split; [|split; [|split; [|split]]].
  - (* well-formed *)
    split; [|split; [|split]]; cbn [st_heap st_next st_vars st_junk].
    + intros x Hx. unfold var_ok. cbn [st_heap st_next st_vars].
      destruct (Nat.eq_dec x w) as [->|Hxw].
      * rewrite vupd_same. cbn [v_alloc v_size v_ptr]. exists blk.
        rewrite hupd_same. split; [reflexivity|].
        split; [unfold blk; rewrite len_app; unfold len; rewrite length_junk; lia|].
        split; [lia|]. split; [lia|].
        split; [unfold blk; apply wf_app; [exact Wl|apply wf_junk; exact Hjunk]|].
        split; [unfold blk; rewrite firstn_app_le by exact Hsmall; exact Nl|lia].
      * rewrite vupd_other by exact Hxw. destruct (Hother x Hx Hxw) as [O1 O2].
        destruct (Hok x Hx) as (l' & Hl' & R1 & R2 & R3 & R4 & R5 & R6). exists l'.
        rewrite hupd_other by exact O2. rewrite hupd_other by exact O1.
        repeat (split; [assumption|]). fold p in R6. lia.
    + intros x y Hx Hy Hxy.
      destruct (Nat.eq_dec x w) as [->|Hxw]; destruct (Nat.eq_dec y w) as [->|Hyw].
      * contradiction.
      * rewrite vupd_same, vupd_other by exact Hyw. cbn [v_ptr].
        destruct (Hother y Hy Hyw) as [_ O2]. auto.
      * rewrite vupd_same, vupd_other by exact Hxw. cbn [v_ptr].
        destruct (Hother x Hx Hxw) as [_ O2]. auto.
      * rewrite !vupd_other by assumption. apply Hdis; assumption.
    + intros p' Hp'. rewrite !hupd_other by lia. apply Hfresh. fold p. lia.
    + exact Hjunk.
  - cbn [st_vars]. rewrite vupd_same. reflexivity.
  - discriminate.
  - cbn [st_heap]. rewrite hupd_other by exact Hqp. apply hupd_same.
  - (* every variable keeps its size and limbs *)
    intros x Hx. unfold zview, mag. cbn [st_heap st_vars].
    destruct (Nat.eq_dec x w) as [->|Hxw].
    + rewrite vupd_same. cbn [v_alloc v_size v_ptr]. rewrite hupd_same. fold q. rewrite Hl.
      fold blk. unfold blk. rewrite firstn_app_le by exact Hsmall. reflexivity.
    + rewrite vupd_other by exact Hxw. destruct (Hother x Hx Hxw) as [O1 O2].
      rewrite hupd_other by exact O2. rewrite hupd_other by exact O1. reflexivity.
Qed.

Lemma aors_realloc_spec dom st w wsize :
  st_wf dom st -> In w dom ->
  exists st1, aors_realloc st w wsize = Some st1 /\ st_wf dom st1
    /\ wsize <= v_alloc (st_vars st1 w)
    /\ (forall x, In x dom -> zview st1 x = zview st x).
Proof.
  intros Hwf Hw. unfold aors_realloc.
  destruct (Z.ltb_spec (v_alloc (st_vars st w)) wsize) as [C|C].
  - destruct (realloc_spec dom st w wsize Hwf Hw C) as (st1 & R1 & R2 & R3 & _ & _ & R4).
    exists st1. split; [exact R1|]. split; [exact R2|]. split; [lia|exact R4].
  - exists st. split; [reflexivity|]. split; [exact Hwf|]. split; [lia|reflexivity].
Qed.

(* ------------------------------------------------------------------ *)
(* the end of the call: the block of w has been rewritten (and no other block), the size
   field of w is stored                                                                   *)

Lemma finish_spec dom st w h' newblk newsize l :
  st_wf dom st -> In w dom ->
  st_heap st (v_ptr (st_vars st w)) = Some l ->
  h' (v_ptr (st_vars st w)) = Some newblk ->
  (forall p, p <> v_ptr (st_vars st w) -> h' p = st_heap st p) ->
  length newblk = length l -> wf newblk ->
  Z.abs newsize <= len newblk ->
  normalized (firstn (Z.to_nat (Z.abs newsize)) newblk) ->
  st_wf dom (set_size (with_heap st h') w newsize)
  /\ zview (set_size (with_heap st h') w newsize) w
     = mkz newsize (firstn (Z.to_nat (Z.abs newsize)) newblk)
  /\ (forall x, In x dom -> x <> w ->
        zview (set_size (with_heap st h') w newsize) x = zview st x).
Proof.
  intros (Hok & Hdis & Hfresh & Hjunk) Hw Hl Hnew Hagree Hlen Wn Hsz Nn.
  destruct (Hok w Hw) as (l0 & Hl0 & Hlen0 & Ha & Hs & Wl & Nl & Hlt).
  rewrite Hl in Hl0. injection Hl0 as <-.
  set (q := v_ptr (st_vars st w)) in *.
  split; [|split].
  - split; [|split; [|split]]; cbn [set_size with_heap st_heap st_next st_vars st_junk].
    + intros x Hx. unfold var_ok. cbn [set_size with_heap st_heap st_next st_vars].
      destruct (Nat.eq_dec x w) as [->|Hxw].
      * rewrite vupd_same. cbn [v_alloc v_size v_ptr]. fold q. exists newblk.
        split; [exact Hnew|]. split; [unfold len in *; lia|]. split; [exact Ha|].
        split; [unfold len in *; lia|]. split; [exact Wn|]. split; [exact Nn|exact Hlt].
      * rewrite vupd_other by exact Hxw.
        destruct (Hok x Hx) as (l' & Hl' & R). exists l'.
        rewrite Hagree by (apply Hdis; assumption). split; [exact Hl'|exact R].
    + intros x y Hx Hy Hxy.
      destruct (Nat.eq_dec x w) as [->|Hxw]; destruct (Nat.eq_dec y w) as [->|Hyw].
      * contradiction.
      * rewrite vupd_same, vupd_other by exact Hyw. cbn [v_ptr]. apply Hdis; assumption.
      * rewrite vupd_same, vupd_other by exact Hxw. cbn [v_ptr]. apply Hdis; assumption.
      * rewrite !vupd_other by assumption. apply Hdis; assumption.
    + intros p Hp. rewrite Hagree by (unfold q; lia). apply Hfresh. exact Hp.
    + exact Hjunk.
  - unfold zview, mag. cbn [set_size with_heap st_heap st_vars]. rewrite vupd_same.
    cbn [v_alloc v_size v_ptr]. fold q. rewrite Hnew. reflexivity.
  - intros x Hx Hxw. unfold zview, mag. cbn [set_size with_heap st_heap st_vars].
    rewrite vupd_other by exact Hxw. rewrite Hagree by (apply Hdis; assumption). reflexivity.
Qed.

(* the three subtraction cases end alike: result r in the low un limbs of the block of w,
   MPN_NORMALIZE, sign *)
Lemma norm_case h wp (lw r : list Z) (neg : bool) un :
  length r = un -> (un <= length lw)%nat -> wf r -> wf lw ->
  exists k, normalize_h (hupd h wp (Some (r ++ skipn un lw))) wp un = Some k
    /\ length (r ++ skipn un lw) = length lw
    /\ wf (r ++ skipn un lw)
    /\ Z.abs (if neg then - Z.of_nat k else Z.of_nat k) <= len (r ++ skipn un lw)
    /\ mkz (if neg then - Z.of_nat k else Z.of_nat k)
           (firstn (Z.to_nat (Z.abs (if neg then - Z.of_nat k else Z.of_nat k)))
                   (r ++ skipn un lw))
       = mk_norm neg r.
Proof.
  intros Lr Hun Wr Wl.
  assert (Lb : length (r ++ skipn un lw) = length lw).
  { rewrite app_length, skipn_length. lia. }
  destruct (normalize_ok (hupd h wp (Some (r ++ skipn un lw))) wp (r ++ skipn un lw)
              (hupd_same _ _ _) un ltac:(lia)) as (k & K1 & K2 & K3).
  exists k. split; [exact K1|]. split; [exact Lb|].
  split; [apply wf_app; [exact Wr|apply wf_skipn; exact Wl]|].
  assert (Eabs : Z.to_nat (Z.abs (if neg then - Z.of_nat k else Z.of_nat k)) = k)
    by (destruct neg; lia).
  split; [unfold len; destruct neg; lia|].
  rewrite Eabs, K3. rewrite firstn_app_le by lia. rewrite <- Lr, firstn_all.
  assert (Ek : Z.of_nat k = len (strip r)).
  { unfold len. f_equal.
    assert (E : length (firstn k (r ++ skipn un lw)) = k) by (rewrite firstn_length; lia).
    rewrite K3 in E. rewrite firstn_app_le in E by lia. rewrite <- Lr, firstn_all in E.
    symmetry. exact E. }
  unfold mk_norm. cbv zeta. rewrite Ek. reflexivity.
Qed.

Lemma sign_test usize vsize :
  xorb (usize <? 0) (vsize <? 0)
  = ((usize <? 0) && (0 <=? vsize)) || ((0 <=? usize) && (vsize <? 0)).
Proof.
  destruct (Z.ltb_spec usize 0); destruct (Z.leb_spec 0 usize); try lia;
  destruct (Z.ltb_spec vsize 0); destruct (Z.leb_spec 0 vsize); try lia; reflexivity.
Qed.

(* ------------------------------------------------------------------ *)
(* (ii)-(iv) the body after the pointer loads, on a well-formed state in which w has room
   for abs_usize + 1 limbs; u, v, w are ANY variables of dom (equal or not)               *)

Lemma aors_core_spec dom st w u v usize vsize :
  st_wf dom st -> In w dom -> In u dom -> In v dom ->
  Z.abs usize = Z.abs (v_size (st_vars st u)) ->
  Z.abs vsize = Z.abs (v_size (st_vars st v)) ->
  Z.abs vsize <= Z.abs usize ->
  Z.abs usize + 1 <= v_alloc (st_vars st w) ->
  exists st',
    aors_core st w (v_ptr (st_vars st u)) (v_ptr (st_vars st v)) (v_ptr (st_vars st w))
              usize vsize (Z.abs usize) (Z.abs vsize) = Some st'
    /\ st_wf dom st'
    /\ zview st' w = aors_body usize (mag st u) vsize (mag st v)
    /\ (forall x, In x dom -> x <> w -> zview st' x = zview st x).
Proof.
  intros Hwf Hw Hu Hv Eu Ev Hle Hroom.
  pose proof Hwf as (Hok & _).
  destruct (Hok w Hw) as (lw & Hlw & Lw & _ & _ & Ww & _ & _).
  destruct (Hok u Hu) as (lu & Hlu & Lu & _ & Su & Wu & Nu & _).
  destruct (Hok v Hv) as (lv & Hlv & Lv & _ & Sv & Wv & Nv & _).
  rewrite (mag_eq _ _ _ Hlu), (mag_eq _ _ _ Hlv). rewrite <- Eu, <- Ev.
  rewrite <- Eu in Nu, Su. rewrite <- Ev in Nv, Sv.
  set (un := Z.to_nat (Z.abs usize)) in *. set (vn := Z.to_nat (Z.abs vsize)) in *.
  set (wp := v_ptr (st_vars st w)) in *. set (up := v_ptr (st_vars st u)) in *.
  set (vp := v_ptr (st_vars st v)) in *. set (h := st_heap st) in *.
  assert (Hvu : (vn <= un)%nat) by lia.
  assert (Hul : (un <= length lu)%nat) by (unfold len in Lu; lia).
  assert (Hvl : (vn <= length lv)%nat) by (unfold len in Lv; lia).
  assert (Hwl : (un < length lw)%nat) by (unfold len in Lw; lia).
  set (ul := firstn un lu) in *. set (vl := firstn vn lv) in *.
  assert (Mu : mpz_wf (mkz usize ul)).
  { unfold mpz_wf. cbn [sz d]. split; [unfold ul; rewrite len_firstn by exact Hul; lia|].
    split; [apply wf_firstn; exact Wu|exact Nu]. }
  assert (Mv : mpz_wf (mkz vsize vl)).
  { unfold mpz_wf. cbn [sz d]. split; [unfold vl; rewrite len_firstn by exact Hvl; lia|].
    split; [apply wf_firstn; exact Wv|exact Nv]. }
  destruct (aors_body_spec usize ul vsize vl Mu Mv Hle) as [_ Mr].
  (* what the call does to the heap and which size it stores *)
  assert (Hstep : exists h' newblk newsize,
    aors_core st w up vp wp usize vsize (Z.abs usize) (Z.abs vsize)
      = Some (set_size (with_heap st h') w newsize)
    /\ h' wp = Some newblk /\ (forall p, p <> wp -> h' p = h p)
    /\ length newblk = length lw /\ wf newblk /\ Z.abs newsize <= len newblk
    /\ mkz newsize (firstn (Z.to_nat (Z.abs newsize)) newblk) = aors_body usize ul vsize vl).
  { unfold aors_core, aors_body. fold h un vn. rewrite <- sign_test.
    destruct (xorb (usize <? 0) (vsize <? 0)) eqn:Esign.
    - (* different signs *)
      destruct (negb (Z.abs usize =? Z.abs vsize)) eqn:Eabs.
      + (* mpn_sub *)
        destruct (mpn_sub_h_ok h wp up vp lw lu lv un vn Hlw Hlu Hlv Hvu Hul Hvl
                    ltac:(lia) Wu Wv) as [S1 S2].
        fold ul vl in S1, S2. rewrite S1. cbn [bind fst].
        assert (Wr : wf (fst (sub ul vl))).
        { destruct (sub_spec ul vl) as (_ & W & _); [apply wf_firstn; exact Wu
            |apply wf_firstn; exact Wv|unfold ul, vl; rewrite !firstn_length; lia|exact W]. }
        destruct (norm_case h wp lw (fst (sub ul vl)) (usize <? 0) un S2 ltac:(lia) Wr Ww)
          as (k & K1 & K2 & K3 & K4 & K5).
        rewrite K1. cbn [bind]. cbv zeta.
        exists (hupd h wp (Some (fst (sub ul vl) ++ skipn un lw))),
               (fst (sub ul vl) ++ skipn un lw),
               (if usize <? 0 then - Z.of_nat k else Z.of_nat k).
        split; [reflexivity|]. split; [apply hupd_same|].
        split; [intros p Hp; apply hupd_other; exact Hp|].
        split; [exact K2|]. split; [exact K3|]. split; [exact K4|exact K5].
      + (* equal lengths: compare *)
        apply negb_false_iff in Eabs. apply Z.eqb_eq in Eabs.
        assert (Evn : vn = un) by lia.
        assert (Evl : firstn un lv = vl) by (unfold vl; rewrite Evn; reflexivity).
        rewrite Evn in Hvl.
        assert (H1 : (1 <= un)%nat).
        { destruct (Z.ltb_spec usize 0); destruct (Z.ltb_spec vsize 0);
            cbn in Esign; try discriminate; lia. }
        rewrite (mpn_cmp_h_ok h up vp lu lv un Hlu Hlv Hul Hvl). cbn [bind]. fold ul.
        rewrite Evl.
        destruct (cmp ul vl <? 0).
        * destruct (mpn_sub_n_h_ok h wp vp up lw lv lu un Hlw Hlv Hlu H1 Hvl Hul
                      ltac:(lia) Wv Wu) as [S1 S2].
          fold ul in S1, S2. rewrite Evl in S1, S2. rewrite S1. cbn [bind fst].
          assert (Wr : wf (fst (sub_n vl ul))).
          { destruct (sub_n_spec vl ul) as (_ & W & _); [apply wf_firstn; exact Wv
              |apply wf_firstn; exact Wu|unfold ul, vl; rewrite !firstn_length; lia|exact W]. }
          destruct (norm_case h wp lw (fst (sub_n vl ul)) (0 <=? usize) un S2 ltac:(lia) Wr Ww)
            as (k & K1 & K2 & K3 & K4 & K5).
          rewrite K1. cbn [bind]. cbv zeta.
          exists (hupd h wp (Some (fst (sub_n vl ul) ++ skipn un lw))),
                 (fst (sub_n vl ul) ++ skipn un lw),
                 (if 0 <=? usize then - Z.of_nat k else Z.of_nat k).
          split; [reflexivity|]. split; [apply hupd_same|].
          split; [intros p Hp; apply hupd_other; exact Hp|].
          split; [exact K2|]. split; [exact K3|]. split; [exact K4|exact K5].
        * destruct (mpn_sub_n_h_ok h wp up vp lw lu lv un Hlw Hlu Hlv H1 Hul Hvl
                      ltac:(lia) Wu Wv) as [S1 S2].
          fold ul in S1, S2. rewrite Evl in S1, S2. rewrite S1. cbn [bind fst].
          assert (Wr : wf (fst (sub_n ul vl))).
          { destruct (sub_n_spec ul vl) as (_ & W & _); [apply wf_firstn; exact Wu
              |apply wf_firstn; exact Wv|unfold ul, vl; rewrite !firstn_length; lia|exact W]. }
          destruct (norm_case h wp lw (fst (sub_n ul vl)) (usize <? 0) un S2 ltac:(lia) Wr Ww)
            as (k & K1 & K2 & K3 & K4 & K5).
          rewrite K1. cbn [bind]. cbv zeta.
          exists (hupd h wp (Some (fst (sub_n ul vl) ++ skipn un lw))),
                 (fst (sub_n ul vl) ++ skipn un lw),
                 (if usize <? 0 then - Z.of_nat k else Z.of_nat k).
          split; [reflexivity|]. split; [apply hupd_same|].
          split; [intros p Hp; apply hupd_other; exact Hp|].
          split; [exact K2|]. split; [exact K3|]. split; [exact K4|exact K5].
    - (* same sign: mpn_add, carry limb stored above *)
      destruct (mpn_add_h_ok h wp up vp lw lu lv un vn Hlw Hlu Hlv Hvu Hul Hvl
                  ltac:(lia) Wu Wv) as [S1 S2].
      fold ul vl in S1, S2. rewrite S1. cbn [bind fst snd].
      destruct (add_spec ul vl) as (_ & Wr & _ & Hcy);
        [apply wf_firstn; exact Wu|apply wf_firstn; exact Wv
        |unfold ul, vl; rewrite !firstn_length; lia|].
      destruct (add ul vl) as [r cy] eqn:Eadd. cbn [fst snd] in *.
      set (blk1 := r ++ skipn un lw).
      assert (Lb1 : length blk1 = length lw).
      { unfold blk1. rewrite app_length, skipn_length. lia. }
      rewrite (store1_ok _ wp blk1 un cy (hupd_same _ _ _)) by lia. cbn [bind]. cbv zeta.
      assert (Ef : firstn un blk1 = r).
      { unfold blk1. rewrite firstn_app_le by lia. rewrite <- S2. apply firstn_all. }
      rewrite Ef.
      set (newblk := r ++ cy :: skipn (S un) blk1).
      exists (hupd (hupd h wp (Some blk1)) wp (Some newblk)), newblk,
             (if usize <? 0 then - (Z.abs usize + cy) else Z.abs usize + cy).
      split; [reflexivity|]. split; [apply hupd_same|].
      split; [intros p Hp; rewrite !hupd_other by exact Hp; reflexivity|].
      assert (Ln : length newblk = length lw).
      { unfold newblk. rewrite app_length. cbn [length]. rewrite skipn_length. lia. }
      split; [exact Ln|].
      split.
      { unfold newblk. apply wf_app; [exact Wr|]. apply wf_cons; [apply limb_01; exact Hcy|].
        apply wf_skipn. unfold blk1. apply wf_app; [exact Wr|apply wf_skipn; exact Ww]. }
      split; [unfold len; rewrite Ln; destruct Hcy; subst cy; destruct (usize <? 0); lia|].
      assert (Ew : firstn (Z.to_nat (Z.abs usize + cy)) newblk
                   = (if cy =? 0 then r else r ++ [cy])).
      { unfold newblk. destruct Hcy; subst cy.
        - change (0 =? 0) with true. cbv iota.
          replace (Z.to_nat (Z.abs usize + 0)) with un by lia.
          rewrite firstn_app_le by lia. rewrite <- S2. apply firstn_all.
        - change (1 =? 0) with false. cbv iota.
          replace (Z.to_nat (Z.abs usize + 1)) with (length r + 1)%nat by lia.
          rewrite firstn_app_2. reflexivity. }
      assert (El : len (if cy =? 0 then r else r ++ [cy]) = Z.abs usize + cy).
      { destruct Hcy; subst cy.
        - change (0 =? 0) with true. cbv iota. unfold len. lia.
        - change (1 =? 0) with false. cbv iota. rewrite len_snoc. unfold len. lia. }
      rewrite El.
      replace (Z.abs (if usize <? 0 then - (Z.abs usize + cy) else Z.abs usize + cy))
        with (Z.abs usize + cy) by (destruct Hcy; subst cy; destruct (usize <? 0); lia).
      rewrite Ew. reflexivity. }
  destruct Hstep as (h' & newblk & newsize & C1 & C2 & C3 & C4 & C5 & C6 & C7).
  rewrite <- C7 in Mr. destruct Mr as (_ & _ & Nn). cbn [d] in Nn.
  destruct (finish_spec dom st w h' newblk newsize lw Hwf Hw Hlw C2 C3 C4 C5 C6 Nn)
    as (F1 & F2 & F3).
  eexists. split; [exact C1|]. split; [exact F1|]. split; [rewrite F2; exact C7|exact F3].
Qed.

(* ------------------------------------------------------------------ *)
(* the whole function                                                   *)

Lemma aors_zview st u v sub :
  aors (zview st u) (zview st v) sub =
  if Z.abs (v_size (st_vars st u))
     <? Z.abs (if sub then - v_size (st_vars st v) else v_size (st_vars st v))
  then aors_body (if sub then - v_size (st_vars st v) else v_size (st_vars st v)) (mag st v)
                 (v_size (st_vars st u)) (mag st u)
  else aors_body (v_size (st_vars st u)) (mag st u)
                 (if sub then - v_size (st_vars st v) else v_size (st_vars st v)) (mag st v).
Proof. rewrite aors_unfold. reflexivity. Qed.

(* The heap-level call never fails, keeps the state well-formed, leaves in w exactly the
   object computed by the value-level model MpzDefs.aors from the objects held by u and v
   before the call, and leaves the size field and limbs of every other variable as they
   were.  w, u, v are arbitrary members of dom: all five alias patterns are covered. *)
Theorem mpz_aors_refines : forall dom sub st w u v,
  st_wf dom st -> In w dom -> In u dom -> In v dom ->
  exists st', mpz_aors sub st w u v = Some st' /\ st_wf dom st'
    /\ zview st' w = aors (zview st u) (zview st v) sub
    /\ (forall x, In x dom -> x <> w -> zview st' x = zview st x).
Proof.
  intros dom sub st w u v Hwf Hw Hu Hv. rewrite aors_zview.
  unfold mpz_aors, aors_sizes.
  set (su := v_size (st_vars st u)).
  set (sv := if sub then - v_size (st_vars st v) else v_size (st_vars st v)).
  assert (Esv : Z.abs sv = Z.abs (v_size (st_vars st v))) by (unfold sv; destruct sub; lia).
  destruct (Z.ltb_spec (Z.abs su) (Z.abs sv)) as [C|C]; cbv beta iota zeta.
  - destruct (aors_realloc_spec dom st w (Z.abs sv + 1) Hwf Hw) as (st1 & R1 & R2 & R3 & R4).
    rewrite R1. cbn [bind].
    destruct (zview_inv _ _ _ (R4 u Hu)) as [Zu Mu].
    destruct (zview_inv _ _ _ (R4 v Hv)) as [Zv Mv].
    destruct (aors_core_spec dom st1 w v u sv su R2 Hw Hv Hu) as (st' & A1 & A2 & A3 & A4).
    + rewrite Zv. exact Esv.
    + rewrite Zu. reflexivity.
    + lia.
    + exact R3.
    + exists st'. split; [exact A1|]. split; [exact A2|].
      split; [rewrite A3, Mu, Mv; reflexivity|].
      intros x Hx Hxw. rewrite (A4 x Hx Hxw). apply R4. exact Hx.
  - destruct (aors_realloc_spec dom st w (Z.abs su + 1) Hwf Hw) as (st1 & R1 & R2 & R3 & R4).
    rewrite R1. cbn [bind].
    destruct (zview_inv _ _ _ (R4 u Hu)) as [Zu Mu].
    destruct (zview_inv _ _ _ (R4 v Hv)) as [Zv Mv].
    destruct (aors_core_spec dom st1 w u v su sv R2 Hw Hu Hv) as (st' & A1 & A2 & A3 & A4).
    + rewrite Zu. reflexivity.
    + rewrite Zv. exact Esv.
    + lia.
    + exact R3.
    + exists st'. split; [exact A1|]. split; [exact A2|].
      split; [rewrite A3, Mu, Mv; reflexivity|].
      intros x Hx Hxw. rewrite (A4 x Hx Hxw). apply R4. exact Hx.
Qed.

(* (a) memory safety: the call returns Some (no access to an invalid block, none outside a
   block); (b) the destination holds the exact sum / difference in well-formed form and
   every other variable keeps its value — for every alias pattern. *)
Theorem mpz_aors_safe_correct : forall dom sub st w u v,
  st_wf dom st -> In w dom -> In u dom -> In v dom ->
  exists st', mpz_aors sub st w u v = Some st' /\ st_wf dom st'
    /\ value_of st' w = (if sub then value_of st u - value_of st v
                         else value_of st u + value_of st v)
    /\ (forall x, In x dom -> x <> w -> value_of st' x = value_of st x).
Proof.
  intros dom sub st w u v Hwf Hw Hu Hv.
  destruct (mpz_aors_refines dom sub st w u v Hwf Hw Hu Hv) as (st' & A1 & A2 & A3 & A4).
  exists st'. split; [exact A1|]. split; [exact A2|].
  pose proof (zview_wf dom st u Hwf Hu) as Wu. pose proof (zview_wf dom st v Hwf Hv) as Wv.
  split.
  - unfold value_of. rewrite A3. destruct sub.
    + apply (mpz_sub_spec _ _ Wu Wv).
    + apply (mpz_add_spec _ _ Wu Wv).
  - intros x Hx Hxw. unfold value_of. rewrite (A4 x Hx Hxw). reflexivity.
Qed.

(* the same with the checked reads: after the call every variable of dom can be read back
   through its pointer, and the destination reads as the exact result *)
Corollary mpz_aors_readback : forall dom sub st w u v,
  st_wf dom st -> In w dom -> In u dom -> In v dom ->
  exists st' a b, mpz_aors sub st w u v = Some st'
    /\ value_opt st u = Some a /\ value_opt st v = Some b
    /\ value_opt st' w = Some (if sub then a - b else a + b)
    /\ (forall x, In x dom -> x <> w -> value_opt st' x = value_opt st x).
Proof.
  intros dom sub st w u v Hwf Hw Hu Hv.
  destruct (mpz_aors_safe_correct dom sub st w u v Hwf Hw Hu Hv) as (st' & A1 & A2 & A3 & A4).
  exists st', (value_of st u), (value_of st v). split; [exact A1|].
  split; [apply (value_opt_ok dom); assumption|].
  split; [apply (value_opt_ok dom); assumption|].
  split; [rewrite (value_opt_ok dom st' w A2 Hw), A3; reflexivity|].
  intros x Hx Hxw.
  rewrite (value_opt_ok dom st' x A2 Hx), (value_opt_ok dom st x Hwf Hx), (A4 x Hx Hxw).
  reflexivity.
Qed.

(* mpz_add and mpz_sub by name *)
Corollary mpz_add_heap : forall dom st w u v,
  st_wf dom st -> In w dom -> In u dom -> In v dom ->
  exists st', mpz_aors false st w u v = Some st' /\ st_wf dom st'
    /\ value_of st' w = value_of st u + value_of st v
    /\ (forall x, In x dom -> x <> w -> value_of st' x = value_of st x).
Proof. intros dom st. exact (mpz_aors_safe_correct dom false st). Qed.

Corollary mpz_sub_heap : forall dom st w u v,
  st_wf dom st -> In w dom -> In u dom -> In v dom ->
  exists st', mpz_aors true st w u v = Some st' /\ st_wf dom st'
    /\ value_of st' w = value_of st u - value_of st v
    /\ (forall x, In x dom -> x <> w -> value_of st' x = value_of st x).
Proof. intros dom st. exact (mpz_aors_safe_correct dom true st). Qed.

(* The stale variants differ from the code only when the reallocation happens: with room
   in w they are the same function, so a test that never forces the reallocation of an
   aliased destination cannot tell them apart. *)
Lemma stale_same_when_room sub st w u v :
  Z.abs (v_size (st_vars st u)) + 1 <= v_alloc (st_vars st w) ->
  Z.abs (v_size (st_vars st v)) + 1 <= v_alloc (st_vars st w) ->
  mpz_aors_stale sub st w u v = mpz_aors sub st w u v
  /\ mpz_aors_stale_src sub st w u v = mpz_aors sub st w u v.
Proof.
  intros H1 H2. unfold mpz_aors_stale, mpz_aors_stale_src, mpz_aors, aors_sizes.
  destruct (Z.abs (v_size (st_vars st u))
            <? Z.abs (if sub then - v_size (st_vars st v) else v_size (st_vars st v)));
    cbv beta iota zeta; unfold aors_realloc.
  - destruct (Z.ltb_spec (v_alloc (st_vars st w))
      (Z.abs (if sub then - v_size (st_vars st v) else v_size (st_vars st v)) + 1));
      [destruct sub; lia|]. split; reflexivity.
  - destruct (Z.ltb_spec (v_alloc (st_vars st w)) (Z.abs (v_size (st_vars st u)) + 1));
      [lia|]. split; reflexivity.
Qed.

(* Loading only the SOURCE pointers early is the same function as the code whenever w is
   neither u nor v: the reload order matters exactly because u or v may be w, as the comment
   in aors.h says. *)
Lemma aors_realloc_other st w n st1 x :
  aors_realloc st w n = Some st1 -> x <> w -> st_vars st1 x = st_vars st x.
Proof.
  unfold aors_realloc, mpz_realloc. intros H Hx.
  destruct (v_alloc (st_vars st w) <? n).
  - destruct (st_heap st (v_ptr (st_vars st w))); [|discriminate].
    injection H as <-. cbn [st_vars]. apply vupd_other. exact Hx.
  - injection H as <-. reflexivity.
Qed.

Theorem stale_src_same_without_alias sub st w u v :
  u <> w -> v <> w -> mpz_aors_stale_src sub st w u v = mpz_aors sub st w u v.
Proof.
  intros Hu Hv. unfold mpz_aors_stale_src, mpz_aors, aors_sizes.
  destruct (Z.abs (v_size (st_vars st u))
            <? Z.abs (if sub then - v_size (st_vars st v) else v_size (st_vars st v)));
    cbv beta iota zeta.
  - destruct (aors_realloc st w _) as [st1|] eqn:E; [|reflexivity]. cbn [bind].
    rewrite (aors_realloc_other _ _ _ _ u E Hu), (aors_realloc_other _ _ _ _ v E Hv).
    reflexivity.
  - destruct (aors_realloc st w _) as [st1|] eqn:E; [|reflexivity]. cbn [bind].
    rewrite (aors_realloc_other _ _ _ _ u E Hu), (aors_realloc_other _ _ _ _ v E Hv).
    reflexivity.
Qed.

(* ------------------------------------------------------------------ *)
(* concrete states                                                      *)

Lemma st_wfb_sound dom st : st_wfb dom st = true ->
  (forall p, (st_next st <= p)%nat -> st_heap st p = None) ->
  (forall i, limb (st_junk st i)) -> st_wf dom st.
Proof.
  unfold st_wfb. intros H Hf Hj. apply andb_true_iff in H. destruct H as [H1 H2].
  split; [|split; [|split]]; [| |exact Hf|exact Hj].
  - intros x Hx. rewrite forallb_forall in H1. specialize (H1 x Hx).
    unfold var_okb in H1. unfold var_ok.
    destruct (st_heap st (v_ptr (st_vars st x))) as [l|]; [|discriminate].
    apply andb_true_iff in H1. destruct H1 as [H1 A6].
    apply andb_true_iff in H1. destruct H1 as [H1 A5].
    apply andb_true_iff in H1. destruct H1 as [H1 A4].
    apply andb_true_iff in H1. destruct H1 as [H1 A3].
    apply andb_true_iff in H1. destruct H1 as [A1 A2].
    exists l. split; [reflexivity|].
    split; [apply Z.eqb_eq; exact A1|]. split; [apply Z.leb_le; exact A2|].
    split; [apply Z.leb_le; exact A3|]. split; [apply wfb_wf; exact A4|].
    split; [apply normb_sound; exact A5|apply Nat.ltb_lt; exact A6].
  - unfold distinctb in H2. rewrite forallb_forall in H2. intros x y Hx Hy Hxy.
    specialize (H2 x Hx). rewrite forallb_forall in H2. specialize (H2 y Hy).
    apply orb_true_iff in H2. destruct H2 as [H2|H2].
    + apply Nat.eqb_eq in H2. contradiction.
    + apply negb_true_iff in H2. apply Nat.eqb_neq in H2. exact H2.
Qed.

Lemma state3_wf s0 b0 s1 b1 s2 b2 :
  st_wfb [0; 1; 2]%nat (state3 s0 b0 s1 b1 s2 b2) = true ->
  st_wf [0; 1; 2]%nat (state3 s0 b0 s1 b1 s2 b2).
Proof.
  intros H. apply st_wfb_sound; [exact H| |].
  - cbn [state3 st_next st_heap]. intros p Hp. unfold heap3.
    destruct p as [|[|[|p]]]; try lia; reflexivity.
  - intros i. cbn [state3 st_junk]. apply wrap_limb.
Qed.

(* variable 0 = B^2 - 1 in a block of exactly 2 limbs, variable 1 = -3 in a block of 1
   limb, variable 2 = 0 in a block of 1 limb: every destination must be reallocated *)
Definition tight : state := state3 2 [B - 1; B - 1] (-1) [3] 0 [0].
(* the same integers with room in every block: no reallocation *)
Definition roomy : state := state3 2 [B - 1; B - 1; 7; 7] (-1) [3; 7; 7; 7] 0 [0; 7; 7; 7].

Lemma tight_wf : st_wf [0; 1; 2]%nat tight.
Proof. apply state3_wf. vm_compute. reflexivity. Qed.
Lemma roomy_wf : st_wf [0; 1; 2]%nat roomy.
Proof. apply state3_wf. vm_compute. reflexivity. Qed.

Example tight_obs : obs tight = [B * B - 1; -3; 0] /\ obs roomy = [B * B - 1; -3; 0].
Proof. split; vm_compute; reflexivity. Qed.

(* THE STALE VARIANT IS WRONG.  w = u (x += y) with alloc = |size|: the reallocation of w
   frees the block that up (loaded before it) still names; mpn_add reads through up: an
   invalid block.  The code as written gives the exact sum, keeps the state well-formed and
   the other variables. *)
Example mpz_aors_stale_wrong :
  st_wf [0; 1; 2]%nat tight
  /\ mpz_aors_stale false tight 0 0 1 = None
  /\ mpz_aors_stale_src false tight 0 0 1 = None
  /\ option_map obs (mpz_aors false tight 0 0 1) = Some [B * B - 1 - 3; -3; 0]
  /\ option_map (st_wfb [0; 1; 2]%nat) (mpz_aors false tight 0 0 1) = Some true.
Proof.
  split; [exact tight_wf|]. repeat split; vm_compute; reflexivity.
Qed.

(* where exactly it fails: after the reallocation of variable 0 the block 0 is invalid, and
   the load of {up, abs_usize} through the stale identifier 0 is the failing access *)
Example stale_reads_freed_block :
  exists st1, aors_realloc tight 0 3 = Some st1
    /\ st_heap st1 0%nat = None                       (* the old block of w = u is freed *)
    /\ v_ptr (st_vars tight 0%nat) = 0%nat                (* the pointer loaded before *)
    /\ v_ptr (st_vars st1 0%nat) = 3%nat                  (* the pointer loaded after  *)
    /\ load (st_heap st1) 0 2 = None
    /\ load (st_heap st1) 3 2 = Some [B - 1; B - 1].
Proof. eexists. split; [reflexivity|]. repeat split; vm_compute; reflexivity. Qed.

(* w = v (y = x + y), stale: fails; as coded: exact *)
Example alias_w_eq_v :
  mpz_aors_stale false tight 1 0 1 = None
  /\ mpz_aors_stale_src false tight 1 0 1 = None
  /\ option_map obs (mpz_aors false tight 1 0 1) = Some [B * B - 1; B * B - 4; 0]
  /\ option_map obs (mpz_aors true tight 1 0 1) = Some [B * B - 1; B * B + 2; 0]
  /\ option_map (st_wfb [0; 1; 2]%nat) (mpz_aors true tight 1 0 1) = Some true.
Proof. repeat split; vm_compute; reflexivity. Qed.

(* w = u, subtraction and a carry into a new limb (x -= y with y < 0) *)
Example alias_w_eq_u :
  option_map obs (mpz_aors true tight 0 0 1) = Some [B * B + 2; -3; 0]
  /\ option_map obs (mpz_aors true tight 1 1 0) = Some [B * B - 1; - (B * B) - 2; 0]
  /\ option_map (st_wfb [0; 1; 2]%nat) (mpz_aors true tight 0 0 1) = Some true.
Proof. repeat split; vm_compute; reflexivity. Qed.

(* u = v (z = x + x, z = x - x): sources share a block, destination distinct *)
Example alias_u_eq_v :
  option_map obs (mpz_aors false tight 2 0 0) = Some [B * B - 1; -3; 2 * B * B - 2]
  /\ option_map obs (mpz_aors true tight 2 0 0) = Some [B * B - 1; -3; 0]
  /\ option_map obs (mpz_aors false tight 2 1 1) = Some [B * B - 1; -3; -6]
  /\ option_map (st_wfb [0; 1; 2]%nat) (mpz_aors false tight 2 0 0) = Some true.
Proof. repeat split; vm_compute; reflexivity. Qed.

(* w = u = v (x += x, x -= x): one block read twice and written; stale fails *)
Example alias_w_eq_u_eq_v :
  mpz_aors_stale false tight 0 0 0 = None
  /\ option_map obs (mpz_aors false tight 0 0 0) = Some [2 * B * B - 2; -3; 0]
  /\ option_map obs (mpz_aors true tight 0 0 0) = Some [0; -3; 0]
  /\ option_map obs (mpz_aors false tight 1 1 1) = Some [B * B - 1; -6; 0]
  /\ option_map (st_wfb [0; 1; 2]%nat) (mpz_aors false tight 0 0 0) = Some true
  /\ option_map (st_wfb [0; 1; 2]%nat) (mpz_aors true tight 0 0 0) = Some true.
Proof. repeat split; vm_compute; reflexivity. Qed.

(* all distinct.  Loading only the source pointers early is harmless here; loading wp early
   is not (the write goes to the freed block of w) *)
Example alias_none :
  option_map obs (mpz_aors false tight 2 0 1) = Some [B * B - 1; -3; B * B - 4]
  /\ option_map obs (mpz_aors true tight 2 1 0) = Some [B * B - 1; -3; - (B * B) - 2]
  /\ option_map obs (mpz_aors_stale_src false tight 2 0 1) = Some [B * B - 1; -3; B * B - 4]
  /\ mpz_aors_stale false tight 2 0 1 = None
  /\ option_map (st_wfb [0; 1; 2]%nat) (mpz_aors false tight 2 0 1) = Some true.
Proof. repeat split; vm_compute; reflexivity. Qed.

(* with room in the destination the stale variant passes: the defect is latent *)
Example stale_passes_with_room :
  option_map obs (mpz_aors_stale false roomy 0 0 1) = Some [B * B - 1 - 3; -3; 0]
  /\ option_map obs (mpz_aors_stale false roomy 0 0 0) = Some [2 * B * B - 2; -3; 0]
  /\ option_map obs (mpz_aors false roomy 0 0 0) = Some [2 * B * B - 2; -3; 0].
Proof. repeat split; vm_compute; reflexivity. Qed.

(* the general theorem instantiated on the concrete state (non-vacuity of its hypotheses) *)
Example theorem_applies :
  exists st', mpz_aors false tight 0 0 0 = Some st' /\ st_wf [0; 1; 2]%nat st'
    /\ value_of st' 0 = value_of tight 0 + value_of tight 0
    /\ (forall x, In x [0; 1; 2]%nat -> x <> 0%nat -> value_of st' x = value_of tight x).
Proof. apply mpz_aors_safe_correct; [exact tight_wf|cbn; auto..]. Qed.
