(* ApiPow.v — correspondence entry points for C08.  Definitions only. *)
From Coq Require Import ZArith List Bool.
From Mpir Require Import Word MpzDefs DivDefs GcdDefs PowDefs ApiBasic ApiDiv PowmWDefs.
Import ListNotations.
Local Open Scope Z_scope.

Definition api_mpz_powm : api := fun a =>
  match mpz_powm (argz a 0) (argz a 1) (argz a 2) with Ok r => out_zval r | DivByZero => dz end.
Definition api_mpz_powm_ui : api := api_mpz_powm.
Definition api_mpz_pow_ui : api := fun a => out_zval (mpz_pow_ui (argz a 0) (argz a 1)).
Definition api_mpz_ui_pow_ui : api := api_mpz_pow_ui.
Definition api_mpn_redc_1 : api := fun a =>
  let n := Z.to_nat (argz a 0) in let m := argz a 2 in
  let inv := binvert_limb (m mod B) in
  [TZ (redc_1 (argz a 1) m n ((B - inv) mod B)); TZ inv].
(* certificate for the n-limb REDC: redcncheck n T M R -> 1 iff 0 <= R < M and R * B^n = T (mod M); for odd M this R is unique,
   it is the canonical residue T * B^-n mod M that mpn_redc_n must return when the high half of T is below M *)
Definition api_redcncheck : api := fun a =>
  let n := argz a 0 in let t := argz a 1 in let m := argz a 2 in let r := argz a 3 in
  [TZ (b2z ((0 <=? r) && (r <? m) && ((r * B ^ n - t) mod m =? 0)))].
(* certificate for a modular power with a large modulus given as a product of pairwise coprime small
   factors: B E R f1 f2 ... -> 1 iff 0 <= R < prod f_i, the f_i are pairwise coprime, and
   R mod f_i = B^E mod f_i for every i (so R = B^E mod prod f_i by the Chinese remainder theorem) *)
Fixpoint coprime_all (seen : Z) (fs : list Z) : bool :=
  match fs with [] => true | f :: r => (Z.gcd seen f =? 1) && coprime_all (seen * f) r end.
Definition api_powmcheck : api := fun a =>
  let b := argz a 0 in let e := argz a 1 in let r := argz a 2 in
  let fs := map tz (skipn 3 a) in
  let m := fold_left Z.mul fs 1 in
  let ok := (0 <=? r) && (r <? m) && coprime_all 1 fs
            && forallb (fun f => match mpz_powm b e f with Ok x => r mod f =? x | DivByZero => false end) fs in
  [TZ (b2z ok)].

(* ---- mpn/generic/powm.c and mpz/powm.c AS CODED (PowmWDefs.v: win_size, getbits across limb boundaries, the table of odd powers in
   Montgomery form, the zero-skipping / window loop, the final canonical reduction; the wrapper with its e = 0, e = 1, negative
   exponent, negative base and even-modulus paths) ----
   mpn_powm B E M : B any limbs (bn = its limb count), E > 1, M odd of n limbs: the n result limbs as a value
   mpz_powm_c B E M alias : the same call as mpz_powm, the model being the as-coded wrapper (value, then the size field) *)
Definition api_mpn_powm : api := fun a =>
  let bl := limbs_of_Z (argz a 0) in let el := limbs_of_Z (argz a 1) in let ml := limbs_of_Z (argz a 2) in
  match mpn_powm_c bl el ml with [] => [TZ (-1)] | r => [TZ (Limbs.eval r)] end.
Definition api_mpz_powm_c : api := fun a =>
  match mpz_powm_c (mpz_of_Z (argz a 0)) (mpz_of_Z (argz a 1)) (mpz_of_Z (argz a 2)) with
  | Ok z => [TZ (value z); TZ (sz z)]
  | DivByZero => dz
  end.
