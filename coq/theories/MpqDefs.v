(* MpqDefs.v — models behind C12: rational arithmetic on numerator/denominator pairs with the
   gcd-based control flow of mpq/aors.c, mul.c, div.c, inv.c, md_2exp.c, canonicalize.c.
   Definitions only. *)
From Coq Require Import ZArith List Bool.
From Mpir Require Import Word DivDefs ConvDefs.
Import ListNotations.
Local Open Scope Z_scope.

Record mpq := mkq { qn : Z; qd : Z }.
(* canonical form: positive denominator, numerator and denominator coprime (so zero is 0/1) *)
Definition qcanon (q : mpq) : Prop := 0 < qd q /\ Z.gcd (qn q) (qd q) = 1.
Definition qcanonb (q : mpq) : bool := (0 <? qd q) && (Z.gcd (qn q) (qd q) =? 1).

(* mpq/aors.c *)
Definition mpq_aors (x y : mpq) (fn : Z -> Z -> Z) : mpq :=
  let g := Z.gcd (qd x) (qd y) in
  if negb (g =? 1) then
    let tmp1 := qn x * (qd y / g) in
    let tmp2 := qn y * (qd x / g) in
    let t := fn tmp1 tmp2 in
    let tmp2' := qd x / g in
    let g2 := Z.gcd t g in
    if g2 =? 1 then mkq t (qd y * tmp2')
    else mkq (t / g2) ((qd y / g2) * tmp2')
  else mkq (fn (qn x * qd y) (qn y * qd x)) (qd x * qd y).
Definition mpq_add (x y : mpq) : mpq := mpq_aors x y Z.add.
Definition mpq_sub (x y : mpq) : mpq := mpq_aors x y Z.sub.

(* mpq/mul.c; [same] = the two operands are the same object (squaring shortcut) *)
Definition mpq_mul (x y : mpq) (same : bool) : mpq :=
  if same then mkq (qn x * qn x) (qd x * qd x)
  else
    let g1 := Z.gcd (qn x) (qd y) in
    let g2 := Z.gcd (qn y) (qd x) in
    mkq ((qn x / g1) * (qn y / g2)) ((qd y / g1) * (qd x / g2)).

(* mpq/div.c *)
Definition mpq_div (x y : mpq) : res mpq :=
  if qn y =? 0 then DivByZero
  else
    let g1 := Z.gcd (qn x) (qn y) in
    let g2 := Z.gcd (qd y) (qd x) in
    let num := (qn x / g1) * (qd y / g2) in
    let den := (qn y / g1) * (qd x / g2) in
    Ok (if den <? 0 then mkq (- num) (- den) else mkq num den).

(* mpq/inv.c *)
Definition mpq_inv (x : mpq) : res mpq :=
  if qn x =? 0 then DivByZero
  else Ok (if qn x <? 0 then mkq (- qd x) (- qn x) else mkq (qd x) (qn x)).
Definition mpq_neg (x : mpq) : mpq := mkq (- qn x) (qd x).
Definition mpq_abs (x : mpq) : mpq := mkq (Z.abs (qn x)) (qd x).

(* number of trailing zero bits of a non-zero integer *)
Definition v2 (x : Z) : Z := ctz (Z.abs x).
(* mpq/md_2exp.c mord_2exp: strip up to n factors of two from r, shift l left by the rest *)
Definition mord_2exp (l r n : Z) : Z * Z :=
  let k := Z.min (v2 r) n in (l * 2 ^ (n - k), r / 2 ^ k).
Definition mpq_mul_2exp (x : mpq) (n : Z) : mpq :=
  let '(l, r) := mord_2exp (qn x) (qd x) n in mkq l r.
Definition mpq_div_2exp (x : mpq) (n : Z) : mpq :=
  if qn x =? 0 then mkq 0 1
  else let '(l, r) := mord_2exp (qd x) (qn x) n in mkq r l.

(* mpq/canonicalize.c *)
Definition mpq_canonicalize (x : mpq) : res mpq :=
  if qd x =? 0 then DivByZero
  else
    let g := Z.gcd (qn x) (qd x) in
    let n := qn x / g in let d := qd x / g in
    Ok (if d <? 0 then mkq (- n) (- d) else mkq n d).

Definition mpq_set_z (z : Z) : mpq := mkq z 1.
(* mpq_set_d: the exact value of a finite double in canonical form *)
Definition mpq_set_d (bits : Z) : cres mpq :=
  match decode_double bits with
  | DFin neg m e =>
      let sm := if neg then - m else m in
      if m =? 0 then COk (mkq 0 1)
      else if 0 <=? e then COk (mkq (sm * 2 ^ e) 1)
      else let k := Z.min (v2 m) (- e) in COk (mkq (sm / 2 ^ k) (2 ^ (- e - k)))
  | _ => Invalid
  end.
(* mpq_set_f: mantissa * 2^e exactly *)
Definition mpq_set_f (m e : Z) : mpq :=
  if m =? 0 then mkq 0 1
  else if 0 <=? e then mkq (m * 2 ^ e) 1
  else let k := Z.min (v2 m) (- e) in mkq (m / 2 ^ k) (2 ^ (- e - k)).
