(* RootDefs.v — models behind C09: Zimmermann's divide-and-conquer square root with remainder
   (mpn/generic/sqrtrem.c, value level: split at l = n/2 limbs, recursive root of the high part,
   division by twice that root, one possible correction), the normalising shift of mpn_sqrtrem,
   integer n-th roots and the mpz wrappers (sign for odd n, exactness flag, remainder), perfect
   square / perfect power tests.  Definitions only. *)
From Coq Require Import ZArith List Bool.
From Mpir Require Import Word DivDefs.
Import ListNotations.
Local Open Scope Z_scope.

(* base case: two limbs, normalised (mpn_sqrtrem2's contract) *)
Definition sqrtrem2 (x : Z) : Z * Z := let s := Z.sqrt x in (s, x - s * s).

(* mpn_dc_sqrtrem on 2n limbs, top limb >= B/4 *)
Fixpoint dc_sqrtrem (fuel : nat) (n x : Z) : Z * Z :=
  match fuel with
  | O => sqrtrem2 x
  | S f =>
      if n <=? 1 then sqrtrem2 x
      else
        let l := n / 2 in let h := n - l in
        let bl := B ^ l in
        let hi := x / (bl * bl) in                 (* top 2h limbs *)
        let a1 := (x / bl) mod bl in
        let a0 := x mod bl in
        let '(s', r') := dc_sqrtrem f h hi in
        let q := (r' * bl + a1) / (2 * s') in
        let u := (r' * bl + a1) mod (2 * s') in
        let s := s' * bl + q in
        let r := u * bl + a0 - q * q in
        if r <? 0 then (s - 1, r + 2 * s - 1) else (s, r)
  end.

(* mpn_sqrtrem: normalise by an even shift, take the root, shift back, recompute the remainder *)
Definition mpn_sqrtrem (x : Z) : Z * Z :=
  if x =? 0 then (0, 0)
  else
    let nn := Z.log2 x / 64 + 1 in
    let tn := (nn + 1) / 2 in
    let c := (64 * 2 * tn - (Z.log2 x + 1)) / 2 in        (* x * 4^c has its top bit or the one below set in 2 tn limbs *)
    let '(s', _) := dc_sqrtrem (Z.to_nat (Z.log2 tn) + 2) tn (x * 4 ^ c) in
    let s := s' / 2 ^ c in
    (s, x - s * s).

(* integer n-th root of x >= 0 (n >= 1): the largest r with r^n <= x, by bisection on the bit length *)
Fixpoint iroot_bits (bits : nat) (n x acc : Z) : Z :=
  match bits with
  | O => acc
  | S k => let cand := acc + 2 ^ Z.of_nat k in
           iroot_bits k n x (if cand ^ n <=? x then cand else acc)
  end.
Definition iroot (n x : Z) : Z :=
  if x <=? 0 then 0 else iroot_bits (Z.to_nat (Z.log2 x / n + 1)) n x 0.

Inductive rres (A : Type) := ROk (a : A) | RDivByZero | RSqrtNeg.
Arguments ROk {A} a. Arguments RDivByZero {A}. Arguments RSqrtNeg {A}.

(* mpz_root (root, u, n): truncated root and the exactness flag *)
Definition mpz_root (u n : Z) : rres (Z * bool) :=
  if (u <? 0) && Z.even n then RSqrtNeg
  else if n =? 0 then RDivByZero
  else let r := iroot n (Z.abs u) in
       ROk ((if u <? 0 then - r else r), r ^ n =? Z.abs u).
(* mpz_rootrem (root, rem, u, n) *)
Definition mpz_rootrem (u n : Z) : rres (Z * Z) :=
  match mpz_root u n with
  | ROk (r, _) => ROk (r, u - r ^ n)
  | RDivByZero => RDivByZero
  | RSqrtNeg => RSqrtNeg
  end.
Definition mpz_sqrtrem (u : Z) : rres (Z * Z) :=
  if u <? 0 then RSqrtNeg else ROk (mpn_sqrtrem u).
Definition mpz_perfect_square_p (u : Z) : bool := (0 <=? u) && (let s := Z.sqrt u in s * s =? u).
(* exists a, b > 1 with u = a^b; 0 and 1 count; negatives only with odd b *)
Fixpoint pp_scan (fuel : nat) (k u : Z) (odd_only : bool) : bool :=
  match fuel with
  | O => false
  | S f =>
      let r := iroot k u in
      if (if odd_only then Z.odd k else true) && (r ^ k =? u) then true
      else pp_scan f (k + 1) u odd_only
  end.
Definition mpz_perfect_power_p (u : Z) : bool :=
  if (u =? 0) || (u =? 1) || (u =? -1) then true
  else pp_scan (Z.to_nat (Z.log2 (Z.abs u))) 2 (Z.abs u) (u <? 0).
