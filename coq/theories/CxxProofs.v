(* CxxProofs.v — proofs behind C20: the evaluation strategy of the expression templates (CxxDefs.run)
   leaves in the destination the value of the expression (CxxDefs.value), for any carrier and any
   operator semantics; the operator table of mpz_class. *)
From Coq Require Import ZArith List Bool Lia Arith.
From Mpir Require Import Word CxxDefs.
Import ListNotations.

(* ---- locations ---- *)
Lemma loc_eqb_eq : forall a b, loc_eqb a b = true <-> a = b.
Proof.
  intros [x|i] [y|j]; simpl; try (split; intros H; discriminate H).
  - rewrite Nat.eqb_eq. split; [intros ->; reflexivity | intros H; injection H; auto].
  - rewrite Nat.eqb_eq. split; [intros ->; reflexivity | intros H; injection H; auto].
Qed.
Lemma loc_eqb_refl : forall a, loc_eqb a a = true.
Proof. intros a. apply loc_eqb_eq. reflexivity. Qed.
Lemma loc_eqb_sym : forall a b, loc_eqb a b = loc_eqb b a.
Proof. intros [x|i] [y|j]; simpl; auto using Nat.eqb_sym. Qed.
Lemma loc_eqb_neq : forall a b, a <> b -> loc_eqb a b = false.
Proof.
  intros a b H. destruct (loc_eqb a b) eqn:E; [|reflexivity].
  apply loc_eqb_eq in E. contradiction.
Qed.

Definition okdest (p : loc) (k : nat) : Prop := match p with Tmp i => (i < k)%nat | Named _ => True end.
Lemma okdest_tmp : forall k, okdest (Tmp k) (S k).
Proof. intros k. simpl. lia. Qed.
Lemma okdest_S : forall p k, okdest p k -> okdest p (S k).
Proof. intros [x|i] k; simpl; [auto | lia]. Qed.
Lemma tmp_ne_dest : forall p k, okdest p k -> loc_eqb (Tmp k) p = false.
Proof.
  intros [x|i] k; simpl; [reflexivity|]. intros H. apply Nat.eqb_neq. lia.
Qed.
Lemma tmp_lt_ne : forall i k, (i < k)%nat -> loc_eqb (Tmp i) (Tmp k) = false.
Proof. intros i k H. simpl. apply Nat.eqb_neq. lia. Qed.

Lemma leaf_cases : forall e, (exists x, e = EVar x) \/ (exists j, e = EBuiltin j) \/ is_leaf e = false.
Proof.
  intros [x|j|op a|op a b]; [left; eauto | right; left; eauto | right; right; reflexivity ..].
Qed.

Section Strategy.
Variable V : Type.
Variable un : Z -> V -> V.
Variable bin : Z -> V -> V -> V.
Variable binl : Z -> V -> Z -> V.
Variable binr : Z -> Z -> V -> V.
Variable blt : Z -> Z.
Variable dflt : V.

Notation value := (CxxDefs.value V un bin binl binr blt dflt).
Notation run := (CxxDefs.run V un bin binl binr blt).
Notation upd := (CxxDefs.upd V).
Notation store := (CxxDefs.store V).

Lemma upd_same : forall (s : store) p x, upd s p x p = x.
Proof. intros. unfold CxxDefs.upd. rewrite loc_eqb_refl. reflexivity. Qed.
Lemma upd_other : forall (s : store) p x q, loc_eqb q p = false -> upd s p x q = s q.
Proof. intros s p x q H. unfold CxxDefs.upd. rewrite H. reflexivity. Qed.

(* the value depends on the environment pointwise only *)
Lemma value_ext : forall e env1 env2, (forall v, env1 v = env2 v) -> value e env1 = value e env2.
Proof.
  induction e as [x|j|op a IHa|op a IHa b IHb]; intros env1 env2 H.
  - simpl. apply H.
  - reflexivity.
  - simpl. rewrite (IHa env1 env2 H). reflexivity.
  - specialize (IHa env1 env2 H). specialize (IHb env1 env2 H).
    destruct a, b; cbn in *; congruence.
Qed.

(* ---- the equations of value / run / wf_expr by shape ---- *)
Lemma value_bin_bx : forall op j b env, value (EBin op (EBuiltin j) b) env = binr op (blt j) (value b env).
Proof. intros. destruct b; reflexivity. Qed.
Lemma value_bin_vb : forall op x j env, value (EBin op (EVar x) (EBuiltin j)) env = binl op (env x) (blt j).
Proof. reflexivity. Qed.
Lemma value_bin_cb : forall op a j env, is_leaf a = false ->
  value (EBin op a (EBuiltin j)) env = binl op (value a env) (blt j).
Proof. intros op a j env H. destruct a; try discriminate H; reflexivity. Qed.
Lemma value_bin_vv : forall op x y env, value (EBin op (EVar x) (EVar y)) env = bin op (env x) (env y).
Proof. reflexivity. Qed.
Lemma value_bin_vc : forall op x b env, is_leaf b = false ->
  value (EBin op (EVar x) b) env = bin op (env x) (value b env).
Proof. intros op x b env H. destruct b; try discriminate H; reflexivity. Qed.
Lemma value_bin_cv : forall op a y env, is_leaf a = false ->
  value (EBin op a (EVar y)) env = bin op (value a env) (env y).
Proof. intros op a y env H. destruct a; try discriminate H; reflexivity. Qed.
Lemma value_bin_cc : forall op a b env, is_leaf a = false -> is_leaf b = false ->
  value (EBin op a b) env = bin op (value a env) (value b env).
Proof. intros op a b env Ha Hb. destruct a; try discriminate Ha; destruct b; try discriminate Hb; reflexivity. Qed.

Lemma wf_bin_bc : forall op j b, is_leaf b = false -> wf_expr (EBin op (EBuiltin j) b) = wf_expr b.
Proof. intros op j b H. destruct b; try discriminate H; reflexivity. Qed.
Lemma wf_bin_cb : forall op a j, is_leaf a = false -> wf_expr (EBin op a (EBuiltin j)) = wf_expr a.
Proof. intros op a j H. destruct a; try discriminate H; reflexivity. Qed.
Lemma wf_bin_vc : forall op x b, is_leaf b = false -> wf_expr (EBin op (EVar x) b) = wf_expr b.
Proof. intros op x b H. destruct b; try discriminate H; reflexivity. Qed.
Lemma wf_bin_cv : forall op a y, is_leaf a = false -> wf_expr (EBin op a (EVar y)) = wf_expr a.
Proof. intros op a y H. destruct a; try discriminate H; simpl; apply andb_true_r. Qed.
Lemma wf_bin_cc : forall op a b, is_leaf a = false -> is_leaf b = false ->
  wf_expr (EBin op a b) = wf_expr a && wf_expr b.
Proof. intros op a b Ha Hb. destruct a; try discriminate Ha; destruct b; try discriminate Hb; reflexivity. Qed.

Lemma run_un_c : forall op a p k (s : store), is_leaf a = false ->
  run (EUn op a) p k s = upd (run a p k s) p (un op (run a p k s p)).
Proof. intros op a p k s H. destruct a; try discriminate H; reflexivity. Qed.
Lemma run_bin_vc : forall op x b p k (s : store), is_leaf b = false ->
  run (EBin op (EVar x) b) p k s =
  if loc_eqb p (Named x)
  then upd (run b (Tmp k) (S k) s) p (bin op (run b (Tmp k) (S k) s (Named x)) (run b (Tmp k) (S k) s (Tmp k)))
  else upd (run b p k s) p (bin op (run b p k s (Named x)) (run b p k s p)).
Proof. intros op x b p k s H. destruct b; try discriminate H; reflexivity. Qed.
Lemma run_bin_cv : forall op a y p k (s : store), is_leaf a = false ->
  run (EBin op a (EVar y)) p k s =
  if loc_eqb p (Named y)
  then upd (run a (Tmp k) (S k) s) p (bin op (run a (Tmp k) (S k) s (Tmp k)) (run a (Tmp k) (S k) s (Named y)))
  else upd (run a p k s) p (bin op (run a p k s p) (run a p k s (Named y))).
Proof. intros op a y p k s H. destruct a; try discriminate H; reflexivity. Qed.
Lemma run_bin_cb : forall op a j p k (s : store), is_leaf a = false ->
  run (EBin op a (EBuiltin j)) p k s = upd (run a p k s) p (binl op (run a p k s p) (blt j)).
Proof. intros op a j p k s H. destruct a; try discriminate H; reflexivity. Qed.
Lemma run_bin_bc : forall op j b p k (s : store), is_leaf b = false ->
  run (EBin op (EBuiltin j) b) p k s = upd (run b p k s) p (binr op (blt j) (run b p k s p)).
Proof. intros op j b p k s H. destruct b; try discriminate H; reflexivity. Qed.
Lemma run_bin_cc : forall op a b p k (s : store), is_leaf a = false -> is_leaf b = false ->
  run (EBin op a b) p k s =
  upd (run a p (S k) (run b (Tmp k) (S k) s)) p
      (bin op (run a p (S k) (run b (Tmp k) (S k) s) p) (run a p (S k) (run b (Tmp k) (S k) s) (Tmp k))).
Proof. intros op a b p k s Ha Hb. destruct a; try discriminate Ha; destruct b; try discriminate Hb; reflexivity. Qed.

(* ---- the postcondition ---- *)
Definition post (e : expr) (p : loc) (k : nat) (s s' : store) : Prop :=
  s' p = value e (fun v => s (Named v))
  /\ (forall v, loc_eqb (Named v) p = false -> s' (Named v) = s (Named v))
  /\ (forall i, (i < k)%nat -> loc_eqb (Tmp i) p = false -> s' (Tmp i) = s (Tmp i)).
Definition good (e : expr) : Prop :=
  forall p k (s : store), wf_expr e = true -> okdest p k -> post e p k s (run e p k s).

(* a store that writes p only *)
Lemma post_upd : forall e p k (s : store) x, x = value e (fun v => s (Named v)) -> post e p k s (upd s p x).
Proof.
  intros e p k s x Hx. unfold post. split; [|split].
  - rewrite upd_same. exact Hx.
  - intros v Hv. apply upd_other. exact Hv.
  - intros i _ Hi. apply upd_other. exact Hi.
Qed.

(* evaluate a into p, then overwrite p *)
Lemma post_inplace : forall e a p k (s : store) x, good a -> wf_expr a = true -> okdest p k ->
  (run a p k s p = value a (fun v => s (Named v)) -> x = value e (fun v => s (Named v))) ->
  post e p k s (upd (run a p k s) p x).
Proof.
  intros e a p k s x Ga Wa Hp Hx. destruct (Ga p k s Wa Hp) as (A1 & A2 & A3).
  unfold post. split; [|split].
  - rewrite upd_same. apply Hx. exact A1.
  - intros v Hv. rewrite upd_other by exact Hv. apply A2. exact Hv.
  - intros i Hi Hv. rewrite upd_other by exact Hv. apply A3; assumption.
Qed.

(* evaluate b into the temporary k, then overwrite p *)
Lemma post_temp : forall e b p k (s : store) x, good b -> wf_expr b = true -> okdest p k ->
  (run b (Tmp k) (S k) s (Tmp k) = value b (fun v => s (Named v)) ->
   (forall v, run b (Tmp k) (S k) s (Named v) = s (Named v)) -> x = value e (fun v => s (Named v))) ->
  post e p k s (upd (run b (Tmp k) (S k) s) p x).
Proof.
  intros e b p k s x Gb Wb Hp Hx. destruct (Gb (Tmp k) (S k) s Wb (okdest_tmp k)) as (B1 & B2 & B3).
  unfold post. split; [|split].
  - rewrite upd_same. apply Hx; [exact B1|]. intros v. apply B2. reflexivity.
  - intros v Hv. rewrite upd_other by exact Hv. apply B2. reflexivity.
  - intros i Hi Hv. rewrite upd_other by exact Hv. apply B3; [lia|]. apply tmp_lt_ne. exact Hi.
Qed.

Lemma good_all : forall e, good e.
Proof.
  induction e as [x|j|op a IHa|op a IHa b IHb]; intros p k s W Hp.
  - (* EVar *) apply post_upd. reflexivity.
  - (* EBuiltin *) discriminate W.
  - (* EUn *)
    destruct (leaf_cases a) as [[x ->]|[[j ->]|La]].
    + apply post_upd. reflexivity.
    + discriminate W.
    + rewrite run_un_c by exact La. apply post_inplace; try assumption.
      intros A1. rewrite A1. reflexivity.
  - (* EBin *)
    destruct (leaf_cases a) as [[x ->]|[[j ->]|La]]; destruct (leaf_cases b) as [[y ->]|[[j' ->]|Lb]].
    + (* var, var *) apply post_upd. reflexivity.
    + (* var, builtin *) apply post_upd. reflexivity.
    + (* var, compound *)
      rewrite wf_bin_vc in W by exact Lb.
      rewrite run_bin_vc by exact Lb.
      destruct (loc_eqb p (Named x)) eqn:Epx.
      * apply post_temp; try assumption.
        intros B1 B2. rewrite B1, B2. rewrite value_bin_vc by exact Lb. reflexivity.
      * apply post_inplace; try assumption.
        intros B1. destruct (IHb p k s W Hp) as (_ & B2 & _).
        rewrite B1, B2 by (rewrite loc_eqb_sym; exact Epx).
        rewrite value_bin_vc by exact Lb. reflexivity.
    + (* builtin, var *) apply post_upd. reflexivity.
    + (* builtin, builtin *) discriminate W.
    + (* builtin, compound *)
      rewrite wf_bin_bc in W by exact Lb.
      rewrite run_bin_bc by exact Lb.
      apply post_inplace; try assumption.
      intros B1. rewrite B1. rewrite value_bin_bx. reflexivity.
    + (* compound, var *)
      rewrite wf_bin_cv in W by exact La.
      rewrite run_bin_cv by exact La.
      destruct (loc_eqb p (Named y)) eqn:Epy.
      * apply post_temp; try assumption.
        intros A1 A2. rewrite A1, A2. rewrite value_bin_cv by exact La. reflexivity.
      * apply post_inplace; try assumption.
        intros A1. destruct (IHa p k s W Hp) as (_ & A2 & _).
        rewrite A1, A2 by (rewrite loc_eqb_sym; exact Epy).
        rewrite value_bin_cv by exact La. reflexivity.
    + (* compound, builtin *)
      rewrite wf_bin_cb in W by exact La.
      rewrite run_bin_cb by exact La.
      apply post_inplace; try assumption.
      intros A1. rewrite A1. rewrite value_bin_cb by exact La. reflexivity.
    + (* compound, compound *)
      rewrite wf_bin_cc in W by assumption.
      apply andb_true_iff in W. destruct W as [Wa Wb].
      rewrite run_bin_cc by assumption.
      destruct (IHb (Tmp k) (S k) s Wb (okdest_tmp k)) as (B1 & B2 & B3).
      set (s1 := run b (Tmp k) (S k) s) in *.
      destruct (IHa p (S k) s1 Wa (okdest_S p k Hp)) as (A1 & A2 & A3).
      set (s2 := run a p (S k) s1) in *.
      assert (Env : value a (fun v => s1 (Named v)) = value a (fun v => s (Named v))).
      { apply value_ext. intros v. apply B2. reflexivity. }
      unfold post. split; [|split].
      * rewrite upd_same. rewrite A1, Env.
        rewrite (A3 k (Nat.lt_succ_diag_r k) (tmp_ne_dest p k Hp)). rewrite B1.
        rewrite value_bin_cc by assumption. reflexivity.
      * intros v Hv. rewrite upd_other by exact Hv. rewrite A2 by exact Hv. apply B2. reflexivity.
      * intros i Hi Hv. rewrite upd_other by exact Hv.
        rewrite A3 by (try lia; exact Hv). apply B3; [lia|]. apply tmp_lt_ne. exact Hi.
Qed.

Lemma strategy_correct_sec : forall e p k (s : store), wf_expr e = true ->
  (match p with Tmp i => (i < k)%nat | Named _ => True end) ->
  run e p k s p = value e (fun v => s (Named v))
  /\ (forall v, loc_eqb (Named v) p = false -> run e p k s (Named v) = s (Named v))
  /\ (forall i, (i < k)%nat -> loc_eqb (Tmp i) p = false -> run e p k s (Tmp i) = s (Tmp i)).
Proof. intros e p k s W Hp. exact (good_all e p k s W Hp). Qed.

Lemma named_ne : forall v x : nat, v <> x -> loc_eqb (Named v) (Named x) = false.
Proof. intros v x H. simpl. apply Nat.eqb_neq. exact H. Qed.

Lemma assignment_correct_sec : forall x e (s : store), wf_expr e = true ->
  assign V un bin binl binr blt x e s (Named x) = value e (fun v => s (Named v))
  /\ (forall v, v <> x -> assign V un bin binl binr blt x e s (Named v) = s (Named v)).
Proof.
  intros x e s W. unfold assign.
  destruct (strategy_correct_sec e (Named x) 0 s W I) as (H1 & H2 & _).
  split; [exact H1|]. intros v Hv. apply H2. apply named_ne. exact Hv.
Qed.

Lemma compound_correct_sec : forall op x e (s : store), wf_expr e = true \/ (exists j, e = EBuiltin j) ->
  compound V un bin binl binr blt op x e s (Named x) = value (EBin op (EVar x) e) (fun v => s (Named v))
  /\ (forall v, v <> x -> compound V un bin binl binr blt op x e s (Named v) = s (Named v)).
Proof.
  intros op x e s H. unfold compound.
  assert (W : wf_expr (EBin op (EVar x) e) = true).
  { destruct H as [W|[j ->]]; [|reflexivity]. destruct e; try exact W. discriminate W. }
  destruct (strategy_correct_sec (EBin op (EVar x) e) (Named x) 0 s W I) as (H1 & H2 & _).
  split; [exact H1|]. intros v Hv. apply H2. apply named_ne. exact Hv.
Qed.
End Strategy.

Lemma strategy_correct : forall (V : Type) (un : Z -> V -> V) (bin : Z -> V -> V -> V) (binl : Z -> V -> Z -> V)
  (binr : Z -> Z -> V -> V) (blt : Z -> Z) (dflt : V),
  forall e p k s, wf_expr e = true ->
  (match p with Tmp i => (i < k)%nat | Named _ => True end) ->
  CxxDefs.run V un bin binl binr blt e p k s p = CxxDefs.value V un bin binl binr blt dflt e (fun v => s (Named v))
  /\ (forall v, loc_eqb (Named v) p = false -> CxxDefs.run V un bin binl binr blt e p k s (Named v) = s (Named v))
  /\ (forall i, (i < k)%nat -> loc_eqb (Tmp i) p = false -> CxxDefs.run V un bin binl binr blt e p k s (Tmp i) = s (Tmp i)).
Proof. intros V un bin binl binr blt dflt. exact (strategy_correct_sec V un bin binl binr blt dflt). Qed.

Lemma assignment_correct : forall (V : Type) (un : Z -> V -> V) (bin : Z -> V -> V -> V) (binl : Z -> V -> Z -> V)
  (binr : Z -> Z -> V -> V) (blt : Z -> Z) (dflt : V),
  forall x e s, wf_expr e = true ->
  assign V un bin binl binr blt x e s (Named x) = CxxDefs.value V un bin binl binr blt dflt e (fun v => s (Named v))
  /\ (forall v, v <> x -> assign V un bin binl binr blt x e s (Named v) = s (Named v)).
Proof. intros V un bin binl binr blt dflt. exact (assignment_correct_sec V un bin binl binr blt dflt). Qed.

Lemma compound_correct : forall (V : Type) (un : Z -> V -> V) (bin : Z -> V -> V -> V) (binl : Z -> V -> Z -> V)
  (binr : Z -> Z -> V -> V) (blt : Z -> Z) (dflt : V),
  forall op x e s, wf_expr e = true \/ (exists j, e = EBuiltin j) ->
  compound V un bin binl binr blt op x e s (Named x)
    = CxxDefs.value V un bin binl binr blt dflt (EBin op (EVar x) e) (fun v => s (Named v))
  /\ (forall v, v <> x -> compound V un bin binl binr blt op x e s (Named v) = s (Named v)).
Proof. intros V un bin binl binr blt dflt. exact (compound_correct_sec V un bin binl binr blt dflt). Qed.

(* ---- the operator table of mpz_class ---- *)
Local Open Scope Z_scope.

Lemma mpz_operators : forall a b,
  z_bin 0 a b = a + b /\ z_bin 1 a b = a - b /\ z_bin 2 a b = a * b
  /\ (b <> 0 -> a = b * z_bin 3 a b + z_bin 4 a b /\ Z.abs (z_bin 4 a b) < Z.abs b /\ (z_bin 4 a b = 0 \/ Z.sgn (z_bin 4 a b) = Z.sgn a))
  /\ (forall n, 0 <= n -> Z.testbit (z_bin 5 a b) n = Z.testbit a n && Z.testbit b n)
  /\ (forall n, 0 <= n -> Z.testbit (z_bin 6 a b) n = Z.testbit a n || Z.testbit b n)
  /\ (forall n, 0 <= n -> Z.testbit (z_bin 7 a b) n = xorb (Z.testbit a n) (Z.testbit b n))
  /\ z_un 0 a = - a /\ z_un 1 a = Z.lnot a /\ z_un 2 a = Z.abs a
  /\ (0 <= a -> z_un 3 a * z_un 3 a <= a < (z_un 3 a + 1) * (z_un 3 a + 1)).
Proof.
  intros a b.
  change (z_bin 0 a b) with (a + b). change (z_bin 1 a b) with (a - b). change (z_bin 2 a b) with (a * b).
  change (z_bin 3 a b) with (Z.quot a b). change (z_bin 4 a b) with (Z.rem a b).
  change (z_bin 5 a b) with (Z.land a b). change (z_bin 6 a b) with (Z.lor a b). change (z_bin 7 a b) with (Z.lxor a b).
  change (z_un 0 a) with (- a). change (z_un 1 a) with (- a - 1). change (z_un 2 a) with (Z.abs a).
  change (z_un 3 a) with (Z.sqrt a).
  repeat match goal with |- _ /\ _ => split end; try reflexivity.
  - intros Hb. split; [|split].
    + apply Z.quot_rem'.
    + apply Z.rem_bound_abs. exact Hb.
    + destruct (Z.eq_dec (Z.rem a b) 0) as [E|E]; [left; exact E|right].
      apply Z.rem_sign_nz; assumption.
  - intros n _. apply Z.land_spec.
  - intros n _. apply Z.lor_spec.
  - intros n _. apply Z.lxor_spec.
  - intros Ha. pose proof (Z.sqrt_spec a Ha) as H. cbv zeta in H. unfold Z.succ in H. exact H.
Qed.

Lemma C20_example :
  let s : store Z := fun q => match q with Named 0 => 7 | Named 1 => -3 | Named 2 => 10 | _ => 0 end in
  let e := EBin 0 (EBin 2 (EVar 0) (EVar 1)) (EBin 1 (EVar 2) (EBin 3 (EVar 0) (EBuiltin 0))) in     (* a*b + (c - a / 2) *)
  wf_expr e = true
  /\ assign Z z_un z_bin (fun op a k => z_bin op a k) (fun op k a => z_bin op k a) (fun _ => 2) 0 e s (Named 0) = 7 * -3 + (10 - 3)
  /\ compound Z z_un z_bin (fun op a k => z_bin op a k) (fun op k a => z_bin op k a) (fun _ => 2) 1 0 (EBin 2 (EVar 0) (EVar 0)) s (Named 0) = 7 - 49.
Proof.
  cbv zeta. split; [|split]; vm_compute; reflexivity.
Qed.
