(* MpfSubDefs.v — a bit-exact model of mpf_sub (mpf/sub.c), same-sign path (a true subtraction of
   magnitudes), AS CODED.
   Conventions of MpfDefs.v / MpfAddDefs.v: an mpf value is sign * fM * B^(fexp - fn), fM an fn-limb
   integer whose top limb is non-zero; zero is fM = 0, fn = 0, fexp = 0.  The limb vector {p, n} of
   the C code is the integer sum p[i] B^i; "p += k; n -= k" (drop the k low limbs) is M / B^k; "n--"
   (drop the top limb) is M mod B^(n-1); p[n-1] is M / B^(n-1).  mpn_sub / mpn_sub_n / mpn_sub_1
   return the low limbs of the difference (x mod B^n) and the borrow; ~x over k limbs is
   B^k - 1 - x.
   NOTE on prec: the C code sets  prec = r->_mp_prec + 1.  In this file [prec] is r->_mp_prec (as in
   MpfDefs / MpfAddDefs) and the C variable is written  prec + 1  (P below in comments).  So the
   general case keeps prec + 1 limbs of the operands and the near-cancellation path keeps
   (prec + 1) - 1 = prec limbs below the implicit leading 1.
   Every loop of the C code is a Fixpoint on a fuel argument (the operand size, which bounds the
   number of iterations).
   Definitions only. *)
From Coq Require Import ZArith List Bool.
From Mpir Require Import Word DivDefs MpfDefs MpfAddDefs.
Import ListNotations.
Local Open Scope Z_scope.

(* p[n - 1], p[i], and "n--" *)
Definition top_limb (M n : Z) : Z := M / B ^ (n - 1).
Definition limb_at (M i : Z) : Z := (M / B ^ i) mod B.
Definition low_part (M n : Z) : Z := M mod B ^ (n - 1).

(* mpf/neg.c: mpf_neg (r, v) for r != v keeps the top prec + 1 limbs (as mpf_set) and flips the sign
   (for r == v only the sign is flipped: v has at most prec + 1 limbs then). *)
Definition mpf_neg (prec : Z) (u : mpf) : mpf :=
  let '(m, n) := top_limbs (fM u) (fn u) (prec + 1) in mkf (negb (fneg u)) m n (fexp u).

(* done:  r->_mp_size = negate ? -rsize : rsize;  if (rsize == 0) exp = 0;  r->_mp_exp = exp;
   the sign of a zero result is lost in _mp_size = 0. *)
Definition sub_done (negate : bool) (M rsize exp : Z) : mpf :=
  if rsize =? 0 then mkf false 0 0 0 else mkf negate M rsize exp.

(* while (n != 0 && p[n - 1] == 0) { n--; exp--; }      returns (n, exp); the limbs are unchanged *)
Fixpoint strip_high_zeros (fuel : nat) (M n e : Z) : Z * Z :=
  match fuel with
  | O => (n, e)
  | S f => if negb (n =? 0) && (top_limb M n =? 0) then strip_high_zeros f M (n - 1) (e - 1)
           else (n, e)
  end.

(* normalize:  while (rsize != 0 && tp[rsize - 1] == 0) { rsize--; exp--; }  MPN_COPY (rp, tp, rsize);
   then done *)
Definition sub_normalize (negate : bool) (tp rsize exp : Z) : mpf :=
  let '(n1, e1) := strip_high_zeros (Z.to_nat rsize) tp rsize exp in
  sub_done negate tp n1 e1.

(* cancellation:  one operand cancelled the high limbs of the other; the result is the rest {M, n}
   of the other:  strip high zeros, then  if (vsize > prec) { vp += vsize - prec; vsize = prec; } *)
Definition sub_cancellation (prec : Z) (negate : bool) (M n exp : Z) : mpf :=
  let '(n1, e1) := strip_high_zeros (Z.to_nat n) M n exp in
  let '(m2, n2) := top_limbs M n1 (prec + 1) in
  sub_done negate m2 n2 e1.

(* "Skip leading limbs in U and V that are equal": the do-while loop, entered when the top limbs are
   equal.  It ends by exhausting u (flip = true: negate ^= 1, the rest of v is the result), by
   exhausting v (the rest of u is the result) or with different top limbs. *)
Inductive strip_result : Type :=
| SCancel (flip : bool) (M n exp : Z)
| SCont (um un vm vn exp : Z).

Fixpoint strip_equal (fuel : nat) (um un vm vn exp : Z) : strip_result :=
  match fuel with
  | O => SCont um un vm vn exp
  | S f =>
    let um' := low_part um un in let un' := un - 1 in
    let vm' := low_part vm vn in let vn' := vn - 1 in
    let exp' := exp - 1 in
    if un' =? 0 then SCancel true vm' vn' exp'
    else if vn' =? 0 then SCancel false um' un' exp'
    else if top_limb um' un' =? top_limb vm' vn' then strip_equal f um' un' vm' vn' exp'
    else SCont um' un' vm' vn' exp'
  end.

(* "Skip sequences of 00000000/ffffffff":
   while (vsize != 0 && usize != 0 && up[usize - 1] == 0 && vp[vsize - 1] == GMP_NUMB_MAX)
     { usize--; vsize--; exp--; } *)
Fixpoint skip_zero_max (fuel : nat) (um un vm vn exp : Z) : Z * Z * Z * Z * Z :=
  match fuel with
  | O => (um, un, vm, vn, exp)
  | S f =>
    if negb (vn =? 0) && negb (un =? 0) && (top_limb um un =? 0) && (top_limb vm vn =? B - 1)
    then skip_zero_max f (low_part um un) (un - 1) (low_part vm vn) (vn - 1) (exp - 1)
    else (um, un, vm, vn, exp)
  end.

(* while (vsize != 0 && vp[vsize - 1] == GMP_NUMB_MAX) { vsize--; exp--; } *)
Fixpoint strip_max (fuel : nat) (vm vn exp : Z) : Z * Z * Z :=
  match fuel with
  | O => (vm, vn, exp)
  | S f =>
    if negb (vn =? 0) && (top_limb vm vn =? B - 1)
    then strip_max f (low_part vm vn) (vn - 1) (exp - 1)
    else (vm, vn, exp)
  end.

(* The limb vector built by the near-cancellation path from the truncated fraction limbs {um, un} of
   u and {vm, vn} of v: (tp, rsize, exponent increment).  The value is B^n + u B^(n-un) - v B^(n-vn),
   n = max (un, vn); the leading 1 is stored as an extra limb (tp[rsize] = 1; rsize++; exp++) when no
   borrow comes out of the subtraction (cy_limb == 0). *)
Definition close_layout (um un vm vn : Z) : Z * Z * Z :=
  if vn =? 0 then
    (* tp = {up, usize}; tp[size] = 1; rsize = size + 1; exp++ *)
    (um + 1 * B ^ un, un + 1, 1)
  else if un =? 0 then
    (* tp = ~v; cy_limb = 1 - mpn_add_1 (tp, tp, vsize, 1); rsize = vsize;
       if (cy_limb == 0) { tp[rsize] = 1; rsize++; exp++; } *)
    let s := (B ^ vn - 1 - vm) + 1 in
    let cy := 1 - s / B ^ vn in
    let tp := s mod B ^ vn in
    if cy =? 0 then (tp + 1 * B ^ vn, vn + 1, 1) else (tp, vn, 0)
  else
    let '(tp, cy, rsize) :=
      if vn <=? un then
        (* uuuu
           vv      size = usize - vsize; MPN_COPY (tp, up, size);
                   cy_limb = mpn_sub_n (tp + size, up + size, vp, vsize); rsize = usize *)
        let size := un - vn in
        let low := um mod B ^ size in
        let hi := um / B ^ size - vm in
        (low + (hi mod B ^ vn) * B ^ size, (if hi <? 0 then 1 else 0), un)
      else
        (* uuuu
           vvvvvvv size = vsize - usize; tp[i] = ~vp[i] (i < size);
                   cy_limb = mpn_sub_n (tp + size, up, vp + size, usize);
                   cy_limb += mpn_sub_1 (tp + size, tp + size, usize, 1);
                   cy_limb -= mpn_add_1 (tp, tp, vsize, 1); rsize = vsize *)
        let size := vn - un in
        let low := B ^ size - 1 - vm mod B ^ size in
        let h1 := um - vm / B ^ size in
        let cy1 := if h1 <? 0 then 1 else 0 in
        let t1 := h1 mod B ^ un in
        let cy2 := if t1 - 1 <? 0 then 1 else 0 in
        let t2 := (t1 - 1) mod B ^ un in
        let s := (low + t2 * B ^ size) + 1 in
        let cy3 := s / B ^ vn in
        (s mod B ^ vn, cy1 + cy2 - cy3, vn) in
    (* if (cy_limb == 0) { tp[rsize] = 1; rsize++; exp++; } *)
    if cy =? 0 then (tp + 1 * B ^ rsize, rsize + 1, 1) else (tp, rsize, 0).

(* The near-cancellation path (ediff <= 1, the leading limbs differ by one unit of the top limb of
   v: "x+1 00000000 ... / x ffffffff ..."), entered after the leading limbs have been removed: the
   value is  B^exp * (1 + 0.u - 0.v)  with {um, un} and {vm, vn} the fraction limbs of u and v, both
   starting right below the implicit 1. *)
Definition sub_close (prec : Z) (negate : bool) (um un vm vn exp : Z) : mpf :=
  let '(um1, un1, vm1, vn1, e1) := skip_zero_max (Z.to_nat un) um un vm vn exp in
  let '(vm2, vn2, e2) :=
    if un1 =? 0 then strip_max (Z.to_nat vn1) vm1 vn1 e1 else (vm1, vn1, e1) in
  (* if (usize > prec - 1) { up += usize - (prec - 1); usize = prec - 1; }  and the same for v *)
  let '(um3, un3) := top_limbs um1 un1 (prec + 1 - 1) in
  let '(vm3, vn3) := top_limbs vm2 vn2 (prec + 1 - 1) in
  let '(tp, rsize, inc) := close_layout um3 un3 vm3 vn3 in
  sub_normalize negate tp rsize (e2 + inc).                       (* goto normalize *)

(* for (;;) { if (n == 0) <leave>; if (p[0] != 0) break; p++, n--; }    n = 0 on return: exhausted *)
Fixpoint strip_low_zeros (fuel : nat) (M n : Z) : Z * Z :=
  match fuel with
  | O => (M, n)
  | S f => if n =? 0 then (M, n)
           else if negb (limb_at M 0 =? 0) then (M, n)
           else strip_low_zeros f (M / B) (n - 1)
  end.

(* tp[0] = -vp[0] & GMP_NUMB_MASK; for (i = 1; i < k; i++) tp[i] = ~vp[i] & GMP_NUMB_MASK;
   the k low limbs of v, negated two's-complement fashion (correct because vp[0] != 0) *)
Definition neg_low (vm k : Z) : Z :=
  (- limb_at vm 0) mod B + (B ^ (k - 1) - 1 - (vm mod B ^ k) / B) * B.

(* The layouts of the general case: the limb vector tp (as an integer) and rsize.  um has un limbs,
   vm has vn limbs, the top of v is ediff limbs below the top of u.  All borrows out are ignored by
   the C code. *)
Definition sub_layout (um un vm vn ediff : Z) : Z * Z :=
  if ediff <? un then
    if ediff =? 0 then
      if vn <=? un then
        (* uuuu
           vv       size = usize - vsize; MPN_COPY (tp, up, size);
                    mpn_sub_n (tp + size, up + size, vp, vsize); rsize = usize *)
        let size := un - vn in
        let low := um mod B ^ size in
        let hi := um / B ^ size - vm in
        (low + (hi mod B ^ vn) * B ^ size, un)
      else
        (* uuuu
           vvvvvvv  size = vsize - usize; tp[0 .. size) = - v[0 .. size);
                    mpn_sub_n (tp + size, up, vp + size, usize);
                    mpn_sub_1 (tp + size, tp + size, usize, 1); rsize = vsize *)
        let size := vn - un in
        let low := neg_low vm size in
        let t1 := (um - vm / B ^ size) mod B ^ un in
        let t2 := (t1 - 1) mod B ^ un in
        (low + t2 * B ^ size, vn)
    else
      if vn + ediff <=? un then
        (* uuuu
             v      size = usize - ediff - vsize; MPN_COPY (tp, up, size);
                    mpn_sub (tp + size, up + size, usize - size, vp, vsize); rsize = usize *)
        let size := un - ediff - vn in
        let low := um mod B ^ size in
        let hi := um / B ^ size - vm in
        (low + (hi mod B ^ (un - size)) * B ^ size, un)
      else
        (* uuuu
             vvvvv  size = vsize + ediff - usize; tp[0 .. size) = - v[0 .. size);
                    mpn_sub (tp + size, up, usize, vp + size, usize - ediff);
                    mpn_sub_1 (tp + size, tp + size, usize, 1); rsize = vsize + ediff *)
        let size := vn + ediff - un in
        let low := neg_low vm size in
        let t1 := (um - vm / B ^ size) mod B ^ un in
        let t2 := (t1 - 1) mod B ^ un in
        (low + t2 * B ^ size, vn + ediff)
  else
    (* uuuu
            vv      size = vsize + ediff - usize; tp[0 .. vsize) = - v;
                    tp[vsize .. size) = GMP_NUMB_MAX; mpn_sub_1 (tp + size, up, usize, 1);
                    rsize = size + usize *)
    let size := vn + ediff - un in
    let low := neg_low vm vn in
    let mid := B ^ (size - vn) - 1 in
    let hi := (um - 1) mod B ^ un in
    (low + mid * B ^ vn + hi * B ^ size, size + un).

(* general_case:  {um, un} at exponent exp, {vm, vn} at exponent exp - ediff *)
Definition sub_general (prec : Z) (negate : bool) (um un vm vn ediff exp : Z) : mpf :=
  (* if (usize > prec) { up += usize - prec; usize = prec; } *)
  let '(um1, un1) := top_limbs um un (prec + 1) in
  (* if (vsize + ediff > prec) { vp += vsize + ediff - prec; vsize = prec - ediff; } *)
  let '(vm1, vn1) := v_trunc (prec + 1) ediff vm vn in
  if prec + 1 <=? ediff then
    sub_done negate um1 un1 exp                                  (* V completely cancelled *)
  else
    let '(vm2, vn2) := strip_low_zeros (Z.to_nat vn1) vm1 vn1 in
    if vn2 =? 0 then sub_done negate um1 un1 exp                 (* MPN_COPY (rp, up, usize) *)
    else
      let '(um2, un2) := strip_low_zeros (Z.to_nat un1) um1 un1 in
      if un2 =? 0 then sub_done (negb negate) vm2 vn2 exp        (* MPN_COPY (rp, vp, vsize); negate ^= 1 *)
      else
        let '(tp, rsize) := sub_layout um2 un2 vm2 vn2 ediff in
        sub_normalize negate tp rsize exp.

(* ediff == 0, the leading limbs are different (after the equal ones have been removed): swap so
   that u has the larger leading limb; "x+1 / x" goes to the near-cancellation path *)
Definition sub_after_strip (prec : Z) (negate : bool) (um un vm vn exp : Z) : mpf :=
  let '(um, un, vm, vn, negate) :=
    if top_limb um un <? top_limb vm vn then (vm, vn, um, un, negb negate)
    else (um, un, vm, vn, negate) in
  if negb (top_limb um un =? top_limb vm vn + 1) then sub_general prec negate um un vm vn 0 exp
  else sub_close prec negate (low_part um un) (un - 1) (low_part vm vn) (vn - 1) (exp - 1).

(* mpf_sub after the special cases and the swap: {um, un} at exponent exp is the operand with the
   larger exponent, {vm, vn} is ediff = exp - (exponent of v) limbs lower; both non-zero *)
Definition mpf_sub_ordered (prec : Z) (negate : bool) (um un vm vn ediff exp : Z) : mpf :=
  if ediff =? 0 then
    if top_limb um un =? top_limb vm vn then
      match strip_equal (Z.to_nat un) um un vm vn exp with
      | SCancel flip M n e => sub_cancellation prec (xorb negate flip) M n e
      | SCont um' un' vm' vn' e' => sub_after_strip prec negate um' un' vm' vn' e'
      end
    else sub_after_strip prec negate um un vm vn exp
  else if ediff =? 1 then
    (* "1 00000000 ... / 0 ffffffff ..." *)
    if negb (top_limb um un =? 1) || negb (top_limb vm vn =? B - 1)
       || ((2 <=? un) && negb (limb_at um (un - 2) =? 0))
    then sub_general prec negate um un vm vn ediff exp
    else sub_close prec negate (low_part um un) (un - 1) vm vn (exp - 1)
  else sub_general prec negate um un vm vn ediff exp.

(* mpf/sub.c.  Operands of different signs are handed to mpf_add (modelled in MpfAddDefs for equal
   signs): the model returns the dummy mkf false 0 0 0 there. *)
Definition mpf_sub (prec : Z) (u v : mpf) : mpf :=
  if fn u =? 0 then mpf_neg prec v
  else if fn v =? 0 then mpf_set prec u
  else if negb (eqb (fneg u) (fneg v)) then mkf false 0 0 0   (* mpf_add (r, u, -v) *)
  else if fexp u <? fexp v
  then mpf_sub_ordered prec (negb (fneg u)) (fM v) (fn v) (fM u) (fn u) (fexp v - fexp u) (fexp v)
  else mpf_sub_ordered prec (fneg u) (fM u) (fn u) (fM v) (fn v) (fexp u - fexp v) (fexp u).

(* The complete function: for operands of different signs mpf_sub builds v_negated (the limbs and the
   exponent of v, _mp_size = -vsize) and calls mpf_add (r, u, &v_negated); u and -v then have the same
   sign, which is the path of mpf_add modelled in MpfAddDefs (its zero-operand cases are not reached:
   both sizes are non-zero here). *)
Definition mpf_opp (v : mpf) : mpf := mkf (negb (fneg v)) (fM v) (fn v) (fexp v).
Definition mpf_sub_full (prec : Z) (u v : mpf) : mpf :=
  if fn u =? 0 then mpf_neg prec v
  else if fn v =? 0 then mpf_set prec u
  else if negb (eqb (fneg u) (fneg v)) then mpf_add prec u (mpf_opp v)
  else mpf_sub prec u v.

(* exact rational difference of two values num / den *)
Definition sub_num (u v : mpf) : Z := fnum u * fden v - fnum v * fden u.
Definition sub_den (u v : mpf) : Z := fden u * fden v.

(* the general form of "nothing is cut off": with one operand zero the other is cut to prec + 1 limbs
   (mpf_neg / mpf_set); otherwise every limb of u and v below the window of prec + 1 limbs under the
   larger exponent is zero.  (add_window of MpfAddDefs, a window of prec limbs, implies this.) *)
Definition sub_nothing_lost (prec : Z) (u v : mpf) : Prop :=
  (fM u = 0 -> low_zero v (fexp v - (prec + 1)))
  /\ (fM v = 0 -> low_zero u (fexp u - (prec + 1)))
  /\ (fM u <> 0 -> fM v <> 0 ->
      low_zero u (Z.max (fexp u) (fexp v) - (prec + 1))
      /\ low_zero v (Z.max (fexp u) (fexp v) - (prec + 1))).
