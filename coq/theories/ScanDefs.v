(* ScanDefs.v — limb-level models of mpz_scan1 (mpz/scan1.c) and mpz_scan0 (mpz/scan0.c)
   as coded: the sign-magnitude limbs of u are searched as if u were written in infinite
   two's complement.  The value-level definitions (Zscan1/Zscan0, mpz_scan1/mpz_scan0) are
   in BitDefs.v; ScanProofs.v shows that the functions below return exactly those values.
   Definitions only.

   Conventions: the limb list l is least significant first and holds |size| limbs, the top
   one non-zero; pointers are limb indices (p - u_ptr); GMP_NUMB_BITS = 64, no nails;
   __GMP_BITCNT_MAX = BITCNT_MAX = 2^64 - 1 (BitDefs.v). *)
From Coq Require Import ZArith List Bool.
From Mpir Require Import Word Limbs BitDefs.
Import ListNotations.
Local Open Scope Z_scope.

Definition LIMB_MAX : Z := B - 1.                       (* MP_LIMB_T_MAX = GMP_NUMB_MAX *)
Definition nthl (l : list Z) (i : Z) : Z := nth (Z.to_nat i) l 0.       (* u_ptr[i] *)

(* got_limb:  count_trailing_zeros (cnt, limb);  return (p - u_ptr) * GMP_NUMB_BITS + cnt; *)
Definition got_limb (p limb : Z) : Z := p * 64 + ctz limb.

(* for (;;) { limb = *p; if (limb != 0) break; p++; ASSERT (p < u_end); }
   — also the do { p++; limb = *p; } while (limb == 0) of scan1.c when entered at p + 1.
   The result is the final p and limb.  The fuel is the number of limbs; running out of
   it is the failure of the ASSERT and does not happen when the top limb is non-zero. *)
Fixpoint walk_nonzero (fuel : nat) (l : list Z) (p : Z) : Z * Z :=
  match fuel with
  | O => (p, nthl l p)
  | S f => let limb := nthl l p in
           if limb =? 0 then walk_nonzero f l (p + 1) else (p, limb)
  end.

(* while (limb == GMP_NUMB_MAX) { p++; if (p == u_end) return abs_size * GMP_NUMB_BITS; limb = *p; }
   limb = ~limb;  then got_limb. *)
Fixpoint walk_allones (fuel : nat) (abs_size : Z) (l : list Z) (p limb : Z) : Z :=
  match fuel with
  | O => abs_size * 64
  | S f =>
      if limb =? LIMB_MAX then
        let p := p + 1 in
        if p =? abs_size then abs_size * 64
        else walk_allones f abs_size l p (nthl l p)
      else got_limb p (lnotl limb)
  end.

(* "seeking a 1 bit": the size >= 0 branch of scan1.c and the code at `inverted:` in scan0.c
   (the two files carry the same statements):
     limb &= (MP_LIMB_T_MAX << (starting_bit % GMP_NUMB_BITS));
     if (limb == 0) { p++; if (p == u_end) return __GMP_BITCNT_MAX; for (;;) ... }
     got_limb *)
Definition seek1 (abs_size : Z) (l : list Z) (start p limb : Z) : Z :=
  let limb := Z.land limb (wrap (Z.shiftl LIMB_MAX (start mod 64))) in
  if limb =? 0 then
    let p := p + 1 in
    if p =? abs_size then BITCNT_MAX
    else let '(p, limb) := walk_nonzero (length l) l p in got_limb p limb
  else got_limb p limb.

(* "seeking a 0 bit": the size >= 0 branch of scan0.c and the code at `inverted:` in scan1.c:
     limb |= (CNST_LIMB(1) << (starting_bit % GMP_NUMB_BITS)) - 1;
     while (limb == GMP_NUMB_MAX) ... ;  limb = ~limb;  got_limb *)
Definition seek0 (abs_size : Z) (l : list Z) (start p limb : Z) : Z :=
  let limb := Z.lor limb (Z.shiftl 1 (start mod 64) - 1) in
  walk_allones (length l) abs_size l p limb.

(* q = p; while (q != u_ptr) { q--; if (q[0] != 0) goto inverted; }
   true: a non-zero limb below index q exists (ones complement region) *)
Fixpoint lower_nonzero (l : list Z) (q : nat) : bool :=
  match q with
  | O => false
  | S q' => if nth q' l 0 =? 0 then lower_nonzero l q' else true
  end.

(* mpz/scan1.c *)
Definition mpz_scan1_limbs (size : Z) (l : list Z) (start : Z) : Z :=
  let abs_size := Z.abs size in
  let starting_limb := start / 64 in
  if abs_size <=? starting_limb then (if 0 <=? size then BITCNT_MAX else start)
  else
    let p := starting_limb in
    let limb := nthl l p in
    if 0 <=? size then seek1 abs_size l start p limb
    else if lower_nonzero l (Z.to_nat p) then seek0 abs_size l start p limb    (* goto inverted *)
    else if limb =? 0 then
      (* skip zero limbs up to the start of twos complement; limb = -limb; goto got_limb *)
      let '(p, limb) := walk_nonzero (length l) l (p + 1) in
      got_limb p (wrap (- limb))
    else seek0 abs_size l start p (wrap (limb - 1)).                          (* limb--; inverted: *)

(* mpz/scan0.c *)
Definition mpz_scan0_limbs (size : Z) (l : list Z) (start : Z) : Z :=
  let abs_size := Z.abs size in
  let starting_limb := start / 64 in
  if abs_size <=? starting_limb then (if 0 <=? size then start else BITCNT_MAX)
  else
    let p := starting_limb in
    let limb := nthl l p in
    if 0 <=? size then seek0 abs_size l start p limb
    else if lower_nonzero l (Z.to_nat p) then seek1 abs_size l start p limb    (* goto inverted *)
    else seek1 abs_size l start p (wrap (limb - 1)).                          (* limb--; inverted: *)

(* on the mpz record of MpzDefs.v *)
Definition mpz_scan1_c (u : MpzDefs.mpz) (start : Z) : Z :=
  mpz_scan1_limbs (MpzDefs.sz u) (MpzDefs.d u) start.
Definition mpz_scan0_c (u : MpzDefs.mpz) (start : Z) : Z :=
  mpz_scan0_limbs (MpzDefs.sz u) (MpzDefs.d u) start.
