(* ApiRoot.v — correspondence entry points for C09.  Definitions only.
   DIVIDE_BY_ZERO and SQRT_OF_NEGATIVE are both printed as the empty byte string. *)
From Coq Require Import ZArith List Bool.
From Mpir Require Import Word Limbs MpzDefs DivDefs SqrtDefs RootDefs ApiBasic ApiDiv.
Import ListNotations.
Local Open Scope Z_scope.

Definition api_mpz_sqrt : api := fun a => match mpz_sqrtrem (argz a 0) with ROk (s, _) => out_zval s | _ => dz end.
Definition api_mpz_sqrtrem : api := fun a => match mpz_sqrtrem (argz a 0) with ROk (s, r) => out_zval s ++ out_zval r | _ => dz end.
Definition api_mpz_root : api := fun a =>
  match mpz_root (argz a 0) (argz a 1) with ROk (r, ex) => out_zval r ++ [TZ (b2z ex)] | _ => dz end.
Definition api_mpz_nthroot : api := fun a => match mpz_root (argz a 0) (argz a 1) with ROk (r, _) => out_zval r | _ => dz end.
Definition api_mpz_rootrem : api := fun a =>
  match mpz_rootrem (argz a 0) (argz a 1) with ROk (r, m) => out_zval r ++ out_zval m | _ => dz end.
Definition api_mpz_perfect_square_p : api := fun a => let b := b2z (mpz_perfect_square_p (argz a 0)) in [TZ b; TZ b].
Definition api_mpz_perfect_power_p : api := fun a => [TZ (b2z (mpz_perfect_power_p (argz a 0)))].
Definition api_mpn_sqrtrem : api := fun a =>
  let '(s, r) := mpn_sqrtrem (argz a 1) in
  [TZ s; if argz a 2 =? 1 then TZ (b2z (negb (r =? 0))) else TZ r].

(* mpn_sqrtrem_c nn X mode : the same call as mpn_sqrtrem, the model being sqrtrem.c AS CODED (SqrtDefs.v: normalisation shift,
   sqrtrem1 / sqrtrem2 / dc_sqrtrem with their carries, un-normalising the root and recomputing the remainder) *)
Definition api_mpn_sqrtrem_c : api := fun a =>
  match SqrtDefs.mpn_sqrtrem_limbs (limbs_of_Z (argz a 1)) with
  | Some (s, r) => [TZ (Limbs.eval s); if argz a 2 =? 1 then TZ (b2z (negb (Limbs.eval r =? 0))) else TZ (Limbs.eval r)]
  | None => [TZ (-1)]
  end.
