(* Toom3Defs.v — value-level model of MPIR's Toom-3 multiplication as coded in
   mpn/generic/toom3_mul_n.c (mpn_toom3_mul_n) and mpn/generic/toom3_mul.c
   (mpn_toom3_interpolate).  Definitions only; the proofs are in Toom3Proofs.v.

   Values, not limb arrays: an operand {a, n} is the integer 0 <= a < B^n, B = 2^64.
   The code takes k = ceil(n/3), r = n - 2k and reads
       a0 = {a, k}   a1 = {a + k, k}   a2 = {a + 2k, r}
   i.e. a = a0 + a1 B^k + a2 B^(2k) with a0, a1 < B^k, a2 < B^r.  The recursive products
   (TOOM3_MUL_REC: mpn_mul_basecase / mpn_kara_mul_n / mpn_toom3_mul_n again) go through
   the parameter [mulrec].

   Every intermediate carries the name of the C object that holds it.  Where the C code
   keeps an unsigned magnitude plus a sign (vm1 and sa), so does the model.  Where the C
   code calls mpn_divexact_by3 or mpn_half / mpn_rsh1add_n / mpn_rsh1sub_n the model uses
   Z's floor division [/]; Toom3Proofs.toom3_divisions_exact shows the dividend is a
   multiple of the divisor at each of those three places. *)
From Coq Require Import ZArith.
Local Open Scope Z_scope.

(* B^k for B = 2^GMP_NUMB_BITS = 2^64 (Word.B = 2 ^ 64). *)
Definition Bpow (k : Z) : Z := 2 ^ (64 * k).

(* ---- splitting ---------------------------------------------------------------- *)

(* {x, k}, {x + k, k}, {x + 2k, r}: the last chunk is whatever is left above 2k limbs. *)
Definition toom3_lo  (k x : Z) : Z := x mod Bpow k.
Definition toom3_mid (k x : Z) : Z := (x / Bpow k) mod Bpow k.
Definition toom3_hi  (k x : Z) : Z := x / Bpow (2 * k).

(* ---- evaluation (mpn_toom3_mul_n up to the call of mpn_toom3_interpolate) -------- *)

(* sa = (c[k] != 0) ? 1 : mpn_cmp (c, a + k, k)   with {c, k+1} = a0 + a2:
   the sign of (a0 + a2) - a1 as an int in {-1, 0, 1}. *)
Definition toom3_sign (s02 x1 : Z) : Z :=
  match s02 ?= x1 with
  | Gt => 1
  | Eq => 0
  | Lt => -1
  end.

(* c[k] = (sa >= 0) ? c[k] - mpn_sub_n (c, c, a + k, k) : mpn_sub_n (c, a + k, c, k):
   {c, k+1} <- |a0 - a1 + a2|, the larger minus the smaller. *)
Definition toom3_absdiff (s s02 x1 : Z) : Z :=
  if 0 <=? s then s02 - x1 else x1 - s02.

(* a0 + 2 a1 + 4 a2 as the code forms it.
   HAVE_NATIVE_mpn_addlsh1_n:  c <- a1 + 2 a2 ; c <- a0 + 2 c
   otherwise:                  c <- 2 a2 ; c <- c + a1 ; c <- 2 c ; c <- c + a0
   Both orders produce the same value; the model writes the second. *)
Definition toom3_eval2 (x0 x1 x2 : Z) : Z :=
  let c := 2 * x2 in
  let c := c + x1 in
  let c := 2 * c in
  c + x0.

(* What mpn_toom3_mul_n hands to mpn_toom3_interpolate. *)
Record toom3_points : Set := mk_toom3_points {
  pt_v0   : Z;   (* {c, 2k}          a0 * b0                                  *)
  pt_v1   : Z;   (* {c2, 2k+1}       (a0+a1+a2) * (b0+b1+b2)                  *)
  pt_vm1  : Z;   (* {t, 2k+1}        |a0-a1+a2| * |b0-b1+b2|   (a magnitude)  *)
  pt_v2   : Z;   (* {t+2k+1, 2k+1}   (a0+2a1+4a2) * (b0+2b1+4b2)              *)
  pt_vinf : Z;   (* {c4, 2r}         a2 * b2                                  *)
  pt_sa   : Z    (* int sa, after sa *= sb: the sign of vm1                   *)
}.

Definition toom3_eval (mulrec : Z -> Z -> Z) (a0 a1 a2 b0 b1 b2 : Z) : toom3_points :=
  (* c1[0] = mpn_add_n (c, a, a + twok, r) [+ mpn_add_1]   {c, k+1}      <- a0 + a2 *)
  let a02 := a0 + a2 in
  (* c5[2] = mpn_add_n (c4 + 2, b, b + twok, r) [+ ...]    {c4 + 2, k+1} <- b0 + b2 *)
  let b02 := b0 + b2 in
  (* t3[1] = c1[0] + mpn_add_n (t2 + 1, c, a + k, k)       {t2 + 1, k+1} <- a0+a1+a2 *)
  let a_1 := a02 + a1 in
  (* t4[2] = c5[2] + mpn_add_n (t3 + 2, c4 + 2, b + k, k)  {t3 + 2, k+1} <- b0+b1+b2 *)
  let b_1 := b02 + b1 in
  (* TOOM3_MUL_REC (c2, t2 + 1, t3 + 2, k1, trec) *)
  let v1 := mulrec a_1 b_1 in
  (* sa, {c, k+1} <- |a0 - a1 + a2| ;  sb, {c4 + 2, k+1} <- |b0 - b1 + b2| *)
  let sa := toom3_sign a02 a1 in
  let a_m1 := toom3_absdiff sa a02 a1 in
  let sb := toom3_sign b02 b1 in
  let b_m1 := toom3_absdiff sb b02 b1 in
  (* sa *= sb *)
  let sa := sa * sb in
  (* TOOM3_MUL_REC (t, c, c4 + 2, k1, trec) *)
  let vm1 := mulrec a_m1 b_m1 in
  (* {c, k+1} <- a0 + 2 a1 + 4 a2 ;  {c4 + 2, k+1} <- b0 + 2 b1 + 4 b2 *)
  let a_2 := toom3_eval2 a0 a1 a2 in
  let b_2 := toom3_eval2 b0 b1 b2 in
  (* TOOM3_MUL_REC (v2, c, c4 + 2, k1, trec) *)
  let v2 := mulrec a_2 b_2 in
  (* TOOM3_MUL_REC (c, a, b, k, trec) *)
  let v0 := mulrec a0 b0 in
  (* TOOM3_MUL_REC (c4, a + twok, b + twok, r, trec) *)
  let vinf := mulrec a2 b2 in
  mk_toom3_points v0 v1 vm1 v2 vinf sa.

(* ---- interpolation (mpn_toom3_interpolate), one [let] per statement ----------- *)

(* if (sa < 0) mpn_add_n (v2, v2, vm1, kk1) else mpn_sub_n (v2, v2, vm1, kk1) *)
Definition toom3_step_v2_sub_vm1 (sa v2 vm1 : Z) : Z :=
  if sa <? 0 then v2 + vm1 else v2 - vm1.

(* if (sa < 0) mpn_add_n (vm1, vm1, v1, kk1) else mpn_sub_n (vm1, v1, vm1, kk1)
   (the sum/difference that mpn_half, or mpn_rsh1add_n / mpn_rsh1sub_n, then halves) *)
Definition toom3_step_v1_sub_vm1 (sa v1 vm1 : Z) : Z :=
  if sa <? 0 then vm1 + v1 else v1 - vm1.

(* The three dividends of mpn_toom3_interpolate, named so that
   Toom3Proofs.toom3_divisions_exact can speak about them: the operand of
   mpn_divexact_by3, the operand of the first mpn_half, the operand of the second. *)
Definition toom3_dividend_by3 (p : toom3_points) : Z :=
  toom3_step_v2_sub_vm1 (pt_sa p) (pt_v2 p) (pt_vm1 p).
Definition toom3_dividend_half1 (p : toom3_points) : Z :=
  toom3_step_v1_sub_vm1 (pt_sa p) (pt_v1 p) (pt_vm1 p).
Definition toom3_dividend_half2 (p : toom3_points) : Z :=
  (toom3_dividend_by3 p / 3 - 5 * pt_vinf p) - (pt_v1 p - pt_v0 p - pt_vinf p).

(* The five coefficient slots as they stand just before the final additions into c:
   {c, 2k} = v0, vm1 (added at c + k), v1 (sitting at c + 2k), v2 (added at c + 3k),
   vinf (at c + 4k). *)
Record toom3_coeffs : Set := mk_toom3_coeffs {
  co_0 : Z;   (* v0   *)
  co_1 : Z;   (* vm1  *)
  co_2 : Z;   (* v1   *)
  co_3 : Z;   (* v2   *)
  co_4 : Z    (* vinf *)
}.

Definition toom3_interpolate (p : toom3_points) : toom3_coeffs :=
  let v0 := pt_v0 p in
  let v1 := pt_v1 p in
  let vm1 := pt_vm1 p in
  let v2 := pt_v2 p in
  let vinf := pt_vinf p in
  let sa := pt_sa p in
  (* v2 <- v2 - vm1                       (signed vm1: add the magnitude when sa < 0) *)
  let v2 := toom3_step_v2_sub_vm1 sa v2 vm1 in
  (* ASSERT_NOCARRY (mpn_divexact_by3 (v2, v2, kk1))                   v2 <- v2 / 3 *)
  let v2 := v2 / 3 in
  (* vm1 <- (v1 - sa*vm1) / 2             mpn_add_n|mpn_sub_n ; mpn_half *)
  let vm1 := toom3_step_v1_sub_vm1 sa v1 vm1 in
  let vm1 := vm1 / 2 in
  (* v1 <- v1 - v0 - vinf                 mpn_sub_n (v1, v1, v0, ..); mpn_sub_n (v1, v1, c4, ..) *)
  let v1 := v1 - v0 in
  let v1 := v1 - vinf in
  (* subtract 5*vinf from v2              mpn_submul_1 (v2, c4, rr2, 5) *)
  let v2 := v2 - 5 * vinf in
  (* v2 = (v2 - v1)/2 (exact)             mpn_sub_n (v2, v2, v1, kk1); mpn_half (v2, kk1) *)
  let v2 := v2 - v1 in
  let v2 := v2 / 2 in
  (* v1 = v1 - vm1                        mpn_sub_n (v1, v1, vm1, kk1) *)
  let v1 := v1 - vm1 in
  (* vm1 = vm1 - v2                       mpn_sub_n (vm1, vm1, v2, kk1) *)
  let vm1 := vm1 - v2 in
  mk_toom3_coeffs v0 vm1 v1 v2 vinf.

(* The closing additions of mpn_toom3_interpolate, at value level:
     {c, 2k} holds v0, {c + 2k, 2k+1} holds v1, {c + 4k, 2r} holds vinf
       (its low limb, overwritten by v1's top limb, comes back through
        mpn_add_1 (c4, c4, rr2, vinf0));
     mpn_add_n (c1, c1, vm1, kk1) adds vm1 at limb offset k, carry propagated;
     mpn_add_n (c3, c3, v2, ..)   adds v2  at limb offset 3k, carry propagated. *)
Definition toom3_recompose (k : Z) (c : toom3_coeffs) : Z :=
  let t := Bpow k in
  co_0 c + co_1 c * t + co_2 c * (t * t) + co_3 c * (t * t * t) + co_4 c * (t * t * t * t).

(* ---- the whole function ------------------------------------------------------------ *)

Definition toom3_mul_parts (mulrec : Z -> Z -> Z) (k : Z) (a0 a1 a2 b0 b1 b2 : Z) : Z :=
  toom3_recompose k (toom3_interpolate (toom3_eval mulrec a0 a1 a2 b0 b1 b2)).

Definition toom3_mul (mulrec : Z -> Z -> Z) (k : Z) (a b : Z) : Z :=
  toom3_mul_parts mulrec k
    (toom3_lo k a) (toom3_mid k a) (toom3_hi k a)
    (toom3_lo k b) (toom3_mid k b) (toom3_hi k b).

(* The product polynomial (a0 + a1 t + a2 t^2)(b0 + b1 t + b2 t^2) = c0 + .. + c4 t^4. *)
Definition toom3_c0 (a0 a1 a2 b0 b1 b2 : Z) : Z := a0 * b0.
Definition toom3_c1 (a0 a1 a2 b0 b1 b2 : Z) : Z := a0 * b1 + a1 * b0.
Definition toom3_c2 (a0 a1 a2 b0 b1 b2 : Z) : Z := a0 * b2 + a1 * b1 + a2 * b0.
Definition toom3_c3 (a0 a1 a2 b0 b1 b2 : Z) : Z := a1 * b2 + a2 * b1.
Definition toom3_c4 (a0 a1 a2 b0 b1 b2 : Z) : Z := a2 * b2.

(* Signed value of the point at -1: the magnitude the code stores times its sign. *)
Definition toom3_vm1_signed (p : toom3_points) : Z := pt_sa p * pt_vm1 p.
