(* ThreadProofs.v — C15: proofs for the interleaving argument and the inventory classification.
   Heaps are compared pointwise (heq); no extensionality axiom is used. *)
From Coq Require Import String Ascii ZArith List Bool Lia.
From Mpir Require Import ThreadDefs.
From MpirGen Require Import Gen_Globals.
Import ListNotations.
Local Open Scope Z_scope.

(* ---- membership / disjointness ---- *)
Lemma inl_app : forall x a b, inl x (a ++ b) = inl x a || inl x b.
Proof. intros. unfold inl. apply existsb_app. Qed.

Lemma disjoint_inl : forall a b x, disjoint a b = true -> inl x a = true -> inl x b = false.
Proof.
  unfold disjoint. intros a b x Hd Hx. unfold inl in Hx.
  rewrite forallb_forall in Hd. apply existsb_exists in Hx.
  destruct Hx as [y [Hy He]]. apply Z.eqb_eq in He. subst y.
  apply Hd in Hy. apply negb_true_iff in Hy. exact Hy.
Qed.

Lemma inl_flat_map : forall x p, inl x (flat_map wr p) = true -> exists s, In s p /\ inl x (wr s) = true.
Proof.
  induction p as [|a p IH]; simpl; intros H.
  - discriminate.
  - rewrite inl_app in H. apply orb_true_iff in H. destruct H as [H|H].
    + exists a. split; auto.
    + destruct (IH H) as [s [Hs Hx]]. exists s. split; auto.
Qed.

Lemma indep_sym : forall s t, indep s t = indep t s.
Proof. intros. unfold indep. apply andb_comm. Qed.

(* ---- heq ---- *)
Lemma heq_refl : forall h, heq h h.
Proof. intros h x. reflexivity. Qed.
Lemma heq_sym : forall h1 h2, heq h1 h2 -> heq h2 h1.
Proof. intros h1 h2 H x. symmetry. apply H. Qed.
Lemma heq_trans : forall h1 h2 h3, heq h1 h2 -> heq h2 h3 -> heq h1 h3.
Proof. intros h1 h2 h3 H1 H2 x. rewrite H1. apply H2. Qed.

Lemma run_heq : forall s h1 h2, step_ok s -> heq h1 h2 -> heq (run s h1) (run s h2).
Proof.
  intros s h1 h2 [H1 H2] He x. destruct (inl x (wr s)) eqn:E.
  - apply H2; auto. intros y _. apply He.
  - rewrite !H1 by auto. apply He.
Qed.

Lemma exec_cons : forall s p h, exec (s :: p) h = exec p (run s h).
Proof. reflexivity. Qed.

Lemma exec_app : forall p q h, exec (p ++ q) h = exec q (exec p h).
Proof. intros. unfold exec. apply fold_left_app. Qed.

Lemma exec_heq : forall p, prog_ok p -> forall h1 h2, heq h1 h2 -> heq (exec p h1) (exec p h2).
Proof.
  induction 1 as [|s p Hs Hp IH]; intros h1 h2 He.
  - exact He.
  - rewrite !exec_cons. apply IH. apply run_heq; auto.
Qed.

(* ---- commutation ---- *)
Lemma independent_steps_commute : forall s t h, step_ok s -> step_ok t -> indep s t = true ->
  heq (run s (run t h)) (run t (run s h)).
Proof.
  intros s t h Hs Ht Hi x. unfold indep in Hi. apply andb_true_iff in Hi. destruct Hi as [Hst Hts].
  destruct Hs as [Hs1 Hs2]. destruct Ht as [Ht1 Ht2].
  destruct (inl x (wr s)) eqn:Es.
  - assert (Et : inl x (wr t) = false).
    { pose proof (disjoint_inl _ _ _ Hst Es) as H. rewrite inl_app in H. apply orb_false_iff in H. tauto. }
    rewrite (Ht1 (run s h) x Et). apply Hs2; auto.
    intros y Hy. apply Ht1. destruct (inl y (wr t)) eqn:E; auto.
    pose proof (disjoint_inl _ _ _ Hts E). congruence.
  - destruct (inl x (wr t)) eqn:Et.
    + rewrite (Hs1 (run t h) x Es). apply Ht2; auto.
      intros y Hy. symmetry. apply Hs1. destruct (inl y (wr s)) eqn:E; auto.
      pose proof (disjoint_inl _ _ _ Hst E). congruence.
    + rewrite Hs1, Ht1, Ht1, Hs1; auto.
Qed.

(* a step independent of every step of an ok program can be moved across it *)
Lemma move_across : forall p t, prog_ok p -> step_ok t -> Forall (fun s => indep t s = true) p ->
  forall h, heq (exec p (run t h)) (run t (exec p h)).
Proof.
  induction p as [|a p IH]; intros t Hp Ht Hi h.
  - apply heq_refl.
  - inversion Hp as [|a' p' Ha Hp']; subst. inversion Hi as [|a' p' Hia Hip]; subst.
    rewrite !exec_cons.
    apply heq_trans with (exec p (run t (run a h))).
    + apply exec_heq; auto. apply independent_steps_commute; auto. rewrite indep_sym. exact Hia.
    + apply IH; auto.
Qed.

Lemma two_threads_sequential : forall p q r h, prog_ok p -> prog_ok q -> progs_indep p q -> merge p q r ->
  heq (exec r h) (exec (p ++ q) h).
Proof.
  intros p q r h Hp Hq Hi Hm. revert h Hp Hq Hi.
  induction Hm as [q|p|s p q r Hm IH|s p q r Hm IH]; intros h Hp Hq Hi.
  - apply heq_refl.
  - rewrite app_nil_r. apply heq_refl.
  - change ((s :: p) ++ q) with (s :: (p ++ q)). rewrite !exec_cons.
    inversion Hp; subst. inversion Hi; subst. apply IH; auto.
  - inversion Hq as [|s' q' Hs Hq']; subst.
    assert (Hi' : progs_indep p q).
    { unfold progs_indep in *. rewrite Forall_forall in *. intros a Ha.
      specialize (Hi a Ha). inversion Hi; subst. assumption. }
    assert (Hsp : Forall (fun a => indep s a = true) p).
    { unfold progs_indep in Hi. rewrite Forall_forall in *. intros a Ha.
      specialize (Hi a Ha). inversion Hi; subst. rewrite indep_sym. assumption. }
    rewrite exec_cons, exec_app, exec_cons.
    apply heq_trans with (exec (p ++ q) (run s h)).
    + apply IH; auto.
    + rewrite exec_app. apply exec_heq; auto. apply move_across; auto.
Qed.

(* ---- a merge consists exactly of the steps of its inputs ---- *)
Lemma merge_In : forall p q r, merge p q r -> forall s, In s r -> In s p \/ In s q.
Proof.
  induction 1 as [q|p|a p q r Hm IH|a p q r Hm IH]; intros s Hs.
  - right; exact Hs.
  - left; exact Hs.
  - destruct Hs as [Hs|Hs].
    + left; left; exact Hs.
    + destruct (IH s Hs) as [H|H]; [left; right; exact H | right; exact H].
  - destruct Hs as [Hs|Hs].
    + right; left; exact Hs.
    + destruct (IH s Hs) as [H|H]; [left; exact H | right; right; exact H].
Qed.

Lemma merges_In : forall ps r, merges ps r -> forall s, In s r -> exists p, In p ps /\ In s p.
Proof.
  induction 1 as [|p ps r r' Hms IH Hm]; intros s Hs.
  - destruct Hs.
  - destruct (merge_In _ _ _ Hm s Hs) as [H|H].
    + exists p. split; [left; reflexivity | exact H].
    + destruct (IH s H) as [p' [Hp' Hin]]. exists p'. split; [right; exact Hp' | exact Hin].
Qed.

Lemma any_threads_sequential : forall ps r h, Forall prog_ok ps -> all_indep ps -> merges ps r ->
  heq (exec r h) (exec (concat ps) h).
Proof.
  intros ps r h Hok Hi Hm. revert h Hok Hi.
  induction Hm as [|p ps r r' Hms IH Hm]; intros h Hok Hi.
  - apply heq_refl.
  - inversion Hok as [|p0 ps0 Hp Hps]; subst. simpl in Hi. destruct Hi as [Hpi Hai].
    assert (Hr : prog_ok r).
    { unfold prog_ok. apply Forall_forall. intros s Hs.
      destruct (merges_In _ _ Hms s Hs) as [p' [Hp' Hin]].
      rewrite Forall_forall in Hps. specialize (Hps p' Hp'). unfold prog_ok in Hps.
      rewrite Forall_forall in Hps. apply Hps; exact Hin. }
    assert (Hpr : progs_indep p r).
    { unfold progs_indep. apply Forall_forall. intros s Hs. apply Forall_forall. intros t Ht.
      destruct (merges_In _ _ Hms t Ht) as [p' [Hp' Hin]].
      rewrite Forall_forall in Hpi. specialize (Hpi p' Hp'). unfold progs_indep in Hpi.
      rewrite Forall_forall in Hpi. specialize (Hpi s Hs).
      rewrite Forall_forall in Hpi. apply Hpi; exact Hin. }
    apply heq_trans with (exec (p ++ r) h).
    + apply two_threads_sequential; auto.
    + simpl concat. rewrite !exec_app. apply IH; auto.
Qed.

Lemma exec_nowrite : forall x q, prog_ok q -> (forall t, In t q -> inl x (wr t) = false) ->
  forall h, exec q h x = h x.
Proof.
  intros x q Hq. induction Hq as [|s q Hs Hq IH]; intros Hn h.
  - reflexivity.
  - rewrite exec_cons. rewrite IH.
    + destruct Hs as [Hs1 _]. apply Hs1. apply Hn. left; reflexivity.
    + intros t Ht. apply Hn. right; exact Ht.
Qed.

Lemma thread_sees_own_result : forall p q r h x, prog_ok p -> prog_ok q -> progs_indep p q -> merge p q r ->
  inl x (footprint p) = true -> exec r h x = exec p h x.
Proof.
  intros p q r h x Hp Hq Hi Hm Hx.
  rewrite (two_threads_sequential p q r h Hp Hq Hi Hm x). rewrite exec_app.
  apply exec_nowrite; auto.
  intros t Ht. unfold footprint in Hx. destruct (inl_flat_map _ _ Hx) as [s [Hs Hxs]].
  unfold progs_indep in Hi. rewrite Forall_forall in Hi. specialize (Hi s Hs).
  rewrite Forall_forall in Hi. specialize (Hi t Ht).
  unfold indep in Hi. apply andb_true_iff in Hi. destruct Hi as [_ Hts].
  destruct (inl x (wr t)) eqn:E; auto.
  pose proof (disjoint_inl _ _ _ Hts E) as H. rewrite inl_app in H. apply orb_false_iff in H.
  destruct H as [_ H]. congruence.
Qed.

(* ---- inventory ---- *)
Lemma only_documented_shared_state : inventory_ok writable_globals = true /\ (20 <= length writable_globals)%nat.
Proof. split; [vm_compute; reflexivity | vm_compute; lia]. Qed.

Lemma C15_example :
  let s := mkstep [1] [2] (fun h x => if x =? 2 then h 1 + 1 else h x) in
  let t := mkstep [1] [3] (fun h x => if x =? 3 then h 1 * 2 else h x) in
  indep s t = true /\ indep s (mkstep [2] [4] (fun h x => if x =? 4 then h 2 else h x)) = false
  /\ merge [s; s] [t] [s; t; s] /\ classified "x.0" = true /\ classified "cache" = false.
Proof.
  intros s t. split; [vm_compute; reflexivity|]. split; [vm_compute; reflexivity|].
  split; [apply merge_l, merge_r, merge_nil_r|]. split; vm_compute; reflexivity.
Qed.
