(* ApiRadix.v — correspondence entry points for C06.  Definitions only. *)
From Coq Require Import ZArith List Bool.
From Mpir Require Import Word Limbs DivDefs RadixDefs ApiBasic SetStrCDefs.
From MpirGen Require Import Gen_Consts.
Import ListNotations.
Local Open Scope Z_scope.

Definition base_entry (b : Z) : Z * (Z * Z) * Z * Z :=
  match find (fun e => fst e =? b) bases64 with Some e => snd e | None => (0, (0, 0), 0, 0) end.
Definition ret_opt (o : option Z) : list tok := match o with Some v => [TZ 0; TZ v] | None => [TZ (-1)] end.
(* strings end at the first NUL byte as in C *)
Definition api_mpz_set_str : api := fun a => ret_opt (set_str digit_value_tab (argb a 1 ++ [0]) (argz a 0)).
Definition api_mpz_get_str : api := fun a =>
  let base := argz a 0 in let x := argz a 1 in
  let '(cpl, me, bb, bbi) := base_entry (Z.abs base) in
  [TB (mpz_get_str x base); TZ (sizeinbase x (Z.abs base) (fst me) (snd me))].
Definition api_mpz_sizeinbase : api := fun a =>
  let base := argz a 0 in let '(cpl, me, bb, bbi) := base_entry base in
  [TZ (sizeinbase (argz a 1) base (fst me) (snd me))].
Definition api_mpz_out_str : api := fun a =>
  let s := mpz_get_str (argz a 1) (argz a 0) in [TB s; TZ (Z.of_nat (length s))].
Definition api_mpz_inp_str : api := fun a =>
  match inp_str digit_value_tab (argb a 1) (argz a 0) with
  | (n, Some v) => if n =? 0 then [TZ 0] else [TZ n; TZ v]
  | (_, None) => [TZ 0]
  end.
(* mpn_get_str base n X: chunked digit generation with the regenerated table (non power of two
   bases) — digit values, leading zeros stripped *)
Definition api_mpn_get_str : api := fun a =>
  let base := argz a 0 in let x := argz a 2 in
  let '(cpl, me, bb, bbi) := base_entry base in
  let ds := match log2_exact base with
            | Some _ => digits x base
            | None => mpn_get_str x base cpl bb
            end in
  [TB (match ds with [] => [0] | _ => ds end)].
(* mpn_set_str: the executable model is set_str.c AS CODED (SetStrCDefs.v: basecase, power table, divide and conquer, bit packing,
   threshold choice with the regenerated thresholds); -1: the model left the modelled area (excluded by C06_mpn_set_str_as_coded) *)
Definition api_mpn_set_str : api := fun a =>
  [TZ (match SetStrCDefs.mpn_set_str (argb a 1) (argz a 0) with Some l => Limbs.eval l | None => -1 end)].
(* mpq_set_str: numerator up to the first '/', denominator after it *)
Fixpoint split_slash (s : list Z) (acc : list Z) : list Z * option (list Z) :=
  match s with
  | [] => (rev acc, None)
  | c :: r => if c =? 47 then (rev acc, Some r) else split_slash r (c :: acc)
  end.
Definition api_mpq_set_str : api := fun a =>
  let base := argz a 0 in
  match split_slash (argb a 1) [] with
  | (n, None) => match set_str digit_value_tab (n ++ [0]) base with Some v => [TZ 0; TZ v; TZ 1] | None => [TZ (-1)] end
  | (n, Some dstr) =>
      match set_str digit_value_tab (n ++ [0]) base with
      | None => [TZ (-1)]
      | Some v => match set_str digit_value_tab (dstr ++ [0]) base with Some w => [TZ 0; TZ v; TZ w] | None => [TZ (-1)] end
      end
  end.
