(* AliasDefs.v — the variable-store view of an API call (C05): variables are keys, "the same
   variable passed twice" is the same key, a call reads all its input keys from the store it is
   given and then writes its output keys.  [fn] is the pure function of the input values that the
   call computes when all variables are distinct. *)
From Coq Require Import ZArith List Bool.
Import ListNotations.
Local Open Scope Z_scope.

Definition store := nat -> Z.
Definition supd (st : store) (k : nat) (v : Z) : store := fun x => if Nat.eqb x k then v else st x.

(* one output *)
Definition call1 (fn : list Z -> Z) (st : store) (w : nat) (ins : list nat) : store :=
  supd st w (fn (map st ins)).
(* two outputs (quotient and remainder, root and remainder, g and cofactor ...) ; the manual
   forbids passing the same variable for both, which is the hypothesis w1 <> w2 *)
Definition call2 (fn : list Z -> Z * Z) (st : store) (w1 w2 : nat) (ins : list nat) : store :=
  let r := fn (map st ins) in supd (supd st w1 (fst r)) w2 (snd r).
