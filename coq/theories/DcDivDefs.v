(* DcDivDefs.v -- value-level model of mpn_dc_div_qr_n (mpn/generic/dc_div_qr_n.c),
   MPIR's divide-and-conquer division of a 2n-limb numerator by a normalised n-limb divisor,
   transcribed statement by statement.  Definitions only; the proofs are in DcDivProofs.v.

   Conventions
   -----------
   A limb block {p, k} is modelled by its value, an integer in [0, B^k), B = 2^64,
   B^k written  Bp k = 2 ^ (64 * k).  Scalar limb variables of the C function (cy, qh, ql)
   are integers reduced mod 2^64 after every update (limb), so an unsigned wrap-around in
   the C code would show up as a wrap-around in the model.

   The operand areas of  mpn_dc_div_qr_n (qp, np, dp, n, dinv, tp):
     np : 2n limbs, numerator N on entry;  on exit the low n limbs hold the remainder
          (the high n limbs are scratch: the schoolbook routine leaves stale data there
          and nothing reads them back -- see "addressing" below);
     dp : n limbs, divisor D, top bit set (B^n / 2 <= D < B^n);
     qp : n limbs, receives the quotient Q;  the return value qh is the (n+1)-th
          quotient limb, 0 or 1;
     tp : n limbs of scratch, receives the products;
     dinv : the 3/2 inverse of the two top limbs of D.  Every sub-division is by a block
          dp + k .. dp + n that ends at the top of D, so the same dinv serves them all.
          dinv only reaches mpn_sb_div_qr and is absorbed into the parameter basediv.

   The base case  mpn_sb_div_qr (qp, np, nn = 2m, dp, dn = m, dinv)  (sb_div_qr.c) has the
   contract: ASSERT dn > 2, nn >= dn, top bit of dp[dn-1] set; it returns
   qh = ({np + nn - dn, dn} >= {dp, dn}) in {0, 1}, stores the remaining nn - dn = m
   quotient limbs at qp and leaves the remainder in the low dn limbs of np.  It is the
   parameter
       basediv m Nn Dd = (full quotient including the high part, remainder)
   and the model splits the full quotient into (qh, m-limb quotient) in base_div_qr.
   The theorems assume basediv is exact Euclidean division for normalised divisors of
   mmin <= m < thr limbs (mmin = 3 for the C routine).

   Addressing (lo = n >> 1, hi = n - lo, so lo <= hi <= lo + 1, lo + hi = n):
     np[0 .. lo)        N0    low piece, untouched by the first half
     np[lo .. 2 lo)     Nmid  middle piece
     np[2 lo .. 2 n)    Ntop  2 hi limbs, the numerator of the first sub-division
     dp[lo .. n)        D1    hi limbs (first sub-division divides by this)
     dp[0 .. lo)        D0
   After the first sub-division its remainder r1 sits in np[2 lo .. 2 lo + hi), and
   2 lo + hi = lo + n, so {np + lo, n} = r1 * B^lo + Nmid is the n-limb partial remainder
   the code then updates.  np[lo + n .. 2 n) is never read again.
   For the second half the divisor is split differently (this matters for odd n):
     dp[hi .. n)        Dh    lo limbs
     dp[0 .. hi)        Dl
     np[hi .. hi + 2 lo) = np[hi .. lo + n)   numerator of the second sub-division
     np[0 .. hi)        low piece
   After the second sub-division its remainder r0 sits in np[hi .. n) and
   {np, n} = r0 * B^hi + low piece.

   How the borrow counter cy maps to exact integers.  The exact partial remainder of a
   half, W = (value divided in this half) - (quotient estimate) * D, may be negative.  The
   code keeps W as the pair (n-limb block P, cy) with W = P - cy * B^n, 0 <= P < B^n: each
   mpn_sub_n adds its borrow to cy, each mpn_add_n of the loop subtracts its carry.  So
   cy != 0 <-> W < 0, one loop iteration is W += D, estimate -= 1, and the loop stops at the
   first W >= 0, which is then < D.  The model keeps the pair (P, cy) exactly as the code
   does; the integer W only appears in the invariants of DcDivProofs.v.

   Results carry a flag ok: "the recursion fuel did not run out and every correction loop
   ended with cy == 0 within its iteration budget".  The budgets lf1 (first loop) and lf2
   (second loop) are parameters; the theorems show ok = true for lf1 >= 4, lf2 >= 2, and
   the examples show inputs that need exactly 4 and 2.

   The model was also run against the C code (a verbatim copy of the function with
   iteration counters, linked to libmpir.a, B = 2^64, n up to 31, thresholds 6 and 1000):
   same qh, quotient, remainder and same maximal iteration counts. *)
From Coq Require Import ZArith Bool.
Local Open Scope Z_scope.
Local Open Scope bool_scope.

Definition Bp (k : Z) : Z := 2 ^ (64 * k).

(* a C variable of type mp_limb_t *)
Definition limb (x : Z) : Z := x mod 2 ^ 64.

(* cy = mpn_sub_n (rp, ap, bp, k): {rp,k} = ({ap,k} - {bp,k}) mod B^k, cy = borrow out *)
Definition mpn_sub_n (k a b : Z) : Z * Z :=
  ((if a <? b then 1 else 0), (a - b) mod Bp k).

(* cy = mpn_add_n (rp, ap, bp, k): {rp,k} = ({ap,k} + {bp,k}) mod B^k, cy = carry out *)
Definition mpn_add_n (k a b : Z) : Z * Z :=
  ((a + b) / Bp k, (a + b) mod Bp k).

(* cy = mpn_sub_1 (rp, ap, k, 1) *)
Definition mpn_sub_1 (k a : Z) : Z * Z :=
  ((if a <? 1 then 1 else 0), (a - 1) mod Bp k).

(* The first correction loop
     while (cy != 0)
       {
         qh -= mpn_sub_1 (qp + lo, qp + lo, hi, 1);
         cy -= mpn_add_n (np + lo, np + lo, dp, n);
       }
   state: cy, qh, q = {qp + lo, hi}, P = {np + lo, n}.  lf bounds the number of iterations;
   the final cy is returned so that "the loop has ended" (cy = 0) can be stated. *)
Fixpoint corr_hi (lf : nat) (n hi D cy qh q P : Z) {struct lf} : Z * Z * Z * Z :=
  if cy =? 0 then (cy, qh, q, P) else
  match lf with
  | O => (cy, qh, q, P)
  | S f =>
      let '(b, q') := mpn_sub_1 hi q in
      let qh' := limb (qh - b) in
      let '(c, P') := mpn_add_n n P D in
      corr_hi f n hi D (limb (cy - c)) qh' q' P'
  end.

(* The second correction loop
     while (cy != 0)
       {
         mpn_sub_1 (qp, qp, lo, 1);          -- the borrow is discarded, ql is not updated
         cy -= mpn_add_n (np, np, dp, n);
       }
   state: cy, q = {qp, lo}, P = {np, n}. *)
Fixpoint corr_lo (lf : nat) (n lo D cy q P : Z) {struct lf} : Z * Z * Z :=
  if cy =? 0 then (cy, q, P) else
  match lf with
  | O => (cy, q, P)
  | S f =>
      let '(_, q') := mpn_sub_1 lo q in
      let '(c, P') := mpn_add_n n P D in
      corr_lo f n lo D (limb (cy - c)) q' P'
  end.

Section Model.

(* schoolbook base case: m, numerator value (2m limbs), divisor value (m limbs)
   -> (quotient including its high part, remainder) *)
Variable basediv : Z -> Z -> Z -> Z * Z.

(* qh = mpn_sb_div_qr (qp', np', 2 m, dp', m, dinv): (ok, qh, {qp', m}, {np', m}).
   The first component (ok) of every result says "no fuel ran out below". *)
Definition base_div_qr (m Nn Dd : Z) : bool * Z * Z * Z :=
  let '(q, r) := basediv m Nn Dd in (true, q / Bp m, q mod Bp m, r).

(* One level of the function body, in two halves; `divide m Nn Dd` stands for
     BELOW_THRESHOLD (m, DC_DIV_QR_THRESHOLD) ? mpn_sb_div_qr (...) : mpn_dc_div_qr_n (...)
   lf1, lf2: iteration budgets for the two while loops. *)

(* First half: (ok, final cy, qh, {qp + lo, hi}, {np + lo, n}) *)
Definition dc_high (divide : Z -> Z -> Z -> bool * Z * Z * Z) (lf1 : nat)
    (n N D : Z) : bool * Z * Z * Z * Z :=
  let lo := n / 2 in                                  (* lo = n >> 1 *)
  let hi := n - lo in                                 (* hi = n - lo *)
  let Nmid := (N / Bp lo) mod Bp lo in                (* {np + lo, lo} *)
  let Ntop := N / Bp (2 * lo) in                      (* {np + 2 lo, 2 hi} *)
  let D0   := D mod Bp lo in                          (* {dp, lo} *)
  let D1   := D / Bp lo in                            (* {dp + lo, hi} *)
  (* qh = divide (qp + lo, np + 2 lo, dp + lo, hi): q1 = {qp + lo, hi}, remainder r1 in
     np[2 lo .. 2 lo + hi) *)
  let '(ok1, qh, q1, r1) := divide hi Ntop D1 in
  (* mpn_mul (tp, qp + lo, hi, dp, lo);  hi + lo = n limbs *)
  let tp := q1 * D0 in
  (* {np + lo, n} now reads Nmid below r1 *)
  let P := r1 * Bp lo + Nmid in
  (* cy = mpn_sub_n (np + lo, np + lo, tp, n); *)
  let '(cy, P) := mpn_sub_n n P tp in
  (* if (qh != 0) cy += mpn_sub_n (np + n, np + n, dp, lo);
     np + n = (np + lo) + hi: the top lo limbs of the block {np + lo, n} *)
  let '(cy, P) :=
    if qh =? 0 then (cy, P)
    else let '(c, Ph) := mpn_sub_n lo (P / Bp hi) D0 in
         (limb (cy + c), Ph * Bp hi + P mod Bp hi) in
  (* while (cy != 0) { qh -= mpn_sub_1 (...); cy -= mpn_add_n (np + lo, np + lo, dp, n); } *)
  let '(cy1, qh, q1, P) := corr_hi lf1 n hi D cy qh q1 P in
  (ok1, cy1, qh, q1, P).

(* Second half, on X = {np, lo + n} (the partial remainder of the first half above the
   untouched low piece {np, lo}): (ok, final cy, {qp, lo}, {np, n}) *)
Definition dc_low (divide : Z -> Z -> Z -> bool * Z * Z * Z) (lf2 : nat)
    (n X D : Z) : bool * Z * Z * Z :=
  let lo := n / 2 in
  let hi := n - lo in
  let L  := X mod Bp hi in                            (* {np, hi} *)
  let T  := X / Bp hi in                              (* {np + hi, 2 lo} *)
  let Dl := D mod Bp hi in                            (* {dp, hi} *)
  let Dh := D / Bp hi in                              (* {dp + hi, lo} *)
  (* ql = divide (qp, np + hi, dp + hi, lo): q0 = {qp, lo}, remainder r0 in np[hi .. n) *)
  let '(ok2, ql, q0, r0) := divide lo T Dh in
  (* mpn_mul (tp, dp, hi, qp, lo); *)
  let tp := Dl * q0 in
  let P2 := r0 * Bp hi + L in                         (* {np, n} *)
  (* cy = mpn_sub_n (np, np, tp, n); *)
  let '(cy, P2) := mpn_sub_n n P2 tp in
  (* if (ql != 0) cy += mpn_sub_n (np + lo, np + lo, dp, hi);  top hi limbs of {np, n} *)
  let '(cy, P2) :=
    if ql =? 0 then (cy, P2)
    else let '(c, Ph) := mpn_sub_n hi (P2 / Bp lo) Dl in
         (limb (cy + c), Ph * Bp lo + P2 mod Bp lo) in
  (* while (cy != 0) { mpn_sub_1 (qp, qp, lo, 1); cy -= mpn_add_n (np, np, dp, n); } *)
  let '(cy2, q0, P2) := corr_lo lf2 n lo D cy q0 P2 in
  (ok2, cy2, q0, P2).

Definition dc_step (divide : Z -> Z -> Z -> bool * Z * Z * Z) (lf1 lf2 : nat)
    (n N D : Z) : bool * Z * Z * Z :=
  let lo := n / 2 in
  let N0 := N mod Bp lo in                            (* {np, lo} *)
  let '(ok1, cy1, qh, q1, P) := dc_high divide lf1 n N D in
  let '(ok2, cy2, q0, P2) := dc_low divide lf2 n (P * Bp lo + N0) D in
  (* return qh;  {qp, n} = q1 above q0;  {np, n} = P2.
     ok: the sub-divisions were ok and both loops ended (cy == 0) within their budgets *)
  (ok1 && ok2 && (cy1 =? 0) && (cy2 =? 0), qh, q1 * Bp lo + q0, P2).

(* The recursion.  fuel bounds the recursion depth (2^fuel >= n suffices); at depth 0 the
   result is flagged not-ok.  thr = DC_DIV_QR_THRESHOLD. *)
Fixpoint dc_div_qr_n_ok (fuel lf1 lf2 : nat) (thr n N D : Z) {struct fuel}
    : bool * Z * Z * Z :=
  match fuel with
  | O => (false, 0, 0, 0)
  | S f =>
      dc_step (fun m Nn Dd => if m <? thr then base_div_qr m Nn Dd
                              else dc_div_qr_n_ok f lf1 lf2 thr m Nn Dd)
              lf1 lf2 n N D
  end.

(* (qh, Q, R): the return value, {qp, n} and {np, n} on exit.  lfuel is the budget of both
   correction loops. *)
Definition dc_div_qr_n (fuel lfuel : nat) (thr n N D : Z) : Z * Z * Z :=
  let '(_, qh, Q, R) := dc_div_qr_n_ok fuel lfuel lfuel thr n N D in (qh, Q, R).

End Model.

(* the trivial base case used in the examples: exact division *)
Definition exact_basediv (m Nn Dd : Z) : Z * Z := (Nn / Dd, Nn mod Dd).
