(* CombProofs.v — proofs for C16: the regenerated Fibonacci table, the doubling identities behind
   mpn_fib2_ui and the correctness of the doubling scheme from any correct table, factorial and
   binomial by their definitions, mpz_remove, and trial division as a decision procedure for
   Znumtheory.prime. *)
From Coq Require Import ZArith Znumtheory List Lia Bool Arith.
From Mpir Require Import Word DivDefs PowDefs CombDefs.
From MpirGen Require Import Gen_Consts.
Import ListNotations.
Local Open Scope Z_scope.

(* ------------------------------------------------------------------------------------------ *)
(* the table                                                                                  *)
(* ------------------------------------------------------------------------------------------ *)

Lemma fib_table_ok :
  forallb (fun i => nth i fib_table 0 =? (if Nat.eqb i 0 then 1 else fib (i - 1))) (seq 0 (length fib_table)) = true
  /\ (2 <= length fib_table)%nat.
Proof. split; [vm_compute; reflexivity | apply Nat.leb_le; vm_compute; reflexivity]. Qed.

(* ------------------------------------------------------------------------------------------ *)
(* Fibonacci numbers: recurrence, addition law, Cassini, doubling                             *)
(* ------------------------------------------------------------------------------------------ *)

Lemma fib_pair_S k : fib_pair (S k) = (fib k + snd (fib_pair k), fib k).
Proof.
  unfold fib. cbn [fib_pair]. destruct (fib_pair k) as [a b]. reflexivity.
Qed.

Lemma fib_pair_eta k : fib_pair k = (fib k, snd (fib_pair k)).
Proof. unfold fib. destruct (fib_pair k) as [a b]. reflexivity. Qed.

Lemma fib_snd_S k : snd (fib_pair (S k)) = fib k.
Proof. rewrite fib_pair_S. reflexivity. Qed.

Lemma fib_0 : fib 0 = 0.
Proof. reflexivity. Qed.

Lemma fib_1 : fib 1 = 1.
Proof. reflexivity. Qed.

Lemma fib_SS k : fib (S (S k)) = fib (S k) + fib k.
Proof.
  unfold fib at 1. rewrite fib_pair_S. cbn [fst]. rewrite fib_snd_S. reflexivity.
Qed.

Lemma fib_add m : forall n, fib (m + n + 1) = fib (m + 1) * fib (n + 1) + fib m * fib n.
Proof.
  induction m as [|m IH]; intros n.
  - cbn [Nat.add]. rewrite fib_0, fib_1. ring.
  - replace (S m + n + 1)%nat with (m + (n + 1) + 1)%nat by lia.
    rewrite IH.
    replace (n + 1 + 1)%nat with (S (S n)) by lia.
    replace (S m + 1)%nat with (S (S m)) by lia.
    replace (m + 1)%nat with (S m) by lia.
    replace (n + 1)%nat with (S n) by lia.
    rewrite !fib_SS. ring.
Qed.

Lemma fib_cassini j :
  fib j * fib j + fib (S j) * fib j - fib (S j) * fib (S j) = (if Nat.odd (S j) then -1 else 1).
Proof.
  induction j as [|j IH].
  - rewrite fib_0, fib_1. reflexivity.
  - rewrite fib_SS.
    replace (Nat.odd (S (S j))) with (negb (Nat.odd (S j))).
    + destruct (Nat.odd (S j)); cbn [negb]; lia.
    + rewrite (Nat.odd_succ (S j)), <- Nat.negb_odd. reflexivity.
Qed.

Lemma fib_doubling : forall k : nat, (1 <= k)%nat ->
  fib (2 * k + 1) = 4 * fib k * fib k - fib (k - 1) * fib (k - 1) + (if Nat.odd k then -2 else 2)
  /\ fib (2 * k - 1) = fib k * fib k + fib (k - 1) * fib (k - 1)
  /\ fib (2 * k) = fib (2 * k + 1) - fib (2 * k - 1).
Proof.
  intros k Hk. destruct k as [|j]; [lia|].
  replace (S j - 1)%nat with j by lia.
  assert (E1 : fib (2 * S j + 1) = fib (S (S j)) * fib (S (S j)) + fib (S j) * fib (S j)).
  { replace (2 * S j + 1)%nat with (S j + S j + 1)%nat by lia.
    rewrite fib_add. replace (S j + 1)%nat with (S (S j)) by lia. reflexivity. }
  assert (E2 : fib (2 * S j - 1) = fib (S j) * fib (S j) + fib j * fib j).
  { replace (2 * S j - 1)%nat with (j + j + 1)%nat by lia.
    rewrite fib_add. replace (j + 1)%nat with (S j) by lia. reflexivity. }
  assert (E3 : fib (2 * S j + 1) = fib (2 * S j) + fib (2 * S j - 1)).
  { replace (2 * S j + 1)%nat with (S (S (2 * S j - 1))) by lia.
    replace (2 * S j)%nat with (S (2 * S j - 1)) at 2 by lia.
    apply fib_SS. }
  pose proof (fib_cassini j) as HC.
  rewrite fib_SS in E1.
  split; [|split].
  - rewrite E1. destruct (Nat.odd (S j)); lia.
  - exact E2.
  - lia.
Qed.

(* ------------------------------------------------------------------------------------------ *)
(* mpn_fib2_ui: the doubling steps over the low bits, starting from a correct table           *)
(* ------------------------------------------------------------------------------------------ *)

(* the index reached from k after shifting in the bits, most significant first *)
Fixpoint bits_val (bits : list bool) (k : nat) : nat :=
  match bits with
  | [] => k
  | b :: r => bits_val r (2 * k + (if b then 1 else 0))
  end.

(* one doubling step, valid also for k = 0 thanks to F(-1) = 1 *)
Lemma fib_step k :
  let f := fib k in
  let f1 := snd (fib_pair k) in
  let f2k1 := 4 * f * f - f1 * f1 + (if Nat.odd k then -2 else 2) in
  let f2km1 := f * f + f1 * f1 in
  f2k1 = fib (2 * k + 1) /\ f2km1 = snd (fib_pair (2 * k)) /\ f2k1 - f2km1 = fib (2 * k).
Proof.
  destruct k as [|j].
  - cbv zeta. split; [|split]; reflexivity.
  - cbv zeta. rewrite fib_snd_S.
    destruct (fib_doubling (S j)) as [D1 [D2 D3]]; [lia|].
    replace (S j - 1)%nat with j in D1, D2 by lia.
    replace (2 * S j)%nat with (S (2 * S j - 1)) at 2 by lia.
    rewrite fib_snd_S.
    rewrite D3, D2, D1. split; [|split]; reflexivity.
Qed.

Lemma fib2_steps_spec bits : forall k,
  fib2_steps bits (Nat.odd k) (fib k) (snd (fib_pair k)) = fib_pair (bits_val bits k).
Proof.
  induction bits as [|b r IH]; intros k.
  - cbn [fib2_steps bits_val]. symmetry. apply fib_pair_eta.
  - cbn [fib2_steps bits_val]. cbv zeta.
    destruct (fib_step k) as [S1 [S2 S3]]. cbv zeta in S1, S2, S3.
    rewrite S3, S1, S2.
    destruct b.
    + replace true with (Nat.odd (2 * k + 1)).
      * rewrite <- (fib_snd_S (2 * k)).
        replace (S (2 * k)) with (2 * k + 1)%nat by lia.
        apply IH.
      * rewrite Nat.add_comm, Nat.odd_add_mul_2. reflexivity.
    + rewrite Nat.add_0_r.
      replace false with (Nat.odd (2 * k)).
      * apply IH.
      * apply (Nat.odd_add_mul_2 0 k).
Qed.

Lemma odd_to_nat z : 0 <= z -> Nat.odd (Z.to_nat z) = Z.odd z.
Proof.
  intros Hz.
  rewrite (Z.div_mod z 2) at 1 by lia.
  rewrite Zmod_odd.
  destruct (Z.odd z).
  - replace (Z.to_nat (2 * (z / 2) + 1)) with (1 + 2 * Z.to_nat (z / 2))%nat.
    + rewrite Nat.odd_add_mul_2. reflexivity.
    + assert (Hh : 0 <= z / 2) by (apply Z.div_pos; lia). lia.
  - replace (Z.to_nat (2 * (z / 2) + 0)) with (0 + 2 * Z.to_nat (z / 2))%nat.
    + rewrite Nat.odd_add_mul_2. reflexivity.
    + assert (Hh : 0 <= z / 2) by (apply Z.div_pos; lia). lia.
Qed.

Lemma fib_split_spec limit : 0 <= limit -> forall fuel n acc,
  0 <= n < 2 ^ Z.of_nat fuel ->
  0 <= fst (fib_split fuel n limit acc) <= limit
  /\ bits_val (snd (fib_split fuel n limit acc)) (Z.to_nat (fst (fib_split fuel n limit acc)))
     = bits_val acc (Z.to_nat n).
Proof.
  intros Hl. induction fuel as [|fuel IH]; intros n acc Hn.
  - cbn [fib_split fst snd]. change (Z.of_nat 0) with 0 in Hn. rewrite Z.pow_0_r in Hn.
    split; [lia | reflexivity].
  - cbn [fib_split].
    destruct (n <=? limit) eqn:Hle.
    + cbn [fst snd]. apply Z.leb_le in Hle. split; [lia | reflexivity].
    + rewrite Nat2Z.inj_succ, Z.pow_succ_r in Hn by lia.
      assert (Hh : 0 <= n / 2 < 2 ^ Z.of_nat fuel).
      { split; [apply Z.div_pos; lia | apply Z.div_lt_upper_bound; lia]. }
      destruct (IH (n / 2) (Z.odd n :: acc) Hh) as [I1 I2].
      split; [exact I1|].
      rewrite I2. cbn [bits_val]. f_equal.
      pose proof (Z.div_mod n 2) as Hdm. rewrite Zmod_odd in Hdm.
      destruct (Z.odd n); lia.
Qed.

Lemma fib2_ui_spec : forall tab limit n,
  (forall i : nat, (i <= Z.to_nat limit + 1)%nat -> nth i tab 0 = (if Nat.eqb i 0 then 1 else fib (i - 1))) ->
  1 <= limit -> 0 <= n < 2 ^ 64 ->
  fib2_ui tab limit n = (fib (Z.to_nat n), snd (fib_pair (Z.to_nat n))).
Proof.
  intros tab limit n Htab Hl Hn.
  assert (Hn70 : 0 <= n < 2 ^ Z.of_nat 70).
  { split; [lia|]. apply Z.lt_le_trans with (2 ^ 64); [lia|].
    apply Z.pow_le_mono_r; lia. }
  assert (Hl0 : 0 <= limit) by lia.
  pose proof (fib_split_spec limit Hl0 70 n [] Hn70) as [Hnf Hbv].
  unfold fib2_ui.
  destruct (fib_split 70 n limit []) as [nf bits].
  cbn [fst snd] in Hnf, Hbv. cbn [bits_val] in Hbv.
  rewrite <- fib_pair_eta, <- Hbv.
  rewrite (Htab (Z.to_nat (nf + 1))) by lia.
  rewrite (Htab (Z.to_nat nf)) by lia.
  rewrite <- (odd_to_nat nf) by lia.
  replace (Z.to_nat (nf + 1)) with (S (Z.to_nat nf)) by lia.
  cbn [Nat.eqb]. replace (S (Z.to_nat nf) - 1)%nat with (Z.to_nat nf) by lia.
  replace (if (Z.to_nat nf =? 0)%nat then 1 else fib (Z.to_nat nf - 1)) with (snd (fib_pair (Z.to_nat nf))).
  - apply fib2_steps_spec.
  - destruct (Z.to_nat nf) as [|j].
    + reflexivity.
    + rewrite fib_snd_S. cbn [Nat.eqb]. replace (S j - 1)%nat with j by lia. reflexivity.
Qed.

(* ------------------------------------------------------------------------------------------ *)
(* factorial, multifactorial with step 1, binomial                                            *)
(* ------------------------------------------------------------------------------------------ *)

Lemma prod_from_fact n : prod_from n (Z.of_nat n) 1 = Z.of_nat (fact n).
Proof.
  induction n as [|j IH].
  - reflexivity.
  - cbn [prod_from].
    replace (Z.of_nat (S j) - 1) with (Z.of_nat j) by lia.
    rewrite IH. change (fact (S j)) with (S j * fact j)%nat.
    rewrite Nat2Z.inj_mul. reflexivity.
Qed.

Lemma fac_fact n : fac (Z.of_nat n) = Z.of_nat (fact n).
Proof. unfold fac. rewrite Nat2Z.id. apply prod_from_fact. Qed.

(* falling factorial times (n-k)! is n! *)
Lemma prod_from_falling k : forall n, (k <= n)%nat ->
  prod_from k (Z.of_nat n) 1 * Z.of_nat (fact (n - k)) = Z.of_nat (fact n).
Proof.
  induction k as [|k IH]; intros n Hkn.
  - cbn [prod_from]. rewrite Nat.sub_0_r. lia.
  - destruct n as [|n']; [lia|].
    cbn [prod_from].
    replace (Z.of_nat (S n') - 1) with (Z.of_nat n') by lia.
    replace (S n' - S k)%nat with (n' - k)%nat by lia.
    rewrite <- Z.mul_assoc, IH by lia.
    change (fact (S n')) with (S n' * fact n')%nat.
    rewrite Nat2Z.inj_mul. reflexivity.
Qed.

(* Pascal's triangle on nat, local to these proofs *)
Fixpoint binom (n k : nat) : nat :=
  match k with
  | O => 1%nat
  | S k' => match n with O => 0%nat | S n' => (binom n' k' + binom n' k)%nat end
  end.

Lemma binom_gt n : forall k, (n < k)%nat -> binom n k = 0%nat.
Proof.
  induction n as [|n IH]; intros k Hk.
  - destruct k as [|k']; [lia | reflexivity].
  - destruct k as [|k']; [lia|].
    cbn [binom]. rewrite (IH k'), (IH (S k')) by lia. reflexivity.
Qed.

Lemma binom_fact n : forall k, (k <= n)%nat ->
  (binom n k * (fact k * fact (n - k)) = fact n)%nat.
Proof.
  induction n as [|n IH]; intros k Hk.
  - assert (k = 0%nat) as -> by lia. reflexivity.
  - destruct k as [|k'].
    + cbn [binom fact]. rewrite Nat.sub_0_r. change (fact (S n)) with (S n * fact n)%nat. lia.
    + cbn [binom].
      replace (S n - S k')%nat with (n - k')%nat by lia.
      destruct (Nat.eq_dec k' n) as [E | NE].
      * subst k'. rewrite (binom_gt n (S n)) by lia.
        pose proof (IH n (le_n n)) as I1. rewrite Nat.sub_diag in *.
        change (fact (S n)) with (S n * fact n)%nat.
        rewrite Nat.add_0_r.
        rewrite <- I1 at 2. ring.
      * assert (Hk1 : (k' <= n)%nat) by lia.
        assert (Hk2 : (S k' <= n)%nat) by lia.
        pose proof (IH k' Hk1) as I1. pose proof (IH (S k') Hk2) as I2.
        replace (n - k')%nat with (S (n - S k')) in * by lia.
        change (fact (S n)) with (S n * fact n)%nat.
        change (fact (S k')) with (S k' * fact k')%nat in *.
        change (fact (S (n - S k'))) with (S (n - S k') * fact (n - S k'))%nat in *.
        transitivity (S k' * (binom n k' * (fact k' * (S (n - S k') * fact (n - S k'))))
                      + S (n - S k') * (binom n (S k') * (S k' * fact k' * fact (n - S k'))))%nat;
          [ring|].
        rewrite I1, I2, <- Nat.mul_add_distr_r. f_equal. lia.
Qed.

Lemma fact_pos_Z n : 0 < Z.of_nat (fact n).
Proof. pose proof (lt_O_fact n) as Hp. lia. Qed.

Lemma prod_from_binom n k : (k <= n)%nat ->
  prod_from k (Z.of_nat n) 1 = Z.of_nat (binom n k) * Z.of_nat (fact k).
Proof.
  intros Hk.
  pose proof (prod_from_falling k n Hk) as Hf.
  pose proof (binom_fact n k Hk) as Hb.
  apply (f_equal Z.of_nat) in Hb. rewrite !Nat2Z.inj_mul in Hb.
  rewrite <- Hb in Hf.
  apply (Z.mul_reg_r _ _ (Z.of_nat (fact (n - k)))).
  - pose proof (fact_pos_Z (n - k)) as Hp. lia.
  - rewrite Hf. ring.
Qed.

Lemma fac_bin_spec : forall n k : nat,
  fac (Z.of_nat n) = Z.of_nat (fact n)
  /\ mfac (Z.of_nat n) 1 = fac (Z.of_nat n)
  /\ ((k <= n)%nat -> bin_uiui (Z.of_nat n) (Z.of_nat k) * (fac (Z.of_nat k) * fac (Z.of_nat (n - k))) = fac (Z.of_nat n))
  /\ ((n < k)%nat -> bin_uiui (Z.of_nat n) (Z.of_nat k) = 0).
Proof.
  intros n k. split; [apply fac_fact|]. split; [|split].
  - unfold mfac, fac. cbn [Z.leb Z.compare].
    replace (Z.of_nat n + 1 - 1) with (Z.of_nat n) by lia.
    rewrite Z.div_1_r. reflexivity.
  - intros Hk. unfold bin_uiui.
    destruct (Z.of_nat n <? Z.of_nat k) eqn:Hlt; [apply Z.ltb_lt in Hlt; lia|].
    rewrite !fac_fact, Nat2Z.id, (prod_from_binom n k Hk).
    rewrite Z.div_mul by (pose proof (fact_pos_Z k) as Hp; lia).
    pose proof (binom_fact n k Hk) as Hb.
    rewrite <- Hb. rewrite !Nat2Z.inj_mul. reflexivity.
  - intros Hk. unfold bin_uiui.
    destruct (Z.of_nat n <? Z.of_nat k) eqn:Hlt; [reflexivity|].
    apply Z.ltb_ge in Hlt. lia.
Qed.

(* ------------------------------------------------------------------------------------------ *)
(* mpz_remove                                                                                 *)
(* ------------------------------------------------------------------------------------------ *)

Lemma remove_loop_spec f : 2 <= f -> forall fuel x k,
  x <> 0 -> Z.abs x < 2 ^ Z.of_nat fuel -> 0 <= k ->
  k <= snd (remove_loop fuel x f k)
  /\ x = fst (remove_loop fuel x f k) * f ^ (snd (remove_loop fuel x f k) - k)
  /\ fst (remove_loop fuel x f k) mod f <> 0.
Proof.
  intros Hf. induction fuel as [|j IH]; intros x k Hx Hlt Hk.
  - change (Z.of_nat 0) with 0 in Hlt. rewrite Z.pow_0_r in Hlt. lia.
  - cbn [remove_loop].
    destruct (x =? 0) eqn:Hx0; [apply Z.eqb_eq in Hx0; lia|].
    destruct (x mod f =? 0) eqn:Hm.
    + apply Z.eqb_eq in Hm.
      assert (Hxf : x = f * (x / f)).
      { pose proof (Z.div_mod x f) as Hdm. lia. }
      assert (Hq : x / f <> 0).
      { intro Hq0. rewrite Hq0 in Hxf. lia. }
      rewrite Nat2Z.inj_succ, Z.pow_succ_r in Hlt by lia.
      assert (Hqlt : Z.abs (x / f) < 2 ^ Z.of_nat j).
      { assert (Ha : Z.abs x = f * Z.abs (x / f)).
        { rewrite Hxf at 1. rewrite Z.abs_mul. rewrite (Z.abs_eq f) by lia. reflexivity. }
        assert (Hnn : 0 <= Z.abs (x / f)) by apply Z.abs_nonneg.
        nia. }
      assert (Hk1 : 0 <= k + 1) by lia.
      destruct (IH (x / f) (k + 1) Hq Hqlt Hk1) as [I1 [I2 I3]].
      split; [lia|]. split; [|exact I3].
      replace (snd (remove_loop j (x / f) f (k + 1)) - k)
        with (Z.succ (snd (remove_loop j (x / f) f (k + 1)) - (k + 1))) by lia.
      rewrite Z.pow_succ_r by lia.
      rewrite Hxf at 1. rewrite I2 at 1. ring.
    + cbn [fst snd]. apply Z.eqb_neq in Hm.
      split; [lia|]. split; [|exact Hm].
      rewrite Z.sub_diag, Z.pow_0_r. ring.
Qed.

Lemma remove_spec : forall src f, 2 <= f -> src <> 0 ->
  let '(x, k) := mpz_remove src f in
  0 <= k /\ src = x * f ^ k /\ x mod f <> 0.
Proof.
  intros src f Hf Hs.
  assert (Hlt : Z.abs src < 2 ^ Z.of_nat (Z.to_nat (Z.log2 (Z.abs src)) + 1)).
  { assert (Ha : 0 < Z.abs src) by lia.
    pose proof (Z.log2_spec (Z.abs src) Ha) as [_ Hu].
    pose proof (Z.log2_nonneg (Z.abs src)) as Hl.
    replace (Z.of_nat (Z.to_nat (Z.log2 (Z.abs src)) + 1)) with (Z.succ (Z.log2 (Z.abs src))) by lia.
    exact Hu. }
  pose proof (remove_loop_spec f Hf _ src 0 Hs Hlt (Z.le_refl 0)) as [R1 [R2 R3]].
  unfold mpz_remove.
  destruct (remove_loop (Z.to_nat (Z.log2 (Z.abs src)) + 1) src f 0) as [x k].
  cbn [fst snd] in R1, R2, R3.
  rewrite Z.sub_0_r in R2.
  split; [exact R1|]. split; [exact R2 | exact R3].
Qed.

(* ------------------------------------------------------------------------------------------ *)
(* trial division                                                                             *)
(* ------------------------------------------------------------------------------------------ *)

(* true always means: no divisor among the values actually tried; with enough fuel that is all of them *)
Lemma no_divisor_true n : forall fuel d, 2 <= d ->
  Z.sqrt n + 1 - d < Z.of_nat fuel ->
  no_divisor fuel n d = true ->
  forall e, d <= e -> e * e <= n -> ~ (e | n).
Proof.
  induction fuel as [|j IH]; intros d Hd Hfuel Hnd e Hde Hee.
  - (* no fuel: then sqrt n + 1 < d <= e, so n < e * e *)
    exfalso.
    assert (Hn0 : 0 <= n) by nia.
    pose proof (Z.sqrt_spec n Hn0) as [_ Hs].
    pose proof (Z.sqrt_nonneg n) as Hs0.
    change (Z.of_nat 0) with 0 in Hfuel.
    assert (Hmono : Z.succ (Z.sqrt n) * Z.succ (Z.sqrt n) <= e * e)
      by (apply Z.mul_le_mono_nonneg; lia).
    lia.
  - cbn [no_divisor] in Hnd.
    destruct (n <? d * d) eqn:Hlt.
    + apply Z.ltb_lt in Hlt. nia.
    + destruct (n mod d =? 0) eqn:Hm; [discriminate Hnd|].
      apply Z.eqb_neq in Hm.
      destruct (Z.eq_dec e d) as [E | NE].
      * subst e. intro Hdiv. apply Hm. apply Zdivide_mod. exact Hdiv.
      * apply (IH (d + 1)); try lia. exact Hnd.
Qed.

Lemma no_divisor_complete n : forall fuel d, 2 <= d ->
  (forall e, d <= e -> e * e <= n -> ~ (e | n)) ->
  no_divisor fuel n d = true.
Proof.
  induction fuel as [|j IH]; intros d Hd Hno.
  - reflexivity.
  - cbn [no_divisor].
    destruct (n <? d * d) eqn:Hlt; [reflexivity|].
    apply Z.ltb_ge in Hlt.
    destruct (n mod d =? 0) eqn:Hm.
    + apply Z.eqb_eq in Hm. exfalso.
      apply (Hno d (Z.le_refl d) Hlt). apply Zmod_divide; [lia | exact Hm].
    + apply IH; [lia|]. intros e He. apply Hno. lia.
Qed.

Lemma prime_no_small_divisor n : prime n <->
  2 <= n /\ (forall e, 2 <= e -> e * e <= n -> ~ (e | n)).
Proof.
  split.
  - intros Hp. pose proof (prime_ge_2 n Hp) as H2. split; [exact H2|].
    intros e He Hee Hdiv.
    destruct (prime_divisors n Hp e Hdiv) as [E | [E | [E | E]]]; nia.
  - intros [H2 Hno]. apply prime_alt. split; [lia|].
    intros e He Hdiv.
    destruct Hdiv as [q Hq].
    (* n = q * e with 1 < e < n, hence 1 < q; one of e, q is at most sqrt n *)
    assert (Hq2 : 2 <= q) by nia.
    destruct (Z_le_gt_dec e q) as [Hle | Hgt].
    + apply (Hno e); [lia | nia | exists q; exact Hq].
    + apply (Hno q); [lia | nia | exists e; lia].
Qed.

Lemma is_prime_td_spec : forall n, is_prime_td n = true <-> prime n.
Proof.
  intros n. rewrite prime_no_small_divisor. unfold is_prime_td.
  rewrite andb_true_iff, Z.leb_le.
  split.
  - intros [H2 Hnd]. split; [exact H2|].
    apply (no_divisor_true n (Z.to_nat (Z.sqrt n) + 1) 2 (Z.le_refl 2)); [|exact Hnd].
    pose proof (Z.sqrt_nonneg n) as Hs0. lia.
  - intros [H2 Hno]. split; [exact H2|].
    apply no_divisor_complete; [lia | exact Hno].
Qed.

(* ------------------------------------------------------------------------------------------ *)
(* concrete values                                                                            *)
(* ------------------------------------------------------------------------------------------ *)

Lemma C16_example :
  fib2_ui fib_table 93 100 = (354224848179261915075, 218922995834555169026)
  /\ fac 20 = 2432902008176640000 /\ bin_ui (-4) 3 = -20 /\ mpz_remove 96 2 = (3, 5)
  /\ is_prime64 3215031751 = false /\ is_prime64 18446744073709551557 = true.
Proof.
  split; [vm_compute; reflexivity|]. split; [vm_compute; reflexivity|].
  split; [vm_compute; reflexivity|]. split; [vm_compute; reflexivity|].
  split; vm_compute; reflexivity.
Qed.
