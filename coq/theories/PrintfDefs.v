(* PrintfDefs.v — models behind C18.
   (1) c99_int: the layout C99 7.21.6.1 prescribes for d i o x X (flags - + space # 0, width,
       precision), written from the standard, extended to any integer (MPIR: o x X are signed);
   (2) the format parser of printf/doprnt.c (one % sequence, characters in order, '*' arguments) and
       the integer layout of printf/doprnti.c, as coded;
   (3) the bounded sink of printf/snprntffuns.c.
   Strings are lists of byte values.  Definitions only. *)
From Coq Require Import ZArith List Bool.
From Mpir Require Import Word RadixDefs.
Import ListNotations.
Local Open Scope Z_scope.

Definition rep (c : Z) (n : Z) : list Z := repeat c (Z.to_nat n).
Definition len (l : list Z) : Z := Z.of_nat (length l).

(* ---------------- (1) the C99 rules ---------------- *)
Record cflags := mkfl { f_minus : bool; f_plus : bool; f_space : bool; f_hash : bool; f_zero : bool }.
Definition conv_base (conv : Z) : Z :=
  if conv =? 111 then 8 else if conv =? 120 then 16 else if conv =? 88 then -16 else 10.
Definition c99_int (fl : cflags) (width : Z) (prec : option Z) (conv : Z) (v : Z) : list Z :=
  let base := conv_base conv in
  let ds := if (v =? 0) && (match prec with Some 0 => true | _ => false end) then [] else mpz_get_str (Z.abs v) base in
  let p := match prec with Some p => p | None => 1 end in
  let body := rep 48 (Z.max 0 (p - len ds)) ++ ds in
  (* '#': octal gets a leading zero only if it has none; hex a prefix on non-zero values *)
  let body := if f_hash fl && (conv =? 111) && negb (hd0 body =? 48) then 48 :: body else body in
  let prefix := if f_hash fl && negb (v =? 0) then (if conv =? 120 then [48; 120] else if conv =? 88 then [48; 88] else []) else [] in
  let sign := if v <? 0 then [45] else if f_plus fl then [43] else if f_space fl then [32] else [] in
  let pad := Z.max 0 (width - (len sign + len prefix + len body)) in
  if f_minus fl then sign ++ prefix ++ body ++ rep 32 pad
  else if f_zero fl && (match prec with None => true | _ => false end) then sign ++ prefix ++ rep 48 pad ++ body
  else rep 32 pad ++ sign ++ prefix ++ body.

(* ---------------- (2) printf/doprnt.c and printf/doprnti.c ---------------- *)
(* justify: 0 none, 1 left, 2 right, 3 internal; showbase: 0 no, 1 yes, 2 non-zero *)
Record params := mkp { p_base : Z; p_fill : Z; p_justify : Z; p_prec : Z; p_showbase : Z; p_sign : Z; p_width : Z;
                       p_seen_prec : bool; p_in_prec : bool }.
Definition p_init : params := mkp 10 32 2 6 0 0 0 false false.
Definition set_fill p v := mkp (p_base p) v (p_justify p) (p_prec p) (p_showbase p) (p_sign p) (p_width p) (p_seen_prec p) (p_in_prec p).
Definition set_just p v := mkp (p_base p) (p_fill p) v (p_prec p) (p_showbase p) (p_sign p) (p_width p) (p_seen_prec p) (p_in_prec p).
Definition set_prec p v := mkp (p_base p) (p_fill p) (p_justify p) v (p_showbase p) (p_sign p) (p_width p) (p_seen_prec p) (p_in_prec p).
Definition set_showbase p v := mkp (p_base p) (p_fill p) (p_justify p) (p_prec p) v (p_sign p) (p_width p) (p_seen_prec p) (p_in_prec p).
Definition set_sign p v := mkp (p_base p) (p_fill p) (p_justify p) (p_prec p) (p_showbase p) v (p_width p) (p_seen_prec p) (p_in_prec p).
Definition set_width p v := mkp (p_base p) (p_fill p) (p_justify p) (p_prec p) (p_showbase p) (p_sign p) v (p_seen_prec p) (p_in_prec p).
Definition set_base p v := mkp v (p_fill p) (p_justify p) (p_prec p) (p_showbase p) (p_sign p) (p_width p) (p_seen_prec p) (p_in_prec p).
Definition set_seen p (s i : bool) := mkp (p_base p) (p_fill p) (p_justify p) (p_prec p) (p_showbase p) (p_sign p) (p_width p) s i.
Definition is_digit (c : Z) : bool := (48 <=? c) && (c <=? 57).
(* the digit loop: n = n * 10 + digit while digits follow *)
Fixpoint parse_num (s : list Z) (n : Z) : Z * list Z :=
  match s with
  | c :: r => if is_digit c then parse_num r (n * 10 + (c - 48)) else (n, s)
  | [] => (n, [])
  end.
(* one % sequence up to (not including) the type / conversion letters: returns the parameters, the rest of the
   format and the unused '*' arguments *)
Fixpoint parse_spec (fuel : nat) (s : list Z) (stars : list Z) (p : params) : params * list Z * list Z :=
  match fuel with
  | O => (p, s, stars)
  | S f =>
    match s with
    | [] => (p, s, stars)
    | c :: r =>
      if c =? 35 then parse_spec f r stars (set_showbase p 2)                                  (* # *)
      else if c =? 43 then parse_spec f r stars (set_sign p 43)                                (* + *)
      else if c =? 32 then parse_spec f r stars (if p_sign p =? 43 then p else set_sign p 32)  (* space: '+' wins *)
      else if c =? 45 then parse_spec f r stars (set_fill (set_just p 1) 32)                   (* -: overrides 0 *)
      else if c =? 46 then parse_spec f r stars (set_seen (set_prec p (-1)) true true)         (* . *)
      else if c =? 42 then                                                                     (* * *)
        let n := hd0 stars in let stars' := tl0 stars in
        if p_in_prec p then
          parse_spec f r stars' (if n <? 0 then set_seen (set_prec p 6) false true else set_prec p n)
        else parse_spec f r stars' (if n <? 0 then set_width (set_fill (set_just p 1) 32) (- n) else set_width p n)
      else if c =? 48 then
        if p_in_prec p then parse_spec f r stars (set_prec p 0)
        else parse_spec f r stars (if p_justify p =? 1 then p else set_fill (if p_justify p =? 2 then set_just p 3 else p) 48)
      else if is_digit c then
        let '(n, r') := parse_num s 0 in
        parse_spec f r' stars (if p_in_prec p then set_prec p n else set_width p n)
      else (p, s, stars)
    end
  end.
(* at an integer conversion of an MPIR type: base from the letter; no precision given -> -1; an explicit
   precision switches zero filling off *)
Definition at_integer (p : params) (conv : Z) : params :=
  let p := set_base p (conv_base conv) in
  let p := if p_seen_prec p then p else set_prec p (-1) in
  if (0 <=? p_prec p) && (p_fill p =? 48) then set_fill (if p_justify p =? 3 then set_just p 2 else p) 32 else p.

(* __gmp_doprnt_integer on the digit string s (of mpz_get_str / mpq_get_str in p_base) *)
Fixpoint index_of (c : Z) (s : list Z) (i : Z) : option Z :=
  match s with [] => None | d :: r => if d =? c then Some i else index_of c r (i + 1) end.
Definition doprnt_integer (p : params) (s : list Z) : list Z :=
  let neg := hd0 s =? 45 in
  let sign := if neg then 45 else p_sign p in
  let s := if neg then tl0 s else s in
  let signlen := if sign =? 0 then 0 else 1 in
  let s := if (hd0 s =? 48) && (p_prec p =? 0) then tl0 s else s in
  let slen := len s in
  let slash := index_of 47 s 0 in
  let showbase := if p_showbase p =? 0 then []
                  else if p_base p =? 16 then [48; 120] else if p_base p =? -16 then [48; 88] else if p_base p =? 8 then [48] else [] in
  let showbaselen := len showbase in
  let den_showbaselen :=
    match slash with
    | None => 0
    | Some i => if (p_showbase p =? 2) && (nth (Z.to_nat (i + 1)) s 0 =? 48) then 0 else showbaselen
    end in
  let showbaselen := if (p_showbase p =? 2) && (hd0 s =? 48) then 0 else showbaselen in
  let zeros := Z.max 0 (p_prec p - slen) in
  (* octal: zeros supplied by the precision already give the leading zero *)
  let showbaselen := if (p_base p =? 8) && (0 <? zeros) then 0 else showbaselen in
  let justlen := p_width p - (slen + signlen + showbaselen + den_showbaselen + zeros) in
  let justify := if justlen <=? 0 then 0 else p_justify p in
  (if justify =? 2 then rep (p_fill p) justlen else [])
  ++ (if sign =? 0 then [] else [sign])
  ++ firstn (Z.to_nat showbaselen) showbase
  ++ rep 48 zeros
  ++ (if justify =? 3 then rep (p_fill p) justlen else [])
  ++ (match slash with
      | Some i => if den_showbaselen =? 0 then s
                  else firstn (Z.to_nat (i + 1)) s ++ firstn (Z.to_nat den_showbaselen) showbase ++ skipn (Z.to_nat (i + 1)) s
      | None => s
      end)
  ++ (if justify =? 1 then rep (p_fill p) justlen else []).

(* "%<spec>Z<conv>" applied to v;  "%<spec>Q<conv>" applied to n/d *)
Definition mpq_get_str (n d base : Z) : list Z := mpz_get_str n base ++ (if d =? 1 then [] else 47 :: mpz_get_str d base).
Definition printf_Z (spec : list Z) (stars : list Z) (conv : Z) (v : Z) : list Z :=
  let '(p, _, _) := parse_spec (S (length spec)) spec stars p_init in
  let p := at_integer p conv in doprnt_integer p (mpz_get_str v (p_base p)).
Definition printf_Q (spec : list Z) (stars : list Z) (conv : Z) (n d : Z) : list Z :=
  let '(p, _, _) := parse_spec (S (length spec)) spec stars p_init in
  let p := at_integer p conv in doprnt_integer p (mpq_get_str n d (p_base p)).

(* the format a flag set, width and precision stand for *)
Inductive wspec := WNone | WNum (n : Z) | WStar (n : Z).
Inductive pspec := PNone | PNum (n : Z) | PStar (n : Z).
Fixpoint dec_digits (fuel : nat) (n : Z) (acc : list Z) : list Z :=
  match fuel with O => acc | S f => if n <? 10 then (48 + n) :: acc else dec_digits f (n / 10) ((48 + n mod 10) :: acc) end.
Definition dec (n : Z) : list Z := dec_digits (S (Z.to_nat (Z.log2 n))) n [].
Definition spec_of (fl : list Z) (w : wspec) (p : pspec) : list Z :=
  fl ++ (match w with WNone => [] | WNum n => dec n | WStar _ => [42] end)
     ++ (match p with PNone => [] | PNum n => 46 :: dec n | PStar _ => [46; 42] end).
Definition stars_of (w : wspec) (p : pspec) : list Z :=
  (match w with WStar n => [n] | _ => [] end) ++ (match p with PStar n => [n] | _ => [] end).
Definition has (c : Z) (fl : list Z) : bool := existsb (Z.eqb c) fl.
Definition flags_of (fl : list Z) (w : wspec) : cflags :=
  mkfl (has 45 fl || match w with WStar n => n <? 0 | _ => false end) (has 43 fl) (has 32 fl) (has 35 fl) (has 48 fl).
Definition width_of (w : wspec) : Z := match w with WNone => 0 | WNum n => n | WStar n => Z.abs n end.
Definition prec_of (p : pspec) : option Z := match p with PNone => None | PNum n => Some n | PStar n => if n <? 0 then None else Some n end.
Definition is_flag (c : Z) : bool := (c =? 45) || (c =? 43) || (c =? 32) || (c =? 35) || (c =? 48).
Definition is_conv (c : Z) : bool := (c =? 100) || (c =? 105) || (c =? 111) || (c =? 120) || (c =? 88).

(* ---------------- (3) printf/snprntffuns.c: the bounded buffer ---------------- *)
(* state: remaining size, bytes stored so far; every chunk reports its full length *)
Definition sink_step (st : Z * list Z) (chunk : list Z) : Z * list Z :=
  let '(size, out) := st in
  if 1 <? size then let n := Z.min (size - 1) (len chunk) in (size - n, out ++ firstn (Z.to_nat n) chunk) else st.
Definition snprintf_sink (size : Z) (chunks : list (list Z)) : list Z * bool * Z :=
  let '(rest, out) := fold_left sink_step chunks (size, []) in
  (out, 1 <=? rest, fold_left (fun a c => a + len c) chunks 0).     (* bytes stored, terminator stored, return value *)
