(* PowDefs.v — models behind C08: REDC (mpn_redc_1, limb by limb), fixed-window exponentiation,
   the mpz_powm wrapper (exponent 0, negative exponent through the inverse, even moduli split into
   odd part and power of two and recombined, negative base), mpz_powm_ui, mpz_pow_ui / ui_pow_ui.
   Definitions only. *)
From Coq Require Import ZArith List Bool.
From Mpir Require Import Word DivDefs GcdDefs.
Import ListNotations.
Local Open Scope Z_scope.

(* ---- Montgomery reduction, one limb at a time (mpn/generic/redc_1.c):
   q = (low limb of T) * invm mod B ; T = (T + q * m) / B ; n times; final conditional subtract.
   invm = -m^{-1} mod B.  Returns a representative of T * B^-n mod m below B^n, for T < B^(2n). ---- *)
Fixpoint redc_loop (n : nat) (t m invm : Z) : Z :=
  match n with
  | O => t
  | S k => let q := ((t mod B) * invm) mod B in redc_loop k ((t + q * m) / B) m invm
  end.
(* the C code adds the n carry limbs back and subtracts m only when that addition carries out of
   n limbs, so the result is below B^n and congruent, not necessarily below m *)
Definition redc_1 (t m : Z) (n : nat) (invm : Z) : Z :=
  let r := redc_loop n t m invm in if B ^ Z.of_nat n <=? r then r - m else r.
(* binvert_limb: the inverse of an odd limb modulo B by Newton iteration x <- x (2 - a x) from a
   3-bit start (the table of the C macro gives 8 bits; more iterations here, same fixed point) *)
Fixpoint newton_inv (k : nat) (a x : Z) : Z :=
  match k with O => x | S j => newton_inv j a ((x * (2 - a * x)) mod B) end.
Definition binvert_limb (a : Z) : Z := newton_inv 6 a (a mod 8).   (* a * a = 1 mod 8 for odd a *)

(* ---- exponentiation ---- *)
(* bits of e, most significant first *)
Fixpoint bits_fuel (fuel : nat) (e : Z) (acc : list bool) : list bool :=
  match fuel with O => acc | S f => if e <=? 0 then acc else bits_fuel f (e / 2) (Z.odd e :: acc) end.
Definition bits (e : Z) : list bool := bits_fuel (S (Z.to_nat (Z.log2 e))) e [].
(* left-to-right binary method modulo m *)
Definition powm_bin (b e m : Z) : Z :=
  fold_left (fun acc (bit : bool) => let s := (acc * acc) mod m in if bit then (s * b) mod m else s) (bits e) (1 mod m).
(* fixed window of width k: table of b^0..b^(2^k-1), exponent consumed k bits at a time from the top *)
Fixpoint take_bits (k : nat) (l : list bool) (acc : Z) : Z * list bool :=
  match k, l with
  | S j, x :: r => take_bits j r (2 * acc + (if x then 1 else 0))
  | _, _ => (acc, l)
  end.
Fixpoint win_loop (fuel : nat) (k : nat) (b m : Z) (l : list bool) (acc : Z) : Z :=
  match fuel with
  | O => acc
  | S f =>
      match l with
      | [] => acc
      | _ => let '(w, rest) := take_bits k l 0 in
             let used := (length l - length rest)%nat in
             let acc' := fold_left (fun a _ => (a * a) mod m) (seq 0 used) acc in
             win_loop f k b m rest ((acc' * (b ^ w mod m)) mod m)
      end
  end.
Definition powm_window (k : nat) (b e m : Z) : Z := win_loop (S (length (bits e))) k b m (bits e) (1 mod m).

(* ---- mpz_powm (mpz/powm.c) ---- *)
Definition crt_even (r1 r2 modd t : Z) : Z :=
  (* r = r1 + modd * ((r2 - r1) * modd^-1 mod 2^t) *)
  let inv := match mpz_invert modd (2 ^ t) with Some i => i | None => 0 end in
  r1 + modd * (((r2 - r1) * inv) mod 2 ^ t).
Definition mpz_powm (b e m : Z) : res Z :=
  if m =? 0 then DivByZero
  else if e =? 0 then Ok (if Z.abs m =? 1 then 0 else 1)
  else
    let go (b e : Z) : res Z :=
      if b =? 0 then Ok 0
      else
        let M := Z.abs m in
        let t := ctz M in
        let modd := M / 2 ^ t in
        let ab := Z.abs b in
        let r1 := powm_bin ab e modd in
        let r := if t =? 0 then r1 else crt_even r1 (powm_bin ab e (2 ^ t)) modd t in
        Ok (if Z.odd e && (b <? 0) && negb (r =? 0) then M - r else r) in
    if e <? 0 then
      match mpz_invert b m with
      | None => DivByZero
      | Some b' => go b' (- e)
      end
    else go b e.
Definition mpz_powm_ui (b e m : Z) : res Z := mpz_powm b e m.
(* mpz_pow_ui, mpz_ui_pow_ui: exact power, 0^0 = 1 *)
Definition mpz_pow_ui (b e : Z) : Z := b ^ e.
