(* Toom4Proofs.v — the Toom-4 model of Toom4Defs.v returns the exact product; the eight
   exact divisions of mpn_toom4_interpolate (by 2, 8, 3, 2, 3, 3, 15, 4) are exact and act
   on non-negative values; every intermediate fits the limbs it is stored in.  Standard
   library only (plus Bpow and its four lemmas from Toom3Defs / Toom3Proofs). *)
From Coq Require Import ZArith Lia List.
From Mpir Require Import Toom3Defs Toom3Proofs Toom4Defs.
Import ListNotations.
Local Open Scope Z_scope.

(* ---- small facts --------------------------------------------------------------------- *)

Lemma Bpow_triple : forall k, 0 <= k -> Bpow (3 * k) = Bpow k * Bpow k * Bpow k.
Proof.
  intros k Hk. replace (3 * k) with (2 * k + k) by ring.
  rewrite Bpow_add, Bpow_double by lia. reflexivity.
Qed.

Lemma toom4_div_mul_l : forall c q, c <> 0 -> c * q / c = q.
Proof. intros c q Hc. rewrite Z.mul_comm. apply Z.div_mul; exact Hc. Qed.

Lemma toom4_mul_lt_sq : forall t x y, 0 <= x < t -> 0 <= y < t -> 0 <= x * y < t * t.
Proof.
  intros t x y Hx Hy. split.
  - apply Z.mul_nonneg_nonneg; lia.
  - apply Z.mul_lt_mono_nonneg; lia.
Qed.

Lemma toom4_mul_lt_scaled : forall t m n x y,
  0 <= x < m * t -> 0 <= y < n * t -> 0 <= x * y < m * n * (t * t).
Proof.
  intros t m n x y Hx Hy. split.
  - apply Z.mul_nonneg_nonneg; lia.
  - replace (m * n * (t * t)) with ((m * t) * (n * t)) by ring.
    apply Z.mul_lt_mono_nonneg; lia.
Qed.

(* ---- splitting ---------------------------------------------------------------------- *)

Lemma toom4_split_eq : forall k x, 0 <= k ->
  x = toom4_part0 k x + toom4_part1 k x * Bpow k + toom4_part2 k x * Bpow (2 * k)
      + toom4_part3 k x * Bpow (3 * k).
Proof.
  intros k x Hk. unfold toom4_part0, toom4_part1, toom4_part2, toom4_part3.
  pose proof (Bpow_pos k Hk) as Hp.
  rewrite (Bpow_triple k Hk), (Bpow_double k Hk).
  set (t := Bpow k) in *.
  assert (Htt : t * t <> 0) by nia.
  rewrite <- (Z.div_div x (t * t) t) by lia.
  rewrite <- (Z.div_div x t t) by lia.
  pose proof (Z.div_mod x t) as H1.
  pose proof (Z.div_mod (x / t) t) as H2.
  pose proof (Z.div_mod (x / t / t) t) as H3.
  set (q := x / t) in *.
  set (q2 := q / t) in *.
  set (q3 := q2 / t) in *.
  assert (E1 : x = t * q + x mod t) by (apply H1; lia).
  assert (E2 : q = t * q2 + q mod t) by (apply H2; lia).
  assert (E3 : q2 = t * q3 + q2 mod t) by (apply H3; lia).
  rewrite E1 at 1. rewrite E2 at 1. rewrite E3 at 1. ring.
Qed.

Lemma toom4_split_bounds : forall k x, 0 <= k -> 0 <= x ->
  0 <= toom4_part0 k x < Bpow k /\ 0 <= toom4_part1 k x < Bpow k /\
  0 <= toom4_part2 k x < Bpow k /\ 0 <= toom4_part3 k x.
Proof.
  intros k x Hk Hx. unfold toom4_part0, toom4_part1, toom4_part2, toom4_part3.
  pose proof (Bpow_pos k Hk) as Hp.
  assert (0 <= 3 * k) as H3k by lia.
  pose proof (Bpow_pos (3 * k) H3k) as Hp3.
  repeat split; try (apply Z.mod_pos_bound; lia).
  apply Z.div_pos; lia.
Qed.

(* An n-limb operand (n = 3k + r) has a top chunk of r limbs. *)
Lemma toom4_part3_bound : forall k r x, 0 <= k -> 0 <= r -> 0 <= x < Bpow (3 * k + r) ->
  0 <= toom4_part3 k x < Bpow r.
Proof.
  intros k r x Hk Hr Hx. unfold toom4_part3.
  assert (0 <= 3 * k) as H3k by lia.
  pose proof (Bpow_pos (3 * k) H3k) as Hp3.
  rewrite (Bpow_add (3 * k) r) in Hx by lia.
  split.
  - apply Z.div_pos; lia.
  - apply Z.div_lt_upper_bound; lia.
Qed.

(* ---- sign and magnitude ---------------------------------------------------------------- *)

(* after   n = sn + 1; if (mpn_cmp (x, y) >= 0) d = x - y; else { d = y - x; n = -n; }   *)
Lemma toom4_cmp_sign_absdiff : forall x y,
  let s := toom4_cmp_sign x y in
  let d := toom4_absdiff s x y in
  s * d = x - y /\ 0 <= d /\ d = Z.abs (x - y) /\ (s = 1 \/ s = -1).
Proof.
  intros x y. unfold toom4_cmp_sign, toom4_absdiff.
  destruct (Z.leb_spec y x) as [L | G]; cbv beta iota zeta.
  - change (0 <? 1) with true. cbv iota. repeat split; lia.
  - change (0 <? -1) with false. cbv iota. repeat split; lia.
Qed.

(* after MUL_TC4: the size field carries the sign of the product of the signed factors,
   and is 0 only for a zero product *)
Lemma toom4_mul_sign_spec : forall s1 s2 v,
  (s1 = 1 \/ s1 = -1) -> (s2 = 1 \/ s2 = -1) -> 0 <= v ->
  let n := toom4_mul_sign s1 s2 v in
  n * v = s1 * s2 * v /\ (n = -1 \/ (n = 0 /\ v = 0) \/ n = 1).
Proof.
  intros s1 s2 v H1 H2 Hv. unfold toom4_mul_sign.
  destruct H1 as [-> | ->]; destruct H2 as [-> | ->];
    [ change (1 * 1 <? 0) with false | change (1 * -1 <? 0) with true
    | change (-1 * 1 <? 0) with true | change (-1 * -1 <? 0) with false ];
    cbv beta iota zeta;
    (destruct v as [| q | q]; [ cbn; split; lia | cbn; split; lia | lia ]).
Qed.

(* The two signed points (-1 and -1/2) are formed the same way: x - y and x' - y' as
   magnitude and sign, MUL_TC4 of the two. *)
Lemma toom4_signed_product : forall x y x' y',
  let s := toom4_cmp_sign x y in
  let d := toom4_absdiff s x y in
  let s' := toom4_cmp_sign x' y' in
  let d' := toom4_absdiff s' x' y' in
  let n := toom4_mul_sign s s' (d * d') in
  n * (d * d') = (x - y) * (x' - y') /\
  d * d' = Z.abs (x - y) * Z.abs (x' - y') /\
  (n = -1 \/ (n = 0 /\ d * d' = 0) \/ n = 1).
Proof.
  intros x y x' y'.
  destruct (toom4_cmp_sign_absdiff x y) as [E [N [A S]]].
  destruct (toom4_cmp_sign_absdiff x' y') as [E' [N' [A' S']]].
  cbv zeta in *.
  set (s := toom4_cmp_sign x y) in *.
  set (s' := toom4_cmp_sign x' y') in *.
  set (d := toom4_absdiff s x y) in *.
  set (d' := toom4_absdiff s' x' y') in *.
  assert (Hv : 0 <= d * d') by (apply Z.mul_nonneg_nonneg; assumption).
  destruct (toom4_mul_sign_spec s s' (d * d') S S' Hv) as [M C]. cbv zeta in M, C.
  split; [| split].
  - rewrite M. replace (s * s' * (d * d')) with ((s * d) * (s' * d')) by ring.
    rewrite E, E'. reflexivity.
  - rewrite <- A, <- A'. reflexivity.
  - exact C.
Qed.

(* ---- the interpolation is made of the named dividends --------------------------------- *)

(* The only divisions in toom4_interpolate are those of the eight dividends of Toom4Defs. *)
Lemma toom4_interpolate_divisions : forall p,
  toom4_interpolate p =
  let r5 := toom4_dividend_by3_r5 p / 3 in
  let r6 := toom4_dividend_shift2 p / 4 in
  mk_toom4_coeffs (pt4_r7 p) r6 r5 (toom4_r4h p - toom4_r2f p) (toom4_r3b p - r5)
                  (toom4_r2f p - r6) (pt4_r1 p).
Proof. reflexivity. Qed.

(* The trace in terms of the same names. *)
Lemma toom4_interpolate_trace_defs : forall p,
  toom4_interpolate_trace p =
  [ pt4_r2 p + pt4_r5 p;
    toom4_r6a p;
    toom4_dividend_half1 p;
    pt4_r5 p - pt4_r1 p;
    pt4_r5 p - pt4_r1 p - 64 * pt4_r7 p;
    toom4_r4h p;
    toom4_r3a p;
    2 * (pt4_r5 p - pt4_r1 p - 64 * pt4_r7 p);
    2 * (pt4_r5 p - pt4_r1 p - 64 * pt4_r7 p) - toom4_r6a p;
    pt4_r2 p + pt4_r5 p - 65 * toom4_r3a p;
    toom4_r3a p - pt4_r7 p;
    toom4_r3b p;
    toom4_r2c p;
    toom4_dividend_shift3 p;
    toom4_dividend_by3_r5 p;
    toom4_dividend_by3_r5 p / 3;
    toom4_r6a p - toom4_r2c p;
    toom4_dividend_half2 p;
    toom4_dividend_by3_r2a p;
    toom4_dividend_by3_r2b p;
    toom4_r2f p;
    toom4_r3b p - toom4_dividend_by3_r5 p / 3;
    toom4_r4h p - toom4_r2f p;
    toom4_dividend_by15 p;
    toom4_dividend_shift2 p;
    toom4_dividend_shift2 p / 4;
    toom4_r2f p - toom4_dividend_shift2 p / 4 ].
Proof. reflexivity. Qed.

(* The coefficients are the last values written into r6, r5, r4, r3, r2. *)
Lemma toom4_interpolate_trace_coeffs : forall p,
  let tr := toom4_interpolate_trace p in
  toom4_interpolate p =
  mk_toom4_coeffs (pt4_r7 p) (nth 25 tr 0) (nth 15 tr 0) (nth 22 tr 0) (nth 21 tr 0)
                  (nth 26 tr 0) (pt4_r1 p).
Proof. reflexivity. Qed.

(* ---- the evaluation phase ---------------------------------------------------------------- *)

Ltac toom4_eval_unfold :=
  unfold toom4_eval;
  cbv beta iota zeta delta
    [pt4_r1 pt4_r2 pt4_r3 pt4_r4 pt4_r5 pt4_r6 pt4_r7 pt4_n4 pt4_n6].

Ltac toom4_c_unfold :=
  unfold toom4_c0, toom4_c1, toom4_c2, toom4_c3, toom4_c4, toom4_c5, toom4_c6.

Section Eval.
  Variable mulrec : Z -> Z -> Z.
  Hypothesis mulrec_spec : forall x y, mulrec x y = x * y.
  Variables a0 a1 a2 a3 b0 b1 b2 b3 : Z.

  Let c0 := toom4_c0 a0 a1 a2 a3 b0 b1 b2 b3.
  Let c1 := toom4_c1 a0 a1 a2 a3 b0 b1 b2 b3.
  Let c2 := toom4_c2 a0 a1 a2 a3 b0 b1 b2 b3.
  Let c3 := toom4_c3 a0 a1 a2 a3 b0 b1 b2 b3.
  Let c4 := toom4_c4 a0 a1 a2 a3 b0 b1 b2 b3.
  Let c5 := toom4_c5 a0 a1 a2 a3 b0 b1 b2 b3.
  Let c6 := toom4_c6 a0 a1 a2 a3 b0 b1 b2 b3.
  Let p := toom4_eval mulrec a0 a1 a2 a3 b0 b1 b2 b3.

  (* the values of the product polynomial at the seven points *)
  Let W1 := c6.
  Let W2 := c0 + 2 * c1 + 4 * c2 + 8 * c3 + 16 * c4 + 32 * c5 + 64 * c6.
  Let W3 := c0 + c1 + c2 + c3 + c4 + c5 + c6.
  Let W4 := c0 - c1 + c2 - c3 + c4 - c5 + c6.
  Let W5 := 64 * c0 + 32 * c1 + 16 * c2 + 8 * c3 + 4 * c4 + 2 * c5 + c6.
  Let W6 := 64 * c0 - 32 * c1 + 16 * c2 - 8 * c3 + 4 * c4 - 2 * c5 + c6.
  Let W7 := c0.

  Ltac W_unfold :=
    unfold W1, W2, W3, W4, W5, W6, W7, c0, c1, c2, c3, c4, c5, c6; toom4_c_unfold.

  Lemma toom4_eval_r7 : pt4_r7 p = c0.
  Proof. unfold p; toom4_eval_unfold. rewrite mulrec_spec. reflexivity. Qed.

  Lemma toom4_eval_r1 : pt4_r1 p = c6.
  Proof. unfold p; toom4_eval_unfold. rewrite mulrec_spec. reflexivity. Qed.

  Lemma toom4_eval_r3 : pt4_r3 p = c0 + c1 + c2 + c3 + c4 + c5 + c6.
  Proof. unfold p; toom4_eval_unfold. rewrite mulrec_spec. W_unfold. ring. Qed.

  Lemma toom4_eval_r2 :
    pt4_r2 p = c0 + 2 * c1 + 4 * c2 + 8 * c3 + 16 * c4 + 32 * c5 + 64 * c6.
  Proof.
    unfold p; toom4_eval_unfold. rewrite mulrec_spec. unfold toom4_eval2; cbv zeta.
    W_unfold. ring.
  Qed.

  (* the point at 1/2 comes scaled by 64 *)
  Lemma toom4_eval_r5 :
    pt4_r5 p = 64 * c0 + 32 * c1 + 16 * c2 + 8 * c3 + 4 * c4 + 2 * c5 + c6.
  Proof.
    unfold p; toom4_eval_unfold. rewrite mulrec_spec.
    unfold toom4_evalh_even, toom4_evalh_odd; cbv zeta. W_unfold. ring.
  Qed.

  (* magnitude times sign is the signed value p(-1) *)
  Lemma toom4_eval_r4 : pt4_n4 p * pt4_r4 p = c0 - c1 + c2 - c3 + c4 - c5 + c6.
  Proof.
    unfold p; toom4_eval_unfold. rewrite !mulrec_spec.
    destruct (toom4_signed_product (a2 + a0) (a1 + a3) (b2 + b0) (b1 + b3)) as [E _].
    cbv zeta in E. rewrite E. W_unfold. ring.
  Qed.

  (* magnitude times sign is the signed value 64 p(-1/2) *)
  Lemma toom4_eval_r6 :
    pt4_n6 p * pt4_r6 p = 64 * c0 - 32 * c1 + 16 * c2 - 8 * c3 + 4 * c4 - 2 * c5 + c6.
  Proof.
    unfold p; toom4_eval_unfold. rewrite !mulrec_spec.
    destruct (toom4_signed_product (toom4_evalh_even a0 a2) (toom4_evalh_odd a1 a3)
                                   (toom4_evalh_even b0 b2) (toom4_evalh_odd b1 b3)) as [E _].
    cbv zeta in E. rewrite E.
    unfold toom4_evalh_even, toom4_evalh_odd; cbv zeta. W_unfold. ring.
  Qed.

  (* the stored r4 is |a0-a1+a2-a3| * |b0-b1+b2-b3| *)
  Lemma toom4_eval_r4_abs :
    pt4_r4 p = Z.abs (a0 - a1 + a2 - a3) * Z.abs (b0 - b1 + b2 - b3).
  Proof.
    unfold p; toom4_eval_unfold. rewrite !mulrec_spec.
    destruct (toom4_signed_product (a2 + a0) (a1 + a3) (b2 + b0) (b1 + b3)) as [_ [E _]].
    cbv zeta in E. rewrite E.
    replace (a2 + a0 - (a1 + a3)) with (a0 - a1 + a2 - a3) by ring.
    replace (b2 + b0 - (b1 + b3)) with (b0 - b1 + b2 - b3) by ring.
    reflexivity.
  Qed.

  (* the stored r6 is |8a0-4a1+2a2-a3| * |8b0-4b1+2b2-b3| *)
  Lemma toom4_eval_r6_abs :
    pt4_r6 p = Z.abs (8 * a0 - 4 * a1 + 2 * a2 - a3) * Z.abs (8 * b0 - 4 * b1 + 2 * b2 - b3).
  Proof.
    unfold p; toom4_eval_unfold. rewrite !mulrec_spec.
    destruct (toom4_signed_product (toom4_evalh_even a0 a2) (toom4_evalh_odd a1 a3)
                                   (toom4_evalh_even b0 b2) (toom4_evalh_odd b1 b3)) as [_ [E _]].
    cbv zeta in E. rewrite E.
    unfold toom4_evalh_even, toom4_evalh_odd; cbv zeta.
    replace (2 * a2 + 8 * a0 - (a3 + 4 * a1)) with (8 * a0 - 4 * a1 + 2 * a2 - a3) by ring.
    replace (2 * b2 + 8 * b0 - (b3 + 4 * b1)) with (8 * b0 - 4 * b1 + 2 * b2 - b3) by ring.
    reflexivity.
  Qed.

  Lemma toom4_eval_r4_nonneg : 0 <= pt4_r4 p.
  Proof. rewrite toom4_eval_r4_abs. apply Z.mul_nonneg_nonneg; apply Z.abs_nonneg. Qed.

  Lemma toom4_eval_r6_nonneg : 0 <= pt4_r6 p.
  Proof. rewrite toom4_eval_r6_abs. apply Z.mul_nonneg_nonneg; apply Z.abs_nonneg. Qed.

  (* n4 (n6) is negative, zero or positive, and the magnitude is 0 whenever it is 0 *)
  Lemma toom4_eval_n4 :
    pt4_n4 p = -1 \/ (pt4_n4 p = 0 /\ pt4_r4 p = 0) \/ pt4_n4 p = 1.
  Proof.
    unfold p; toom4_eval_unfold. rewrite !mulrec_spec.
    destruct (toom4_signed_product (a2 + a0) (a1 + a3) (b2 + b0) (b1 + b3)) as [_ [_ C]].
    exact C.
  Qed.

  Lemma toom4_eval_n6 :
    pt4_n6 p = -1 \/ (pt4_n6 p = 0 /\ pt4_r6 p = 0) \/ pt4_n6 p = 1.
  Proof.
    unfold p; toom4_eval_unfold. rewrite !mulrec_spec.
    destruct (toom4_signed_product (toom4_evalh_even a0 a2) (toom4_evalh_odd a1 a3)
                                   (toom4_evalh_even b0 b2) (toom4_evalh_odd b1 b3)) as [_ [_ C]].
    exact C.
  Qed.

  (* the two sign-dependent statements of the interpolation are the signed subtractions *)
  Lemma toom4_step_sub_signed_r4 : forall x,
    toom4_step_sub_signed (pt4_n4 p) x (pt4_r4 p) = x - (c0 - c1 + c2 - c3 + c4 - c5 + c6).
  Proof.
    intros x. rewrite <- toom4_eval_r4. unfold toom4_step_sub_signed.
    destruct toom4_eval_n4 as [S | [[S V] | S]]; rewrite S;
      [ change (-1 <? 0) with true
      | change (0 <? 0) with false; rewrite V
      | change (1 <? 0) with false ]; cbv iota; ring.
  Qed.

  Lemma toom4_step_sub_signed_r6 : forall x,
    toom4_step_sub_signed (pt4_n6 p) x (pt4_r6 p)
    = x - (64 * c0 - 32 * c1 + 16 * c2 - 8 * c3 + 4 * c4 - 2 * c5 + c6).
  Proof.
    intros x. rewrite <- toom4_eval_r6. unfold toom4_step_sub_signed.
    destruct toom4_eval_n6 as [S | [[S V] | S]]; rewrite S;
      [ change (-1 <? 0) with true
      | change (0 <? 0) with false; rewrite V
      | change (1 <? 0) with false ]; cbv iota; ring.
  Qed.

  (* ---- the dividends, in closed form ------------------------------------------------- *)

  Lemma toom4_r6a_eq : toom4_r6a p = 4 * (16 * c1 + 4 * c3 + c5).
  Proof. unfold toom4_r6a. rewrite toom4_step_sub_signed_r6, toom4_eval_r5. ring. Qed.

  Lemma toom4_dividend_half1_eq : toom4_dividend_half1 p = 2 * (c1 + c3 + c5).
  Proof. unfold toom4_dividend_half1. rewrite toom4_step_sub_signed_r4, toom4_eval_r3. ring. Qed.

  Lemma toom4_r4h_eq : toom4_r4h p = c1 + c3 + c5.
  Proof. unfold toom4_r4h. rewrite toom4_dividend_half1_eq. apply toom4_div_mul_l; lia. Qed.

  Lemma toom4_r3a_eq : toom4_r3a p = c0 + c2 + c4 + c6.
  Proof. unfold toom4_r3a. rewrite toom4_r4h_eq, toom4_eval_r3. ring. Qed.

  Lemma toom4_r3b_eq : toom4_r3b p = c2 + c4.
  Proof. unfold toom4_r3b. rewrite toom4_r3a_eq, toom4_eval_r7, toom4_eval_r1. ring. Qed.

  Lemma toom4_dividend_shift3_eq : toom4_dividend_shift3 p = 8 * (3 * c2).
  Proof.
    unfold toom4_dividend_shift3.
    rewrite toom4_r6a_eq, toom4_r3b_eq, toom4_eval_r5, toom4_eval_r1, toom4_eval_r7. ring.
  Qed.

  Lemma toom4_dividend_by3_r5_eq : toom4_dividend_by3_r5 p = 3 * c2.
  Proof.
    unfold toom4_dividend_by3_r5. rewrite toom4_dividend_shift3_eq.
    apply toom4_div_mul_l; lia.
  Qed.

  Lemma toom4_r2c_eq : toom4_r2c p = 34 * c1 + 16 * c3 + 34 * c5.
  Proof.
    unfold toom4_r2c.
    rewrite toom4_r3a_eq, toom4_r3b_eq, toom4_eval_r2, toom4_eval_r5. ring.
  Qed.

  Lemma toom4_dividend_half2_eq : toom4_dividend_half2 p = 2 * (3 * (3 * (c1 + c5))).
  Proof. unfold toom4_dividend_half2. rewrite toom4_r2c_eq, toom4_r4h_eq. ring. Qed.

  Lemma toom4_dividend_by3_r2a_eq : toom4_dividend_by3_r2a p = 3 * (3 * (c1 + c5)).
  Proof.
    unfold toom4_dividend_by3_r2a. rewrite toom4_dividend_half2_eq.
    apply toom4_div_mul_l; lia.
  Qed.

  Lemma toom4_dividend_by3_r2b_eq : toom4_dividend_by3_r2b p = 3 * (c1 + c5).
  Proof.
    unfold toom4_dividend_by3_r2b. rewrite toom4_dividend_by3_r2a_eq.
    apply toom4_div_mul_l; lia.
  Qed.

  Lemma toom4_r2f_eq : toom4_r2f p = c1 + c5.
  Proof.
    unfold toom4_r2f. rewrite toom4_dividend_by3_r2b_eq. apply toom4_div_mul_l; lia.
  Qed.

  Lemma toom4_dividend_by15_eq : toom4_dividend_by15 p = 15 * (4 * c1).
  Proof. unfold toom4_dividend_by15. rewrite toom4_r6a_eq, toom4_r2c_eq, toom4_r2f_eq. ring. Qed.

  Lemma toom4_dividend_shift2_eq : toom4_dividend_shift2 p = 4 * c1.
  Proof.
    unfold toom4_dividend_shift2. rewrite toom4_dividend_by15_eq.
    apply toom4_div_mul_l; lia.
  Qed.

  (* toom4_divisions_exact: each of the eight divisions of mpn_toom4_interpolate, in
     program order, has a dividend that is a multiple of its divisor at that point:
       TC4_RSHIFT1 (r4)                  2  | r3 -/+ r4
       mpn_rshift (r5, .., 3)            8  | 2 (r5 - r1 - 64 r7) - r6 - 8 r3
       mpn_divexact_by3 (r5)             3  | that / 8
       mpn_rshift (r2, .., 1)            2  | r2 - 16 r4
       mpn_divexact_by3 (r2)             3  | that / 2
       mpn_divexact_by3 (r2)             3  | that / 2 / 3
       mpn_divexact_byfobm1 (r6, 15)     15 | r6 + 30 r2
       mpn_rshift (r6, .., 2)            4  | that / 15                                   *)
  Theorem toom4_divisions_exact :
    (2 | toom4_dividend_half1 p) /\
    (8 | toom4_dividend_shift3 p) /\
    (3 | toom4_dividend_by3_r5 p) /\
    (2 | toom4_dividend_half2 p) /\
    (3 | toom4_dividend_by3_r2a p) /\
    (3 | toom4_dividend_by3_r2b p) /\
    (15 | toom4_dividend_by15 p) /\
    (4 | toom4_dividend_shift2 p).
  Proof.
    repeat split.
    - exists (c1 + c3 + c5). rewrite toom4_dividend_half1_eq. ring.
    - exists (3 * c2). rewrite toom4_dividend_shift3_eq. ring.
    - exists c2. rewrite toom4_dividend_by3_r5_eq. ring.
    - exists (3 * (3 * (c1 + c5))). rewrite toom4_dividend_half2_eq. ring.
    - exists (3 * (c1 + c5)). rewrite toom4_dividend_by3_r2a_eq. ring.
    - exists (c1 + c5). rewrite toom4_dividend_by3_r2b_eq. ring.
    - exists (4 * c1). rewrite toom4_dividend_by15_eq. ring.
    - exists c1. rewrite toom4_dividend_shift2_eq. ring.
  Qed.

  Lemma toom4_r5_final_eq : toom4_dividend_by3_r5 p / 3 = c2.
  Proof. rewrite toom4_dividend_by3_r5_eq. apply toom4_div_mul_l; lia. Qed.

  Lemma toom4_r6_final_eq : toom4_dividend_shift2 p / 4 = c1.
  Proof. rewrite toom4_dividend_shift2_eq. apply toom4_div_mul_l; lia. Qed.

  (* ---- interpolation ------------------------------------------------------------------ *)

  (* No sign condition on the parts: the identity holds over Z. *)
  Lemma toom4_interpolate_eq :
    toom4_interpolate p = mk_toom4_coeffs c0 c1 c2 c3 c4 c5 c6.
  Proof.
    rewrite toom4_interpolate_divisions; cbv zeta.
    rewrite toom4_r5_final_eq, toom4_r6_final_eq.
    rewrite toom4_r4h_eq, toom4_r2f_eq, toom4_r3b_eq, toom4_eval_r7, toom4_eval_r1.
    f_equal; ring.
  Qed.

  (* Every value written into r2 .. r6 by mpn_toom4_interpolate, in program order, in
     terms of the coefficients of the product polynomial. *)
  Lemma toom4_interpolate_trace_eq :
    toom4_interpolate_trace p =
    [ 65 * c0 + 34 * c1 + 20 * c2 + 16 * c3 + 20 * c4 + 34 * c5 + 65 * c6;  (*  0 r2 *)
      64 * c1 + 16 * c3 + 4 * c5;                                           (*  1 r6 *)
      2 * (c1 + c3 + c5);                                                   (*  2 r4 *)
      64 * c0 + 32 * c1 + 16 * c2 + 8 * c3 + 4 * c4 + 2 * c5;               (*  3 r5 *)
      32 * c1 + 16 * c2 + 8 * c3 + 4 * c4 + 2 * c5;                         (*  4 r5 *)
      c1 + c3 + c5;                                                         (*  5 r4 *)
      c0 + c2 + c4 + c6;                                                    (*  6 r3 *)
      64 * c1 + 32 * c2 + 16 * c3 + 8 * c4 + 4 * c5;                        (*  7 r5 *)
      32 * c2 + 8 * c4;                                                     (*  8 r5 *)
      34 * c1 - 45 * c2 + 16 * c3 - 45 * c4 + 34 * c5;                      (*  9 r2 *)
      c2 + c4 + c6;                                                         (* 10 r3 *)
      c2 + c4;                                                              (* 11 r3 *)
      34 * c1 + 16 * c3 + 34 * c5;                                          (* 12 r2 *)
      24 * c2;                                                              (* 13 r5 *)
      3 * c2;                                                               (* 14 r5 *)
      c2;                                                                   (* 15 r5 *)
      30 * c1 - 30 * c5;                                                    (* 16 r6 *)
      18 * (c1 + c5);                                                       (* 17 r2 *)
      9 * (c1 + c5);                                                        (* 18 r2 *)
      3 * (c1 + c5);                                                        (* 19 r2 *)
      c1 + c5;                                                              (* 20 r2 *)
      c4;                                                                   (* 21 r3 *)
      c3;                                                                   (* 22 r4 *)
      60 * c1;                                                              (* 23 r6 *)
      4 * c1;                                                               (* 24 r6 *)
      c1;                                                                   (* 25 r6 *)
      c5 ].                                                                 (* 26 r2 *)
  Proof.
    rewrite toom4_interpolate_trace_defs.
    rewrite toom4_r5_final_eq, toom4_r6_final_eq.
    rewrite toom4_dividend_shift2_eq, toom4_dividend_by15_eq, toom4_r2f_eq,
      toom4_dividend_by3_r2b_eq, toom4_dividend_by3_r2a_eq, toom4_dividend_half2_eq,
      toom4_r2c_eq, toom4_dividend_by3_r5_eq, toom4_dividend_shift3_eq, toom4_r3b_eq,
      toom4_r3a_eq, toom4_r4h_eq, toom4_dividend_half1_eq, toom4_r6a_eq.
    rewrite toom4_eval_r2, toom4_eval_r5, toom4_eval_r1, toom4_eval_r7.
    repeat (apply f_equal2; [ring |]). reflexivity.
  Qed.

  (* The operands of the unsigned operations (mpn_rshift, mpn_divexact_by3,
     mpn_divexact_byfobm1) and of TC4_RSHIFT1 are >= 0 when the parts are. *)
  Lemma toom4_dividends_nonneg :
    0 <= a0 -> 0 <= a1 -> 0 <= a2 -> 0 <= a3 -> 0 <= b0 -> 0 <= b1 -> 0 <= b2 -> 0 <= b3 ->
    0 <= toom4_dividend_half1 p /\
    0 <= toom4_dividend_shift3 p /\
    0 <= toom4_dividend_by3_r5 p /\
    0 <= toom4_dividend_half2 p /\
    0 <= toom4_dividend_by3_r2a p /\
    0 <= toom4_dividend_by3_r2b p /\
    0 <= toom4_dividend_by15 p /\
    0 <= toom4_dividend_shift2 p.
  Proof.
    intros Ha0 Ha1 Ha2 Ha3 Hb0 Hb1 Hb2 Hb3.
    assert (0 <= c1) by (unfold c1, toom4_c1; nia).
    assert (0 <= c2) by (unfold c2, toom4_c2; nia).
    assert (0 <= c3) by (unfold c3, toom4_c3; nia).
    assert (0 <= c5) by (unfold c5, toom4_c5; nia).
    rewrite toom4_dividend_half1_eq, toom4_dividend_shift3_eq, toom4_dividend_by3_r5_eq,
      toom4_dividend_half2_eq, toom4_dividend_by3_r2a_eq, toom4_dividend_by3_r2b_eq,
      toom4_dividend_by15_eq, toom4_dividend_shift2_eq.
    repeat split; lia.
  Qed.

End Eval.

(* toom4_interpolate_correct: the seven interpolated coefficients are those of the product
   polynomial, and none is negative. *)
Theorem toom4_interpolate_correct :
  forall mulrec a0 a1 a2 a3 b0 b1 b2 b3,
    (forall x y, mulrec x y = x * y) ->
    0 <= a0 -> 0 <= a1 -> 0 <= a2 -> 0 <= a3 -> 0 <= b0 -> 0 <= b1 -> 0 <= b2 -> 0 <= b3 ->
    let c := toom4_interpolate (toom4_eval mulrec a0 a1 a2 a3 b0 b1 b2 b3) in
    co4_0 c = a0 * b0 /\
    co4_1 c = a0 * b1 + a1 * b0 /\
    co4_2 c = a0 * b2 + a1 * b1 + a2 * b0 /\
    co4_3 c = a0 * b3 + a1 * b2 + a2 * b1 + a3 * b0 /\
    co4_4 c = a1 * b3 + a2 * b2 + a3 * b1 /\
    co4_5 c = a2 * b3 + a3 * b2 /\
    co4_6 c = a3 * b3 /\
    0 <= co4_0 c /\ 0 <= co4_1 c /\ 0 <= co4_2 c /\ 0 <= co4_3 c /\ 0 <= co4_4 c /\
    0 <= co4_5 c /\ 0 <= co4_6 c.
Proof.
  intros mulrec a0 a1 a2 a3 b0 b1 b2 b3 Hm Ha0 Ha1 Ha2 Ha3 Hb0 Hb1 Hb2 Hb3. cbv zeta.
  rewrite (toom4_interpolate_eq mulrec Hm).
  cbv beta iota delta [co4_0 co4_1 co4_2 co4_3 co4_4 co4_5 co4_6].
  toom4_c_unfold.
  repeat split; nia.
Qed.

(* ---- sizes ------------------------------------------------------------------------------- *)

(* The sn+1-limb evaluation points fit their areas (u2 .. u6, r1, r2 during the evaluation
   phase): each is below 15 B^k < B^(k+1).  The C file has no ASSERT for this; it is what
   the layout  tp = 4 t4 + 5 (sn + 1) limbs  relies on.  In program order, for one
   operand:  x1 + x3,  x2 + x0,  their sum and |difference| (points 1 and -1),
   2 x2 + 8 x0,  x3 + 4 x1,  their sum and |difference| (points 1/2 and -1/2),
   x0 + 2 x1 + 4 x2 + 8 x3 (point 2). *)
Lemma toom4_eval_point_bounds :
  forall k r x0 x1 x2 x3,
    0 <= r <= k ->
    0 <= x0 < Bpow k -> 0 <= x1 < Bpow k -> 0 <= x2 < Bpow k -> 0 <= x3 < Bpow r ->
    let s1 := toom4_cmp_sign (x2 + x0) (x1 + x3) in
    let e := toom4_evalh_even x0 x2 in
    let o := toom4_evalh_odd x1 x3 in
    let sh := toom4_cmp_sign e o in
    15 * Bpow k < Bpow (k + 1) /\
    0 <= x1 + x3 < 2 * Bpow k /\
    0 <= x2 + x0 < 2 * Bpow k /\
    0 <= x2 + x0 + (x1 + x3) < 4 * Bpow k /\
    0 <= toom4_absdiff s1 (x2 + x0) (x1 + x3) < 2 * Bpow k /\
    0 <= e < 10 * Bpow k /\
    0 <= o < 5 * Bpow k /\
    0 <= e + o < 15 * Bpow k /\
    0 <= toom4_absdiff sh e o < 10 * Bpow k /\
    0 <= toom4_eval2 x0 x1 x2 x3 < 15 * Bpow k.
Proof.
  intros k r x0 x1 x2 x3 Hr H0 H1 H2 H3.
  assert (Hle : Bpow r <= Bpow k) by (apply Bpow_le; lia).
  assert (Hp : 0 < Bpow k) by (apply Bpow_pos; lia).
  cbv zeta.
  destruct (toom4_cmp_sign_absdiff (x2 + x0) (x1 + x3)) as [_ [_ [E _]]]. cbv zeta in E.
  destruct (toom4_cmp_sign_absdiff (toom4_evalh_even x0 x2) (toom4_evalh_odd x1 x3))
    as [_ [_ [E' _]]]. cbv zeta in E'.
  rewrite E, E'.
  unfold toom4_evalh_even, toom4_evalh_odd, toom4_eval2; cbv zeta.
  split.
  - rewrite (Bpow_add k 1) by lia. change (Bpow 1) with 18446744073709551616. lia.
  - repeat split; lia.
Qed.

(* The seven products fit their areas: r2 .. r6 in s4 = 2sn+1 limbs (t4 = 2sn+2 are
   allocated; that r5 < B^(2sn+1) is what makes  r3[1] = r31  a restoration), r7 in 2sn
   limbs, r1 in 2 h1 limbs.  No ASSERT in the C file states these. *)
Theorem toom4_bounds :
  forall mulrec k r a0 a1 a2 a3 b0 b1 b2 b3,
    (forall x y, mulrec x y = x * y) ->
    0 <= r <= k ->
    0 <= a0 < Bpow k -> 0 <= a1 < Bpow k -> 0 <= a2 < Bpow k -> 0 <= a3 < Bpow r ->
    0 <= b0 < Bpow k -> 0 <= b1 < Bpow k -> 0 <= b2 < Bpow k -> 0 <= b3 < Bpow r ->
    let p := toom4_eval mulrec a0 a1 a2 a3 b0 b1 b2 b3 in
    225 * Bpow (2 * k) < Bpow (2 * k + 1) /\
    0 <= pt4_r3 p < 16 * Bpow (2 * k) /\
    0 <= pt4_r4 p < 4 * Bpow (2 * k) /\
    Z.abs (toom4_r4_signed p) < 4 * Bpow (2 * k) /\
    0 <= pt4_r5 p < 225 * Bpow (2 * k) /\
    0 <= pt4_r6 p < 100 * Bpow (2 * k) /\
    Z.abs (toom4_r6_signed p) < 100 * Bpow (2 * k) /\
    0 <= pt4_r2 p < 225 * Bpow (2 * k) /\
    0 <= pt4_r7 p < Bpow (2 * k) /\
    0 <= pt4_r1 p < Bpow (2 * r).
Proof.
  intros mulrec k r a0 a1 a2 a3 b0 b1 b2 b3 Hm Hr Ha0 Ha1 Ha2 Ha3 Hb0 Hb1 Hb2 Hb3 p.
  assert (Hk : 0 <= k) by lia.
  assert (Hr0 : 0 <= r) by lia.
  pose proof (Bpow_le r k (conj Hr0 (proj2 Hr))) as Hle.
  pose proof (Bpow_pos k Hk) as Hp.
  assert (HT : 225 * Bpow (2 * k) < Bpow (2 * k + 1)).
  { rewrite (Bpow_add (2 * k) 1) by lia.
    assert (0 < Bpow (2 * k)) by (apply Bpow_pos; lia).
    change (Bpow 1) with 18446744073709551616. lia. }
  split; [exact HT |].
  rewrite (Bpow_double k Hk), (Bpow_double r Hr0).
  pose proof (toom4_eval_r4_abs mulrec Hm a0 a1 a2 a3 b0 b1 b2 b3) as E4.
  pose proof (toom4_eval_r6_abs mulrec Hm a0 a1 a2 a3 b0 b1 b2 b3) as E6.
  pose proof (toom4_eval_n4 mulrec Hm a0 a1 a2 a3 b0 b1 b2 b3) as S4.
  pose proof (toom4_eval_n6 mulrec Hm a0 a1 a2 a3 b0 b1 b2 b3) as S6.
  fold p in E4, E6, S4, S6.
  assert (H4 : 0 <= pt4_r4 p < 4 * (Bpow k * Bpow k)).
  { rewrite E4.
    assert (X : 0 <= Z.abs (a0 - a1 + a2 - a3) < 2 * Bpow k) by lia.
    assert (Y : 0 <= Z.abs (b0 - b1 + b2 - b3) < 2 * Bpow k) by lia.
    pose proof (toom4_mul_lt_scaled _ _ _ _ _ X Y) as Q. lia. }
  assert (H6 : 0 <= pt4_r6 p < 100 * (Bpow k * Bpow k)).
  { rewrite E6.
    assert (X : 0 <= Z.abs (8 * a0 - 4 * a1 + 2 * a2 - a3) < 10 * Bpow k) by lia.
    assert (Y : 0 <= Z.abs (8 * b0 - 4 * b1 + 2 * b2 - b3) < 10 * Bpow k) by lia.
    pose proof (toom4_mul_lt_scaled _ _ _ _ _ X Y) as Q. lia. }
  assert (G4 : Z.abs (toom4_r4_signed p) < 4 * (Bpow k * Bpow k)).
  { unfold toom4_r4_signed.
    destruct S4 as [S | [[S V] | S]]; rewrite S; try rewrite V; lia. }
  assert (G6 : Z.abs (toom4_r6_signed p) < 100 * (Bpow k * Bpow k)).
  { unfold toom4_r6_signed.
    destruct S6 as [S | [[S V] | S]]; rewrite S; try rewrite V; lia. }
  split; [| split; [exact H4 | split; [exact G4 | split; [| split; [exact H6 | split; [exact G6 |]]]]]].
  - (* r3 *)
    clear E4 E6 S4 S6 H4 H6 G4 G6.
    unfold p; toom4_eval_unfold. rewrite Hm.
    assert (X : 0 <= a2 + a0 + (a1 + a3) < 4 * Bpow k) by lia.
    assert (Y : 0 <= b2 + b0 + (b1 + b3) < 4 * Bpow k) by lia.
    pose proof (toom4_mul_lt_scaled _ _ _ _ _ X Y) as Q. lia.
  - (* r5 *)
    clear E4 E6 S4 S6 H4 H6 G4 G6.
    unfold p; toom4_eval_unfold. rewrite Hm.
    unfold toom4_evalh_even, toom4_evalh_odd; cbv zeta.
    assert (X : 0 <= 2 * a2 + 8 * a0 + (a3 + 4 * a1) < 15 * Bpow k) by lia.
    assert (Y : 0 <= 2 * b2 + 8 * b0 + (b3 + 4 * b1) < 15 * Bpow k) by lia.
    pose proof (toom4_mul_lt_scaled _ _ _ _ _ X Y) as Q. lia.
  - (* r2, r7, r1 *)
    clear E4 E6 S4 S6 H4 H6 G4 G6.
    unfold p; toom4_eval_unfold. rewrite !Hm. unfold toom4_eval2; cbv zeta.
    assert (X : 0 <= a0 + 2 * a1 + 4 * a2 + 8 * a3 < 15 * Bpow k) by lia.
    assert (Y : 0 <= b0 + 2 * b1 + 4 * b2 + 8 * b3 < 15 * Bpow k) by lia.
    pose proof (toom4_mul_lt_scaled _ _ _ _ _ X Y) as Q.
    pose proof (toom4_mul_lt_sq _ _ _ Ha0 Hb0) as Q0.
    pose proof (toom4_mul_lt_sq _ _ _ Ha3 Hb3) as Q3.
    repeat split; lia.
Qed.

(* Sizes of the coefficients of the product polynomial. *)
Lemma toom4_coeff_bounds :
  forall k r a0 a1 a2 a3 b0 b1 b2 b3,
    0 <= r <= k ->
    0 <= a0 < Bpow k -> 0 <= a1 < Bpow k -> 0 <= a2 < Bpow k -> 0 <= a3 < Bpow r ->
    0 <= b0 < Bpow k -> 0 <= b1 < Bpow k -> 0 <= b2 < Bpow k -> 0 <= b3 < Bpow r ->
    let T := Bpow (2 * k) in
    0 <= toom4_c0 a0 a1 a2 a3 b0 b1 b2 b3 < T /\
    0 <= toom4_c1 a0 a1 a2 a3 b0 b1 b2 b3 < 2 * T /\
    0 <= toom4_c2 a0 a1 a2 a3 b0 b1 b2 b3 < 3 * T /\
    0 <= toom4_c3 a0 a1 a2 a3 b0 b1 b2 b3 < 4 * T /\
    0 <= toom4_c4 a0 a1 a2 a3 b0 b1 b2 b3 < 3 * T /\
    0 <= toom4_c5 a0 a1 a2 a3 b0 b1 b2 b3 < 2 * T /\
    0 <= toom4_c6 a0 a1 a2 a3 b0 b1 b2 b3 < T.
Proof.
  intros k r a0 a1 a2 a3 b0 b1 b2 b3 Hr Ha0 Ha1 Ha2 Ha3 Hb0 Hb1 Hb2 Hb3 T.
  assert (Hk : 0 <= k) by lia.
  assert (Hle : Bpow r <= Bpow k) by (apply Bpow_le; lia).
  unfold T. rewrite (Bpow_double k Hk).
  set (t := Bpow k) in *.
  assert (Ha3' : 0 <= a3 < t) by lia.
  assert (Hb3' : 0 <= b3 < t) by lia.
  pose proof (toom4_mul_lt_sq t a0 b0 Ha0 Hb0).
  pose proof (toom4_mul_lt_sq t a0 b1 Ha0 Hb1).
  pose proof (toom4_mul_lt_sq t a0 b2 Ha0 Hb2).
  pose proof (toom4_mul_lt_sq t a0 b3 Ha0 Hb3').
  pose proof (toom4_mul_lt_sq t a1 b0 Ha1 Hb0).
  pose proof (toom4_mul_lt_sq t a1 b1 Ha1 Hb1).
  pose proof (toom4_mul_lt_sq t a1 b2 Ha1 Hb2).
  pose proof (toom4_mul_lt_sq t a1 b3 Ha1 Hb3').
  pose proof (toom4_mul_lt_sq t a2 b0 Ha2 Hb0).
  pose proof (toom4_mul_lt_sq t a2 b1 Ha2 Hb1).
  pose proof (toom4_mul_lt_sq t a2 b2 Ha2 Hb2).
  pose proof (toom4_mul_lt_sq t a2 b3 Ha2 Hb3').
  pose proof (toom4_mul_lt_sq t a3 b0 Ha3' Hb0).
  pose proof (toom4_mul_lt_sq t a3 b1 Ha3' Hb1).
  pose proof (toom4_mul_lt_sq t a3 b2 Ha3' Hb2).
  pose proof (toom4_mul_lt_sq t a3 b3 Ha3' Hb3').
  toom4_c_unfold.
  set (p00 := a0 * b0) in *.
  set (p01 := a0 * b1) in *.
  set (p02 := a0 * b2) in *.
  set (p03 := a0 * b3) in *.
  set (p10 := a1 * b0) in *.
  set (p11 := a1 * b1) in *.
  set (p12 := a1 * b2) in *.
  set (p13 := a1 * b3) in *.
  set (p20 := a2 * b0) in *.
  set (p21 := a2 * b1) in *.
  set (p22 := a2 * b2) in *.
  set (p23 := a2 * b3) in *.
  set (p30 := a3 * b0) in *.
  set (p31 := a3 * b1) in *.
  set (p32 := a3 * b2) in *.
  set (p33 := a3 * b3) in *.
  set (T2 := t * t) in *.
  clearbody p00 p01 p02 p03 p10 p11 p12 p13 p20 p21 p22 p23 p30 p31 p32 p33 T2.
  repeat split; lia.
Qed.

(* Every value written into r2 .. r6 during the interpolation fits the s4 = 2sn+1 limbs of
   its area as a two's complement number: with H = B^(2k+1) / 2 all 27 are in [-H, H)
   (so no mpn_add_n / mpn_sub_n / mpn_submul_1 / mpn_addmul_1 there loses anything but
   the carry of the two's complement wrap).  All of them except number 9 (r2 after
   r2 -= 65 r3) and number 16 (r6 after r6 -= r2) are moreover >= 0, in particular the
   operands and results of mpn_rshift, mpn_divexact_by3, mpn_divexact_byfobm1 (numbers
   13, 14, 15, 17 .. 20, 23, 24, 25) and the values tc4_copy / TC4_NORM take as unsigned
   at the end (15, 21, 22, 25, 26). *)
Theorem toom4_interpolate_trace_range :
  forall mulrec k r a0 a1 a2 a3 b0 b1 b2 b3,
    (forall x y, mulrec x y = x * y) ->
    0 <= r <= k ->
    0 <= a0 < Bpow k -> 0 <= a1 < Bpow k -> 0 <= a2 < Bpow k -> 0 <= a3 < Bpow r ->
    0 <= b0 < Bpow k -> 0 <= b1 < Bpow k -> 0 <= b2 < Bpow k -> 0 <= b3 < Bpow r ->
    let tr := toom4_interpolate_trace (toom4_eval mulrec a0 a1 a2 a3 b0 b1 b2 b3) in
    let H := 2 ^ 63 * Bpow (2 * k) in
    2 * H = Bpow (2 * k + 1) /\
    length tr = 27%nat /\
    Forall (fun v => - H <= v < H) tr /\
    (forall i, i <> 9%nat -> i <> 16%nat -> 0 <= nth i tr 0).
Proof.
  intros mulrec k r a0 a1 a2 a3 b0 b1 b2 b3 Hm Hr Ha0 Ha1 Ha2 Ha3 Hb0 Hb1 Hb2 Hb3 tr H.
  pose proof (toom4_coeff_bounds k r a0 a1 a2 a3 b0 b1 b2 b3 Hr
                Ha0 Ha1 Ha2 Ha3 Hb0 Hb1 Hb2 Hb3) as HC.
  cbv zeta in HC. destruct HC as [C0 [C1 [C2 [C3 [C4 [C5 C6]]]]]].
  assert (HT : 0 < Bpow (2 * k)) by (apply Bpow_pos; lia).
  assert (HH : 2 * H = Bpow (2 * k + 1)).
  { unfold H. rewrite (Bpow_add (2 * k) 1) by lia.
    change (Bpow 1) with 18446744073709551616.
    change (2 ^ 63) with 9223372036854775808. ring. }
  unfold tr. rewrite (toom4_interpolate_trace_eq mulrec Hm).
  unfold H. change (2 ^ 63) with 9223372036854775808.
  set (T := Bpow (2 * k)) in *.
  set (c0 := toom4_c0 a0 a1 a2 a3 b0 b1 b2 b3) in *.
  set (c1 := toom4_c1 a0 a1 a2 a3 b0 b1 b2 b3) in *.
  set (c2 := toom4_c2 a0 a1 a2 a3 b0 b1 b2 b3) in *.
  set (c3 := toom4_c3 a0 a1 a2 a3 b0 b1 b2 b3) in *.
  set (c4 := toom4_c4 a0 a1 a2 a3 b0 b1 b2 b3) in *.
  set (c5 := toom4_c5 a0 a1 a2 a3 b0 b1 b2 b3) in *.
  set (c6 := toom4_c6 a0 a1 a2 a3 b0 b1 b2 b3) in *.
  split; [exact HH |]. split; [reflexivity |]. split.
  - repeat (apply Forall_cons; [lia |]). apply Forall_nil.
  - intros i N9 N16.
    do 27 (destruct i as [| i]; [cbn [nth]; lia |]).
    destruct i; cbn [nth]; lia.
Qed.

(* ---- the whole multiplication ------------------------------------------------------------ *)

Lemma toom4_recompose_eq : forall k a0 a1 a2 a3 b0 b1 b2 b3, 0 <= k ->
  toom4_recompose k
    (mk_toom4_coeffs (toom4_c0 a0 a1 a2 a3 b0 b1 b2 b3) (toom4_c1 a0 a1 a2 a3 b0 b1 b2 b3)
                     (toom4_c2 a0 a1 a2 a3 b0 b1 b2 b3) (toom4_c3 a0 a1 a2 a3 b0 b1 b2 b3)
                     (toom4_c4 a0 a1 a2 a3 b0 b1 b2 b3) (toom4_c5 a0 a1 a2 a3 b0 b1 b2 b3)
                     (toom4_c6 a0 a1 a2 a3 b0 b1 b2 b3))
  = (a0 + a1 * Bpow k + a2 * Bpow (2 * k) + a3 * Bpow (3 * k))
    * (b0 + b1 * Bpow k + b2 * Bpow (2 * k) + b3 * Bpow (3 * k)).
Proof.
  intros k a0 a1 a2 a3 b0 b1 b2 b3 Hk.
  unfold toom4_recompose;
    cbv beta iota zeta delta [co4_0 co4_1 co4_2 co4_3 co4_4 co4_5 co4_6].
  rewrite (Bpow_triple k Hk), (Bpow_double k Hk).
  toom4_c_unfold. ring.
Qed.

(* On already split operands; no range condition on the parts is needed for the value. *)
Theorem toom4_mul_parts_correct :
  forall mulrec k a0 a1 a2 a3 b0 b1 b2 b3,
    (forall x y, mulrec x y = x * y) -> 0 <= k ->
    toom4_mul_parts mulrec k a0 a1 a2 a3 b0 b1 b2 b3
    = (a0 + a1 * Bpow k + a2 * Bpow (2 * k) + a3 * Bpow (3 * k))
      * (b0 + b1 * Bpow k + b2 * Bpow (2 * k) + b3 * Bpow (3 * k)).
Proof.
  intros mulrec k a0 a1 a2 a3 b0 b1 b2 b3 Hm Hk.
  unfold toom4_mul_parts.
  rewrite (toom4_interpolate_eq mulrec Hm).
  apply toom4_recompose_eq; exact Hk.
Qed.

Theorem toom4_mul_correct :
  forall mulrec k a b,
    (forall x y, mulrec x y = x * y) -> 0 < k -> 0 <= a -> 0 <= b ->
    toom4_mul mulrec k a b = a * b.
Proof.
  intros mulrec k a b Hm Hk Ha Hb.
  unfold toom4_mul.
  rewrite (toom4_mul_parts_correct mulrec k _ _ _ _ _ _ _ _ Hm) by lia.
  rewrite <- (toom4_split_eq k a) by lia.
  rewrite <- (toom4_split_eq k b) by lia.
  reflexivity.
Qed.

(* The same with the size bookkeeping of mpn_toom4_mul_n spelled out: operands of
   n = 3k + r limbs, 0 <= r <= k (k = sn, r = h1; h1 = 0 happens, e.g. n = 9); the parts
   have the sizes the code reads, the seven products fit their areas, and the result is
   the product, which fits the 2n limbs of {rp, 2n}. *)
Theorem toom4_mul_n_correct :
  forall mulrec k r a b,
    (forall x y, mulrec x y = x * y) ->
    0 < k -> 0 <= r <= k ->
    0 <= a < Bpow (3 * k + r) -> 0 <= b < Bpow (3 * k + r) ->
    let p := toom4_eval mulrec
               (toom4_part0 k a) (toom4_part1 k a) (toom4_part2 k a) (toom4_part3 k a)
               (toom4_part0 k b) (toom4_part1 k b) (toom4_part2 k b) (toom4_part3 k b) in
    toom4_mul mulrec k a b = a * b /\
    0 <= toom4_mul mulrec k a b < Bpow (2 * (3 * k + r)) /\
    pt4_r2 p < Bpow (2 * k + 1) /\ pt4_r3 p < Bpow (2 * k + 1) /\
    pt4_r4 p < Bpow (2 * k + 1) /\ pt4_r5 p < Bpow (2 * k + 1) /\
    pt4_r6 p < Bpow (2 * k + 1) /\ pt4_r7 p < Bpow (2 * k) /\ pt4_r1 p < Bpow (2 * r).
Proof.
  intros mulrec k r a b Hm Hk0 Hr Ha Hb p.
  assert (Hk : 0 <= k) by lia.
  destruct (toom4_split_bounds k a Hk (proj1 Ha)) as [A0 [A1 [A2 _]]].
  destruct (toom4_split_bounds k b Hk (proj1 Hb)) as [B0 [B1 [B2 _]]].
  assert (A3 : 0 <= toom4_part3 k a < Bpow r) by (apply toom4_part3_bound; lia).
  assert (B3 : 0 <= toom4_part3 k b < Bpow r) by (apply toom4_part3_bound; lia).
  pose proof (toom4_bounds mulrec k r _ _ _ _ _ _ _ _ Hm Hr A0 A1 A2 A3 B0 B1 B2 B3) as Hbd.
  cbv zeta in Hbd. fold p in Hbd.
  destruct Hbd as [HT [[_ R3] [[_ R4] [_ [[_ R5] [[_ R6] [_ [[_ R2] [[_ R7] [_ R1]]]]]]]]]].
  assert (0 < Bpow (2 * k)) by (apply Bpow_pos; lia).
  assert (E : toom4_mul mulrec k a b = a * b)
    by (apply toom4_mul_correct; [exact Hm | lia | lia | lia]).
  split; [exact E |]. split; [| repeat split; lia].
  rewrite E. rewrite (Bpow_double (3 * k + r)) by lia.
  split; [apply Z.mul_nonneg_nonneg; lia | apply Z.mul_lt_mono_nonneg; lia].
Qed.

(* ---- concrete runs ------------------------------------------------------------------------- *)

(* k = 2: two 8-limb operands, all four chunks non-trivial.  For a: a0 - a1 + a2 - a3 < 0
   and 8 a0 - 4 a1 + 2 a2 - a3 < 0; for b both are > 0; so n4 < 0 and n6 < 0 and the
   mpn_add_n branches of the interpolation are taken. *)
Example toom4_example :
  let a := 0x0123456789abcdef_fedcba9876543210_0000000000000000_0000000000000001_ffffffffffffffff_fffffffffffffffe_0000000000000001_8000000000000000 in
  let b := 0x0000000000000000_0000000000000005_ffffffffffffffff_ffffffffffffffff_0000000000000000_0000000000000003_deadbeefcafebabe_0123456789abcdef in
  let p := toom4_eval Z.mul
             (toom4_part0 2 a) (toom4_part1 2 a) (toom4_part2 2 a) (toom4_part3 2 a)
             (toom4_part0 2 b) (toom4_part1 2 b) (toom4_part2 2 b) (toom4_part3 2 b) in
  toom4_mul Z.mul 2 a b = a * b /\ pt4_n4 p = -1 /\ pt4_n6 p = -1.
Proof. vm_compute. repeat split; reflexivity. Qed.

(* k = 1, four 1-limb chunks; n4 = +1 (a(-1) < 0 and b(-1) < 0), n6 = -1 (a(-1/2) < 0 but
   b(-1/2) > 0): one mpn_sub_n branch and one mpn_add_n branch. *)
Example toom4_example_k1 :
  let a := 5 + (2 ^ 64 - 1) * 2 ^ 64 + 7 * 2 ^ 128 + 9 * 2 ^ 192 in
  let b := (2 ^ 64 - 3) + (2 ^ 64 - 2) * 2 ^ 64 + 11 * 2 ^ 128 + (2 ^ 64 - 1) * 2 ^ 192 in
  let p := toom4_eval Z.mul
             (toom4_part0 1 a) (toom4_part1 1 a) (toom4_part2 1 a) (toom4_part3 1 a)
             (toom4_part0 1 b) (toom4_part1 1 b) (toom4_part2 1 b) (toom4_part3 1 b) in
  toom4_mul Z.mul 1 a b = a * b /\ pt4_n4 p = 1 /\ pt4_n6 p = -1.
Proof. vm_compute. repeat split; reflexivity. Qed.

(* A zero product at -1 (a0 - a1 + a2 - a3 = 0): the size field n4 is 0, the mpn_sub_n
   branch is taken with a zero magnitude. *)
Example toom4_example_zero_point :
  let a := 3 + 4 * 2 ^ 64 + 2 * 2 ^ 128 + 1 * 2 ^ 192 in
  let b := 1 + 9 * 2 ^ 64 + 2 * 2 ^ 128 + 7 * 2 ^ 192 in
  let p := toom4_eval Z.mul
             (toom4_part0 1 a) (toom4_part1 1 a) (toom4_part2 1 a) (toom4_part3 1 a)
             (toom4_part0 1 b) (toom4_part1 1 b) (toom4_part2 1 b) (toom4_part3 1 b) in
  toom4_mul Z.mul 1 a b = a * b /\ pt4_n4 p = 0 /\ pt4_r4 p = 0.
Proof. vm_compute. repeat split; reflexivity. Qed.
