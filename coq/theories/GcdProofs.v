(* GcdProofs.v — C07: the binary gcd of mpn_gcd_1, extended Euclid and the mpz_gcdext cofactors,
   lcm, modular inverse and the Kronecker symbol.  Fuel adequacy is shown through the product
   of the two operands, which at least halves at every step of each of the three loops. *)
From Coq Require Import ZArith Znumtheory List Lia Bool.
From Mpir Require Import Word DivDefs GcdDefs.
Import ListNotations.
Local Open Scope Z_scope.

(* ------------------------------------------------------------------ *)
(* trailing zeros and odd parts                                         *)

Lemma gcd_ctz_pos_nonneg p : 0 <= ctz_pos p.
Proof. induction p as [p IH|p IH|]; cbn [ctz_pos]; lia. Qed.

Lemma gcd_ctz_pos_spec p : exists q, Zpos p = 2 ^ ctz_pos p * q /\ Z.odd q = true /\ 0 < q.
Proof.
  induction p as [p IH|p IH|]; cbn [ctz_pos].
  - exists (Zpos p~1). split; [rewrite Z.pow_0_r; lia|]. split; [reflexivity|lia].
  - destruct IH as (q & Eq & Oq & Pq). exists q. split; [|split; assumption].
    pose proof (gcd_ctz_pos_nonneg p) as Hnn.
    rewrite Z.pow_add_r by lia. rewrite Z.pow_1_r.
    change (Zpos p~0) with (2 * Zpos p). rewrite Eq. ring.
  - exists 1. split; [reflexivity|]. split; [reflexivity|lia].
Qed.

Lemma ctz_nonneg x : 0 <= ctz x.
Proof. destruct x as [|p|p]; cbn [ctz]; try lia. apply gcd_ctz_pos_nonneg. Qed.

Lemma ctz_of_odd x : Z.odd x = true -> ctz x = 0.
Proof.
  intros Ox. destruct x as [|p|p]; cbn [ctz]; try reflexivity.
  destruct p as [p|p|]; cbn [ctz_pos]; try reflexivity. discriminate Ox.
Qed.

Lemma strip2_spec x : 0 < x ->
  0 < strip2 x /\ Z.odd (strip2 x) = true /\ x = 2 ^ ctz x * strip2 x /\ strip2 x <= x.
Proof.
  intros Hx. destruct x as [|p|p]; try lia.
  destruct (gcd_ctz_pos_spec p) as (q & Eq & Oq & Pq).
  pose proof (gcd_ctz_pos_nonneg p) as Hnn.
  assert (Hpw : 0 < 2 ^ ctz_pos p) by (apply Z.pow_pos_nonneg; lia).
  assert (Es : strip2 (Zpos p) = q).
  { unfold strip2. cbn [ctz]. rewrite Eq at 1. rewrite Z.mul_comm. apply Z.div_mul. lia. }
  rewrite Es. cbn [ctz]. split; [exact Pq|]. split; [exact Oq|]. split; [exact Eq|].
  rewrite Eq. nia.
Qed.

(* ------------------------------------------------------------------ *)
(* gcd helpers                                                          *)

Lemma gcd_mul_coprime_l m a c : Z.gcd m c = 1 -> Z.gcd (m * a) c = Z.gcd a c.
Proof.
  intros Hmc.
  apply Z.divide_antisym_nonneg; try apply Z.gcd_nonneg.
  - apply Z.gcd_greatest; [|apply Z.gcd_divide_r].
    apply Z.gauss with (m := m); [apply Z.gcd_divide_l|].
    apply Z.divide_1_r_nonneg; [apply Z.gcd_nonneg|].
    rewrite <- Hmc. apply Z.gcd_greatest; [apply Z.gcd_divide_r|].
    apply Z.divide_trans with (m := Z.gcd (m * a) c); [apply Z.gcd_divide_l|apply Z.gcd_divide_r].
  - apply Z.gcd_greatest; [|apply Z.gcd_divide_r].
    apply Z.divide_trans with (m := a); [apply Z.gcd_divide_l|].
    exists m. reflexivity.
Qed.

Lemma gcd_2_odd q : Z.odd q = true -> Z.gcd 2 q = 1.
Proof.
  intros Oq.
  pose proof (Z.gcd_nonneg 2 q) as Hnn.
  destruct (Z.gcd_divide_l 2 q) as (x & Ex).
  destruct (Z.gcd_divide_r 2 q) as (y & Ey).
  set (d := Z.gcd 2 q) in *.
  assert (Hle : d <= 2) by (apply Z.divide_pos_le; [lia|exists x; exact Ex]).
  assert (Hd0 : d <> 0) by (intros E0; rewrite E0 in Ex; lia).
  assert (Hd : d = 1 \/ d = 2) by lia.
  destruct Hd as [Hd|Hd]; [exact Hd|].
  exfalso. rewrite Ey, Hd, Z.odd_mul in Oq. cbn in Oq. rewrite andb_false_r in Oq. discriminate Oq.
Qed.

Lemma gcd_pow2_odd k q : 0 <= k -> Z.odd q = true -> Z.gcd (2 ^ k) q = 1.
Proof.
  intros Hk Oq. revert k Hk. apply natlike_ind.
  - rewrite Z.pow_0_r. apply Z.gcd_1_l.
  - intros k Hk IH. rewrite Z.pow_succ_r by exact Hk.
    rewrite gcd_mul_coprime_l; [exact IH|apply gcd_2_odd; exact Oq].
Qed.

(* removing a power of two does not change the gcd with an odd number *)
Lemma gcd_strip_pow2 k a q : 0 <= k -> Z.odd q = true -> Z.gcd (2 ^ k * a) q = Z.gcd a q.
Proof. intros Hk Oq. apply gcd_mul_coprime_l. apply gcd_pow2_odd; assumption. Qed.

Lemma gcd_strip2 x q : 0 < x -> Z.odd q = true -> Z.gcd (strip2 x) q = Z.gcd x q.
Proof.
  intros Hx Oq. destruct (strip2_spec x Hx) as (_ & _ & Ex & _).
  rewrite Ex at 2. symmetry. apply gcd_strip_pow2; [apply ctz_nonneg|exact Oq].
Qed.

(* x, y <= M gives x y < 2^(2 log2 M + 2) *)
Lemma mul_lt_pow2_log2 x y M : 0 <= x <= M -> 0 <= y <= M -> 0 < M ->
  x * y < 2 ^ (2 * Z.log2 M + 2).
Proof.
  intros Hx Hy HM.
  pose proof (Z.log2_spec M HM) as [_ Hlt].
  pose proof (Z.log2_nonneg M) as Hl.
  replace (2 * Z.log2 M + 2) with (Z.succ (Z.log2 M) + Z.succ (Z.log2 M)) by lia.
  rewrite Z.pow_add_r by lia.
  set (P := 2 ^ Z.succ (Z.log2 M)) in *. nia.
Qed.

(* ------------------------------------------------------------------ *)
(* mpn_gcd_1                                                            *)

Lemma bin_gcd_odd_spec : forall fuel u v,
  0 < u -> 0 < v -> Z.odd u = true -> Z.odd v = true ->
  u * v < 2 ^ (Z.of_nat fuel + 1) ->
  bin_gcd_odd fuel u v = Z.gcd u v.
Proof.
  induction fuel as [|f IH]; intros u v Hu Hv Ou Ov Hb; cbn [bin_gcd_odd].
  - change (2 ^ (Z.of_nat 0 + 1)) with 2 in Hb.
    assert (Eu : u = 1) by nia. assert (Ev : v = 1) by nia. subst u v. reflexivity.
  - destruct (Z.eqb_spec u v) as [E|NE].
    + subst v. rewrite Z.gcd_diag. lia.
    + cbv zeta.
      assert (Ht : 0 < Z.abs (u - v)) by lia.
      destruct (strip2_spec _ Ht) as (Ps & Os & Es & Ls).
      pose proof (ctz_nonneg (Z.abs (u - v))) as Hk.
      assert (Hk1 : ctz (Z.abs (u - v)) <> 0).
      { intros E0. rewrite E0, Z.pow_0_r, Z.mul_1_l in Es.
        assert (Ot : Z.odd (Z.abs (u - v)) = true) by (rewrite Es; exact Os).
        assert (Of : Z.odd (Z.abs (u - v)) = false).
        { destruct (Z.abs_spec (u - v)) as [[_ Ea]|[_ Ea]]; rewrite Ea.
          - rewrite Z.odd_sub, Ou, Ov. reflexivity.
          - rewrite Z.odd_opp, Z.odd_sub, Ou, Ov. reflexivity. }
        rewrite Ot in Of. discriminate Of. }
      assert (H2s : 2 * strip2 (Z.abs (u - v)) <= Z.abs (u - v)).
      { replace (ctz (Z.abs (u - v))) with (Z.succ (ctz (Z.abs (u - v)) - 1)) in Es by lia.
        rewrite Z.pow_succ_r in Es by lia.
        assert (Hp : 0 < 2 ^ (ctz (Z.abs (u - v)) - 1)) by (apply Z.pow_pos_nonneg; lia).
        set (P := 2 ^ (ctz (Z.abs (u - v)) - 1)) in *.
        set (s := strip2 (Z.abs (u - v))) in *. nia. }
      replace (Z.of_nat (S f) + 1) with (Z.succ (Z.of_nat f + 1)) in Hb by lia.
      rewrite Z.pow_succ_r in Hb by lia.
      set (s := strip2 (Z.abs (u - v))) in *.
      assert (Om : Z.odd (Z.min u v) = true)
        by (destruct (Z.min_spec u v) as [[_ Em]|[_ Em]]; rewrite Em; assumption).
      rewrite IH; try assumption; try lia.
      * unfold s. rewrite gcd_strip2 by assumption.
        destruct (Z.min_spec u v) as [[Hlt Em]|[Hle Em]]; rewrite Em.
        -- replace (Z.abs (u - v)) with (v - u) by lia.
           rewrite Z.gcd_comm, Z.gcd_sub_diag_r. reflexivity.
        -- replace (Z.abs (u - v)) with (u - v) by lia.
           rewrite Z.gcd_comm, Z.gcd_sub_diag_r. apply Z.gcd_comm.
      * destruct (Z.min_spec u v) as [[Hlt Em]|[Hle Em]]; rewrite Em.
        -- assert (Ea : Z.abs (u - v) = v - u) by lia. rewrite Ea in H2s. nia.
        -- assert (Ea : Z.abs (u - v) = u - v) by lia. rewrite Ea in H2s. nia.
Qed.

Lemma gcd_common_twos u v : 0 < u -> 0 < v ->
  Z.gcd u v = Z.gcd (strip2 u) (strip2 v) * 2 ^ Z.min (ctz u) (ctz v).
Proof.
  intros Hu Hv.
  destruct (strip2_spec u Hu) as (Pu & Ou & Eu & _).
  destruct (strip2_spec v Hv) as (Pv & Ov & Ev & _).
  pose proof (ctz_nonneg u) as Hcu. pose proof (ctz_nonneg v) as Hcv.
  set (uo := strip2 u) in *. set (vo := strip2 v) in *.
  set (cu := ctz u) in *. set (cv := ctz v) in *.
  rewrite Eu at 1. rewrite Ev at 1.
  destruct (Z.min_spec cu cv) as [[Hlt Em]|[Hle Em]]; rewrite Em.
  - replace cv with (cu + (cv - cu)) at 1 by lia.
    rewrite Z.pow_add_r by lia. rewrite <- Z.mul_assoc.
    rewrite Z.gcd_mul_mono_l_nonneg by (apply Z.pow_nonneg; lia).
    rewrite (Z.gcd_comm uo), gcd_strip_pow2 by (assumption || lia).
    rewrite (Z.gcd_comm vo). ring.
  - replace cu with (cv + (cu - cv)) at 1 by lia.
    rewrite Z.pow_add_r by lia. rewrite <- Z.mul_assoc.
    rewrite Z.gcd_mul_mono_l_nonneg by (apply Z.pow_nonneg; lia).
    rewrite gcd_strip_pow2 by (assumption || lia). ring.
Qed.

Lemma gcd_1_spec : forall u v, 0 < u -> 0 < v -> gcd_1 u v = Z.gcd u v.
Proof.
  intros u v Hu Hv. unfold gcd_1. cbv zeta.
  rewrite (gcd_common_twos u v Hu Hv).
  destruct (strip2_spec v Hv) as (Pv & Ov & _ & Lv).
  set (vo := strip2 v) in *.
  set (ur := if vo <? u then u mod vo else u).
  assert (Hur : 0 <= ur <= u).
  { unfold ur. destruct (Z.ltb_spec vo u) as [Hlt|Hge]; [|lia].
    pose proof (Z.mod_pos_bound u vo Pv). lia. }
  assert (Gur : Z.gcd ur vo = Z.gcd (strip2 u) vo).
  { rewrite (gcd_strip2 u vo Hu Ov). unfold ur.
    destruct (Z.ltb_spec vo u) as [Hlt|Hge]; [|reflexivity].
    rewrite Z.gcd_mod by lia. apply Z.gcd_comm. }
  destruct (Z.eqb_spec ur 0) as [E0|N0].
  - rewrite <- Gur, E0, Z.gcd_0_l. f_equal. lia.
  - assert (Pur : 0 < ur) by lia.
    destruct (strip2_spec ur Pur) as (Ps & Os & _ & Ls).
    rewrite bin_gcd_odd_spec; try assumption.
    + rewrite (gcd_strip2 ur vo Pur Ov), Gur. reflexivity.
    + pose proof (Z.log2_nonneg (Z.max u v)) as Hl.
      replace (Z.of_nat (Z.to_nat (Z.log2 (Z.max u v)) * 2 + 2) + 1)
        with (Z.succ (2 * Z.log2 (Z.max u v) + 2)) by lia.
      rewrite Z.pow_succ_r by lia.
      assert (Hm : strip2 ur * vo < 2 ^ (2 * Z.log2 (Z.max u v) + 2))
        by (apply mul_lt_pow2_log2; lia).
      lia.
Qed.

(* ------------------------------------------------------------------ *)
(* extended Euclid                                                      *)

Lemma egcd_spec : forall fuel a b g s t,
  0 <= b <= a -> a * b < 2 ^ Z.of_nat fuel ->
  egcd fuel a b = (g, s, t) -> g = Z.gcd a b /\ a * s + b * t = g.
Proof.
  induction fuel as [|f IH]; intros a b g s t Hab Hb E; cbn [egcd] in E.
  - change (2 ^ Z.of_nat 0) with 1 in Hb.
    assert (Eb : b = 0) by nia. subst b. inversion E; subst.
    rewrite Z.gcd_0_r. lia.
  - destruct (Z.eqb_spec b 0) as [Eb|Nb].
    + subst b. inversion E; subst. rewrite Z.gcd_0_r. lia.
    + destruct (egcd f b (a mod b)) as [[g' s'] t'] eqn:E'.
      inversion E; subst g t s. clear E.
      assert (Pb : 0 < b) by lia.
      pose proof (Z.mod_pos_bound a b Pb) as Hr.
      pose proof (Z.div_mod a b Nb) as Hdm.
      assert (Hq : 0 < a / b) by (apply Z.div_str_pos; lia).
      set (q := a / b) in *. set (r := a mod b) in *.
      assert (H2r : 2 * r < a) by nia.
      rewrite Nat2Z.inj_succ, Z.pow_succ_r in Hb by lia.
      destruct (IH b r g' s' t') as [Hg Hz]; [lia|nia|exact E'|].
      split.
      * rewrite Hg. unfold r. rewrite Z.gcd_comm, Z.gcd_mod by exact Nb. apply Z.gcd_comm.
      * rewrite <- Hz. rewrite Hdm at 1. ring.
Qed.

Lemma egcd_top a b g s t : 0 < a -> 0 < b ->
  egcd (egcd_fuel a b) a b = (g, s, t) -> g = Z.gcd a b /\ a * s + b * t = g.
Proof.
  intros Ha Hb E. unfold egcd_fuel in E.
  pose proof (Z.log2_nonneg (Z.max a b)) as Hl.
  assert (Hm : a * b < 2 ^ (2 * Z.log2 (Z.max a b) + 2)) by (apply mul_lt_pow2_log2; lia).
  set (L := Z.log2 (Z.max a b)) in *.
  assert (Hp : 2 ^ (2 * L + 2) <= 2 ^ (2 * L + 3)) by (apply Z.pow_le_mono_r; lia).
  destruct (Z_le_gt_dec b a) as [Hle|Hgt].
  - apply (egcd_spec (Z.to_nat (2 * L + 4)) a b g s t); [lia| |exact E].
    rewrite Z2Nat.id by lia.
    assert (Hp4 : 2 ^ (2 * L + 3) <= 2 ^ (2 * L + 4)) by (apply Z.pow_le_mono_r; lia). lia.
  - replace (Z.to_nat (2 * L + 4)) with (S (Z.to_nat (2 * L + 3))) in E by lia.
    cbn [egcd] in E.
    destruct (Z.eqb_spec b 0) as [Eb|Nb]; [lia|].
    rewrite (Z.mod_small a b), (Z.div_small a b) in E by lia.
    destruct (egcd (Z.to_nat (2 * L + 3)) b a) as [[g' s'] t'] eqn:E'.
    inversion E; subst g s t. clear E.
    destruct (egcd_spec (Z.to_nat (2 * L + 3)) b a g' s' t') as [Hg Hz]; [lia| |exact E'|].
    + rewrite Z2Nat.id by lia. lia.
    + split; [rewrite Hg; apply Z.gcd_comm|lia].
Qed.

(* ------------------------------------------------------------------ *)
(* mpz_gcdext                                                           *)

Lemma sgn_mul_cases a x : a <> 0 -> Z.sgn a * x = x \/ Z.sgn a * x = - x.
Proof. intros Ha. destruct a as [|p|p]; [contradiction|left|right]; cbn [Z.sgn]; lia. Qed.

Lemma gcdext_main a b g s0 t0 : a <> 0 -> b <> 0 ->
  g = Z.gcd (Z.abs a) (Z.abs b) -> Z.abs a * s0 + Z.abs b * t0 = g ->
  let b' := Z.abs b / g in
  let r := s0 mod b' in
  let s' := if 2 * r <=? b' then r else r - b' in
  let s'' := if Z.abs b =? Z.abs a then 0 else s' in
  let s := Z.sgn a * s'' in
  let t := (g - a * s) / b in
  g = Z.gcd a b /\ a * s + b * t = g
  /\ (Z.abs a <> Z.abs b -> 2 * g * Z.abs s <= Z.abs b)
  /\ (Z.abs a = Z.abs b -> s = 0 /\ t = Z.sgn b)
  /\ (s = 0 -> g = Z.abs b).
Proof.
  intros Ha Hb Hg Hz b' r s' s'' s t.
  assert (Gg : g = Z.gcd a b) by (rewrite Hg, Z.gcd_abs_l, Z.gcd_abs_r; reflexivity).
  assert (Pg : 0 < g).
  { pose proof (Z.gcd_nonneg a b) as Hnn.
    assert (Hne : Z.gcd a b <> 0) by (rewrite Z.gcd_eq_0; tauto). lia. }
  destruct (Z.gcd_divide_l (Z.abs a) (Z.abs b)) as (a1 & Ea). rewrite <- Hg in Ea.
  destruct (Z.gcd_divide_r (Z.abs a) (Z.abs b)) as (b1 & Eb). rewrite <- Hg in Eb.
  assert (Eb' : b' = b1) by (unfold b'; rewrite Eb; apply Z.div_mul; lia).
  assert (Pb1 : 0 < b1) by nia.
  assert (Pa1 : 0 < a1) by nia.
  assert (Hr : 0 <= r < b') by (apply Z.mod_pos_bound; lia).
  assert (Hs0 : s0 = b' * (s0 / b') + r) by (apply Z.div_mod; lia).
  assert (Eas : a * s = Z.abs a * s'').
  { unfold s. rewrite Z.mul_assoc, Z.sgn_abs. reflexivity. }
  assert (Hsc : s = s'' \/ s = - s'') by (apply sgn_mul_cases; exact Ha).
  assert (Ebs : Z.abs b = b * Z.sgn b) by (symmetry; apply Z.sgn_abs).
  (* the quotient defining t is exact *)
  assert (Hex : exists m, g - a * s = b * m /\ (Z.abs a = Z.abs b -> m = Z.sgn b)).
  { rewrite Eas. unfold s''. destruct (Z.eqb_spec (Z.abs b) (Z.abs a)) as [Eab|Nab].
    - exists (Z.sgn b). split; [|reflexivity].
      rewrite Hg, Eab, Z.gcd_diag, Z.abs_involutive, <- Eab, Ebs. ring.
    - assert (Hs' : exists e, s' = s0 - b' * e).
      { unfold s'. destruct (Z.leb_spec (2 * r) b') as [H1|H1].
        - exists (s0 / b'). lia.
        - exists (s0 / b' + 1). lia. }
      destruct Hs' as (e & He). exists (Z.sgn b * (t0 + a1 * e)). split; [|intros HH; lia].
      rewrite Z.mul_assoc, <- Ebs, He, Eb', Ea, Eb.
      rewrite Ea, Eb in Hz. lia. }
  destruct Hex as (m & Em & Emsgn).
  assert (Et : t = m) by (unfold t; rewrite Em, Z.mul_comm; apply Z.div_mul; exact Hb).
  split; [exact Gg|]. split; [rewrite Et; lia|].
  assert (Es''_ne : Z.abs a <> Z.abs b -> s'' = s').
  { intros Hne. unfold s''. destruct (Z.eqb_spec (Z.abs b) (Z.abs a)); [lia|reflexivity]. }
  split; [|split].
  - intros Hne. rewrite (Es''_ne Hne) in Hsc.
    assert (H2 : 2 * Z.abs s' <= b').
    { unfold s'. destruct (Z.leb_spec (2 * r) b'); lia. }
    assert (Habs : Z.abs s = Z.abs s') by lia.
    rewrite Habs, Eb. rewrite Eb' in H2.
    assert (Hmul : g * (2 * Z.abs s') <= g * b1) by (apply Z.mul_le_mono_nonneg_l; lia).
    lia.
  - intros Heq. split; [|rewrite Et; apply Emsgn; exact Heq].
    unfold s, s''. destruct (Z.eqb_spec (Z.abs b) (Z.abs a)); [lia|lia].
  - intros Hs. assert (Hs'' : s'' = 0) by lia.
    destruct (Z.eq_dec (Z.abs a) (Z.abs b)) as [Heq|Hne].
    + rewrite Hg, Heq, Z.gcd_diag. lia.
    + rewrite (Es''_ne Hne) in Hs''. unfold s' in Hs''.
      destruct (Z.leb_spec (2 * r) b') as [H1|H1]; [|lia].
      rewrite Hs'', Z.add_0_r in Hs0.
      rewrite Ea, Eb, Hs0, Eb' in Hz.
      assert (Hone : b1 * (a1 * (s0 / b1) + t0) = 1) by nia.
      apply Z.eq_mul_1_nonneg in Hone; [|lia].
      destruct Hone as [Hb1 _]. rewrite Eb, Hb1. lia.
Qed.

Lemma gcdext_spec : forall a b,
  let '(g, s, t) := gcdext a b in
  g = Z.gcd a b /\ a * s + b * t = g
  /\ (a <> 0 -> b <> 0 -> Z.abs a <> Z.abs b -> 2 * g * Z.abs s <= Z.abs b)
  /\ (b = 0 -> s = Z.sgn a /\ t = 0)
  /\ (a = 0 -> b <> 0 -> s = 0 /\ t = Z.sgn b)
  /\ (a <> 0 -> Z.abs a = Z.abs b -> s = 0 /\ t = Z.sgn b)
  /\ (a <> 0 -> b <> 0 -> s = 0 -> g = Z.abs b).
Proof.
  intros a b. unfold gcdext.
  destruct (Z.eqb_spec b 0) as [Eb|Nb].
  - subst b. rewrite Z.gcd_0_r. pose proof (Z.sgn_abs a) as Hsa.
    repeat split; try lia.
  - destruct (Z.eqb_spec a 0) as [Ea|Na].
    + subst a. pose proof (Z.gcd_0_l b) as Hg0. pose proof (Z.sgn_abs b) as Hsb.
      repeat split; try lia.
    + cbv zeta.
      destruct (egcd (egcd_fuel (Z.abs a) (Z.abs b)) (Z.abs a) (Z.abs b)) as [[g s0] t0] eqn:E.
      apply egcd_top in E; [|lia|lia]. destruct E as [Hg Hz].
      pose proof (gcdext_main a b g s0 t0 Na Nb Hg Hz) as HM. cbv zeta in HM.
      destruct HM as (M1 & M2 & M3 & M4 & M5).
      split; [exact M1|]. split; [exact M2|]. split; [intros _ _; exact M3|].
      split; [intros Hb0; contradiction|]. split; [intros Ha0; contradiction|].
      split; [intros _; exact M4|intros _ _; exact M5].
Qed.

(* ------------------------------------------------------------------ *)
(* lcm and invert                                                       *)

Lemma lcm_spec : forall a b, mpz_lcm a b = Z.lcm a b /\ 0 <= mpz_lcm a b.
Proof.
  intros a b.
  assert (E : mpz_lcm a b = Z.lcm a b).
  { unfold mpz_lcm, Z.lcm.
    destruct (Z.eqb_spec a 0) as [Ea|Na]; cbn [orb].
    - subst a. reflexivity.
    - destruct (Z.eqb_spec b 0) as [Eb|Nb].
      + subst b. rewrite Z.gcd_0_r. cbn [Z.div Z.div_eucl]. rewrite Z.mul_0_r. reflexivity.
      + pose proof (Z.gcd_nonneg a b) as Hnn.
        assert (Hne : Z.gcd a b <> 0) by (rewrite Z.gcd_eq_0; tauto).
        destruct (Z.gcd_divide_r a b) as (q & Eq).
        set (g := Z.gcd a b) in *.
        rewrite Eq at 2. rewrite Z.div_mul by exact Hne.
        rewrite Eq at 1. rewrite Z.mul_assoc, Z.abs_mul, (Z.abs_eq g) by lia.
        apply Z.div_mul. exact Hne. }
  split; [exact E|]. rewrite E. apply Z.lcm_nonneg.
Qed.

Lemma invert_spec : forall x n, 1 < Z.abs n ->
  (mpz_invert x n = None <-> Z.gcd x n <> 1)
  /\ (forall r, mpz_invert x n = Some r -> 0 <= r < Z.abs n /\ (x * r) mod Z.abs n = 1).
Proof.
  intros x n Hn. unfold mpz_invert.
  destruct (Z.eqb_spec x 0) as [Ex|Nx]; cbn [orb].
  { subst x. rewrite Z.gcd_0_l. split; [split; [lia|reflexivity]|intros r Hr; discriminate Hr]. }
  destruct (Z.eqb_spec (Z.abs n) 1) as [E1|_]; [lia|]. cbn [orb].
  destruct (Z.eqb_spec n 0) as [E0|Nn]; [lia|].
  pose proof (gcdext_spec x n) as G.
  destruct (gcdext x n) as [[g s] t].
  destruct G as (Gg & Gz & Gb & _ & _ & Geq & _).
  destruct (Z.eqb_spec g 1) as [Eg|Ng]; cbn [negb].
  - split; [split; [intros HH; discriminate HH|intros HH; lia]|].
    intros r Hr. inversion Hr as [Er]. clear Hr.
    assert (Hne : Z.abs x <> Z.abs n).
    { intros Heq. rewrite <- Z.gcd_abs_l, <- Z.gcd_abs_r, Heq, Z.gcd_diag in Gg. lia. }
    specialize (Gb Nx Nn Hne).
    assert (Hmod : (x * s) mod Z.abs n = 1).
    { replace (x * s) with (1 + (- t * Z.sgn n) * Z.abs n).
      - rewrite Z.mod_add by lia. apply Z.mod_1_l. exact Hn.
      - rewrite <- Z.mul_assoc, (Z.mul_comm (Z.sgn n)), Z.abs_sgn. lia. }
    destruct (Z.ltb_spec s 0) as [Hneg|Hpos].
    + split; [lia|].
      replace (x * (s + Z.abs n)) with (x * s + x * Z.abs n) by ring.
      rewrite Z.mod_add by lia. exact Hmod.
    + split; [lia|exact Hmod].
  - split; [split; [intros _; lia|reflexivity]|intros r Hr; discriminate Hr].
Qed.

(* ------------------------------------------------------------------ *)
(* Kronecker symbol                                                     *)

Lemma two_over_pm n : two_over n = 1 \/ two_over n = -1.
Proof. unfold two_over. cbv zeta. destruct ((n mod 8 =? 1) || (n mod 8 =? 7)); [left|right]; reflexivity. Qed.

Lemma jacobi_loop_range : forall fuel a n sign, sign = 1 \/ sign = -1 ->
  jacobi_loop fuel a n sign = -1 \/ jacobi_loop fuel a n sign = 0 \/ jacobi_loop fuel a n sign = 1.
Proof.
  induction fuel as [|f IH]; intros a n sign Hs; cbn [jacobi_loop]; [lia|]. cbv zeta.
  destruct (a mod n =? 0).
  - destruct (n =? 1); lia.
  - apply IH.
    pose proof (two_over_pm n) as Ht.
    destruct (Z.odd (ctz (a mod n)));
      destruct ((a mod n / 2 ^ ctz (a mod n) mod 4 =? 3) && (n mod 4 =? 3)); lia.
Qed.

Lemma jacobi_loop_zero : forall fuel a n sign,
  0 < n -> Z.odd n = true -> sign = 1 \/ sign = -1 ->
  2 * (n * (a mod n)) < 2 ^ Z.of_nat fuel -> (1 <= fuel)%nat ->
  (jacobi_loop fuel a n sign = 0 <-> Z.gcd a n <> 1).
Proof.
  induction fuel as [|f IH]; intros a n sign Pn On Hs Hb Hf; [lia|].
  cbn [jacobi_loop]. cbv zeta.
  assert (Nn : n <> 0) by lia.
  pose proof (Z.mod_pos_bound a n Pn) as Hr.
  assert (Hg : Z.gcd a n = Z.gcd (a mod n) n) by (rewrite Z.gcd_mod by exact Nn; apply Z.gcd_comm).
  rewrite Hg. set (a1 := a mod n) in *.
  destruct (Z.eqb_spec a1 0) as [E0|N0].
  - rewrite E0, Z.gcd_0_l. destruct (Z.eqb_spec n 1) as [E1|N1]; lia.
  - assert (P1 : 0 < a1) by lia.
    destruct (strip2_spec a1 P1) as (Ps & Os & Es & Ls).
    change (a1 / 2 ^ ctz a1) with (strip2 a1).
    set (a' := strip2 a1) in *.
    rewrite Nat2Z.inj_succ, Z.pow_succ_r in Hb by lia.
    assert (Hna : 1 <= n * a1) by nia.
    assert (Hf1 : (1 <= f)%nat).
    { destruct f as [|f']; [|lia]. change (2 ^ Z.of_nat 0) with 1 in Hb. lia. }
    assert (Pa' : a' <> 0) by lia.
    pose proof (Z.mod_pos_bound n a' Ps) as Hr2.
    pose proof (Z.div_mod n a' Pa') as Hdm.
    assert (Hq : 0 < n / a') by (apply Z.div_str_pos; lia).
    set (q := n / a') in *. set (r2 := n mod a') in *.
    assert (H2r : 2 * r2 < n) by nia.
    assert (Hm1 : a' * (2 * r2) <= a' * n) by (apply Z.mul_le_mono_nonneg_l; lia).
    assert (Hm2 : a' * n <= a1 * n) by (apply Z.mul_le_mono_nonneg_r; lia).
    rewrite IH; try assumption.
    + rewrite Z.gcd_comm. unfold a'. rewrite (gcd_strip2 a1 n P1 On). reflexivity.
    + pose proof (two_over_pm n) as Ht.
      destruct (Z.odd (ctz a1)); destruct ((a' mod 4 =? 3) && (n mod 4 =? 3)); lia.
    + fold r2. lia.
Qed.

Lemma jacobi_zero a n : 0 < n -> Z.odd n = true -> (jacobi a n = 0 <-> Z.gcd a n <> 1).
Proof.
  intros Pn On. unfold jacobi. apply jacobi_loop_zero; try assumption; [left; reflexivity| |].
  - pose proof (Z.log2_nonneg n) as Hl.
    rewrite Z2Nat.id by lia.
    pose proof (Z.mod_pos_bound a n Pn) as Hr.
    assert (Hm : n * (a mod n) < 2 ^ (2 * Z.log2 n + 2)) by (apply mul_lt_pow2_log2; lia).
    replace (2 * Z.log2 n + 4) with (Z.succ (Z.succ (2 * Z.log2 n + 2))) by lia.
    rewrite !Z.pow_succ_r by lia. lia.
  - pose proof (Z.log2_nonneg n) as Hl. lia.
Qed.

Lemma jacobi_periodic a b k : 0 < b -> jacobi (a + k * b) b = jacobi a b.
Proof.
  intros Pb. unfold jacobi.
  pose proof (Z.log2_nonneg b) as Hl.
  replace (Z.to_nat (2 * Z.log2 b + 4)) with (S (Z.to_nat (2 * Z.log2 b + 3))) by lia.
  cbn [jacobi_loop]. rewrite Z.mod_add by lia. reflexivity.
Qed.

Lemma kronecker_odd_pos a b : 0 < b -> Z.odd b = true -> kronecker a b = jacobi a b.
Proof.
  intros Pb Ob. unfold kronecker.
  destruct (Z.eqb_spec b 0) as [E0|_]; [lia|].
  rewrite <- (Z.negb_odd b), Ob. cbn [negb]. rewrite andb_false_r. cbv zeta.
  rewrite (Z.abs_eq b) by lia. rewrite (ctz_of_odd b Ob).
  destruct (Z.ltb_spec b 0) as [Hlt|_]; [lia|]. cbn [andb Z.odd].
  rewrite Z.pow_0_r, Z.div_1_r. lia.
Qed.

Lemma even_even_gcd a b : Z.even a = true -> Z.even b = true -> Z.gcd a b <> 1.
Proof.
  intros Ea Eb HG. apply Z.even_spec in Ea. apply Z.even_spec in Eb.
  destruct Ea as (x & Ex). destruct Eb as (y & Ey).
  assert (Hd : (2 | Z.gcd a b)) by (apply Z.gcd_greatest; [exists x|exists y]; lia).
  rewrite HG in Hd. destruct Hd as (z & Ez). lia.
Qed.

Lemma kronecker_spec : forall a b,
  (kronecker a b = -1 \/ kronecker a b = 0 \/ kronecker a b = 1)
  /\ (kronecker a b = 0 <-> Z.gcd a b <> 1)
  /\ (forall k, 0 < b -> Z.odd b = true -> jacobi (a + k * b) b = jacobi a b)
  /\ (0 < b -> Z.odd b = true -> kronecker a b = jacobi a b).
Proof.
  intros a b.
  assert (Hmain : (kronecker a b = -1 \/ kronecker a b = 0 \/ kronecker a b = 1)
                  /\ (kronecker a b = 0 <-> Z.gcd a b <> 1)).
  { unfold kronecker.
    destruct (Z.eqb_spec b 0) as [E0|N0].
    - subst b. rewrite Z.gcd_0_r. destruct (Z.eqb_spec (Z.abs a) 1); lia.
    - destruct (Z.even a && Z.even b) eqn:Eev.
      + apply andb_prop in Eev. destruct Eev as [Ea Eb].
        pose proof (even_even_gcd a b Ea Eb) as HG. split; [lia|tauto].
      + cbv zeta.
        assert (Pab : 0 < Z.abs b) by lia.
        destruct (strip2_spec _ Pab) as (Ps & Os & Es & _).
        pose proof (ctz_nonneg (Z.abs b)) as Hk.
        change (Z.abs b / 2 ^ ctz (Z.abs b)) with (strip2 (Z.abs b)).
        set (bo := strip2 (Z.abs b)) in *. set (k := ctz (Z.abs b)) in *.
        (* the odd part of b carries the whole gcd *)
        assert (HG : Z.gcd a b = Z.gcd a bo).
        { rewrite <- (Z.gcd_abs_r a b), Es.
          destruct (Z.even a) eqn:Ea; cbn [andb] in Eev.
          - assert (Ob : Z.odd (Z.abs b) = true).
            { destruct (Z.abs_spec b) as [[_ Eab]|[_ Eab]]; rewrite Eab;
                [|rewrite Z.odd_opp]; rewrite <- Z.negb_even, Eev; reflexivity. }
            unfold k. rewrite (ctz_of_odd _ Ob), Z.pow_0_r, Z.mul_1_l. reflexivity.
          - assert (Oa : Z.odd a = true) by (rewrite <- Z.negb_even, Ea; reflexivity).
            rewrite (Z.gcd_comm a), (Z.gcd_comm a). apply gcd_strip_pow2; assumption. }
        rewrite HG.
        pose proof (jacobi_zero a bo Ps Os) as HZ.
        assert (HR : jacobi a bo = -1 \/ jacobi a bo = 0 \/ jacobi a bo = 1)
          by (apply jacobi_loop_range; left; reflexivity).
        pose proof (two_over_pm a) as Ht.
        set (j := jacobi a bo) in *.
        destruct ((b <? 0) && (a <? 0)); destruct (Z.odd k);
          (split; [|rewrite <- HZ]; lia). }
  destruct Hmain as [H1 H2]. split; [exact H1|]. split; [exact H2|]. split.
  - intros k Pb _. apply jacobi_periodic. exact Pb.
  - apply kronecker_odd_pos.
Qed.

Lemma C07_example :
  gcdext 240 46 = (2, -9, 47) /\ mpz_invert 3 (-7) = Some 5 /\ kronecker 2 15 = 1 /\ kronecker (-1) (-1) = -1
  /\ kronecker 5 0 = 0 /\ gcd_1 (3 * 2 ^ 40) (9 * 2 ^ 13) = 3 * 2 ^ 13.
Proof. vm_compute. repeat split; reflexivity. Qed.
