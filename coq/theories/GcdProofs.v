(* GcdProofs.v — C07: the binary gcd of mpn_gcd_1, extended Euclid and the mpz_gcdext cofactors,
   lcm, modular inverse and the Kronecker symbol.  Fuel adequacy is shown through the product
   of the two operands, which at least halves at every step of each of the three loops. *)
From Coq Require Import ZArith Znumtheory List Lia Bool.
From Mpir Require Import Word DivDefs GcdDefs.
Import ListNotations.
Local Open Scope Z_scope.

(* ------------------------------------------------------------------ *)
(* trailing zeros and odd parts                                         *)

Lemma gcd_ctz_pos_nonneg p : 0 <= ctz_pos p.
Proof. induction p as [p IH|p IH|]; cbn [ctz_pos]; lia. Qed.

Lemma gcd_ctz_pos_spec p : exists q, Zpos p = 2 ^ ctz_pos p * q /\ Z.odd q = true /\ 0 < q.
Proof.
  induction p as [p IH|p IH|]; cbn [ctz_pos].
  - exists (Zpos p~1). split; [rewrite Z.pow_0_r; lia|]. split; [reflexivity|lia].
  - destruct IH as (q & Eq & Oq & Pq). exists q. split; [|split; assumption].
    pose proof (gcd_ctz_pos_nonneg p) as Hnn.
    rewrite Z.pow_add_r by lia. rewrite Z.pow_1_r.
    change (Zpos p~0) with (2 * Zpos p). rewrite Eq. ring.
  - exists 1. split; [reflexivity|]. split; [reflexivity|lia].
Qed.

Lemma ctz_nonneg x : 0 <= ctz x.
Proof. destruct x as [|p|p]; cbn [ctz]; try lia. apply gcd_ctz_pos_nonneg. Qed.

Lemma ctz_of_odd x : Z.odd x = true -> ctz x = 0.
Proof.
  intros Ox. destruct x as [|p|p]; cbn [ctz]; try reflexivity.
  destruct p as [p|p|]; cbn [ctz_pos]; try reflexivity. discriminate Ox.
Qed.

Lemma strip2_spec x : 0 < x ->
  0 < strip2 x /\ Z.odd (strip2 x) = true /\ x = 2 ^ ctz x * strip2 x /\ strip2 x <= x.
Proof.
  intros Hx. destruct x as [|p|p]; try lia.
  destruct (gcd_ctz_pos_spec p) as (q & Eq & Oq & Pq).
  pose proof (gcd_ctz_pos_nonneg p) as Hnn.
  assert (Hpw : 0 < 2 ^ ctz_pos p) by (apply Z.pow_pos_nonneg; lia).
  assert (Es : strip2 (Zpos p) = q).
  { unfold strip2. cbn [ctz]. rewrite Eq at 1. rewrite Z.mul_comm. apply Z.div_mul. lia. }
  rewrite Es. cbn [ctz]. split; [exact Pq|]. split; [exact Oq|]. split; [exact Eq|].
  rewrite Eq. nia.
Qed.

(* ------------------------------------------------------------------ *)
(* gcd helpers                                                          *)

Lemma gcd_mul_coprime_l m a c : Z.gcd m c = 1 -> Z.gcd (m * a) c = Z.gcd a c.
Proof.
  intros Hmc.
  apply Z.divide_antisym_nonneg; try apply Z.gcd_nonneg.
  - apply Z.gcd_greatest; [|apply Z.gcd_divide_r].
    apply Z.gauss with (m := m); [apply Z.gcd_divide_l|].
    apply Z.divide_1_r_nonneg; [apply Z.gcd_nonneg|].
    rewrite <- Hmc. apply Z.gcd_greatest; [apply Z.gcd_divide_r|].
    apply Z.divide_trans with (m := Z.gcd (m * a) c); [apply Z.gcd_divide_l|apply Z.gcd_divide_r].
  - apply Z.gcd_greatest; [|apply Z.gcd_divide_r].
    apply Z.divide_trans with (m := a); [apply Z.gcd_divide_l|].
    exists m. reflexivity.
Qed.

Lemma gcd_2_odd q : Z.odd q = true -> Z.gcd 2 q = 1.
Proof.
  intros Oq.
  pose proof (Z.gcd_nonneg 2 q) as Hnn.
  destruct (Z.gcd_divide_l 2 q) as (x & Ex).
  destruct (Z.gcd_divide_r 2 q) as (y & Ey).
  set (d := Z.gcd 2 q) in *.
  assert (Hle : d <= 2) by (apply Z.divide_pos_le; [lia|exists x; exact Ex]).
  assert (Hd0 : d <> 0) by (intros E0; rewrite E0 in Ex; lia).
  assert (Hd : d = 1 \/ d = 2) by lia.
  destruct Hd as [Hd|Hd]; [exact Hd|].
  exfalso. rewrite Ey, Hd, Z.odd_mul in Oq. cbn in Oq. rewrite andb_false_r in Oq. discriminate Oq.
Qed.

Lemma gcd_pow2_odd k q : 0 <= k -> Z.odd q = true -> Z.gcd (2 ^ k) q = 1.
Proof.
  intros Hk Oq. revert k Hk. apply natlike_ind.
  - rewrite Z.pow_0_r. apply Z.gcd_1_l.
  - intros k Hk IH. rewrite Z.pow_succ_r by exact Hk.
    rewrite gcd_mul_coprime_l; [exact IH|apply gcd_2_odd; exact Oq].
Qed.

(* removing a power of two does not change the gcd with an odd number *)
Lemma gcd_strip_pow2 k a q : 0 <= k -> Z.odd q = true -> Z.gcd (2 ^ k * a) q = Z.gcd a q.
Proof. intros Hk Oq. apply gcd_mul_coprime_l. apply gcd_pow2_odd; assumption. Qed.

Lemma gcd_strip2 x q : 0 < x -> Z.odd q = true -> Z.gcd (strip2 x) q = Z.gcd x q.
Proof.
  intros Hx Oq. destruct (strip2_spec x Hx) as (_ & _ & Ex & _).
  rewrite Ex at 2. symmetry. apply gcd_strip_pow2; [apply ctz_nonneg|exact Oq].
Qed.

(* x, y <= M gives x y < 2^(2 log2 M + 2) *)
Lemma mul_lt_pow2_log2 x y M : 0 <= x <= M -> 0 <= y <= M -> 0 < M ->
  x * y < 2 ^ (2 * Z.log2 M + 2).
Proof.
  intros Hx Hy HM.
  pose proof (Z.log2_spec M HM) as [_ Hlt].
  pose proof (Z.log2_nonneg M) as Hl.
  replace (2 * Z.log2 M + 2) with (Z.succ (Z.log2 M) + Z.succ (Z.log2 M)) by lia.
  rewrite Z.pow_add_r by lia.
  set (P := 2 ^ Z.succ (Z.log2 M)) in *. nia.
Qed.

(* ------------------------------------------------------------------ *)
(* mpn_gcd_1                                                            *)

Lemma bin_gcd_odd_spec : forall fuel u v,
  0 < u -> 0 < v -> Z.odd u = true -> Z.odd v = true ->
  u * v < 2 ^ (Z.of_nat fuel + 1) ->
  bin_gcd_odd fuel u v = Z.gcd u v.
Proof.
  induction fuel as [|f IH]; intros u v Hu Hv Ou Ov Hb; cbn [bin_gcd_odd].
  - change (2 ^ (Z.of_nat 0 + 1)) with 2 in Hb.
    assert (Eu : u = 1) by nia. assert (Ev : v = 1) by nia. subst u v. reflexivity.
  - destruct (Z.eqb_spec u v) as [E|NE].
    + subst v. rewrite Z.gcd_diag. lia.
    + cbv zeta.
      assert (Ht : 0 < Z.abs (u - v)) by lia.
      destruct (strip2_spec _ Ht) as (Ps & Os & Es & Ls).
      pose proof (ctz_nonneg (Z.abs (u - v))) as Hk.
      assert (Hk1 : ctz (Z.abs (u - v)) <> 0).
      { intros E0. rewrite E0, Z.pow_0_r, Z.mul_1_l in Es.
        assert (Ot : Z.odd (Z.abs (u - v)) = true) by (rewrite Es; exact Os).
        assert (Of : Z.odd (Z.abs (u - v)) = false).
        { destruct (Z.abs_spec (u - v)) as [[_ Ea]|[_ Ea]]; rewrite Ea.
          - rewrite Z.odd_sub, Ou, Ov. reflexivity.
          - rewrite Z.odd_opp, Z.odd_sub, Ou, Ov. reflexivity. }
        rewrite Ot in Of. discriminate Of. }
      assert (H2s : 2 * strip2 (Z.abs (u - v)) <= Z.abs (u - v)).
      { replace (ctz (Z.abs (u - v))) with (Z.succ (ctz (Z.abs (u - v)) - 1)) in Es by lia.
        rewrite Z.pow_succ_r in Es by lia.
        assert (Hp : 0 < 2 ^ (ctz (Z.abs (u - v)) - 1)) by (apply Z.pow_pos_nonneg; lia).
        set (P := 2 ^ (ctz (Z.abs (u - v)) - 1)) in *.
        set (s := strip2 (Z.abs (u - v))) in *. nia. }
      replace (Z.of_nat (S f) + 1) with (Z.succ (Z.of_nat f + 1)) in Hb by lia.
      rewrite Z.pow_succ_r in Hb by lia.
      set (s := strip2 (Z.abs (u - v))) in *.
      assert (Om : Z.odd (Z.min u v) = true)
        by (destruct (Z.min_spec u v) as [[_ Em]|[_ Em]]; rewrite Em; assumption).
      rewrite IH; try assumption; try lia.
      * unfold s. rewrite gcd_strip2 by assumption.
        destruct (Z.min_spec u v) as [[Hlt Em]|[Hle Em]]; rewrite Em.
        -- replace (Z.abs (u - v)) with (v - u) by lia.
           rewrite Z.gcd_comm, Z.gcd_sub_diag_r. reflexivity.
        -- replace (Z.abs (u - v)) with (u - v) by lia.
           rewrite Z.gcd_comm, Z.gcd_sub_diag_r. apply Z.gcd_comm.
      * destruct (Z.min_spec u v) as [[Hlt Em]|[Hle Em]]; rewrite Em.
        -- assert (Ea : Z.abs (u - v) = v - u) by lia. rewrite Ea in H2s. nia.
        -- assert (Ea : Z.abs (u - v) = u - v) by lia. rewrite Ea in H2s. nia.
Qed.

Lemma gcd_common_twos u v : 0 < u -> 0 < v ->
  Z.gcd u v = Z.gcd (strip2 u) (strip2 v) * 2 ^ Z.min (ctz u) (ctz v).
Proof.
  intros Hu Hv.
  destruct (strip2_spec u Hu) as (Pu & Ou & Eu & _).
  destruct (strip2_spec v Hv) as (Pv & Ov & Ev & _).
  pose proof (ctz_nonneg u) as Hcu. pose proof (ctz_nonneg v) as Hcv.
  set (uo := strip2 u) in *. set (vo := strip2 v) in *.
  set (cu := ctz u) in *. set (cv := ctz v) in *.
  rewrite Eu at 1. rewrite Ev at 1.
  destruct (Z.min_spec cu cv) as [[Hlt Em]|[Hle Em]]; rewrite Em.
  - replace cv with (cu + (cv - cu)) at 1 by lia.
    rewrite Z.pow_add_r by lia. rewrite <- Z.mul_assoc.
    rewrite Z.gcd_mul_mono_l_nonneg by (apply Z.pow_nonneg; lia).
    rewrite (Z.gcd_comm uo), gcd_strip_pow2 by (assumption || lia).
    rewrite (Z.gcd_comm vo). ring.
  - replace cu with (cv + (cu - cv)) at 1 by lia.
    rewrite Z.pow_add_r by lia. rewrite <- Z.mul_assoc.
    rewrite Z.gcd_mul_mono_l_nonneg by (apply Z.pow_nonneg; lia).
    rewrite gcd_strip_pow2 by (assumption || lia). ring.
Qed.

Lemma gcd_1_spec : forall u v, 0 < u -> 0 < v -> gcd_1 u v = Z.gcd u v.
Proof.
  intros u v Hu Hv. unfold gcd_1. cbv zeta.
  rewrite (gcd_common_twos u v Hu Hv).
  destruct (strip2_spec v Hv) as (Pv & Ov & _ & Lv).
  set (vo := strip2 v) in *.
  set (ur := if vo <? u then u mod vo else u).
  assert (Hur : 0 <= ur <= u).
  { unfold ur. destruct (Z.ltb_spec vo u) as [Hlt|Hge]; [|lia].
    pose proof (Z.mod_pos_bound u vo Pv). lia. }
  assert (Gur : Z.gcd ur vo = Z.gcd (strip2 u) vo).
  { rewrite (gcd_strip2 u vo Hu Ov). unfold ur.
    destruct (Z.ltb_spec vo u) as [Hlt|Hge]; [|reflexivity].
    rewrite Z.gcd_mod by lia. apply Z.gcd_comm. }
  destruct (Z.eqb_spec ur 0) as [E0|N0].
  - rewrite <- Gur, E0, Z.gcd_0_l. f_equal. lia.
  - assert (Pur : 0 < ur) by lia.
    destruct (strip2_spec ur Pur) as (Ps & Os & _ & Ls).
    rewrite bin_gcd_odd_spec; try assumption.
    + rewrite (gcd_strip2 ur vo Pur Ov), Gur. reflexivity.
    + pose proof (Z.log2_nonneg (Z.max u v)) as Hl.
      replace (Z.of_nat (Z.to_nat (Z.log2 (Z.max u v)) * 2 + 2) + 1)
        with (Z.succ (2 * Z.log2 (Z.max u v) + 2)) by lia.
      rewrite Z.pow_succ_r by lia.
      assert (Hm : strip2 ur * vo < 2 ^ (2 * Z.log2 (Z.max u v) + 2))
        by (apply mul_lt_pow2_log2; lia).
      lia.
Qed.
