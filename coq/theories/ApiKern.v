(* ApiKern.v — correspondence entry point for C14: kern <routine> <kernel index> args...  Definitions only. *)
From Coq Require Import ZArith List Bool.
From Mpir Require Import Word PowDefs KernDefs ApiBasic.
Import ListNotations.
Local Open Scope Z_scope.

Fixpoint list_eqb (a b : list Z) : bool :=
  match a, b with [], [] => true | x :: r, y :: s => (x =? y) && list_eqb r s | _, _ => false end.
(* routine names as byte lists (no Coq strings in extracted code) *)
Definition nm_add_n : list Z := [97; 100; 100; 95; 110].   (* "add_n" *)
Definition nm_addadd_n : list Z := [97; 100; 100; 97; 100; 100; 95; 110].   (* "addadd_n" *)
Definition nm_addlsh1_n : list Z := [97; 100; 100; 108; 115; 104; 49; 95; 110].   (* "addlsh1_n" *)
Definition nm_addlsh_n : list Z := [97; 100; 100; 108; 115; 104; 95; 110].   (* "addlsh_n" *)
Definition nm_addmul_1 : list Z := [97; 100; 100; 109; 117; 108; 95; 49].   (* "addmul_1" *)
Definition nm_addmul_2 : list Z := [97; 100; 100; 109; 117; 108; 95; 50].   (* "addmul_2" *)
Definition nm_addsub_n : list Z := [97; 100; 100; 115; 117; 98; 95; 110].   (* "addsub_n" *)
Definition nm_and_n : list Z := [97; 110; 100; 95; 110].   (* "and_n" *)
Definition nm_andn_n : list Z := [97; 110; 100; 110; 95; 110].   (* "andn_n" *)
Definition nm_com_n : list Z := [99; 111; 109; 95; 110].   (* "com_n" *)
Definition nm_copyd : list Z := [99; 111; 112; 121; 100].   (* "copyd" *)
Definition nm_copyi : list Z := [99; 111; 112; 121; 105].   (* "copyi" *)
Definition nm_divexact_by3c : list Z := [100; 105; 118; 101; 120; 97; 99; 116; 95; 98; 121; 51; 99].   (* "divexact_by3c" *)
Definition nm_divexact_byff : list Z := [100; 105; 118; 101; 120; 97; 99; 116; 95; 98; 121; 102; 102].   (* "divexact_byff" *)
Definition nm_divexact_byfobm1 : list Z := [100; 105; 118; 101; 120; 97; 99; 116; 95; 98; 121; 102; 111; 98; 109; 49].   (* "divexact_byfobm1" *)
Definition nm_divrem_euclidean_qr_1 : list Z := [100; 105; 118; 114; 101; 109; 95; 101; 117; 99; 108; 105; 100; 101; 97; 110; 95; 113; 114; 95; 49].   (* "divrem_euclidean_qr_1" *)
Definition nm_double : list Z := [100; 111; 117; 98; 108; 101].   (* "double" *)
Definition nm_half : list Z := [104; 97; 108; 102].   (* "half" *)
Definition nm_hamdist : list Z := [104; 97; 109; 100; 105; 115; 116].   (* "hamdist" *)
Definition nm_ior_n : list Z := [105; 111; 114; 95; 110].   (* "ior_n" *)
Definition nm_iorn_n : list Z := [105; 111; 114; 110; 95; 110].   (* "iorn_n" *)
Definition nm_karaadd : list Z := [107; 97; 114; 97; 97; 100; 100].   (* "karaadd" *)
Definition nm_karasub : list Z := [107; 97; 114; 97; 115; 117; 98].   (* "karasub" *)
Definition nm_lshift : list Z := [108; 115; 104; 105; 102; 116].   (* "lshift" *)
Definition nm_lshift1 : list Z := [108; 115; 104; 105; 102; 116; 49].   (* "lshift1" *)
Definition nm_lshift2 : list Z := [108; 115; 104; 105; 102; 116; 50].   (* "lshift2" *)
Definition nm_lshift3 : list Z := [108; 115; 104; 105; 102; 116; 51].   (* "lshift3" *)
Definition nm_lshift4 : list Z := [108; 115; 104; 105; 102; 116; 52].   (* "lshift4" *)
Definition nm_lshift5 : list Z := [108; 115; 104; 105; 102; 116; 53].   (* "lshift5" *)
Definition nm_lshift6 : list Z := [108; 115; 104; 105; 102; 116; 54].   (* "lshift6" *)
Definition nm_lshiftc : list Z := [108; 115; 104; 105; 102; 116; 99].   (* "lshiftc" *)
Definition nm_mod_1_1 : list Z := [109; 111; 100; 95; 49; 95; 49].   (* "mod_1_1" *)
Definition nm_mod_1_2 : list Z := [109; 111; 100; 95; 49; 95; 50].   (* "mod_1_2" *)
Definition nm_mod_1_3 : list Z := [109; 111; 100; 95; 49; 95; 51].   (* "mod_1_3" *)
Definition nm_mul_1 : list Z := [109; 117; 108; 95; 49].   (* "mul_1" *)
Definition nm_mul_2 : list Z := [109; 117; 108; 95; 50].   (* "mul_2" *)
Definition nm_mul_basecase : list Z := [109; 117; 108; 95; 98; 97; 115; 101; 99; 97; 115; 101].   (* "mul_basecase" *)
Definition nm_mullow_n_basecase : list Z := [109; 117; 108; 108; 111; 119; 95; 110; 95; 98; 97; 115; 101; 99; 97; 115; 101].   (* "mullow_n_basecase" *)
Definition nm_nand_n : list Z := [110; 97; 110; 100; 95; 110].   (* "nand_n" *)
Definition nm_nior_n : list Z := [110; 105; 111; 114; 95; 110].   (* "nior_n" *)
Definition nm_not : list Z := [110; 111; 116].   (* "not" *)
Definition nm_popcount : list Z := [112; 111; 112; 99; 111; 117; 110; 116].   (* "popcount" *)
Definition nm_redc_1 : list Z := [114; 101; 100; 99; 95; 49].   (* "redc_1" *)
Definition nm_rsh1add_n : list Z := [114; 115; 104; 49; 97; 100; 100; 95; 110].   (* "rsh1add_n" *)
Definition nm_rsh1sub_n : list Z := [114; 115; 104; 49; 115; 117; 98; 95; 110].   (* "rsh1sub_n" *)
Definition nm_rshift : list Z := [114; 115; 104; 105; 102; 116].   (* "rshift" *)
Definition nm_rshift1 : list Z := [114; 115; 104; 105; 102; 116; 49].   (* "rshift1" *)
Definition nm_rshift2 : list Z := [114; 115; 104; 105; 102; 116; 50].   (* "rshift2" *)
Definition nm_sqr_basecase : list Z := [115; 113; 114; 95; 98; 97; 115; 101; 99; 97; 115; 101].   (* "sqr_basecase" *)
Definition nm_store : list Z := [115; 116; 111; 114; 101].   (* "store" *)
Definition nm_sub_n : list Z := [115; 117; 98; 95; 110].   (* "sub_n" *)
Definition nm_subadd_n : list Z := [115; 117; 98; 97; 100; 100; 95; 110].   (* "subadd_n" *)
Definition nm_sublsh1_n : list Z := [115; 117; 98; 108; 115; 104; 49; 95; 110].   (* "sublsh1_n" *)
Definition nm_sublsh_n : list Z := [115; 117; 98; 108; 115; 104; 95; 110].   (* "sublsh_n" *)
Definition nm_submul_1 : list Z := [115; 117; 98; 109; 117; 108; 95; 49].   (* "submul_1" *)
Definition nm_sumdiff_n : list Z := [115; 117; 109; 100; 105; 102; 102; 95; 110].   (* "sumdiff_n" *)
Definition nm_xnor_n : list Z := [120; 110; 111; 114; 95; 110].   (* "xnor_n" *)
Definition nm_xor_n : list Z := [120; 111; 114; 95; 110].   (* "xor_n" *)
Definition nm_nsumdiff_n : list Z := [110; 115; 117; 109; 100; 105; 102; 102; 95; 110].   (* "nsumdiff_n" *)
Definition rc (p : Z * Z) : list tok := [TZ (fst p); TZ (snd p)].
Definition rv (r : Z) : list tok := [TZ r; TZ 0].
Definition logic_code (nm : list Z) : option Z :=
  if list_eqb nm nm_and_n then Some 0 else if list_eqb nm nm_andn_n then Some 1 else if list_eqb nm nm_ior_n then Some 2 else if list_eqb nm nm_iorn_n then Some 3
  else if list_eqb nm nm_nand_n then Some 4 else if list_eqb nm nm_nior_n then Some 5 else if list_eqb nm nm_xor_n then Some 6 else if list_eqb nm nm_xnor_n then Some 7 else None.
Definition shift_const (nm : list Z) : option (bool * Z) :=      (* left?, count *)
  if list_eqb nm nm_lshift1 then Some (true, 1) else if list_eqb nm nm_lshift2 then Some (true, 2) else if list_eqb nm nm_lshift3 then Some (true, 3)
  else if list_eqb nm nm_lshift4 then Some (true, 4) else if list_eqb nm nm_lshift5 then Some (true, 5) else if list_eqb nm nm_lshift6 then Some (true, 6)
  else if list_eqb nm nm_rshift1 then Some (false, 1) else if list_eqb nm nm_rshift2 then Some (false, 2) else None.
(* routines without a model here answer "?": they are compared with the portable C routine only *)
Definition api_kern : api := fun t =>
  let nm := argb t 0 in
  let a (i : nat) := argz t (i + 2) in
  let n := a 0%nat in
  if list_eqb nm nm_add_n then rc (k_add_n n (a 1%nat) (a 2%nat))
  else if list_eqb nm nm_sub_n then rc (k_sub_n n (a 1%nat) (a 2%nat))
  else if list_eqb nm nm_addlsh1_n then rc (k_addlsh_n n (a 1%nat) (a 2%nat) 1)
  else if list_eqb nm nm_sublsh1_n then rc (k_sublsh_n n (a 1%nat) (a 2%nat) 1)
  else if list_eqb nm nm_rsh1add_n then rc (k_rsh1add_n n (a 1%nat) (a 2%nat))
  else if list_eqb nm nm_rsh1sub_n then rc (k_rsh1sub_n n (a 1%nat) (a 2%nat))
  else match logic_code nm with Some op => rv (k_logic op n (a 1%nat) (a 2%nat)) | None =>
  if list_eqb nm nm_addadd_n then rc (k_addadd_n n (a 1%nat) (a 2%nat) (a 3%nat))
  else if list_eqb nm nm_addsub_n then rc (k_addsub_n n (a 1%nat) (a 2%nat) (a 3%nat))
  else if list_eqb nm nm_subadd_n then rc (k_subadd_n n (a 1%nat) (a 2%nat) (a 3%nat))
  else if list_eqb nm nm_nsumdiff_n then let '(s, d, r) := k_nsumdiff_n n (a 1%nat) (a 2%nat) in [TZ s; TZ d; TZ r]
  else if list_eqb nm nm_sumdiff_n then let '(s, d, r) := k_sumdiff_n n (a 1%nat) (a 2%nat) in [TZ s; TZ d; TZ r]
  else if list_eqb nm nm_mul_1 then rc (k_mul_1 n (a 1%nat) (a 2%nat))
  else if list_eqb nm nm_addmul_1 then rc (k_addmul_1 n (a 3%nat) (a 1%nat) (a 2%nat))
  else if list_eqb nm nm_submul_1 then rc (k_submul_1 n (a 3%nat) (a 1%nat) (a 2%nat))
  else if list_eqb nm nm_lshift then rc (k_lshift n (a 1%nat) (a 2%nat))
  else if list_eqb nm nm_rshift then rc (k_rshift n (a 1%nat) (a 2%nat))
  else if list_eqb nm nm_lshiftc then rc (k_lshiftc n (a 1%nat) (a 2%nat))
  else if list_eqb nm nm_addlsh_n then rc (k_addlsh_n n (a 1%nat) (a 2%nat) (a 3%nat))
  else if list_eqb nm nm_sublsh_n then rc (k_sublsh_n n (a 1%nat) (a 2%nat) (a 3%nat))
  else match shift_const nm with Some (lft, c) => rc (if lft then k_lshift n (a 1%nat) c else k_rshift n (a 1%nat) c) | None =>
  if list_eqb nm nm_double then rc (k_lshift n (a 1%nat) 1)
  else if list_eqb nm nm_half then rc (k_rshift n (a 1%nat) 1)
  else if list_eqb nm nm_not then rv (k_not n (a 1%nat))
  else if list_eqb nm nm_com_n then rv (k_not n (a 1%nat))
  else if list_eqb nm nm_copyi then rv (a 1%nat)
  else if list_eqb nm nm_copyd then rv (a 1%nat)
  else if list_eqb nm nm_store then [TZ (k_store n (a 1%nat))]
  else if list_eqb nm nm_popcount then [TZ (k_popcount (a 1%nat))]
  else if list_eqb nm nm_hamdist then [TZ (k_popcount (Z.lxor (a 1%nat) (a 2%nat)))]
  else if list_eqb nm nm_mul_basecase then [TZ (k_mul (a 1%nat) (a 3%nat))]
  else if list_eqb nm nm_sqr_basecase then [TZ (k_mul (a 1%nat) (a 1%nat))]
  else if list_eqb nm nm_mullow_n_basecase then [TZ (k_mullow n (a 1%nat) (a 2%nat))]
  else if list_eqb nm nm_mul_2 then rc (k_mul_2 n (a 1%nat) (a 2%nat))
  else if list_eqb nm nm_addmul_2 then rc (k_addmul_2 n (a 3%nat) (a 1%nat) (a 2%nat))
  else if list_eqb nm nm_redc_1 then
    let m := a 2%nat in let inv := binvert_limb (m mod B) in [TZ (redc_1 (a 1%nat) m (Z.to_nat n) ((B - inv) mod B))]
  else if list_eqb nm nm_karaadd then [TZ (k_kara true n (a 1%nat) (a 2%nat))]
  else if list_eqb nm nm_karasub then [TZ (k_kara false n (a 1%nat) (a 2%nat))]
  else if list_eqb nm nm_divexact_byff then [TZ (k_divexact (a 1%nat) (2 ^ 64 - 1)); TZ 0]
  else if list_eqb nm nm_divexact_by3c then [TZ (k_divexact (a 1%nat) 3); TZ 0]
  else if list_eqb nm nm_divexact_byfobm1 then [TZ (k_divexact (a 1%nat) (a 2%nat)); TZ 0]
  else if list_eqb nm nm_divrem_euclidean_qr_1 then [TZ (a 1%nat / a 2%nat); TZ (a 1%nat mod a 2%nat)]
  else if list_eqb nm nm_mod_1_1 then [TZ (a 1%nat mod a 2%nat)]
  else if list_eqb nm nm_mod_1_2 then [TZ (a 1%nat mod a 2%nat)]
  else if list_eqb nm nm_mod_1_3 then [TZ (a 1%nat mod a 2%nat)]
  else [TB [63]]
  end end.

(* kern_modexact_ok n A d c r : the contract of mpn_modexact_1c_odd (the result is not unique) *)
Definition api_kern_modexact_ok : api := fun t => [TZ (b2z (k_modexact_ok (argz t 0) (argz t 1) (argz t 2) (argz t 3) (argz t 4)))].
