(* RootProofs.v — proofs behind C09: Zimmermann's Karatsuba square root (value level), the
   normalising shift of mpn_sqrtrem, integer n-th roots by bisection, the mpz wrappers and the
   perfect square / perfect power tests. *)
From Coq Require Import ZArith Znumtheory List Lia Bool Psatz.
From Mpir Require Import Word DivDefs RootDefs.
Import ListNotations.
Local Open Scope Z_scope.

(* ---------------------------------------------------------------------------------------- *)
(* square roots: characterisation                                                            *)

Lemma sqrt_char s r x : 0 <= s -> 0 <= r <= 2 * s -> x = s * s + r -> s = Z.sqrt x.
Proof.
  intros Hs Hr Hx. symmetry. apply Z.sqrt_unique. unfold Z.succ. nia.
Qed.

Lemma sqrt_rem_bounds x : 0 <= x ->
  0 <= Z.sqrt x /\ 0 <= x - Z.sqrt x * Z.sqrt x <= 2 * Z.sqrt x.
Proof.
  intros Hx. pose proof (Z.sqrt_spec x Hx) as Hs. pose proof (Z.sqrt_nonneg x) as Hn.
  unfold Z.succ in Hs. nia.
Qed.

(* invariant of a (root, remainder) pair *)
Definition sr_inv (x : Z) (p : Z * Z) : Prop :=
  0 <= fst p /\ 0 <= snd p <= 2 * fst p /\ x = fst p * fst p + snd p.

Lemma sqrtrem2_inv x : 0 <= x -> sr_inv x (sqrtrem2 x).
Proof.
  intros Hx. unfold sr_inv, sqrtrem2. cbn [fst snd].
  pose proof (sqrt_rem_bounds x Hx) as Hb. lia.
Qed.

(* ---------------------------------------------------------------------------------------- *)
(* the arithmetic core of one step of Zimmermann's recursion, over an abstract base b        *)

Lemma dc_step_core b s' r' a1 a0 q u :
  0 < b -> b <= 2 * s' -> 0 <= r' <= 2 * s' -> 0 <= a1 < b -> 0 <= a0 < b ->
  r' * b + a1 = 2 * s' * q + u -> 0 <= u < 2 * s' ->
  0 <= q <= b
  /\ (s' * s' + r') * (b * b) + a1 * b + a0 = (s' * b + q) * (s' * b + q) + (u * b + a0 - q * q)
  /\ u * b + a0 - q * q <= 2 * (s' * b + q)
  /\ (u * b + a0 - q * q < 0 -> 1 <= s' * b + q /\ 0 <= u * b + a0 - q * q + 2 * (s' * b + q) - 1).
Proof.
  intros Hb Hbs Hr' Ha1 Ha0 Hdiv Hu.
  assert (Hq0 : 0 <= q) by nia.
  assert (Hqb : q <= b).
  { assert (H1 : 2 * s' * q < 2 * s' * (b + 1)) by nia.
    assert (H2 : q < b + 1) by nia. lia. }
  split; [lia|]. split.
  { replace ((s' * s' + r') * (b * b)) with (s' * s' * (b * b) + (r' * b) * b) by ring.
    assert (Hrb : r' * b = 2 * s' * q + u - a1) by lia. rewrite Hrb. ring. }
  split.
  { assert (H1 : u * b <= (2 * s' - 1) * b) by nia. nia. }
  intros Hneg.
  assert (Hq1 : 1 <= q) by nia.
  assert (Hqq : q * q <= b * b) by nia.
  assert (Hbb : b * b <= 2 * s' * b) by nia.
  assert (Hub : 0 <= u * b) by nia.
  split; nia.
Qed.

(* ---------------------------------------------------------------------------------------- *)
(* dc_sqrtrem                                                                                *)

Lemma B_eq4 : B = 4 * 2 ^ 62.
Proof. rewrite B_val. reflexivity. Qed.

Lemma dc_sqrtrem_S f n x :
  dc_sqrtrem (S f) n x =
  if n <=? 1 then sqrtrem2 x
  else
    let l := n / 2 in let h := n - l in
    let bl := B ^ l in
    let hi := x / (bl * bl) in
    let a1 := (x / bl) mod bl in
    let a0 := x mod bl in
    let '(s', r') := dc_sqrtrem f h hi in
    let q := (r' * bl + a1) / (2 * s') in
    let u := (r' * bl + a1) mod (2 * s') in
    let s := s' * bl + q in
    let r := u * bl + a0 - q * q in
    if r <? 0 then (s - 1, r + 2 * s - 1) else (s, r).
Proof. reflexivity. Qed.

Lemma dc_sqrtrem_inv : forall fuel n x,
  1 <= n -> B ^ (2 * n) <= 4 * x -> x < B ^ (2 * n) -> sr_inv x (dc_sqrtrem fuel n x).
Proof.
  induction fuel as [|f IH]; intros n x Hn Hlo Hhi.
  - simpl. apply sqrtrem2_inv.
    assert (0 <= B ^ (2 * n)) by (apply Z.pow_nonneg; pose proof B_pos; lia). lia.
  - assert (Hx0 : 0 <= x).
    { assert (0 <= B ^ (2 * n)) by (apply Z.pow_nonneg; pose proof B_pos; lia). lia. }
    rewrite dc_sqrtrem_S.
    destruct (Z.leb_spec n 1) as [Hn1|Hn1]; [apply sqrtrem2_inv; exact Hx0|]. cbv zeta.
    set (l := n / 2). set (h := n - l). set (b := B ^ l).
    assert (Hl : 1 <= l) by (unfold l; apply Z.div_le_lower_bound; lia).
    assert (Hl2 : 2 * l <= n) by (unfold l; apply Z.mul_div_le; lia).
    assert (Hh : l <= h) by (unfold h; lia).
    assert (Hbpos : 0 < b) by (unfold b; apply Z.pow_pos_nonneg; [exact B_pos|lia]).
    assert (Hbb : b * b = B ^ (2 * l)).
    { unfold b. rewrite <- Z.pow_add_r by lia. f_equal. lia. }
    assert (Hsplit : B ^ (2 * n) = B ^ (2 * h) * (b * b)).
    { rewrite Hbb, <- Z.pow_add_r by lia. f_equal. unfold h. lia. }
    set (m := 2 ^ 62 * B ^ (h - 1) ) in *.
    assert (Hm : B ^ h = 2 * (2 * m)).
    { unfold m. replace h with (1 + (h - 1)) at 1 by lia.
      rewrite Z.pow_add_r by lia. rewrite Z.pow_1_r. rewrite B_eq4 at 1. ring. }
    assert (Hmpos : 0 < m).
    { unfold m. apply Z.mul_pos_pos; [reflexivity|]. apply Z.pow_pos_nonneg; [exact B_pos|lia]. }
    assert (Hh2 : B ^ (2 * h) = B ^ h * B ^ h).
    { rewrite <- Z.pow_add_r by lia. f_equal. lia. }
    assert (Hbh : b <= B ^ h).
    { unfold b. apply Z.pow_le_mono_r; [exact B_pos|lia]. }
    set (hi := x / (b * b)).
    set (a1 := (x / b) mod b). set (a0 := x mod b).
    assert (Hbbpos : 0 < b * b) by (clear - Hbpos; nia).
    assert (Hx : x = hi * (b * b) + a1 * b + a0).
    { unfold hi, a1, a0. rewrite <- Z.div_div by lia.
      pose proof (Z.div_mod x b ltac:(lia)) as E1.
      pose proof (Z.div_mod (x / b) b ltac:(lia)) as E2.
      generalize dependent (x / b / b). generalize dependent ((x / b) mod b).
      generalize dependent (x mod b). generalize dependent (x / b).
      clear. intros X1 A0 _ E1 A1 _ H E2. rewrite E1, E2. ring. }
    assert (Ha1 : 0 <= a1 < b) by (unfold a1; apply Z.mod_pos_bound; lia).
    assert (Ha0 : 0 <= a0 < b) by (unfold a0; apply Z.mod_pos_bound; lia).
    assert (Hhi_hi : hi < B ^ (2 * h)).
    { unfold hi. apply Z.div_lt_upper_bound; [lia|]. rewrite Z.mul_comm, <- Hsplit. exact Hhi. }
    assert (Hge : (2 * m) * (2 * m) <= hi).
    { unfold hi. apply Z.div_le_lower_bound; [lia|].
      rewrite Hsplit, Hh2, Hm in Hlo. clear - Hlo. nia. }
    assert (Hhi_lo : B ^ (2 * h) <= 4 * hi).
    { rewrite Hh2, Hm. clear - Hge. nia. }
    assert (Hh1 : 1 <= h) by lia.
    specialize (IH h hi Hh1 Hhi_lo Hhi_hi).
    destruct (dc_sqrtrem f h hi) as [s' r'].
    unfold sr_inv in IH. cbn [fst snd] in IH. destruct IH as [Hs' [Hr' Ehi]].
    assert (Hbs : b <= 2 * s').
    { assert (H5 : 2 * m < s' + 1).
      { destruct (Z_lt_le_dec (2 * m) (s' + 1)) as [Hc|Hc]; [exact Hc|exfalso].
        assert (Hsq : (s' + 1) * (s' + 1) <= (2 * m) * (2 * m))
          by (apply Z.mul_le_mono_nonneg; lia).
        clear - Hsq Hge Ehi Hr' Hs'. nia. }
      lia. }
    set (num := r' * b + a1).
    assert (Hs'pos : 0 < 2 * s') by lia.
    pose proof (Z.div_mod num (2 * s') ltac:(lia)) as Ediv.
    pose proof (Z.mod_pos_bound num (2 * s') Hs'pos) as Hu.
    set (q := num / (2 * s')) in *. set (u := num mod (2 * s')) in *.
    destruct (dc_step_core b s' r' a1 a0 q u Hbpos Hbs Hr' Ha1 Ha0 Ediv Hu)
      as [Hq [Eid [Hup Hneg]]].
    rewrite <- Ehi, <- Hx in Eid.
    destruct (Z.ltb_spec (u * b + a0 - q * q) 0) as [Hlt|Hge0]; unfold sr_inv; cbn [fst snd].
    + destruct (Hneg Hlt) as [Hs1 Hr1]. split; [lia|]. split; [lia|]. rewrite Eid. ring.
    + split; [clear - Hs' Hbpos Hq; nia|]. split; [lia|]. exact Eid.
Qed.

Lemma dc_sqrtrem_spec : forall fuel n x,
  1 <= n -> B ^ (2 * n) <= 4 * x -> x < B ^ (2 * n) -> (Z.to_nat (Z.log2 n) < fuel)%nat ->
  fst (dc_sqrtrem fuel n x) = Z.sqrt x
  /\ snd (dc_sqrtrem fuel n x) = x - Z.sqrt x * Z.sqrt x
  /\ 0 <= snd (dc_sqrtrem fuel n x) <= 2 * Z.sqrt x.
Proof.
  intros fuel n x Hn Hlo Hhi _.
  pose proof (dc_sqrtrem_inv fuel n x Hn Hlo Hhi) as Hinv.
  destruct (dc_sqrtrem fuel n x) as [s r]. unfold sr_inv in Hinv. simpl in *.
  destruct Hinv as [Hs [Hr Ex]].
  pose proof (sqrt_char s r x Hs Hr Ex) as Es. rewrite <- Es. lia.
Qed.

(* ---------------------------------------------------------------------------------------- *)
(* mpn_sqrtrem: the normalising shift                                                        *)

Lemma sqrt_shift x c : 0 <= x -> 0 <= c -> Z.sqrt (x * 4 ^ c) / 2 ^ c = Z.sqrt x.
Proof.
  intros Hx Hc.
  assert (Hp : 0 < 2 ^ c) by (apply Z.pow_pos_nonneg; lia).
  assert (E4 : 4 ^ c = 2 ^ c * 2 ^ c).
  { change 4 with (2 * 2). apply Z.pow_mul_l. }
  rewrite E4. set (p := 2 ^ c) in *.
  assert (Hxp : 0 <= x * (p * p)) by nia.
  pose proof (Z.sqrt_spec x Hx) as Hs. pose proof (Z.sqrt_nonneg x) as Hs0.
  pose proof (Z.sqrt_spec _ Hxp) as Ht. pose proof (Z.sqrt_nonneg (x * (p * p))) as Ht0.
  set (s := Z.sqrt x) in *. set (t := Z.sqrt (x * (p * p))) in *.
  unfold Z.succ in *. clearbody s t p. clear E4.
  assert (H1 : p * s <= t).
  { destruct (Z_le_gt_dec (p * s) t) as [Hc1|Hc1]; [exact Hc1|exfalso].
    assert (Hsq : (t + 1) * (t + 1) <= (p * s) * (p * s))
      by (apply Z.mul_le_mono_nonneg; lia).
    assert (Hps : (p * s) * (p * s) <= x * (p * p)).
    { replace ((p * s) * (p * s)) with ((s * s) * (p * p)) by ring.
      apply Z.mul_le_mono_nonneg_r; nia. }
    lia. }
  assert (H2 : t < p * (s + 1)).
  { destruct (Z_lt_le_dec t (p * (s + 1))) as [Hc1|Hc1]; [exact Hc1|exfalso].
    assert (Hsq : (p * (s + 1)) * (p * (s + 1)) <= t * t)
      by (apply Z.mul_le_mono_nonneg; nia).
    assert (Hps : x * (p * p) < (p * (s + 1)) * (p * (s + 1))).
    { replace ((p * (s + 1)) * (p * (s + 1))) with (((s + 1) * (s + 1)) * (p * p)) by ring.
      apply Z.mul_lt_mono_pos_r; nia. }
    lia. }
  symmetry. apply Z.div_unique with (r := t - p * s); lia.
Qed.

Lemma B_pow2 k : 0 <= k -> B ^ k = 2 ^ (64 * k).
Proof.
  intros Hk. rewrite Z.pow_mul_r by lia. f_equal.
Qed.

Lemma mpn_sqrtrem_spec : forall x, 0 <= x ->
  mpn_sqrtrem x = (Z.sqrt x, x - Z.sqrt x * Z.sqrt x).
Proof.
  intros x Hx. unfold mpn_sqrtrem.
  destruct (Z.eqb_spec x 0) as [E0|N0]; [subst x; reflexivity|].
  assert (Hxp : 0 < x) by lia.
  pose proof (Z.log2_spec x Hxp) as HL. pose proof (Z.log2_nonneg x) as HL0.
  set (L := Z.log2 x) in *.
  set (nn := L / 64 + 1). set (tn := (nn + 1) / 2).
  set (c := (64 * 2 * tn - (L + 1)) / 2).
  pose proof (Z.div_mod L 64 ltac:(lia)) as EL.
  pose proof (Z.mod_pos_bound L 64 ltac:(lia)) as BL.
  pose proof (Z.div_mod (nn + 1) 2 ltac:(lia)) as En.
  pose proof (Z.mod_pos_bound (nn + 1) 2 ltac:(lia)) as Bn.
  fold tn in En.
  assert (Hnn : 1 <= nn).
  { unfold nn. assert (0 <= L / 64) by (apply Z.div_pos; lia). lia. }
  assert (Htn : 1 <= tn) by lia.
  assert (Hd : 0 <= 64 * 2 * tn - (L + 1)) by (unfold nn in *; lia).
  pose proof (Z.div_mod (64 * 2 * tn - (L + 1)) 2 ltac:(lia)) as Ec.
  pose proof (Z.mod_pos_bound (64 * 2 * tn - (L + 1)) 2 ltac:(lia)) as Bc.
  fold c in Ec.
  assert (Hc : 0 <= c) by lia.
  assert (E4 : 4 ^ c = 2 ^ (2 * c)).
  { rewrite Z.pow_mul_r by lia. reflexivity. }
  assert (Hhi : x * 4 ^ c < B ^ (2 * tn)).
  { rewrite B_pow2, E4 by lia.
    apply Z.lt_le_trans with (2 ^ (L + 1) * 2 ^ (2 * c)).
    - apply Z.mul_lt_mono_pos_r; [apply Z.pow_pos_nonneg; lia|]. unfold Z.succ in HL. lia.
    - rewrite <- Z.pow_add_r by lia. apply Z.pow_le_mono_r; lia. }
  assert (Hlo : B ^ (2 * tn) <= 4 * (x * 4 ^ c)).
  { rewrite B_pow2, E4 by lia.
    apply Z.le_trans with (2 ^ 2 * (2 ^ L * 2 ^ (2 * c))).
    - rewrite <- !Z.pow_add_r by lia. apply Z.pow_le_mono_r; lia.
    - change (2 ^ 2) with 4. apply Z.mul_le_mono_nonneg_l; [lia|].
      apply Z.mul_le_mono_nonneg_r; [apply Z.pow_nonneg; lia|lia]. }
  pose proof (dc_sqrtrem_inv (Z.to_nat (Z.log2 tn) + 2) tn (x * 4 ^ c) Htn Hlo Hhi) as Hinv.
  destruct (dc_sqrtrem (Z.to_nat (Z.log2 tn) + 2) tn (x * 4 ^ c)) as [s' r0].
  unfold sr_inv in Hinv. cbn [fst snd] in Hinv. destruct Hinv as [Hs' [Hr0 Ex]].
  rewrite (sqrt_char s' r0 _ Hs' Hr0 Ex).
  rewrite (sqrt_shift x c Hx Hc). reflexivity.
Qed.

(* ---------------------------------------------------------------------------------------- *)
(* integer n-th roots                                                                        *)

Lemma iroot_bits_inv : forall bits n x acc,
  1 <= n -> 0 <= acc -> acc ^ n <= x < (acc + 2 ^ Z.of_nat bits) ^ n ->
  0 <= iroot_bits bits n x acc
  /\ iroot_bits bits n x acc ^ n <= x < (iroot_bits bits n x acc + 1) ^ n.
Proof.
  induction bits as [|k IH]; intros n x acc Hn Hacc Hinv.
  - simpl. change (2 ^ Z.of_nat 0) with 1 in Hinv. split; [exact Hacc|exact Hinv].
  - cbn [iroot_bits].
    assert (E2 : 2 ^ Z.of_nat (S k) = 2 ^ Z.of_nat k + 2 ^ Z.of_nat k).
    { rewrite Nat2Z.inj_succ, Z.pow_succ_r by lia. lia. }
    assert (Hp : 0 < 2 ^ Z.of_nat k) by (apply Z.pow_pos_nonneg; lia).
    rewrite E2 in Hinv.
    destruct (Z.leb_spec ((acc + 2 ^ Z.of_nat k) ^ n) x) as [Hle|Hgt].
    + apply IH; [exact Hn|lia|]. split; [exact Hle|].
      replace (acc + 2 ^ Z.of_nat k + 2 ^ Z.of_nat k)
        with (acc + (2 ^ Z.of_nat k + 2 ^ Z.of_nat k)) by ring. apply Hinv.
    + apply IH; [exact Hn|exact Hacc|]. split; [apply Hinv|exact Hgt].
Qed.

Lemma iroot_spec : forall n x, 1 <= n -> 0 <= x ->
  0 <= iroot n x /\ iroot n x ^ n <= x < (iroot n x + 1) ^ n.
Proof.
  intros n x Hn Hx. unfold iroot.
  destruct (Z.leb_spec x 0) as [Hx0|Hxp].
  - assert (E : x = 0) by lia. subst x.
    rewrite Z.pow_0_l by lia. change (0 + 1) with 1. rewrite Z.pow_1_l by lia. lia.
  - pose proof (Z.log2_spec x Hxp) as HL. pose proof (Z.log2_nonneg x) as HL0.
    set (L := Z.log2 x) in *.
    assert (Hq : 0 <= L / n) by (apply Z.div_pos; lia).
    apply iroot_bits_inv; [exact Hn|lia|].
    rewrite Z.pow_0_l by lia. split; [lia|].
    rewrite Z2Nat.id by lia. rewrite Z.add_0_l.
    rewrite <- Z.pow_mul_r by lia.
    apply Z.lt_le_trans with (2 ^ Z.succ L); [apply HL|].
    apply Z.pow_le_mono_r; [lia|].
    pose proof (Z.div_mod L n ltac:(lia)) as EL.
    pose proof (Z.mod_pos_bound L n ltac:(lia)) as BL. nia.
Qed.

Lemma iroot_unique n x r : 1 <= n -> 0 <= r -> r ^ n <= x < (r + 1) ^ n -> iroot n x = r.
Proof.
  intros Hn Hr Hb.
  assert (Hx : 0 <= x).
  { assert (0 <= r ^ n) by (apply Z.pow_nonneg; exact Hr). lia. }
  destruct (iroot_spec n x Hn Hx) as [Hi0 Hi].
  set (i := iroot n x) in *.
  assert (H1 : i < r + 1).
  { apply (Z.pow_lt_mono_l_iff i (r + 1) n); lia. }
  assert (H2 : r < i + 1).
  { apply (Z.pow_lt_mono_l_iff r (i + 1) n); lia. }
  lia.
Qed.

(* ---------------------------------------------------------------------------------------- *)
(* mpz_root / mpz_rootrem                                                                    *)

Lemma mpz_root_spec : forall u n,
  (u < 0 -> Z.even n = true -> mpz_root u n = RSqrtNeg)
  /\ (n = 0 -> 0 <= u -> mpz_root u n = RDivByZero)
  /\ (1 <= n -> (0 <= u \/ Z.odd n = true) ->
        exists r ex, mpz_root u n = ROk (r, ex) /\ mpz_rootrem u n = ROk (r, u - r ^ n)
          /\ Z.abs r ^ n <= Z.abs u < (Z.abs r + 1) ^ n /\ 0 <= r * u
          /\ (ex = true <-> r ^ n = u)).
Proof.
  intros u n. split; [|split].
  - intros Hu He. unfold mpz_root.
    destruct (Z.ltb_spec u 0) as [_|Hc]; [|lia]. rewrite He. reflexivity.
  - intros Hn Hu. unfold mpz_root.
    destruct (Z.ltb_spec u 0) as [Hc|_]; [lia|]. subst n. reflexivity.
  - intros Hn Hor.
    assert (Habs : 0 <= Z.abs u) by apply Z.abs_nonneg.
    destruct (iroot_spec n (Z.abs u) Hn Habs) as [Hr0 Hr].
    assert (Eroot : mpz_root u n =
      ROk ((if u <? 0 then - iroot n (Z.abs u) else iroot n (Z.abs u)),
           iroot n (Z.abs u) ^ n =? Z.abs u)).
    { unfold mpz_root.
      assert (E1 : (u <? 0) && Z.even n = false).
      { destruct (Z.ltb_spec u 0) as [Hneg|Hpos]; [|reflexivity].
        destruct Hor as [Hc|Hodd]; [lia|].
        rewrite <- Z.negb_odd, Hodd. reflexivity. }
      rewrite E1. destruct (Z.eqb_spec n 0) as [Hc|_]; [lia|]. reflexivity. }
    set (r0 := iroot n (Z.abs u)) in *.
    exists (if u <? 0 then - r0 else r0), (r0 ^ n =? Z.abs u).
    split; [exact Eroot|]. split.
    { unfold mpz_rootrem. rewrite Eroot. reflexivity. }
    destruct (Z.ltb_spec u 0) as [Hneg|Hpos].
    + destruct Hor as [Hc|Hodd]; [lia|].
      apply Z.odd_spec in Hodd.
      rewrite Z.abs_opp, (Z.abs_eq r0 Hr0).
      split; [exact Hr|]. split; [nia|].
      rewrite (Z.pow_opp_odd r0 n Hodd).
      rewrite (Z.abs_neq u) in * by lia.
      split.
      * intros Hex. apply Z.eqb_eq in Hex. lia.
      * intros Hex. apply Z.eqb_eq. lia.
    + rewrite (Z.abs_eq r0 Hr0).
      split; [exact Hr|]. split; [nia|].
      rewrite (Z.abs_eq u) in * by lia.
      split.
      * intros Hex. apply Z.eqb_eq in Hex. exact Hex.
      * intros Hex. apply Z.eqb_eq. exact Hex.
Qed.

(* ---------------------------------------------------------------------------------------- *)
(* perfect square / perfect power                                                            *)

Lemma perfect_square_spec u : mpz_perfect_square_p u = true <-> exists s, u = s * s.
Proof.
  unfold mpz_perfect_square_p. split.
  - intros H. apply andb_true_iff in H. destruct H as [_ H]. apply Z.eqb_eq in H.
    exists (Z.sqrt u). symmetry. exact H.
  - intros [s Es]. apply andb_true_iff.
    assert (Eabs : u = Z.abs s * Z.abs s).
    { rewrite Es. rewrite <- Z.abs_mul. symmetry. apply Z.abs_eq. nia. }
    pose proof (Z.abs_nonneg s) as Hs.
    split.
    + apply Z.leb_le. nia.
    + apply Z.eqb_eq. rewrite Eabs at 1 2. rewrite Z.sqrt_square by exact Hs.
      symmetry. exact Eabs.
Qed.

Lemma pp_scan_true : forall fuel k U oo,
  pp_scan fuel k U oo = true <->
  exists j, k <= j < k + Z.of_nat fuel /\ (oo = true -> Z.odd j = true) /\ iroot j U ^ j = U.
Proof.
  induction fuel as [|f IH]; intros k U oo.
  - simpl. split; [discriminate|]. intros [j [Hj _]]. lia.
  - cbn [pp_scan].
    destruct ((if oo then Z.odd k else true) && (iroot k U ^ k =? U)) eqn:Ec.
    + split; [intros _|reflexivity].
      apply andb_true_iff in Ec. destruct Ec as [Ho Ee]. apply Z.eqb_eq in Ee.
      exists k. split; [lia|]. split; [|exact Ee].
      intros Hoo. rewrite Hoo in Ho. exact Ho.
    + rewrite IH. split.
      * intros [j [Hj [Ho Ee]]]. exists j. split; [lia|]. split; [exact Ho|exact Ee].
      * intros [j [Hj [Ho Ee]]]. exists j. split; [|split; [exact Ho|exact Ee]].
        assert (Hne : j <> k).
        { intros Ejk. subst j. apply andb_false_iff in Ec. destruct Ec as [Ec|Ec].
          - destruct oo; [|discriminate]. rewrite (Ho eq_refl) in Ec. discriminate.
          - apply Z.eqb_neq in Ec. apply Ec. exact Ee. }
        lia.
Qed.

Lemma perfect_power_spec u :
  mpz_perfect_power_p u = true <-> exists a b, 1 < b /\ u = a ^ b.
Proof.
  unfold mpz_perfect_power_p.
  destruct (Z.eqb_spec u 0) as [E0|N0].
  { cbn [orb]. split; [intros _|reflexivity]. exists 0, 2. subst u. split; [lia|reflexivity]. }
  destruct (Z.eqb_spec u 1) as [E1|N1].
  { cbn [orb]. split; [intros _|reflexivity]. exists 1, 2. subst u. split; [lia|reflexivity]. }
  destruct (Z.eqb_spec u (-1)) as [Em|Nm].
  { cbn [orb]. split; [intros _|reflexivity]. exists (-1), 3. subst u. split; [lia|reflexivity]. }
  cbn [orb].
  assert (HU : 2 <= Z.abs u) by lia.
  pose proof (Z.log2_nonneg (Z.abs u)) as HL0.
  rewrite pp_scan_true. rewrite Z2Nat.id by exact HL0. split.
  - intros [j [Hj [Ho Ee]]].
    destruct (Z.ltb_spec u 0) as [Hneg|Hpos].
    + exists (- iroot j (Z.abs u)), j. split; [lia|].
      assert (Hodd : Z.Odd j) by (apply Z.odd_spec; apply Ho; reflexivity).
      rewrite (Z.pow_opp_odd _ _ Hodd), Ee. lia.
    + exists (iroot j (Z.abs u)), j. split; [lia|]. rewrite Ee. lia.
  - intros [a [b [Hb Eu]]].
    assert (EU : Z.abs u = Z.abs a ^ b) by (rewrite Eu; apply Z.abs_pow).
    pose proof (Z.abs_nonneg a) as Ha0.
    assert (Ha2 : 2 <= Z.abs a).
    { destruct (Z_le_gt_dec 2 (Z.abs a)) as [Hc|Hc]; [exact Hc|exfalso].
      assert (Hcases : Z.abs a = 0 \/ Z.abs a = 1) by lia.
      destruct Hcases as [Hz|Hz]; rewrite Hz in EU.
      - rewrite Z.pow_0_l in EU by lia. lia.
      - rewrite Z.pow_1_l in EU by lia. lia. }
    assert (H2b : 2 ^ b <= Z.abs u).
    { rewrite EU. apply Z.pow_le_mono_l. lia. }
    assert (HbL : b <= Z.log2 (Z.abs u)) by (apply Z.log2_le_pow2; [lia|exact H2b]).
    exists b. split; [lia|]. split.
    + intros Hneg. apply Z.ltb_lt in Hneg.
      destruct (Z.odd b) eqn:Eo; [reflexivity|exfalso].
      assert (Hev : Z.even b = true) by (rewrite <- Z.negb_odd, Eo; reflexivity).
      apply Z.even_spec in Hev.
      pose proof (Z.pow_even_nonneg a b Hev) as Hnn. lia.
    + assert (Ei : iroot b (Z.abs u) = Z.abs a).
      { apply iroot_unique; [lia|exact Ha0|]. rewrite EU. split; [lia|].
        apply Z.pow_lt_mono_l; lia. }
      rewrite Ei. symmetry. exact EU.
Qed.

Lemma perfect_tests_spec : forall u,
  (mpz_perfect_square_p u = true <-> exists s, u = s * s)
  /\ (mpz_perfect_power_p u = true <-> exists a b, 1 < b /\ u = a ^ b).
Proof.
  intros u. split; [apply perfect_square_spec|apply perfect_power_spec].
Qed.

Lemma C09_example :
  mpn_sqrtrem (2 ^ 128 - 1) = (2 ^ 64 - 1, 2 ^ 65 - 2) /\ mpz_root (-27) 3 = ROk (-3, true)
  /\ mpz_rootrem 30 3 = ROk (3, 3) /\ mpz_perfect_power_p (- 64) = true /\ mpz_perfect_power_p (-16) = false
  /\ iroot 3 (2 ^ 192 - 1) = 2 ^ 64 - 1.
Proof.
  repeat split; vm_compute; reflexivity.
Qed.
