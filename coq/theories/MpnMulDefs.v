(* MpnMulDefs.v — models behind C01: mpn_mul_1, mpn_addmul_1, mpn_submul_1
   (mpn/generic/*.c, no-nails variants), mpn_mul_basecase (the configuration compiled
   here: no native mul_2/addmul_k, so mul_1 followed by one addmul_1 per further limb
   of v), a value-level Karatsuba following mpn_kara_mul_n's sign handling, and the
   mpz multiplication wrappers.  Definitions only. *)
From Coq Require Import ZArith List Bool.
From Mpir Require Import Word Limbs MpnBasicDefs MpzDefs.
Import ListNotations.
Local Open Scope Z_scope.

(* umul_ppmm (hpl, lpl, ul, vl); lpl += cl; cl = (lpl < cl) + hpl; *rp++ = lpl *)
Fixpoint mul_1_c (u : list Z) (vl cl : Z) : list Z * Z :=
  match u with
  | [] => ([], cl)
  | ul :: u' =>
      let '(hpl, lpl) := umul_ppmm ul vl in
      let lpl1 := wrap (lpl + cl) in
      let cl1 := wrap (b2z (lpl1 <? cl) + hpl) in
      let '(r, c) := mul_1_c u' vl cl1 in (lpl1 :: r, c)
  end.
Definition mul_1 (u : list Z) (vl : Z) : list Z * Z := mul_1_c u vl 0.

(* ... rl = *rp; lpl = rl + lpl; cl += lpl < rl; *rp++ = lpl *)
Fixpoint addmul_1_c (r u : list Z) (vl cl : Z) : list Z * Z :=
  match r, u with
  | rl :: r', ul :: u' =>
      let '(hpl, lpl) := umul_ppmm ul vl in
      let lpl1 := wrap (lpl + cl) in
      let cl1 := wrap (b2z (lpl1 <? cl) + hpl) in
      let lpl2 := wrap (rl + lpl1) in
      let cl2 := wrap (cl1 + b2z (lpl2 <? rl)) in
      let '(o, c) := addmul_1_c r' u' vl cl2 in (lpl2 :: o, c)
  | _, _ => ([], cl)
  end.
Definition addmul_1 (r u : list Z) (vl : Z) : list Z * Z := addmul_1_c r u vl 0.

(* ... rl = *rp; lpl = rl - lpl; cl += lpl > rl; *rp++ = lpl *)
Fixpoint submul_1_c (r u : list Z) (vl cl : Z) : list Z * Z :=
  match r, u with
  | rl :: r', ul :: u' =>
      let '(hpl, lpl) := umul_ppmm ul vl in
      let lpl1 := wrap (lpl + cl) in
      let cl1 := wrap (b2z (lpl1 <? cl) + hpl) in
      let lpl2 := wrap (rl - lpl1) in
      let cl2 := wrap (cl1 + b2z (rl <? lpl2)) in
      let '(o, c) := submul_1_c r' u' vl cl2 in (lpl2 :: o, c)
  | _, _ => ([], cl)
  end.
Definition submul_1 (r u : list Z) (vl : Z) : list Z * Z := submul_1_c r u vl 0.

(* mpn_mul_basecase: rp[un] = mul_1 (rp, up, un, vp[0]); then for each further limb
   rp += 1; rp[un] = addmul_1 (rp, up, un, vp[j]).  [win] is {rp, un+1}. *)
Fixpoint mul_bc_rest (win u v : list Z) : list Z :=
  match v with
  | [] => win
  | vj :: v' =>
      match win with
      | [] => []
      | w0 :: wt =>
          let '(w', c) := addmul_1 wt u vj in
          w0 :: mul_bc_rest (w' ++ [c]) u v'
      end
  end.
Definition mul_basecase (u v : list Z) : list Z :=
  match v with
  | [] => repeat 0 (length u)
  | v0 :: v' => let '(r0, c0) := mul_1 u v0 in mul_bc_rest (r0 ++ [c0]) u v'
  end.

(* Karatsuba at value level, following mpn_kara_mul_n: split at n2 = n/2 limbs,
   dx = |xh - xl|, dy = |yh - yl| with suboradd recording the sign, three recursive
   products, recombination by karasub (suboradd = -1) or karaadd.  [thr] is
   MUL_KARATSUBA_THRESHOLD; below it the schoolbook product is used. *)
Fixpoint kara_mul (fuel : nat) (thr n x y : Z) : Z :=
  match fuel with
  | O => x * y
  | S f =>
      let n2 := n / 2 in
      let n3 := n - n2 in
      let xl := x mod B ^ n2 in let xh := x / B ^ n2 in
      let yl := y mod B ^ n2 in let yh := y / B ^ n2 in
      let '(dx, sx) := if xl <=? xh then (xh - xl, false) else (xl - xh, true) in
      let '(dy, sy) := if yl <=? yh then (yh - yl, false) else (yl - yh, true) in
      let suboradd_is_add := xorb sx sy in
      let rec_mul := if n3 <? thr then fun _ a b => a * b else kara_mul f thr in
      let lo := rec_mul n2 xl yl in
      let mid := rec_mul n3 dx dy in
      let hi := rec_mul n3 xh yh in
      (* karasub: r = lo + B^(2 n2) hi + B^n2 (lo + hi - mid); karaadd: ... + mid *)
      if suboradd_is_add then lo + B ^ (2 * n2) * hi + B ^ n2 * (lo + hi + mid)
      else lo + B ^ (2 * n2) * hi + B ^ n2 * (lo + hi - mid)
  end.

(* the product as un+vn limbs, whatever algorithm mpn_mul selects *)
Definition mpn_mul (u v : list Z) : list Z :=
  if (length v <=? length u)%nat then mul_basecase u v else mul_basecase v u.

Definition drop_top_zero (w : list Z) : list Z :=
  if last w 1 =? 0 then removelast w else w.

(* mpz/mul.c: sign_product = usize ^ vsize; zero operands; wsize -= (top limb == 0) *)
Definition mpz_mul (u v : mpz) : mpz :=
  if (sz u =? 0) || (sz v =? 0) then mkz 0 []
  else
    let w := drop_top_zero (mpn_mul (d u) (d v)) in
    let neg := xorb (sz u <? 0) (sz v <? 0) in
    mkz (if neg then - len w else len w) w.

(* mpz/mul_i.h: mpz_mul_ui (sml = small_mult) and mpz_mul_si (sml = |small_mult|) *)
Definition mpz_mul_1 (u : mpz) (sml : Z) (neg_mult : bool) : mpz :=
  if (sz u =? 0) || (sml =? 0) then mkz 0 []
  else
    let '(p, cy) := mul_1 (d u) sml in
    let w := if cy =? 0 then p else p ++ [cy] in
    let neg := xorb (sz u <? 0) neg_mult in
    mkz (if neg then - len w else len w) w.
Definition mpz_mul_ui (u : mpz) (v : Z) : mpz := mpz_mul_1 u v false.
Definition mpz_mul_si (u : mpz) (v : Z) : mpz := mpz_mul_1 u (Z.abs v) (v <? 0).

(* mpz/aorsmul.c, aorsmul_i.c at the level of their sign logic: w +/- x*y computed as a
   product followed by the add/sub of C03 (the in-place limb manipulations of
   mpz_aorsmul_1 are not mirrored). *)
Definition mpz_aorsmul (w x y : mpz) (is_sub : bool) : mpz :=
  if (sz x =? 0) || (sz y =? 0) then w
  else let p := mpz_mul x y in if is_sub then mpz_sub w p else mpz_add w p.
Definition mpz_addmul (w x y : mpz) : mpz := mpz_aorsmul w x y false.
Definition mpz_submul (w x y : mpz) : mpz := mpz_aorsmul w x y true.
Definition mpz_aorsmul_ui (w x : mpz) (y : Z) (is_sub : bool) : mpz :=
  if (sz x =? 0) || (y =? 0) then w
  else let p := mpz_mul_ui x y in if is_sub then mpz_sub w p else mpz_add w p.
Definition mpz_addmul_ui (w x : mpz) (y : Z) : mpz := mpz_aorsmul_ui w x y false.
Definition mpz_submul_ui (w x : mpz) (y : Z) : mpz := mpz_aorsmul_ui w x y true.

(* residues used by the correspondence check for operands too large for exact
   evaluation of the extracted model: four moduli, each below 2^64 *)
Definition res_moduli : list Z :=
  [2305843009213693951; 18446744073709551557; 18446744073709551533; 4611686018427387847].
Definition mul_residues (u v : Z) : list Z :=
  map (fun p => ((u mod p) * (v mod p)) mod p) res_moduli.
