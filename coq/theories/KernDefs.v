(* KernDefs.v — C14: the function every kernel of an mpn routine must compute, on values.
   An operand {p, n} is its value 0 <= U < B^n; a result is (value of the n destination limbs, return
   value).  These are the specifications the portable C routines are proved or executed against in the
   other properties; here every assembly kernel is executed against them.  Definitions only. *)
From Coq Require Import ZArith List Bool.
From Mpir Require Import Word BitDefs.
Import ListNotations.
Local Open Scope Z_scope.

Definition Bn (n : Z) : Z := 2 ^ (64 * n).
Definition k_add_n (n u v : Z) : Z * Z := ((u + v) mod Bn n, (u + v) / Bn n).
Definition k_sub_n (n u v : Z) : Z * Z := ((u - v) mod Bn n, - ((u - v) / Bn n)).
Definition k_addlsh_n (n u v c : Z) : Z * Z := ((u + v * 2 ^ c) mod Bn n, (u + v * 2 ^ c) / Bn n).
Definition k_sublsh_n (n u v c : Z) : Z * Z := ((u - v * 2 ^ c) mod Bn n, - ((u - v * 2 ^ c) / Bn n)).
(* (u +- v) >> 1 over n+1 bits; returns the bit shifted out *)
Definition k_rsh1add_n (n u v : Z) : Z * Z := ((u + v) / 2, (u + v) mod 2).
Definition k_rsh1sub_n (n u v : Z) : Z * Z := (((u - v) mod (2 * Bn n)) / 2, (u - v) mod 2).
Definition k_not (n u : Z) : Z := Bn n - 1 - u.
Definition k_logic (op : Z) (n u v : Z) : Z :=       (* 0 and 1 andn 2 ior 3 iorn 4 nand 5 nior 6 xor 7 xnor *)
  if op =? 0 then Z.land u v else if op =? 1 then Z.land u (k_not n v)
  else if op =? 2 then Z.lor u v else if op =? 3 then Z.lor u (k_not n v)
  else if op =? 4 then k_not n (Z.land u v) else if op =? 5 then k_not n (Z.lor u v)
  else if op =? 6 then Z.lxor u v else k_not n (Z.lxor u v).
Definition k_addadd_n (n u v w : Z) : Z * Z := ((u + v + w) mod Bn n, (u + v + w) / Bn n).
Definition k_addsub_n (n u v w : Z) : Z * Z := ((u + v - w) mod Bn n, (u + v - w) / Bn n).
Definition k_subadd_n (n u v w : Z) : Z * Z := ((u - v - w) mod Bn n, - ((u - v - w) / Bn n)).
(* sum and difference at once: returns 2 * carry + borrow *)
Definition k_sumdiff_n (n u v : Z) : Z * Z * Z :=
  ((u + v) mod Bn n, (u - v) mod Bn n, 2 * ((u + v) / Bn n) + (if u <? v then 1 else 0)).
(* negated sum and difference: s = -(u + v), d = u - v; returns borrow of the difference + 2 * (carry of the sum + borrow of the negation) *)
Definition k_nsumdiff_n (n u v : Z) : Z * Z * Z :=
  ((- (u + v)) mod Bn n, (u - v) mod Bn n,
   (if u <? v then 1 else 0) + 2 * ((u + v) / Bn n + (if (u + v) mod Bn n =? 0 then 0 else 1))).
(* mpn_modexact_1c_odd: any r in [0, d] with r B^k + a - c divisible by d for k = n or n - 1 (the caller cannot know which) *)
Definition k_modexact_ok (n a d c r : Z) : bool :=
  (0 <=? r) && (r <=? d) && (((r * Bn n + a - c) mod d =? 0) || ((r * Bn (n - 1) + a - c) mod d =? 0)).
Definition k_mul_1 (n u vl : Z) : Z * Z := ((u * vl) mod Bn n, (u * vl) / Bn n).
Definition k_addmul_1 (n r u vl : Z) : Z * Z := ((r + u * vl) mod Bn n, (r + u * vl) / Bn n).
Definition k_submul_1 (n r u vl : Z) : Z * Z := ((r - u * vl) mod Bn n, - ((r - u * vl) / Bn n)).
Definition k_lshift (n u c : Z) : Z * Z := ((u * 2 ^ c) mod Bn n, (u * 2 ^ c) / Bn n).
Definition k_rshift (n u c : Z) : Z * Z := (u / 2 ^ c, (u mod 2 ^ c) * 2 ^ (64 - c)).
Definition k_lshiftc (n u c : Z) : Z * Z := (k_not n ((u * 2 ^ c) mod Bn n), (u * 2 ^ c) / Bn n).
Definition k_store (n v : Z) : Z := v * ((Bn n - 1) / (2 ^ 64 - 1)).
Definition k_popcount (u : Z) : Z := Zpopcount u.
Definition k_mul (u v : Z) : Z := u * v.
Definition k_mullow (n u v : Z) : Z := (u * v) mod Bn n.
(* mul_2 / addmul_2: the product with a two-limb multiplier (added to the n low limbs already there): n+1 limbs and the top limb *)
Definition k_mul_2 (n u v : Z) : Z * Z := ((u * v) mod Bn (n + 1), (u * v) / Bn (n + 1)).
Definition k_addmul_2 (n r u v : Z) : Z * Z := let t := r mod Bn n + u * v in (t mod Bn (n + 1), t / Bn (n + 1)).
(* Karatsuba interpolation step: rp = L + H B^(2 n2), tp = T: rp <- rp + (L + H +- T) B^n2 *)
Definition k_kara (add : bool) (n r t : Z) : Z :=
  let n2 := n / 2 in let l := r mod Bn (2 * n2) in let h := r / Bn (2 * n2) in
  r + (l + h + (if add then t else - t)) * Bn n2.
Definition k_divexact (u d : Z) : Z := u / d.

(* ---- validity of a threshold vector (a gmp-mparam.h): every algorithm is entered only at or above the
   smallest size it accepts (the MPN_*_MINSIZE of gmp-impl.h), and the crossovers are ordered ---- *)
From Coq Require Import String.
Local Open Scope string_scope.
Fixpoint lookup (k : string) (l : list (string * Z)) : option Z :=
  match l with [] => None | (k', v) :: r => if String.eqb k k' then Some v else lookup k r end.
(* a missing key means "not tuned for this CPU: the default applies" and imposes nothing *)
Definition ge_opt (a : option Z) (b : option Z) : bool :=
  match a, b with Some x, Some y => (y <=? x)%Z | _, _ => true end.
Definition thr_valid (mins thr : list (string * Z)) : bool :=
  let t k := lookup k thr in let m k := lookup k mins in
  ge_opt (t "MUL_KARATSUBA_THRESHOLD") (m "MPN_KARA_MUL_N_MINSIZE")
  && ge_opt (t "SQR_KARATSUBA_THRESHOLD") (m "MPN_KARA_SQR_N_MINSIZE")
  && ge_opt (t "MUL_TOOM3_THRESHOLD") (m "MPN_TOOM3_MUL_N_MINSIZE") && ge_opt (t "MUL_TOOM3_THRESHOLD") (t "MUL_KARATSUBA_THRESHOLD")
  && ge_opt (t "SQR_TOOM3_THRESHOLD") (m "MPN_TOOM3_SQR_N_MINSIZE") && ge_opt (t "SQR_TOOM3_THRESHOLD") (t "SQR_KARATSUBA_THRESHOLD")
  && ge_opt (t "MUL_TOOM4_THRESHOLD") (m "MPN_TOOM4_MUL_N_MINSIZE") && ge_opt (t "MUL_TOOM4_THRESHOLD") (t "MUL_TOOM3_THRESHOLD")
  && ge_opt (t "SQR_TOOM4_THRESHOLD") (m "MPN_TOOM4_SQR_N_MINSIZE") && ge_opt (t "SQR_TOOM4_THRESHOLD") (t "SQR_TOOM3_THRESHOLD")
  && ge_opt (t "MUL_TOOM8H_THRESHOLD") (m "MPN_TOOM8H_MUL_MINSIZE") && ge_opt (t "MUL_TOOM8H_THRESHOLD") (t "MUL_TOOM4_THRESHOLD")
  && ge_opt (t "SQR_TOOM8_THRESHOLD") (m "MPN_TOOM8_SQR_N_MINSIZE") && ge_opt (t "SQR_TOOM8_THRESHOLD") (t "SQR_TOOM4_THRESHOLD")
  && ge_opt (t "MUL_FFT_FULL_THRESHOLD") (m "MPN_FFT_MUL_N_MINSIZE") && ge_opt (t "SQR_FFT_FULL_THRESHOLD") (m "MPN_FFT_MUL_N_MINSIZE")
  && ge_opt (t "MUL_FFT_FULL_THRESHOLD") (t "MUL_TOOM8H_THRESHOLD") && ge_opt (t "SQR_FFT_FULL_THRESHOLD") (t "SQR_TOOM8_THRESHOLD")
  (* the two-limbs-at-a-time Hensel division kernels are entered with at least 3 limbs (tune/tuneup.c min_size) *)
  && ge_opt (t "RSH_DIVREM_HENSEL_QR_1_THRESHOLD") (Some 3) && ge_opt (t "DIVREM_HENSEL_QR_1_THRESHOLD") (Some 2)
  (* mpz/oddfac_1.c: ASSERT (FAC_DSC_THRESHOLD >= 2 * (ODD_DOUBLEFACTORIAL_TABLE_LIMIT + 2)) - only compiled in tuning builds *)
  && ge_opt (t "FAC_DSC_THRESHOLD") (match m "ODD_DOUBLEFACTORIAL_TABLE_LIMIT" with Some l => Some (2 * (l + 2))%Z | None => None end).
