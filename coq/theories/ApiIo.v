(* ApiIo.v — correspondence entry points for C17.  Definitions only. *)
From Coq Require Import ZArith List Bool.
From Mpir Require Import Word DivDefs MpzDefs RadixDefs IoDefs IoLoopDefs ApiBasic ApiRadix.
From MpirGen Require Import Gen_Consts.
Import ListNotations.
Local Open Scope Z_scope.

(* mpz_export X size order endian nails align stale nullrop *)
(* the loop-level model of the general path of mpz/export.c on a buffer of junk (proved equal to the specification: C17_export_loop_is_spec) *)
Definition api_mpz_export : api := fun a =>
  let '(bs, c) := export_loop (fun _ => 201) (limbs_of_Z (argz a 0)) (argz a 1) (argz a 2) (argz a 3) (argz a 4) in [TB bs; TZ c].
(* mpz_import bytes count size order endian nails align *)
Definition api_mpz_import : api := fun a =>
  [TZ (import_loop (firstn (Z.to_nat (argz a 1 * argz a 2)) (argb a 0)) (argz a 1) (argz a 2) (argz a 3) (argz a 4) (argz a 5))].
Definition api_mpz_out_raw : api := fun a => let s := out_raw (argz a 0) in [TB s; TZ (Z.of_nat (length s))].
Definition raw_toks (r : Z * Z) : list tok := if fst r =? 0 then [TZ 0] else [TZ (fst r); TZ (snd r)].
Definition api_mpz_inp_raw : api := fun a => raw_toks (inp_raw (argb a 0)).

(* mpq_inp_str (mpq/inp_str.c): numerator by mpz_inp_str; a following '/' must be followed at once
   (no white space) by a denominator *)
Definition mpq_inp_str (tab : list Z) (s : list Z) (base : Z) : Z * option (Z * Z) :=
  match inp_str tab s base with
  | (n, Some v) =>
      if n =? 0 then (0, None)
      else match skipn (Z.to_nat n) s with
           | 47 :: r =>
               let '(c, _) := getc r in
               if (c =? -1) || isspace c then (0, None)
               else match inp_str tab r base with
                    | (m, Some w) => if m =? 0 then (0, None) else (n + 1 + m, Some (v, w))
                    | (_, None) => (0, None)
                    end
           | _ => (n, Some (v, 1))
           end
  | (_, None) => (0, None)
  end.
Definition prefixes (s : list Z) : list (list Z) := map (fun k => firstn k s) (seq 0 (S (length s))).
Definition str_toks (r : Z * option Z) : list tok :=
  match r with (n, Some v) => if n =? 0 then [TZ 0] else [TZ n; TZ v] | (_, None) => [TZ 0] end.
Definition qstr_toks (r : Z * option (Z * Z)) : list tok :=
  match r with (n, Some (v, w)) => if n =? 0 then [TZ 0] else [TZ n; TZ v; TZ w] | (_, None) => [TZ 0] end.
(* io_rtrunc fn base bytes : the reader's result on every prefix of the stream *)
Definition api_io_rtrunc : api := fun a =>
  let fn := argz a 0 in let base := argz a 1 in
  flat_map (fun p =>
    if fn =? 1 then str_toks (inp_str digit_value_tab p base)
    else if fn =? 2 then raw_toks (inp_raw p)
    else qstr_toks (mpq_inp_str digit_value_tab p base)) (prefixes (argb a 2)).

(* io_wfail fn args : the whole output, its length, then the return value when the stream takes only
   k bytes (k = 0 .. len+1): the failure value below len, len from there on *)
Definition mpq_str (base n d : Z) : list Z :=
  mpz_get_str n base ++ (if d =? 1 then [] else 47 :: mpz_get_str d base).
Definition ascii (l : list Z) := l.
Definition api_io_wfail : api := fun a =>
  let fn := argz a 0 in
  let full :=
    if fn =? 1 then mpz_get_str (argz a 2) (argz a 1)
    else if fn =? 2 then out_raw (argz a 1)
    else if fn =? 3 then mpq_str (argz a 1) (argz a 2) (argz a 3)
    else if fn =? 5 then [118; 61] ++ mpz_get_str (argz a 2) (if argz a 1 =? 0 then 10 else 16) ++ [59; 10]
    else mpq_str (if argz a 1 =? 0 then 10 else 16) (argz a 2) (argz a 3) ++ [33] in
  let L := Z.of_nat (length full) in
  let failv := if 5 <=? fn then -1 else 0 in
  TB full :: TZ L :: map (fun k => TZ (if Z.of_nat k <? L then failv else L)) (seq 0 (length full + 2)).

(* ---- certificates for the mpf stream functions (no model of the digit generation is needed):
   iofcheck 1 base bytes ret rets... : mpf_out_str produced [-]0.<digits>(e|@)[-]<decimal digits>,
                                       returned its length, and under a fault at k returns 0 / the length
   iofcheck 2 bytes rets...          : mpf_inp_str on every prefix of such a string: 0 for "", "-" and for a
                                       non-zero mantissa followed by an exponent marker without digits; else k
   iofcheck 3 bytes written read s1 e1 m1 s2 e2 m2 prec exact : same counts, and the value read back equals
                                       the value written (exact = 1) or agrees to the precision ---- *)
Definition is_dec (c : Z) : bool := (48 <=? c) && (c <=? 57).
Definition is_marker (base c : Z) : bool := (c =? 64) || ((base <=? 10) && ((c =? 101) || (c =? 69))).
Fixpoint split_at_marker (base : Z) (s acc : list Z) : list Z * option (list Z) :=
  match s with
  | [] => (rev acc, None)
  | c :: r => if is_marker base c then (rev acc, Some r) else split_at_marker base r (c :: acc)
  end.
Definition strip_minus (s : list Z) : list Z := match s with 45 :: r => r | _ => s end.
Definition fstr_format_ok (base : Z) (s : list Z) : bool :=
  match strip_minus s with
  | 48 :: 46 :: r =>
      match split_at_marker base r [] with
      | (m, Some e) =>
          (* zero is written with an empty mantissa: "0.e0" *)
          forallb (fun c => dv digit_value_tab (if 36 <? base then 224 else 0) c <? base) m
          && (let e' := strip_minus e in negb (Nat.eqb (length e') 0) && forallb is_dec e')
      | (_, None) => false
      end
  | _ => false
  end.
Definition fstr_prefix_ret (base : Z) (p : list Z) : Z :=
  let body := strip_minus p in
  match body with
  | [] => 0
  | _ =>
      match split_at_marker base (tl0 body) [] with     (* the search for a marker never looks at the first character *)
      | (m, Some e) =>
          let nonzero := existsb (fun c => negb ((c =? 48) || (c =? 46))) (hd0 body :: m) in
          let e' := match e with 45 :: r => r | 43 :: r => r | _ => e end in
          if nonzero && (match e' with [] => true | c :: _ => negb (is_dec c) end) then 0 else Z.of_nat (length p)
      | (_, None) => Z.of_nat (length p)
      end
  end.
Fixpoint toks_z (l : list tok) : list Z := match l with [] => [] | t :: r => tz t :: toks_z r end.
Definition mant_val (s e m : Z) : Z * Z :=       (* value = sgn * m * B^(e - |s|) as num / den *)
  let k := e - Z.abs s in
  let mm := if s <? 0 then - m else m in
  if 0 <=? k then (mm * B ^ k, 1) else (mm, B ^ (- k)).
Definition api_iofcheck : api := fun a =>
  let kind := argz a 0 in
  let ok :=
    if kind =? 1 then
      let base := argz a 1 in let s := argb a 2 in let L := Z.of_nat (length s) in
      fstr_format_ok base s && (argz a 3 =? L)
      && forallb (fun p => snd p =? (if Z.of_nat (fst p) <? L then 0 else L)) (combine (seq 0 (length s + 2)) (toks_z (skipn 4 a)))
      && (Nat.eqb (length (skipn 4 a)) (length s + 2))
    else if kind =? 2 then
      let base := argz a 1 in let s := argb a 2 in
      forallb (fun p => snd p =? fstr_prefix_ret base (firstn (fst p) s)) (combine (seq 0 (length s + 1)) (toks_z (skipn 3 a)))
      && (Nat.eqb (length (skipn 3 a)) (length s + 1))
    else
      let s := argb a 1 in let L := Z.of_nat (length s) in
      let v1 := mant_val (argz a 4) (argz a 5) (argz a 6) in
      let v2 := mant_val (argz a 7) (argz a 8) (argz a 9) in
      let p := 64 * (argz a 10 - 1) in
      (argz a 2 =? L) && (argz a 3 =? L)
      && (if argz a 11 =? 1 then (fst v1 * snd v2 =? fst v2 * snd v1)
          else if fst v1 =? 0 then fst v2 =? 0
          else Z.abs (fst v2 * snd v1 - fst v1 * snd v2) * 2 ^ (p - 2) <? Z.abs (fst v1) * snd v2) in
  [TZ (b2z ok)].
