From Coq Require Import ZArith List Bool Lia.
From Mpir Require Import AliasDefs.
Import ListNotations.
Local Open Scope Z_scope.

Lemma supd_same st k v : supd st k v k = v.
Proof. unfold supd. rewrite Nat.eqb_refl. reflexivity. Qed.
Lemma supd_other st k v x : x <> k -> supd st k v x = st x.
Proof. intros H. unfold supd. destruct (Nat.eqb_spec x k); [contradiction|reflexivity]. Qed.

(* whatever subset of the inputs the output key coincides with, the output holds the function of
   the INITIAL input values, and every other variable (in particular every input that is not the
   output) keeps its value *)
Lemma call1_alias : forall fn st w ins,
  call1 fn st w ins w = fn (map st ins)
  /\ forall x, x <> w -> call1 fn st w ins x = st x.
Proof.
  intros fn st w ins. unfold call1. split.
  - apply supd_same.
  - intros x Hx. apply supd_other. exact Hx.
Qed.

Lemma call2_alias : forall fn st w1 w2 ins, w1 <> w2 ->
  call2 fn st w1 w2 ins w1 = fst (fn (map st ins))
  /\ call2 fn st w1 w2 ins w2 = snd (fn (map st ins))
  /\ forall x, x <> w1 -> x <> w2 -> call2 fn st w1 w2 ins x = st x.
Proof.
  intros fn st w1 w2 ins Hne. unfold call2. repeat split.
  - rewrite supd_other by exact Hne. apply supd_same.
  - apply supd_same.
  - intros x H1 H2. rewrite supd_other by exact H2. apply supd_other. exact H1.
Qed.

(* equal values in distinct variables give the same result as one variable passed twice *)
Lemma call1_distinct_vs_aliased : forall fn st st' w w' ins ins',
  map st ins = map st' ins' -> call1 fn st w ins w = call1 fn st' w' ins' w'.
Proof.
  intros fn st st' w w' ins ins' H. unfold call1. rewrite !supd_same, H. reflexivity.
Qed.
