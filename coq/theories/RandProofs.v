(* RandProofs.v — proofs behind C19 (see props/Properties_C19.v). *)
From Coq Require Import ZArith List Bool Lia.
From Mpir Require Import Word RandDefs.
From MpirGen Require Import Gen_Rand.
Import ListNotations.
Local Open Scope Z_scope.
Local Arguments Z.pow : simpl never.

Local Ltac dlia := Z.div_mod_to_equations; lia.

(* ---------------- 32-bit bounds of the bit operations ---------------- *)
Definition b32 (x : Z) : Prop := 0 <= x < 2 ^ 32.

Lemma b32_log2 : forall x, 0 <= x -> (x < 2 ^ 32 <-> Z.log2 x < 32).
Proof.
  intros x Hx. destruct (Z.eq_dec x 0) as [->|Hne].
  - split; intros _; reflexivity.
  - apply Z.log2_lt_pow2; lia.
Qed.

Lemma b32_const : forall c, (0 <=? c) && (c <? 2 ^ 32) = true -> b32 c.
Proof.
  intros c H. apply andb_true_iff in H. destruct H as [H1 H2].
  apply Z.leb_le in H1. apply Z.ltb_lt in H2. split; assumption.
Qed.

Lemma b32_lxor : forall a b, b32 a -> b32 b -> b32 (Z.lxor a b).
Proof.
  unfold b32. intros a b [Ha0 Ha] [Hb0 Hb]. split.
  - apply Z.lxor_nonneg; tauto.
  - apply b32_log2.
    + apply Z.lxor_nonneg; tauto.
    + pose proof (Z.log2_lxor a b Ha0 Hb0) as HL.
      apply b32_log2 in Ha; [|assumption]. apply b32_log2 in Hb; [|assumption]. lia.
Qed.

Lemma b32_lor : forall a b, b32 a -> b32 b -> b32 (Z.lor a b).
Proof.
  unfold b32. intros a b [Ha0 Ha] [Hb0 Hb]. split.
  - apply Z.lor_nonneg; tauto.
  - apply b32_log2.
    + apply Z.lor_nonneg; tauto.
    + pose proof (Z.log2_lor a b Ha0 Hb0) as HL.
      apply b32_log2 in Ha; [|assumption]. apply b32_log2 in Hb; [|assumption]. lia.
Qed.

Lemma b32_land_r : forall a b, 0 <= a -> b32 b -> b32 (Z.land a b).
Proof.
  unfold b32. intros a b Ha0 [Hb0 Hb]. split.
  - apply Z.land_nonneg; tauto.
  - apply b32_log2.
    + apply Z.land_nonneg; tauto.
    + pose proof (Z.log2_land a b Ha0 Hb0) as HL.
      apply b32_log2 in Hb; [|assumption]. lia.
Qed.

Lemma b32_shiftr : forall a k, 0 <= k -> b32 a -> b32 (Z.shiftr a k).
Proof.
  unfold b32. intros a k Hk [Ha0 Ha].
  assert (Hp : 0 < 2 ^ k) by (apply Z.pow_pos_nonneg; lia).
  rewrite Z.shiftr_div_pow2 by assumption. split.
  - apply Z.div_pos; lia.
  - apply Z.le_lt_trans with a; [|assumption].
    apply Z.div_le_upper_bound; [assumption|]. nia.
Qed.

Lemma b32_0 : b32 0.
Proof. apply b32_const; reflexivity. Qed.

Lemma mt_twist_b32 : forall A a b m, b32 A -> b32 a -> b32 b -> b32 m -> b32 (mt_twist A a b m).
Proof.
  intros A a b m HA Ha Hb Hm. unfold mt_twist.
  set (y := Z.lor (Z.land a 2147483648) (Z.land b 2147483647)).
  assert (Hy : b32 y).
  { unfold y. apply b32_lor; apply b32_land_r.
    - apply Ha. - apply b32_const; reflexivity.
    - apply Hb. - apply b32_const; reflexivity. }
  clearbody y. cbv zeta.
  apply b32_lxor.
  - apply b32_lxor; [assumption|]. apply b32_shiftr; [lia|assumption].
  - destruct (Z.odd y); [assumption | apply b32_0].
Qed.

Lemma temper_step_r : forall y k, 0 <= k -> b32 y -> b32 (Z.lxor y (Z.shiftr y k)).
Proof. intros y k Hk Hy. apply b32_lxor; [assumption|]. apply b32_shiftr; assumption. Qed.

Lemma temper_step_l : forall y k c m, 0 <= k -> b32 y -> b32 m ->
  b32 (Z.lxor y (Z.land (Z.land (Z.shiftl y k) c) m)).
Proof.
  intros y k c m Hk Hy Hm. apply b32_lxor; [assumption|]. apply b32_land_r; [|assumption].
  apply Z.land_nonneg. left. apply Z.shiftl_nonneg. apply Hy.
Qed.

Lemma mt_temper_b32 : forall m1 m2 y, b32 m1 -> b32 m2 -> b32 y -> b32 (mt_temper m1 m2 y).
Proof.
  intros m1 m2 y H1 H2 Hy. unfold mt_temper. cbv zeta.
  apply temper_step_r; [lia|].
  apply temper_step_l; [lia| |assumption].
  apply temper_step_l; [lia| |assumption].
  apply temper_step_r; [lia|assumption].
Qed.

(* ---------------- buffer updates ---------------- *)
Lemma upd_length : forall l i v, length (upd l i v) = length l.
Proof. induction l as [|x r IH]; intros [|j] v; simpl; auto. Qed.

Lemma upd_Forall : forall (P : Z -> Prop) l i v, Forall P l -> P v -> Forall P (upd l i v).
Proof.
  induction l as [|x r IH]; intros [|j] v HF Hv; simpl; auto;
    inversion HF; subst; constructor; auto.
Qed.

Lemma nthz_Forall : forall (P : Z -> Prop) l i, Forall P l -> P 0 -> P (nthz l i).
Proof.
  intros P l i HF H0. unfold nthz.
  destruct (nth_in_or_default (Z.to_nat i) l 0) as [Hin | Hd].
  - rewrite Forall_forall in HF. auto.
  - rewrite Hd. assumption.
Qed.

Lemma fold_upd_inv : forall (f : list Z -> nat -> list Z),
  (forall mt k, Forall b32 mt -> length (f mt k) = length mt /\ Forall b32 (f mt k)) ->
  forall ks mt, Forall b32 mt ->
  length (fold_left f ks mt) = length mt /\ Forall b32 (fold_left f ks mt).
Proof.
  intros f Hf. induction ks as [|k ks IH]; intros mt HF; simpl.
  - auto.
  - destruct (Hf mt k HF) as [L F]. destruct (IH (f mt k) F) as [L2 F2].
    split; [congruence | assumption].
Qed.

Lemma mt_recalc_wf : forall N M A mt, b32 A -> Forall b32 mt ->
  length (mt_recalc N M A mt) = length mt /\ Forall b32 (mt_recalc N M A mt).
Proof.
  intros N M A mt HA HF. unfold mt_recalc. apply fold_upd_inv; [|assumption].
  intros mt' k HF'. cbv beta zeta. split.
  - apply upd_length.
  - apply upd_Forall; [assumption|].
    apply mt_twist_b32; try assumption; apply nthz_Forall; try assumption; apply b32_0.
Qed.

(* ---------------- the generator ---------------- *)
Section MTP.
Variables N M A m1 m2 : Z.
Hypothesis HA : b32 A.
Hypothesis Hm1 : b32 m1.
Hypothesis Hm2 : b32 m2.
Local Notation next := (mt_next N M A m1 m2).
Local Notation words := (mt_words N M A m1 m2).

Lemma mt_next_wf : forall st, mt_wf N st -> b32 (fst (next st)) /\ mt_wf N (snd (next st)).
Proof.
  intros st Hwf. unfold mt_next.
  set (st' := if N <=? mt_i st then _ else st).
  assert (Hwf' : mt_wf N st').
  { unfold st'. destruct (N <=? mt_i st); [|assumption].
    destruct Hwf as (HL & HF & Hi). unfold mt_wf. cbn [mt_buf mt_i].
    destruct (mt_recalc_wf N M A (mt_buf st) HA HF) as [L F].
    rewrite L. repeat split; [assumption | assumption | lia]. }
  clearbody st'. cbv zeta. cbn [fst snd].
  destruct Hwf' as (HL & HF & Hi). split.
  - apply mt_temper_b32; try assumption. apply nthz_Forall; [assumption | apply b32_0].
  - unfold mt_wf. cbn [mt_buf mt_i]. repeat split; [assumption | assumption | lia].
Qed.

Lemma mt_words_S : forall k st,
  words (S k) st = (fst (next st) + 2 ^ 32 * fst (words k (snd (next st))), snd (words k (snd (next st)))).
Proof.
  intros k st. cbn [mt_words]. destruct (next st) as [y st1]. cbn [fst snd].
  destruct (words k st1); reflexivity.
Qed.

Lemma mt_words_wf : forall k st, mt_wf N st ->
  0 <= fst (words k st) < 2 ^ (32 * Z.of_nat k) /\ mt_wf N (snd (words k st)).
Proof.
  induction k as [|k IH]; intros st Hwf.
  - cbn [mt_words fst snd]. change (2 ^ (32 * Z.of_nat 0)) with 1. split; [lia | assumption].
  - rewrite mt_words_S. destruct (mt_next_wf st Hwf) as [[Hy0 Hy] Hw].
    destruct (IH _ Hw) as [[Hr0 Hr] Hw2]. cbn [fst snd]. split; [|assumption].
    replace (32 * Z.of_nat (S k)) with (32 + 32 * Z.of_nat k) by lia.
    rewrite Z.pow_add_r by lia.
    set (T := 2 ^ 32) in *. set (P := 2 ^ (32 * Z.of_nat k)) in *.
    assert (0 < T) by (unfold T; reflexivity). nia.
Qed.

Lemma mt_words_app : forall a b st,
  words (a + b) st =
  (fst (words a st) + 2 ^ (32 * Z.of_nat a) * fst (words b (snd (words a st))),
   snd (words b (snd (words a st)))).
Proof.
  induction a as [|a IH]; intros b st.
  - cbn [mt_words plus fst snd]. change (2 ^ (32 * Z.of_nat 0)) with 1.
    destruct (words b st) as [v s]. cbn [fst snd]. f_equal. lia.
  - change (S a + b)%nat with (S (a + b)). rewrite !mt_words_S. rewrite IH. cbn [fst snd].
    f_equal. replace (32 * Z.of_nat (S a)) with (32 + 32 * Z.of_nat a) by lia.
    rewrite Z.pow_add_r by lia. ring.
Qed.

Lemma mod_split : forall P Q lo y, 0 < P -> 0 < Q -> 0 <= lo < P ->
  (lo + P * y) mod (P * Q) = lo + P * (y mod Q).
Proof.
  intros P Q lo y HP HQ Hlo. symmetry. apply Z.mod_unique_pos with (q := y / Q).
  - pose proof (Z.mod_pos_bound y Q HQ). nia.
  - rewrite (Z.div_mod y Q) at 1 by lia. ring.
Qed.

Lemma mt_stream_sec : forall st nbits, mt_wf N st -> 0 <= nbits ->
  randget_mt N M A m1 m2 st nbits =
  (fst (words (Z.to_nat ((nbits + 31) / 32)) st) mod 2 ^ nbits,
   snd (words (Z.to_nat ((nbits + 31) / 32)) st)).
Proof.
  intros st nbits Hwf Hnb. unfold randget_mt.
  set (nl := nbits / 64). set (rb := nbits mod 64).
  assert (Hdm : nbits = 64 * nl + rb) by (apply Z.div_mod; lia).
  assert (Hrb : 0 <= rb < 64) by (apply Z.mod_pos_bound; lia).
  assert (Hnl : 0 <= nl) by (apply Z.div_pos; lia).
  clearbody nl rb. cbv zeta.
  set (a := Z.to_nat (2 * nl)).
  assert (Ha : 32 * Z.of_nat a = 64 * nl) by (unfold a; lia).
  pose proof (mt_words_wf a st Hwf) as Hw. rewrite Ha in Hw.
  destruct (words a st) as [lo st1] eqn:E. cbn [fst snd] in Hw.
  destruct Hw as [Hlo Hw1].
  assert (HP : 0 < 2 ^ (64 * nl)) by (apply Z.pow_pos_nonneg; lia).
  destruct (Z.eqb_spec rb 0) as [Hr0 | Hr0].
  - (* whole limbs *)
    assert (Hk : Z.to_nat ((nbits + 31) / 32) = a).
    { unfold a. f_equal. dlia. }
    rewrite Hk, E. cbn [fst snd]. f_equal.
    replace nbits with (64 * nl) by lia. symmetry. apply Z.mod_small. assumption.
  - destruct (Z.ltb_spec rb 32) as [Hr1 | Hr1].
    + (* one output, masked *)
      assert (Hk : Z.to_nat ((nbits + 31) / 32) = (a + 1)%nat).
      { unfold a. replace ((nbits + 31) / 32) with (2 * nl + 1) by dlia. lia. }
      rewrite Hk, mt_words_app, E. cbn [fst snd]. rewrite mt_words_S. cbn [mt_words fst snd].
      destruct (next st1) as [y st2]. cbn [fst snd]. f_equal.
      rewrite Ha, Z.mul_0_r, Z.add_0_r. rewrite Hdm.
      rewrite Z.pow_add_r by lia. rewrite mod_split; [reflexivity | assumption | | assumption].
      apply Z.pow_pos_nonneg; lia.
    + pose proof (mt_next_wf st1 Hw1) as Hn1.
      destruct (next st1) as [y st2] eqn:E1. cbn [fst snd] in Hn1. destruct Hn1 as [Hy Hw2].
      destruct (Z.ltb_spec 32 rb) as [Hr2 | Hr2].
      * (* two outputs, the second masked *)
        assert (Hk : Z.to_nat ((nbits + 31) / 32) = (a + 2)%nat).
        { unfold a. replace ((nbits + 31) / 32) with (2 * nl + 2) by dlia. lia. }
        rewrite Hk, mt_words_app, E. cbn [fst snd]. rewrite !mt_words_S. rewrite E1. cbn [mt_words fst snd].
        destruct (next st2) as [y2 st3]. cbn [fst snd]. f_equal.
        rewrite Ha, Z.mul_0_r, Z.add_0_r. rewrite Hdm.
        rewrite Z.pow_add_r by lia.
        assert (HR : 0 < 2 ^ (rb - 32)) by (apply Z.pow_pos_nonneg; lia).
        replace (2 ^ rb) with (2 ^ 32 * 2 ^ (rb - 32))
          by (rewrite <- Z.pow_add_r by lia; f_equal; lia).
        rewrite mod_split; [| assumption | | assumption].
        2:{ apply Z.mul_pos_pos; [reflexivity | assumption]. }
        rewrite mod_split; [reflexivity | reflexivity | assumption | apply Hy].
      * (* exactly one output *)
        assert (Hrb32 : rb = 32) by lia.
        assert (Hk : Z.to_nat ((nbits + 31) / 32) = (a + 1)%nat).
        { unfold a. replace ((nbits + 31) / 32) with (2 * nl + 1) by dlia. lia. }
        rewrite Hk, mt_words_app, E. cbn [fst snd]. rewrite mt_words_S. rewrite E1. cbn [mt_words fst snd].
        f_equal. rewrite Ha, Z.mul_0_r, Z.add_0_r. symmetry. apply Z.mod_small.
        rewrite Hdm, Hrb32. rewrite Z.pow_add_r by lia.
        set (P := 2 ^ (64 * nl)) in *. unfold b32 in Hy. set (T := 2 ^ 32) in *.
        assert (0 < T) by (unfold T; reflexivity). nia.
Qed.

Lemma mt_range_sec : forall st nbits, mt_wf N st -> 0 <= nbits ->
  0 <= fst (randget_mt N M A m1 m2 st nbits) < 2 ^ nbits /\ mt_wf N (snd (randget_mt N M A m1 m2 st nbits)).
Proof.
  intros st nbits Hwf Hnb. rewrite mt_stream_sec by assumption. cbn [fst snd]. split.
  - apply Z.mod_pos_bound. apply Z.pow_pos_nonneg; lia.
  - apply mt_words_wf. assumption.
Qed.
End MTP.

Lemma mt_range : forall N M A m1 m2 st nbits,
  0 < M < N -> 0 <= A < 2 ^ 32 -> 0 <= m1 < 2 ^ 32 -> 0 <= m2 < 2 ^ 32 -> mt_wf N st -> 0 <= nbits ->
  0 <= fst (randget_mt N M A m1 m2 st nbits) < 2 ^ nbits /\ mt_wf N (snd (randget_mt N M A m1 m2 st nbits)).
Proof. intros N M A m1 m2 st nbits _ HA H1 H2 Hwf Hnb. apply mt_range_sec; assumption. Qed.

Lemma mt_stream : forall N M A m1 m2 st nbits,
  0 < M < N -> 0 <= A < 2 ^ 32 -> 0 <= m1 < 2 ^ 32 -> 0 <= m2 < 2 ^ 32 -> mt_wf N st -> 0 <= nbits ->
  let k := Z.to_nat ((nbits + 31) / 32) in
  randget_mt N M A m1 m2 st nbits = (fst (mt_words N M A m1 m2 k st) mod 2 ^ nbits, snd (mt_words N M A m1 m2 k st)).
Proof. intros N M A m1 m2 st nbits _ HA H1 H2 Hwf Hnb k. apply mt_stream_sec; assumption. Qed.

Lemma mt_default_wf :
  0 < mt_M < mt_N /\ 0 <= mt_MATRIX_A < 2 ^ 32 /\ 0 <= mt_MASK_1 < 2 ^ 32 /\ 0 <= mt_MASK_2 < 2 ^ 32
  /\ mt_wf mt_N (mkmt mt_default_state (mt_WARM_UP mod mt_N)).
Proof.
  split; [split; reflexivity|].
  split; [apply b32_const; reflexivity|].
  split; [apply b32_const; reflexivity|].
  split; [apply b32_const; reflexivity|].
  unfold mt_wf. cbn [mt_buf mt_i]. split; [vm_compute; reflexivity|]. split.
  - assert (Hb : forallb (fun w => (0 <=? w) && (w <? 2 ^ 32)) mt_default_state = true)
      by (vm_compute; reflexivity).
    rewrite forallb_forall in Hb. apply Forall_forall. intros w Hw.
    apply b32_const. apply Hb. assumption.
  - vm_compute. discriminate.
Qed.

Lemma lc_schemes_ok :
  forallb (fun size => match lc_pick lc_schemes size with Some (m, a, c) => (size <=? m / 2) && (0 <? a) && (a <? 2 ^ m) | None => false end)
          (map Z.of_nat (seq 1 128)) = true
  /\ lc_pick lc_schemes 129 = None.
Proof. split; vm_compute; reflexivity. Qed.

(* every row of the REGENERATED table of randlc2s.c satisfies the conditions under which x -> a x + c (mod 2^m) has the full period
   2^m (Hull and Dobell: c odd, a = 1 mod 4; the table even has a = 5 mod 8), and a is reduced *)
Lemma lc_schemes_full_period_conditions :
  forallb (fun s => let '(m, a, c) := s in Z.odd c && (a mod 8 =? 5) && (0 <? a) && (a <? 2 ^ m) && (0 <=? c) && (c <? 2 ^ m) && (2 <=? m)) lc_schemes = true.
Proof. vm_compute. reflexivity. Qed.

(* with c odd the state 0 is not a fixed point (a generator with c = 0 started from a seed divisible by 2^m stays 0 for ever),
   and with a odd the step is a bijection of [0, 2^m) *)
Lemma lc_step_leaves_zero : forall m a c, 1 <= m -> Z.odd c = true -> (a * 0 + c) mod 2 ^ m <> 0.
Proof.
  intros m a c Hm Hc. rewrite Z.mul_0_r, Z.add_0_l. intros H.
  assert (Hp : 2 ^ m = 2 * 2 ^ (m - 1)) by (rewrite <- Z.pow_succ_r by lia; f_equal; lia).
  assert (Hpos : 0 < 2 ^ (m - 1)) by (apply Z.pow_pos_nonneg; lia).
  pose proof (Z.div_mod c (2 ^ m) ltac:(lia)) as E. rewrite H, Z.add_0_r, Hp in E.
  assert (Ev : Z.even c = true).
  { rewrite E. rewrite <- Z.mul_assoc. rewrite Z.even_mul. reflexivity. }
  rewrite <- Z.negb_even in Hc. rewrite Ev in Hc. discriminate.
Qed.

(* ---------------- linear congruential ---------------- *)
Lemma lc_step_range : forall st, 1 <= lc_m st -> 0 <= fst (lc_step st) < 2 ^ (lc_chunk st).
Proof.
  intros st Hm. unfold lc_step, lc_chunk. cbv zeta. cbn [fst].
  set (m := lc_m st) in *. set (x := (lc_a st * lc_x st + lc_c st) mod 2 ^ m).
  assert (Hx : 0 <= x < 2 ^ m) by (apply Z.mod_pos_bound; apply Z.pow_pos_nonneg; lia).
  clearbody x.
  assert (Hs : m = m / 2 + (m + 1) / 2) by dlia.
  assert (H1 : 0 <= m / 2) by dlia. assert (H2 : 0 <= (m + 1) / 2) by dlia.
  assert (Hp : 0 < 2 ^ (m / 2)) by (apply Z.pow_pos_nonneg; lia).
  split.
  - apply Z.div_pos; lia.
  - apply Z.div_lt_upper_bound; [assumption|]. rewrite <- Z.pow_add_r by lia.
    rewrite <- Hs. lia.
Qed.

Lemma lc_highs_S : forall k st, lc_highs (S k) st = fst (lc_step st) :: lc_highs k (snd (lc_step st)).
Proof. reflexivity. Qed.

Lemma cat_le_cons : forall w d l, cat_le w (d :: l) = d + 2 ^ w * cat_le w l.
Proof. reflexivity. Qed.

Lemma lc_highs_range : forall k st, 1 <= lc_m st ->
  Forall (fun v => 0 <= v < 2 ^ (lc_chunk st)) (lc_highs k st).
Proof.
  induction k as [|k IH]; intros st Hm.
  - constructor.
  - rewrite lc_highs_S. constructor.
    + apply lc_step_range; assumption.
    + change (lc_chunk st) with (lc_chunk (snd (lc_step st))). apply IH. exact Hm.
Qed.

Lemma lc_collect_spec : forall nbits fuel st pos acc, 1 <= lc_m st -> 0 <= pos ->
  (Z.to_nat ((nbits - pos + lc_chunk st - 1) / lc_chunk st) < fuel)%nat ->
  fst (lc_collect fuel st pos nbits acc) =
  acc + 2 ^ pos * cat_le (lc_chunk st) (lc_highs (Z.to_nat ((nbits - pos + lc_chunk st - 1) / lc_chunk st)) st).
Proof.
  intros nbits. induction fuel as [|f IH]; intros st pos acc Hm Hpos Hf; [lia|].
  set (c := lc_chunk st) in *.
  assert (Hc : 1 <= c) by (unfold c, lc_chunk; dlia).
  cbn [lc_collect]. destruct (Z.leb_spec nbits pos) as [E | E].
  - assert (Hq : (nbits - pos + c - 1) / c < 1) by (apply Z.div_lt_upper_bound; lia).
    replace (Z.to_nat ((nbits - pos + c - 1) / c)) with 0%nat by lia.
    cbn [lc_highs fst]. unfold cat_le. cbn [fold_right]. lia.
  - set (q := (nbits - (pos + c) + c - 1) / c) in *.
    assert (Hq0 : 0 <= q) by (unfold q; apply Z.div_pos; lia).
    assert (Hq : (nbits - pos + c - 1) / c = q + 1).
    { unfold q. replace (nbits - pos + c - 1) with ((nbits - (pos + c) + c - 1) + 1 * c) by ring.
      rewrite Z.div_add by lia. reflexivity. }
    rewrite Hq in *. replace (Z.to_nat (q + 1)) with (S (Z.to_nat q)) in * by lia.
    rewrite lc_highs_S, cat_le_cons.
    specialize (IH (snd (lc_step st)) (pos + c) (acc + 2 ^ pos * fst (lc_step st))).
    change (lc_chunk (snd (lc_step st))) with c in IH. fold q in IH.
    change (lc_m (snd (lc_step st))) with (lc_m st) in IH.
    specialize (IH Hm ltac:(lia) ltac:(lia)).
    destruct (lc_step st) as [v st'] eqn:Es. cbn [fst snd] in *.
    fold c. rewrite IH. rewrite Z.pow_add_r by lia. ring.
Qed.

Lemma lc_high_half : forall st nbits, 1 <= lc_m st -> 0 <= nbits ->
  let chunk := lc_chunk st in
  let k := Z.to_nat ((nbits + chunk - 1) / chunk) in
  fst (randget_lc st nbits) = cat_le chunk (lc_highs k st) mod 2 ^ nbits
  /\ 0 <= fst (randget_lc st nbits) < 2 ^ nbits
  /\ Forall (fun v => 0 <= v < 2 ^ chunk) (lc_highs k st).
Proof.
  intros st nbits Hm Hnb chunk k.
  assert (Hc : 1 <= chunk) by (unfold chunk, lc_chunk; dlia).
  assert (E : fst (randget_lc st nbits) = fst (lc_collect (S (Z.to_nat nbits)) st 0 nbits 0) mod 2 ^ nbits).
  { unfold randget_lc. destruct (lc_collect (S (Z.to_nat nbits)) st 0 nbits 0); reflexivity. }
  rewrite E.
  pose proof (lc_collect_spec nbits (S (Z.to_nat nbits)) st 0 0 Hm (Z.le_refl 0)) as HS.
  fold chunk in HS. rewrite Z.sub_0_r in HS. fold k in HS.
  assert (Hf : (k < S (Z.to_nat nbits))%nat).
  { assert ((nbits + chunk - 1) / chunk < nbits + 1) by (apply Z.div_lt_upper_bound; nia).
    unfold k. lia. }
  specialize (HS Hf). rewrite HS. rewrite Z.pow_0_r, Z.add_0_l, Z.mul_1_l.
  split; [reflexivity|]. split.
  - apply Z.mod_pos_bound. apply Z.pow_pos_nonneg; lia.
  - apply lc_highs_range. assumption.
Qed.

(* ---------------- functions over any generator ---------------- *)
Lemma urandomm_accept : forall n, 1 <= n ->
  let nbits := bitlen n - (if pow2_p n then 1 else 0) in 0 <= nbits /\ n <= 2 ^ nbits < 2 * n.
Proof.
  intros n Hn. unfold bitlen, pow2_p.
  destruct (Z.eqb_spec n 0) as [|_]; [lia|].
  pose proof (Z.log2_spec n ltac:(lia)) as Hs. pose proof (Z.log2_nonneg n) as Hl.
  rewrite Z.pow_succ_r in Hs by assumption.
  destruct (Z.eqb_spec n (2 ^ Z.log2 n)) as [E | E]; cbv zeta.
  - replace (Z.log2 n + 1 - 1) with (Z.log2 n) by lia. rewrite <- E. lia.
  - replace (Z.log2 n + 1 - 0) with (Z.succ (Z.log2 n)) by lia.
    rewrite Z.pow_succ_r by assumption. lia.
Qed.

Section OverP.
Variable St : Type.
Variable get : St -> Z -> Z * St.
Hypothesis get_range : forall st nbits, 0 <= nbits -> 0 <= fst (get st nbits) < 2 ^ nbits.

Lemma reject_loop_range : forall fuel st nbits n r st', 0 <= nbits ->
  reject_loop St get fuel st nbits n = Some (r, st') -> 0 <= r < n.
Proof.
  induction fuel as [|f IH]; intros st nbits n r st' Hnb H; cbn [reject_loop] in H; [discriminate|].
  pose proof (get_range st nbits Hnb) as G.
  destruct (get st nbits) as [r0 st0]. cbn [fst] in G.
  destruct (Z.ltb_spec r0 n) as [E | E].
  - inversion H; subst. lia.
  - eapply IH; eassumption.
Qed.

Lemma urandomm_range_s : forall fuel st n r st', n <> 0 ->
  mpz_urandomm St get fuel st n = Some (r, st') -> 0 <= r < Z.abs n.
Proof.
  intros fuel st n r st' Hn H. unfold mpz_urandomm in H. cbv zeta in H.
  assert (Hn1 : 1 <= Z.abs n) by lia.
  destruct (urandomm_accept (Z.abs n) Hn1) as [Hb _].
  destruct (Z.eqb_spec (bitlen (Z.abs n) - (if pow2_p (Z.abs n) then 1 else 0)) 0) as [E | E].
  - inversion H; subst. lia.
  - eapply reject_loop_range; eassumption.
Qed.

Lemma bitlen_nonneg : forall n, 0 <= bitlen n.
Proof.
  intros n. unfold bitlen. destruct (n =? 0); [lia|]. pose proof (Z.log2_nonneg n). lia.
Qed.

Lemma mpn_urandomm_range_s : forall fuel st n r st', 1 <= n ->
  mpn_urandomm St get fuel st n = Some (r, st') -> 0 <= r < n.
Proof.
  intros fuel st n r st' Hn H. unfold mpn_urandomm in H.
  eapply reject_loop_range; [apply bitlen_nonneg | eassumption].
Qed.

Lemma urandomm_ui_loop_range : forall k st bits n last, 0 <= bits -> 2 ^ bits < 2 * n ->
  (k = O -> n <= last < 2 * n) ->
  0 <= fst (urandomm_ui_loop St get k st bits n last) < n.
Proof.
  induction k as [|k IH]; intros st bits n last Hb Hn Hl; cbn [urandomm_ui_loop].
  - cbn [fst]. specialize (Hl eq_refl). lia.
  - pose proof (get_range st bits Hb) as G.
    destruct (get st bits) as [r st0]. cbn [fst] in G.
    destruct (Z.ltb_spec r n) as [E | E].
    + cbn [fst]. lia.
    + apply IH; try assumption. intros _. lia.
Qed.

Lemma urandomm_ui_range_s : forall st n, 1 <= n < 2 ^ 64 -> 0 <= fst (urandomm_ui St get st n) < n.
Proof.
  intros st n [Hn _]. unfold urandomm_ui.
  destruct (urandomm_accept n Hn) as [Hb [_ H2]].
  apply urandomm_ui_loop_range; try assumption. intros E; discriminate E.
Qed.

Lemma urandomb_ui_range_s : forall st bits, 0 <= bits ->
  0 <= fst (urandomb_ui St get st bits) < 2 ^ (Z.min bits 64).
Proof. intros st bits Hb. unfold urandomb_ui. apply get_range. lia. Qed.
End OverP.

Lemma urandomm_range : forall (St : Type) (get : St -> Z -> Z * St),
  (forall st nbits, 0 <= nbits -> 0 <= fst (get st nbits) < 2 ^ nbits) ->
  forall fuel st n r st', n <> 0 ->
  mpz_urandomm St get fuel st n = Some (r, st') -> 0 <= r < Z.abs n.
Proof. exact urandomm_range_s. Qed.

Lemma mpn_urandomm_range : forall (St : Type) (get : St -> Z -> Z * St),
  (forall st nbits, 0 <= nbits -> 0 <= fst (get st nbits) < 2 ^ nbits) ->
  forall fuel st n r st', 1 <= n ->
  mpn_urandomm St get fuel st n = Some (r, st') -> 0 <= r < n.
Proof. exact mpn_urandomm_range_s. Qed.

Lemma urandomm_ui_range : forall (St : Type) (get : St -> Z -> Z * St),
  (forall st nbits, 0 <= nbits -> 0 <= fst (get st nbits) < 2 ^ nbits) ->
  forall st n, 1 <= n < 2 ^ 64 -> 0 <= fst (urandomm_ui St get st n) < n.
Proof. exact urandomm_ui_range_s. Qed.

Lemma urandomb_ui_range : forall (St : Type) (get : St -> Z -> Z * St),
  (forall st nbits, 0 <= nbits -> 0 <= fst (get st nbits) < 2 ^ nbits) ->
  forall st bits, 0 <= bits -> 0 <= fst (urandomb_ui St get st bits) < 2 ^ (Z.min bits 64).
Proof. exact urandomb_ui_range_s. Qed.

(* ---------------- rrandomb ---------------- *)
Lemma lxor_pow2_set : forall x b, 0 <= b -> Z.testbit x b = true -> Z.lxor x (2 ^ b) = x - 2 ^ b.
Proof.
  intros x b Hb Hx.
  assert (HL : Z.land (Z.lxor x (2 ^ b)) (2 ^ b) = 0).
  { apply Z.bits_inj'. intros i Hi. rewrite Z.land_spec, Z.lxor_spec, Z.bits_0.
    rewrite (Z.pow2_bits_eqb b i Hb). destruct (Z.eqb_spec b i) as [->|_].
    - rewrite Hx. reflexivity.
    - apply andb_false_r. }
  apply Z.add_nocarry_lxor in HL.
  rewrite Z.lxor_assoc, Z.lxor_nilpotent, Z.lxor_0_r in HL. lia.
Qed.

Lemma pow2_divide : forall a b, 0 <= a <= b -> (2 ^ a | 2 ^ b).
Proof.
  intros a b H. exists (2 ^ (b - a)). rewrite <- Z.pow_add_r by lia. f_equal. lia.
Qed.

Lemma testbit_below_ones : forall x b i, 0 <= i < b -> (2 ^ b | x + 1) -> Z.testbit x i = true.
Proof.
  intros x b i Hi [q Hq].
  assert (Hp : 0 < 2 ^ b) by (apply Z.pow_pos_nonneg; lia).
  assert (Hx : x = Z.ones b + (q - 1) * 2 ^ b) by (rewrite Z.ones_equiv; lia).
  rewrite <- (Z.mod_pow2_bits_low x b i) by lia.
  replace (x mod 2 ^ b) with (Z.ones b).
  - apply Z.ones_spec_low. lia.
  - symmetry. rewrite Hx, Z.mod_add by lia. apply Z.mod_small. rewrite Z.ones_equiv. lia.
Qed.

Section OverP2.
Variable St : Type.
Variable get : St -> Z -> Z * St.
Hypothesis get_range : forall st nbits, 0 <= nbits -> 0 <= fst (get st nbits) < 2 ^ nbits.

Lemma rr_loop_range : forall nbits cap, 1 <= nbits -> 1 <= cap -> forall fuel st x bi,
  0 < bi <= nbits -> (2 ^ bi | x + 1) -> 2 ^ (nbits - 1) + 2 ^ (bi - 1) <= x + 1 <= 2 ^ nbits ->
  2 ^ (nbits - 1) <= fst (rr_loop St get fuel st x bi cap) < 2 ^ nbits.
Proof.
  intros nbits cap Hnb Hcap. induction fuel as [|f IH]; intros st x bi Hbi Hdiv Hx.
  - cbn [rr_loop fst]. assert (0 < 2 ^ (bi - 1)) by (apply Z.pow_pos_nonneg; lia). lia.
  - cbn [rr_loop]. destruct (get st 32) as [r st1]. cbv zeta.
    set (chunk := 1 + r mod cap).
    assert (Hch : 1 <= chunk) by (unfold chunk; pose proof (Z.mod_pos_bound r cap ltac:(lia)); lia).
    set (bi1 := if bi <? chunk then 0 else bi - chunk).
    assert (Hbi1 : 0 <= bi1 < bi) by (unfold bi1; destruct (Z.ltb_spec bi chunk); lia).
    clearbody bi1 chunk.
    assert (HB0 : 0 < 2 ^ (bi - 1)) by (apply Z.pow_pos_nonneg; lia).
    destruct (Z.eqb_spec bi1 0) as [E1 | E1].
    + cbn [fst]. lia.
    + destruct (get st1 32) as [r2 st2].
      set (chunk2 := 1 + r2 mod cap).
      assert (Hch2 : 1 <= chunk2) by (unfold chunk2; pose proof (Z.mod_pos_bound r2 cap ltac:(lia)); lia).
      set (bi2 := if bi1 <? chunk2 then 0 else bi1 - chunk2).
      assert (Hbi2 : 0 <= bi2 < bi1) by (unfold bi2; destruct (Z.ltb_spec bi1 chunk2); lia).
      clearbody bi2 chunk2.
      rewrite lxor_pow2_set; [| lia | apply testbit_below_ones with (b := bi); [lia | assumption]].
      assert (HB1 : 2 ^ bi1 <= 2 ^ (bi - 1)) by (apply Z.pow_le_mono_r; lia).
      assert (HB2 : 2 ^ bi2 <= 2 ^ bi1) by (apply Z.pow_le_mono_r; lia).
      assert (HB3 : 0 < 2 ^ bi2) by (apply Z.pow_pos_nonneg; lia).
      destruct (Z.eqb_spec bi2 0) as [E2 | E2].
      * cbn [fst]. rewrite E2 in *. change (2 ^ 0) with 1 in *. lia.
      * assert (HB4 : 2 ^ (bi2 - 1) <= 2 ^ bi2) by (apply Z.pow_le_mono_r; lia).
        apply IH.
        -- lia.
        -- replace (x - 2 ^ bi1 + 2 ^ bi2 + 1) with ((x + 1) - 2 ^ bi1 + 2 ^ bi2) by ring.
           apply Z.divide_add_r; [apply Z.divide_sub_r|].
           ++ apply Z.divide_trans with (2 ^ bi); [apply pow2_divide; lia | assumption].
           ++ apply pow2_divide; lia.
           ++ apply Z.divide_refl.
        -- lia.
Qed.

Lemma rrandomb_range_s : forall st nbits, 1 <= nbits ->
  2 ^ (nbits - 1) <= fst (rrandomb St get st nbits) < 2 ^ nbits.
Proof.
  intros st nbits Hn. unfold rrandomb. destruct (Z.eqb_spec nbits 0) as [|_]; [lia|].
  destruct (get st 32) as [r st1]. cbv zeta.
  set (c := nbits / (r mod 4 + 1)).
  assert (Hc : 0 <= c).
  { unfold c. pose proof (Z.mod_pos_bound r 4 ltac:(lia)). apply Z.div_pos; lia. }
  clearbody c.
  assert (H2 : 2 ^ nbits = 2 * 2 ^ (nbits - 1)).
  { rewrite <- Z.pow_succ_r by lia. f_equal. lia. }
  apply rr_loop_range.
  - assumption.
  - destruct (Z.eqb_spec c 0); lia.
  - lia.
  - replace (2 ^ nbits - 1 + 1) with (2 ^ nbits) by ring. apply Z.divide_refl.
  - lia.
Qed.

Lemma mpn_rrandom_range_s : forall st n, 1 <= n ->
  2 ^ (64 * (n - 1)) <= fst (mpn_rrandom St get st n) < 2 ^ (64 * n).
Proof.
  intros st n Hn. unfold mpn_rrandom. destruct (get st 32) as [r st1].
  pose proof (Z.mod_pos_bound r 64 ltac:(lia)) as Hr.
  set (nb := 64 * n - r mod 64).
  assert (Hnb : 64 * (n - 1) + 1 <= nb <= 64 * n) by (unfold nb; lia).
  clearbody nb.
  pose proof (rrandomb_range_s st1 nb ltac:(lia)) as HR.
  assert (H1 : 2 ^ (64 * (n - 1)) <= 2 ^ (nb - 1)) by (apply Z.pow_le_mono_r; lia).
  assert (H2 : 2 ^ nb <= 2 ^ (64 * n)) by (apply Z.pow_le_mono_r; lia).
  lia.
Qed.

Lemma redraw_top_S : forall f st lo n top,
  redraw_top St get (S f) st lo n top =
  if top =? 0 then let '(t, st') := get st 64 in redraw_top St get f st' lo n t
  else Some (lo + 2 ^ (64 * (n - 1)) * top, st).
Proof. reflexivity. Qed.

Lemma redraw_top_range : forall n, 1 <= n -> forall fuel st lo top r st',
  0 <= lo < 2 ^ (64 * (n - 1)) -> 0 <= top < 2 ^ 64 ->
  redraw_top St get fuel st lo n top = Some (r, st') ->
  2 ^ (64 * (n - 1)) <= r < 2 ^ (64 * n).
Proof.
  intros n Hn. induction fuel as [|f IH]; intros st lo top r st' Hlo Htop H;
    [discriminate H|]. rewrite redraw_top_S in H.
  destruct (Z.eqb_spec top 0) as [E | E].
  - pose proof (get_range st 64 ltac:(lia)) as G.
    destruct (get st 64) as [t st0]. cbn [fst] in G.
    eapply IH; [exact Hlo | exact G | exact H].
  - assert (Hr : r = lo + 2 ^ (64 * (n - 1)) * top) by congruence. subst r. clear H.
    replace (64 * n) with (64 * (n - 1) + 64) by ring. rewrite Z.pow_add_r by lia.
    set (P := 2 ^ (64 * (n - 1))) in *. set (T := 2 ^ 64) in *. clearbody P T.
    assert (H1 : P * 1 <= P * top) by (apply Z.mul_le_mono_nonneg_l; lia).
    assert (H2 : P * top <= P * (T - 1)) by (apply Z.mul_le_mono_nonneg_l; lia).
    lia.
Qed.

Lemma mpn_randomb_range_s : forall fuel st n r st', 1 <= n ->
  mpn_randomb St get fuel st n = Some (r, st') -> 2 ^ (64 * (n - 1)) <= r < 2 ^ (64 * n).
Proof.
  intros fuel st n r st' Hn H. unfold mpn_randomb in H.
  pose proof (get_range st (64 * n) ltac:(lia)) as G.
  destruct (get st (64 * n)) as [r0 st0]. cbn [fst] in G.
  assert (HP : 0 < 2 ^ (64 * (n - 1))) by (apply Z.pow_pos_nonneg; lia).
  eapply redraw_top_range; [exact Hn | | | exact H].
  - apply Z.mod_pos_bound. assumption.
  - split.
    + apply Z.div_pos; lia.
    + apply Z.div_lt_upper_bound; [assumption|]. rewrite <- Z.pow_add_r by lia.
      replace (64 * (n - 1) + 64) with (64 * n) by ring. lia.
Qed.

Lemma mpf_urandomb_range_s : forall st prec nbits, 1 <= prec -> 0 <= nbits ->
  let '(m, nl, _) := mpf_urandomb St get st prec nbits in 1 <= nl <= prec + 1 /\ 0 <= m < 2 ^ (64 * nl).
Proof.
  intros st prec nbits Hp Hnb. unfold mpf_urandomb. cbv zeta.
  set (nl0 := (nbits + 63) / 64).
  assert (Hnl0 : 0 <= nl0) by (unfold nl0; apply Z.div_pos; lia).
  destruct ((prec + 1 <? nl0) || (nl0 =? 0)) eqn:E.
  - pose proof (get_range st (64 * (prec + 1)) ltac:(lia)) as G.
    destruct (get st (64 * (prec + 1))) as [r st0]. cbn [fst] in G.
    replace ((64 * (prec + 1)) mod 64) with 0 by (symmetry; rewrite Z.mul_comm; apply Z.mod_mul; lia).
    cbn [Z.eqb]. split; [lia | assumption].
  - apply orb_false_iff in E. destruct E as [E1 E2].
    apply Z.ltb_ge in E1. apply Z.eqb_neq in E2.
    pose proof (get_range st nbits Hnb) as G.
    destruct (get st nbits) as [r st0]. cbn [fst] in G.
    split; [lia|].
    destruct (Z.eqb_spec (nbits mod 64) 0) as [E | E].
    + replace (64 * nl0) with nbits by (unfold nl0; dlia). assumption.
    + pose proof (Z.mod_pos_bound nbits 64 ltac:(lia)) as Hm.
      assert (HQ : 0 < 2 ^ (64 - nbits mod 64)) by (apply Z.pow_pos_nonneg; lia).
      replace (64 * nl0) with (nbits + (64 - nbits mod 64)) by (unfold nl0; dlia).
      rewrite Z.pow_add_r by lia. nia.
Qed.
End OverP2.

Lemma rrandomb_range : forall (St : Type) (get : St -> Z -> Z * St),
  (forall st nbits, 0 <= nbits -> 0 <= fst (get st nbits) < 2 ^ nbits) ->
  forall st nbits, 1 <= nbits -> 2 ^ (nbits - 1) <= fst (rrandomb St get st nbits) < 2 ^ nbits.
Proof. intros St get _. exact (rrandomb_range_s St get). Qed.

Lemma mpn_rrandom_range : forall (St : Type) (get : St -> Z -> Z * St),
  (forall st nbits, 0 <= nbits -> 0 <= fst (get st nbits) < 2 ^ nbits) ->
  forall st n, 1 <= n -> 2 ^ (64 * (n - 1)) <= fst (mpn_rrandom St get st n) < 2 ^ (64 * n).
Proof. intros St get _. exact (mpn_rrandom_range_s St get). Qed.

Lemma mpn_randomb_range : forall (St : Type) (get : St -> Z -> Z * St),
  (forall st nbits, 0 <= nbits -> 0 <= fst (get st nbits) < 2 ^ nbits) ->
  forall fuel st n r st', 1 <= n ->
  mpn_randomb St get fuel st n = Some (r, st') -> 2 ^ (64 * (n - 1)) <= r < 2 ^ (64 * n).
Proof. exact mpn_randomb_range_s. Qed.

Lemma mpf_urandomb_range : forall (St : Type) (get : St -> Z -> Z * St),
  (forall st nbits, 0 <= nbits -> 0 <= fst (get st nbits) < 2 ^ nbits) ->
  forall st prec nbits, 1 <= prec -> 0 <= nbits ->
  let '(m, nl, _) := mpf_urandomb St get st prec nbits in 1 <= nl <= prec + 1 /\ 0 <= m < 2 ^ (64 * nl).
Proof. exact mpf_urandomb_range_s. Qed.

Lemma C19_example :
  fst (randget_lc (lc_seed (lc_init 43840821 1 32) 12345) 40) = 987631518444
  /\ lc_pick lc_schemes 20 = Some (40, 10995212661, 1)
  /\ fst (randget_mt mt_N mt_M mt_MATRIX_A mt_MASK_1 mt_MASK_2 (mkmt mt_default_state (mt_WARM_UP mod mt_N)) 70) = 873397278450747484276.
Proof. split; [|split]; vm_compute; reflexivity. Qed.
