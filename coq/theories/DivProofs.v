(* DivProofs.v — proofs behind C02 (limb level and mpz level).
   The word-level lemmas (invert_limb_spec, preinv1_spec) live in DivWordProofs.v. *)
From Coq Require Import ZArith List Lia Bool.
From Mpir Require Import Word Limbs MpnBasicDefs MpzDefs DivDefs.
Import ListNotations.
Local Open Scope Z_scope.

(* ------------------------------------------------------------------ *)
(* limb level: mpn_divrem_1 / mpn_mod_1                                 *)
(* ------------------------------------------------------------------ *)

Lemma wf_rev l : wf l -> wf (rev l).
Proof. unfold wf. intros Hl. apply Forall_rev. exact Hl. Qed.

Lemma eval_snoc l x : eval (l ++ [x]) = eval l + B ^ Z.of_nat (length l) * x.
Proof. rewrite eval_app. cbn [eval]. ring. Qed.

Lemma udiv_qrnnd_spec r x d : 0 < d < B -> 0 <= r < d -> limb x ->
  let '(q, r') := udiv_qrnnd r x d in
  r * B + x = q * d + r' /\ 0 <= r' < d /\ limb q.
Proof.
  intros Hd Hr Hx. unfold udiv_qrnnd, limb in *. pose proof B_pos as HB.
  pose proof (Z.div_mod (r * B + x) d ltac:(lia)) as Hdm.
  pose proof (Z.mod_pos_bound (r * B + x) d ltac:(lia)) as Hmb.
  assert (Hnn : 0 <= r * B + x) by nia.
  assert (Hlt : r * B + x < d * B) by nia.
  assert (Hq0 : 0 <= (r * B + x) / d) by (apply Z.div_pos; lia).
  assert (Hq1 : (r * B + x) / d < B) by (apply Z.div_lt_upper_bound; lia).
  repeat split; lia.
Qed.

Lemma divrem_1_rev_spec l : forall d r, 0 < d < B -> wf l -> 0 <= r < d ->
  let '(qs, rf) := divrem_1_rev l d r in
  r * B ^ Z.of_nat (length l) + eval (rev l) = eval (rev qs) * d + rf
  /\ 0 <= rf < d /\ wf qs /\ length qs = length l.
Proof.
  induction l as [|x rest IH]; intros d r Hd Hl Hr.
  - cbn [divrem_1_rev rev eval length Z.of_nat]. rewrite Z.pow_0_r.
    repeat split; try lia. apply wf_nil.
  - apply wf_inv in Hl. destruct Hl as [Hx Hrest].
    cbn [divrem_1_rev].
    pose proof (udiv_qrnnd_spec r x d Hd Hr Hx) as Hu.
    destruct (udiv_qrnnd r x d) as [q r'].
    destruct Hu as [Hu1 [Hu2 Hu3]].
    specialize (IH d r' Hd Hrest Hu2).
    destruct (divrem_1_rev rest d r') as [qs rf].
    destruct IH as [I1 [I2 [I3 I4]]].
    split; [|split; [exact I2|split; [apply wf_cons; assumption|cbn [length]; congruence]]].
    cbn [rev length]. rewrite !eval_snoc, !rev_length, Bpow_succ, I4.
    set (P := B ^ Z.of_nat (length rest)) in *.
    replace (r * (B * P)) with (P * (r * B)) by ring.
    assert (E : P * (r * B) + P * x = P * (q * d + r')) by (rewrite <- Hu1; ring).
    lia.
Qed.

Lemma divrem_1_spec : forall n d, wf n -> 0 < d < B ->
  eval n = eval (fst (divrem_1 n d)) * d + snd (divrem_1 n d)
  /\ 0 <= snd (divrem_1 n d) < d /\ wf (fst (divrem_1 n d)) /\ length (fst (divrem_1 n d)) = length n
  /\ mod_1 n d = eval n mod d.
Proof.
  intros n d Hn Hd. unfold mod_1, divrem_1.
  pose proof (divrem_1_rev_spec (rev n) d 0 Hd (wf_rev n Hn) ltac:(lia)) as H.
  destruct (divrem_1_rev (rev n) d 0) as [qs rf].
  destruct H as [H1 [H2 [H3 H4]]].
  rewrite rev_involutive, Z.mul_0_l, Z.add_0_l in H1.
  cbn [fst snd].
  split; [exact H1|]. split; [exact H2|]. split; [apply wf_rev; exact H3|].
  split; [rewrite rev_length, H4, rev_length; reflexivity|].
  apply Z.mod_unique with (q := eval (rev qs)); [left; exact H2|lia].
Qed.

(* ------------------------------------------------------------------ *)
(* mpz level helpers                                                    *)
(* ------------------------------------------------------------------ *)

(* the magnitude division, with the quotient and remainder abstracted *)
Lemma divmod_pos a b : 0 <= a -> 0 < b ->
  exists qm rm, a / b = qm /\ a mod b = rm /\ a = b * qm + rm /\ 0 <= rm < b /\ 0 <= qm.
Proof.
  intros Ha Hb. exists (a / b), (a mod b).
  split; [reflexivity|]. split; [reflexivity|].
  split; [apply Z.div_mod; lia|].
  split; [apply Z.mod_pos_bound; lia|apply Z.div_pos; lia].
Qed.

Lemma floor_unique n d q r : (0 <= r < d \/ d < r <= 0) -> n = d * q + r ->
  (q, r) = (n / d, n mod d).
Proof.
  intros Hb He. f_equal.
  - apply Z.div_unique with (r := r); assumption.
  - apply Z.mod_unique with (q := q); assumption.
Qed.

Lemma ceil_unique n d q r : (0 <= - r < d \/ d < - r <= 0) -> n = d * q + r ->
  (q, r) = (- ((- n) / d), n + ((- n) / d) * d).
Proof.
  intros Hb He.
  assert (E : - q = (- n) / d).
  { apply Z.div_unique with (r := - r); [exact Hb|]. rewrite He. ring. }
  rewrite <- E. f_equal; [ring|]. rewrite He. ring.
Qed.

Lemma ceil_rem_opp n d : d <> 0 -> n + ((- n) / d) * d = - ((- n) mod d).
Proof. intros Hd. pose proof (Z.div_mod (- n) d Hd) as H. lia. Qed.

Lemma trunc_pair n d : d <> 0 ->
  ((if xorb (n <? 0) (d <? 0) then - (Z.abs n / Z.abs d) else Z.abs n / Z.abs d),
   (if n <? 0 then - (Z.abs n mod Z.abs d) else Z.abs n mod Z.abs d))
  = (Z.quot n d, Z.rem n d).
Proof.
  intros Hd. rewrite (Z.quot_div n d Hd), (Z.rem_mod n d Hd).
  destruct (Z.ltb_spec n 0) as [Hn|Hn]; destruct (Z.ltb_spec d 0) as [Hd'|Hd']; cbn [xorb].
  - rewrite (Z.sgn_neg n Hn), (Z.sgn_neg d Hd'). f_equal; ring.
  - rewrite (Z.sgn_neg n Hn), (Z.sgn_pos d ltac:(lia)). f_equal; ring.
  - destruct (Z.eq_dec n 0) as [E|E].
    + subst n. cbn [Z.abs Z.sgn]. rewrite Z.div_0_l, Z.mod_0_l by lia. reflexivity.
    + rewrite (Z.sgn_pos n ltac:(lia)), (Z.sgn_neg d Hd'). f_equal; ring.
  - destruct (Z.eq_dec n 0) as [E|E].
    + subst n. cbn [Z.abs Z.sgn]. rewrite Z.div_0_l, Z.mod_0_l by lia. reflexivity.
    + rewrite (Z.sgn_pos n ltac:(lia)), (Z.sgn_pos d ltac:(lia)). f_equal; ring.
Qed.

Lemma tdiv_qr_ok n d : d <> 0 -> tdiv_qr n d = Ok (Z.quot n d, Z.rem n d).
Proof.
  intros Hd. unfold tdiv_qr.
  destruct (Z.eqb_spec d 0) as [E|_]; [contradiction|].
  rewrite (trunc_pair n d Hd). reflexivity.
Qed.

Lemma tdiv_qr_zero n : tdiv_qr n 0 = DivByZero.
Proof. reflexivity. Qed.

(* tdiv_qr with the magnitude quotient/remainder made explicit *)
Lemma tdiv_qr_mag n d : d <> 0 ->
  exists qm rm, Z.abs n = Z.abs d * qm + rm /\ 0 <= rm < Z.abs d /\ 0 <= qm
    /\ tdiv_qr n d = Ok ((if xorb (n <? 0) (d <? 0) then - qm else qm), (if n <? 0 then - rm else rm)).
Proof.
  intros Hd. unfold tdiv_qr.
  destruct (Z.eqb_spec d 0) as [E|_]; [contradiction|].
  destruct (divmod_pos (Z.abs n) (Z.abs d) (Z.abs_nonneg n) ltac:(lia))
    as [qm [rm [E1 [E2 [E3 [E4 E5]]]]]].
  exists qm, rm. rewrite E1, E2. repeat split; try assumption; lia.
Qed.

(* ------------------------------------------------------------------ *)
(* tdiv / fdiv / cdiv                                                   *)
(* ------------------------------------------------------------------ *)

Lemma tdiv_spec : forall n d,
  (d = 0 -> tdiv_qr n d = DivByZero)
  /\ (d <> 0 -> tdiv_qr n d = Ok (Z.quot n d, Z.rem n d)
               /\ n = Z.quot n d * d + Z.rem n d /\ Z.abs (Z.rem n d) < Z.abs d /\ 0 <= Z.rem n d * n).
Proof.
  intros n d. split.
  - intros Hd. subst d. apply tdiv_qr_zero.
  - intros Hd. split; [apply tdiv_qr_ok; exact Hd|].
    split; [rewrite (Z.mul_comm (Z.quot n d) d); apply Z.quot_rem'|].
    split; [apply Z.rem_bound_abs; exact Hd|apply Z.rem_sign_mul; exact Hd].
Qed.

Lemma fdiv_qr_ok n d : d <> 0 -> fdiv_qr n d = Ok (n / d, n mod d).
Proof.
  intros Hd. unfold fdiv_qr.
  destruct (tdiv_qr_mag n d Hd) as [qm [rm [E [Hr [Hq Ht]]]]]. rewrite Ht. clear Ht.
  destruct (Z.ltb_spec n 0) as [Hn|Hn]; destruct (Z.ltb_spec d 0) as [Hd'|Hd']; cbn [xorb andb];
    rewrite ?(Z.abs_neq n), ?(Z.abs_eq n), ?(Z.abs_neq d), ?(Z.abs_eq d) in * by lia.
  - f_equal. apply floor_unique; lia.
  - destruct (Z.eqb_spec (- rm) 0) as [Hz|Hz]; cbn [negb]; f_equal; apply floor_unique; lia.
  - destruct (Z.eqb_spec rm 0) as [Hz|Hz]; cbn [negb]; f_equal; apply floor_unique; lia.
  - f_equal. apply floor_unique; lia.
Qed.

Lemma fdiv_spec : forall n d,
  (d = 0 -> fdiv_qr n d = DivByZero)
  /\ (d <> 0 -> fdiv_qr n d = Ok (n / d, n mod d)
               /\ n = (n / d) * d + n mod d /\ Z.abs (n mod d) < Z.abs d /\ 0 <= (n mod d) * d).
Proof.
  intros n d. split.
  - intros Hd. subst d. reflexivity.
  - intros Hd. split; [apply fdiv_qr_ok; exact Hd|].
    split; [rewrite (Z.mul_comm (n / d) d); apply Z.div_mod; exact Hd|].
    split; [apply Z.mod_bound_abs; exact Hd|apply Z.mod_sign_mul; exact Hd].
Qed.

Lemma cdiv_qr_ok n d : d <> 0 -> cdiv_qr n d = Ok (- ((- n) / d), n + ((- n) / d) * d).
Proof.
  intros Hd. unfold cdiv_qr.
  destruct (tdiv_qr_mag n d Hd) as [qm [rm [E [Hr [Hq Ht]]]]]. rewrite Ht. clear Ht.
  destruct (Z.ltb_spec n 0) as [Hn|Hn]; destruct (Z.ltb_spec d 0) as [Hd'|Hd']; cbn [xorb negb andb];
    rewrite ?(Z.abs_neq n), ?(Z.abs_eq n), ?(Z.abs_neq d), ?(Z.abs_eq d) in * by lia.
  - destruct (Z.eqb_spec (- rm) 0) as [Hz|Hz]; cbn [negb]; f_equal; apply ceil_unique; lia.
  - f_equal. apply ceil_unique; lia.
  - f_equal. apply ceil_unique; lia.
  - destruct (Z.eqb_spec rm 0) as [Hz|Hz]; cbn [negb]; f_equal; apply ceil_unique; lia.
Qed.

Lemma cdiv_spec : forall n d,
  (d = 0 -> cdiv_qr n d = DivByZero)
  /\ (d <> 0 -> cdiv_qr n d = Ok (- ((- n) / d), n + ((- n) / d) * d)
               /\ Z.abs (n + ((- n) / d) * d) < Z.abs d /\ (n + ((- n) / d) * d) * d <= 0).
Proof.
  intros n d. split.
  - intros Hd. subst d. reflexivity.
  - intros Hd. split; [apply cdiv_qr_ok; exact Hd|].
    rewrite (ceil_rem_opp n d Hd).
    pose proof (Z.mod_bound_abs (- n) d Hd) as H1.
    pose proof (Z.mod_sign_mul (- n) d Hd) as H2.
    split; [rewrite Z.abs_opp; exact H1|].
    rewrite Z.mul_opp_l. lia.
Qed.

(* ------------------------------------------------------------------ *)
(* _ui forms                                                            *)
(* ------------------------------------------------------------------ *)

Lemma div_ui_spec : forall n d, 0 < d ->
  tdiv_qr_ui n d = Ok (Z.quot n d, Z.rem n d, Z.abs (Z.rem n d))
  /\ fdiv_qr_ui n d = Ok (n / d, n mod d, n mod d)
  /\ cdiv_qr_ui n d = Ok (- ((- n) / d), n + ((- n) / d) * d, - (n + ((- n) / d) * d))
  /\ 0 <= - (n + ((- n) / d) * d) < d.
Proof.
  intros n d Hd.
  assert (Hd0 : d <> 0) by lia.
  split; [unfold tdiv_qr_ui; rewrite (tdiv_qr_ok n d Hd0); reflexivity|].
  split; [|split].
  - unfold fdiv_qr_ui. destruct (Z.eqb_spec d 0) as [E|_]; [contradiction|].
    destruct (divmod_pos (Z.abs n) d (Z.abs_nonneg n) Hd) as [qm [rm [E1 [E2 [E3 [E4 E5]]]]]].
    rewrite E1, E2. clear E1 E2.
    destruct (Z.ltb_spec n 0) as [Hn|Hn];
      rewrite ?(Z.abs_neq n), ?(Z.abs_eq n) in * by lia;
      destruct (Z.eqb_spec rm 0) as [Hz|Hz]; cbn [negb andb].
    + assert (P : (- qm, rm) = (n / d, n mod d)) by (apply floor_unique; lia).
      injection P as P1 P2. rewrite <- P1, <- P2. reflexivity.
    + assert (P : (- (qm + 1), d - rm) = (n / d, n mod d)) by (apply floor_unique; lia).
      injection P as P1 P2. rewrite <- P1, <- P2. reflexivity.
    + assert (P : (qm, rm) = (n / d, n mod d)) by (apply floor_unique; lia).
      injection P as P1 P2. rewrite <- P1, <- P2. reflexivity.
    + assert (P : (qm, rm) = (n / d, n mod d)) by (apply floor_unique; lia).
      injection P as P1 P2. rewrite <- P1, <- P2. reflexivity.
  - unfold cdiv_qr_ui. destruct (Z.eqb_spec d 0) as [E|_]; [contradiction|].
    destruct (divmod_pos (Z.abs n) d (Z.abs_nonneg n) Hd) as [qm [rm [E1 [E2 [E3 [E4 E5]]]]]].
    rewrite E1, E2. clear E1 E2.
    destruct (Z.ltb_spec n 0) as [Hn|Hn]; destruct (Z.leb_spec 0 n) as [Hn'|Hn']; try lia;
      rewrite ?(Z.abs_neq n), ?(Z.abs_eq n) in * by lia;
      destruct (Z.eqb_spec rm 0) as [Hz|Hz]; cbn [negb andb].
    + assert (P : (- qm, - rm) = (- ((- n) / d), n + ((- n) / d) * d)) by (apply ceil_unique; lia).
      injection P as P1 P2. rewrite <- P1, <- P2, Z.opp_involutive. reflexivity.
    + assert (P : (- qm, - rm) = (- ((- n) / d), n + ((- n) / d) * d)) by (apply ceil_unique; lia).
      injection P as P1 P2. rewrite <- P1, <- P2, Z.opp_involutive. reflexivity.
    + assert (P : (qm, - rm) = (- ((- n) / d), n + ((- n) / d) * d)) by (apply ceil_unique; lia).
      injection P as P1 P2. rewrite <- P1, <- P2, Z.opp_involutive. reflexivity.
    + assert (P : (qm + 1, - (d - rm)) = (- ((- n) / d), n + ((- n) / d) * d)) by (apply ceil_unique; lia).
      injection P as P1 P2. rewrite <- P1, <- P2, Z.opp_involutive. reflexivity.
  - rewrite (ceil_rem_opp n d Hd0), Z.opp_involutive. apply Z.mod_pos_bound. exact Hd.
Qed.

(* ------------------------------------------------------------------ *)
(* _2exp forms                                                          *)
(* ------------------------------------------------------------------ *)

Lemma div_2exp_pos : forall n p, 0 < p ->
  ((let qm := Z.abs n / p in if n <? 0 then - qm else qm) = Z.quot n p
   /\ (let rm := Z.abs n mod p in if n <? 0 then - rm else rm) = Z.rem n p)
  /\ ((let qm := Z.abs n / p in
       let lost := negb (Z.abs n mod p =? 0) in
       let round := lost && (n <? 0) && negb (n =? 0) in
       let qm' := if round then qm + 1 else qm in
       if n <? 0 then - qm' else qm') = n / p
      /\ (let rm := Z.abs n mod p in
          if (0 <=? n) || (rm =? 0) then (if n <? 0 then - rm else rm) else p - rm) = n mod p)
  /\ ((let qm := Z.abs n / p in
       let lost := negb (Z.abs n mod p =? 0) in
       let round := lost && (0 <=? n) && negb (n =? 0) in
       let qm' := if round then qm + 1 else qm in
       if n <? 0 then - qm' else qm') = - ((- n) / p)
      /\ (let rm := Z.abs n mod p in
          if (n <? 0) || (rm =? 0) then (if n <? 0 then - rm else rm) else - (p - rm))
         = n + ((- n) / p) * p).
Proof.
  intros n p Hp. assert (Hp0 : p <> 0) by lia. cbv zeta.
  split; [|split].
  - pose proof (trunc_pair n p Hp0) as T.
    destruct (Z.ltb_spec p 0) as [Hc|_]; [lia|].
    rewrite (Z.abs_eq p) in T by lia. rewrite xorb_false_r in T.
    injection T as T1 T2. split; assumption.
  - destruct (divmod_pos (Z.abs n) p (Z.abs_nonneg n) Hp) as [qm [rm [E1 [E2 [E3 [E4 E5]]]]]].
    rewrite E1, E2. clear E1 E2.
    destruct (Z.ltb_spec n 0) as [Hn|Hn]; destruct (Z.leb_spec 0 n) as [Hn'|Hn']; try lia;
      destruct (Z.eqb_spec n 0) as [Hn0|Hn0]; try lia;
      rewrite ?(Z.abs_neq n), ?(Z.abs_eq n) in * by lia;
      destruct (Z.eqb_spec rm 0) as [Hz|Hz]; cbn [negb andb orb].
    + assert (P : (- qm, - rm) = (n / p, n mod p)) by (apply floor_unique; lia).
      injection P as P1 P2. split; assumption.
    + assert (P : (- (qm + 1), p - rm) = (n / p, n mod p)) by (apply floor_unique; lia).
      injection P as P1 P2. split; assumption.
    + assert (P : (qm, rm) = (n / p, n mod p)) by (apply floor_unique; lia).
      injection P as P1 P2. split; assumption.
    + assert (P : (qm, rm) = (n / p, n mod p)) by (apply floor_unique; lia).
      injection P as P1 P2. split; assumption.
    + assert (P : (qm, rm) = (n / p, n mod p)) by (apply floor_unique; lia).
      injection P as P1 P2. split; assumption.
    + assert (P : (qm, rm) = (n / p, n mod p)) by (apply floor_unique; lia).
      injection P as P1 P2. split; assumption.
  - destruct (divmod_pos (Z.abs n) p (Z.abs_nonneg n) Hp) as [qm [rm [E1 [E2 [E3 [E4 E5]]]]]].
    rewrite E1, E2. clear E1 E2.
    destruct (Z.ltb_spec n 0) as [Hn|Hn]; destruct (Z.leb_spec 0 n) as [Hn'|Hn']; try lia;
      destruct (Z.eqb_spec n 0) as [Hn0|Hn0]; try lia;
      rewrite ?(Z.abs_neq n), ?(Z.abs_eq n) in * by lia;
      destruct (Z.eqb_spec rm 0) as [Hz|Hz]; cbn [negb andb orb].
    + assert (P : (- qm, - rm) = (- ((- n) / p), n + ((- n) / p) * p)) by (apply ceil_unique; lia).
      injection P as P1 P2. split; assumption.
    + assert (P : (- qm, - rm) = (- ((- n) / p), n + ((- n) / p) * p)) by (apply ceil_unique; lia).
      injection P as P1 P2. split; assumption.
    + assert (P : (qm, rm) = (- ((- n) / p), n + ((- n) / p) * p)) by (apply ceil_unique; lia).
      injection P as P1 P2. split; assumption.
    + exfalso. subst n. nia.
    + assert (P : (qm, rm) = (- ((- n) / p), n + ((- n) / p) * p)) by (apply ceil_unique; lia).
      injection P as P1 P2. split; assumption.
    + assert (P : (qm + 1, - (p - rm)) = (- ((- n) / p), n + ((- n) / p) * p)) by (apply ceil_unique; lia).
      injection P as P1 P2. split; assumption.
Qed.

Lemma div_2exp_spec : forall n cnt, 0 <= cnt ->
  tdiv_q_2exp n cnt = Z.quot n (2 ^ cnt) /\ tdiv_r_2exp n cnt = Z.rem n (2 ^ cnt)
  /\ cfdiv_q_2exp n cnt (-1) = n / 2 ^ cnt /\ cfdiv_r_2exp n cnt (-1) = n mod 2 ^ cnt
  /\ cfdiv_q_2exp n cnt 1 = - ((- n) / 2 ^ cnt) /\ cfdiv_r_2exp n cnt 1 = n + ((- n) / 2 ^ cnt) * 2 ^ cnt.
Proof.
  intros n cnt Hc.
  pose proof (Z.pow_pos_nonneg 2 cnt ltac:(lia) Hc) as Hp.
  unfold tdiv_q_2exp, tdiv_r_2exp, cfdiv_q_2exp, cfdiv_r_2exp.
  change (0 <=? -1) with false. change (0 <=? 1) with true.
  set (p := 2 ^ cnt) in *. clearbody p.
  pose proof (div_2exp_pos n p Hp) as H. cbv iota.
  tauto.
Qed.

(* ------------------------------------------------------------------ *)
(* mod, divexact                                                        *)
(* ------------------------------------------------------------------ *)

Lemma mod_divexact_spec : forall n d, d <> 0 ->
  mpz_mod n d = Ok (n mod Z.abs d) /\ 0 <= n mod Z.abs d < Z.abs d
  /\ ((d | n) -> divexact n d = Ok (n / d) /\ n = (n / d) * d).
Proof.
  intros n d Hd.
  assert (Ha : Z.abs d <> 0) by lia.
  split; [unfold mpz_mod; rewrite (fdiv_qr_ok n (Z.abs d) Ha); reflexivity|].
  split; [apply Z.mod_pos_bound; lia|].
  intros [k Hk]. subst n.
  unfold divexact. rewrite (tdiv_qr_ok (k * d) d Hd).
  rewrite (Z.quot_mul k d Hd), (Z.div_mul k d Hd). split; reflexivity.
Qed.

(* ------------------------------------------------------------------ *)
(* divisible_p, congruent_p                                             *)
(* ------------------------------------------------------------------ *)

Lemma abs_mod_divide a d : d <> 0 -> ((Z.abs a mod Z.abs d =? 0) = true <-> (d | a)).
Proof.
  intros Hd. assert (Ha : Z.abs d <> 0) by lia.
  rewrite Z.eqb_eq, (Z.mod_divide (Z.abs a) (Z.abs d) Ha), Z.divide_abs_l, Z.divide_abs_r.
  reflexivity.
Qed.

Lemma eqb_zero_divide a : ((a =? 0) = true <-> (0 | a)).
Proof.
  rewrite Z.eqb_eq. split.
  - intros E. subst a. apply Z.divide_0_r.
  - apply Z.divide_0_l.
Qed.

Lemma divisible_p_spec a d : divisible_p a d = true <-> (d | a).
Proof.
  unfold divisible_p. destruct (Z.eqb_spec d 0) as [E|E].
  - subst d. apply eqb_zero_divide.
  - apply abs_mod_divide. exact E.
Qed.

Lemma divisible_2exp_p_spec a cnt : 0 <= cnt -> (divisible_2exp_p a cnt = true <-> (2 ^ cnt | a)).
Proof.
  intros Hc. pose proof (Z.pow_pos_nonneg 2 cnt ltac:(lia) Hc) as Hp.
  unfold divisible_2exp_p.
  rewrite <- (Z.abs_eq (2 ^ cnt)) at 1 by lia. apply abs_mod_divide. lia.
Qed.

Lemma divisible_congruent_spec : forall a c d cnt, 0 <= cnt ->
  (divisible_p a d = true <-> (d | a))
  /\ (divisible_2exp_p a cnt = true <-> (2 ^ cnt | a))
  /\ (congruent_p a c d = true <-> (d | a - c))
  /\ (congruent_2exp_p a c cnt = true <-> (2 ^ cnt | a - c)).
Proof.
  intros a c d cnt Hc.
  split; [apply divisible_p_spec|].
  split; [apply divisible_2exp_p_spec; exact Hc|].
  split.
  - unfold congruent_p. destruct (Z.eqb_spec d 0) as [E|E].
    + subst d. rewrite <- eqb_zero_divide, !Z.eqb_eq. lia.
    + apply abs_mod_divide. exact E.
  - apply (divisible_2exp_p_spec (a - c) cnt Hc).
Qed.

(* ------------------------------------------------------------------ *)
(* residue certificate                                                  *)
(* ------------------------------------------------------------------ *)

Lemma residue_eq n d q r p : p <> 0 -> n = q * d + r ->
  n mod p = (((q mod p) * (d mod p)) + r mod p) mod p.
Proof.
  intros Hp He. subst n.
  rewrite (Z.add_mod_idemp_r _ _ _ Hp).
  rewrite <- (Z.add_mod_idemp_l (q * d) r p Hp).
  rewrite (Z.mul_mod q d p Hp).
  rewrite (Z.add_mod_idemp_l _ r p Hp).
  reflexivity.
Qed.

Lemma divcheck_complete : forall n d q r, n = q * d + r -> divcheck_residues n d q r = true.
Proof.
  intros n d q r He. unfold divcheck_residues, res_moduli. cbn [forallb].
  rewrite !andb_true_iff.
  repeat split; try (apply Z.eqb_eq; apply residue_eq; [discriminate|exact He]).
Qed.

(* ------------------------------------------------------------------ *)
(* non-vacuity witness                                                  *)
(* ------------------------------------------------------------------ *)

Lemma C02_example :
  B / 2 <= B - 1 < B /\ udiv_qrnnd_preinv1 (B - 2) (B - 1) (B - 1) (invert_limb (B - 1)) = (B - 1, B - 2)
  /\ fdiv_qr (-7) 2 = Ok (-4, 1) /\ cdiv_qr 7 2 = Ok (4, -1) /\ tdiv_qr (-7) 2 = Ok (-3, -1).
Proof.
  split; [split; vm_compute; [discriminate|reflexivity]|].
  split; [vm_compute; reflexivity|].
  split; [vm_compute; reflexivity|].
  split; vm_compute; reflexivity.
Qed.
