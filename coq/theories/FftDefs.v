(* FftDefs.v — the parameter selection of fft/mul_fft_main.c (mpn_mul_fft_main) as an
   executable model, and the safety predicate the transform needs.  [tab d wi] is
   mpir_fft_tuning_table[d][wi] (regenerated from gmp-mparam.h, see gen/Gen_Tables.v). *)
From Coq Require Import ZArith List Bool.
Import ListNotations.
Local Open Scope Z_scope.

Definition fft_bits (depth w : Z) : Z := (2 ^ depth * w - (depth + 1)) / 2.
Definition fft_j (bitsx bits : Z) : Z := (bitsx - 1) / bits + 1.
Definition fft_trunc (bits1 bits2 depth w : Z) : Z :=
  fft_j bits1 (fft_bits depth w) + fft_j bits2 (fft_bits depth w) - 1.

(* while (j1 + j2 - 1 > 4*n) { if (w == 1) w = 2; else { depth++; w = 1; n *= 2; } ... } *)
Fixpoint fft_loop1 (fuel : nat) (bits1 bits2 depth w : Z) : option (Z * Z) :=
  if fft_trunc bits1 bits2 depth w >? 4 * 2 ^ depth then
    match fuel with
    | O => None
    | S f => if w =? 1 then fft_loop1 f bits1 bits2 depth 2
             else fft_loop1 f bits1 bits2 (depth + 1) 1
    end
  else Some (depth, w).

(* do { w -= wadj; ... } while (j1 + j2 - 1 <= 4*n && w > wadj);  returns w after the loop *)
Fixpoint fft_loop2 (fuel : nat) (bits1 bits2 depth w wadj : Z) : option Z :=
  let w' := w - wadj in
  if (fft_trunc bits1 bits2 depth w' <=? 4 * 2 ^ depth) && (w' >? wadj) then
    match fuel with O => None | S f => fft_loop2 f bits1 bits2 depth w' wadj end
  else Some w'.

Inductive fft_choice := FftTrunc (depth w : Z) | FftMfa (depth w : Z).

Definition fft_params (tab : Z -> Z -> Z) (n1 n2 : Z) : option fft_choice :=
  let bits1 := n1 * 64 in let bits2 := n2 * 64 in
  match fft_loop1 200 bits1 bits2 6 1 with
  | None => None
  | Some (depth, w) =>
      if depth <? 11 then
        let off := tab (depth - 6) (w - 1) in
        let depth' := depth - off in
        let w' := w * 2 ^ (2 * off) in
        let wadj := if depth' <? 6 then 2 ^ (6 - depth') else 1 in
        if w' >? wadj then
          match fft_loop2 (Z.to_nat w') bits1 bits2 depth' w' wadj with
          | None => None
          | Some w'' => Some (FftTrunc depth' (w'' + wadj))
          end
        else Some (FftTrunc depth' w')
      else
        if fft_trunc bits1 bits2 depth w <=? 3 * 2 ^ depth
        then Some (FftMfa (depth - 1) (w * 3))
        else Some (FftMfa depth w)
  end.

(* what mpn_mul_trunc_sqrt2 / mpn_mul_mfa_trunc_sqrt2 need from (depth, w) for operands of
   n1 and n2 limbs: coefficients are whole limbs, at least one bit per coefficient, the
   convolution fits the transform length 4n, and no coefficient of the product wraps
   modulo 2^(n w) + 1. *)
Definition fft_ok (n1 n2 depth w : Z) : Prop :=
  let n := 2 ^ depth in
  let bits := fft_bits depth w in
  let j1 := fft_j (n1 * 64) bits in let j2 := fft_j (n2 * 64) bits in
  0 <= depth /\ 1 <= w /\ (n * w) mod 64 = 0 /\ 1 <= bits /\
  j1 + j2 - 1 <= 4 * n /\
  Z.min j1 j2 * (2 ^ bits - 1) ^ 2 < 2 ^ (n * w).
Definition fft_okb (n1 n2 depth w : Z) : bool :=
  let n := 2 ^ depth in
  let bits := fft_bits depth w in
  let j1 := fft_j (n1 * 64) bits in let j2 := fft_j (n2 * 64) bits in
  (0 <=? depth) && (1 <=? w) && ((n * w) mod 64 =? 0) && (1 <=? bits) &&
  (j1 + j2 - 1 <=? 4 * n) && (Z.min j1 j2 * (2 ^ bits - 1) ^ 2 <? 2 ^ (n * w)).

Definition choice_ok (n1 n2 : Z) (c : fft_choice) : Prop :=
  match c with FftTrunc d w => fft_ok n1 n2 d w | FftMfa d w => fft_ok n1 n2 d w end.

(* the pinned table shape: 5 rows (depth 6..10) x 2 columns (w = 1, 2) *)
Definition tab_of (t : list (Z * Z)) (d wi : Z) : Z :=
  let row := nth (Z.to_nat d) t (0, 0) in if wi =? 0 then fst row else snd row.
Definition tab_valid (t : list (Z * Z)) : bool :=
  (length t =? 5)%nat &&
  forallb (fun i => let row := nth i t (0,0) in
                    (0 <=? fst row) && (fst row <=? Z.of_nat i + 4) && (0 <=? snd row) && (snd row <=? Z.of_nat i + 4))
          (seq 0 5).
