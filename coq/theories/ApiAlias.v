(* ApiAlias.v — correspondence entry point for the heap-level model of mpz_add / mpz_sub (C05).  Definitions only. *)
From Coq Require Import ZArith List Bool.
From Mpir Require Import Word Limbs MpnBasicDefs MpzDefs HeapDefs ApiBasic.
Import ListNotations.
Local Open Scope Z_scope.

Definition block_of (x : Z) : Z * list Z :=       (* size field and a block holding exactly the limbs of |x| (one limb for 0) *)
  let l := limbs_of_Z (Z.abs x) in
  match l with [] => (0, [0]) | _ => ((if x <? 0 then - len l else len l), l) end.
(* mpz_aors_heap sub U V alias : variables 0 = u, 1 = v, 2 = w (one limb, value 0) *)
Definition api_mpz_aors_heap : api := fun t =>
  let sub := negb (argz t 0 =? 0) in let al := argz t 3 in
  let '(su, bu) := block_of (argz t 1) in let '(sv, bv) := block_of (argz t 2) in
  let st := state3 su bu sv bv 0 [0] in
  let '(w, u, v) := if al =? 1 then (0, 0, 1) else if al =? 2 then (1, 0, 1) else if al =? 3 then (2, 0, 0) else if al =? 4 then (0, 0, 0) else (2, 0, 1) in
  match mpz_aors sub st (Z.to_nat w) (Z.to_nat u) (Z.to_nat v) with
  | Some st' => let r := st_vars st' (Z.to_nat w) in [TZ (value_of st' (Z.to_nat w)); TZ (v_size r); TZ (v_alloc r)]
  | None => [TB [73; 78; 86; 65; 76; 73; 68]]      (* the model touched an invalid block *)
  end.
