(* ApiPrintf.v — correspondence entry points for C18.  Definitions only. *)
From Coq Require Import ZArith List Bool.
From Mpir Require Import Word RadixDefs PrintfDefs ApiBasic DoscanDefs.
From MpirGen Require Import Gen_Consts.
Import ListNotations.
Local Open Scope Z_scope.

(* the C99 reading of a spec: flags, then width (digits or * ), then optional . and digits or * ; ". " alone is precision 0 *)
Fixpoint take_flags (s : list Z) (acc : list Z) : list Z * list Z :=
  match s with c :: r => if is_flag c then take_flags r (c :: acc) else (rev acc, s) | [] => (rev acc, []) end.
Definition c99_parse (spec stars : list Z) : list Z * wspec * pspec :=
  let '(fl, r) := take_flags spec [] in
  let '(w, r, stars) :=
    match r with
    | 42 :: r' => (WStar (hd0 stars), r', tl0 stars)
    | c :: _ => if is_digit c then let '(n, r') := parse_num r 0 in (WNum n, r', stars) else (WNone, r, stars)
    | [] => (WNone, r, stars)
    end in
  let p := match r with
           | 46 :: 42 :: _ => PStar (hd0 stars)
           | 46 :: r' => PNum (fst (parse_num r' 0))
           | _ => PNone
           end in
  (fl, w, p).
Definition c99_fmt (spec stars : list Z) (conv v : Z) : list Z :=
  let '(fl, w, p) := c99_parse spec stars in c99_int (flags_of fl w) (width_of w) (prec_of p) conv v.
Definition bare_dot (spec : list Z) : bool :=
  match skipn (Z.to_nat (match index_of 46 spec 0 with Some i => i + 1 | None => -1 end)) spec with
  | c :: _ => negb (is_digit c || (c =? 42)) && has 46 spec
  | [] => has 46 spec
  end.
Definition stars_arg (a : list tok) (i : nat) : list Z := firstn (Z.to_nat (argz a i)) [argz a (i + 1); argz a (i + 2)].
(* gmp_printf_Z spec conv nstars s1 s2 X -> output, return value, C library output where C defines it *)
Definition api_gmp_printf_Z : api := fun a =>
  let spec := argb a 0 in let conv := argz a 1 in let st := stars_arg a 2 in let v := argz a 5 in
  let out := printf_Z spec st conv v in
  let '(fl, w, p) := c99_parse spec st in
  let cmeaning :=
    (- 2 ^ 63 <=? v) && (v <? 2 ^ 63) && negb (bare_dot spec)
    && ((conv =? 100) || (conv =? 105) || ((0 <=? v) && negb (has 43 fl) && negb (has 32 fl)))
    && negb (has 35 fl && (v =? 0) && ((conv =? 120) || (conv =? 88)) && (match prec_of p with Some 0 => true | _ => false end)) in
  [TB out; TZ (len out); TB (if cmeaning then c99_fmt spec st conv v else out)].
Definition api_gmp_printf_Q : api := fun a =>
  let out := printf_Q (argb a 0) (stars_arg a 2) (argz a 1) (argz a 5) (argz a 6) in [TB out; TZ (len out)].
Definition api_gmp_printf_N : api := fun a =>
  let out := printf_Z (argb a 0) [] (argz a 1) (argz a 2) in [TB out; TZ (len out)].
(* %M: the limb goes to the C library as a long: signed for d i, unsigned otherwise *)
Definition api_gmp_printf_M : api := fun a =>
  let conv := argz a 1 in let v := argz a 2 mod 2 ^ 64 in
  let v := if ((conv =? 100) || (conv =? 105)) && (2 ^ 63 <=? v) then v - 2 ^ 64 else v in
  let out := c99_fmt (argb a 0) [] conv v in [TB out; TZ (len out)].
(* gmp_snprintf_sweep spec conv X : "<%specZconv|%d>" with 42 *)
Definition api_gmp_snprintf_sweep : api := fun a =>
  let chunks := [[60]; printf_Z (argb a 0) [] (argz a 1) (argz a 2); [124]; [52; 50]; [62]] in
  let full := concat chunks in
  TZ (len full) :: flat_map (fun size =>
     let '(out, term, ret) := snprintf_sink (Z.of_nat size) chunks in [TZ ret; TB out]) (seq 0 (length full + 3)).
Definition sx (bits v : Z) : Z := let m := v mod 2 ^ bits in if 2 ^ (bits - 1) <=? m then m - 2 ^ bits else m.
Definition str (l : list Z) := l.
Definition cfmt (fl : list Z) (w : Z) (p : option Z) (conv v : Z) : list Z :=
  c99_int (mkfl (has 45 fl) (has 43 fl) (has 32 fl) (has 35 fl) (has 48 fl)) w p conv v.
Definition api_gmp_printf_mixed : api := fun a =>
  let t := argz a 0 in let x := argz a 1 in let b := argz a 2 mod 2 ^ 64 in let z := argz a 3 in let qn := argz a 4 in let qd := argz a 5 in
  let out :=
    if t =? 0 then [97] ++ cfmt [] 0 None 100 x ++ [98] ++ printf_Z [] [] 100 z ++ [99; 115; 116; 114; 100] ++ cfmt [] 0 None 120 b ++ [37; 101] ++ printf_Q [] [] 120 qn qd
    else if t =? 1 then printf_Z [] [] 100 z ++ printf_Z [] [] 100 z ++ [32] ++ cfmt [] 5 None 100 x ++ [124] ++ printf_Z [45; 56] [] 120 z ++ [124; 107]
    else if t =? 2 then cfmt [] 7 None 100 x ++ [32] ++ printf_Q [] [] 100 qn qd ++ [32; 97; 98; 99; 32] ++ printf_Z [35] [] 111 z ++ [32] ++ cfmt [] 0 None 117 b
    else if t =? 3 then [37] ++ printf_Z [] [] 100 z ++ [37] ++ cfmt [] 0 None 100 x ++ [37]
    else cfmt [] 0 None 100 (sx 16 x) ++ [32] ++ cfmt [] 0 None 100 (sx 8 x) ++ [32] ++ printf_Z [] [] 105 z ++ [32] ++ cfmt [] 0 None 100 x ++ [32] ++ cfmt [] 0 None 117 b in
  [TB out; TZ (len out)].
(* what was printed is read back: three fields assigned, the values, all input consumed *)
Definition api_gmp_scan_rt : api := fun a => [TZ 3; TZ (argz a 1); TZ (argz a 2); TZ (argz a 3); TZ (argz a 4); TZ 1].
(* "%Zd %Zd %Zd" on a text: C counting: -1 when the input ends before the first field, else the number of fields assigned *)
Fixpoint skip_ws (s : list Z) : list Z := match s with c :: r => if isspace c then skip_ws r else s | [] => [] end.
Fixpoint take_digits (s : list Z) (acc : Z) (n : nat) : Z * nat * list Z :=
  match s with c :: r => if is_digit c then take_digits r (acc * 10 + (c - 48)) (S n) else (acc, n, s) | [] => (acc, n, []) end.
Fixpoint scan_fields (k : nat) (s : list Z) (got : list Z) : Z * list Z :=
  match k with
  | O => (len got, got)
  | S k' =>
      let s := skip_ws s in
      match s with
      | [] => ((if Nat.eqb (length got) 0 then -1 else len got), got)
      | c :: r =>
          let neg := c =? 45 in
          let body := if neg || (c =? 43) then r else s in
          let '(v, n, rest) := take_digits body 0 0 in
          if Nat.eqb n 0 then (len got, got) else scan_fields k' rest (got ++ [if neg then - v else v])
      end
  end.
Definition api_gmp_scan_partial : api := fun a =>
  let '(cnt, got) := scan_fields 3 (argb a 1) [] in
  TZ cnt :: map TZ (got ++ repeat (-5) (3 - length got)).

(* ---- %Fe / %Ff: certificate evaluated on the library's output (doprntf.c is not modelled):
   ffmtcheck conv P width mant e2 out : out is [blanks][-]digits[.digits][e+-dd] of the right shape for the
   conversion with P digits after the point, at least width bytes, and the decimal number it spells is within
   half a unit of its last digit of |mant * 2^e2| plus a slack: one part in a thousand for %e (one rounding, by mpf_get_str),
   one part in a hundred for %f, which by doprntf.c's stated method rounds mpf_get_str's digits, themselves rounded two
   places further right, a second time (0.4983 printed with %.0Ff is "1"); the sign agrees ---- *)
Fixpoint skip_blanks (s : list Z) : list Z := match s with 32 :: r => skip_blanks r | _ => s end.
Fixpoint split_digits (s : list Z) (acc : list Z) : list Z * list Z :=
  match s with c :: r => if is_digit c then split_digits r (c :: acc) else (rev acc, s) | [] => (rev acc, []) end.
Definition dec_val (ds : list Z) : Z := fold_left (fun a c => a * 10 + (c - 48)) ds 0.
Definition api_ffmtcheck : api := fun t =>
  let conv := argz t 0 in let P := argz t 1 in let width := argz t 2 in let mant := argz t 3 in let e2 := argz t 4 in
  let out := argb t 5 in
  let s := skip_blanks out in
  let neg := hd0 s =? 45 in
  let s := if neg || (hd0 s =? 43) then tl0 s else s in
  let '(ip, s) := split_digits s [] in
  let '(fp, s) := match s with 46 :: r => split_digits r [] | _ => ([], s) end in
  let '(ex, exdigits, s) :=
    match s with
    | 101 :: r => let eneg := hd0 r =? 45 in
                  let r := if eneg || (hd0 r =? 43) then tl0 r else r in
                  let '(ed, r') := split_digits r [] in ((if eneg then - dec_val ed else dec_val ed), len ed, r')
    | _ => (0, 0, s)
    end in
  let s := skip_blanks s in
  let shape :=
    match s with [] => true | _ => false end
    && negb (Nat.eqb (length ip) 0) && (len fp =? P) && (width <=? len out)
    && (if conv =? 101 then (len ip =? 1) && (2 <=? exdigits) && ((mant =? 0) || negb (hd0 ip =? 48)) else exdigits =? 0)
    && (Bool.eqb neg (mant <? 0) || (mant =? 0)) in
  (* |D - v| * 2 <= ulp * 1.001 with D = digits * 10^(ex - P), v = |mant| 2^e2, ulp = 10^(ex - P); all scaled to integers *)
  let D := dec_val (ip ++ fp) in
  let k := ex - P in                                   (* D * 10^k *)
  let vn := Z.abs mant * (if 0 <=? e2 then 2 ^ e2 else 1) in let vd := if 0 <=? e2 then 1 else 2 ^ (- e2) in
  let un := if 0 <=? k then 10 ^ k else 1 in let ud := if 0 <=? k then 1 else 10 ^ (- k) in   (* ulp = un / ud *)
  (* |D un / ud - vn / vd| * 2000 <= 1001 un / ud   <=>   |D un vd - vn ud| * 2000 <= 1001 un vd *)
  let ok := Z.abs (D * un * vd - vn * ud) * 2000 <=? (if conv =? 101 then 1001 else 1010) * un * vd in
  [TZ (b2z (shape && ok))].

(* ---- gmp_sscanf / gmp_fscanf through the as-coded model of doscan.c (DoscanDefs.v):
   gmp_doscan x:format x:input x:slots mode : slots = one letter per pointer argument (Z mpz, Q mpq, l long, d int, h short,
   c char); result: return value, input bytes consumed, then the content of every argument after the call (an argument the
   call did not reach keeps the sentinel the harness put there).  -99 / -98: outside the modelled directives (never generated). *)
Definition scan_sentinel (k : Z) : list tok :=
  if k =? 90 then [TZ 77777]                                    (* Z *)
  else if k =? 81 then [TZ 77777; TZ 7]                         (* Q *)
  else if k =? 108 then [TZ 6510615555426900570]                (* l: 0x5A5A5A5A5A5A5A5A *)
  else if k =? 100 then [TZ 1515870810]                         (* d: 0x5A5A5A5A *)
  else if k =? 104 then [TZ 23130]                              (* h: 0x5A5A *)
  else [TZ 90].                                                 (* c: 0x5A *)
Fixpoint scan_slots (slots : list Z) (st : list sv) : option (list tok) :=
  match slots with
  | [] => match st with [] => Some [] | _ => None end
  | k :: ks =>
      match st with
      | [] => match scan_slots ks [] with Some r => Some (scan_sentinel k ++ r) | None => None end
      | v :: vs =>
          let this :=
            match v with
            | SVZ z => if k =? 90 then Some [TZ z] else None
            | SVQ n d => if k =? 81 then Some [TZ n; TZ d] else None
            | SVL x => if (k =? 108) || (k =? 100) then Some [TZ x] else None
            | SVN n => if k =? 81 then Some [TZ n; TZ 1] else Some [TZ n]
            | SVfail => None
            end in
          match this, scan_slots ks vs with Some a, Some r => Some (a ++ r) | _, _ => None end
      end
  end.
Definition api_gmp_doscan : api := fun a =>
  let '(ret, st, ncons) := doscan digit_value_tab (argb a 0) (argb a 1) in
  if ret =? -99 then [TZ (-99)]
  else match scan_slots (argb a 2) st with
       | Some r => TZ ret :: TZ ncons :: r
       | None => [TZ (-98)]
       end.
