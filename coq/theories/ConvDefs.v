(* ConvDefs.v — models behind C11 (comparisons, conversions to and from C types) and the
   double-precision pieces shared with C12/C13.  A C double is its IEEE-754 binary64 bit pattern
   (a Z below 2^64); its value is the exact dyadic sign * m * 2^e — no floating point in the model.
   Definitions only. *)
From Coq Require Import ZArith List Bool.
From Mpir Require Import Word Limbs MpnBasicDefs MpzDefs.
Import ListNotations.
Local Open Scope Z_scope.

(* ---- IEEE-754 binary64 ---- *)
Inductive dval := DFin (neg : bool) (m e : Z) | DInf (neg : bool) | DNan.   (* DFin: (-1)^neg * m * 2^e *)
Definition decode_double (bits : Z) : dval :=
  let neg := 0 <? Z.land (Z.shiftr bits 63) 1 in
  let ex := Z.land (Z.shiftr bits 52) 2047 in
  let man := Z.land bits (2 ^ 52 - 1) in
  if ex =? 2047 then (if man =? 0 then DInf neg else DNan)
  else if ex =? 0 then DFin neg man (-1074)
  else DFin neg (man + 2 ^ 52) (ex - 1075).

Definition inf_bits (neg : bool) : Z := (if neg then 2 ^ 63 else 0) + 2047 * 2 ^ 52.

(* mpn/generic/get_d.c (IEEE path): the double nearest to zero-side of sign * mag * 2^exp, i.e.
   truncation to 53 significant bits, with overflow to infinity, gradual underflow by further
   truncation, and +0.0 for total underflow and for mag = 0 *)
Definition get_d_bits (mag : Z) (neg : bool) (exp : Z) : Z :=
  if mag =? 0 then 0
  else
    let L := Z.log2 mag + 1 in
    let e := exp + L - 1 in                                   (* value in [2^e, 2^(e+1)) *)
    let m53 := if 53 <=? L then mag / 2 ^ (L - 53) else mag * 2 ^ (53 - L) in
    let s := if neg then 2 ^ 63 else 0 in
    if 1024 <=? e then inf_bits neg
    else if e <=? -1023 then
      (if e <=? -1075 then 0 else s + m53 / 2 ^ (-1022 - e))
    else s + (e + 1023) * 2 ^ 52 + (m53 - 2 ^ 52).

Inductive cres (A : Type) := COk (a : A) | Invalid.
Arguments COk {A} a. Arguments Invalid {A}.

(* mpz_set_d: truncate toward zero; NaN and infinities are an invalid operation *)
Definition mpz_set_d (bits : Z) : cres Z :=
  match decode_double bits with
  | DFin neg m e =>
      let mag := if 0 <=? e then m * 2 ^ e else m / 2 ^ (- e) in
      COk (if neg then - mag else mag)
  | _ => Invalid
  end.
Definition mpz_get_d (z : Z) : Z := get_d_bits (Z.abs z) (z <? 0) 0.
(* mpz_get_d_2exp: d in [0.5, 1) (or 0) with |z| truncated to 53 bits, and the exponent *)
Definition mpz_get_d_2exp (z : Z) : Z * Z :=
  if z =? 0 then (0, 0)
  else let L := Z.log2 (Z.abs z) + 1 in (get_d_bits (Z.abs z) (z <? 0) (- L), L).
(* sign of z - d; NaN invalid; infinities compare beyond every integer *)
Definition sgnz (x : Z) : Z := Z.sgn x.
Definition mpz_cmp_d (z bits : Z) : cres Z :=
  match decode_double bits with
  | DNan => Invalid
  | DInf neg => COk (if neg then 1 else -1)
  | DFin neg m e =>
      let dm := if neg then - m else m in
      COk (if 0 <=? e then sgnz (z - dm * 2 ^ e) else sgnz (z * 2 ^ (- e) - dm))
  end.
Definition mpz_cmpabs_d (z bits : Z) : cres Z :=
  match decode_double bits with
  | DNan => Invalid
  | DInf _ => COk (-1)
  | DFin _ m e => COk (if 0 <=? e then sgnz (Z.abs z - m * 2 ^ e) else sgnz (Z.abs z * 2 ^ (- e) - m))
  end.

(* mpq_get_d: n/d truncated toward zero to 53 bits (den > 0) *)
Definition mpq_get_d (n d : Z) : Z :=
  if n =? 0 then 0
  else
    let s := Z.max 0 (66 + Z.log2 d - Z.log2 (Z.abs n)) in
    get_d_bits ((Z.abs n * 2 ^ s) / d) (n <? 0) (- s).

(* ---- integer conversions ---- *)
(* mpz_cmp at limb level: sizes first, then the limbs from the top (mpz/cmp.c) *)
Definition mpz_cmp_limbs (u v : mpz) : Z :=
  if negb (sz u =? sz v) then (if sz u <? sz v then -1 else 1)
  else let c := cmp (d u) (d v) in if 0 <=? sz u then c else - c.
Definition mpz_cmp (u v : Z) : Z := sgnz (u - v).
Definition mpz_cmpabs (u v : Z) : Z := sgnz (Z.abs u - Z.abs v).
Definition mpz_sgn (u : Z) : Z := Z.sgn u.

Definition mpz_get_ui (z : Z) : Z := Z.abs z mod B.
(* mpz/get_si.c: zl & LONG_MAX for positives; ~((zl - 1) & LONG_MAX) for negatives *)
Definition mpz_get_si (z : Z) : Z :=
  let zl := Z.abs z mod B in
  if 0 <? z then zl mod 2 ^ 63
  else if z <? 0 then - 1 - ((zl - 1) mod B) mod 2 ^ 63
  else 0.
(* mpz/get_sx.c: the low limb of |z|, negated for z < 0, read as a two's-complement intmax_t *)
Definition mpz_get_sx (z : Z) : Z :=
  let v := Z.abs z mod B in
  let w := if z <? 0 then (B - v) mod B else v in
  if w <? 2 ^ 63 then w else w - B.
Definition fits_u (bits z : Z) : bool := (0 <=? z) && (z <? 2 ^ bits).
Definition fits_s (bits z : Z) : bool := (- 2 ^ (bits - 1) <=? z) && (z <? 2 ^ (bits - 1)).

(* ---- rationals ---- *)
Definition mpq_cmp (n1 d1 n2 d2 : Z) : Z := sgnz (n1 * d2 - n2 * d1).
Definition mpq_equal (n1 d1 n2 d2 : Z) : bool := (n1 =? n2) && (d1 =? d2).
