(* ApiF.v — correspondence entry points for C13.  Definitions only. *)
From Coq Require Import ZArith List Bool.
From Mpir Require Import Word DivDefs MpfDefs ApiBasic MpfAddDefs MpfSubDefs MpfDivDefs.
Import ListNotations.
Local Open Scope Z_scope.

(* rational arithmetic on (num, den) pairs with positive denominators *)
Definition qadd (a b : Z * Z) : Z * Z := (fst a * snd b + fst b * snd a, snd a * snd b).
Definition qsub (a b : Z * Z) : Z * Z := (fst a * snd b - fst b * snd a, snd a * snd b).
Definition qmul (a b : Z * Z) : Z * Z := (fst a * fst b, snd a * snd b).
Definition qdiv (a b : Z * Z) : Z * Z :=
  if fst b <? 0 then (- (fst a * snd b), - (snd a * fst b)) else (fst a * snd b, snd a * fst b).
Definition qfloor (a : Z * Z) : Z * Z := (fst a / snd a, 1).
Definition qceil (a : Z * Z) : Z * Z := (- ((- fst a) / snd a), 1).
Definition qtrunc (a : Z * Z) : Z * Z := (Z.quot (fst a) (snd a), 1).

(* mpfcheck op p rm re2 an ad bn bd k :
   op: 1 add 2 sub 3 mul 4 div 5 sqrt 6 neg 7 abs 8 mul_2exp k 9 div_2exp k 10 floor 11 ceil 12 trunc 13 set (value a)
   result r = rm * 2^re2 of precision p bits; verdict 1 = property holds for this call.
   The "exact" family (6..12) must equal the exact value whenever that value fits in p bits; a source longer than
   the destination is truncated to the destination precision, for which the accuracy bound is required. *)
Definition api_mpfcheck : api := fun t =>
  let op := argz t 0 in let p := argz t 1 in
  let rn := dy_num (argz t 2) (argz t 3) in let rd := dy_den (argz t 3) in
  let a := (argz t 4, argz t 5) in let b := (argz t 6, argz t 7) in let k := argz t 8 in
  let afit := fits_bits p (fst a) (snd a) in let bfit := fits_bits p (fst b) (snd b) in
  let v (opsfit : bool) (e : Z * Z) := cert_ok p opsfit (fst e) (snd e) rn rd in
  let ok :=
    if op =? 1 then v (afit && bfit) (qadd a b)
    else if op =? 2 then v (afit && bfit) (qsub a b)
    else if op =? 3 then v (afit && bfit) (qmul a b)
    else if op =? 4 then v (afit && bfit) (qdiv a b)
    else if op =? 5 then
      sqrt_ok p (fst a) (snd a) rn rd
      && (let s := Z.sqrt (fst a * snd a) in
          (* a = (s / ad)^2 exactly and the root fits: result must be exact *)
          if afit && (s * s =? fst a * snd a) && fits_bits p s (snd a) then rn * snd a =? s * rd else true)
    else if op =? 6 then v true (- fst a, snd a)
    else if op =? 7 then v true (Z.abs (fst a), snd a)
    else if op =? 8 then v true (fst a * 2 ^ k, snd a)
    else if op =? 9 then v true (fst a, snd a * 2 ^ k)
    else if op =? 10 then v true (qfloor a)
    else if op =? 11 then v true (qceil a)
    else if op =? 12 then v true (qtrunc a)
    else if op =? 13 then v true a
    else false in
  [TZ (b2z ok)].
(* bit-exact model of mpf_mul: prec (limbs) um ue (value um * B^(ue - nlimbs um)) vm ve -> size exp mantissa *)
Definition api_mpf_mul : api := fun t =>
  let prec := argz t 0 in
  let mk (m e : Z) := mkf_norm (m <? 0) (Z.abs m) e in
  let r := mpf_mul prec (mk (argz t 1) (argz t 2)) (mk (argz t 3) (argz t 4)) in
  [TZ (if fneg r then - fn r else fn r); TZ (fexp r); TZ (fM r)].

(* bit-exact model of mpf_add (operands of the same sign): prec (limbs) um ue vm ve -> size exp mantissa *)
Definition api_mpf_add_exact : api := fun t =>
  let prec := argz t 0 in
  let mk (m e : Z) := mkf_norm (m <? 0) (Z.abs m) e in
  let r := mpf_add prec (mk (argz t 1) (argz t 2)) (mk (argz t 3) (argz t 4)) in
  [TZ (if fneg r then - fn r else fn r); TZ (fexp r); TZ (fM r)].

(* bit-exact model of mpf_sub (any signs): prec (limbs) um ue vm ve -> size exp mantissa *)
Definition api_mpf_sub_exact : api := fun t =>
  let prec := argz t 0 in
  let mk (m e : Z) := mkf_norm (m <? 0) (Z.abs m) e in
  let r := mpf_sub_full prec (mk (argz t 1) (argz t 2)) (mk (argz t 3) (argz t 4)) in
  [TZ (if fneg r then - fn r else fn r); TZ (fexp r); TZ (fM r)].

(* bit-exact models of mpf_div / mpf_mul_ui / mpf_div_ui: prec (limbs) um ue [vm ve | k] -> size exp mantissa; the trap is the empty byte string *)
Definition out_f (r : mpf) : list tok := [TZ (if fneg r then - fn r else fn r); TZ (fexp r); TZ (fM r)].
Definition out_fo (o : option mpf) : list tok := match o with Some r => out_f r | None => [TB []] end.
Definition mkraw (m e : Z) : mpf := mkf_norm (m <? 0) (Z.abs m) e.
Definition api_mpf_div_exact : api := fun t => out_fo (mpf_div (argz t 0) (mkraw (argz t 1) (argz t 2)) (mkraw (argz t 3) (argz t 4))).
Definition api_mpf_mul_ui_exact : api := fun t => out_f (mpf_mul_ui (argz t 0) (mkraw (argz t 1) (argz t 2)) (argz t 3)).
Definition api_mpf_div_ui_exact : api := fun t => out_fo (mpf_div_ui (argz t 0) (mkraw (argz t 1) (argz t 2)) (argz t 3)).
