(* DivWord2Proofs.v — second-tier word-level division proofs behind C02:
   mpir_invert_pi1 and udiv_qr_3by2 (Möller–Granlund, "Improved division by invariant
   integers", Algorithms 4-6 and Theorem 3). *)
From Coq Require Import ZArith List Lia Bool ZifyBool.
From Mpir Require Import Word Limbs DivDefs DivWordProofs.
Local Open Scope Z_scope.

(* ---- generic wrap facts ---- *)
Lemma wrap_unique x y c : limb y -> x = c * B + y -> wrap x = y.
Proof.
  intros Hy Hx. unfold wrap, limb in *. symmetry.
  apply Z.mod_unique with (q := c); lia.
Qed.

Lemma wrap_wrap_add a b : wrap (wrap a + b) = wrap (a + b).
Proof. unfold wrap. apply Zplus_mod_idemp_l. Qed.

Lemma wrap_wrap_sub a b : wrap (wrap a - b) = wrap (a - b).
Proof. unfold wrap. apply Zminus_mod_idemp_l. Qed.

Lemma wrap_sub_wrap a b : wrap (a - wrap b) = wrap (a - b).
Proof. unfold wrap. apply Zminus_mod_idemp_r. Qed.

Lemma wrap_ex x : exists c, wrap x = x + c * B.
Proof.
  exists (- (x / B)). unfold wrap. pose proof B_pos as HB.
  rewrite Z.mod_eq by lia. ring.
Qed.

Lemma land_mask d : limb d -> Z.land (B - 1) d = d.
Proof.
  intros Hd. unfold limb in Hd. rewrite B_val in *.
  change (18446744073709551616 - 1) with (Z.ones 64).
  rewrite Z.land_comm, Z.land_ones by lia.
  apply Z.mod_small. change (2 ^ 64) with 18446744073709551616. lia.
Qed.

(* ---- mpir_invert_pi1, split in its two adjustment stages ---- *)
Definition pi1_stage1 (d1 d0 : Z) : Z * Z :=
  let v := invert_limb d1 in
  let p := wrap (wrap (d1 * v) + d0) in
  if p <? d0 then
    let v1 := wrap (v - 1) in
    let mask := if d1 <=? p then B - 1 else 0 in
    let p1 := wrap (p - d1) in
    (wrap (v1 + mask), wrap (p1 - Z.land mask d1))
  else (v, p).

Definition pi1_stage2 (d1 d0 v p : Z) : Z :=
  let '(t1, t0) := umul_ppmm d0 v in
  let p2 := wrap (p + t1) in
  if p2 <? t1 then
    let v2 := wrap (v - 1) in
    if d1 <=? p2 then
      if (d1 <? p2) || (d0 <=? t0) then wrap (v2 - 1) else v2
    else v2
  else v.

Lemma invert_pi1_unfold d1 d0 :
  invert_pi1 d1 d0 = let '(v, p) := pi1_stage1 d1 d0 in pi1_stage2 d1 d0 v p.
Proof. reflexivity. Qed.

(* after stage 1: v = floor((B^2 - 1 - d0) / d1) - B, p = B - 1 - remainder *)
Lemma pi1_stage1_spec d1 d0 : B / 2 <= d1 < B -> limb d0 ->
  let '(v, p) := pi1_stage1 d1 d0 in
  exists r1, (B + v) * d1 + d0 + r1 = B * B - 1 /\ 0 <= r1 < d1 /\ p = B - 1 - r1 /\ limb v.
Proof.
  intros Hd1 Hd0.
  pose proof B_pos as HB. pose proof B_half as Hh.
  destruct (invert_limb_spec d1 Hd1) as [_ Hv0].
  destruct (invert_limb_k d1 Hd1) as [k [Hk Hkr]].
  unfold pi1_stage1.
  set (v0 := invert_limb d1) in *.
  unfold limb in Hd0, Hv0.
  assert (Hw1 : wrap (d1 * v0) = B - k).
  { apply (wrap_unique _ _ (B - d1 - 1)); [unfold limb; lia | lia]. }
  rewrite Hw1.
  destruct (Z_lt_dec d0 k) as [Hlt|Hge].
  - (* no carry *)
    assert (Hp : wrap (B - k + d0) = B - k + d0).
    { apply wrap_small. lia. }
    rewrite Hp.
    destruct (Z.ltb_spec (B - k + d0) d0) as [Hc|Hc]; [lia|].
    exists (k - 1 - d0). unfold limb. repeat split; lia.
  - (* carry *)
    assert (Hp : wrap (B - k + d0) = d0 - k).
    { apply (wrap_unique _ _ 1); [unfold limb; lia | lia]. }
    rewrite Hp.
    destruct (Z.ltb_spec (d0 - k) d0) as [Hc|Hc]; [|lia].
    cbv zeta. rewrite wrap_wrap_add, wrap_wrap_sub.
    destruct (Z.leb_spec d1 (d0 - k)) as [Hm|Hm].
    + (* two decrements *)
      rewrite (land_mask d1) by (unfold limb; lia).
      assert (Hv2 : 2 <= v0).
      { assert (Hx : (B + v0 - 2) * d1 + d0 + (k - 1 - d0 + 2 * d1) = B * B - 1) by lia.
        assert (Hy : B * d1 - d1 < (B + v0 - 2) * d1) by nia.
        assert (Hz : d1 * (B - 1) < d1 * (B + v0 - 2)) by lia.
        apply mul_lt_cancel in Hz; lia. }
      assert (Hwv : wrap (v0 - 1 + (B - 1)) = v0 - 2).
      { apply (wrap_unique _ _ 1); [unfold limb; lia | lia]. }
      assert (Hwp : wrap (d0 - k - d1 - d1) = d0 - k - 2 * d1 + B).
      { apply (wrap_unique _ _ (-1)); [unfold limb; lia | lia]. }
      rewrite Hwv, Hwp.
      exists (k - 1 - d0 + 2 * d1). unfold limb. repeat split; lia.
    + (* one decrement *)
      rewrite Z.land_0_l.
      assert (Hv1 : 1 <= v0).
      { assert (Hx : (B + v0 - 1) * d1 + d0 + (k - 1 - d0 + d1) = B * B - 1) by lia.
        assert (Hy : B * d1 - d1 < (B + v0 - 1) * d1) by nia.
        assert (Hz : d1 * (B - 1) < d1 * (B + v0 - 1)) by lia.
        apply mul_lt_cancel in Hz; lia. }
      assert (Hwv : wrap (v0 - 1 + 0) = v0 - 1).
      { rewrite Z.add_0_r. apply wrap_small. lia. }
      assert (Hwp : wrap (d0 - k - d1 - 0) = d0 - k - d1 + B).
      { apply (wrap_unique _ _ (-1)); [unfold limb; lia | lia]. }
      rewrite Hwv, Hwp.
      exists (k - 1 - d0 + d1). unfold limb. repeat split; lia.
Qed.

(* a candidate reciprocal with remainder in range is the reciprocal *)
Lemma recip_final b D w R :
  0 < b -> 0 < D < b * b -> (b + w) * D + R = b * b * b - 1 -> 0 <= R < D ->
  0 <= w /\ w = (b * b * b - 1) / D - b.
Proof.
  intros Hb HD HE HR.
  assert (Hq : b + w = (b * b * b - 1) / D).
  { apply Z.div_unique with (r := R); lia. }
  split; [|lia].
  assert (H1 : b * D <= b * (b * b - 1)) by (apply Z.mul_le_mono_nonneg_l; lia).
  assert (H2 : (b - 1) * D < (b + w) * D) by nia.
  assert (H3 : D * (b - 1) < D * (b + w)) by lia.
  apply mul_lt_cancel in H3; lia.
Qed.

Lemma D_bounds d1 d0 : B / 2 <= d1 < B -> limb d0 ->
  0 < d1 * B + d0 < B * B /\ B * B <= 2 * (d1 * B + d0) /\ B <= d1 * B + d0.
Proof.
  intros Hd1 Hd0. unfold limb in Hd0. pose proof B_pos as HB. pose proof B_half as Hh.
  assert (H1 : d1 * B <= (B - 1) * B) by (apply Z.mul_le_mono_nonneg_r; lia).
  assert (H2 : 1 * B <= d1 * B) by (apply Z.mul_le_mono_nonneg_r; lia).
  assert (H3 : B * B <= (2 * d1) * B) by (apply Z.mul_le_mono_nonneg_r; lia).
  lia.
Qed.

Lemma pi1_stage2_spec d1 d0 v p r1 :
  B / 2 <= d1 < B -> limb d0 -> limb v ->
  (B + v) * d1 + d0 + r1 = B * B - 1 -> 0 <= r1 < d1 -> p = B - 1 - r1 ->
  pi1_stage2 d1 d0 v p = (B * B * B - 1) / (d1 * B + d0) - B.
Proof.
  intros Hd1 Hd0 Hv HE Hr1 Hp.
  pose proof B_pos as HB. pose proof B_half as Hh.
  destruct (D_bounds d1 d0 Hd1 Hd0) as [HD [HD2 HDB]].
  unfold pi1_stage2.
  pose proof (umul_ppmm_spec d0 v Hd0 Hv) as Hm.
  destruct (umul_ppmm d0 v) as [t1 t0]. destruct Hm as [Ht [Ht1 Ht0]].
  unfold limb in Hd0, Hv, Ht1, Ht0.
  set (D := d1 * B + d0) in *.
  set (R := B * (r1 - t1) + (B - 1 - t0)).
  assert (HR : (B + v) * D + R = B * B * B - 1).
  { subst D R.
    replace ((B + v) * (d1 * B + d0)) with (B * ((B + v) * d1) + B * d0 + d0 * v) by ring.
    replace ((B + v) * d1) with (B * B - 1 - d0 - r1) by lia.
    rewrite <- Ht. ring. }
  subst p. cbv zeta.
  destruct (Z_le_dec t1 r1) as [Hle|Hgt].
  - (* no carry: v is exact *)
    assert (Hp2 : wrap (B - 1 - r1 + t1) = B - 1 - r1 + t1) by (apply wrap_small; lia).
    rewrite Hp2.
    destruct (Z.ltb_spec (B - 1 - r1 + t1) t1) as [Hc|Hc]; [lia|].
    assert (Hb1 : 0 <= B * (r1 - t1)) by (apply Z.mul_nonneg_nonneg; lia).
    assert (Hb2 : B * (r1 - t1) <= B * (d1 - 1)) by (apply Z.mul_le_mono_nonneg_l; lia).
    apply (recip_final B D v R HB HD HR). subst R D. lia.
  - (* carry *)
    assert (Hp2 : wrap (B - 1 - r1 + t1) = t1 - r1 - 1).
    { apply (wrap_unique _ _ 1); [unfold limb; lia | lia]. }
    rewrite Hp2.
    destruct (Z.ltb_spec (t1 - r1 - 1) t1) as [Hc|Hc]; [|lia].
    rewrite wrap_wrap_sub.
    assert (HmR : (t1 - r1 - 1) * B + t0 = - R - 1) by (subst R; ring).
    assert (HRneg : R < 0).
    { assert (Hx : B * (r1 - t1) <= B * (-1)) by (apply Z.mul_le_mono_nonneg_l; lia).
      subst R. lia. }
    assert (HRlow : - (B * B) < R).
    { assert (Hx : d0 * v <= (B - 1) * (B - 1)) by (apply Z.mul_le_mono_nonneg; lia).
      assert (Hy : 0 <= B * r1) by (apply Z.mul_nonneg_nonneg; lia).
      subst R. lia. }
    assert (Hone : 0 <= R + D -> wrap (v - 1) = (B * B * B - 1) / D - B).
    { intros Hge.
      destruct (recip_final B D (v - 1) (R + D) HB HD ltac:(lia) ltac:(lia)) as [Hv1 Hv1e].
      rewrite <- Hv1e. apply wrap_small. lia. }
    assert (Htwo : R + D < 0 -> wrap (v - 1 - 1) = (B * B * B - 1) / D - B).
    { intros Hlt.
      destruct (recip_final B D (v - 2) (R + 2 * D) HB HD ltac:(lia) ltac:(lia)) as [Hv1 Hv1e].
      rewrite <- Hv1e. replace (v - 1 - 1) with (v - 2) by ring. apply wrap_small. lia. }
    destruct (Z.leb_spec d1 (t1 - r1 - 1)) as [Hc1|Hc1].
    + destruct (Z.ltb_spec d1 (t1 - r1 - 1)) as [Hc2|Hc2]; cbn [orb].
      * apply Htwo.
        assert (Hx : (d1 + 1) * B <= (t1 - r1 - 1) * B) by (apply Z.mul_le_mono_nonneg_r; lia).
        subst D. lia.
      * assert (He : t1 - r1 - 1 = d1) by lia. rewrite He in HmR.
        destruct (Z.leb_spec d0 t0) as [Hc3|Hc3].
        -- apply Htwo. subst D. lia.
        -- apply Hone. subst D. lia.
    + apply Hone.
      assert (Hx : (t1 - r1 - 1) * B <= (d1 - 1) * B) by (apply Z.mul_le_mono_nonneg_r; lia).
      subst D. lia.
Qed.

Lemma invert_pi1_spec : forall d1 d0, B / 2 <= d1 < B -> limb d0 ->
  invert_pi1 d1 d0 = (B * B * B - 1) / (d1 * B + d0) - B.
Proof.
  intros d1 d0 Hd1 Hd0. rewrite invert_pi1_unfold.
  pose proof (pi1_stage1_spec d1 d0 Hd1 Hd0) as H1.
  destruct (pi1_stage1 d1 d0) as [v p].
  destruct H1 as [r1 [HE [Hr1 [Hp Hv]]]].
  exact (pi1_stage2_spec d1 d0 v p r1 Hd1 Hd0 Hv HE Hr1 Hp).
Qed.

(* ---- two-limb add / subtract modulo B^2 ---- *)
Lemma add_ssaaaa_ex ah al bh bl : limb al -> limb bl ->
  let '(sh, sl) := add_ssaaaa ah al bh bl in
  exists c, sh * B + sl = (ah * B + al) + (bh * B + bl) + c * (B * B) /\ limb sh /\ limb sl.
Proof.
  intros Hal Hbl. unfold add_ssaaaa. cbv zeta.
  pose proof (wrap_add_carry al bl Hal Hbl) as Hw.
  pose proof (wrap_limb (al + bl)) as Hl.
  set (sl := wrap (al + bl)) in *.
  pose proof (wrap_limb (ah + bh + b2z (sl <? al))) as Hh.
  destruct (wrap_ex (ah + bh + b2z (sl <? al))) as [c Hc].
  set (sh := wrap (ah + bh + b2z (sl <? al))) in *.
  exists c. split; [|split; assumption].
  rewrite Hc. set (cy := b2z (sl <? al)) in *. rewrite Hw. ring.
Qed.

Lemma sub_ddmmss_ex ah al bh bl : limb al -> limb bl ->
  let '(sh, sl) := sub_ddmmss ah al bh bl in
  exists c, sh * B + sl = (ah * B + al) - (bh * B + bl) + c * (B * B) /\ limb sh /\ limb sl.
Proof.
  intros Hal Hbl. unfold sub_ddmmss. cbv zeta.
  pose proof (wrap_sub_borrow al bl Hal Hbl) as Hw.
  pose proof (wrap_limb (al - bl)) as Hl.
  set (sl := wrap (al - bl)) in *.
  pose proof (wrap_limb (ah - bh - b2z (al <? bl))) as Hh.
  destruct (wrap_ex (ah - bh - b2z (al <? bl))) as [c Hc].
  set (sh := wrap (ah - bh - b2z (al <? bl))) in *.
  exists c. split; [|split; assumption].
  rewrite Hc. set (bw := b2z (al <? bl)) in *. rewrite Hw. ring.
Qed.

Lemma two_limb_range h l : limb h -> limb l -> 0 <= h * B + l < B * B.
Proof.
  unfold limb. intros Hh Hl. pose proof B_pos as HB.
  assert (H1 : 0 <= h * B) by (apply Z.mul_nonneg_nonneg; lia).
  assert (H2 : h * B <= (B - 1) * B) by (apply Z.mul_le_mono_nonneg_r; lia).
  lia.
Qed.

Lemma offset_unique m x y c : 0 <= x < m -> 0 <= y < m -> x = y + c * m -> c = 0.
Proof. intros Hx Hy He. nia. Qed.

Lemma two_limb_hi_ge h l q : limb l -> q * B <= h * B + l -> q <= h.
Proof. unfold limb. intros Hl Hq. pose proof B_pos as HB. nia. Qed.

Lemma two_limb_hi_lt h l q : limb l -> h * B + l < q * B -> h < q.
Proof. unfold limb. intros Hl Hq. pose proof B_pos as HB. nia. Qed.

(* the lexicographic comparison <r1,r0> >= <d1,d0> written in udiv_qr_3by2 *)
Lemma lex_ge_if (T : Type) (X Y : T) d1 d0 r1 r0 : limb d0 -> limb r0 ->
  (if d1 <=? r1 then if (d1 <? r1) || (d0 <=? r0) then X else Y else Y)
  = if d1 * B + d0 <=? r1 * B + r0 then X else Y.
Proof.
  unfold limb. intros Hd0 Hr0. pose proof B_pos as HB.
  destruct (Z.leb_spec d1 r1) as [H1|H1].
  - destruct (Z.ltb_spec d1 r1) as [H2|H2]; cbn [orb].
    + destruct (Z.leb_spec (d1 * B + d0) (r1 * B + r0)) as [H3|H3]; [reflexivity|].
      exfalso. assert (Hx : (d1 + 1) * B <= r1 * B) by (apply Z.mul_le_mono_nonneg_r; lia). lia.
    + assert (He : r1 = d1) by lia. subst r1.
      destruct (Z.leb_spec d0 r0) as [H3|H3];
        destruct (Z.leb_spec (d1 * B + d0) (d1 * B + r0)) as [H4|H4]; try reflexivity; lia.
  - destruct (Z.leb_spec (d1 * B + d0) (r1 * B + r0)) as [H3|H3]; [|reflexivity].
    exfalso. assert (Hx : (r1 + 1) * B <= d1 * B) by (apply Z.mul_le_mono_nonneg_r; lia). lia.
Qed.

(* ---- Möller–Granlund Theorem 3, over an abstract base ---- *)
Section MG3.
  Variables b D v k u2 u1 u0 q1 q0 : Z.
  Hypothesis Hb : 0 < b.
  Hypothesis HD : b <= D < b * b.
  Hypothesis Hv : 0 <= v.
  Hypothesis Hk : (b + v) * D = b * b * b - k.
  Hypothesis Hkr : 1 <= k <= D.
  Hypothesis Hu2 : 0 <= u2.
  Hypothesis Hu1 : 0 <= u1 < b.
  Hypothesis Hu0 : 0 <= u0 < b.
  Hypothesis HA : u2 * b + u1 < D.

  Lemma mg3_qbound : 0 <= (b + v) * u2 + u1 < b * b.
  Proof.
    split.
    { assert (H0 : 0 <= (b + v) * u2) by (apply Z.mul_nonneg_nonneg; lia). lia. }
    set (T := (b + v) * u2 + u1).
    assert (E : T * D = (b * b * b - k) * u2 + u1 * D).
    { subst T. rewrite <- Hk. ring. }
    assert (H0 : 0 <= b * b) by (apply Z.mul_nonneg_nonneg; lia).
    assert (H1 : b * b * (u1 + 1) <= b * b * (D - b * u2)) by (apply Z.mul_le_mono_nonneg_l; lia).
    assert (H2 : 0 <= k * u2) by (apply Z.mul_nonneg_nonneg; lia).
    assert (H3 : 0 <= u1 * (b * b - D)) by (apply Z.mul_nonneg_nonneg; lia).
    assert (H4 : D * T < D * (b * b)) by lia.
    apply (mul_lt_cancel D); lia.
  Qed.

  Hypothesis Hq : q1 * b + q0 = (b + v) * u2 + u1.
  Hypothesis Hq0 : 0 <= q0 < b.

  Let e := b * b - D.
  Let rt := u2 * b * b + u1 * b + u0 - (q1 + 1) * D.

  Lemma mg3_ident1 : b * rt = u1 * e + u0 * b + k * u2 + q0 * D - b * D.
  Proof.
    assert (Ek : k = b * b * b - (b + v) * D) by lia.
    assert (Eq : q1 * b = (b + v) * u2 + u1 - q0) by lia.
    subst rt e.
    replace (b * (u2 * b * b + u1 * b + u0 - (q1 + 1) * D))
      with (b * (u2 * b * b + u1 * b + u0) - (q1 * b) * D - b * D) by ring.
    rewrite Eq, Ek. ring.
  Qed.

  Lemma mg3_lower1 : - D <= rt.
  Proof.
    pose proof mg3_ident1 as E.
    assert (H1 : 0 <= u1 * e) by (apply Z.mul_nonneg_nonneg; subst e; lia).
    assert (H2 : 0 <= u0 * b) by (apply Z.mul_nonneg_nonneg; lia).
    assert (H3 : 0 <= k * u2) by (apply Z.mul_nonneg_nonneg; lia).
    assert (H4 : 0 <= q0 * D) by (apply Z.mul_nonneg_nonneg; lia).
    assert (H5 : 0 <= b * (rt + D)) by lia.
    apply mul_pos_cancel in H5; lia.
  Qed.

  Lemma mg3_lower2 : q0 * b - b * b <= rt.
  Proof.
    pose proof mg3_ident1 as E.
    assert (H1 : 0 <= u1 * e) by (apply Z.mul_nonneg_nonneg; subst e; lia).
    assert (H2 : 0 <= u0 * b) by (apply Z.mul_nonneg_nonneg; lia).
    assert (H3 : 0 <= k * u2) by (apply Z.mul_nonneg_nonneg; lia).
    assert (H4 : 0 <= (b - q0) * e) by (apply Z.mul_nonneg_nonneg; subst e; lia).
    assert (H5 : 0 <= b * (rt - (q0 * b - b * b))).
    { replace (b * (rt - (q0 * b - b * b))) with (b * rt - q0 * (b * b) + b * b * b) by ring.
      rewrite E. subst e. lia. }
    apply mul_pos_cancel in H5; lia.
  Qed.

  Lemma mg3_upper : b * b * rt < e * e + D * (q0 * b).
  Proof.
    pose proof mg3_ident1 as E.
    set (S := u1 * e + u0 * b + u2 * k).
    set (A := u2 * b + u1).
    assert (EvD : v * D = b * e - k) by (subst e; lia).
    assert (E2 : b * S = A * k + u0 * (b * b) + u1 * (v * D)).
    { rewrite EvD. subst S A. ring. }
    assert (HvD : 0 <= v * D) by (apply Z.mul_nonneg_nonneg; lia).
    assert (U1 : A * k <= (D - 1) * k) by (apply Z.mul_le_mono_nonneg_r; subst A; lia).
    assert (U2 : u0 * (b * b) <= (b - 1) * (b * b)).
    { apply Z.mul_le_mono_nonneg_r; [apply Z.mul_nonneg_nonneg; lia | lia]. }
    assert (U3 : u1 * (v * D) <= (b - 1) * (v * D)) by (apply Z.mul_le_mono_nonneg_r; lia).
    assert (U4 : (D - b) * k <= (D - b) * D) by (apply Z.mul_le_mono_nonneg_l; lia).
    assert (U5 : b * S <= D * D + b * b * e - b * b).
    { rewrite E2. rewrite EvD in U3.
      replace (D * D + b * b * e - b * b)
        with ((D - b) * D + (b - 1) * (b * b) + (b - 1) * (b * e)) by (subst e; ring).
      replace ((b - 1) * (b * e - k)) with ((b - 1) * (b * e) - (D - 1) * k + (D - b) * k) in U3 by ring.
      lia. }
    assert (E3 : b * b * rt = b * S + b * (q0 * D) - b * b * D).
    { replace (b * b * rt) with (b * (b * rt)) by ring. rewrite E. subst S. ring. }
    rewrite E3.
    replace (e * e + D * (q0 * b)) with (D * D + b * b * e - b * b * D + b * (q0 * D)) by (subst e; ring).
    lia.
  Qed.

  Lemma mg3_upper_e : q0 * b <= e -> rt < e.
  Proof.
    intros Hc. pose proof mg3_upper as HU.
    assert (H1 : D * (q0 * b) <= D * e) by (apply Z.mul_le_mono_nonneg_l; lia).
    assert (H2 : b * b * rt < b * b * e).
    { replace (b * b * e) with (e * e + D * e) by (subst e; ring). lia. }
    assert (H0 : 0 < b * b) by (apply Z.mul_pos_pos; lia).
    apply (mul_lt_cancel (b * b)); assumption.
  Qed.

  Lemma mg3_upper_q : e <= q0 * b -> rt < q0 * b.
  Proof.
    intros Hc. pose proof mg3_upper as HU.
    assert (H1 : e * e <= e * (q0 * b)) by (apply Z.mul_le_mono_nonneg_l; subst e; lia).
    assert (H2 : b * b * rt < b * b * (q0 * b)).
    { replace (b * b * (q0 * b)) with (e * (q0 * b) + D * (q0 * b)) by (subst e; ring). lia. }
    assert (H0 : 0 < b * b) by (apply Z.mul_pos_pos; lia).
    apply (mul_lt_cancel (b * b)); assumption.
  Qed.
End MG3.

(* ---- udiv_qr_3by2 ---- *)
Lemma div_finish U D q r1 r0 :
  0 < D -> U < D * B -> 0 <= q -> limb r1 -> limb r0 ->
  U = q * D + (r1 * B + r0) -> r1 * B + r0 < D ->
  q = U / D /\ r1 * B + r0 = U mod D /\ limb q /\ limb r1 /\ limb r0.
Proof.
  intros HD HU Hq Hr1 Hr0 HE Hlt.
  pose proof (two_limb_range r1 r0 Hr1 Hr0) as Hr.
  assert (E1 : q = U / D) by (apply Z.div_unique with (r := r1 * B + r0); lia).
  assert (E2 : r1 * B + r0 = U mod D) by (apply Z.mod_unique with (q := q); lia).
  assert (Hql : limb q).
  { unfold limb. split; [lia|]. assert (Hx : D * q < D * B) by lia.
    apply (mul_lt_cancel D); assumption. }
  repeat (split; [assumption|]). assumption.
Qed.

Lemma udiv_qr_3by2_generic n2 n1 n0 d1 d0 v :
  B / 2 <= d1 < B -> limb d0 -> limb n2 -> limb n1 -> limb n0 ->
  n2 * B + n1 < d1 * B + d0 ->
  v = (B * B * B - 1) / (d1 * B + d0) - B ->
  let '(q, r1, r0) := udiv_qr_3by2 n2 n1 n0 d1 d0 v in
  q = (n2 * B * B + n1 * B + n0) / (d1 * B + d0)
  /\ r1 * B + r0 = (n2 * B * B + n1 * B + n0) mod (d1 * B + d0)
  /\ limb q /\ limb r1 /\ limb r0.
Proof.
  intros Hd1 Hd0 Hn2 Hn1 Hn0 HA Hv.
  pose proof B_pos as HB.
  destruct (D_bounds d1 d0 Hd1 Hd0) as [HD [HD2 HDB]].
  assert (Hd1l : limb d1) by (unfold limb; pose proof B_half; lia).
  set (D := d1 * B + d0) in *.
  set (U := n2 * B * B + n1 * B + n0).
  assert (HBBB : B * D <= B * (B * B - 1)) by (apply Z.mul_le_mono_nonneg_l; lia).
  assert (HBB2 : B * (B * B) <= B * (2 * D)) by (apply Z.mul_le_mono_nonneg_l; lia).
  (* facts about the reciprocal *)
  assert (Hk : exists k, (B + v) * D = B * B * B - k /\ 1 <= k <= D).
  { exists (1 + (B * B * B - 1) mod D).
    pose proof (Z.div_mod (B * B * B - 1) D ltac:(lia)) as Hdm.
    pose proof (Z.mod_pos_bound (B * B * B - 1) D ltac:(lia)) as Hmb.
    split; [|lia]. replace (B + v) with ((B * B * B - 1) / D) by lia. lia. }
  destruct Hk as [k [Hk Hkr]].
  assert (Hvl : limb v).
  { unfold limb.
    assert (H1 : B <= (B * B * B - 1) / D) by (apply Z.div_le_lower_bound; lia).
    assert (H2 : (B * B * B - 1) / D < 2 * B) by (apply Z.div_lt_upper_bound; lia).
    lia. }
  clear Hv HBBB HBB2.
  assert (Hvn : 0 <= v) by (unfold limb in Hvl; lia).
  assert (HDr : B <= D < B * B) by lia.
  assert (Hn2' : 0 <= n2) by (unfold limb in Hn2; lia).
  assert (Hn1' : 0 <= n1 < B) by exact Hn1.
  assert (Hn0' : 0 <= n0 < B) by exact Hn0.
  unfold udiv_qr_3by2.
  pose proof (umul_ppmm_spec n2 v Hn2 Hvl) as Hm1.
  destruct (umul_ppmm n2 v) as [qa q0a]. destruct Hm1 as [Hqa [Hqal Hq0al]].
  pose proof (add_ssaaaa_ex qa q0a n2 n1 Hq0al Hn1) as Ha1.
  destruct (add_ssaaaa qa q0a n2 n1) as [q1 q0]. destruct Ha1 as [c0 [Hq [Hq1l Hq0l]]].
  pose proof (mg3_qbound B D v k n2 n1 n0 HB HDr Hvn Hk Hkr Hn2' Hn1' Hn0' HA) as Hqb.
  assert (Hc0 : c0 = 0).
  { apply (offset_unique (B * B) (q1 * B + q0) ((B + v) * n2 + n1));
      [apply two_limb_range; assumption | exact Hqb | lia]. }
  subst c0.
  assert (Hq' : q1 * B + q0 = (B + v) * n2 + n1) by lia.
  clear Hq Hqa Hqal Hq0al Hqb.
  assert (Hq0' : 0 <= q0 < B) by exact Hq0l.
  cbv zeta. rewrite wrap_sub_wrap.
  destruct (wrap_ex (n1 - d1 * q1)) as [c1 Hc1].
  pose proof (wrap_limb (n1 - d1 * q1)) as Hr1al.
  set (r1a := wrap (n1 - d1 * q1)) in *.
  pose proof (sub_ddmmss_ex r1a n0 d1 d0 Hn0 Hd0) as Hs1.
  destruct (sub_ddmmss r1a n0 d1 d0) as [r1b r0b]. destruct Hs1 as [c2 [Hs1 [Hr1bl Hr0bl]]].
  pose proof (umul_ppmm_spec d0 q1 Hd0 Hq1l) as Hm2.
  destruct (umul_ppmm d0 q1) as [t1 t0]. destruct Hm2 as [Ht [Ht1l Ht0l]].
  pose proof (sub_ddmmss_ex r1b r0b t1 t0 Hr0bl Ht0l) as Hs2.
  destruct (sub_ddmmss r1b r0b t1 t0) as [r1 r0]. destruct Hs2 as [c3 [Hs2 [Hr1l Hr0l]]].
  set (rt := U - (q1 + 1) * D).
  assert (Hr : r1 * B + r0 = rt + (c1 + c2 + c3 - n2) * (B * B)).
  { rewrite Hs2, Hs1, Hc1, Ht. subst rt U D. ring. }
  clear Hs2 Hs1 Hc1 Ht Hr1bl Hr0bl Ht1l Ht0l Hr1al.
  clearbody r1a. clear r1a r1b r0b t1 t0.
  set (c := c1 + c2 + c3 - n2) in *. clearbody c. clear c1 c2 c3.
  (* Theorem 3 bounds on the candidate remainder *)
  assert (L1 : - D <= rt).
  { subst rt U. apply (mg3_lower1 B D v k n2 n1 n0 q1 q0); assumption. }
  assert (L2 : q0 * B - B * B <= rt).
  { subst rt U. apply (mg3_lower2 B D v k n2 n1 n0 q1 q0); assumption. }
  assert (UE : q0 * B <= B * B - D -> rt < B * B - D).
  { subst rt U. apply (mg3_upper_e B D v k n2 n1 n0 q1 q0); assumption. }
  assert (UQ : B * B - D <= q0 * B -> rt < q0 * B).
  { subst rt U. apply (mg3_upper_q B D v k n2 n1 n0 q1 q0); assumption. }
  assert (Hq0B : q0 * B <= (B - 1) * B) by (apply Z.mul_le_mono_nonneg_r; lia).
  assert (HrtBB : rt < B * B).
  { destruct (Z_le_dec (q0 * B) (B * B - D)) as [Hc|Hc]; [specialize (UE Hc) | specialize (UQ ltac:(lia))]; lia. }
  pose proof (two_limb_range r1 r0 Hr1l Hr0l) as Hrr.
  assert (HUlt : U < D * B).
  { assert (Hx : (n2 * B + n1) * B <= (D - 1) * B) by (apply Z.mul_le_mono_nonneg_r; lia).
    subst U. lia. }
  assert (HUeq : U = (q1 + 1) * D + rt) by (subst rt; ring).
  assert (Hq1n : 0 <= q1) by (unfold limb in Hq1l; lia).
  (* a non-negative remainder bounds the candidate quotient *)
  assert (Hqj : forall j, 0 <= j -> (q1 + j) * D <= U -> wrap (q1 + j) = q1 + j).
  { intros j Hj Hle. apply wrap_small. split; [lia|].
    assert (Hlt : D * (q1 + j) < D * B) by lia.
    apply (mul_lt_cancel D); lia. }
  fold D. fold U.
  destruct (Z_lt_dec rt 0) as [Hneg|Hpos].
  - (* candidate one too large: r = rt + B^2 *)
    assert (Hc : c - 1 = 0).
    { apply (offset_unique (B * B) (r1 * B + r0) (rt + B * B)); lia. }
    assert (Hr' : r1 * B + r0 = rt + B * B) by (replace c with 1 in Hr by lia; lia).
    assert (Hge : q0 <= r1) by (apply (two_limb_hi_ge r1 r0 q0 Hr0l); lia).
    destruct (Z.leb_spec q0 r1) as [_|Hf]; [|lia].
    pose proof (add_ssaaaa_ex r1 r0 d1 d0 Hr0l Hd0) as Ha2.
    destruct (add_ssaaaa r1 r0 d1 d0) as [a1 a0]. destruct Ha2 as [c4 [Ha [Ha1l Ha0l]]].
    pose proof (two_limb_range a1 a0 Ha1l Ha0l) as Har.
    assert (Hc4 : 1 + c4 = 0).
    { apply (offset_unique (B * B) (a1 * B + a0) (rt + D)); lia. }
    assert (Ha' : a1 * B + a0 = rt + D) by (replace c4 with (-1) in Ha by lia; lia).
    rewrite lex_ge_if by assumption. fold D.
    destruct (Z.leb_spec D (a1 * B + a0)) as [Hf|_]; [lia|].
    rewrite wrap_wrap_sub. replace (q1 + 1 - 1) with q1 by ring.
    rewrite (wrap_small q1 Hq1l).
    apply div_finish; try assumption; lia.
  - (* r = rt *)
    assert (Hc : c = 0).
    { apply (offset_unique (B * B) (r1 * B + r0) rt); lia. }
    assert (Hr' : r1 * B + r0 = rt) by (replace c with 0 in Hr by lia; lia).
    assert (Hw1 : wrap (q1 + 1) = q1 + 1) by (apply (Hqj 1); lia).
    destruct (Z.leb_spec q0 r1) as [Hge|Hlt].
    + (* r1 >= q0 although rt >= 0: then rt < B^2 - D *)
      assert (Hx : q0 * B <= r1 * B) by (apply Z.mul_le_mono_nonneg_r; lia).
      assert (Hq0e : q0 * B <= B * B - D).
      { destruct (Z_le_dec (q0 * B) (B * B - D)) as [Hy|Hy]; [exact Hy|].
        specialize (UQ ltac:(lia)). unfold limb in Hr0l. lia. }
      specialize (UE Hq0e).
      pose proof (add_ssaaaa_ex r1 r0 d1 d0 Hr0l Hd0) as Ha2.
      destruct (add_ssaaaa r1 r0 d1 d0) as [a1 a0]. destruct Ha2 as [c4 [Ha [Ha1l Ha0l]]].
      pose proof (two_limb_range a1 a0 Ha1l Ha0l) as Har.
      assert (Hc4 : c4 = 0).
      { apply (offset_unique (B * B) (a1 * B + a0) (rt + D)); lia. }
      assert (Ha' : a1 * B + a0 = rt + D) by (replace c4 with 0 in Ha by lia; lia).
      rewrite lex_ge_if by assumption. fold D.
      destruct (Z.leb_spec D (a1 * B + a0)) as [_|Hf]; [|lia].
      pose proof (sub_ddmmss_ex a1 a0 d1 d0 Ha0l Hd0) as Hs3.
      destruct (sub_ddmmss a1 a0 d1 d0) as [s1 s0]. destruct Hs3 as [c5 [Hs [Hs1l Hs0l]]].
      pose proof (two_limb_range s1 s0 Hs1l Hs0l) as Hsr.
      assert (Hc5 : c5 = 0).
      { apply (offset_unique (B * B) (s1 * B + s0) rt); lia. }
      assert (Hs' : s1 * B + s0 = rt) by (replace c5 with 0 in Hs by lia; lia).
      rewrite wrap_wrap_sub. replace (q1 + 1 - 1) with q1 by ring.
      rewrite (wrap_small q1 Hq1l). rewrite Hw1.
      apply div_finish; try assumption; lia.
    + rewrite Hw1.
      rewrite lex_ge_if by assumption. fold D.
      destruct (Z.leb_spec D (r1 * B + r0)) as [Hc2|Hc2].
      * pose proof (sub_ddmmss_ex r1 r0 d1 d0 Hr0l Hd0) as Hs3.
        destruct (sub_ddmmss r1 r0 d1 d0) as [s1 s0]. destruct Hs3 as [c5 [Hs [Hs1l Hs0l]]].
        pose proof (two_limb_range s1 s0 Hs1l Hs0l) as Hsr.
        assert (Hc5 : c5 = 0).
        { apply (offset_unique (B * B) (s1 * B + s0) (rt - D)); lia. }
        assert (Hs' : s1 * B + s0 = rt - D) by (replace c5 with 0 in Hs by lia; lia).
        replace (q1 + 1 + 1) with (q1 + 2) by ring.
        rewrite (Hqj 2) by lia.
        apply div_finish; try assumption; lia.
      * apply div_finish; try assumption; lia.
Qed.

Lemma udiv_qr_3by2_spec : forall n2 n1 n0 d1 d0,
  B / 2 <= d1 < B -> limb d0 -> limb n2 -> limb n1 -> limb n0 ->
  n2 * B + n1 < d1 * B + d0 ->
  let '(q, r1, r0) := udiv_qr_3by2 n2 n1 n0 d1 d0 (invert_pi1 d1 d0) in
  q = (n2 * B * B + n1 * B + n0) / (d1 * B + d0)
  /\ r1 * B + r0 = (n2 * B * B + n1 * B + n0) mod (d1 * B + d0)
  /\ limb q /\ limb r1 /\ limb r0.
Proof.
  intros n2 n1 n0 d1 d0 Hd1 Hd0 Hn2 Hn1 Hn0 HA.
  apply udiv_qr_3by2_generic; try assumption.
  apply invert_pi1_spec; assumption.
Qed.
