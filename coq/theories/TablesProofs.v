(* TablesProofs.v — the regenerated tables satisfy TablesDefs.v (evaluation), and what that means entry by entry. *)
From Coq Require Import ZArith List Bool Lia.
From Mpir Require Import Word RadixDefs TablesDefs.
From MpirGen Require Import Gen_Consts.
Import ListNotations.
Local Open Scope Z_scope.

Lemma in_zrange a n x : a <= x < a + Z.of_nat n -> In x (zrange a n).
Proof.
  intros H. unfold zrange. apply in_map_iff. exists (Z.to_nat (x - a)). split; [lia|].
  apply in_seq. lia.
Qed.

Lemma digit_tab_evaluates : digit_tab_ok digit_value_tab = true.
Proof. vm_compute. reflexivity. Qed.

Lemma digit_tab_entries : forall c, 0 <= c < 256 ->
  dv digit_value_tab 0 c = digit_spec_ci c /\ dv digit_value_tab 224 c = digit_spec_cs c.
Proof.
  intros c Hc. pose proof digit_tab_evaluates as H. unfold digit_tab_ok in H.
  apply andb_true_iff in H. destruct H as [_ H]. rewrite forallb_forall in H.
  specialize (H c (in_zrange 0 256 c ltac:(lia))). apply andb_true_iff in H. destruct H as [H1 H2].
  split; [apply Z.eqb_eq, H1|apply Z.eqb_eq, H2].
Qed.

(* a byte is a digit of base b exactly when it is one of the characters the manual lists for that base *)
Lemma digit_tab_only_documented : forall c, 0 <= c < 256 ->
  (dv digit_value_tab 0 c <> 255 <-> (is_dig c || is_up c || is_lo c) = true)
  /\ (dv digit_value_tab 224 c <> 255 <-> (is_dig c || is_up c || is_lo c) = true).
Proof.
  intros c Hc. destruct (digit_tab_entries c Hc) as [E1 E2]. rewrite E1, E2.
  unfold digit_spec_ci, digit_spec_cs, is_dig, is_up, is_lo.
  destruct (48 <=? c) eqn:A1; destruct (c <=? 57) eqn:A2; destruct (65 <=? c) eqn:A3; destruct (c <=? 90) eqn:A4;
  destruct (97 <=? c) eqn:A5; destruct (c <=? 122) eqn:A6; cbn [andb orb]; split; split; intros H; try reflexivity; try lia; try discriminate; try (exfalso; apply H; reflexivity).
Qed.

Lemma sqrt_tab_evaluates : sqrt_tab_ok sqrt_approx_tab = true.
Proof. vm_compute. reflexivity. Qed.

Lemma sqrt_tab_entries : forall i, 64 <= i < 256 -> nth (Z.to_nat (i - 64)) sqrt_approx_tab 0 = Z.sqrt (256 * i).
Proof.
  intros i Hi. pose proof sqrt_tab_evaluates as H. unfold sqrt_tab_ok in H.
  apply andb_true_iff in H. destruct H as [_ H]. rewrite forallb_forall in H.
  apply Z.eqb_eq. apply H. apply in_zrange. lia.
Qed.
