(* BitProofs.v — the bitwise models of BitDefs.v follow infinite two's-complement
   semantics: limb-wise logic is Z.land/Z.lor/Z.lxor of the values, popcount counts set
   bits, scan finds the least wanted bit, and the sign-magnitude mpz routines agree with
   the Z-level operations for every sign combination. *)
From Coq Require Import ZArith List Lia Bool.
From Mpir Require Import Word Limbs MpnBasicDefs MpnBasicProofs MpzDefs MpzProofs BitDefs.
Import ListNotations.
Local Open Scope Z_scope.

(* ------------------------------------------------------------------ *)
(* bits of Z                                                            *)

Lemma B_pow2 : B = 2 ^ 64.
Proof. rewrite B_val. reflexivity. Qed.

Lemma testbit_small z N k : 0 <= z < 2 ^ N -> N <= k -> Z.testbit z k = false.
Proof.
  intros Hz Hk.
  assert (HN : 0 <= N).
  { destruct (Z_lt_dec N 0) as [L|L]; [|lia]. rewrite Z.pow_neg_r in Hz by lia. lia. }
  rewrite <- (Z.mod_small z (2 ^ N)) by exact Hz.
  apply Z.mod_pow2_bits_high. lia.
Qed.

Lemma small_of_bits z N : 0 <= N -> (forall k, N <= k -> Z.testbit z k = false) ->
  0 <= z < 2 ^ N.
Proof.
  intros HN H. assert (E : z = z mod 2 ^ N).
  { apply Z.bits_inj'. intros k Hk. destruct (Z_lt_dec k N) as [L|L].
    - rewrite Z.mod_pow2_bits_low by lia. reflexivity.
    - rewrite Z.mod_pow2_bits_high by lia. apply H. lia. }
  rewrite E. apply Z.mod_pos_bound. apply Z.pow_pos_nonneg; lia.
Qed.

Lemma testbit_add_pow2 N x y k : 0 <= N -> 0 <= x < 2 ^ N -> 0 <= k ->
  Z.testbit (x + 2 ^ N * y) k = if k <? N then Z.testbit x k else Z.testbit y (k - N).
Proof.
  intros HN Hx Hk. assert (P : 0 < 2 ^ N) by (apply Z.pow_pos_nonneg; lia).
  destruct (Z.ltb_spec k N) as [L|L].
  - rewrite <- (Z.mod_pow2_bits_low (x + 2 ^ N * y) N k) by lia.
    replace ((x + 2 ^ N * y) mod 2 ^ N) with x; [reflexivity|].
    rewrite (Z.mul_comm (2 ^ N) y), Z.mod_add by lia. symmetry. apply Z.mod_small. exact Hx.
  - replace k with ((k - N) + N) at 1 by lia. rewrite <- Z.div_pow2_bits by lia.
    replace ((x + 2 ^ N * y) / 2 ^ N) with y; [reflexivity|].
    rewrite (Z.mul_comm (2 ^ N) y), Z.div_add by lia. rewrite Z.div_small by exact Hx. lia.
Qed.

Lemma testbit_add_B x y k : limb x -> 0 <= k ->
  Z.testbit (x + B * y) k = if k <? 64 then Z.testbit x k else Z.testbit y (k - 64).
Proof.
  unfold limb. rewrite B_pow2. intros Hx Hk. apply testbit_add_pow2; [lia|exact Hx|exact Hk].
Qed.

Lemma opp_succ_lnot z : - (z + 1) = Z.lnot z.
Proof. unfold Z.lnot. lia. Qed.

Lemma opp_as_lnot z : - z = Z.lnot (z - 1).
Proof. unfold Z.lnot. lia. Qed.

Ltac bitwise :=
  apply Z.bits_inj'; let k := fresh "k" in let Hk := fresh "Hk" in intros k Hk;
  repeat (rewrite ?Z.lnot_spec, ?Z.land_spec, ?Z.lor_spec, ?Z.lxor_spec by exact Hk);
  repeat match goal with |- context [Z.testbit ?a k] => destruct (Z.testbit a k) end;
  reflexivity.

Lemma lnot_lor_dm p q : Z.lnot (Z.lor p q) = Z.land (Z.lnot p) (Z.lnot q).
Proof. bitwise. Qed.
Lemma lnot_land_dm p q : Z.lnot (Z.land p q) = Z.lor (Z.lnot p) (Z.lnot q).
Proof. bitwise. Qed.
Lemma lnot_andn_l q a : Z.lnot (Z.land q (Z.lnot a)) = Z.lor a (Z.lnot q).
Proof. bitwise. Qed.
Lemma lnot_andn_r p b : Z.lnot (Z.land p (Z.lnot b)) = Z.lor (Z.lnot p) b.
Proof. bitwise. Qed.
Lemma lxor_lnot2 p q : Z.lxor p q = Z.lxor (Z.lnot p) (Z.lnot q).
Proof. bitwise. Qed.
Lemma lnot_lxor_r' a q : Z.lnot (Z.lxor a q) = Z.lxor a (Z.lnot q).
Proof. bitwise. Qed.
Lemma lnot_lxor_l' p b : Z.lnot (Z.lxor p b) = Z.lxor (Z.lnot p) b.
Proof. bitwise. Qed.
Lemma land_comm_andn b p : Z.land b (Z.lnot p) = Z.land (Z.lnot p) b.
Proof. apply Z.land_comm. Qed.

(* and with the N-bit complement = and with the infinite complement, below 2^N *)
Lemma land_compl N X Y : 0 <= N -> 0 <= X < 2 ^ N -> 0 <= Y < 2 ^ N ->
  Z.land X (2 ^ N - 1 - Y) = Z.land X (Z.lnot Y).
Proof.
  intros HN HX HY. apply Z.bits_inj'. intros k Hk. rewrite !Z.land_spec.
  destruct (Z_lt_dec k N) as [L|L].
  - f_equal. replace (2 ^ N - 1 - Y) with ((Z.lnot Y) mod 2 ^ N).
    + apply Z.mod_pow2_bits_low. lia.
    + symmetry. apply Z.mod_unique with (q := -1); unfold Z.lnot; lia.
  - rewrite (testbit_small X N k) by lia. reflexivity.
Qed.

(* ------------------------------------------------------------------ *)
(* functions acting bit by bit                                          *)

Definition bitop (f : Z -> Z -> Z) (g : bool -> bool -> bool) : Prop :=
  g false false = false /\ forall a b k, Z.testbit (f a b) k = g (Z.testbit a k) (Z.testbit b k).

Lemma bitop_land : bitop Z.land andb.
Proof. split; [reflexivity|]. intros a b k. apply Z.land_spec. Qed.
Lemma bitop_lor : bitop Z.lor orb.
Proof. split; [reflexivity|]. intros a b k. apply Z.lor_spec. Qed.
Lemma bitop_lxor : bitop Z.lxor xorb.
Proof. split; [reflexivity|]. intros a b k. apply Z.lxor_spec. Qed.

Lemma bitop_00 f g : bitop f g -> f 0 0 = 0.
Proof.
  intros [G0 Hf]. apply Z.bits_inj'. intros k Hk. rewrite Hf, Z.bits_0. exact G0.
Qed.

Lemma bitop_limb f g a b : bitop f g -> limb a -> limb b -> limb (f a b).
Proof.
  intros [G0 Hf] Ha Hb. unfold limb in *. rewrite B_pow2 in *.
  apply small_of_bits; [lia|]. intros k Hk.
  rewrite Hf, (testbit_small a 64 k), (testbit_small b 64 k) by assumption. exact G0.
Qed.

Lemma bitop_split f g x y x' y' : bitop f g -> limb x -> limb x' ->
  f (x + B * y) (x' + B * y') = f x x' + B * f y y'.
Proof.
  intros Hb Hx Hx'. pose proof (bitop_limb f g x x' Hb Hx Hx') as Hl. destruct Hb as [G0 Hf].
  apply Z.bits_inj'. intros k Hk. rewrite Hf, !testbit_add_B by assumption.
  destruct (k <? 64); rewrite Hf; reflexivity.
Qed.

Lemma map2_spec f g : bitop f g -> forall u v, wf u -> wf v -> length u = length v ->
  eval (map2 f u v) = f (eval u) (eval v) /\ wf (map2 f u v)
  /\ length (map2 f u v) = length u.
Proof.
  intros Hb. induction u as [|x u IH]; intros [|y v] Hu Hv Hl; try discriminate.
  - cbn [map2 eval length]. rewrite (bitop_00 f g Hb). split; [reflexivity|]. split; [apply wf_nil|reflexivity].
  - apply wf_inv in Hu. apply wf_inv in Hv. destruct Hu as [Hx Hu], Hv as [Hy Hv].
    cbn [length] in Hl. injection Hl as Hl. destruct (IH v Hu Hv Hl) as (I1 & I2 & I3).
    cbn [map2 eval length]. rewrite (bitop_split f g x (eval u) y (eval v) Hb Hx Hy), I1, I3.
    split; [reflexivity|]. split; [|reflexivity].
    apply wf_cons; [apply (bitop_limb f g); assumption|exact I2].
Qed.

Lemma map2_comr f : forall u v,
  map2 (fun a b => f a (lnotl b)) u v = map2 f u (com_n v).
Proof.
  induction u as [|x u IH]; intros [|y v]; try reflexivity.
  cbn [map2 com_n map]. rewrite IH. reflexivity.
Qed.

Lemma map2_coml f : forall u v,
  map2 (fun a b => lnotl (f a b)) u v = com_n (map2 f u v).
Proof.
  induction u as [|x u IH]; intros [|y v]; try reflexivity.
  cbn [map2 com_n map]. rewrite IH. reflexivity.
Qed.

(* op with the complemented second operand *)
Lemma map2_comr_spec f g : bitop f g -> forall u v, wf u -> wf v -> length u = length v ->
  eval (map2 (fun a b => f a (lnotl b)) u v) = f (eval u) (B ^ len u - 1 - eval v)
  /\ wf (map2 (fun a b => f a (lnotl b)) u v)
  /\ length (map2 (fun a b => f a (lnotl b)) u v) = length u.
Proof.
  intros Hb u v Hu Hv Hl. rewrite map2_comr.
  destruct (com_n_spec v Hv) as (C1 & C2 & C3).
  destruct (map2_spec f g Hb u (com_n v) Hu C2 ltac:(congruence)) as (M1 & M2 & M3).
  rewrite M1, C1, (len_eq_of_length u v Hl). auto.
Qed.

Lemma map2_coml_spec f g : bitop f g -> forall u v, wf u -> wf v -> length u = length v ->
  eval (map2 (fun a b => lnotl (f a b)) u v) = B ^ len u - 1 - f (eval u) (eval v)
  /\ wf (map2 (fun a b => lnotl (f a b)) u v)
  /\ length (map2 (fun a b => lnotl (f a b)) u v) = length u.
Proof.
  intros Hb u v Hu Hv Hl. rewrite map2_coml.
  destruct (map2_spec f g Hb u v Hu Hv Hl) as (M1 & M2 & M3).
  destruct (com_n_spec _ M2) as (C1 & C2 & C3).
  rewrite C1, M1, C3, (len_eq_of_length _ _ M3). auto.
Qed.

Lemma mpn_logic_spec : forall u v, wf u -> wf v -> length u = length v ->
  let m := B ^ len u - 1 in
  eval (and_n u v) = Z.land (eval u) (eval v)
  /\ eval (ior_n u v) = Z.lor (eval u) (eval v)
  /\ eval (xor_n u v) = Z.lxor (eval u) (eval v)
  /\ eval (andn_n u v) = Z.land (eval u) (m - eval v)
  /\ eval (iorn_n u v) = Z.lor (eval u) (m - eval v)
  /\ eval (nand_n u v) = m - Z.land (eval u) (eval v)
  /\ eval (nior_n u v) = m - Z.lor (eval u) (eval v)
  /\ eval (xnor_n u v) = m - Z.lxor (eval u) (eval v)
  /\ wf (and_n u v) /\ wf (ior_n u v) /\ wf (xor_n u v) /\ wf (andn_n u v)
  /\ wf (iorn_n u v) /\ wf (nand_n u v) /\ wf (nior_n u v) /\ wf (xnor_n u v).
Proof.
  intros u v Hu Hv Hl m. unfold m.
  destruct (map2_spec _ _ bitop_land u v Hu Hv Hl) as (A1 & A2 & _).
  destruct (map2_spec _ _ bitop_lor u v Hu Hv Hl) as (O1 & O2 & _).
  destruct (map2_spec _ _ bitop_lxor u v Hu Hv Hl) as (X1 & X2 & _).
  destruct (map2_comr_spec _ _ bitop_land u v Hu Hv Hl) as (AN1 & AN2 & _).
  destruct (map2_comr_spec _ _ bitop_lor u v Hu Hv Hl) as (ON1 & ON2 & _).
  destruct (map2_coml_spec _ _ bitop_land u v Hu Hv Hl) as (NA1 & NA2 & _).
  destruct (map2_coml_spec _ _ bitop_lor u v Hu Hv Hl) as (NO1 & NO2 & _).
  destruct (map2_coml_spec _ _ bitop_lxor u v Hu Hv Hl) as (NX1 & NX2 & _).
  unfold and_n, ior_n, xor_n, andn_n, iorn_n, nand_n, nior_n, xnor_n.
  repeat split; assumption.
Qed.

(* ------------------------------------------------------------------ *)
(* population count                                                     *)

Lemma Zpopcount_double z b : 0 <= z -> Zpopcount (2 * z + b2z b) = b2z b + Zpopcount z.
Proof.
  intros Hz. destruct z as [|p|p]; [destruct b; reflexivity| |lia].
  destruct b; reflexivity.
Qed.

Lemma Zpopcount_nonneg z : 0 <= Zpopcount z.
Proof.
  destruct z as [|p|p]; cbn [Zpopcount]; try lia.
  induction p as [q IH|q IH|]; cbn [pos_popcount]; lia.
Qed.

Lemma b2z_odd_decomp x : x = 2 * (x / 2) + b2z (Z.odd x).
Proof.
  rewrite (Z.div_mod x 2) at 1 by lia. rewrite Zmod_odd. destruct (Z.odd x); reflexivity.
Qed.

Lemma popcount_bits : forall n x, 0 <= x < 2 ^ Z.of_nat n ->
  Zpopcount x = fold_right Z.add 0 (map (fun i => b2z (Z.testbit x (Z.of_nat i))) (seq 0 n)).
Proof.
  induction n as [|n IH]; intros x Hx.
  - change (2 ^ Z.of_nat 0) with 1 in Hx. assert (x = 0) by lia. subst x. reflexivity.
  - rewrite Nat2Z.inj_succ, Z.pow_succ_r in Hx by lia.
    pose proof (b2z_odd_decomp x) as D. set (b := Z.odd x) in *. set (h := x / 2) in *.
    assert (Hh : 0 <= h < 2 ^ Z.of_nat n) by (destruct b; cbn [b2z] in D; lia).
    cbn [seq map fold_right]. rewrite <- seq_shift, map_map.
    rewrite D at 1. rewrite Zpopcount_double by lia. rewrite (IH h Hh).
    assert (E0 : Z.testbit x (Z.of_nat 0) = b) by reflexivity. rewrite E0.
    apply (f_equal (Z.add (b2z b))). f_equal. apply map_ext. intros i. rewrite Nat2Z.inj_succ.
    rewrite D. change (b2z b) with (Z.b2z b). rewrite Z.testbit_succ_r by lia. reflexivity.
Qed.

Lemma Zpopcount_split n : forall x y, 0 <= x < 2 ^ Z.of_nat n -> 0 <= y ->
  Zpopcount (x + 2 ^ Z.of_nat n * y) = Zpopcount x + Zpopcount y.
Proof.
  induction n as [|n IH]; intros x y Hx Hy.
  - change (2 ^ Z.of_nat 0) with 1 in *. assert (x = 0) by lia. subst x.
    replace (0 + 1 * y) with y by lia. reflexivity.
  - rewrite Nat2Z.inj_succ, Z.pow_succ_r in * by lia.
    pose proof (b2z_odd_decomp x) as D. set (b := Z.odd x) in *. set (h := x / 2) in *.
    assert (Hh : 0 <= h < 2 ^ Z.of_nat n) by (destruct b; cbn [b2z] in D; lia).
    assert (P : 0 < 2 ^ Z.of_nat n) by (apply Z.pow_pos_nonneg; lia).
    rewrite D.
    replace (2 * h + b2z b + 2 * 2 ^ Z.of_nat n * y) with (2 * (h + 2 ^ Z.of_nat n * y) + b2z b) by ring.
    rewrite !Zpopcount_double by nia. rewrite (IH h y Hh Hy). ring.
Qed.

Lemma Zpopcount_add_B x y : limb x -> 0 <= y -> Zpopcount (x + B * y) = Zpopcount x + Zpopcount y.
Proof.
  unfold limb. rewrite B_pow2. change 64 with (Z.of_nat 64). apply Zpopcount_split.
Qed.

Lemma popcount_eval u : wf u -> popcount u = Zpopcount (eval u).
Proof.
  induction u as [|x u IH]; intros Hu; [reflexivity|].
  apply wf_inv in Hu. destruct Hu as [Hx Hu].
  cbn [popcount fold_right eval]. fold (popcount u).
  rewrite Zpopcount_add_B by (try assumption; apply eval_nonneg; assumption).
  rewrite IH by assumption. reflexivity.
Qed.

Lemma mpn_popcount_hamdist_spec : forall u v, wf u -> wf v -> length u = length v ->
  popcount u = Zpopcount (eval u) /\ hamdist u v = Zpopcount (Z.lxor (eval u) (eval v)).
Proof.
  intros u v Hu Hv Hl. split; [apply popcount_eval; assumption|].
  unfold hamdist, xor_n.
  destruct (map2_spec _ _ bitop_lxor u v Hu Hv Hl) as (X1 & X2 & _).
  rewrite popcount_eval by assumption. rewrite X1. reflexivity.
Qed.

(* ------------------------------------------------------------------ *)
(* scanning                                                             *)

Lemma ctz_abs_spec : forall p y, y = Zpos p \/ y = Zneg p ->
  0 <= ctz (Z.abs y) /\ Z.testbit y (ctz (Z.abs y)) = true
  /\ forall k, 0 <= k < ctz (Z.abs y) -> Z.testbit y k = false.
Proof.
  induction p as [q IH|q IH|]; intros y Hy.
  - assert (E : Z.abs y = Zpos q~1) by (destruct Hy; subst; reflexivity).
    rewrite E. cbn [ctz ctz_pos]. split; [lia|]. split; [|intros k Hk; lia].
    rewrite Z.bit0_odd. destruct Hy; subst; reflexivity.
  - assert (E : Z.abs y = Zpos q~0) by (destruct Hy; subst; reflexivity).
    assert (Hy' : exists y', (y' = Zpos q \/ y' = Zneg q) /\ y = 2 * y').
    { destruct Hy; subst; [exists (Zpos q)|exists (Zneg q)]; split; auto. }
    destruct Hy' as (y' & Hy' & Ey).
    assert (E' : Z.abs y' = Zpos q) by (destruct Hy'; subst; reflexivity).
    destruct (IH y' Hy') as (I1 & I2 & I3). rewrite E' in *.
    rewrite E. cbn [ctz ctz_pos] in *. set (c := ctz_pos q) in *.
    split; [lia|]. split.
    + rewrite Ey. replace (1 + c) with (Z.succ c) by lia. rewrite Z.testbit_even_succ by lia. exact I2.
    + intros k Hk. rewrite Ey. destruct (Z.eq_dec k 0) as [K0|K0].
      * subst k. apply Z.testbit_even_0.
      * replace k with (Z.succ (k - 1)) by lia. rewrite Z.testbit_even_succ by lia. apply I3. lia.
  - assert (E : Z.abs y = 1) by (destruct Hy; subst; reflexivity).
    rewrite E. cbn [ctz ctz_pos]. split; [lia|]. split; [|intros k Hk; lia].
    destruct Hy; subst; reflexivity.
Qed.

Lemma ctz_abs_nz y : y <> 0 ->
  0 <= ctz (Z.abs y) /\ Z.testbit y (ctz (Z.abs y)) = true
  /\ forall k, 0 <= k < ctz (Z.abs y) -> Z.testbit y k = false.
Proof.
  intros Hy. destruct y as [|p|p]; [contradiction| |]; apply (ctz_abs_spec p); auto.
Qed.

Lemma scan1_spec : forall x s, 0 <= s ->
  (Zscan1 x s = BITCNT_MAX /\ forall k, s <= k -> Z.testbit x k = false)
  \/ (s <= Zscan1 x s /\ Z.testbit x (Zscan1 x s) = true
      /\ forall k, s <= k < Zscan1 x s -> Z.testbit x k = false).
Proof.
  intros x s Hs. unfold Zscan1. cbv zeta.
  assert (Hb : forall k, s <= k -> Z.testbit x k = Z.testbit (Z.shiftr x s) (k - s)).
  { intros k Hk. rewrite Z.shiftr_spec by lia. f_equal. lia. }
  destruct (Z.eqb_spec (Z.shiftr x s) 0) as [E|E].
  - left. split; [reflexivity|]. intros k Hk. rewrite (Hb k Hk), E. apply Z.bits_0.
  - right. destruct (ctz_abs_nz _ E) as (C1 & C2 & C3).
    set (c := ctz (Z.abs (Z.shiftr x s))) in *.
    split; [lia|]. split.
    + rewrite Hb by lia. replace (s + c - s) with c by lia. exact C2.
    + intros k Hk. rewrite Hb by lia. apply C3. lia.
Qed.

Lemma scan0_spec : forall x s, 0 <= s ->
  (Zscan0 x s = BITCNT_MAX /\ forall k, s <= k -> Z.testbit x k = true)
  \/ (s <= Zscan0 x s /\ Z.testbit x (Zscan0 x s) = false
      /\ forall k, s <= k < Zscan0 x s -> Z.testbit x k = true).
Proof.
  intros x s Hs. unfold Zscan0.
  assert (Hn : forall k, s <= k -> forall b, Z.testbit (Z.lnot x) k = b -> Z.testbit x k = negb b).
  { intros k Hk b Hb. rewrite Z.lnot_spec in Hb by lia. rewrite <- Hb. symmetry. apply negb_involutive. }
  destruct (scan1_spec (Z.lnot x) s Hs) as [[S1 S2]|(S1 & S2 & S3)].
  - left. split; [exact S1|]. intros k Hk. apply (Hn k Hk false). apply S2. exact Hk.
  - right. split; [exact S1|]. split.
    + apply (Hn _ S1 true). exact S2.
    + intros k Hk. apply (Hn k ltac:(lia) false). apply S3. exact Hk.
Qed.

(* ------------------------------------------------------------------ *)
(* mpz: and / ior / xor / com                                           *)

Lemma pad_spec l n : wf l -> (length l <= n)%nat ->
  eval (pad l n) = eval l /\ wf (pad l n) /\ length (pad l n) = n.
Proof.
  intros Hl Hn. unfold pad. split; [rewrite eval_app, eval_repeat0; lia|]. split.
  - apply wf_app; [assumption|apply wf_repeat, limb_0].
  - rewrite app_length, repeat_length. lia.
Qed.

Lemma lop_spec f g x y : bitop f g -> wf x -> wf y ->
  eval (lop f x y) = f (eval x) (eval y) /\ wf (lop f x y).
Proof.
  intros Hb Hx Hy. unfold lop. cbv zeta. set (n := Nat.max (length x) (length y)).
  destruct (pad_spec x n Hx ltac:(lia)) as (P1 & P2 & P3).
  destruct (pad_spec y n Hy ltac:(lia)) as (Q1 & Q2 & Q3).
  destruct (map2_spec f g Hb _ _ P2 Q2 ltac:(congruence)) as (M1 & M2 & _).
  rewrite M1, P1, Q1. auto.
Qed.

Lemma lop_andn_spec x y : wf x -> wf y ->
  eval (lop (fun a b => Z.land a (lnotl b)) x y) = Z.land (eval x) (Z.lnot (eval y))
  /\ wf (lop (fun a b => Z.land a (lnotl b)) x y).
Proof.
  intros Hx Hy. unfold lop. cbv zeta. set (n := Nat.max (length x) (length y)).
  destruct (pad_spec x n Hx ltac:(lia)) as (P1 & P2 & P3).
  destruct (pad_spec y n Hy ltac:(lia)) as (Q1 & Q2 & Q3).
  destruct (map2_comr_spec Z.land andb bitop_land _ _ P2 Q2 ltac:(congruence)) as (M1 & M2 & _).
  split; [|exact M2]. rewrite M1, P1, Q1.
  pose proof (eval_nonneg _ P2) as X0. pose proof (eval_lt _ P2) as X1.
  pose proof (eval_nonneg _ Q2) as Y0. pose proof (eval_lt _ Q2) as Y1.
  rewrite (len_eq_of_length (pad y n) (pad x n)) in Y1 by congruence.
  rewrite P1 in X0, X1. rewrite Q1 in Y0, Y1.
  pose proof (len_nonneg (pad x n)) as L0.
  rewrite Bpow_as_2pow in * by exact L0.
  apply land_compl; lia.
Qed.

Lemma isneg_true_facts a : mpz_wf a -> isneg a = true ->
  value a = - eval (d a) /\ 1 <= eval (d a)
  /\ eval (mag_m1 a) = eval (d a) - 1 /\ wf (mag_m1 a).
Proof.
  intros (A & W & N) Hn. unfold isneg in Hn. apply Z.ltb_lt in Hn.
  destruct a as [s l]. cbn [sz d] in *.
  assert (Hne : l <> []).
  { intros E. subst l. unfold len in A. cbn [length] in A. lia. }
  pose proof (normalized_lower l W N Hne) as L.
  assert (P : 0 < B ^ (len l - 1)) by (apply Z.pow_pos_nonneg; [exact B_pos|lia]).
  split; [apply value_nonpos_sz; lia|]. split; [lia|].
  unfold mag_m1. cbn [d]. apply sub_1_noborrow; [exact W|apply limb_1|exact Hne|lia].
Qed.

Lemma isneg_false_facts a : mpz_wf a -> isneg a = false ->
  value a = eval (d a) /\ wf (d a) /\ 0 <= eval (d a).
Proof.
  intros (A & W & N) Hn. unfold isneg in Hn. apply Z.ltb_ge in Hn.
  destruct a as [s l]. cbn [sz d] in *.
  split; [apply value_nonneg_sz; lia|]. split; [exact W|apply eval_nonneg; exact W].
Qed.

Lemma neg_p1_spec l : wf l -> value (neg_p1 l) = - (eval l + 1) /\ mpz_wf (neg_p1 l).
Proof.
  intros Hl. destruct l as [|x r].
  - cbn [neg_p1]. split.
    + unfold value. cbn [sz d eval Z.sgn]. lia.
    + apply mpz_wf_single; [reflexivity|apply limb_1|lia].
  - set (l := x :: r) in *.
    assert (Hne : l <> []) by discriminate.
    destruct (add_1_spec l 1 Hl limb_1 Hne) as (S1 & S2 & S3 & S4).
    assert (E : neg_p1 l = mk_norm true (fst (add_1 l 1) ++ [snd (add_1 l 1)])).
    { unfold neg_p1, l. destruct (add_1 (x :: r) 1) as [r' c]. reflexivity. }
    rewrite E.
    assert (W : wf (fst (add_1 l 1) ++ [snd (add_1 l 1)])).
    { apply wf_app; [exact S2|]. apply wf_cons; [apply limb_01; exact S4|apply wf_nil]. }
    destruct (mk_norm_spec true _ W) as [V1 V2]. split; [|exact V2].
    rewrite V1, eval_snoc, (len_eq_of_length _ _ S3). lia.
Qed.

Lemma close_pos L r : wf L -> eval L = r ->
  value (mk_norm false L) = r /\ mpz_wf (mk_norm false L).
Proof.
  intros W E. destruct (mk_norm_spec false L W) as [V1 V2]. split; [rewrite V1; exact E|exact V2].
Qed.

Lemma close_neg L r : wf L -> Z.lnot (eval L) = r ->
  value (neg_p1 L) = r /\ mpz_wf (neg_p1 L).
Proof.
  intros W E. destruct (neg_p1_spec L W) as [V1 V2]. split; [|exact V2].
  rewrite V1, opp_succ_lnot. exact E.
Qed.

Lemma mpz_and_ior_xor_spec : forall a b, mpz_wf a -> mpz_wf b ->
  (value (mpz_and a b) = Z.land (value a) (value b) /\ mpz_wf (mpz_and a b))
  /\ (value (mpz_ior a b) = Z.lor (value a) (value b) /\ mpz_wf (mpz_ior a b))
  /\ (value (mpz_xor a b) = Z.lxor (value a) (value b) /\ mpz_wf (mpz_xor a b)).
Proof.
  intros a b Ha Hb. unfold mpz_and, mpz_ior, mpz_xor.
  destruct (isneg a) eqn:Na; destruct (isneg b) eqn:Nb.
  - destruct (isneg_true_facts a Ha Na) as (Va & _ & Ma & Wa).
    destruct (isneg_true_facts b Hb Nb) as (Vb & _ & Mb & Wb).
    rewrite Va, Vb, (opp_as_lnot (eval (d a))), (opp_as_lnot (eval (d b))), <- Ma, <- Mb.
    destruct (lop_spec _ _ (mag_m1 a) (mag_m1 b) bitop_land Wa Wb) as [E1 W1].
    destruct (lop_spec _ _ (mag_m1 a) (mag_m1 b) bitop_lor Wa Wb) as [E2 W2].
    destruct (lop_spec _ _ (mag_m1 a) (mag_m1 b) bitop_lxor Wa Wb) as [E3 W3].
    split; [|split].
    + apply close_neg; [exact W2|]. rewrite E2. apply lnot_lor_dm.
    + apply close_neg; [exact W1|]. rewrite E1. apply lnot_land_dm.
    + apply close_pos; [exact W3|]. rewrite E3. apply lxor_lnot2.
  - destruct (isneg_true_facts a Ha Na) as (Va & _ & Ma & Wa).
    destruct (isneg_false_facts b Hb Nb) as (Vb & Wb & _).
    rewrite Va, Vb, (opp_as_lnot (eval (d a))), <- Ma.
    destruct (lop_andn_spec (d b) (mag_m1 a) Wb Wa) as [E1 W1].
    destruct (lop_andn_spec (mag_m1 a) (d b) Wa Wb) as [E2 W2].
    destruct (lop_spec _ _ (mag_m1 a) (d b) bitop_lxor Wa Wb) as [E3 W3].
    split; [|split].
    + apply close_pos; [exact W1|]. rewrite E1. apply Z.land_comm.
    + apply close_neg; [exact W2|]. rewrite E2. apply lnot_andn_r.
    + apply close_neg; [exact W3|]. rewrite E3. apply lnot_lxor_l'.
  - destruct (isneg_false_facts a Ha Na) as (Va & Wa & _).
    destruct (isneg_true_facts b Hb Nb) as (Vb & _ & Mb & Wb).
    rewrite Va, Vb, (opp_as_lnot (eval (d b))), <- Mb.
    destruct (lop_andn_spec (d a) (mag_m1 b) Wa Wb) as [E1 W1].
    destruct (lop_andn_spec (mag_m1 b) (d a) Wb Wa) as [E2 W2].
    destruct (lop_spec _ _ (d a) (mag_m1 b) bitop_lxor Wa Wb) as [E3 W3].
    split; [|split].
    + apply close_pos; [exact W1|]. exact E1.
    + apply close_neg; [exact W2|]. rewrite E2. apply lnot_andn_l.
    + apply close_neg; [exact W3|]. rewrite E3. apply lnot_lxor_r'.
  - destruct (isneg_false_facts a Ha Na) as (Va & Wa & _).
    destruct (isneg_false_facts b Hb Nb) as (Vb & Wb & _).
    rewrite Va, Vb.
    destruct (lop_spec _ _ (d a) (d b) bitop_land Wa Wb) as [E1 W1].
    destruct (lop_spec _ _ (d a) (d b) bitop_lor Wa Wb) as [E2 W2].
    destruct (lop_spec _ _ (d a) (d b) bitop_lxor Wa Wb) as [E3 W3].
    split; [|split]; apply close_pos; assumption.
Qed.

Lemma mpz_com_spec : forall a, mpz_wf a ->
  value (mpz_com a) = Z.lnot (value a) /\ mpz_wf (mpz_com a).
Proof.
  intros a Ha. unfold mpz_com. destruct (isneg a) eqn:Na.
  - destruct (isneg_true_facts a Ha Na) as (Va & _ & Ma & Wa).
    apply close_pos; [exact Wa|]. rewrite Ma, Va. unfold Z.lnot. lia.
  - destruct (isneg_false_facts a Ha Na) as (Va & Wa & _).
    apply close_neg; [exact Wa|]. rewrite Va. reflexivity.
Qed.

(* ------------------------------------------------------------------ *)
(* mpz_tstbit                                                           *)

Lemma skipn_nth (l : list Z) : forall i, (i < length l)%nat ->
  exists hi, skipn i l = nth i l 0 :: hi.
Proof.
  induction l as [|x l IH]; intros [|i] H; cbn [length skipn nth] in *; try lia.
  - eexists. reflexivity.
  - apply IH. lia.
Qed.

Lemma land1_shiftr_testbit x j : 0 <= j -> Z.land (Z.shiftr x j) 1 = b2z (Z.testbit x j).
Proof.
  intros Hj. replace (Z.land (Z.shiftr x j) 1) with (Z.land (Z.shiftr x j) (Z.ones 1)) by reflexivity.
  rewrite Z.land_ones by lia. change (2 ^ 1) with 2. rewrite <- Z.bit0_mod.
  rewrite Z.shiftr_spec by lia. replace (0 + j) with j by lia. reflexivity.
Qed.

(* bit k of z lives in limb k/64 of the infinite two's-complement expansion *)
Lemma testbit_limb z k : 0 <= k ->
  Z.testbit z k = Z.testbit (wrap (z / 2 ^ (64 * (k / 64)))) (k mod 64).
Proof.
  intros Hk.
  pose proof (Z.div_mod k 64 ltac:(lia)) as D. pose proof (Z.mod_pos_bound k 64 ltac:(lia)) as M.
  assert (Hq : 0 <= k / 64) by (apply Z.div_pos; lia).
  unfold wrap. rewrite B_pow2. rewrite Z.mod_pow2_bits_low by lia.
  rewrite Z.div_pow2_bits by lia. f_equal. lia.
Qed.

Lemma mpz_tstbit_spec : forall u k, mpz_wf u -> 0 <= k ->
  mpz_tstbit u k = b2z (Z.testbit (value u) k).
Proof.
  intros u k Hu Hk. pose proof Hu as (A & W & N).
  pose proof (Z.div_mod k 64 ltac:(lia)) as D. pose proof (Z.mod_pos_bound k 64 ltac:(lia)) as M.
  assert (Hq : 0 <= k / 64) by (apply Z.div_pos; lia).
  unfold mpz_tstbit. cbv zeta. fold (isneg u).
  set (l := d u) in *. set (i := Z.to_nat (k / 64)).
  assert (Ei : Z.of_nat i = k / 64) by (unfold i; lia).
  destruct (Nat.leb_spec (length l) i) as [Hlen|Hlen].
  - pose proof (eval_nonneg l W) as E0. pose proof (eval_lt l W) as E1.
    rewrite Bpow_as_2pow in E1 by apply len_nonneg.
    assert (Hl : len l <= k / 64) by (unfold len; lia).
    destruct (isneg u) eqn:Su.
    + destruct (isneg_true_facts u Hu Su) as (Vu & P1 & _ & _). fold l in Vu, P1.
      rewrite Vu, opp_as_lnot, Z.lnot_spec by lia.
      rewrite (testbit_small (eval l - 1) (64 * len l) k) by lia. reflexivity.
    + destruct (isneg_false_facts u Hu Su) as (Vu & _ & _). fold l in Vu.
      rewrite Vu, (testbit_small (eval l) (64 * len l) k) by lia. reflexivity.
  - destruct (skipn_nth l i Hlen) as [hi Hs]. set (limb0 := nth i l 0) in *.
    pose proof (eval_firstn_skipn l i) as E. rewrite Hs in E.
    rewrite firstn_length_le in E by lia. cbn [eval] in E.
    pose proof (wf_firstn l i W) as Wlo. pose proof (wf_skipn l i W) as Whi.
    rewrite Hs in Whi. apply wf_inv in Whi. destruct Whi as [Hl0 Whi].
    pose proof (eval_bounds _ Wlo) as Blo. rewrite firstn_length_le in Blo by lia.
    set (lo := firstn i l) in *.
    rewrite Ei in E, Blo. rewrite Bpow_as_2pow in E, Blo by lia.
    set (P := 2 ^ (64 * (k / 64))) in *.
    assert (HP : 0 < P) by (apply Z.pow_pos_nonneg; lia).
    pose proof B_pos as HB.
    rewrite land1_shiftr_testbit by lia. f_equal.
    rewrite (testbit_limb (value u) k Hk). fold P. f_equal.
    destruct (isneg u) eqn:Su.
    + destruct (isneg_true_facts u Hu Su) as (Vu & _ & _ & _). fold l in Vu.
      rewrite Vu, E. destruct (zero_p lo) eqn:Zp.
      * apply (zero_p_spec lo Wlo) in Zp. rewrite Zp.
        replace (- (0 + P * (limb0 + B * eval hi))) with ((- (limb0 + B * eval hi)) * P) by ring.
        rewrite Z.div_mul by lia. unfold wrap.
        replace (- (limb0 + B * eval hi)) with (- limb0 + (- eval hi) * B) by ring.
        rewrite Z.mod_add by lia. reflexivity.
      * assert (Hlo : eval lo <> 0).
        { intros E0. apply (zero_p_spec lo Wlo) in E0. congruence. }
        replace (- (eval lo + P * (limb0 + B * eval hi)))
          with ((P - eval lo) + (- (limb0 + B * eval hi) - 1) * P) by ring.
        rewrite Z.div_add by lia. rewrite Z.div_small by lia. unfold wrap.
        rewrite Zminus_mod_idemp_l.
        replace (0 + (- (limb0 + B * eval hi) - 1)) with (- limb0 - 1 + (- eval hi) * B) by ring.
        rewrite Z.mod_add by lia. reflexivity.
    + destruct (isneg_false_facts u Hu Su) as (Vu & _ & _). fold l in Vu.
      rewrite Vu, E.
      replace (eval lo + P * (limb0 + B * eval hi)) with (eval lo + (limb0 + B * eval hi) * P) by ring.
      rewrite Z.div_add by lia. rewrite Z.div_small by lia. unfold wrap.
      replace (0 + (limb0 + B * eval hi)) with (limb0 + eval hi * B) by ring.
      rewrite Z.mod_add by lia. symmetry. apply Z.mod_small. exact Hl0.
Qed.

(* ------------------------------------------------------------------ *)
(* setbit / clrbit / combit                                             *)

Lemma mpz_setbit_clrbit_combit_spec : forall u k, mpz_wf u -> 0 <= k ->
  (value (mpz_setbit u k) = Z.setbit (value u) k /\ mpz_wf (mpz_setbit u k))
  /\ (value (mpz_clrbit u k) = Z.clearbit (value u) k /\ mpz_wf (mpz_clrbit u k))
  /\ (value (mpz_combit u k) = Z.lxor (value u) (2 ^ k) /\ mpz_wf (mpz_combit u k)).
Proof.
  intros u k Hu Hk. unfold mpz_setbit, mpz_clrbit, mpz_combit.
  destruct (mpz_of_Z_spec (2 ^ k)) as [V2 W2].
  destruct (mpz_com_spec _ W2) as [Vc Wc].
  destruct (mpz_and_ior_xor_spec u (mpz_of_Z (2 ^ k)) Hu W2) as (_ & [O1 O2] & [X1 X2]).
  destruct (mpz_and_ior_xor_spec u (mpz_com (mpz_of_Z (2 ^ k))) Hu Wc) as ([A1 A2] & _ & _).
  split; [|split]; (split; [|assumption]).
  - rewrite O1, V2. unfold Z.setbit. rewrite Z.shiftl_1_l. reflexivity.
  - rewrite A1, Vc, V2. unfold Z.clearbit. rewrite Z.shiftl_1_l, Z.ldiff_land. reflexivity.
  - rewrite X1, V2. reflexivity.
Qed.

(* ------------------------------------------------------------------ *)
(* mpz popcount / hamdist                                               *)

Lemma value_neg_isneg u : mpz_wf u -> (value u <? 0) = isneg u.
Proof.
  intros Hu. destruct (isneg u) eqn:Su.
  - destruct (isneg_true_facts u Hu Su) as (Vu & P1 & _ & _). apply Z.ltb_lt. lia.
  - destruct (isneg_false_facts u Hu Su) as (Vu & _ & P0). apply Z.ltb_ge. lia.
Qed.

Lemma mpz_popcount_hamdist_spec : forall u v, mpz_wf u -> mpz_wf v ->
  mpz_popcount u = (if value u <? 0 then BITCNT_MAX else Zpopcount (value u))
  /\ mpz_hamdist u v =
     (if Bool.eqb (value u <? 0) (value v <? 0) then Zpopcount (Z.lxor (value u) (value v)) else BITCNT_MAX).
Proof.
  intros u v Hu Hv. rewrite (value_neg_isneg u Hu), (value_neg_isneg v Hv).
  unfold mpz_popcount, mpz_hamdist. fold (isneg u).
  destruct (isneg u) eqn:Su; destruct (isneg v) eqn:Sv; cbn [Bool.eqb].
  - split; [reflexivity|].
    destruct (isneg_true_facts u Hu Su) as (Vu & _ & Mu & Wu).
    destruct (isneg_true_facts v Hv Sv) as (Vv & _ & Mv & Wv).
    destruct (lop_spec _ _ (mag_m1 u) (mag_m1 v) bitop_lxor Wu Wv) as [E3 W3].
    rewrite (popcount_eval _ W3), E3, Vu, Vv.
    rewrite (opp_as_lnot (eval (d u))), (opp_as_lnot (eval (d v))), <- Mu, <- Mv, <- lxor_lnot2.
    reflexivity.
  - split; reflexivity.
  - destruct (isneg_false_facts u Hu Su) as (Vu & Wu & _).
    split; [|reflexivity]. rewrite Vu. apply popcount_eval. exact Wu.
  - destruct (isneg_false_facts u Hu Su) as (Vu & Wu & _).
    destruct (isneg_false_facts v Hv Sv) as (Vv & Wv & _).
    destruct (lop_spec _ _ (d u) (d v) bitop_lxor Wu Wv) as [E3 W3].
    rewrite Vu, Vv. split; [apply popcount_eval; exact Wu|].
    rewrite (popcount_eval _ W3), E3. reflexivity.
Qed.

(* ------------------------------------------------------------------ *)
(* concrete instance                                                    *)

Lemma C10_example :
  mpz_wf (mkz (-2) [0; 1]) /\ mpz_wf (mkz (-1) [3])
  /\ value (mpz_and (mkz (-2) [0; 1]) (mkz (-1) [3])) = Z.land (- B) (-3)
  /\ mpz_scan1 (mkz (-3) [1; 0; 1]) 64 = 64.
Proof.
  assert (W1 : mpz_wf (mkz (-2) [0; 1])).
  { unfold mpz_wf. cbn [sz d]. split; [reflexivity|].
    split; [apply wfb_wf; vm_compute; reflexivity|]. right. cbn [last]. lia. }
  assert (W2 : mpz_wf (mkz (-1) [3])).
  { unfold mpz_wf. cbn [sz d]. split; [reflexivity|].
    split; [apply wfb_wf; vm_compute; reflexivity|]. right. cbn [last]. lia. }
  split; [exact W1|]. split; [exact W2|]. split.
  - vm_compute. reflexivity.
  - vm_compute. reflexivity.
Qed.
