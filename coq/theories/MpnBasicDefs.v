(* MpnBasicDefs.v — executable models of the generic C routines behind C03:
   mpn_add_n, mpn_sub_n, mpn_add_1, mpn_sub_1, mpn_add, mpn_sub, mpn_neg_n,
   mpn_com_n, mpn_lshift, mpn_rshift, mpn_copyi/copyd, mpn_zero, mpn_cmp,
   mpn_zero_p.  Each follows the statements of the C source it names
   (wrap-around adds, carry tests `x < y`); only definitions here. *)
From Coq Require Import ZArith List Bool.
From Mpir Require Import Word Limbs.
Import ListNotations.
Local Open Scope Z_scope.

(* mpn/generic/add_n.c:  sl = ul + vl; cy1 = sl < ul; rl = sl + cy; cy2 = rl < sl;
   cy = cy1 | cy2 *)
Fixpoint add_n_c (u v : list Z) (cy : Z) : list Z * Z :=
  match u, v with
  | ul :: u', vl :: v' =>
      let sl := wrap (ul + vl) in
      let cy1 := b2z (sl <? ul) in
      let rl := wrap (sl + cy) in
      let cy2 := b2z (rl <? sl) in
      let '(r, c) := add_n_c u' v' (Z.lor cy1 cy2) in
      (rl :: r, c)
  | _, _ => ([], cy)
  end.
Definition add_n (u v : list Z) : list Z * Z := add_n_c u v 0.

(* mpn/generic/sub_n.c:  sl = ul - vl; cy1 = sl > ul; rl = sl - cy; cy2 = rl > sl *)
Fixpoint sub_n_c (u v : list Z) (cy : Z) : list Z * Z :=
  match u, v with
  | ul :: u', vl :: v' =>
      let sl := wrap (ul - vl) in
      let cy1 := b2z (ul <? sl) in
      let rl := wrap (sl - cy) in
      let cy2 := b2z (sl <? rl) in
      let '(r, c) := sub_n_c u' v' (Z.lor cy1 cy2) in
      (rl :: r, c)
  | _, _ => ([], cy)
  end.
Definition sub_n (u v : list Z) : list Z * Z := sub_n_c u v 0.

(* gmp-h.in __GMPN_AORS_1 with OP = +, CB = (r < v): after the first limb the
   carry ripples while r = x + 1 wraps to 0 (CB(r,x,1) = r < 1); once it stops the
   rest is copied. *)
Fixpoint incr_c (u : list Z) : list Z * Z :=      (* propagate a carry of 1 *)
  match u with
  | [] => ([], 1)
  | x :: r =>
      let y := wrap (x + 1) in
      if y <? 1 then let '(r', c) := incr_c r in (y :: r', c)
      else (y :: r, 0)
  end.
Definition add_1 (u : list Z) (v : Z) : list Z * Z :=
  match u with
  | [] => ([], 0)
  | x :: r =>
      let y := wrap (x + v) in
      if y <? v then let '(r', c) := incr_c r in (y :: r', c)
      else (y :: r, 0)
  end.

(* __GMPN_AORS_1 with OP = -, CB = (x < v) *)
Fixpoint decr_c (u : list Z) : list Z * Z :=      (* propagate a borrow of 1 *)
  match u with
  | [] => ([], 1)
  | x :: r =>
      let y := wrap (x - 1) in
      if x <? 1 then let '(r', c) := decr_c r in (y :: r', c)
      else (y :: r, 0)
  end.
Definition sub_1 (u : list Z) (v : Z) : list Z * Z :=
  match u with
  | [] => ([], 0)
  | x :: r =>
      let y := wrap (x - v) in
      if x <? v then let '(r', c) := decr_c r in (y :: r', c)
      else (y :: r, 0)
  end.

(* __GMPN_AORS: FUNCTION on the low ysize limbs, then ripple into the high part of x *)
Definition add (x y : list Z) : list Z * Z :=
  let n := length y in
  let '(lo, c) := add_n (firstn n x) y in
  if c =? 0 then (lo ++ skipn n x, 0)
  else let '(hi, c') := incr_c (skipn n x) in (lo ++ hi, c').
Definition sub (x y : list Z) : list Z * Z :=
  let n := length y in
  let '(lo, c) := sub_n (firstn n x) y in
  if c =? 0 then (lo ++ skipn n x, 0)
  else let '(hi, c') := decr_c (skipn n x) in (lo ++ hi, c').

(* mpn_com_n: limb-wise complement *)
Definition com_n (u : list Z) : list Z := map (fun x => B - 1 - x) u.

(* gmp-h.in mpn_neg_n: low zero limbs stay zero, the first non-zero limb is
   negated, the higher limbs are complemented; returns 0 iff all limbs are 0 *)
Fixpoint neg_n (u : list Z) : list Z * Z :=
  match u with
  | [] => ([], 0)
  | x :: r =>
      if x =? 0 then let '(r', c) := neg_n r in (0 :: r', c)
      else (wrap (- x) :: com_n r, 1)
  end.

(* mpn/generic/lshift.c: every result limb is (u[i] << cnt) | (u[i-1] >> tnc);
   [lo] carries the bits coming from the limb below.  Returns the bits shifted
   out of the most significant limb. *)
Fixpoint lshift_c (u : list Z) (cnt : Z) (lo : Z) : list Z * Z :=
  match u with
  | [] => ([], lo)
  | x :: r =>
      let '(r', out) := lshift_c r cnt (Z.shiftr x (64 - cnt)) in
      (Z.lor (wrap (Z.shiftl x cnt)) lo :: r', out)
  end.
Definition lshift (u : list Z) (cnt : Z) : list Z * Z := lshift_c u cnt 0.

(* mpn/generic/rshift.c: result limb i is (u[i] >> cnt) | (u[i+1] << tnc);
   returns the bits shifted out, left-aligned in a limb. *)
Fixpoint rshift_hi (u : list Z) (cnt : Z) : list Z :=
  match u with
  | [] => []
  | x :: r =>
      let next := match r with [] => 0 | y :: _ => wrap (Z.shiftl y (64 - cnt)) end in
      Z.lor (Z.shiftr x cnt) next :: rshift_hi r cnt
  end.
Definition rshift (u : list Z) (cnt : Z) : list Z * Z :=
  (rshift_hi u cnt, match u with [] => 0 | x :: _ => wrap (Z.shiftl x (64 - cnt)) end).

(* __GMPN_CMP: scan from the most significant limb *)
Fixpoint cmp_rev (x y : list Z) : Z :=        (* operands most significant first *)
  match x, y with
  | a :: x', b :: y' => if a =? b then cmp_rev x' y' else if a <? b then -1 else 1
  | _, _ => 0
  end.
Definition cmp (x y : list Z) : Z := cmp_rev (rev x) (rev y).

Definition zero_p (x : list Z) : bool := forallb (fun a => a =? 0) x.
Definition zero (n : nat) : list Z := repeat 0 n.
Definition copy (x : list Z) : list Z := x.
