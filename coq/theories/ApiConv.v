(* ApiConv.v — correspondence entry points for C11 and C12.  Definitions only.
   An invalid operation / division by zero is printed as the empty byte string. *)
From Coq Require Import ZArith List Bool.
From Mpir Require Import Word Limbs MpnBasicDefs MpzDefs DivDefs ConvDefs MpqDefs ApiBasic ApiDiv GetDDefs.
Import ListNotations.
Local Open Scope Z_scope.

(* the executable models of the conversions to and from double are the bit-level models AS CODED of GetDDefs.v (mpn/generic/get_d.c,
   mpz/get_d.c, mpz/get_d_2exp.c, extract-dbl.c + mpz/set_d.c, mpq/get_d.c); GetDProofs.v shows them equal to the value-level
   functions of ConvDefs.v *)
Definition api_mpz_set_d : api := fun a =>
  match mpz_set_d_c (argz a 0) with COk z => out_zval (value z) | Invalid => dz end.
Definition api_mpz_get_d : api := fun a => [TZ (mpz_get_d_c (mpz_of_Z (argz a 0)))].
Definition api_mpn_get_d : api := fun a =>
  let l := limbs_of_Z (Z.abs (argz a 0)) in [TZ (mpn_get_d_c l (Z.of_nat (length l)) (argz a 1) (argz a 2))].
Definition api_mpz_get_d_2exp : api := fun a => let '(d, e) := mpz_get_d_2exp_c (mpz_of_Z (argz a 0)) in [TZ d; TZ e].
Definition api_mpz_cmp_d : api := fun a => match mpz_cmp_d (argz a 0) (argz a 1) with COk c => [TZ c] | Invalid => dz end.
Definition api_mpz_cmpabs_d : api := fun a => match mpz_cmpabs_d (argz a 0) (argz a 1) with COk c => [TZ c] | Invalid => dz end.
(* limb-level comparison (sizes, then limbs) and the value-level ones *)
Definition api_mpz_cmp : api := fun a =>
  let u := argz a 0 in let v := argz a 1 in
  [TZ (mpz_cmp_limbs (mpz_of_Z u) (mpz_of_Z v)); TZ (mpz_cmpabs u v); TZ (mpz_sgn u); TZ 0].
Definition api_mpz_cmp_ui : api := fun a =>
  let u := argz a 0 in let v := argz a 1 in [TZ (mpz_cmp u v); TZ (mpz_cmpabs u v); TZ (mpz_cmp u v)].
Definition api_mpz_cmp_si : api := fun a =>
  let u := argz a 0 in let v := argz a 1 in [TZ (mpz_cmp u v); TZ (mpz_cmp u v)].
Definition api_mpz_get : api := fun a =>
  let z := argz a 0 in [TZ (mpz_get_ui z); TZ (mpz_get_si z); TZ (mpz_get_ui z); TZ (mpz_get_sx z)].
Definition api_mpz_fits : api := fun a =>
  let z := argz a 0 in
  map (fun b => TZ (b2z b)) [fits_u 64 z; fits_s 64 z; fits_u 32 z; fits_s 32 z; fits_u 16 z; fits_s 16 z].
Definition api_mpz_set_ui : api := fun a => let v := argz a 0 in out_zval v ++ out_zval v ++ out_zval v.
Definition api_mpz_set_si : api := api_mpz_set_ui.

(* ---- rationals ---- *)
Definition argq (a : list tok) (i : nat) : mpq := mkq (argz a i) (argz a (S i)).
Definition out_q (q : mpq) : list tok := [TZ (qn q); TZ (qd q)].
Definition qalias_y (a : list tok) : mpq :=
  if (argz a 4 =? 3) || (argz a 4 =? 4) then argq a 0 else argq a 2.
Definition api_mpq_add : api := fun a => out_q (mpq_add (argq a 0) (qalias_y a)).
Definition api_mpq_sub : api := fun a => out_q (mpq_sub (argq a 0) (qalias_y a)).
Definition api_mpq_mul : api := fun a => out_q (mpq_mul (argq a 0) (qalias_y a) ((argz a 4 =? 3) || (argz a 4 =? 4))).
Definition api_mpq_div : api := fun a =>
  match mpq_div (argq a 0) (qalias_y a) with Ok q => out_q q | DivByZero => dz end.
Definition api_mpq_inv : api := fun a => match mpq_inv (argq a 0) with Ok q => out_q q | DivByZero => dz end.
Definition api_mpq_neg : api := fun a => out_q (mpq_neg (argq a 0)).
Definition api_mpq_abs : api := fun a => out_q (mpq_abs (argq a 0)).
Definition api_mpq_set : api := fun a => out_q (argq a 0).
Definition api_mpq_mul_2exp : api := fun a => out_q (mpq_mul_2exp (argq a 0) (argz a 2)).
Definition api_mpq_div_2exp : api := fun a => out_q (mpq_div_2exp (argq a 0) (argz a 2)).
Definition api_mpq_canonicalize : api := fun a =>
  match mpq_canonicalize (argq a 0) with Ok q => out_q q | DivByZero => dz end.
Definition api_mpq_set_z : api := fun a => out_q (mpq_set_z (argz a 0)).
Definition api_mpq_set_si : api := fun a => out_q (argq a 0).
Definition api_mpq_set_ui : api := fun a => out_q (argq a 0).
Definition api_mpq_set_d : api := fun a => match mpq_set_d (argz a 0) with COk q => out_q q | Invalid => dz end.
Definition api_mpq_set_f : api := fun a => out_q (mpq_set_f (argz a 0) (argz a 1)).
Definition api_mpq_get_d : api := fun a => [TZ (mpq_get_d_c (mpz_of_Z (argz a 0)) (mpz_of_Z (argz a 1)))].
Definition api_mpq_cmp : api := fun a =>
  let y := if argz a 4 =? 1 then argq a 0 else argq a 2 in
  [TZ (mpq_cmp (argz a 0) (argz a 1) (qn y) (qd y)); TZ (b2z (mpq_equal (argz a 0) (argz a 1) (qn y) (qd y)))].
Definition api_mpq_cmp_ui : api := fun a =>
  let c := mpq_cmp (argz a 0) (argz a 1) (argz a 2) (argz a 3) in [TZ c; TZ c].
Definition api_mpq_cmp_si : api := fun a => [TZ (mpq_cmp (argz a 0) (argz a 1) (argz a 2) (argz a 3))].
Definition api_mpq_cmp_z : api := fun a => [TZ (mpq_cmp (argz a 0) (argz a 1) (argz a 2) 1)].
