(* ApiMul.v — correspondence entry points for C01.  Definitions only. *)
From Coq Require Import ZArith List Bool.
From Mpir Require Import Word Limbs MpnBasicDefs MpzDefs MpnMulDefs FftDefs ApiBasic Toom3Defs Toom4Defs MulSliceDefs.
From MpirGen Require Import Gen_Tables.
Import ListNotations.
Local Open Scope Z_scope.

Definition api_mpn_mul_1 : api := fun a => out_lc (mul_1 (arglimbs a 0 1) (argz a 2)).
(* n R U v same *)
Definition api_mpn_addmul_1 : api := fun a =>
  let r := arglimbs a 0 1 in let u := if argz a 4 =? 1 then r else arglimbs a 0 2 in out_lc (addmul_1 r u (argz a 3)).
Definition api_mpn_submul_1 : api := fun a =>
  let r := arglimbs a 0 1 in let u := if argz a 4 =? 1 then r else arglimbs a 0 2 in out_lc (submul_1 r u (argz a 3)).

(* un U vn V same: exact product through Z.mul (the specification), top limb *)
Definition prod_out (un vn u v : Z) : list tok :=
  let p := u * v in [TZ p; TZ (p / B ^ (un + vn - 1))].
Definition argv2 (a : list tok) : Z := if argz a 4 =? 1 then argz a 1 else argz a 3.
Definition api_mpn_mul : api := fun a => prod_out (argz a 0) (argz a 2) (argz a 1) (argv2 a).
Definition api_mpn_mul_n : api := api_mpn_mul.
Definition api_mpn_sqr : api := api_mpn_mul.
(* limb-level model of the schoolbook routine *)
Definition api_mpn_mul_basecase : api := fun a =>
  let u := arglimbs a 0 1 in let v := if argz a 4 =? 1 then u else arglimbs a 2 3 in
  let p := mul_basecase u v in [TZ (eval p); TZ (last p 0)].
(* value-level Karatsuba with the pinned threshold; fuel 64 exceeds any recursion depth *)
Definition kara_thr : Z := thr_MUL_KARATSUBA_THRESHOLD.
Definition api_mpn_kara_mul_n : api := fun a =>
  let n := argz a 0 in let p := kara_mul 64 kara_thr n (argz a 1) (argv2 a) in [TZ p; TZ (p / B ^ (2 * n - 1))].

(* operands too large for exact evaluation of the extracted model: the product is
   compared through its residues modulo the four moduli of MpnMulDefs.res_moduli *)
Definition big_out (u v : Z) : list tok := map TZ (mul_residues u v).
Definition api_mpn_mul_big : api := fun a => big_out (argz a 1) (argv2 a).
Definition api_mpn_mul_n_big : api := api_mpn_mul_big.
Definition api_mpn_sqr_big : api := api_mpn_mul_big.

Definition choice_toks (c : option fft_choice) : list tok :=
  match c with
  | Some (FftTrunc d w) => [TZ 1; TZ d; TZ w]
  | Some (FftMfa d w) => [TZ 2; TZ d; TZ w]
  | None => [TZ 0; TZ 0; TZ 0]
  end.
Definition api_mpn_mul_fft_main : api := fun a =>
  choice_toks (fft_params (tab_of fft_tab) (argz a 0) (argz a 2))
  ++ big_out (argz a 1) (argv2 a).

Definition zalias_v (a : list tok) : mpz :=
  if (argz a 2 =? 3) || (argz a 2 =? 4) then argmpz a 0 else argmpz a 1.
Definition api_mpz_mul : api := fun a => out_mpz (mpz_mul (argmpz a 0) (zalias_v a)).
Definition api_mpz_mul_big : api := fun a =>
  let u := argz a 0 in let v := if (argz a 2 =? 3) || (argz a 2 =? 4) then u else argz a 1 in
  [TZ (Z.sgn u * Z.sgn v)] ++ map TZ (mul_residues (Z.abs u) (Z.abs v)).
Definition api_mpz_mul_ui : api := fun a => out_mpz (mpz_mul_ui (argmpz a 0) (argz a 1)).
Definition api_mpz_mul_si : api := fun a => out_mpz (mpz_mul_si (argmpz a 0) (argz a 1)).
(* W X Y alias (1 w=x, 2 w=y, 3 x=y, 4 w=x=y) *)
Definition aorsmul_args (a : list tok) : mpz * mpz * mpz :=
  let al := argz a 3 in
  let x := argmpz a 1 in
  let y := if (al =? 3) || (al =? 4) then x else argmpz a 2 in
  let w := if (al =? 1) || (al =? 4) then x else if al =? 2 then y else argmpz a 0 in (w, x, y).
Definition api_mpz_addmul : api := fun a => let '(w, x, y) := aorsmul_args a in out_mpz (mpz_addmul w x y).
Definition api_mpz_submul : api := fun a => let '(w, x, y) := aorsmul_args a in out_mpz (mpz_submul w x y).
Definition api_mpz_addmul_ui : api := fun a =>
  let x := argmpz a 1 in let w := if argz a 3 =? 1 then x else argmpz a 0 in out_mpz (mpz_addmul_ui w x (argz a 2)).
Definition api_mpz_submul_ui : api := fun a =>
  let x := argmpz a 1 in let w := if argz a 3 =? 1 then x else argmpz a 0 in out_mpz (mpz_submul_ui w x (argz a 2)).

(* mpn_toom3_points n A B : the operands of the five recursive products of mpn_toom3_mul_n in call order (the evaluation points
   at 1, -1 (magnitudes), 2, 0, infinity) and the product computed by the Toom-3 model *)
Definition api_mpn_toom3_points : api := fun t =>
  let n := argz t 0 in let a := argz t 1 in let b := argz t 2 in
  let k := (n + 2) / 3 in
  let a0 := toom3_lo k a in let a1 := toom3_mid k a in let a2 := toom3_hi k a in
  let b0 := toom3_lo k b in let b1 := toom3_mid k b in let b2 := toom3_hi k b in
  let sa := toom3_sign (a0 + a2) a1 in let sb := toom3_sign (b0 + b2) b1 in
  [TZ 5; TZ (a0 + a2 + a1); TZ (b0 + b2 + b1);
   TZ (toom3_absdiff sa (a0 + a2) a1); TZ (toom3_absdiff sb (b0 + b2) b1);
   TZ (toom3_eval2 a0 a1 a2); TZ (toom3_eval2 b0 b1 b2);
   TZ a0; TZ b0; TZ a2; TZ b2;
   TZ (toom3_mul Z.mul k a b)].

(* mpn_toom4_points n A B : the operands of the seven recursive products of mpn_toom4_mul_n in call order and the product
   computed by the Toom-4 model *)
Definition api_mpn_toom4_points : api := fun t =>
  let n := argz t 0 in let a := argz t 1 in let b := argz t 2 in
  let k := (n + 3) / 4 in
  let a0 := toom4_part0 k a in let a1 := toom4_part1 k a in let a2 := toom4_part2 k a in let a3 := toom4_part3 k a in
  let b0 := toom4_part0 k b in let b1 := toom4_part1 k b in let b2 := toom4_part2 k b in let b3 := toom4_part3 k b in
  let ae := a2 + a0 in let ao := a1 + a3 in let be := b2 + b0 in let bo := b1 + b3 in
  let ahe := toom4_evalh_even a0 a2 in let aho := toom4_evalh_odd a1 a3 in
  let bhe := toom4_evalh_even b0 b2 in let bho := toom4_evalh_odd b1 b3 in
  [TZ 7; TZ (ae + ao); TZ (be + bo);
   TZ (toom4_absdiff (toom4_cmp_sign ae ao) ae ao); TZ (toom4_absdiff (toom4_cmp_sign be bo) be bo);
   TZ (ahe + aho); TZ (bhe + bho);
   TZ (toom4_absdiff (toom4_cmp_sign ahe aho) ahe aho); TZ (toom4_absdiff (toom4_cmp_sign bhe bho) bhe bho);
   TZ (toom4_eval2 a0 a1 a2 a3); TZ (toom4_eval2 b0 b1 b2 b3);
   TZ a3; TZ b3; TZ a0; TZ b0;
   TZ (toom4_mul Z.mul k a b)].
(* mpn_mul un U vn V through the sliced schoolbook model when un exceeds the slice length M (MUL_BASECASE_MAX_UN = 500) *)
Definition api_mpn_mul_sliced : api := fun t =>
  [TZ (mul_sliced 500 (argz t 2) (argz t 1) (argz t 3) (argz t 0)); TZ (b2z (mul_sliced_overflows 500 (argz t 2) (argz t 1) (argz t 3) (argz t 0)))].
