(* ApiBasic.v — correspondence entry points for C03.  Every api_<op> takes the
   argument tokens of a case line and returns the output tokens the implementation
   driver prints for the same line.  Only definitions. *)
From Coq Require Import ZArith List Bool.
From Mpir Require Import Word Limbs MpnBasicDefs MpzDefs.
Import ListNotations.
Local Open Scope Z_scope.

Inductive tok := TZ (z : Z) | TB (bytes : list Z).
Definition api := list tok -> list tok.

Definition tz (t : tok) : Z := match t with TZ z => z | TB _ => 0 end.
Definition argz (a : list tok) (i : nat) : Z := tz (nth i a (TZ 0)).
Definition argb (a : list tok) (i : nat) : list Z := match nth i a (TZ 0) with TB b => b | _ => [] end.
(* an n-limb operand given as (n, value) *)
Definition limbs (n v : Z) : list Z := pad (limbs_of_Z v) (Z.to_nat n).
Definition arglimbs (a : list tok) (i j : nat) : list Z := limbs (argz a i) (argz a j).
Definition out_lc (p : list Z * Z) : list tok := [TZ (eval (fst p)); TZ (snd p)].
Definition out_mpz (z : mpz) : list tok := [TZ (value z); TZ (sz z)].
Definition argmpz (a : list tok) (i : nat) : mpz := mpz_of_Z (argz a i).

(* mpn_add_n n U V ovl ; ovl = 3 means both sources are U *)
Definition api_mpn_add_n : api := fun a =>
  let u := arglimbs a 0 1 in
  let v := if argz a 3 =? 3 then u else arglimbs a 0 2 in out_lc (add_n u v).
Definition api_mpn_sub_n : api := fun a =>
  let u := arglimbs a 0 1 in
  let v := if argz a 3 =? 3 then u else arglimbs a 0 2 in out_lc (sub_n u v).
Definition api_mpn_add_1 : api := fun a => out_lc (add_1 (arglimbs a 0 1) (argz a 2)).
Definition api_mpn_sub_1 : api := fun a => out_lc (sub_1 (arglimbs a 0 1) (argz a 2)).
Definition api_mpn_add : api := fun a => out_lc (add (arglimbs a 0 1) (arglimbs a 2 3)).
Definition api_mpn_sub : api := fun a => out_lc (sub (arglimbs a 0 1) (arglimbs a 2 3)).
Definition api_mpn_neg_n : api := fun a => out_lc (neg_n (arglimbs a 0 1)).
Definition api_mpn_com_n : api := fun a => [TZ (eval (com_n (arglimbs a 0 1)))].
Definition api_mpn_lshift : api := fun a => out_lc (lshift (arglimbs a 0 1) (argz a 2)).
Definition api_mpn_rshift : api := fun a => out_lc (rshift (arglimbs a 0 1) (argz a 2)).
Definition api_mpn_copyi : api := fun a => [TZ (eval (copy (arglimbs a 0 1)))].
Definition api_mpn_copyd : api := fun a => [TZ (eval (copy (arglimbs a 0 1)))].
Definition api_mpn_zero : api := fun a => [TZ (eval (zero (Z.to_nat (argz a 0))))].
Definition api_mpn_cmp : api := fun a => [TZ (cmp (arglimbs a 0 1) (arglimbs a 0 2))].
Definition api_mpn_zero_p : api := fun a => [TZ (b2z (zero_p (arglimbs a 0 1)))].

(* mpz binary: U V alias ; alias 3 and 4 mean v is the same variable as u *)
Definition zbin (f : mpz -> mpz -> mpz) : api := fun a =>
  let u := argmpz a 0 in
  let v := if (argz a 2 =? 3) || (argz a 2 =? 4) then u else argmpz a 1 in out_mpz (f u v).
Definition api_mpz_add : api := zbin mpz_add.
Definition api_mpz_sub : api := zbin mpz_sub.
Definition api_mpz_add_ui : api := fun a => out_mpz (mpz_add_ui (argmpz a 0) (argz a 1)).
Definition api_mpz_sub_ui : api := fun a => out_mpz (mpz_sub_ui (argmpz a 0) (argz a 1)).
Definition api_mpz_ui_sub : api := fun a => out_mpz (mpz_ui_sub (argz a 1) (argmpz a 0)).
Definition api_mpz_mul_2exp : api := fun a => out_mpz (mpz_mul_2exp (argmpz a 0) (argz a 1)).
(* mpz_mul_2exp_big U CNT : shift counts of 2^32 bits and more; the result (half a gigabyte) is not printed but observed through its
   bit length, the position of its lowest set bit, its sign, and whether shifting it back gives U: the consequences of
   C03's mpz_mul_2exp theorem (result = U * 2^CNT) for these observables *)
Definition api_mpz_mul_2exp_big : api := fun a =>
  let u := argz a 0 in let cnt := argz a 1 in
  if u =? 0 then [TZ 1; TZ (-1); TZ 0; TZ 1]
  else [TZ (Z.log2 (Z.abs u) + 1 + cnt); TZ (ctz (Z.abs u) + cnt); TZ (Z.sgn u); TZ 1].
Definition api_mpz_neg : api := fun a => out_mpz (mpz_neg (argmpz a 0)).
Definition api_mpz_abs : api := fun a => out_mpz (mpz_abs (argmpz a 0)).
Definition api_mpz_set : api := fun a => out_mpz (mpz_set (argmpz a 0)).
Definition api_mpz_swap : api := fun a =>
  let p := mpz_swap (argmpz a 0) (argmpz a 1) in out_mpz (fst p) ++ out_mpz (snd p).

(* C05 alias harness: the specification of "aliased call = distinct call, inputs unchanged"
   is the constant verdict 0 (see Properties_C05.v); the implementation driver prints 0 when the
   two runs agree on every argument *)
Definition api_alias : api := fun _ => [TZ 0].
