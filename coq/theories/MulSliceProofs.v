(* MulSliceProofs.v — the sliced schoolbook path of mpn_mul (MulSliceDefs) yields the
   exact product, and the mpn_incr_u calls the source marks "safe?" never carry out of
   the limbs that the preceding mpn_mul_basecase has just written. *)
From Coq Require Import ZArith Bool List Lia.
From Mpir Require Import Word Limbs MpnMulDefs MpnMulProofs MulSliceDefs.
Import ListNotations.
Local Open Scope Z_scope.

(* ------------------------------------------------------------------ *)
(* B^k                                                                  *)

Lemma Bp_pos k : 0 <= k -> 0 < Bp k.
Proof. intros. unfold Bp. apply Z.pow_pos_nonneg; lia. Qed.

Lemma Bp_add a b : 0 <= a -> 0 <= b -> Bp (a + b) = Bp a * Bp b.
Proof.
  intros. unfold Bp. rewrite <- Z.pow_add_r by lia. f_equal. lia.
Qed.

Lemma Bp_0 : Bp 0 = 1.
Proof. reflexivity. Qed.

Lemma Bp_B k : 0 <= k -> Bp k = B ^ k.
Proof.
  intros. unfold Bp. rewrite B_val. change 18446744073709551616 with (2 ^ 64).
  rewrite <- Z.pow_mul_r by lia. reflexivity.
Qed.

(* x mod B^(a+b) = x mod B^a + B^a * ((x / B^a) mod B^b) *)
Lemma mod_Bp_split x a b : 0 <= a -> 0 <= b ->
  x mod Bp (a + b) = x mod Bp a + Bp a * ((x / Bp a) mod Bp b).
Proof.
  intros Ha Hb. rewrite Bp_add by assumption.
  pose proof (Bp_pos a Ha). pose proof (Bp_pos b Hb).
  apply Z.rem_mul_r; lia.
Qed.

Lemma div_Bp_split x a b : 0 <= a -> 0 <= b ->
  x / Bp (a + b) = (x / Bp a) / Bp b.
Proof.
  intros Ha Hb. rewrite Bp_add by assumption.
  pose proof (Bp_pos a Ha). pose proof (Bp_pos b Hb).
  symmetry. apply Z.div_div; lia.
Qed.

(* ------------------------------------------------------------------ *)
(* the arithmetic behind "safe?"                                        *)

(* p < X, v < Y, t < Y  ==>  p v + t <= (X-1)(Y-1) + (Y-1) = X Y - X < X Y. *)
Lemma prod_plus_triangle_lt X Y p v t :
  0 <= p < X -> 0 <= v < Y -> 0 <= t < Y -> p * v + t < X * Y.
Proof.
  intros Hp Hv Ht.
  assert (p * v <= (X - 1) * (Y - 1)) by (apply Z.mul_le_mono_nonneg; lia).
  nia.
Qed.

(* The statement asked for by the source comment: a piece of wn limbs times v, plus
   the saved triangle, fits in the wn + vn limbs that mpn_mul_basecase wrote. *)
Lemma incr_is_safe wn vn piece v tp :
  0 <= wn -> 0 <= vn ->
  0 <= piece < Bp wn -> 0 <= v < Bp vn -> 0 <= tp < Bp vn ->
  0 <= bc_mul piece v + tp < Bp (wn + vn).
Proof.
  intros Hwn Hvn Hp Hv Ht. unfold bc_mul. rewrite Bp_add by assumption.
  split; [nia|]. apply prod_plus_triangle_lt; assumption.
Qed.

(* ------------------------------------------------------------------ *)
(* mpn_add_n followed by mpn_incr_u                                     *)

(* Whatever the inputs, the flag says exactly whether win + tp needs more than
   wn + vn limbs, so a false flag is not vacuous. *)
Lemma add_back_flag wn vn win tp : 0 <= wn -> 0 <= vn ->
  snd (add_back wn vn win tp) = (Bp (wn + vn) <=? win + tp).
Proof.
  intros Hwn Hvn. unfold add_back, add_n, incr_u. cbn [snd].
  rewrite Bp_add by assumption.
  pose proof (Bp_pos wn Hwn) as HX. pose proof (Bp_pos vn Hvn) as HY.
  set (X := Bp wn) in *. set (Y := Bp vn) in *.
  pose proof (Z.div_mod win Y ltac:(lia)) as Ew.
  pose proof (Z.mod_pos_bound win Y HY) as Bw.
  set (lo := win mod Y) in *. set (hi := win / Y) in *.
  pose proof (Z.div_mod (lo + tp) Y ltac:(lia)) as Es.
  pose proof (Z.mod_pos_bound (lo + tp) Y HY) as Bs.
  set (lo' := (lo + tp) mod Y) in *. set (cy := (lo + tp) / Y) in *.
  (* win + tp = Y (hi + cy) + lo' with 0 <= lo' < Y *)
  destruct (Z.leb_spec X (hi + cy)); destruct (Z.leb_spec (X * Y) (win + tp));
    try reflexivity; exfalso; nia.
Qed.

(* When the sum fits, the two calls produce it exactly and the flag is false. *)
Lemma add_back_exact wn vn win tp : 0 <= wn -> 0 <= vn ->
  0 <= win + tp < Bp (wn + vn) ->
  add_back wn vn win tp = (win + tp, false).
Proof.
  intros Hwn Hvn Hs.
  pose proof (add_back_flag wn vn win tp Hwn Hvn) as Hf.
  revert Hf. unfold add_back, add_n, incr_u. cbn [snd]. intros Hf.
  rewrite Hf. replace (Bp (wn + vn) <=? win + tp) with false
    by (symmetry; apply Z.leb_gt; lia).
  f_equal.
  rewrite Bp_add in Hs by assumption.
  pose proof (Bp_pos wn Hwn) as HX. pose proof (Bp_pos vn Hvn) as HY.
  set (X := Bp wn) in *. set (Y := Bp vn) in *.
  pose proof (Z.div_mod win Y ltac:(lia)) as Ew.
  pose proof (Z.mod_pos_bound win Y HY) as Bw.
  set (lo := win mod Y) in *. set (hi := win / Y) in *.
  pose proof (Z.div_mod (lo + tp) Y ltac:(lia)) as Es.
  pose proof (Z.mod_pos_bound (lo + tp) Y HY) as Bs.
  set (lo' := (lo + tp) mod Y) in *. set (cy := (lo + tp) / Y) in *.
  assert (0 <= hi + cy < X) by nia.
  rewrite Z.mod_small by assumption. lia.
Qed.

(* ------------------------------------------------------------------ *)
(* the loop invariant                                                   *)

(* After the pieces below ss_off have been processed:
     - the final limbs and the saved triangle together are (u mod B^off) * v exactly;
     - {prodp, vn} and tp hold the same value (MPN_COPY);
     - up/un are what is left of u;
     - no increment has overflowed; every basecase call was legal (given vn <= M). *)
Record slice_inv (M vn u v un0 : Z) (st : slice_state) : Prop := mk_slice_inv {
  si_off   : 0 < ss_off st;
  si_un    : 0 < ss_un st;
  si_total : ss_off st + ss_un st = un0;
  si_low   : 0 <= ss_low st < Bp (ss_off st);
  si_tp    : 0 <= ss_tp st < Bp vn;
  si_val   : ss_low st + Bp (ss_off st) * ss_tp st = (u mod Bp (ss_off st)) * v;
  si_win   : ss_win st = ss_tp st;
  si_up    : ss_up st = u / Bp (ss_off st);
  si_ovf   : ss_ovf st = false;
  si_pre   : vn <= M -> ss_pre st = true
}.

Lemma bc_pre_true an bn : 1 <= bn -> bn <= an -> bc_pre an bn = true.
Proof.
  intros. unfold bc_pre. apply andb_true_intro. split; apply Z.leb_le; lia.
Qed.

(* Shared by slice_first and slice_step: cutting a window w < B^(M+vn) at M limbs. *)
Lemma window_cut M vn w : 0 <= M -> 0 <= vn -> 0 <= w < Bp (M + vn) ->
  0 <= w mod Bp M < Bp M /\
  0 <= (w / Bp M) mod Bp vn < Bp vn /\
  (w / Bp M) mod Bp vn = w / Bp M /\
  w = w mod Bp M + Bp M * (w / Bp M).
Proof.
  intros HM Hvn Hw. rewrite Bp_add in Hw by assumption.
  pose proof (Bp_pos M HM) as HX. pose proof (Bp_pos vn Hvn) as HY.
  assert (0 <= w / Bp M < Bp vn).
  { split; [apply Z.div_pos; lia|apply Z.div_lt_upper_bound; lia]. }
  split; [apply Z.mod_pos_bound; lia|].
  rewrite Z.mod_small by assumption.
  split; [assumption|]. split; [reflexivity|].
  rewrite Z.add_comm. apply Z.div_mod. lia.
Qed.

Lemma slice_first_inv M vn u v un :
  1 <= M -> 1 <= vn -> M < un -> 0 <= u -> 0 <= v < Bp vn ->
  slice_inv M vn u v un (slice_first M vn u v un).
Proof.
  intros HM Hvn Hun Hu Hv.
  pose proof (Bp_pos M ltac:(lia)) as HX.
  pose proof (Z.mod_pos_bound u (Bp M) HX) as Hp.
  pose proof (incr_is_safe M vn (u mod Bp M) v 0 ltac:(lia) ltac:(lia) Hp Hv
                ltac:(pose proof (Bp_pos vn); lia)) as Hw.
  rewrite Z.add_0_r in Hw.
  destruct (window_cut M vn _ ltac:(lia) ltac:(lia) Hw) as (C1 & C2 & C3 & C4).
  unfold slice_first. constructor; cbn [ss_low ss_off ss_win ss_tp ss_up ss_un ss_ovf ss_pre].
  - lia.
  - lia.
  - lia.
  - exact C1.
  - exact C2.
  - rewrite C3. unfold bc_mul in *. lia.
  - reflexivity.
  - reflexivity.
  - reflexivity.
  - intros. apply bc_pre_true; lia.
Qed.

(* The increment inside the loop is safe in every state the invariant describes. *)
Lemma incr_is_safe_step M vn u v un0 st :
  1 <= M -> 1 <= vn -> 0 <= v < Bp vn -> slice_inv M vn u v un0 st ->
  add_back M vn (bc_mul (ss_up st mod Bp M) v) (ss_tp st)
  = (bc_mul (ss_up st mod Bp M) v + ss_tp st, false).
Proof.
  intros HM Hvn Hv I.
  apply add_back_exact; [lia|lia|].
  apply incr_is_safe; try lia.
  - apply Z.mod_pos_bound. apply Bp_pos. lia.
  - exact (si_tp _ _ _ _ _ _ I).
Qed.

Lemma slice_step_inv M vn u v un0 st :
  1 <= M -> 1 <= vn -> 0 <= v < Bp vn ->
  slice_inv M vn u v un0 st -> M < ss_un st ->
  slice_inv M vn u v un0 (slice_step M vn v st).
Proof.
  intros HM Hvn Hv I Hgt.
  unfold slice_step. rewrite (incr_is_safe_step M vn u v un0 st HM Hvn Hv I).
  destruct I as [Ioff Iun Itot Ilow Itp Ival Iwin Iup Iovf Ipre].
  set (piece := ss_up st mod Bp M).
  assert (Hp : 0 <= piece < Bp M) by (apply Z.mod_pos_bound, Bp_pos; lia).
  pose proof (incr_is_safe M vn piece v (ss_tp st) ltac:(lia) ltac:(lia) Hp Hv Itp) as Hw.
  set (w := bc_mul piece v + ss_tp st) in *.
  destruct (window_cut M vn w ltac:(lia) ltac:(lia) Hw) as (C1 & C2 & C3 & C4).
  pose proof (Bp_pos (ss_off st) ltac:(lia)) as HO.
  pose proof (Bp_pos M ltac:(lia)) as HX.
  constructor; cbn [ss_low ss_off ss_win ss_tp ss_up ss_un ss_ovf ss_pre].
  - lia.
  - lia.
  - lia.
  - rewrite Bp_add by lia. nia.
  - exact C2.
  - rewrite C3, (mod_Bp_split u (ss_off st) M) by lia.
    rewrite Bp_add by lia. rewrite <- Iup. fold piece.
    assert (Ew : w mod Bp M + Bp M * (w / Bp M) = piece * v + ss_tp st)
      by (rewrite <- C4; reflexivity).
    set (O := Bp (ss_off st)) in *. set (X := Bp M) in *.
    set (wl := w mod X) in *. set (wh := w / X) in *.
    transitivity (ss_low st + O * (wl + X * wh)); [ring|].
    transitivity ((u mod O) * v + O * piece * v); [|ring].
    rewrite Ew, <- Ival. ring.
  - reflexivity.
  - rewrite Iup. symmetry. apply div_Bp_split; lia.
  - rewrite Iovf. reflexivity.
  - intros Hle. rewrite (Ipre Hle). apply bc_pre_true; lia.
Qed.

(* "In every iteration": the invariant (hence ss_ovf = false) holds after any number of
   passes, whether or not the fuel is enough to finish the loop. *)
Lemma slice_loop_inv M vn u v un0 :
  1 <= M -> 1 <= vn -> 0 <= v < Bp vn ->
  forall fuel st, slice_inv M vn u v un0 st ->
  slice_inv M vn u v un0 (slice_loop M vn v fuel st).
Proof.
  intros HM Hvn Hv. induction fuel as [|f IH]; intros st I; cbn [slice_loop]; [exact I|].
  destruct (Z.ltb_spec M (ss_un st)); [|exact I].
  apply IH. apply slice_step_inv; assumption.
Qed.

Lemma slice_step_un M vn v st : ss_un (slice_step M vn v st) = ss_un st - M.
Proof.
  unfold slice_step. destruct (add_back M vn _ (ss_tp st)). reflexivity.
Qed.

(* With fuel >= un / M the loop exits through its test. *)
Lemma slice_loop_exit M vn v : 1 <= M ->
  forall fuel st, ss_un st <= (Z.of_nat fuel + 1) * M ->
  ss_un (slice_loop M vn v fuel st) <= M.
Proof.
  intros HM. induction fuel as [|f IH]; intros st Hb; cbn [slice_loop].
  - change (Z.of_nat 0) with 0 in Hb. lia.
  - destruct (Z.ltb_spec M (ss_un st)); [|assumption].
    apply IH. rewrite slice_step_un. rewrite Nat2Z.inj_succ in Hb. lia.
Qed.

(* ------------------------------------------------------------------ *)
(* the last piece                                                       *)

Lemma last_piece_bound u off un' : 0 < off -> 0 < un' -> 0 <= u < Bp (off + un') ->
  0 <= u / Bp off < Bp un'.
Proof.
  intros Ho Hu Hb. rewrite Bp_add in Hb by lia.
  pose proof (Bp_pos off ltac:(lia)). pose proof (Bp_pos un' ltac:(lia)).
  split; [apply Z.div_pos; lia|apply Z.div_lt_upper_bound; lia].
Qed.

(* The final increment is safe as well, with the last piece's own length. *)
Lemma incr_is_safe_last M vn u v un0 st :
  1 <= vn -> 0 <= u < Bp un0 -> 0 <= v < Bp vn -> slice_inv M vn u v un0 st ->
  add_back (ss_un st) vn (bc_mul (ss_up st) v) (ss_tp st)
  = (bc_mul (ss_up st) v + ss_tp st, false).
Proof.
  intros Hvn Hu Hv I.
  pose proof (si_un _ _ _ _ _ _ I) as Iun. pose proof (si_off _ _ _ _ _ _ I) as Ioff.
  apply add_back_exact; [lia|lia|].
  apply incr_is_safe; try lia.
  - rewrite (si_up _ _ _ _ _ _ I). apply last_piece_bound; try lia.
    rewrite (si_total _ _ _ _ _ _ I). exact Hu.
  - exact (si_tp _ _ _ _ _ _ I).
Qed.

Lemma slice_last_spec M vn u v un0 st :
  1 <= vn -> 0 <= u < Bp un0 -> 0 <= v < Bp vn -> slice_inv M vn u v un0 st ->
  let r := slice_last vn v st in
  sr_val r = u * v /\
  sr_top r = (u * v) / Bp (un0 + vn - 1) /\
  sr_ovf r = false /\
  (vn <= M -> sr_pre r = true).
Proof.
  intros Hvn Hu Hv I.
  pose proof (incr_is_safe_last M vn u v un0 st Hvn Hu Hv I) as Hab.
  unfold slice_last.
  assert (Hsw : (if vn <? ss_un st then bc_mul (ss_up st) v else bc_mul v (ss_up st))
                = bc_mul (ss_up st) v).
  { destruct (vn <? ss_un st); [reflexivity|unfold bc_mul; ring]. }
  rewrite Hsw, Hab.
  destruct I as [Ioff Iun Itot Ilow Itp Ival Iwin Iup Iovf Ipre].
  cbn [sr_val sr_top sr_ovf sr_pre]. cbv zeta.
  pose proof (Bp_pos (ss_off st) ltac:(lia)) as HO.
  assert (Eval : ss_low st + Bp (ss_off st) * (bc_mul (ss_up st) v + ss_tp st) = u * v).
  { unfold bc_mul. rewrite Iup.
    pose proof (Z.div_mod u (Bp (ss_off st)) ltac:(lia)) as Eu.
    set (O := Bp (ss_off st)) in *. set (q := u / O) in *. set (r := u mod O) in *.
    transitivity (r * v + O * q * v); [rewrite <- Ival; ring|].
    rewrite Eu. ring. }
  split; [exact Eval|]. split; [|split].
  - rewrite <- Eval.
    replace (un0 + vn - 1) with (ss_off st + (ss_un st + vn - 1)) by lia.
    rewrite div_Bp_split by lia. f_equal. symmetry.
    set (w := bc_mul (ss_up st) v + ss_tp st).
    replace (ss_low st + Bp (ss_off st) * w) with (w * Bp (ss_off st) + ss_low st) by ring.
    rewrite Z.div_add_l by lia.
    rewrite (Z.div_small (ss_low st)) by assumption. lia.
  - rewrite Iovf. reflexivity.
  - intros Hle. rewrite (Ipre Hle). cbn [andb].
    destruct (Z.ltb_spec vn (ss_un st)).
    + apply bc_pre_true; lia.
    + apply andb_true_intro. split; [apply Z.ltb_lt; lia|apply bc_pre_true; lia].
Qed.

(* ------------------------------------------------------------------ *)
(* the whole path                                                       *)

Lemma mul_sliced_state M vn un u v :
  1 <= M -> 1 <= vn -> M < un -> 0 <= u -> 0 <= v < Bp vn ->
  let st := slice_loop M vn v (Z.to_nat (un / M)) (slice_first M vn u v un) in
  slice_inv M vn u v un st /\ ss_un st <= M.
Proof.
  intros HM Hvn Hun Hu Hv. cbv zeta. split.
  - apply slice_loop_inv; try assumption. apply slice_first_inv; assumption.
  - apply slice_loop_exit; [assumption|].
    cbn [slice_first ss_un].
    assert (0 <= un / M) by (apply Z.div_pos; lia).
    rewrite Z2Nat.id by assumption.
    pose proof (Z.div_mod un M ltac:(lia)). pose proof (Z.mod_pos_bound un M ltac:(lia)).
    nia.
Qed.

Theorem mul_sliced_run_correct M vn un u v :
  1 <= M -> 1 <= vn -> M < un -> 0 <= u < Bp un -> 0 <= v < Bp vn ->
  let r := mul_sliced_run M vn u v un in
  sr_val r = u * v /\
  sr_top r = (u * v) / Bp (un + vn - 1) /\
  sr_ovf r = false /\
  (vn <= M -> sr_pre r = true).
Proof.
  intros HM Hvn Hun Hu Hv.
  destruct (mul_sliced_state M vn un u v HM Hvn Hun ltac:(lia) Hv) as [I _].
  unfold mul_sliced_run. apply (slice_last_spec M); assumption.
Qed.

(* The statement in the form requested. *)
Theorem mul_sliced_correct : forall M vn un u v,
  1 <= vn -> vn <= M -> M < un -> 0 <= u < Bp un -> 0 <= v < Bp vn ->
  mul_sliced M vn u v un = u * v /\ mul_sliced_overflows M vn u v un = false.
Proof.
  intros M vn un u v Hvn Hle Hun Hu Hv.
  destruct (mul_sliced_run_correct M vn un u v ltac:(lia) Hvn Hun Hu Hv) as (R1 & _ & R3 & _).
  unfold mul_sliced, mul_sliced_overflows. split; assumption.
Qed.

(* vn <= M is not needed for the arithmetic, only for mpn_mul_basecase's an >= bn. *)
Theorem mul_sliced_correct_any_vn : forall M vn un u v,
  1 <= M -> 1 <= vn -> M < un -> 0 <= u < Bp un -> 0 <= v < Bp vn ->
  mul_sliced M vn u v un = u * v /\ mul_sliced_overflows M vn u v un = false.
Proof.
  intros M vn un u v HM Hvn Hun Hu Hv.
  destruct (mul_sliced_run_correct M vn un u v HM Hvn Hun Hu Hv) as (R1 & _ & R3 & _).
  unfold mul_sliced, mul_sliced_overflows. split; assumption.
Qed.

Theorem mul_sliced_calls_legal : forall M vn un u v,
  1 <= vn -> vn <= M -> M < un -> 0 <= u < Bp un -> 0 <= v < Bp vn ->
  sr_pre (mul_sliced_run M vn u v un) = true.
Proof.
  intros M vn un u v Hvn Hle Hun Hu Hv.
  destruct (mul_sliced_run_correct M vn un u v ltac:(lia) Hvn Hun Hu Hv) as (_ & _ & _ & R4).
  exact (R4 Hle).
Qed.

(* The value the C function returns, prodp[un + vn - 1] read through the advanced prodp
   and the reduced un, is the most significant limb of the whole product. *)
Theorem mul_sliced_return_value : forall M vn un u v,
  1 <= M -> 1 <= vn -> M < un -> 0 <= u < Bp un -> 0 <= v < Bp vn ->
  sr_top (mul_sliced_run M vn u v un) = (u * v) / Bp (un + vn - 1).
Proof.
  intros M vn un u v HM Hvn Hun Hu Hv.
  destruct (mul_sliced_run_correct M vn un u v HM Hvn Hun Hu Hv) as (_ & R2 & _ & _).
  exact R2.
Qed.

(* With the constants of the build: M = MUL_BASECASE_MAX_UN = 500 and
   vn < MUL_KARATSUBA_THRESHOLD <= 500. *)
Corollary mul_sliced_500 : forall vn un u v,
  1 <= vn -> vn <= 500 -> 500 < un -> 0 <= u < Bp un -> 0 <= v < Bp vn ->
  mul_sliced 500 vn u v un = u * v /\ mul_sliced_overflows 500 vn u v un = false /\
  sr_pre (mul_sliced_run 500 vn u v un) = true.
Proof.
  intros vn un u v Hvn Hle Hun Hu Hv.
  destruct (mul_sliced_correct 500 vn un u v Hvn Hle Hun Hu Hv) as [R1 R2].
  split; [exact R1|]. split; [exact R2|].
  apply mul_sliced_calls_legal; assumption.
Qed.

(* ------------------------------------------------------------------ *)
(* link to the limb-level mpn_mul_basecase model                        *)

Lemma bc_mul_limbs u v : wf u -> wf v -> u <> [] -> v <> [] ->
  bc_mul (eval u) (eval v) = eval (mul_basecase u v).
Proof.
  intros Hu Hv Hune Hvne.
  destruct (mul_basecase_spec u v Hu Hv Hune Hvne) as (E & _ & _).
  unfold bc_mul. symmetry. exact E.
Qed.

(* ------------------------------------------------------------------ *)
(* examples: M = 3, vn = 2; limbs near all-ones, chosen so that every add-back carries  *)

Definition ex_limbs (l : list Z) : Z := fold_right (fun x acc => x + Bp 1 * acc) 0 l.
Definition ex_m1 : Z := Bp 1 - 1.
Definition ex_m2 : Z := Bp 1 - 2.
Definition ex_v2  : Z := ex_limbs [ex_m1; ex_m1].
(* un = 8: pieces 3, 3, then a last piece of 2 <= vn limbs (operands swapped) *)
Definition ex_u8  : Z := ex_limbs [ex_m2; ex_m1; ex_m1; ex_m2; ex_m1; ex_m1; ex_m2; ex_m1].
(* un = 9: pieces 3, 3, then a last piece of 3 > vn limbs *)
Definition ex_u9  : Z := ex_limbs [ex_m2; ex_m1; ex_m1; ex_m2; ex_m1; ex_m1; ex_m2; ex_m1; ex_m1].
(* un = 10: pieces 3, 3, 3, then a last piece of 1 limb *)
Definition ex_u10 : Z :=
  ex_limbs [ex_m2; ex_m1; ex_m1; ex_m2; ex_m1; ex_m1; ex_m2; ex_m1; ex_m1; Bp 1 - 3].

Example mul_sliced_ex8 :
  mul_sliced_run 3 2 ex_u8 ex_v2 8
  = mk_slice_result (ex_u8 * ex_v2) ((ex_u8 * ex_v2) / Bp 9) false true.
Proof. vm_compute. reflexivity. Qed.

Example mul_sliced_ex9 :
  mul_sliced_run 3 2 ex_u9 ex_v2 9
  = mk_slice_result (ex_u9 * ex_v2) ((ex_u9 * ex_v2) / Bp 10) false true.
Proof. vm_compute. reflexivity. Qed.

Example mul_sliced_ex10 :
  mul_sliced_run 3 2 ex_u10 ex_v2 10
  = mk_slice_result (ex_u10 * ex_v2) ((ex_u10 * ex_v2) / Bp 11) false true.
Proof. vm_compute. reflexivity. Qed.

(* In those runs mpn_add_n does return cy = 1: in the loop pass and in the final add-back
   (un = 8), and in both loop passes and the final add-back (un = 10). *)
Example mul_sliced_ex8_carries :
  let s1 := slice_first 3 2 ex_u8 ex_v2 8 in
  let s2 := slice_step 3 2 ex_v2 s1 in
  (ss_un s1, slice_step_cy 3 2 ex_v2 s1, ss_un s2, slice_last_cy 2 ex_v2 s2) = (5, 1, 2, 1).
Proof. vm_compute. reflexivity. Qed.

Example mul_sliced_ex10_carries :
  let s1 := slice_first 3 2 ex_u10 ex_v2 10 in
  let s2 := slice_step 3 2 ex_v2 s1 in
  let s3 := slice_step 3 2 ex_v2 s2 in
  (slice_step_cy 3 2 ex_v2 s1, slice_step_cy 3 2 ex_v2 s2, ss_un s3, slice_last_cy 2 ex_v2 s3)
  = (1, 1, 1, 1).
Proof. vm_compute. reflexivity. Qed.

(* The flag is live: give the increment one limb fewer than mpn_mul_basecase wrote and
   the same add-back reports the overflow. *)
Example add_back_flag_live :
  snd (add_back 1 1 (Bp 2 - 1) 1) = true /\ snd (add_back 1 1 (Bp 2 - 2) 1) = false.
Proof. vm_compute. split; reflexivity. Qed.
