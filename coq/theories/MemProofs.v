(* MemProofs.v — the index loops of MemDefs.v compute the list functions of
   MpnBasicDefs.v for every permitted overlap of source and destination. *)
From Coq Require Import ZArith List Lia Bool.
From Mpir Require Import Word Limbs MpnBasicDefs MpnBasicProofs MemDefs.
Import ListNotations.
Local Open Scope Z_scope.

(* ------------------------------------------------------------------ *)
(* memory basics                                                        *)

Lemma upd_same m a v : upd m a v a = v.
Proof. unfold upd. rewrite Z.eqb_refl. reflexivity. Qed.

Lemma upd_other m a v x : x <> a -> upd m a v x = m x.
Proof. unfold upd. intros H. destruct (Z.eqb_spec x a) as [E|E]; [contradiction|reflexivity]. Qed.

Lemma rd_ext : forall n m1 m2 lo,
  (forall a, lo <= a < lo + Z.of_nat n -> m1 a = m2 a) -> rd m1 lo n = rd m2 lo n.
Proof.
  induction n as [|n IH]; intros m1 m2 lo H; cbn [rd]; [reflexivity|].
  f_equal.
  - apply H. lia.
  - apply IH. intros a Ha. apply H. lia.
Qed.

Lemma rd_upd_outside m a v lo n :
  (a < lo \/ lo + Z.of_nat n <= a) -> rd (upd m a v) lo n = rd m lo n.
Proof. intros H. apply rd_ext. intros x Hx. apply upd_other. lia. Qed.

Lemma rd_snoc : forall k m a, rd m a (S k) = rd m a k ++ [m (a + Z.of_nat k)].
Proof.
  induction k as [|k IH]; intros m a.
  - cbn [rd app]. replace (a + Z.of_nat 0) with a by lia. reflexivity.
  - change (rd m a (S (S k))) with (m a :: rd m (a + 1) (S k)). rewrite IH.
    cbn [rd app]. replace (a + Z.of_nat (S k)) with (a + 1 + Z.of_nat k) by lia.
    reflexivity.
Qed.

Lemma rd_length : forall n m a, length (rd m a n) = n.
Proof. induction n as [|n IH]; intros m a; cbn [rd length]; [reflexivity|]. rewrite IH. reflexivity. Qed.

(* ------------------------------------------------------------------ *)
(* add_n / sub_n                                                        *)

Lemma add_n_mem_gen : forall n m rp up vp cy,
  asc_ok rp up n -> asc_ok rp vp n ->
  rd (fst (add_n_mem m rp up vp n cy)) rp n = fst (add_n_c (rd m up n) (rd m vp n) cy)
  /\ snd (add_n_mem m rp up vp n cy) = snd (add_n_c (rd m up n) (rd m vp n) cy)
  /\ forall a, outside rp n a -> fst (add_n_mem m rp up vp n cy) a = m a.
Proof.
  induction n as [|k IH]; intros m rp up vp cy Hu Hv.
  - cbn [add_n_mem rd add_n_c fst snd]. split; [reflexivity|]. split; reflexivity.
  - cbn [add_n_mem rd add_n_c].
    set (sl := wrap (m up + m vp)).
    set (rl := wrap (sl + cy)).
    set (cy' := Z.lor (b2z (sl <? m up)) (b2z (rl <? sl))).
    set (m' := upd m rp rl).
    unfold asc_ok in Hu, Hv.
    assert (Hu' : asc_ok (rp + 1) (up + 1) k) by (unfold asc_ok; lia).
    assert (Hv' : asc_ok (rp + 1) (vp + 1) k) by (unfold asc_ok; lia).
    destruct (IH m' (rp + 1) (up + 1) (vp + 1) cy' Hu' Hv') as (I1 & I2 & I3).
    assert (Eu : rd m' (up + 1) k = rd m (up + 1) k) by (apply rd_upd_outside; lia).
    assert (Ev : rd m' (vp + 1) k = rd m (vp + 1) k) by (apply rd_upd_outside; lia).
    rewrite Eu, Ev in I1, I2.
    destruct (add_n_c (rd m (up + 1) k) (rd m (vp + 1) k) cy') as [r c].
    cbn [fst snd] in *.
    split; [|split].
    + rewrite I1. f_equal. rewrite I3 by (unfold outside; lia). apply upd_same.
    + exact I2.
    + intros a Ha. unfold outside in Ha. rewrite I3 by (unfold outside; lia).
      apply upd_other. lia.
Qed.

Lemma add_n_mem_overlap : forall m rp up vp n,
  asc_ok rp up n -> asc_ok rp vp n ->
  rd (fst (add_n_mem m rp up vp n 0)) rp n = fst (add_n (rd m up n) (rd m vp n))
  /\ snd (add_n_mem m rp up vp n 0) = snd (add_n (rd m up n) (rd m vp n))
  /\ forall a, outside rp n a -> fst (add_n_mem m rp up vp n 0) a = m a.
Proof. intros m rp up vp n Hu Hv. unfold add_n. apply add_n_mem_gen; assumption. Qed.

Lemma sub_n_mem_gen : forall n m rp up vp cy,
  asc_ok rp up n -> asc_ok rp vp n ->
  rd (fst (sub_n_mem m rp up vp n cy)) rp n = fst (sub_n_c (rd m up n) (rd m vp n) cy)
  /\ snd (sub_n_mem m rp up vp n cy) = snd (sub_n_c (rd m up n) (rd m vp n) cy)
  /\ forall a, outside rp n a -> fst (sub_n_mem m rp up vp n cy) a = m a.
Proof.
  induction n as [|k IH]; intros m rp up vp cy Hu Hv.
  - cbn [sub_n_mem rd sub_n_c fst snd]. split; [reflexivity|]. split; reflexivity.
  - cbn [sub_n_mem rd sub_n_c].
    set (sl := wrap (m up - m vp)).
    set (rl := wrap (sl - cy)).
    set (cy' := Z.lor (b2z (m up <? sl)) (b2z (sl <? rl))).
    set (m' := upd m rp rl).
    unfold asc_ok in Hu, Hv.
    assert (Hu' : asc_ok (rp + 1) (up + 1) k) by (unfold asc_ok; lia).
    assert (Hv' : asc_ok (rp + 1) (vp + 1) k) by (unfold asc_ok; lia).
    destruct (IH m' (rp + 1) (up + 1) (vp + 1) cy' Hu' Hv') as (I1 & I2 & I3).
    assert (Eu : rd m' (up + 1) k = rd m (up + 1) k) by (apply rd_upd_outside; lia).
    assert (Ev : rd m' (vp + 1) k = rd m (vp + 1) k) by (apply rd_upd_outside; lia).
    rewrite Eu, Ev in I1, I2.
    destruct (sub_n_c (rd m (up + 1) k) (rd m (vp + 1) k) cy') as [r c].
    cbn [fst snd] in *.
    split; [|split].
    + rewrite I1. f_equal. rewrite I3 by (unfold outside; lia). apply upd_same.
    + exact I2.
    + intros a Ha. unfold outside in Ha. rewrite I3 by (unfold outside; lia).
      apply upd_other. lia.
Qed.

Lemma sub_n_mem_overlap : forall m rp up vp n,
  asc_ok rp up n -> asc_ok rp vp n ->
  rd (fst (sub_n_mem m rp up vp n 0)) rp n = fst (sub_n (rd m up n) (rd m vp n))
  /\ snd (sub_n_mem m rp up vp n 0) = snd (sub_n (rd m up n) (rd m vp n))
  /\ forall a, outside rp n a -> fst (sub_n_mem m rp up vp n 0) a = m a.
Proof. intros m rp up vp n Hu Hv. unfold sub_n. apply sub_n_mem_gen; assumption. Qed.

(* ------------------------------------------------------------------ *)
(* copies                                                               *)

Lemma copyi_mem_gen : forall n m rp up, asc_ok rp up n ->
  rd (copyi_mem m rp up n) rp n = rd m up n
  /\ forall a, outside rp n a -> copyi_mem m rp up n a = m a.
Proof.
  induction n as [|k IH]; intros m rp up Hu.
  - cbn [copyi_mem rd]. split; reflexivity.
  - cbn [copyi_mem rd].
    set (m' := upd m rp (m up)).
    unfold asc_ok in Hu.
    assert (Hu' : asc_ok (rp + 1) (up + 1) k) by (unfold asc_ok; lia).
    destruct (IH m' (rp + 1) (up + 1) Hu') as (I1 & I2).
    assert (Eu : rd m' (up + 1) k = rd m (up + 1) k) by (apply rd_upd_outside; lia).
    rewrite Eu in I1.
    split.
    + rewrite I1. f_equal. rewrite I2 by (unfold outside; lia). apply upd_same.
    + intros a Ha. unfold outside in Ha. rewrite I2 by (unfold outside; lia).
      apply upd_other. lia.
Qed.

Lemma copyi_mem_overlap : forall m rp up n, asc_ok rp up n ->
  rd (copyi_mem m rp up n) rp n = rd m up n
  /\ forall a, outside rp n a -> copyi_mem m rp up n a = m a.
Proof. intros m rp up n H. apply copyi_mem_gen. exact H. Qed.

Lemma copyd_mem_gen : forall n m rp up, desc_ok rp up n ->
  rd (copyd_mem m (rp + Z.of_nat n) (up + Z.of_nat n) n) rp n = rd m up n
  /\ forall a, outside rp n a -> copyd_mem m (rp + Z.of_nat n) (up + Z.of_nat n) n a = m a.
Proof.
  induction n as [|k IH]; intros m rp up Hu.
  - cbn [copyd_mem rd]. split; reflexivity.
  - cbn [copyd_mem].
    replace (rp + Z.of_nat (S k) - 1) with (rp + Z.of_nat k) by lia.
    replace (up + Z.of_nat (S k) - 1) with (up + Z.of_nat k) by lia.
    set (m' := upd m (rp + Z.of_nat k) (m (up + Z.of_nat k))).
    unfold desc_ok in Hu.
    assert (Hu' : desc_ok rp up k) by (unfold desc_ok; lia).
    destruct (IH m' rp up Hu') as (I1 & I2).
    assert (Eu : rd m' up k = rd m up k) by (apply rd_upd_outside; lia).
    rewrite Eu in I1.
    split.
    + rewrite !rd_snoc, I1. f_equal. f_equal.
      rewrite I2 by (unfold outside; lia). apply upd_same.
    + intros a Ha. unfold outside in Ha. rewrite I2 by (unfold outside; lia).
      apply upd_other. lia.
Qed.

Lemma copyd_mem_overlap : forall m rp up n, desc_ok rp up n ->
  rd (copyd_mem m (rp + Z.of_nat n) (up + Z.of_nat n) n) rp n = rd m up n
  /\ forall a, outside rp n a -> copyd_mem m (rp + Z.of_nat n) (up + Z.of_nat n) n a = m a.
Proof. intros m rp up n H. apply copyd_mem_gen. exact H. Qed.

(* ------------------------------------------------------------------ *)
(* lshift (descending loop)                                             *)

Lemma lshift_c_snoc : forall u x cnt lo,
  lshift_c (u ++ [x]) cnt lo =
  (fst (lshift_c u cnt lo) ++ [Z.lor (wrap (Z.shiftl x cnt)) (snd (lshift_c u cnt lo))],
   Z.shiftr x (64 - cnt)).
Proof.
  induction u as [|y u IH]; intros x cnt lo.
  - reflexivity.
  - cbn [app lshift_c]. rewrite IH.
    destruct (lshift_c u cnt (Z.shiftr y (64 - cnt))) as [r' out]. reflexivity.
Qed.

Lemma lshift_loop_spec : forall k m rp up cnt high,
  (up <= rp \/ rp + Z.of_nat k + 1 <= up) ->
  rd (lshift_loop m (rp + Z.of_nat k + 1) (up + Z.of_nat k) k cnt high) rp (S k)
    = fst (lshift_c (rd m up k) cnt 0) ++ [Z.lor high (snd (lshift_c (rd m up k) cnt 0))]
  /\ forall a, outside rp (S k) a ->
       lshift_loop m (rp + Z.of_nat k + 1) (up + Z.of_nat k) k cnt high a = m a.
Proof.
  induction k as [|k IH]; intros m rp up cnt high Hu.
  - cbn [lshift_loop rd lshift_c fst snd app].
    replace (rp + Z.of_nat 0 + 1 - 1) with rp by lia.
    rewrite Z.lor_0_r, upd_same. split; [reflexivity|].
    intros a Ha. unfold outside in Ha. apply upd_other. lia.
  - cbn [lshift_loop].
    replace (rp + Z.of_nat (S k) + 1 - 1) with (rp + Z.of_nat k + 1) by lia.
    replace (up + Z.of_nat (S k) - 1) with (up + Z.of_nat k) by lia.
    set (low := m (up + Z.of_nat k)).
    set (m' := upd m (rp + Z.of_nat k + 1) (Z.lor high (Z.shiftr low (64 - cnt)))).
    assert (Hu' : up <= rp \/ rp + Z.of_nat k + 1 <= up) by lia.
    destruct (IH m' rp up cnt (wrap (Z.shiftl low cnt)) Hu') as (I1 & I2).
    assert (Eu : rd m' up k = rd m up k) by (apply rd_upd_outside; lia).
    rewrite Eu in I1.
    split.
    + rewrite (rd_snoc (S k)), I1.
      rewrite (rd_snoc k m up). fold low. rewrite lshift_c_snoc. cbn [fst snd].
      f_equal. f_equal.
      rewrite I2 by (unfold outside; lia).
      replace (rp + Z.of_nat (S k)) with (rp + Z.of_nat k + 1) by lia.
      apply upd_same.
    + intros a Ha. unfold outside in Ha. rewrite I2 by (unfold outside; lia).
      apply upd_other. lia.
Qed.

Lemma lshift_mem_overlap : forall m rp up n cnt, desc_ok rp up n -> 1 <= cnt <= 63 ->
  rd (fst (lshift_mem m rp up n cnt)) rp n = fst (lshift (rd m up n) cnt)
  /\ snd (lshift_mem m rp up n cnt) = snd (lshift (rd m up n) cnt)
  /\ forall a, outside rp n a -> fst (lshift_mem m rp up n cnt) a = m a.
Proof.
  intros m rp up [|k] cnt Hu Hc.
  - cbn [lshift_mem rd fst snd]. unfold lshift. cbn [lshift_c fst snd].
    split; [reflexivity|]. split; reflexivity.
  - unfold lshift_mem, lshift. cbn [fst snd].
    replace (rp + Z.of_nat (S k)) with (rp + Z.of_nat k + 1) by lia.
    unfold desc_ok in Hu.
    assert (Hu' : up <= rp \/ rp + Z.of_nat k + 1 <= up) by lia.
    set (low := m (up + Z.of_nat k)).
    destruct (lshift_loop_spec k m rp up cnt (wrap (Z.shiftl low cnt)) Hu') as (L1 & L2).
    rewrite (rd_snoc k m up). fold low. rewrite lshift_c_snoc. cbn [fst snd].
    split; [exact L1|]. split; [reflexivity|exact L2].
Qed.

(* ------------------------------------------------------------------ *)
(* rshift (ascending loop)                                              *)

Lemma rshift_hi_cons x r cnt :
  rshift_hi (x :: r) cnt = Z.lor (Z.shiftr x cnt) (rshift_out r cnt) :: rshift_hi r cnt.
Proof. reflexivity. Qed.

Lemma rshift_loop_spec : forall k m rp up cnt low,
  (rp < up \/ up + Z.of_nat k <= rp) ->
  rd (rshift_loop m rp up k cnt low) rp (S k)
    = Z.lor low (rshift_out (rd m up k) cnt) :: rshift_hi (rd m up k) cnt
  /\ forall a, outside rp (S k) a -> rshift_loop m rp up k cnt low a = m a.
Proof.
  induction k as [|k IH]; intros m rp up cnt low Hu.
  - cbn [rshift_loop rd rshift_out rshift_hi].
    rewrite Z.lor_0_r, upd_same. split; [reflexivity|].
    intros a Ha. unfold outside in Ha. apply upd_other. lia.
  - cbn [rshift_loop].
    set (high := m up).
    set (m' := upd m rp (Z.lor low (wrap (Z.shiftl high (64 - cnt))))).
    assert (Hu' : rp + 1 < up + 1 \/ up + 1 + Z.of_nat k <= rp + 1) by lia.
    destruct (IH m' (rp + 1) (up + 1) cnt (Z.shiftr high cnt) Hu') as (I1 & I2).
    assert (Eu : rd m' (up + 1) k = rd m (up + 1) k) by (apply rd_upd_outside; lia).
    rewrite Eu in I1.
    split.
    + change (rd m up (S k)) with (high :: rd m (up + 1) k).
      rewrite rshift_hi_cons. cbn [rshift_out].
      set (R := rshift_loop m' (rp + 1) (up + 1) k cnt (Z.shiftr high cnt)) in *.
      change (rd R rp (S (S k))) with (R rp :: rd R (rp + 1) (S k)).
      rewrite I1. f_equal.
      rewrite I2 by (unfold outside; lia). apply upd_same.
    + intros a Ha. unfold outside in Ha. rewrite I2 by (unfold outside; lia).
      apply upd_other. lia.
Qed.

Lemma rshift_mem_overlap : forall m rp up n cnt, asc_ok rp up n -> 1 <= cnt <= 63 ->
  rd (fst (rshift_mem m rp up n cnt)) rp n = fst (rshift (rd m up n) cnt)
  /\ snd (rshift_mem m rp up n cnt) = snd (rshift (rd m up n) cnt)
  /\ forall a, outside rp n a -> fst (rshift_mem m rp up n cnt) a = m a.
Proof.
  intros m rp up [|k] cnt Hu Hc.
  - cbn [rshift_mem rd fst snd]. unfold rshift. cbn [rshift_hi fst snd].
    split; [reflexivity|]. split; reflexivity.
  - unfold rshift_mem, rshift. cbn [fst snd].
    unfold asc_ok in Hu.
    assert (Hu' : rp < up + 1 \/ up + 1 + Z.of_nat k <= rp) by lia.
    destruct (rshift_loop_spec k m rp (up + 1) cnt (Z.shiftr (m up) cnt) Hu') as (L1 & L2).
    change (rd m up (S k)) with (m up :: rd m (up + 1) k).
    rewrite rshift_hi_cons.
    split; [exact L1|]. split; [reflexivity|exact L2].
Qed.
