(* CombDefs.v — models behind C16: Fibonacci by the doubling scheme of mpn_fib2_ui starting from the
   regenerated table, Lucas numbers, factorial / double and multi factorial / primorial / binomial by
   their definitions, mpz_remove, trial division and the strong probable-prime (Miller-Rabin) round.
   Definitions only. *)
From Coq Require Import ZArith List Bool.
From Mpir Require Import Word DivDefs PowDefs.
Import ListNotations.
Local Open Scope Z_scope.

(* ---- Fibonacci ---- *)
Fixpoint fib_pair (n : nat) : Z * Z :=          (* (F n, F (n-1)) with F(-1) = 1 *)
  match n with O => (0, 1) | S k => let '(a, b) := fib_pair k in (a + b, a) end.
Definition fib (n : nat) : Z := fst (fib_pair n).

(* mpn_fib2_ui: [tab] is __gmp_fib_table (tab[i] = F[i-1]), [limit] FIB_TABLE_LIMIT.
   Start from the top bits of n that fit the table, then for every further bit:
   F[2k+1] = 4 F[k]^2 - F[k-1]^2 + 2 (-1)^k ;  F[2k-1] = F[k]^2 + F[k-1]^2 ;  F[2k] = F[2k+1] - F[2k-1] *)
Fixpoint fib2_steps (bits : list bool) (k_odd : bool) (f f1 : Z) : Z * Z :=
  match bits with
  | [] => (f, f1)
  | b :: r =>
      let f2k1 := 4 * f * f - f1 * f1 + (if k_odd then -2 else 2) in
      let f2km1 := f * f + f1 * f1 in
      let f2k := f2k1 - f2km1 in
      if b then fib2_steps r true f2k1 f2k else fib2_steps r false f2k f2km1
  end.
(* split n into the table start nfirst (n shifted right until <= limit) and the remaining low bits, msb first *)
Fixpoint fib_split (fuel : nat) (n limit : Z) (acc : list bool) : Z * list bool :=
  match fuel with
  | O => (n, acc)
  | S f => if n <=? limit then (n, acc) else fib_split f (n / 2) limit (Z.odd n :: acc)
  end.
Definition fib2_ui (tab : list Z) (limit n : Z) : Z * Z :=
  let '(nfirst, bits) := fib_split 70 n limit [] in
  let f := nth (Z.to_nat (nfirst + 1)) tab 0 in
  let f1 := nth (Z.to_nat nfirst) tab 0 in
  fib2_steps bits (Z.odd nfirst) f f1.
(* Lucas numbers: L[n] = F[n] + 2 F[n-1] *)
Definition lucnum2 (tab : list Z) (limit n : Z) : Z * Z :=
  let '(f, f1) := fib2_ui tab limit n in
  (f + 2 * f1, if n =? 0 then -1 else 2 * f - f1).

(* ---- factorials and binomials by definition ---- *)
Fixpoint prod_from (k : nat) (start step : Z) : Z :=   (* start * (start-step) * ... k factors *)
  match k with O => 1 | S j => start * prod_from j (start - step) step end.
Definition fac (n : Z) : Z := prod_from (Z.to_nat n) n 1.
(* n!^(m) = n (n-m) (n-2m) ... while positive *)
Definition mfac (n m : Z) : Z := if m <=? 0 then 1 else prod_from (Z.to_nat ((n + m - 1) / m)) n m.
Definition bin_uiui (n k : Z) : Z := if n <? k then 0 else prod_from (Z.to_nat k) n 1 / fac k.
(* mpz_bin_ui for any integer n: bin(-n, k) = (-1)^k bin(n+k-1, k) *)
Definition bin_ui (n k : Z) : Z :=
  if 0 <=? n then bin_uiui n k
  else (if Z.odd k then -1 else 1) * bin_uiui (- n + k - 1) k.
(* trial division primality for small numbers *)
Fixpoint no_divisor (fuel : nat) (n d : Z) : bool :=
  match fuel with
  | O => true
  | S f => if n <? d * d then true else if n mod d =? 0 then false else no_divisor f n (d + 1)
  end.
Definition is_prime_td (n : Z) : bool := (2 <=? n) && no_divisor (Z.to_nat (Z.sqrt n) + 1) n 2.
Definition primorial (n : Z) : Z :=
  fold_left (fun acc k => let p := Z.of_nat k in if is_prime_td p then acc * p else acc) (seq 2 (Z.to_nat n - 1)) 1.

(* mpz_remove (dest, src, f): (src with every factor f removed, multiplicity), f >= 2 *)
Fixpoint remove_loop (fuel : nat) (x f k : Z) : Z * Z :=
  match fuel with
  | O => (x, k)
  | S j => if (x =? 0) then (x, k) else if x mod f =? 0 then remove_loop j (x / f) f (k + 1) else (x, k)
  end.
Definition mpz_remove (src f : Z) : Z * Z := remove_loop (Z.to_nat (Z.log2 (Z.abs src)) + 1) src f 0.

(* ---- strong probable prime round to base a (mpz/millerrabin.c): n - 1 = 2^k q, q odd ---- *)
Fixpoint mr_squarings (j : nat) (y n : Z) : bool :=
  match j with
  | O => false
  | S i => let y2 := (y * y) mod n in
           if y2 =? n - 1 then true else if y2 =? 1 then false else mr_squarings i y2 n
  end.
Definition mr_round (n a : Z) : bool :=
  let k := ctz (n - 1) in
  let q := (n - 1) / 2 ^ k in
  let y := powm_bin (a mod n) q n in
  if (y =? 1) || (y =? n - 1) then true else mr_squarings (Z.to_nat k - 1) y n.
(* deterministic below 2^64 with the first twelve prime bases (Sorenson-Webster 2015): test oracle only *)
Definition mr_bases : list Z := [2; 3; 5; 7; 11; 13; 17; 19; 23; 29; 31; 37].
Definition is_prime64 (n : Z) : bool :=
  if n <? 2 then false
  else if existsb (fun p => n =? p) mr_bases then true
  else if existsb (fun p => n mod p =? 0) mr_bases then false
  else forallb (mr_round n) mr_bases.
(* first prime above n (n < 2^64 - ...): for the nextprime checks *)
Fixpoint next_prime_from (fuel : nat) (c : Z) : Z :=
  match fuel with O => c | S f => if is_prime64 c then c else next_prime_from f (c + 1) end.
Definition next_prime (n : Z) : Z := next_prime_from 2000 (Z.max 2 (n + 1)).
