(* PowmEvenProofs.v — the remaining paths of the as-coded mpz_powm wrapper of PowmWDefs.v:
   the e = 1 path (powm_e1) and the even-modulus path of powm_general (strip_low, rshift
   with the top-limb check, the powlo shortcuts, binvert / sub / mullow / mask / mul / add
   recombination), and the wrapper theorem for every modulus.  No axioms. *)
From Coq Require Import ZArith Znumtheory List Lia Bool.
From Mpir Require Import Word Limbs MpnBasicDefs MpnBasicProofs MpzDefs MpzProofs DivDefs GcdDefs GcdProofs
  PowDefs PowProofs PowmWDefs PowmWProofs.
Import ListNotations.
Local Open Scope Z_scope.

(* ------------------------------------------------------------------------------------ *)
(* (1) the e = 1 path                                                                   *)
(* ------------------------------------------------------------------------------------ *)

Lemma firstn_len_all (l : list Z) : firstn (Z.to_nat (len l)) l = l.
Proof. unfold len. rewrite Nat2Z.id. apply firstn_all. Qed.

Lemma value_mod_abs bv M (neg : bool) ab : 0 < M -> 0 <= ab ->
  bv = (if neg then - ab else ab) ->
  let r := ab mod M in
  (if neg && negb (r =? 0) then M - r else r) = bv mod M.
Proof.
  intros HM Hab Ebv r. unfold r. subst bv. destruct neg; cbn [andb].
  - destruct (Z.eqb_spec (ab mod M) 0) as [Ez|Nz]; cbn [negb].
    + rewrite Z.mod_opp_l_z by lia. exact Ez.
    + rewrite Z.mod_opp_l_nz by lia. reflexivity.
  - reflexivity.
Qed.

Lemma wf_value_sgn z : mpz_wf z -> value z = if sz z <? 0 then - eval (d z) else eval (d z).
Proof.
  intros Hz. pose proof (wf_value_abs z Hz) as Ea. pose proof (wf_value_neg z Hz) as En.
  rewrite En. destruct (Z.ltb_spec (value z) 0); lia.
Qed.

(* mpz/powm.c:117-151: the result is the canonical residue of b modulo |m|, normalised *)
Theorem powm_e1_spec : forall b m, mpz_wf b -> mpz_wf m -> sz m <> 0 ->
  exists z, powm_e1 b m = Ok z /\ value z = value b mod Z.abs (value m) /\ mpz_wf z.
Proof.
  intros b m Hb Hm Hms.
  pose proof (wf_value_abs m Hm) as EM. pose proof (wf_eval_pos m Hm Hms) as HM.
  pose proof (wf_d_nonempty m Hm Hms) as Hmne.
  pose proof (wf_value_sgn b Hb) as Evb.
  destruct Hm as (Hmsz & Hmw & Hmn). destruct Hb as (Hbsz & Hbw & Hbn).
  pose proof (eval_nonneg _ Hbw) as Hb0.
  rewrite EM. unfold powm_e1.
  assert (En : Z.to_nat (Z.abs (sz m)) = length (d m)).
  { rewrite Hmsz. unfold len. apply Nat2Z.id. }
  destruct (Z.leb_spec (Z.abs (sz m)) (Z.abs (sz b))) as [Hle|Hlt].
  - (* n <= bn: mpn_tdiv_qr, then the complement for b < 0 *)
    rewrite En.
    pose proof (Z.mod_pos_bound (eval (d b)) (eval (d m)) HM) as Hr.
    destruct (finish_value (d m) (eval (d b) mod eval (d m)) (sz b <? 0) Hmw Hr) as (z & Ez & Vz & Wz).
    cbv zeta in Ez. exists z. split; [exact Ez|]. split; [|exact Wz].
    rewrite Vz. apply value_mod_abs; [exact HM|exact Hb0|exact Evb].
  - (* bn < n, so |b| < |m| *)
    assert (Hsmall : eval (d b) < eval (d m)).
    { pose proof (eval_lt _ Hbw) as H1. pose proof (normalized_lower _ Hmw Hmn Hmne) as H2.
      assert (H3 : B ^ len (d b) <= B ^ (len (d m) - 1)).
      { apply Z.pow_le_mono_r; [exact B_pos|lia]. }
      lia. }
    destruct (Z.ltb_spec (sz b) 0) as [Hneg|Hpos].
    + rewrite ret_norm.
      destruct (sub_spec (d m) (d b) Hmw Hbw ltac:(unfold len in *; lia)) as (Es & Wr & Lr & Cs).
      pose proof (eval_nonneg _ Wr) as H0. pose proof (eval_lt _ Wr) as H1. unfold len in H1, Es.
      rewrite Lr in H1.
      assert (Ev : eval (fst (sub (d m) (d b))) = eval (d m) - eval (d b)).
      { destruct Cs as [C|C]; rewrite C in Es; nia. }
      destruct (mk_norm_spec false _ Wr) as [V W]. eexists. split; [reflexivity|].
      split; [|exact W]. rewrite V, Ev, Evb.
      assert (Hbpos : 0 < eval (d b)).
      { apply (wf_eval_pos b); [repeat split; assumption|lia]. }
      apply Z.mod_unique with (q := -1); lia.
    + exists (mkz (Z.abs (sz b)) (d b)). split.
      * unfold ret. rewrite Hbsz, firstn_len_all. reflexivity.
      * rewrite Hbsz. destruct (mkz_pos (d b) Hbw Hbn) as [V W]. split; [|exact W].
        rewrite V, Evb. symmetry. apply Z.mod_small. lia.
Qed.

(* the same from powm_pos, for an exponent of value 1 and any modulus <> 0 *)
Lemma powm_pos_e1_spec b e m :
  mpz_wf b -> mpz_wf e -> mpz_wf m -> sz m <> 0 -> eval (d e) = 1 ->
  exists z, powm_pos b e m = Ok z
    /\ value z = value b ^ eval (d e) mod Z.abs (value m) /\ mpz_wf z.
Proof.
  intros Hb He Hm Hms He1. rewrite He1, Z.pow_1_r.
  unfold powm_pos.
  destruct (Z.eqb_spec (Z.abs (sz b)) 0) as [Eb|Nb].
  - exists (mkz 0 []). split; [reflexivity|].
    assert (Ev : value b = 0) by (apply (wf_value_zero b Hb); lia).
    rewrite Ev, Zmod_0_l.
    split; [reflexivity|]. repeat split; [apply wf_nil|left; reflexivity].
  - assert (Ec : (Z.abs (sz e) =? 1) && (lat (d e) 0 =? 1) = true).
    { destruct He as (Hs & Hw & Hn).
      destruct (d e) as [|x r] eqn:Ede; [cbn [eval] in He1; lia|].
      apply wf_inv in Hw. destruct Hw as [Hx Hr]. unfold limb in Hx.
      pose proof (eval_nonneg r Hr) as Hr0. pose proof B_gt_1 as HB1.
      cbn [eval] in He1.
      assert (Er0 : eval r = 0) by nia. assert (Ex : x = 1) by nia.
      assert (Er : r = []).
      { destruct r as [|y r']; [reflexivity|exfalso].
        destruct Hn as [Hn|Hn]; [discriminate|]. apply Hn.
        change (last (x :: y :: r') 0) with (last (y :: r') 0). apply eval0_last0; assumption. }
      subst r x. rewrite Hs. reflexivity. }
    rewrite Ec. apply powm_e1_spec; assumption.
Qed.

(* ------------------------------------------------------------------------------------ *)
(* the wrapper around powm_pos: m = 0, e = 0, e < 0 (mpz_invert), e > 0                 *)
(* ------------------------------------------------------------------------------------ *)

Lemma mpz_powm_c_of_pos : forall b e m,
  mpz_wf b -> mpz_wf e -> mpz_wf m ->
  (sz m <> 0 -> sz e <> 0 -> forall b', mpz_wf b' ->
     exists z, powm_pos b' e m = Ok z
       /\ value z = value b' ^ eval (d e) mod Z.abs (value m) /\ mpz_wf z) ->
  match mpz_powm (value b) (value e) (value m) with
  | Ok v => exists z, mpz_powm_c b e m = Ok z /\ value z = v /\ mpz_wf z
  | DivByZero => mpz_powm_c b e m = DivByZero
  end.
Proof.
  intros b e m Hb He Hm Hpos.
  destruct (mpz_powm_spec (value b) (value e) (value m)) as (Hzero & Hnonneg & _).
  unfold mpz_powm_c.
  destruct (Z.eqb_spec (Z.abs (sz m)) 0) as [E0|N0].
  { assert (Ev : value m = 0) by (apply (wf_value_zero m Hm); lia).
    rewrite (Hzero Ev). reflexivity. }
  assert (Hms : sz m <> 0) by lia.
  assert (Hmv : value m <> 0) by (intros E; apply (wf_value_zero m Hm) in E; contradiction).
  pose proof (wf_value_abs e He) as Eabs.
  specialize (Hpos Hms).
  destruct (Z.leb_spec (sz e) 0) as [Hle|Hgt].
  - destruct (Z.eqb_spec (sz e) 0) as [Ez|Nz].
    + (* e = 0 *)
      assert (Ev : value e = 0) by (apply (wf_value_zero e He); exact Ez).
      rewrite Ev in *. rewrite (Hnonneg Hmv ltac:(lia)). rewrite Z.pow_0_r.
      rewrite (wf_value_abs m Hm).
      pose proof (wf_eval_pos m Hm Hms) as HMpos.
      destruct Hm as (Hs & Hw & Hn).
      destruct (d m) as [|x r] eqn:Edm; [cbn [eval] in HMpos; lia|].
      assert (Ex : lat (x :: r) 0 = x) by reflexivity. rewrite Ex in *.
      apply wf_inv in Hw. destruct Hw as [Hx Hr]. unfold limb in Hx.
      pose proof (eval_nonneg r Hr) as Hr0. pose proof B_gt_1 as HB1.
      destruct r as [|y r'].
      * rewrite Hs. unfold len. cbn [length Z.of_nat Pos.of_succ_nat]. cbn [eval] in HMpos |- *.
        rewrite Z.mul_0_r, Z.add_0_r in HMpos |- *.
        change (1 =? 1) with true. cbn [negb orb].
        destruct (Z.eqb_spec x 1) as [->|N1]; cbn [negb b2z].
        -- exists (mkz 0 []). split; [reflexivity|]. split; [reflexivity|].
           repeat split; [apply wf_nil|left; reflexivity].
        -- exists (mkz 1 [1]). split; [reflexivity|].
           split; [rewrite value_one; symmetry; apply Z.mod_small; lia|].
           repeat split; [apply wf_cons; [apply limb_1|apply wf_nil]|right; cbn; lia].
      * assert (Hrpos : 0 < eval (y :: r')).
        { destruct (Z.eq_dec (eval (y :: r')) 0) as [E|N]; [|lia]. exfalso.
          destruct Hn as [Hn|Hn]; [discriminate|]. apply Hn.
          change (last (x :: y :: r') 0) with (last (y :: r') 0). apply eval0_last0; assumption. }
        assert (Hn1 : (Z.abs (sz m) =? 1) = false).
        { rewrite Hs. unfold len. cbn [length]. destruct (Z.eqb_spec (Z.of_nat (S (S (length r')))) 1); [lia|reflexivity]. }
        rewrite Hn1. cbn [negb orb b2z].
        exists (mkz 1 [1]). split; [reflexivity|].
        split; [rewrite value_one; symmetry; apply Z.mod_small; cbn [eval] in Hrpos |- *; nia|].
        repeat split; [apply wf_cons; [apply limb_1|apply wf_nil]|right; cbn; lia].
    + (* e < 0: through the inverse *)
      assert (Hneg : value e < 0).
      { pose proof (wf_value_neg e He) as Hn. destruct (Z.ltb_spec (sz e) 0); [|lia].
        destruct (Z.ltb_spec (value e) 0); [assumption|discriminate]. }
      rewrite mpz_powm_unfold.
      destruct (Z.eqb_spec (value m) 0) as [|_]; [contradiction|].
      destruct (Z.eqb_spec (value e) 0) as [|_]; [lia|].
      destruct (Z.ltb_spec (value e) 0) as [_|]; [|lia].
      destruct (mpz_invert (value b) (value m)) as [v|]; [|reflexivity].
      rewrite powm_go_spec by lia.
      destruct (mpz_of_Z_spec v) as [Vv Wv].
      destruct (Hpos Nz (mpz_of_Z v) Wv) as (z & Ez & Vz & Wz).
      exists z. split; [exact Ez|]. split; [|exact Wz].
      rewrite Vz, Vv. f_equal. f_equal. lia.
  - (* e > 0 *)
    assert (Hposv : 0 < value e).
    { pose proof (wf_value_neg e He) as Hn. destruct (Z.ltb_spec (sz e) 0); [lia|].
      destruct (Z.ltb_spec (value e) 0); [discriminate|].
      assert (value e <> 0) by (intros E; apply (wf_value_zero e He) in E; lia). lia. }
    rewrite (Hnonneg Hmv ltac:(lia)).
    destruct (Hpos ltac:(lia) b Hb) as (z & Ez & Vz & Wz).
    exists z. split; [exact Ez|]. split; [|exact Wz].
    rewrite Vz. f_equal. f_equal. lia.
Qed.

(* MAIN THEOREM (1): |e| = 1 (e = 1 directly, e = -1 through mpz_invert), every modulus
   (zero, odd or even): the as-coded wrapper agrees with the value-level mpz_powm. *)
Theorem mpz_powm_c_e1_spec : forall b e m,
  mpz_wf b -> mpz_wf e -> mpz_wf m -> Z.abs (value e) = 1 ->
  match mpz_powm (value b) (value e) (value m) with
  | Ok v => exists z, mpz_powm_c b e m = Ok z /\ value z = v /\ mpz_wf z
  | DivByZero => mpz_powm_c b e m = DivByZero
  end.
Proof.
  intros b e m Hb He Hm He1.
  apply mpz_powm_c_of_pos; try assumption.
  intros Hms Hes b' Hb'. apply powm_pos_e1_spec; try assumption.
  rewrite <- (wf_value_abs e He). exact He1.
Qed.

(* ------------------------------------------------------------------------------------ *)
(* (2) the general path for every modulus: powm_general cut into its pieces             *)
(* ------------------------------------------------------------------------------------ *)

(* the pieces below are the text of powm_general (PowmWDefs.v), named; powm_general_unfold
   shows that powm_general is their composition *)
Definition recomb (r1 r2 modd n nodd ncnt cnt : Z) : Z :=
  let odd_inv := binvert_v modd ncnt in
  let r2 := (r2 - r1 mod B ^ (if ncnt <? nodd then ncnt else nodd)) mod B ^ ncnt in
  let xp := (odd_inv * r2) mod B ^ ncnt in
  let xp :=
    if negb (cnt =? 0) then
      xp mod B ^ (ncnt - 1)
      + B ^ (ncnt - 1) * Z.land (xp / B ^ (ncnt - 1)) (wrap (wrap (Z.shiftl 1 cnt) - 1))
    else xp in
  let yp := xp * modd in
  (yp mod B ^ n + r1) mod B ^ n.

Definition r2_sel (bp ep : list Z) (en ncnt cnt : Z) : Z :=
  let powlo := powm_bin (eval bp mod B ^ ncnt) (eval ep) (B ^ ncnt) in
  if lat bp 0 mod 2 =? 0 then
    if 1 <? en then 0
    else
      let t := (ncnt - b2z (negb (cnt =? 0))) * 64 + cnt in
      let bcnt := Z.land (Z.shiftr 4627 (Z.shiftl (Z.land (lat bp 0) 7) 1)) 3 in
      if t <=? wrap (lat ep 0 * bcnt) then 0 else powlo
  else powlo.

Definition pg_tail (b e m : mpz) (mp : list Z) (nodd ncnt cnt : Z) : res mpz :=
  let n := Z.abs (sz m) in
  let bp := d b in
  let en := sz e in
  let ep := d e in
  let rpl := mpn_powm_c bp ep mp in
  if (length rpl =? 0)%nat then Ok (mkz (-1) []) else
  let r1 := eval rpl in
  let modd := eval mp in
  let r :=
    if negb (ncnt =? 0) then recomb r1 (r2_sel bp ep en ncnt cnt) modd n nodd ncnt cnt
    else r1 in
  let rp := to_limbs (Z.to_nat n) r in
  let rn := norm_len rp in
  if negb (Z.land (lat ep 0) 1 =? 0) && (sz b <? 0) && negb (rn =? 0) then
    let rp := fst (sub (d m) (firstn (Z.to_nat rn) rp)) in
    ret (norm_len rp) rp
  else ret rn rp.

Definition split_mod (n : Z) (ml : list Z) : list Z * Z * Z * Z :=
  let '(mp, ncnt) := strip_low ml 0 in
  let nodd := n - ncnt in
    if lat mp 0 mod 2 =? 0 then
      let cnt := ctz (lat mp 0) in
      let newmp := fst (rshift mp cnt) in
      let nodd := nodd - b2z (lat newmp (nodd - 1) =? 0) in
      (firstn (Z.to_nat nodd) newmp, nodd, ncnt + 1, cnt)
    else (mp, nodd, ncnt, 0).

Lemma powm_general_unfold b e m :
  powm_general b e m =
  let '(mp, nodd, ncnt, cnt) := split_mod (Z.abs (sz m)) (d m) in pg_tail b e m mp nodd ncnt cnt.
Proof.
  unfold powm_general, split_mod, pg_tail, recomb, r2_sel.
  destruct (strip_low (d m) 0) as [mp ncnt].
  destruct (lat mp 0 mod 2 =? 0); cbv beta iota zeta; reflexivity.
Qed.

(* ------------------------------------------------------------------------------------ *)
(* arithmetic of the recombination                                                      *)
(* ------------------------------------------------------------------------------------ *)

Lemma crt_unique r X modd P : 0 < modd -> 0 < P -> Z.gcd P modd = 1 ->
  0 <= r < modd * P -> (modd | r - X) -> (P | r - X) -> r = X mod (modd * P).
Proof.
  intros Hm HP Hg Hr [a Ea] D2.
  rewrite Ea, Z.mul_comm in D2. apply Z.gauss in D2; [|exact Hg]. destruct D2 as [c Ec].
  apply Z.mod_unique with (q := - c); [left; exact Hr|]. subst a.
  replace X with (r - c * P * modd) by lia. ring.
Qed.

Lemma Bpow_gt1 k : 1 <= k -> 1 < B ^ k.
Proof.
  intros Hk. rewrite Bpow_2 by lia. change 1 with (2 ^ 0) at 1. apply Z.pow_lt_mono_r; lia.
Qed.

(* mpn_binvert *)
Lemma binvert_v_spec a k : Z.odd a = true -> 1 <= k -> (a * binvert_v a k) mod B ^ k = 1.
Proof.
  intros Oa Hk. unfold binvert_v. pose proof (Bpow_gt1 k Hk) as HQ.
  destruct (invert_spec (a mod B ^ k) (B ^ k) ltac:(rewrite Z.abs_eq; lia)) as (Hnone & Hsome).
  destruct (mpz_invert (a mod B ^ k) (B ^ k)) as [i|] eqn:Ei.
  - destruct (Hsome i eq_refl) as (_ & E). rewrite Z.abs_eq in E by lia.
    rewrite Zmult_mod_idemp_l in E. exact E.
  - exfalso. apply (proj1 Hnone eq_refl). rewrite Z.gcd_mod by lia.
    rewrite Bpow_2 by lia. apply gcd_pow2_odd; [lia|exact Oa].
Qed.

(* xp[ncnt - 1] &= (CNST_LIMB(1) << cnt) - 1 *)
Lemma mask_top xp k cnt : 1 <= k -> 1 <= cnt <= 63 ->
  xp mod B ^ (k - 1) + B ^ (k - 1) * Z.land (xp / B ^ (k - 1)) (wrap (wrap (Z.shiftl 1 cnt) - 1))
  = xp mod 2 ^ (64 * (k - 1) + cnt).
Proof.
  intros Hk Hc. rewrite ones_mask by lia. rewrite Z.land_ones by lia.
  rewrite Z.pow_add_r by lia. rewrite <- Bpow_2 by lia.
  pose proof (Bpow_pos_Z (k - 1) ltac:(lia)) as HP. pose proof (pow2_pos cnt ltac:(lia)) as Hp.
  rewrite Z.rem_mul_r by lia. reflexivity.
Qed.

Lemma recomb_alg y xp i r2' r2 r1' r1 modd X P Q c q1 q2 q3 q4 q5 q6 :
  y = xp - P * q1 -> xp = i * r2' - Q * q2 -> r2' = r2 - r1' - Q * q3 -> r1' = r1 + P * q4 ->
  modd * i = 1 + Q * q5 -> r2 = X + P * q6 -> Q = P * c ->
  y * modd + r1 - X = (q6 - q4 - c * q3 + c * q5 * r2' - c * q2 * modd - q1 * modd) * P.
Proof.
  intros E1 E2 E3 E4 E5 E6 E7.
  transitivity ((modd * i) * r2' - Q * q2 * modd - P * q1 * modd + r1 - X); [subst y xp; ring|].
  rewrite E5. replace ((1 + Q * q5) * r2') with (r2' + Q * q5 * r2') by ring.
  rewrite E3 at 1. subst r1' r2 Q. ring.
Qed.

(* the as-coded recombination returns the unique residue modulo modd * 2^t that is X modulo
   modd and r2 (= X) modulo 2^t *)
Lemma recomb_spec X modd r2 n nodd k cnt :
  0 < modd -> Z.odd modd = true -> 1 <= k -> 0 <= cnt <= 63 ->
  let t := (k - b2z (negb (cnt =? 0))) * 64 + cnt in
  modd * 2 ^ t <= B ^ n -> modd < B ^ nodd -> 0 <= nodd ->
  r2 mod 2 ^ t = X mod 2 ^ t ->
  recomb (X mod modd) r2 modd n nodd k cnt = X mod (modd * 2 ^ t).
Proof.
  intros Hm Om Hk Hc t HMn Hmn Hnodd Er2.
  pose proof (Z.mod_pos_bound X modd Hm) as Hr1. set (r1 := X mod modd) in *.
  assert (Ht : 1 <= t <= 64 * k).
  { unfold t. destruct (Z.eqb_spec cnt 0); cbn [negb b2z]; lia. }
  pose proof (pow2_pos t ltac:(lia)) as HP. set (P := 2 ^ t) in *.
  pose proof (Bpow_gt1 k Hk) as HQ. set (Q := B ^ k) in *.
  assert (EQ : Q = P * 2 ^ (64 * k - t)).
  { unfold Q, P. rewrite Bpow_2 by lia. rewrite <- Z.pow_add_r by lia. f_equal. lia. }
  assert (DQ : (P | Q)) by (exists (2 ^ (64 * k - t)); lia).
  pose proof (binvert_v_spec modd k Om Hk) as Ei. fold Q in Ei.
  unfold recomb. cbv zeta. fold Q. set (i := binvert_v modd k) in *.
  set (r1' := r1 mod B ^ (if k <? nodd then k else nodd)).
  assert (Er1' : r1' mod P = r1 mod P).
  { unfold r1'. destruct (Z.ltb_spec k nodd) as [Hlt|Hge].
    - fold Q. symmetry. apply Zmod_div_mod; [lia|lia|exact DQ].
    - rewrite (Z.mod_small r1) by lia. reflexivity. }
  set (r2' := (r2 - r1') mod Q).
  set (xp := (i * r2') mod Q).
  set (y := xp mod P).
  assert (Ey : (if negb (cnt =? 0)
                then xp mod B ^ (k - 1)
                     + B ^ (k - 1) * Z.land (xp / B ^ (k - 1)) (wrap (wrap (Z.shiftl 1 cnt) - 1))
                else xp) = y).
  { unfold y. destruct (Z.eqb_spec cnt 0) as [E0|N0]; cbn [negb].
    - assert (EPQ : P = Q).
      { unfold P, Q, t. rewrite E0. cbn [negb b2z]. rewrite Bpow_2 by lia. f_equal. lia. }
      rewrite EPQ. unfold xp. rewrite Zmod_mod. reflexivity.
    - rewrite mask_top by lia. unfold P, t.
      destruct (Z.eqb_spec cnt 0) as [|_]; [contradiction|]. cbn [negb b2z]. do 2 f_equal. lia. }
  rewrite Ey.
  pose proof (Z.mod_pos_bound xp P HP) as Hy. fold y in Hy.
  assert (Hr : 0 <= y * modd + r1 < modd * P) by nia.
  rewrite (Z.mod_small (y * modd)) by nia.
  rewrite Z.mod_small by lia.
  apply crt_unique; try assumption.
  - unfold P. apply gcd_pow2_odd; [lia|exact Om].
  - exists (y - X / modd). pose proof (Z.div_mod X modd ltac:(lia)) as E. fold r1 in E. lia.
  - pose proof (Z.div_mod xp P ltac:(lia)) as E1. fold y in E1.
    pose proof (Z.div_mod (i * r2') Q ltac:(lia)) as E2. fold xp in E2.
    pose proof (Z.div_mod (r2 - r1') Q ltac:(lia)) as E3. fold r2' in E3.
    pose proof (Z.div_mod r1' P ltac:(lia)) as E4a. pose proof (Z.div_mod r1 P ltac:(lia)) as E4b.
    pose proof (Z.div_mod (modd * i) Q ltac:(lia)) as E5. rewrite Ei in E5.
    pose proof (Z.div_mod r2 P ltac:(lia)) as E6a. pose proof (Z.div_mod X P ltac:(lia)) as E6b.
    eexists.
    apply (recomb_alg y xp i r2' r2 r1' r1 modd X P Q (2 ^ (64 * k - t))
             (xp / P) (i * r2' / Q) ((r2 - r1') / Q) (r1' / P - r1 / P) (modd * i / Q) (r2 / P - X / P));
      try lia.
Qed.

(* ------------------------------------------------------------------------------------ *)
(* the power-of-two part: mpn_powlo and the shortcuts that zero it                      *)
(* ------------------------------------------------------------------------------------ *)

Lemma pow_div_zero ab s e t : 0 <= s -> 0 <= e -> (2 ^ s | ab) -> 0 <= t <= s * e ->
  ab ^ e mod 2 ^ t = 0.
Proof.
  intros Hs He [c Ec] Ht. subst ab.
  rewrite Z.pow_mul_l, <- Z.pow_mul_r by lia.
  replace (s * e) with (t + (s * e - t)) by lia. rewrite Z.pow_add_r by lia.
  replace (c ^ e * (2 ^ t * 2 ^ (s * e - t))) with (c ^ e * 2 ^ (s * e - t) * 2 ^ t) by ring.
  apply Z_mod_mult.
Qed.

(* bcnt = (0x1213 >> ((bp[0] & 7) << 1)) & 0x3: min (3, number of low zero bits) *)
Lemma bcnt_spec v : 0 <= v < 8 ->
  let bc := Z.land (Z.shiftr 4627 (Z.shiftl v 1)) 3 in 0 <= bc <= 3 /\ v mod 2 ^ bc = 0.
Proof.
  intros Hv.
  assert (H : v = 0 \/ v = 1 \/ v = 2 \/ v = 3 \/ v = 4 \/ v = 5 \/ v = 6 \/ v = 7) by lia.
  repeat (destruct H as [H|H]; [subst v; vm_compute; split; [split; discriminate|reflexivity]|]).
  subst v; vm_compute; split; [split; discriminate|reflexivity].
Qed.

Lemma bcnt_divides bp : wf bp ->
  let bc := Z.land (Z.shiftr 4627 (Z.shiftl (Z.land (lat bp 0) 7) 1)) 3 in
  0 <= bc <= 3 /\ (2 ^ bc | eval bp).
Proof.
  intros Hbp. cbv zeta.
  change 7 with (Z.ones 3). rewrite Z.land_ones by lia. change (2 ^ 3) with 8.
  pose proof (Z.mod_pos_bound (lat bp 0) 8 ltac:(lia)) as Hv.
  destruct (bcnt_spec (lat bp 0 mod 8) Hv) as [Hbc Hz]. cbv zeta in Hbc, Hz.
  set (bc := Z.land (Z.shiftr 4627 (Z.shiftl (lat bp 0 mod 8) 1)) 3) in *.
  split; [exact Hbc|].
  pose proof (eval_div_step bp 0 Hbp ltac:(lia)) as E0.
  rewrite Z.pow_0_r, Z.div_1_r in E0. rewrite E0.
  pose proof (Z.div_mod (lat bp 0) 8 ltac:(lia)) as E1.
  apply Z.mod_divide in Hz; [|pose proof (pow2_pos bc ltac:(lia)); lia].
  assert (D8 : (2 ^ bc | 8)).
  { exists (2 ^ (3 - bc)). rewrite <- Z.pow_add_r by lia. replace (3 - bc + bc) with 3 by lia. reflexivity. }
  assert (DB : (2 ^ bc | B)).
  { apply Z.divide_trans with 8; [exact D8|]. exists (2 ^ 61). rewrite B_pow2. reflexivity. }
  rewrite E1. apply Z.divide_add_r; [apply Z.divide_add_r|].
  - apply Z.divide_mul_l. exact D8.
  - exact Hz.
  - apply Z.divide_mul_l. exact DB.
Qed.

Lemma r2_sel_spec bp ep k cnt : wf bp -> wf ep -> ep <> [] -> normalized ep ->
  1 <= k -> 0 <= cnt <= 63 ->
  let t := (k - b2z (negb (cnt =? 0))) * 64 + cnt in
  t < B ->
  r2_sel bp ep (len ep) k cnt mod 2 ^ t = eval bp ^ eval ep mod 2 ^ t.
Proof.
  intros Hbp Hep Hne Hnorm Hk Hc t HtB.
  assert (Ht : 1 <= t <= 64 * k).
  { unfold t. destruct (Z.eqb_spec cnt 0); cbn [negb b2z]; lia. }
  pose proof (pow2_pos t ltac:(lia)) as HP.
  pose proof (Bpow_gt1 k Hk) as HQ.
  assert (DQ : (2 ^ t | B ^ k)).
  { exists (2 ^ (64 * k - t)). rewrite Bpow_2 by lia. rewrite <- Z.pow_add_r by lia. f_equal. lia. }
  pose proof (eval_nonneg ep Hep) as He0.
  assert (Epow : powm_bin (eval bp mod B ^ k) (eval ep) (B ^ k) mod 2 ^ t = eval bp ^ eval ep mod 2 ^ t).
  { rewrite powm_bin_spec by lia. rewrite pow_mod_base by lia.
    symmetry. apply Zmod_div_mod; [lia|lia|exact DQ]. }
  unfold r2_sel. cbv zeta. fold t.
  destruct (Z.eqb_spec (lat bp 0 mod 2) 0) as [Ev|Nv]; [|exact Epow].
  assert (D2 : (2 ^ 1 | eval bp)).
  { change (2 ^ 1) with 2. apply Z.mod_divide; [lia|].
    rewrite Zmod_odd, odd_lat0 by exact Hbp. rewrite Zmod_odd in Ev.
    destruct (Z.odd (lat bp 0)); [discriminate|reflexivity]. }
  destruct (Z.ltb_spec 1 (len ep)) as [Hen|Hen].
  - (* en > 1: e >= B > t *)
    rewrite Zmod_0_l. symmetry. apply (pow_div_zero (eval bp) 1 (eval ep) t); try lia; [exact D2|].
    pose proof (normalized_lower ep Hep Hnorm Hne) as Hlow.
    assert (HB1 : B ^ 1 <= B ^ (len ep - 1)) by (apply Z.pow_le_mono_r; [exact B_pos|lia]).
    rewrite Z.pow_1_r in HB1. lia.
  - destruct (bcnt_divides bp Hbp) as [Hbc Dbc]. cbv zeta in Hbc, Dbc.
    set (bc := Z.land (Z.shiftr 4627 (Z.shiftl (Z.land (lat bp 0) 7) 1)) 3) in *.
    destruct (Z.leb_spec t (wrap (lat ep 0 * bc))) as [Hle|_]; [|exact Epow].
    rewrite Zmod_0_l. symmetry. apply (pow_div_zero (eval bp) bc (eval ep) t); try lia; [exact Dbc|].
    pose proof (eval_div_step ep 0 Hep ltac:(lia)) as E0.
    rewrite Z.pow_0_r, Z.div_1_r in E0.
    pose proof (lat_limb ep 0 Hep) as Hl0. unfold limb in Hl0.
    pose proof (eval_div_nonneg ep (B ^ (0 + 1)) Hep ltac:(pose proof (Bpow_pos_Z (0 + 1)); lia)) as Hd.
    pose proof B_pos as HB.
    assert (Hw : wrap (lat ep 0 * bc) <= lat ep 0 * bc).
    { unfold wrap. apply Z.mod_le; nia. }
    nia.
Qed.

(* ------------------------------------------------------------------------------------ *)
(* the split m = 2^t * modd: strip_low, rshift, the top-limb check                      *)
(* ------------------------------------------------------------------------------------ *)

Lemma strip_low_spec : forall mp c, wf mp ->
  let '(mp', c') := strip_low mp c in
  c <= c' /\ wf mp' /\ eval mp = B ^ (c' - c) * eval mp' /\ len mp = (c' - c) + len mp'
  /\ (mp' = [] \/ lat mp' 0 <> 0).
Proof.
  induction mp as [|x r IH]; intros c Hw.
  - cbn [strip_low]. rewrite Z.sub_diag, Z.pow_0_r. repeat split; try lia; [exact Hw|left; reflexivity].
  - cbn [strip_low]. apply wf_inv in Hw. destruct Hw as [Hx Hr].
    destruct (Z.eqb_spec x 0) as [E0|N0].
    + specialize (IH (c + 1) Hr). destruct (strip_low r (c + 1)) as [mp' c'].
      destruct IH as (H1 & H2 & H3 & H4 & H5).
      split; [lia|]. split; [exact H2|]. split; [|split; [|exact H5]].
      * cbn [eval]. rewrite H3, E0.
        replace (c' - c) with (Z.succ (c' - (c + 1))) by lia. rewrite Z.pow_succ_r by lia. ring.
      * unfold len in *. cbn [length]. lia.
    + rewrite Z.sub_diag, Z.pow_0_r. repeat split; try lia; [apply wf_cons; assumption|].
      right. exact N0.
Qed.

Lemma eval_firstn_drop_last : forall l, l <> [] -> last l 0 = 0 ->
  eval (firstn (length l - 1) l) = eval l.
Proof.
  induction l as [|a l IH]; intros Hne Hl; [congruence|].
  destruct l as [|c l'].
  - cbn [last] in Hl. subst a. reflexivity.
  - change (last (a :: c :: l') 0) with (last (c :: l') 0) in Hl.
    replace (length (a :: c :: l') - 1)%nat with (S (length (c :: l') - 1)) by (cbn [length]; lia).
    cbn [firstn eval]. rewrite IH by (discriminate || exact Hl). reflexivity.
Qed.

Lemma ctz_even_limb x : 0 < x < B -> x mod 2 = 0 ->
  1 <= ctz x <= 63 /\ exists q, x = 2 ^ ctz x * q /\ Z.odd q = true /\ 0 < q.
Proof.
  intros Hx Hev. destruct x as [|p|p]; try lia. cbn [ctz].
  destruct (gcd_ctz_pos_spec p) as (q & Eq & Oq & Pq).
  pose proof (gcd_ctz_pos_nonneg p) as Hnn.
  split; [|exists q; repeat split; assumption].
  split.
  - destruct (Z.eq_dec (ctz_pos p) 0) as [E0|]; [|lia]. exfalso.
    rewrite E0, Z.pow_0_r, Z.mul_1_l in Eq. rewrite Eq, Zmod_odd, Oq in Hev. discriminate.
  - destruct (Z.le_gt_cases 64 (ctz_pos p)) as [Hge|]; [|lia]. exfalso.
    assert (H64 : 2 ^ 64 <= 2 ^ ctz_pos p) by (apply Z.pow_le_mono_r; lia).
    rewrite <- B_pow2 in H64. nia.
Qed.

(* mpn_rshift by cnt = ctz (mp[0]) followed by nodd -= (newmp[nodd - 1] == 0) *)
Lemma shift_step mp : wf mp -> 0 < lat mp 0 -> lat mp 0 mod 2 = 0 ->
  let cnt := ctz (lat mp 0) in
  let newmp := fst (rshift mp cnt) in
  let nodd := len mp - b2z (lat newmp (len mp - 1) =? 0) in
  let mp' := firstn (Z.to_nat nodd) newmp in
  1 <= cnt <= 63 /\ wf mp' /\ len mp' = nodd /\ eval mp = eval mp' * 2 ^ cnt
  /\ Z.odd (lat mp' 0) = true.
Proof.
  intros Hw Hpos Hev. cbv zeta.
  pose proof (lat_limb mp 0 Hw) as Hl0. unfold limb in Hl0.
  destruct (ctz_even_limb (lat mp 0) ltac:(lia) Hev) as (Hc & q & Eq & Oq & Pq).
  set (cnt := ctz (lat mp 0)) in *.
  assert (Hne : mp <> []) by (intros E; rewrite E in Hpos; unfold lat in Hpos; cbn in Hpos; lia).
  destruct (rshift_spec mp cnt Hw Hne Hc) as (Es & Ws & Ls & _).
  set (newmp := fst (rshift mp cnt)) in *.
  pose proof (pow2_pos cnt ltac:(lia)) as Hpc. pose proof (pow2_pos (64 - cnt) ltac:(lia)) as Hpd.
  assert (EB : B = 2 ^ cnt * 2 ^ (64 - cnt)).
  { rewrite B_pow2, <- Z.pow_add_r by lia. f_equal. lia. }
  assert (Eout : snd (rshift mp cnt) = 0).
  { destruct mp as [|x r]; [congruence|]. unfold rshift. cbn [snd].
    change (lat (x :: r) 0) with x in Eq. rewrite Z.shiftl_mul_pow2 by lia. unfold wrap.
    rewrite Eq. replace (2 ^ cnt * q * 2 ^ (64 - cnt)) with (q * (2 ^ cnt * 2 ^ (64 - cnt))) by ring.
    rewrite <- EB. apply Z_mod_mult. }
  rewrite Eout, Z.add_0_r in Es.
  assert (Enew : eval mp = eval newmp * 2 ^ cnt).
  { rewrite EB in Es. nia. }
  assert (Lnew : len newmp = len mp) by (unfold len; rewrite Ls; reflexivity).
  assert (Hnne : newmp <> []) by (intros E; rewrite E in Ls; destruct mp; [congruence|discriminate]).
  assert (Hlen1 : 1 <= len mp) by (apply len_pos; exact Hne).
  set (nodd := len mp - b2z (lat newmp (len mp - 1) =? 0)).
  set (mp' := firstn (Z.to_nat nodd) newmp).
  assert (Hnodd : 0 <= nodd <= len mp).
  { unfold nodd. destruct (lat newmp (len mp - 1) =? 0); cbn [b2z]; lia. }
  assert (Emp' : eval mp' = eval newmp).
  { unfold mp', nodd. rewrite <- Lnew. rewrite lat_last by exact Hnne.
    destruct (Z.eqb_spec (last newmp 0) 0) as [E0|N0]; cbn [b2z].
    - replace (Z.to_nat (len newmp - 1)) with (length newmp - 1)%nat by (unfold len; lia).
      apply eval_firstn_drop_last; assumption.
    - rewrite Z.sub_0_r, firstn_len_all. reflexivity. }
  assert (Wmp' : wf mp') by (apply wf_firstn; exact Ws).
  split; [exact Hc|]. split; [exact Wmp'|]. split.
  { unfold mp', len. rewrite firstn_length_le by (unfold len in *; lia). lia. }
  split; [rewrite Emp'; exact Enew|].
  rewrite <- odd_lat0 by exact Wmp'. rewrite Emp'.
  pose proof (eval_div_step mp 0 Hw ltac:(lia)) as E0.
  rewrite Z.pow_0_r, Z.div_1_r in E0.
  assert (Eq2 : eval newmp = q + 2 * (2 ^ (63 - cnt) * (eval mp / B ^ (0 + 1)))).
  { assert (E63 : 2 ^ (64 - cnt) = 2 * 2 ^ (63 - cnt)).
    { rewrite <- Z.pow_succ_r by lia. f_equal. lia. }
    set (R := eval mp / B ^ (0 + 1)) in *.
    rewrite Z.mul_assoc, <- E63.
    apply (Z.mul_reg_l _ _ (2 ^ cnt)); [lia|].
    rewrite Enew, Eq in E0. rewrite EB in E0. lia. }
  rewrite Eq2, Z.odd_add_mul_2. exact Oq.
Qed.

(* the outcome of the split, as powm_general computes it from the limbs of m *)
Lemma split_mod_spec ml : wf ml -> ml <> [] -> normalized ml ->
  let '(mp, nodd, ncnt, cnt) := split_mod (len ml) ml in
  wf mp /\ Z.odd (lat mp 0) = true /\ nodd = len mp /\ 0 <= ncnt /\ 0 <= cnt <= 63
  /\ (cnt <> 0 -> 1 <= ncnt)
  /\ let t := (ncnt - b2z (negb (cnt =? 0))) * 64 + cnt in
     eval ml = eval mp * 2 ^ t /\ 0 <= t < 64 * len ml /\ (ncnt = 0 -> t = 0).
Proof.
  intros Hw Hne Hn.
  assert (HM : 0 < eval ml).
  { pose proof (normalized_lower ml Hw Hn Hne) as Hlow.
    pose proof (Bpow_pos_Z (len ml - 1) ltac:(pose proof (len_pos ml Hne); lia)). lia. }
  unfold split_mod.
  pose proof (strip_low_spec ml 0 Hw) as Hs.
  destruct (strip_low ml 0) as [mp ncnt]. destruct Hs as (H1 & H2 & H3 & H4 & H5).
  rewrite Z.sub_0_r in H3, H4.
  pose proof (Bpow_pos_Z ncnt H1) as HPn.
  assert (Hmpne : mp <> []) by (intros E; rewrite E in H3; cbn [eval] in H3; lia).
  destruct H5 as [H5|H5]; [contradiction|].
  pose proof (lat_limb mp 0 H2) as Hl0. unfold limb in Hl0.
  pose proof (len_pos mp Hmpne) as Hlmp.
  destruct (Z.eqb_spec (lat mp 0 mod 2) 0) as [Ev|Nv].
  - destruct (shift_step mp H2 ltac:(lia) Ev) as (Hc & Wp & Lp & Ep & Op). cbv zeta in Wp, Lp, Ep, Op.
    replace (len ml - ncnt) with (len mp) by lia.
    set (cnt := ctz (lat mp 0)) in *.
    set (nodd := len mp - b2z (lat (fst (rshift mp cnt)) (len mp - 1) =? 0)) in *.
    set (mp' := firstn (Z.to_nat nodd) (fst (rshift mp cnt))) in *.
    split; [exact Wp|]. split; [exact Op|]. split; [symmetry; exact Lp|].
    split; [lia|]. split; [lia|]. split; [lia|]. cbv zeta.
    destruct (Z.eqb_spec cnt 0) as [|_]; [lia|]. cbn [negb b2z].
    replace ((ncnt + 1 - 1) * 64 + cnt) with (64 * ncnt + cnt) by lia.
    split; [|lia].
    rewrite Z.pow_add_r by lia. rewrite <- Bpow_2 by lia. rewrite H3, Ep. ring.
  - assert (Op : Z.odd (lat mp 0) = true).
    { rewrite Zmod_odd in Nv. destruct (Z.odd (lat mp 0)); [reflexivity|congruence]. }
    split; [exact H2|]. split; [exact Op|]. split; [lia|].
    split; [lia|]. split; [lia|]. split; [lia|]. cbv zeta. cbn [negb b2z Z.eqb].
    rewrite Z.sub_0_r, Z.add_0_r.
    split; [|lia].
    replace (ncnt * 64) with (64 * ncnt) by lia. rewrite <- Bpow_2 by lia. rewrite H3. ring.
Qed.

(* ------------------------------------------------------------------------------------ *)
(* powm_general for every modulus                                                       *)
(* ------------------------------------------------------------------------------------ *)

Lemma pg_tail_spec b el m mp nodd ncnt cnt :
  mpz_wf b -> wf el -> el <> [] -> normalized el -> 64 * len el < B ->
  mpz_wf m -> sz m <> 0 -> 64 * len (d m) < B ->
  wf mp -> Z.odd (lat mp 0) = true -> nodd = len mp -> 0 <= ncnt -> 0 <= cnt <= 63 ->
  (cnt <> 0 -> 1 <= ncnt) ->
  let t := (ncnt - b2z (negb (cnt =? 0))) * 64 + cnt in
  eval (d m) = eval mp * 2 ^ t -> 0 <= t < 64 * len (d m) -> (ncnt = 0 -> t = 0) ->
  exists z, pg_tail b (mkz (len el) el) m mp nodd ncnt cnt = Ok z
    /\ value z = value b ^ eval el mod Z.abs (value m) /\ mpz_wf z.
Proof.
  intros Hb Hel Hne Hnorm Hsz Hm Hms HszM Hmp Hodd Enodd Hncnt Hcnt Hcn t EM Ht Ht0.
  pose proof (wf_value_abs m Hm) as EMabs. destruct Hm as (Hmsz & Hmw & Hmn).
  pose proof Hb as (_ & Hbw & _).
  assert (Htop : lat el (len el - 1) <> 0).
  { rewrite lat_last by exact Hne. destruct Hnorm as [Hn|Hn]; [contradiction|exact Hn]. }
  unfold pg_tail. cbn [sz d].
  rewrite mpn_powm_c_spec by assumption.
  rewrite to_limbs_length.
  assert (Hmpne : mp <> []) by (intros E; rewrite E in Hodd; discriminate Hodd).
  destruct (Nat.eqb_spec (length mp) 0) as [E0|_].
  { destruct mp; [congruence|discriminate E0]. }
  assert (Hmodd : 0 < eval mp).
  { pose proof (eval_nonneg _ Hmp) as Hnn.
    assert (Ho : Z.odd (eval mp) = true) by (rewrite odd_lat0 by exact Hmp; exact Hodd).
    destruct (Z.eq_dec (eval mp) 0) as [E|N]; [rewrite E in Ho; discriminate|lia]. }
  assert (Omodd : Z.odd (eval mp) = true) by (rewrite odd_lat0 by exact Hmp; exact Hodd).
  pose proof (eval_lt _ Hmp) as Hmplt.
  set (X := eval (d b) ^ eval el).
  pose proof (Z.mod_pos_bound X (eval mp) Hmodd) as Hr1.
  rewrite to_limbs_eval_small by (unfold len in Hmplt; lia).
  set (r := if negb (ncnt =? 0)
            then recomb (X mod eval mp) (r2_sel (d b) el (len el) ncnt cnt) (eval mp) (Z.abs (sz m)) nodd ncnt cnt
            else X mod eval mp).
  assert (Er : r = X mod eval (d m)).
  { unfold r. destruct (Z.eqb_spec ncnt 0) as [E0|N0]; cbn [negb].
    - rewrite EM, (Ht0 E0), Z.pow_0_r, Z.mul_1_r. reflexivity.
    - pose proof (r2_sel_spec (d b) el ncnt cnt Hbw Hel Hne Hnorm ltac:(lia) Hcnt) as E2.
      cbv zeta in E2. fold t in E2. specialize (E2 ltac:(lia)). fold X in E2.
      pose proof (recomb_spec X (eval mp) (r2_sel (d b) el (len el) ncnt cnt) (Z.abs (sz m)) nodd ncnt cnt
                    Hmodd Omodd ltac:(lia) Hcnt) as E3.
      cbv zeta in E3. fold t in E3.
      rewrite E3; [rewrite <- EM; reflexivity| | | |exact E2].
      + rewrite <- EM, Hmsz. pose proof (eval_lt _ Hmw). lia.
      + rewrite Enodd. exact Hmplt.
      + rewrite Enodd. apply len_nonneg. }
  clearbody r. subst r.
  assert (HM : 0 < eval (d m)).
  { rewrite EM. pose proof (pow2_pos t ltac:(lia)). nia. }
  pose proof (Z.mod_pos_bound X (eval (d m)) HM) as Hres.
  assert (En : Z.to_nat (Z.abs (sz m)) = length (d m)).
  { rewrite Hmsz. unfold len. apply Nat2Z.id. }
  rewrite En.
  rewrite odd_land1 by exact Hel.
  destruct (finish_value (d m) (X mod eval (d m))
              (Z.odd (eval el) && (sz b <? 0)) Hmw Hres) as (z & Ez & Vz & Wz).
  cbv zeta in Ez. exists z. split; [exact Ez|]. split; [|exact Wz].
  rewrite Vz. rewrite (wf_value_neg b) by exact Hb.
  unfold X. rewrite <- (wf_value_abs b) by exact Hb.
  rewrite EMabs. apply neg_fix. exact HM.
Qed.

(* the general case for every non-zero modulus: mpn_powm on the odd part, mpn_powlo (or its
   shortcuts) on the power of two, the recombination, the sign of the base *)
Theorem powm_general_spec : forall b el m,
  mpz_wf b -> wf el -> el <> [] -> normalized el -> 64 * len el < B ->
  mpz_wf m -> sz m <> 0 -> 64 * len (d m) < B ->
  exists z, powm_general b (mkz (len el) el) m = Ok z
    /\ value z = value b ^ eval el mod Z.abs (value m) /\ mpz_wf z.
Proof.
  intros b el m Hb Hel Hne Hnorm Hsz Hm Hms HszM.
  rewrite powm_general_unfold.
  pose proof (wf_d_nonempty m Hm Hms) as Hmne.
  pose proof Hm as (Hmsz & Hmw & Hmn).
  pose proof (split_mod_spec (d m) Hmw Hmne Hmn) as Hs. rewrite Hmsz.
  destruct (split_mod (len (d m)) (d m)) as [[[mp nodd] ncnt] cnt].
  destruct Hs as (H1 & H2 & H3 & H4 & H5 & H6 & H7). cbv zeta in H7. destruct H7 as (H7 & H8 & H9).
  apply pg_tail_spec; assumption.
Qed.

Lemma powm_pos_spec b e m :
  mpz_wf b -> mpz_wf e -> sz e <> 0 -> 64 * len (d e) < B ->
  mpz_wf m -> sz m <> 0 -> 64 * len (d m) < B ->
  exists z, powm_pos b e m = Ok z
    /\ value z = value b ^ eval (d e) mod Z.abs (value m) /\ mpz_wf z.
Proof.
  intros Hb He Hes Hsz Hm Hms HszM.
  destruct (Z.eq_dec (eval (d e)) 1) as [E1|He1].
  { apply powm_pos_e1_spec; assumption. }
  pose proof (wf_eval_pos e He Hes) as Hepos.
  pose proof (wf_d_nonempty e He Hes) as Hene.
  unfold powm_pos.
  destruct (Z.eqb_spec (Z.abs (sz b)) 0) as [Eb|Nb].
  - exists (mkz 0 []). split; [reflexivity|].
    assert (Ev : value b = 0) by (apply (wf_value_zero b Hb); lia).
    rewrite Ev, Z.pow_0_l by lia. rewrite Zmod_0_l.
    split; [reflexivity|]. repeat split; [apply wf_nil|left; reflexivity].
  - assert (Ec : (Z.abs (sz e) =? 1) && (lat (d e) 0 =? 1) = false).
    { destruct (Z.eqb_spec (Z.abs (sz e)) 1) as [E1|]; [|reflexivity].
      destruct (Z.eqb_spec (lat (d e) 0) 1) as [E2|]; [|reflexivity]. exfalso.
      destruct He as (Hs & _ & _). rewrite E1 in Hs. unfold len in Hs.
      destruct (d e) as [|x [|y r]]; cbn [length] in Hs; try lia.
      apply He1. unfold lat in E2. cbn in E2. rewrite E2. cbn [eval]. lia. }
    rewrite Ec.
    destruct He as (Hs & Hw & Hn). rewrite Hs.
    apply powm_general_spec; assumption.
Qed.

(* MAIN THEOREM (2): the as-coded mpz_powm wrapper agrees with the value-level mpz_powm of
   PowDefs.v for every base, every exponent (negative ones through mpz_invert, |e| = 1
   included) and every modulus: zero (DivByZero), odd, even (m = 2^t * modd split and
   recombined).  The two size hypotheses say that bit counts of e and m fit a limb
   (SIZ is an int in C, so 64 * size < 2^37). *)
Theorem mpz_powm_c_spec : forall b e m,
  mpz_wf b -> mpz_wf e -> mpz_wf m -> 64 * len (d e) < B -> 64 * len (d m) < B ->
  match mpz_powm (value b) (value e) (value m) with
  | Ok v => exists z, mpz_powm_c b e m = Ok z /\ value z = v /\ mpz_wf z
  | DivByZero => mpz_powm_c b e m = DivByZero
  end.
Proof.
  intros b e m Hb He Hm Hsz HszM.
  apply mpz_powm_c_of_pos; try assumption.
  intros Hms Hes b' Hb'. apply powm_pos_spec; assumption.
Qed.

(* the recombination written with crt_even of PowDefs.v *)
Corollary recomb_crt_even X modd r2 n nodd k cnt :
  0 < modd -> Z.odd modd = true -> 1 <= k -> 0 <= cnt <= 63 ->
  let t := (k - b2z (negb (cnt =? 0))) * 64 + cnt in
  modd * 2 ^ t <= B ^ n -> modd < B ^ nodd -> 0 <= nodd ->
  r2 mod 2 ^ t = X mod 2 ^ t ->
  recomb (X mod modd) r2 modd n nodd k cnt = crt_even (X mod modd) (X mod 2 ^ t) modd t.
Proof.
  intros Hm Om Hk Hc t HMn Hmn Hnodd Er2.
  assert (Ht : 1 <= t) by (unfold t; destruct (Z.eqb_spec cnt 0); cbn [negb b2z]; lia).
  rewrite crt_even_spec by assumption.
  apply recomb_spec; assumption.
Qed.

(* evaluated instances: even moduli with a zero low limb and a shift, |e| = 1 *)
Example mpz_powm_c_spec_instances :
  forallb (fun '(b, e, m) =>
    match mpz_powm_c b e m, mpz_powm (value b) (value e) (value m) with
    | Ok z, Ok v => (value z =? v) && (Z.abs (sz z) =? len (d z))
    | DivByZero, DivByZero => true
    | _, _ => false
    end)
  [ (mkz (-2) [5; 7], mkz 2 [3; 1], mkz 2 [0; 80]);
    (mkz 1 [6], mkz 1 [22], mkz 2 [0; 3]);
    (mkz 1 [6], mkz 1 [70], mkz 2 [0; 48]);
    (mkz 1 [7], mkz (-1) [3], mkz 2 [0; 80]);
    (mkz (-1) [12], mkz 1 [1], mkz 1 [40]);
    (mkz 1 [2], mkz (-1) [1], mkz 1 [40]);
    (mkz 1 [3], mkz (-1) [1], mkz 0 []) ] = true.
Proof. vm_compute. reflexivity. Qed.

Goal True.
  idtac "powm_e1_spec:". Print Assumptions powm_e1_spec.
  idtac "mpz_powm_c_e1_spec:". Print Assumptions mpz_powm_c_e1_spec.
  idtac "recomb_spec:". Print Assumptions recomb_spec.
  idtac "recomb_crt_even:". Print Assumptions recomb_crt_even.
  idtac "powm_general_spec:". Print Assumptions powm_general_spec.
  idtac "mpz_powm_c_spec:". Print Assumptions mpz_powm_c_spec.
  exact I.
Qed.
