(* DoscanProofs.v — proofs about the as-coded model of scanf/doscan.c (DoscanDefs.v):
   (b) the field width theorem for gmpscan, (c) the count semantics of __gmp_doscan,
   (a) the round trip with the printing model printf_Z / printf_Q of PrintfDefs.v. *)
From Coq Require Import ZArith List Lia Bool.
From Mpir Require Import Word RadixDefs RadixProofs PrintfDefs PrintfProofs DoscanDefs.
From MpirGen Require Import Gen_Consts.
Import ListNotations.
Local Open Scope Z_scope.

Notation tab := digit_value_tab.

(* ------------------------------------------------------------------------------------------ *)
(* checks over a finite range of byte values                                                    *)
(* ------------------------------------------------------------------------------------------ *)
Lemma range_check (f : Z -> bool) (lo : Z) (n : nat) :
  forallb f (map (fun i => lo + Z.of_nat i) (seq 0 n)) = true ->
  forall c, lo <= c < lo + Z.of_nat n -> f c = true.
Proof.
  intros H c Hc. rewrite forallb_forall in H. apply H.
  apply in_map_iff. exists (Z.to_nat (c - lo)). split; [lia|].
  apply in_seq. lia.
Qed.

(* the value of a digit character, written out *)
Definition dval (c : Z) : Z :=
  if is_digit c then c - 48 else if (97 <=? c) && (c <=? 102) then c - 87 else c - 55.

Definition base_ok (b : Z) : Prop := b = 8 \/ b = 10 \/ b = 16.

Lemma digit_ok_range b c : digit_ok b c = true -> 48 <= c < 48 + Z.of_nat 55.
Proof.
  unfold digit_ok, isxdigit, is_digit. intros H.
  destruct (b =? 16); rewrite ?andb_true_iff, ?orb_true_iff, ?Z.leb_le in H; lia.
Qed.

Definition digit_facts (b c : Z) : bool :=
  implb (digit_ok b c)
    (negb (c =? 0) && negb (isspace c) && (dv tab 0 c =? dval c) && (0 <=? dval c) && (dval c <? b)
     && negb (c =? 45) && negb (c =? 43) && negb (c =? -1) && negb (c =? 47)
     && Bool.eqb (c =? 48) (dval c =? 0)).

Lemma digit_facts_ok b c : base_ok b -> digit_ok b c = true ->
  c <> 0 /\ isspace c = false /\ dv tab 0 c = dval c /\ 0 <= dval c < b /\ c <> 45 /\ c <> 43 /\ c <> -1
  /\ c <> 47 /\ (c = 48 <-> dval c = 0).
Proof.
  intros Hb Hd. pose proof (digit_ok_range b c Hd) as Hr.
  assert (E : digit_facts b c = true).
  { destruct Hb as [-> | [-> | ->]];
      apply (range_check (digit_facts _) 48 55); try assumption; vm_compute; reflexivity. }
  unfold digit_facts in E. rewrite Hd in E. cbn [implb] in E.
  repeat (apply andb_prop in E; destruct E as [E ?]).
  repeat match goal with H : negb _ = true |- _ => apply negb_true_iff in H end.
  match goal with H : Bool.eqb _ _ = true |- _ => apply eqb_prop in H; rename H into Hq end.
  assert (Hiff : c = 48 <-> dval c = 0).
  { destruct (Z.eqb_spec c 48), (Z.eqb_spec (dval c) 0); try discriminate; tauto. }
  repeat split; try lia; try assumption; apply Hiff; assumption.
Qed.

(* ------------------------------------------------------------------------------------------ *)
(* mpz_set_str on the strings gmpscan stores                                                    *)
(* ------------------------------------------------------------------------------------------ *)
Definition sgn (neg : bool) (v : Z) : Z := if neg then - v else v.
Definition okd (b : Z) (ds : list Z) : Prop := Forall (fun c => digit_ok b c = true) ds.

Lemma collect_valid b ds : base_ok b -> okd b ds -> collect tab 0 b (ds ++ [0]) = Some (map dval ds).
Proof.
  intros Hb. induction ds as [|c r IH]; intros F.
  - reflexivity.
  - inversion F as [|c' r' Hc Hr]; subst c' r'.
    destruct (digit_facts_ok b c Hb Hc) as (H0 & Hsp & Hv & Hrange & _).
    cbn [app collect map].
    destruct (Z.eqb_spec c 0) as [|_]; [contradiction|].
    rewrite Hsp, Hv. destruct (Z.leb_spec b (dval c)) as [|_]; [lia|].
    rewrite (IH Hr). reflexivity.
Qed.

Definition tailv (b : Z) (neg : bool) (s3 : list Z) : option Z :=
  let s4 := skip_zeros_space s3 in
  if hd0 s4 =? 0 then Some 0
  else match collect tab 0 b s4 with
       | None => None
       | Some ds => Some (if neg then - horner b ds else horner b ds)
       end.

Lemma tailv_digits b neg ds : base_ok b -> okd b ds ->
  tailv b neg (ds ++ [0]) = Some (sgn neg (horner b (map dval ds))).
Proof.
  intros Hb. induction ds as [|c r IH]; intros F.
  - destruct neg; reflexivity.
  - inversion F as [|c' r' Hc Hr]; subst c' r'.
    destruct (digit_facts_ok b c Hb Hc) as (H0 & Hsp & Hv & Hrange & _ & _ & _ & _ & H48).
    cbn [map]. rewrite horner_cons.
    destruct (Z.eq_dec c 48) as [E|NE].
    + assert (Ez : dval c = 0) by (apply H48; exact E). rewrite Ez.
      replace (0 * b ^ Z.of_nat (length (map dval r)) + horner b (map dval r)) with (horner b (map dval r)) by ring.
      rewrite <- (IH Hr). subst c. unfold tailv. cbn [app skip_zeros_space].
      change (48 =? 48) with true. cbn [orb]. reflexivity.
    + unfold tailv. cbn [app skip_zeros_space].
      destruct (Z.eqb_spec c 48) as [|_]; [contradiction|]. rewrite Hsp. cbn [orb hd0].
      destruct (Z.eqb_spec c 0) as [|_]; [contradiction|].
      change (c :: r ++ [0]) with ((c :: r) ++ [0]). rewrite (collect_valid b (c :: r) Hb F).
      cbn [map]. rewrite horner_cons. unfold sgn. reflexivity.
Qed.

Lemma set_str_b s b : base_ok b ->
  set_str tab s b =
  let s1 := skip_space s in let neg := hd0 s1 =? 45 in let s2 := if neg then tl0 s1 else s1 in
  if b <=? dv tab 0 (hd0 s2) then None else tailv b neg s2.
Proof.
  intros Hb. rewrite set_str_unfold by (unfold base_ok in Hb; lia).
  replace (36 <? b) with false by (unfold base_ok in Hb; symmetry; apply Z.ltb_ge; lia).
  reflexivity.
Qed.

Lemma set_str_0 s :
  set_str tab s 0 =
  let s1 := skip_space s in let neg := hd0 s1 =? 45 in let s2 := if neg then tl0 s1 else s1 in
  let c := hd0 s2 in
  if 10 <=? dv tab 0 c then None
  else if c =? 48 then
         let c2 := hd0 (tl0 s2) in
         if (c2 =? 120) || (c2 =? 88) then tailv 16 neg (tl0 (tl0 s2))
         else if (c2 =? 98) || (c2 =? 66) then tailv 2 neg (tl0 (tl0 s2))
         else tailv 8 neg (tl0 s2)
       else tailv 10 neg s2.
Proof.
  unfold set_str, tailv. change (62 <? 0) with false. change (0 =? 0) with true. change (36 <? 0) with false.
  cbv iota zeta.
  destruct (10 <=? _); [reflexivity|].
  destruct (_ =? 48); [|reflexivity].
  destruct (_ || _); [reflexivity|]. destruct (_ || _); reflexivity.
Qed.

(* the shapes of a number as gmpscan reads it: pbase is the base of the conversion (0 for i),
   pre the base indicator, b the base of the digits ds *)
Definition prefix_ok (pbase : Z) (pre : list Z) (b : Z) (ds : list Z) : Prop :=
  (base_ok pbase /\ pre = [] /\ b = pbase /\ ds <> [])
  \/ (pbase = 0 /\ pre = [] /\ b = 10 /\ ds <> [] /\ hd0 ds <> 48)
  \/ (pbase = 0 /\ pre = [48] /\ b = 8)
  \/ (pbase = 0 /\ (pre = [48; 120] \/ pre = [48; 88]) /\ b = 16 /\ ds <> []).

Lemma prefix_ok_base pbase pre b ds : prefix_ok pbase pre b ds -> base_ok b.
Proof. unfold prefix_ok, base_ok. intros [(H & _ & -> & _)|[(_ & _ & -> & _)|[(_ & _ & ->)|(_ & _ & -> & _)]]]; tauto. Qed.

Lemma hd0_app_cons (c : Z) r t : hd0 ((c :: r) ++ t) = c.
Proof. reflexivity. Qed.

Lemma convert_ok pbase pre b ds (neg : bool) :
  prefix_ok pbase pre b ds -> okd b ds ->
  set_str tab (((if neg then [45] else []) ++ pre ++ ds) ++ [0]) pbase
  = Some (sgn neg (horner b (map dval ds))).
Proof.
  intros Hp F. pose proof (prefix_ok_base _ _ _ _ Hp) as Hb.
  destruct Hp as [(Hpb & -> & -> & Hne)|[(-> & -> & -> & Hne & Hnz)|[(-> & -> & ->)|(-> & Hpre & -> & Hne)]]].
  - (* explicit base *)
    destruct ds as [|d r]; [contradiction|].
    inversion F as [|d' r' Hd Hr]; subst d' r'.
    destruct (digit_facts_ok pbase d Hb Hd) as (H0 & Hsp & Hv & Hrange & H45 & _).
    rewrite (set_str_b _ pbase Hb). cbn [app].
    destruct neg.
    + cbn [app skip_space]. change (isspace 45) with false. cbv iota zeta. cbn [hd0 tl0].
      change (45 =? 45) with true. cbv iota. cbn [hd0]. rewrite Hv.
      destruct (Z.leb_spec pbase (dval d)) as [|_]; [lia|].
      change (d :: r ++ [0]) with ((d :: r) ++ [0]). apply tailv_digits; assumption.
    + cbn [app skip_space]. rewrite Hsp. cbv iota zeta. cbn [hd0].
      destruct (Z.eqb_spec d 45) as [|_]; [contradiction|]. cbn [hd0]. rewrite Hv.
      destruct (Z.leb_spec pbase (dval d)) as [|_]; [lia|].
      change (d :: r ++ [0]) with ((d :: r) ++ [0]). apply tailv_digits; assumption.
  - (* i, decimal *)
    destruct ds as [|d r]; [contradiction|]. cbn [hd0] in Hnz.
    inversion F as [|d' r' Hd Hr]; subst d' r'.
    destruct (digit_facts_ok 10 d Hb Hd) as (H0 & Hsp & Hv & Hrange & H45 & _).
    rewrite set_str_0. cbn [app].
    destruct neg.
    + cbn [app skip_space]. change (isspace 45) with false. cbv iota zeta. cbn [hd0 tl0].
      change (45 =? 45) with true. cbv iota. cbn [hd0]. rewrite Hv.
      destruct (Z.leb_spec 10 (dval d)) as [|_]; [lia|].
      destruct (Z.eqb_spec d 48) as [|_]; [contradiction|].
      change (d :: r ++ [0]) with ((d :: r) ++ [0]). apply tailv_digits; assumption.
    + cbn [app skip_space]. rewrite Hsp. cbv iota zeta. cbn [hd0].
      destruct (Z.eqb_spec d 45) as [|_]; [contradiction|]. cbn [hd0]. rewrite Hv.
      destruct (Z.leb_spec 10 (dval d)) as [|_]; [lia|].
      destruct (Z.eqb_spec d 48) as [|_]; [contradiction|].
      change (d :: r ++ [0]) with ((d :: r) ++ [0]). apply tailv_digits; assumption.
  - (* i, leading 0: octal *)
    assert (Hc2 : forall t : unit, let c2 := hd0 (ds ++ [0]) in
              ((c2 =? 120) || (c2 =? 88) = false) /\ ((c2 =? 98) || (c2 =? 66) = false)).
    { intros _. destruct ds as [|d r]; [cbn; tauto|].
      inversion F as [|d' r' Hd Hr]; subst d' r'. cbn [app hd0].
      unfold digit_ok in Hd. change (8 =? 16) with false in Hd. cbv iota in Hd.
      apply andb_prop in Hd. destruct Hd as [Hd _]. unfold is_digit in Hd.
      apply andb_prop in Hd. destruct Hd as [Hd1 Hd2]. apply Z.leb_le in Hd1, Hd2.
      split; apply orb_false_iff; split; apply Z.eqb_neq; lia. }
    destruct (Hc2 tt) as [Hx Hbb].
    rewrite set_str_0.
    destruct neg.
    + cbn [app skip_space]. change (isspace 45) with false. cbv iota zeta. cbn [hd0 tl0].
      change (45 =? 45) with true. cbv iota. cbn [hd0 tl0].
      change (10 <=? dv tab 0 48) with false. change (48 =? 48) with true. cbv iota.
      rewrite Hx, Hbb. apply tailv_digits; assumption.
    + cbn [app skip_space]. change (isspace 48) with false. cbv iota zeta. cbn [hd0 tl0].
      change (48 =? 45) with false. cbv iota. cbn [hd0 tl0].
      change (10 <=? dv tab 0 48) with false. change (48 =? 48) with true. cbv iota.
      rewrite Hx, Hbb. apply tailv_digits; assumption.
  - (* i, 0x *)
    rewrite set_str_0.
    destruct neg; destruct Hpre as [-> | ->];
      cbn [app skip_space]; change (isspace 45) with false; change (isspace 48) with false; cbv iota zeta;
      cbn [hd0 tl0]; change (45 =? 45) with true; change (48 =? 45) with false; cbv iota; cbn [hd0 tl0];
      change (10 <=? dv tab 0 48) with false; change (48 =? 48) with true; cbv iota;
      change (120 =? 120) with true; change (88 =? 120) with false; change (88 =? 88) with true; cbn [orb];
      apply tailv_digits; assumption.
Qed.

(* ------------------------------------------------------------------------------------------ *)
(* gmpscan: the invariant of the reader                                                         *)
(* ------------------------------------------------------------------------------------------ *)
(* input bytes are unsigned chars: in particular never EOF *)
Definition bytes (s : list Z) : Prop := Forall (fun c => 0 <= c < 256) s.

Lemma sget_spec s : bytes s ->
  exists c r, sget s = (c, r) /\ sunget c r = s /\ bytes r /\ (length r <= length s)%nat
    /\ (c = -1 \/ (0 < c < 256 /\ s = c :: r)).
Proof.
  intros F. destruct s as [|c r].
  - exists (-1), []. split; [reflexivity|]. split; [reflexivity|]. split; [constructor|]. split; [lia|]. left; reflexivity.
  - inversion F as [|c' r' Hc Hr]; subst c' r'. cbn [sget].
    destruct (Z.eqb_spec c 0) as [->|NE].
    + exists (-1), (0 :: r). split; [reflexivity|]. split; [reflexivity|]. split; [assumption|]. split; [lia|]. left; reflexivity.
    + exists c, r. unfold sunget. destruct (Z.eqb_spec c (-1)) as [|_]; [lia|].
      split; [reflexivity|]. split; [reflexivity|]. split; [assumption|]. split; [cbn [length]; lia|]. right. split; [lia|reflexivity].
Qed.

Definition meas (st : gs) : nat := if gc st =? -1 then O else S (length (gin st)).

(* not yet at the width: s is what was consumed, then the look-ahead c, then the stream *)
Definition inv (w : Z) (s : list Z) (st : gs) (cons : list Z) : Prop :=
  s = cons ++ sunget (gc st) (gin st) /\ gchars st = len cons + 1 /\ gchars st <= w /\ bytes (gin st)
  /\ (gc st = -1 \/ 0 < gc st < 256).
(* width reached ("goto convert" out of GET): c is stale *)
Definition jinv (w : Z) (s : list Z) (st : gs) (cons : list Z) : Prop :=
  s = cons ++ gin st /\ gchars st = len cons + 1 /\ gchars st = w + 1.
Definition pinv (w : Z) (s : list Z) (j : bool) (st : gs) (cons : list Z) : Prop :=
  if j then jinv w s st cons else inv w s st cons.

Lemma inv_STORE w s st cons c : inv w s st cons -> inv w s (STORE c st) cons.
Proof. unfold inv, STORE. cbn [gc gin gchars]. tauto. Qed.

Lemma GET_spec w s st cons : inv w s st cons -> gc st <> -1 ->
  exists j st', GET w st = (j, st') /\ gbuf st' = gbuf st /\ pinv w s j st' (cons ++ [gc st])
    /\ (meas st' <= meas st)%nat /\ (j = false -> (meas st' < meas st)%nat).
Proof.
  intros (Hs & Hch & Hw & Hb & Hc) Hne. unfold GET.
  assert (Hsu : sunget (gc st) (gin st) = gc st :: gin st).
  { unfold sunget. destruct (Z.eqb_spec (gc st) (-1)); [contradiction|reflexivity]. }
  destruct (Z.ltb_spec w (gchars st + 1)) as [Hj|Hj].
  - eexists true, _. split; [reflexivity|]. cbn [gbuf]. split; [reflexivity|].
    split; [|split; [unfold meas; cbn [gc gin]; lia | discriminate]].
    unfold pinv, jinv. cbn [gin gchars]. rewrite len_app, len_cons, len_nil.
    rewrite Hs, Hsu, <- app_assoc. cbn [app]. repeat split; lia.
  - destruct (sget_spec (gin st) Hb) as (c' & r & Eg & Eu & Hbr & Hlen & Hc').
    rewrite Eg. eexists false, _. split; [reflexivity|]. cbn [gbuf]. split; [reflexivity|].
    split.
    + unfold pinv, inv. cbn [gc gin gchars]. rewrite len_app, len_cons, len_nil.
      rewrite Eu, Hs, Hsu, <- app_assoc. cbn [app]. repeat split; try lia; try assumption.
    + unfold meas. cbn [gc gin]. destruct (Z.eqb_spec (gc st) (-1)) as [|_]; [contradiction|].
      destruct Hc' as [->|[Hr ->]].
      * change (-1 =? -1) with true. split; [lia|intros _; lia].
      * cbn [length]. destruct (c' =? -1); split; try intros _; lia.
Qed.

Definition signs (sg : list Z) (neg : bool) : Prop :=
  (sg = [] /\ neg = false) \/ (sg = [45] /\ neg = true) \/ (sg = [43] /\ neg = false).

Lemma gs_sign_spec w s st cons : inv w s st cons ->
  exists j st' sg neg, gs_sign w st = (j, st') /\ signs sg neg
    /\ gbuf st' = gbuf st ++ (if neg then [45] else [])
    /\ pinv w s j st' (cons ++ sg) /\ (meas st' <= meas st)%nat.
Proof.
  intros Hi. unfold gs_sign.
  destruct (Z.eqb_spec (gc st) 45) as [E45|N45].
  - destruct (GET_spec w s (STORE 45 st) cons (inv_STORE _ _ _ _ 45 Hi)) as (j & st' & EG & Hbuf & Hp & Hm & _).
    { cbn [STORE gc]. lia. }
    exists j, st', [45], true. rewrite EG. split; [reflexivity|]. split; [right; left; tauto|].
    split; [rewrite Hbuf; reflexivity|]. split; [|exact Hm].
    cbn [STORE gc] in Hp. rewrite E45 in Hp. exact Hp.
  - destruct (Z.eqb_spec (gc st) 43) as [E43|N43].
    + destruct (GET_spec w s st cons Hi) as (j & st' & EG & Hbuf & Hp & Hm & _); [lia|].
      exists j, st', [43], false. rewrite EG. split; [reflexivity|]. split; [right; right; tauto|].
      split; [rewrite Hbuf, app_nil_r; reflexivity|]. split; [|exact Hm]. rewrite E43 in Hp. exact Hp.
    + exists false, st, [], false. split; [reflexivity|]. split; [left; tauto|].
      rewrite !app_nil_r. split; [reflexivity|]. split; [exact Hi|lia].
Qed.

Definition pbase_ok (pbase : Z) : Prop := pbase = 0 \/ base_ok pbase.

(* the base indicator; the last component says which shape was read *)
Lemma gs_base_spec w s pbase st cons : pbase_ok pbase -> inv w s st cons ->
  exists j b seen st' pre, gs_base w pbase st = (j, (b, seen), st')
    /\ gbuf st' = gbuf st ++ pre /\ pinv w s j st' (cons ++ pre) /\ (meas st' <= meas st)%nat /\ base_ok b
    /\ ((base_ok pbase /\ pre = [] /\ b = pbase /\ seen = false /\ j = false /\ st' = st)
        \/ (pbase = 0 /\ pre = [] /\ b = 10 /\ seen = false /\ j = false /\ st' = st /\ gc st <> 48)
        \/ (pbase = 0 /\ pre = [48] /\ b = 8 /\ seen = true)
        \/ (pbase = 0 /\ (pre = [48; 120] \/ pre = [48; 88]) /\ b = 16 /\ seen = false)).
Proof.
  intros Hpb Hi. unfold gs_base.
  destruct (Z.eqb_spec pbase 0) as [E0|N0].
  - destruct (Z.eqb_spec (gc st) 48) as [E48|N48].
    + destruct (GET_spec w s (STORE 48 st) cons (inv_STORE _ _ _ _ 48 Hi)) as (j & st1 & EG & Hbuf & Hp & Hm & _).
      { cbn [STORE gc]. lia. }
      rewrite EG. cbn [STORE gc] in Hp. rewrite E48 in Hp.
      destruct j.
      * exists true, 8, true, st1, [48]. split; [reflexivity|]. split; [rewrite Hbuf; reflexivity|].
        split; [exact Hp|]. split; [exact Hm|]. split; [left; reflexivity|]. right; right; left. tauto.
      * destruct ((gc st1 =? 120) || (gc st1 =? 88)) eqn:EX.
        -- unfold pinv in Hp.
           destruct (GET_spec w s (STORE (gc st1) st1) (cons ++ [48]) (inv_STORE _ _ _ _ _ Hp)) as (j2 & st2 & EG2 & Hbuf2 & Hp2 & Hm2 & _).
           { cbn [STORE gc]. apply orb_prop in EX. destruct EX as [EX|EX]; apply Z.eqb_eq in EX; lia. }
           rewrite EG2. exists j2, 16, false, st2, [48; gc st1].
           split; [reflexivity|]. split.
           { rewrite Hbuf2. cbn [STORE gbuf]. rewrite Hbuf. cbn [STORE gbuf]. rewrite <- app_assoc. reflexivity. }
           split. { cbn [STORE gc] in Hp2. rewrite <- app_assoc in Hp2. exact Hp2. }
           split. { change (meas (STORE (gc st1) st1)) with (meas st1) in Hm2. change (meas (STORE 48 st)) with (meas st) in Hm. lia. }
           split; [right; right; reflexivity|]. right; right; right.
           apply orb_prop in EX. destruct EX as [EX|EX]; apply Z.eqb_eq in EX; rewrite EX; tauto.
        -- exists false, 8, true, st1, [48]. split; [reflexivity|]. split; [rewrite Hbuf; reflexivity|].
           split; [exact Hp|]. split; [exact Hm|]. split; [left; reflexivity|]. right; right; left. tauto.
    + exists false, 10, false, st, []. rewrite !app_nil_r. split; [reflexivity|]. split; [reflexivity|].
      split; [exact Hi|]. split; [lia|]. split; [right; left; reflexivity|]. right; left. tauto.
  - exists false, pbase, false, st, []. rewrite !app_nil_r. split; [reflexivity|]. split; [reflexivity|].
    split; [exact Hi|]. split; [lia|]. destruct Hpb as [|Hpb]; [contradiction|]. split; [exact Hpb|]. left. tauto.
Qed.

Lemma digit_ok_m1 b c : digit_ok b c = true -> c <> -1.
Proof. intros H. pose proof (digit_ok_range b c H). lia. Qed.

Lemma gs_digits_spec w s b : forall fuel seen st cons, inv w s st cons -> (meas st < fuel)%nat ->
  exists j seen' st' ds, gs_digits fuel w b seen st = Some (j, seen', st')
    /\ okd b ds /\ gbuf st' = gbuf st ++ ds /\ pinv w s j st' (cons ++ ds)
    /\ seen' = (seen || negb (len ds =? 0)) /\ (j = false -> digit_ok b (gc st') = false)
    /\ (ds = [] \/ hd0 ds = gc st) /\ (meas st' <= meas st)%nat.
Proof.
  induction fuel as [|f IH]; intros seen st cons Hi Hm; [lia|].
  cbn [gs_digits].
  destruct (digit_ok b (gc st)) eqn:Ed.
  - destruct (GET_spec w s (STORE (gc st) st) cons (inv_STORE _ _ _ _ _ Hi)) as (j & st1 & EG & Hbuf & Hp & Hm1 & Hm2).
    { cbn [STORE gc]. apply (digit_ok_m1 b); exact Ed. }
    rewrite EG. cbn [STORE gc gbuf] in Hp, Hbuf.
    destruct j.
    + exists true, true, st1, [gc st]. split; [reflexivity|]. split; [constructor; [exact Ed|constructor]|].
      split; [exact Hbuf|]. split; [exact Hp|]. split; [rewrite orb_true_r; reflexivity|].
      split; [discriminate|]. split; [right; reflexivity|]. unfold meas in *; cbn [STORE gc gin] in *; lia.
    + specialize (Hm2 eq_refl). unfold pinv in Hp.
      destruct (IH true st1 (cons ++ [gc st]) Hp) as (j & seen' & st' & ds & E & Hok & Hb2 & Hp2 & Hs2 & Hd2 & _ & Hm3).
      { unfold meas in *. cbn [STORE gc gin] in *. lia. }
      rewrite E. exists j, seen', st', (gc st :: ds). split; [reflexivity|].
      split; [constructor; assumption|]. split; [rewrite Hb2, Hbuf, <- app_assoc; reflexivity|].
      split; [rewrite <- app_assoc in Hp2; exact Hp2|].
      split.
      { rewrite Hs2. cbn [orb].
        assert (E0 : (len (gc st :: ds) =? 0) = false) by (apply Z.eqb_neq; rewrite len_cons; pose proof (len_nonneg ds); lia).
        rewrite E0. cbn [negb]. rewrite orb_true_r. reflexivity. }
      split; [exact Hd2|]. split; [right; reflexivity|]. unfold meas in *; cbn [STORE gc gin] in *; lia.
  - exists false, seen, st, []. rewrite !app_nil_r. split; [reflexivity|]. split; [constructor|].
    split; [reflexivity|]. split; [exact Hi|]. split; [rewrite orb_false_r; reflexivity|].
    split; [intros _; exact Ed|]. split; [left; reflexivity|lia].
Qed.

(* one number: what was consumed is sign, base indicator, digits *)
Lemma gs_number_spec w s pbase fuel st cons : pbase_ok pbase -> inv w s st cons -> (meas st < fuel)%nat ->
  exists j seen st' sg neg pre b ds, gs_number fuel w pbase st = Some (j, seen, st')
    /\ signs sg neg /\ okd b ds /\ base_ok b
    /\ gbuf st' = gbuf st ++ (if neg then [45] else []) ++ pre ++ ds
    /\ pinv w s j st' (cons ++ sg ++ pre ++ ds)
    /\ (seen = true -> prefix_ok pbase pre b ds)
    /\ (j = false -> digit_ok b (gc st') = false)
    /\ (meas st' <= meas st)%nat.
Proof.
  intros Hpb Hi Hm. unfold gs_number.
  destruct (gs_sign_spec w s st cons Hi) as (j1 & st1 & sg & neg & E1 & Hsg & Hb1 & Hp1 & Hm1).
  rewrite E1. destruct j1.
  - exists true, false, st1, sg, neg, [], 10, []. split; [reflexivity|]. split; [exact Hsg|].
    split; [constructor|]. split; [right; left; reflexivity|]. rewrite !app_nil_r.
    split; [exact Hb1|]. split; [exact Hp1|]. split; [discriminate|]. split; [discriminate|exact Hm1].
  - unfold pinv in Hp1.
    destruct (gs_base_spec w s pbase st1 (cons ++ sg) Hpb Hp1) as (j2 & b & seen & st2 & pre & E2 & Hb2 & Hp2 & Hm2 & Hbok & Hshape).
    rewrite E2. destruct j2.
    + exists true, seen, st2, sg, neg, pre, b, []. split; [reflexivity|]. split; [exact Hsg|].
      split; [constructor|]. split; [exact Hbok|]. rewrite !app_nil_r.
      split; [rewrite Hb2, Hb1, <- app_assoc; reflexivity|].
      split; [rewrite <- app_assoc in Hp2; exact Hp2|].
      split.
      { intros Hseen. destruct Hshape as [(_ & _ & _ & _ & Hj & _)|[(_ & _ & _ & _ & Hj & _)|[(H0 & Hpre & H8 & _)|(_ & _ & _ & Hs)]]];
          try discriminate; try congruence.
        right; right; left. tauto. }
      split; [discriminate|lia].
    + unfold pinv in Hp2.
      destruct (gs_digits_spec w s b fuel seen st2 (cons ++ sg ++ pre)) as (j & seen' & st' & ds & E3 & Hok & Hb3 & Hp3 & Hs3 & Hd3 & Hhd & Hm3).
      { rewrite app_assoc. exact Hp2. } { lia. }
      rewrite E3. exists j, seen', st', sg, neg, pre, b, ds. split; [reflexivity|]. split; [exact Hsg|].
      split; [exact Hok|]. split; [exact Hbok|].
      split; [rewrite Hb3, Hb2, Hb1, <- !app_assoc; reflexivity|].
      split; [rewrite <- !app_assoc in Hp3; exact Hp3|].
      split.
      { intros Hseen. subst seen'.
        assert (Hne : seen = false -> ds <> []).
        { intros ->. cbn [orb] in Hseen. intros ->. cbn in Hseen. discriminate. }
        destruct Hshape as [(H1 & -> & -> & Hs & _)|[(H0 & -> & -> & Hs & _ & -> & H48)|[(H0 & -> & -> & _)|(H0 & Hpre & -> & Hs)]]].
        - left. repeat split; auto.
        - right; left. repeat split; auto. destruct Hhd as [->|Hh]; [exfalso; apply (Hne Hs); reflexivity|]. congruence.
        - right; right; left. tauto.
        - right; right; right. repeat split; auto. }
      split; [exact Hd3|].
      lia.
Qed.

Lemma gs_finish_spec w s j st cons ty pbase ignore seen : pinv w s j st cons ->
  exists s', s = cons ++ s'
    /\ gs_finish tab ty pbase w ignore seen st =
       if negb seen then (-1, s', None)
       else (len cons, s',
             if ignore then None
             else Some (if ty =? 81
                        then match mpq_set_str tab (gbuf st) pbase with Some (n, d) => SVQ n d | None => SVfail end
                        else match set_str tab (gbuf st ++ [0]) pbase with Some z => SVZ z | None => SVfail end)).
Proof.
  intros Hp. unfold gs_finish. destruct j; unfold pinv in Hp.
  - destruct Hp as (Hs & Hch & Hw). exists (gin st). split; [exact Hs|].
    destruct (Z.eqb_spec (gchars st) (w + 1)) as [_|]; [|contradiction].
    replace (gchars st - 1) with (len cons) by lia. reflexivity.
  - destruct Hp as (Hs & Hch & Hw & _). exists (sunget (gc st) (gin st)). split; [exact Hs|].
    destruct (Z.eqb_spec (gchars st) (w + 1)) as [|_]; [lia|].
    replace (gchars st - 1) with (len cons) by lia. reflexivity.
Qed.

Definition eff_width (pw : Z) : Z := if pw =? 0 then 2147483646 else pw.

(* txt is a number as the conversion with base pbase (0 for i) reads it, and z is its value *)
Definition number_denotes (pbase : Z) (txt : list Z) (z : Z) : Prop :=
  exists sg neg pre b ds, txt = sg ++ pre ++ ds /\ signs sg neg /\ prefix_ok pbase pre b ds /\ okd b ds
    /\ z = sgn neg (horner b (map dval ds)).

Lemma prefix_ok_len pbase pre b ds : prefix_ok pbase pre b ds -> 0 < len (pre ++ ds).
Proof.
  intros H. rewrite len_app. pose proof (len_nonneg pre). pose proof (len_nonneg ds).
  assert (Hne : forall l : list Z, l <> [] -> 0 < len l).
  { intros [|x l] Hl; [contradiction|]. rewrite len_cons. pose proof (len_nonneg l). lia. }
  destruct H as [(_ & _ & _ & Hd)|[(_ & _ & _ & Hd & _)|[(_ & -> & _)|(_ & [-> | ->] & _)]]];
    try (specialize (Hne ds Hd); lia); rewrite ?len_cons, ?len_nil in *; lia.
Qed.

Lemma start_inv pw s c r : 0 <= pw -> bytes r -> 0 < c < 256 -> s = c :: r ->
  inv (eff_width pw) s (mkgs c r 1 []) [] /\ (meas (mkgs c r 1 []) < S (length s))%nat.
Proof.
  intros Hw Hr Hc ->. split.
  - unfold inv. cbn [gc gin gchars app]. unfold sunget. destruct (Z.eqb_spec c (-1)) as [|_]; [lia|].
    split; [reflexivity|]. split; [reflexivity|]. split; [|split; [assumption|right; assumption]].
    unfold eff_width. destruct (Z.eqb_spec pw 0); lia.
  - unfold meas. cbn [gc gin length]. destruct (c =? -1); lia.
Qed.

(* (b) THE FIELD WIDTH THEOREM, type Z.  pbase: 10 for d u, 8 for o, 16 for x X, 0 for i; pw the width in the
   format (0: none, which the code treats as INT_MAX-1); s the input after the white space.  The bytes taken from the
   input are cons (the rest s' stays), never more than the width; the results are: -2 with nothing consumed when the
   input is at its end; -1 (invalid field, nothing stored); or the number of bytes consumed, which then spell a
   number in the base of the conversion and the value stored is the value they denote. *)
Theorem gmpscan_width_Z pbase pw ignore s : pbase_ok pbase -> 0 <= pw -> bytes s ->
  exists ret cons s' v, gmpscan tab 90 pbase pw ignore s = (ret, s', v)
    /\ s = cons ++ s' /\ len cons <= eff_width pw
    /\ ((ret = -2 /\ cons = [] /\ v = None /\ fst (sget s) = -1)
        \/ (ret = -1 /\ v = None /\ fst (sget s) <> -1)
        \/ (ret = len cons /\ 0 < ret
            /\ exists z, number_denotes pbase cons z /\ v = if ignore then None else Some (SVZ z))).
Proof.
  intros Hpb Hpw Hs. unfold gmpscan.
  destruct (sget_spec s Hs) as (c & r & Eg & Eu & Hr & Hlen & Hc). rewrite Eg.
  destruct Hc as [->|[Hc Es]].
  - change (-1 =? -1) with true. cbv iota. exists (-2), [], s, None.
    split; [reflexivity|]. split; [reflexivity|]. split; [unfold eff_width; cbn; destruct (pw =? 0); lia|].
    left. cbn [fst]. tauto.
  - destruct (Z.eqb_spec c (-1)) as [|_]; [lia|].
    fold (eff_width pw).
    destruct (start_inv pw s c r Hpw Hr Hc Es) as [Hi Hm].
    destruct (gs_number_spec (eff_width pw) s pbase (S (length s)) _ [] Hpb Hi Hm)
      as (j & seen & st' & sg & neg & pre & b & ds & E & Hsg & Hok & Hbok & Hbuf & Hp & Hseen & _ & _).
    rewrite E. change (90 =? 81) with false. rewrite andb_false_r. cbn [andb].
    destruct (gs_finish_spec _ _ _ _ _ 90 pbase ignore seen Hp) as (s' & Es' & Ef).
    rewrite Ef. cbn [app] in Es'.
    assert (Hlenc : len (sg ++ pre ++ ds) <= eff_width pw).
    { destruct j; unfold pinv, jinv, inv in Hp; cbn [app] in Hp; lia. }
    destruct seen; cbn [negb].
    + exists (len (sg ++ pre ++ ds)), (sg ++ pre ++ ds), s'. eexists. split; [reflexivity|].
      split; [exact Es'|]. split; [exact Hlenc|]. right; right.
      specialize (Hseen eq_refl). split; [reflexivity|].
      split.
      { rewrite len_app. pose proof (prefix_ok_len _ _ _ _ Hseen). pose proof (len_nonneg sg). lia. }
      exists (sgn neg (horner b (map dval ds))). split.
      { exists sg, neg, pre, b, ds. tauto. }
      change (90 =? 81) with false. cbv iota. rewrite Hbuf. cbn [app gbuf].
      rewrite (convert_ok pbase pre b ds neg Hseen Hok). reflexivity.
    + exists (-1), (sg ++ pre ++ ds), s', None. split; [reflexivity|]. split; [exact Es'|].
      split; [exact Hlenc|]. right; left. split; [reflexivity|]. split; [reflexivity|]. cbn [fst]. lia.
Qed.

(* ------------------------------------------------------------------------------------------ *)
(* (c) count semantics of __gmp_doscan                                                          *)
(* ------------------------------------------------------------------------------------------ *)
Lemma GET_chars w st : gchars st <= gchars (snd (GET w st)).
Proof. unfold GET. destruct (w <? gchars st + 1); [|destruct (sget (gin st))]; cbn [snd gchars]; lia. Qed.

Lemma gs_sign_chars w st : gchars st <= gchars (snd (gs_sign w st)).
Proof.
  unfold gs_sign. destruct (gc st =? 45); [exact (GET_chars w (STORE 45 st))|].
  destruct (gc st =? 43); [apply GET_chars|cbn [snd]; lia].
Qed.

Lemma gs_base_chars w base st : gchars st <= gchars (snd (gs_base w base st)).
Proof.
  unfold gs_base. destruct (base =? 0); [|cbn [snd]; lia].
  destruct (gc st =? 48); [|cbn [snd]; lia].
  pose proof (GET_chars w (STORE 48 st)) as H1. destruct (GET w (STORE 48 st)) as [j st1]. cbn [snd STORE gchars] in H1.
  destruct j; [cbn [snd]; lia|].
  destruct ((gc st1 =? 120) || (gc st1 =? 88)); [|cbn [snd]; lia].
  pose proof (GET_chars w (STORE (gc st1) st1)) as H2. destruct (GET w (STORE (gc st1) st1)) as [j2 st2].
  cbn [snd STORE gchars] in *. lia.
Qed.

Lemma gs_digits_chars w b : forall fuel seen st j seen' st',
  gs_digits fuel w b seen st = Some (j, seen', st') -> gchars st <= gchars st'.
Proof.
  induction fuel as [|f IH]; intros seen st j seen' st' E; [discriminate|].
  cbn [gs_digits] in E. destruct (digit_ok b (gc st)).
  - pose proof (GET_chars w (STORE (gc st) st)) as H1. destruct (GET w (STORE (gc st) st)) as [j1 st1].
    cbn [snd STORE gchars] in H1. destruct j1.
    + injection E as <- <- <-. lia.
    + apply IH in E. lia.
  - injection E as <- <- <-. lia.
Qed.

Lemma gs_number_chars fuel w base st j seen st' :
  gs_number fuel w base st = Some (j, seen, st') -> gchars st <= gchars st'.
Proof.
  unfold gs_number. intros E.
  pose proof (gs_sign_chars w st) as H1. destruct (gs_sign w st) as [j1 st1]. cbn [snd] in H1.
  destruct j1; [injection E as <- <- <-; lia|].
  pose proof (gs_base_chars w base st1) as H2. destruct (gs_base w base st1) as [[j2 [b sn]] st2]. cbn [snd] in H2.
  destruct j2; [injection E as <- <- <-; lia|].
  apply gs_digits_chars in E. lia.
Qed.

Definition is_assign (v : sv) : bool := match v with SVN _ => false | _ => true end.
Definition nassigned (st : list sv) : Z := Z.of_nat (length (filter is_assign st)).

Lemma gs_finish_ret ty pbase w ignore seen st r s' v : 1 <= gchars st ->
  gs_finish tab ty pbase w ignore seen st = (r, s', v) ->
  (r = -1 /\ v = None) \/ (0 <= r /\ exists x, is_assign x = true /\ v = if ignore then None else Some x).
Proof.
  unfold gs_finish. intros Hc E. destruct seen; cbn [negb] in E; injection E as <- <- <-.
  - right. split; [lia|]. eexists. split; [|reflexivity].
    destruct (ty =? 81); [destruct (mpq_set_str _ _ _) as [[n d]|]|destruct (set_str _ _ _)]; reflexivity.
  - left. tauto.
Qed.

(* what gmpscan returns: -2 only at the end of the input, with nothing read *)
Lemma gmpscan_ret ty pbase pw ignore s r s' v : gmpscan tab ty pbase pw ignore s = (r, s', v) ->
  (r = -2 /\ s' = s /\ fst (sget s) = -1 /\ v = None) \/ (r = -3) \/ (r = -1 /\ v = None)
  \/ (0 <= r /\ exists x, is_assign x = true /\ v = if ignore then None else Some x).
Proof.
  unfold gmpscan. destruct (sget s) as [c rr] eqn:Eg.
  destruct (Z.eqb_spec c (-1)) as [->|NE]; intros E.
  - injection E as <- <- <-. left. cbn [fst]. tauto.
  - set (w := if pw =? 0 then 2147483646 else pw) in *.
    destruct (gs_number _ w pbase _) as [[[j seen] st1]|] eqn:E1; [|injection E as <- _ _; right; left; reflexivity].
    apply gs_number_chars in E1. cbn [gchars] in E1.
    assert (Hfin : forall sn st, 1 <= gchars st -> gs_finish tab ty pbase w ignore sn st = (r, s', v) ->
              (r = -1 /\ v = None) \/ (0 <= r /\ exists x, is_assign x = true /\ v = if ignore then None else Some x)).
    { intros sn st Hc. apply gs_finish_ret. exact Hc. }
    destruct (negb j && (ty =? 81) && (gc st1 =? 47)).
    + destruct (negb seen); [right; right; apply (Hfin _ _ E1 E)|].
      pose proof (GET_chars w (STORE 47 st1)) as H2. destruct (GET w (STORE 47 st1)) as [j2 st2].
      cbn [snd STORE gchars] in H2.
      destruct j2; [right; right; apply (Hfin false st2); [lia|exact E]|].
      destruct (gs_number _ w pbase st2) as [[[j3 seen3] st3]|] eqn:E3.
      * apply gs_number_chars in E3. right; right; apply (Hfin seen3 st3); [lia|exact E].
      * injection E as <- _ _. right; left; reflexivity.
    + right; right; apply (Hfin seen st1 E1 E).
Qed.

Lemma nassigned_nonneg st : 0 <= nassigned st.
Proof. unfold nassigned. lia. Qed.
Lemma nassigned_app st x : nassigned (st ++ [x]) = nassigned st + (if is_assign x then 1 else 0).
Proof.
  unfold nassigned. rewrite filter_app, app_length. cbn [filter]. destruct (is_assign x); cbn [length]; lia.
Qed.

(* only white space is left in s *)
Definition exhausted (s : list Z) : Prop := fst (sget (snd (skip_white s 0))) = -1.

Lemma skip_white_at_end s : fst (sget s) = -1 -> skip_white s 0 = (0, s).
Proof.
  destruct s as [|c r]; [reflexivity|]. cbn [sget skip_white].
  destruct (Z.eqb_spec c 0) as [|NE]; [reflexivity|]. cbn [fst]. intros ->. reflexivity.
Qed.
Lemma at_end_exhausted s : fst (sget s) = -1 -> exhausted s.
Proof. intros H. unfold exhausted. rewrite (skip_white_at_end s H). exact H. Qed.

Lemma libc_d_eof long pw s st v n : libc_d long pw s = (st, v, n) -> st = -1 -> exhausted s.
Proof.
  unfold libc_d, exhausted. destruct (skip_white s 0) as [nws s1]. cbn [snd].
  destruct (sget s1) as [c r]. cbn [fst]. destruct (Z.eqb_spec c (-1)) as [->|NE]; [reflexivity|].
  destruct (take_dec _ _ _ _ _) as [vv nn]. destruct (nn =? 0); intros E; injection E as <- _ _; discriminate.
Qed.

(* the statement about one result *)
Definition count_ok (r : dres) : Prop :=
  d_stop r <> St_unsupported -> d_stop r <> St_fuel ->
  (d_ret r = -1 <-> (d_stop r = St_eof /\ nassigned (d_stores r) = 0))
  /\ (d_ret r <> -1 -> d_ret r = nassigned (d_stores r))
  /\ (d_stop r = St_eof -> exhausted (d_rest r)).

Lemma d_done_ok fields st s chars why : fields = nassigned st -> (why = St_eof -> exhausted s) ->
  count_ok (d_done fields st s chars why).
Proof.
  intros Hf He. pose proof (nassigned_nonneg st) as Hn. unfold count_ok, d_done.
  destruct why; cbn [d_stop d_ret d_stores d_rest]; intros H1 H2; try congruence;
    try (split; [split; [lia|intros [? _]; discriminate]|split; [intros _; exact Hf|intros ?; discriminate]]).
  destruct (Z.eqb_spec fields 0) as [E0|N0].
  - split; [split; [intros _; split; [reflexivity|lia]|reflexivity]|]. split; [congruence|intros _; apply He; reflexivity].
  - split; [split; [lia|intros [_ ?]; lia]|]. split; [intros _; exact Hf|intros _; apply He; reflexivity].
Qed.

Lemma dloop_count : forall fuel fmt s fields chars st, fields = nassigned st ->
  count_ok (dloop tab fuel fmt s fields chars st).
Proof.
  induction fuel as [|f IH]; intros fmt s fields chars st Hf.
  - cbn [dloop]. intros _ H. exfalso. apply H. reflexivity.
  - cbn [dloop]. cbv zeta.
    assert (Hlit : forall fch fmt', count_ok
              (let '(c, r) := sget s in
               if c =? fch then dloop tab f fmt' r fields (chars + 1) st
               else d_done fields st s chars (if c =? -1 then St_eof else St_mismatch))).
    { intros fch fmt'. destruct (sget s) as [c r] eqn:Eg. destruct (c =? _); [apply IH; exact Hf|].
      apply d_done_ok; [exact Hf|]. destruct (Z.eqb_spec c (-1)) as [->|]; [|discriminate].
      intros _. apply at_end_exhausted. rewrite Eg. reflexivity. }
    destruct (hd0 fmt =? 0); [apply d_done_ok; [exact Hf|discriminate]|].
    destruct (isspace (hd0 fmt)); [destruct (skip_white s 0) as [n s1]; apply IH; exact Hf|].
    destruct (negb (hd0 fmt =? 37)); [apply Hlit|].
    destruct (parse_conv _ _ _) as [[a p] fmt2]. destruct a.
    + apply d_done_ok; [exact Hf|discriminate].
    + apply Hlit.
    + (* C library *)
      destruct ((conv =? 100) && ((sp_type p =? 0) || (sp_type p =? 108)) && sp_libc p);
        [|apply d_done_ok; [exact Hf|discriminate]].
      destruct (libc_d _ _ s) as [[status v] nc] eqn:El.
      destruct (Z.eqb_spec status (-1)) as [E1|_].
      { apply d_done_ok; [exact Hf|]. intros _. apply (libc_d_eof _ _ _ _ _ _ El E1). }
      destruct (status =? 0); [apply d_done_ok; [exact Hf|discriminate]|].
      apply IH. destruct (sp_ignore p); [exact Hf|]. rewrite nassigned_app. cbn [is_assign]. lia.
    + (* MPIR types *)
      destruct (sp_type p =? 70); [apply d_done_ok; [exact Hf|discriminate]|].
      destruct (skip_white s 0) as [n s1].
      destruct (gmpscan tab _ _ _ _ s1) as [[nc s2] v] eqn:Eg.
      destruct (gmpscan_ret _ _ _ _ _ _ _ _ Eg) as [(-> & -> & Hend & ->)|[->|[(-> & ->)|(Hnc & x & Hx & ->)]]].
      * change (-2 =? -3) with false. change (-2 =? -2) with true. cbv iota.
        apply d_done_ok; [exact Hf|]. intros _. apply at_end_exhausted. exact Hend.
      * change (-3 =? -3) with true. cbv iota. intros _ H. exfalso. apply H. reflexivity.
      * change (-1 =? -3) with false. change (-1 =? -2) with false. change (-1 =? -1) with true. cbv iota.
        apply d_done_ok; [exact Hf|discriminate].
      * destruct (Z.eqb_spec nc (-3)); [lia|]. destruct (Z.eqb_spec nc (-2)); [lia|].
        destruct (Z.eqb_spec nc (-1)); [lia|].
        apply IH. destruct (sp_ignore p); [exact Hf|]. rewrite nassigned_app, Hx. lia.
    + (* %n *)
      destruct (sp_ignore p); [apply IH; exact Hf|].
      destruct (n_value _ _); [|apply d_done_ok; [exact Hf|discriminate]].
      apply IH. rewrite nassigned_app. cbn [is_assign]. lia.
    + apply IH. exact Hf.
    + intros _ H. exfalso. apply H. reflexivity.
Qed.

(* (c) COUNT SEMANTICS.  For every format and input on which the model is defined (no conversion outside it):
   the return value is -1 exactly when the scan stopped at the end of the input (at a literal, or before a field
   with only white space left) and nothing had been assigned; otherwise it is the number of values stored by
   conversions other than %n (suppressed conversions store nothing); and when the scan stopped for the end of
   the input, only white space is left. *)
Theorem doscan_count fmt input :
  let r := doscan_run tab fmt input in
  d_stop r <> St_unsupported -> d_stop r <> St_fuel ->
  (d_ret r = -1 <-> (d_stop r = St_eof /\ nassigned (d_stores r) = 0))
  /\ (d_ret r <> -1 -> d_ret r = nassigned (d_stores r))
  /\ (d_stop r = St_eof -> exhausted (d_rest r)).
Proof. exact (dloop_count _ fmt input 0 0 [] eq_refl). Qed.

(* ------------------------------------------------------------------------------------------ *)
(* (a) round trip: the reader run forward on a well-formed number                               *)
(* ------------------------------------------------------------------------------------------ *)
Lemma sget_cons c r : c <> 0 -> sget (c :: r) = (c, r).
Proof. intros H. cbn [sget]. destruct (Z.eqb_spec c 0); [contradiction|reflexivity]. Qed.

Lemma GET_fwd w c inp k buf : k + 1 <= w ->
  GET w (mkgs c inp k buf) = (false, mkgs (fst (sget inp)) (snd (sget inp)) (k + 1) buf).
Proof.
  intros H. unfold GET. cbn [gchars gin gc gbuf]. destruct (Z.ltb_spec w (k + 1)); [lia|].
  destruct (sget inp); reflexivity.
Qed.

Lemma gs_digits_fwd w b : base_ok b -> forall ds fuel seen chars buf rest,
  okd b ds -> digit_ok b (fst (sget rest)) = false -> chars + len ds <= w -> (length ds < fuel)%nat ->
  gs_digits fuel w b seen (mkgs (fst (sget (ds ++ rest))) (snd (sget (ds ++ rest))) chars buf)
  = Some (false, seen || negb (len ds =? 0),
          mkgs (fst (sget rest)) (snd (sget rest)) (chars + len ds) (buf ++ ds)).
Proof.
  intros Hb. induction ds as [|c ds IH]; intros fuel seen chars buf rest F Hnext Hw Hfuel.
  - destruct fuel as [|f]; [cbn in Hfuel; lia|]. cbn [app gs_digits gc]. rewrite Hnext.
    rewrite len_nil, Z.add_0_r, app_nil_r. change (0 =? 0) with true. cbn [negb]. rewrite orb_false_r. reflexivity.
  - inversion F as [|c' r' Hc Hr]; subst c' r'.
    destruct (digit_facts_ok b c Hb Hc) as (H0 & _).
    destruct fuel as [|f]; [cbn in Hfuel; lia|]. cbn [app]. rewrite (sget_cons c _ H0). cbn [fst snd gs_digits gc].
    rewrite Hc. unfold STORE. cbn [gc gin gchars gbuf]. rewrite len_cons in Hw. pose proof (len_nonneg ds).
    rewrite GET_fwd by lia.
    rewrite (IH f true (chars + 1) (buf ++ [c]) rest Hr Hnext) by (cbn [length] in Hfuel; lia).
    cbn [orb]. rewrite <- app_assoc. cbn [app]. rewrite len_cons.
    replace (chars + 1 + len ds) with (chars + (1 + len ds)) by lia.
    destruct (Z.eqb_spec (1 + len ds) 0); [lia|]. cbn [negb]. rewrite orb_true_r. reflexivity.
Qed.

Lemma hd_sget b c ds rest : base_ok b -> okd b (c :: ds) -> sget ((c :: ds) ++ rest) = (c, ds ++ rest).
Proof.
  intros Hb F. inversion F as [|c' r' Hc Hr]; subst c' r'.
  destruct (digit_facts_ok b c Hb Hc) as (H0 & _). cbn [app]. apply sget_cons. exact H0.
Qed.

Lemma gs_base_fwd w pbase pre b ds rest k bs :
  prefix_ok pbase pre b ds -> okd b ds -> k + len pre <= w ->
  (pre = [48] -> fst (sget (ds ++ rest)) <> 120 /\ fst (sget (ds ++ rest)) <> 88) ->
  gs_base w pbase (mkgs (fst (sget (pre ++ ds ++ rest))) (snd (sget (pre ++ ds ++ rest))) k bs)
  = (false, (b, match pre with [48] => true | _ => false end),
     mkgs (fst (sget (ds ++ rest))) (snd (sget (ds ++ rest))) (k + len pre) (bs ++ pre)).
Proof.
  intros Hp F Hw Hx. pose proof (prefix_ok_base _ _ _ _ Hp) as Hb. unfold gs_base.
  destruct Hp as [(Hpb & -> & -> & Hne)|[(-> & -> & -> & Hne & Hnz)|[(-> & -> & ->)|(-> & Hpre & -> & Hne)]]].
  - destruct (Z.eqb_spec pbase 0) as [E|_]; [unfold base_ok in Hpb; lia|].
    cbn [app]. rewrite len_nil, Z.add_0_r, app_nil_r. reflexivity.
  - change (0 =? 0) with true. cbv iota. destruct ds as [|c ds]; [contradiction|]. cbn [hd0] in Hnz.
    change ([] ++ (c :: ds) ++ rest) with ((c :: ds) ++ rest). rewrite (hd_sget 10 c ds rest Hb F). cbn [fst snd gc].
    destruct (Z.eqb_spec c 48) as [|_]; [contradiction|].
    rewrite len_nil, Z.add_0_r, app_nil_r. reflexivity.
  - change (0 =? 0) with true. cbv iota. cbn [app]. rewrite (sget_cons 48) by lia. cbn [fst snd gc].
    change (48 =? 48) with true. cbv iota. unfold STORE. cbn [gc gin gchars gbuf].
    rewrite len_cons, len_nil in Hw. rewrite GET_fwd by lia. cbn [gc].
    destruct (Hx eq_refl) as [H120 H88].
    destruct (Z.eqb_spec (fst (sget (ds ++ rest))) 120) as [|_]; [contradiction|].
    destruct (Z.eqb_spec (fst (sget (ds ++ rest))) 88) as [|_]; [contradiction|].
    cbn [orb]. rewrite len_cons, len_nil. reflexivity.
  - change (0 =? 0) with true. cbv iota.
    assert (Hxx : exists x, pre = [48; x] /\ (x = 120 \/ x = 88)).
    { destruct Hpre as [-> | ->]; eexists; split; try reflexivity; tauto. }
    destruct Hxx as (x & -> & Hxv).
    cbn [app]. rewrite (sget_cons 48) by lia. cbn [fst snd gc].
    change (48 =? 48) with true. cbv iota. unfold STORE. cbn [gc gin gchars gbuf].
    rewrite !len_cons, len_nil in Hw. rewrite GET_fwd by lia. cbn [gc gin gchars gbuf].
    rewrite (sget_cons x) by lia. cbn [fst snd].
    assert (Ex : (x =? 120) || (x =? 88) = true) by (destruct Hxv as [-> | ->]; reflexivity).
    rewrite Ex. rewrite GET_fwd by lia.
    rewrite !len_cons, len_nil. rewrite <- app_assoc. cbn [app].
    replace (k + 1 + 1) with (k + (1 + (1 + 0))) by lia.
    destruct Hxv as [-> | ->]; reflexivity.
Qed.

(* the byte after the number does not continue it *)
Definition follow_ok (pre : list Z) (b : Z) (ds rest : list Z) : Prop :=
  digit_ok b (fst (sget rest)) = false
  /\ (pre = [48] -> ds = [] -> fst (sget rest) <> 120 /\ fst (sget rest) <> 88).

Lemma gmpscan_fwd pbase (neg : bool) pre b ds rest ignore :
  prefix_ok pbase pre b ds -> okd b ds -> bytes rest -> follow_ok pre b ds rest ->
  let sg := if neg then [45] else [] in
  len (sg ++ pre ++ ds) < 2147483646 ->
  gmpscan tab 90 pbase 0 ignore (sg ++ pre ++ ds ++ rest)
  = (len (sg ++ pre ++ ds), rest,
     if ignore then None else Some (SVZ (sgn neg (horner b (map dval ds))))).
Proof.
  intros Hp F Hr [Hnext Hfx] sg Hlen. pose proof (prefix_ok_base _ _ _ _ Hp) as Hb.
  set (T := pre ++ ds ++ rest).
  (* the first byte of the number proper *)
  assert (Ht : exists t0 T', sget T = (t0, T') /\ T = t0 :: T' /\ t0 <> 45 /\ t0 <> 43 /\ t0 <> -1 /\ t0 <> 0).
  { unfold T. destruct pre as [|p0 pre'].
    - destruct ds as [|c ds'].
      + exfalso. destruct Hp as [(_ & _ & _ & H)|[(_ & _ & _ & H & _)|[(_ & H & _)|(_ & [H|H] & _)]]];
          try discriminate; contradiction.
      + inversion F as [|c' r' Hc Hrr]; subst c' r'.
        destruct (digit_facts_ok b c Hb Hc) as (H0 & _ & _ & _ & H45 & H43 & Hm1 & _).
        exists c, (ds' ++ rest). cbn [app]. rewrite (sget_cons c _ H0). tauto.
    - assert (p0 = 48).
      { destruct Hp as [(_ & H & _)|[(_ & H & _)|[(_ & H & _)|(_ & [H|H] & _)]]]; try discriminate; congruence. }
      subst p0. exists 48, (pre' ++ ds ++ rest). cbn [app]. rewrite (sget_cons 48) by lia.
      repeat split; lia. }
  destruct Ht as (t0 & T' & EgT & ET & H45 & H43 & Hm1 & H0).
  assert (Hx : pre = [48] -> fst (sget (ds ++ rest)) <> 120 /\ fst (sget (ds ++ rest)) <> 88).
  { intros Hpre. destruct ds as [|c ds']; [cbn [app]; apply Hfx; [exact Hpre|reflexivity]|].
    rewrite (hd_sget b c ds' rest Hb F). cbn [fst].
    inversion F as [|c' r' Hc Hrr]; subst c' r'.
    assert (b = 8).
    { subst pre. destruct Hp as [(_ & H & _)|[(_ & H & _)|[(_ & _ & H)|(_ & [H|H] & _)]]]; try discriminate; exact H. }
    subst b. pose proof (digit_ok_range 8 c Hc). unfold digit_ok, is_digit in Hc.
    change (8 =? 16) with false in Hc. cbv iota in Hc.
    apply andb_prop in Hc. destruct Hc as [Hc _]. apply andb_prop in Hc. destruct Hc as [_ Hc].
    apply Z.leb_le in Hc. lia. }
  pose proof (len_nonneg pre) as Hlp. pose proof (len_nonneg ds) as Hld.
  rewrite !len_app in Hlen.
  (* the state after the sign *)
  assert (Hstart : forall fuel, (length ds < fuel)%nat ->
     (let '(c, r) := sget (sg ++ T) in gs_number fuel 2147483646 pbase (mkgs c r 1 []))
     = Some (false, match pre with [48] => true | _ => false end || negb (len ds =? 0),
             mkgs (fst (sget rest)) (snd (sget rest)) (1 + len sg + len pre + len ds) (sg ++ pre ++ ds))
     /\ fst (sget (sg ++ T)) <> -1).
  { intros fuel Hfuel. subst sg. destruct neg; cbv iota in Hlen |- *.
    - cbn [app]. rewrite (sget_cons 45) by lia. cbn [fst]. split; [|lia].
      unfold gs_number, gs_sign. cbn [gc]. change (45 =? 45) with true. cbv iota.
      unfold STORE. cbn [gc gin gchars gbuf app]. rewrite GET_fwd by lia.
      unfold T. rewrite (gs_base_fwd _ pbase pre b ds rest (1 + 1) [45] Hp F) by (try exact Hx; rewrite len_cons, len_nil in Hlen; lia).
      rewrite (gs_digits_fwd _ b Hb ds fuel _ _ _ rest F Hnext) by (try exact Hfuel; rewrite len_cons, len_nil in Hlen; lia).
      rewrite len_cons, len_nil. rewrite <- !app_assoc. cbn [app].
      replace (1 + 1 + len pre + len ds) with (1 + (1 + 0) + len pre + len ds) by lia. reflexivity.
    - cbn [app]. rewrite EgT. cbn [fst]. split; [|exact Hm1].
      unfold gs_number, gs_sign. cbn [gc].
      destruct (Z.eqb_spec t0 45) as [|_]; [contradiction|]. destruct (Z.eqb_spec t0 43) as [|_]; [contradiction|].
      replace t0 with (fst (sget T)) by (rewrite EgT; reflexivity).
      replace T' with (snd (sget T)) by (rewrite EgT; reflexivity).
      unfold T. rewrite (gs_base_fwd _ pbase pre b ds rest 1 [] Hp F) by (try exact Hx; rewrite len_nil in Hlen; lia).
      rewrite (gs_digits_fwd _ b Hb ds fuel _ _ _ rest F Hnext) by (try exact Hfuel; rewrite len_nil in Hlen; lia).
      rewrite len_nil. cbn [app]. replace (1 + len pre + len ds) with (1 + 0 + len pre + len ds) by lia. reflexivity. }
  unfold gmpscan. change (0 =? 0) with true. cbv iota.
  replace (sg ++ pre ++ ds ++ rest) with (sg ++ T) by reflexivity.
  destruct (Hstart (S (length (sg ++ T)))) as [Hnum Hne].
  { rewrite !app_length. unfold T. rewrite !app_length. lia. }
  destruct (sget (sg ++ T)) as [c r]. cbn [fst] in Hne.
  destruct (Z.eqb_spec c (-1)) as [|_]; [contradiction|].
  rewrite Hnum. change (90 =? 81) with false. rewrite andb_false_r. cbn [andb negb].
  (* seen_digit *)
  assert (Hseen : (match pre with [48] => true | _ => false end || negb (len ds =? 0)) = true).
  { destruct Hp as [(_ & -> & _ & H)|[(_ & -> & _ & H & _)|[(_ & -> & _)|(_ & [-> | ->] & _ & H)]]];
      try reflexivity;
      (destruct ds as [|d0 ds0]; [contradiction|]; rewrite len_cons; pose proof (len_nonneg ds0);
       destruct (Z.eqb_spec (1 + len ds0) 0); [lia|]; cbn [negb orb]; reflexivity). }
  rewrite Hseen. unfold gs_finish. cbn [gchars gc gin gbuf negb].
  pose proof (len_nonneg sg).
  destruct (Z.eqb_spec (1 + len sg + len pre + len ds) (2147483646 + 1)) as [|_]; [lia|].
  destruct (sget_spec rest Hr) as (c' & r' & Eg' & Eu' & _).
  rewrite Eg'. cbn [fst snd]. rewrite Eu'.
  rewrite !len_app. replace (1 + len sg + len pre + len ds - 1) with (len sg + (len pre + len ds)) by lia.
  change (90 =? 81) with false. cbv iota.
  unfold sg. rewrite (convert_ok pbase pre b ds neg Hp F). reflexivity.
Qed.

(* the format "%Z<conv>" runs gmpscan once *)
Definition conv_pbase : list (Z * Z) := [(100, 10); (105, 0); (111, 8); (120, 16); (88, 16)].
Lemma run_Z conv pbase s : In (conv, pbase) conv_pbase ->
  doscan_run tab [37; 90; conv] s =
  let '(n, s1) := skip_white s 0 in
  let '(nc, s2, v) := gmpscan tab 90 pbase 0 false s1 in
  if nc =? -3 then d_done 0 [] s2 (0 + n) St_fuel
  else if nc =? -2 then d_done 0 [] s2 (0 + n) St_eof
  else if nc =? -1 then d_done 0 [] s2 (0 + n) St_invalid
  else d_done (0 + 1) (match v with Some x => [] ++ [x] | None => [] end) s2 (0 + n + nc) St_fmt_end.
Proof.
  intros H. unfold conv_pbase in H.
  repeat (destruct H as [H|H]; [injection H as <- <-; reflexivity|]). contradiction.
Qed.

(* the digit characters mpz_get_str writes *)
Definition dc_check (base d : Z) : bool :=
  let c := digit_char base d in
  digit_ok (Z.abs base) c && (dval c =? d) && implb (c =? 48) (d =? 0).
Lemma dc_facts base b ds : In base [10; 16; -16; 8] -> b = Z.abs base -> Forall (dig b) ds ->
  okd b (map (digit_char base) ds) /\ map dval (map (digit_char base) ds) = ds
  /\ (hd0 ds <> 0 -> hd0 (map (digit_char base) ds) <> 48).
Proof.
  intros Hin -> F.
  assert (Hd : forall d, 0 <= d < Z.abs base -> dc_check base d = true).
  { intros d Hd. cbn [In] in Hin.
    destruct Hin as [<-|[<-|[<-|[<-|[]]]]];
      [apply (range_check (dc_check _) 0 10)|apply (range_check (dc_check _) 0 16)
      |apply (range_check (dc_check _) 0 16)|apply (range_check (dc_check _) 0 8)];
      try (vm_compute; reflexivity); cbn in Hd |- *; lia. }
  split; [|split].
  - unfold okd. rewrite Forall_forall in *. intros c Hc. apply in_map_iff in Hc. destruct Hc as (d & <- & Hdin).
    specialize (Hd d (F d Hdin)). unfold dc_check in Hd. apply andb_prop in Hd. destruct Hd as [Hd _].
    apply andb_prop in Hd. tauto.
  - induction ds as [|d r IH]; [reflexivity|]. inversion F as [|d' r' H1 H2]; subst d' r'.
    cbn [map]. rewrite (IH H2). f_equal. specialize (Hd d H1). unfold dc_check in Hd.
    apply andb_prop in Hd. destruct Hd as [Hd _]. apply andb_prop in Hd. destruct Hd as [_ Hd].
    apply Z.eqb_eq in Hd. exact Hd.
  - destruct ds as [|d r]; [cbn; congruence|]. inversion F as [|d' r' H1 H2]; subst d' r'. cbn [hd0 map].
    intros Hnz E. specialize (Hd d H1). unfold dc_check in Hd. apply andb_prop in Hd. destruct Hd as [_ Hd].
    rewrite E in Hd. cbn in Hd. apply Z.eqb_eq in Hd. contradiction.
Qed.

Lemma c99_plain (h : bool) conv v : 2 <= Z.abs (conv_base conv) ->
  c99_int (mkfl false false false h false) 0 None conv v =
  (if v <? 0 then [45] else [])
  ++ (if h && negb (v =? 0) then (if conv =? 120 then [48; 120] else if conv =? 88 then [48; 88] else []) else [])
  ++ (let ds := mpz_get_str (Z.abs v) (conv_base conv) in
      if h && (conv =? 111) && negb (hd0 ds =? 48) then 48 :: ds else ds).
Proof.
  intros Hb. unfold c99_int. cbn [f_minus f_plus f_space f_hash f_zero]. rewrite andb_false_r.
  destruct (get_str_facts (Z.abs v) (conv_base conv) (Z.abs_nonneg v) Hb) as (_ & Hlen & _).
  rewrite (rep_nonpos 48 (Z.max 0 (1 - len (mpz_get_str (Z.abs v) (conv_base conv))))) by lia.
  cbn [app]. cbv zeta.
  set (body := if h && (conv =? 111) && negb (hd0 (mpz_get_str (Z.abs v) (conv_base conv)) =? 48) then _ else _).
  set (prefix := if h && negb (v =? 0) then _ else _).
  set (sign := if v <? 0 then [45] else []).
  rewrite (rep_nonpos 32) by (pose proof (len_nonneg sign); pose proof (len_nonneg prefix); pose proof (len_nonneg body); lia).
  reflexivity.
Qed.

Definition styles : list (bool * Z * Z) :=
  [(false, 100, 100); (false, 100, 105); (false, 120, 120); (false, 88, 120); (false, 120, 88); (false, 88, 88);
   (false, 111, 111); (true, 120, 105); (true, 88, 105); (true, 111, 105)].
Definition scan_pbase (sconv : Z) : Z :=
  if sconv =? 100 then 10 else if sconv =? 105 then 0 else if sconv =? 111 then 8 else 16.

Lemma printf_plain (hash : bool) pconv v : In pconv [100; 120; 88; 111] ->
  printf_Z (if hash then [35] else []) [] pconv v = c99_int (mkfl false false false hash false) 0 None pconv v.
Proof.
  intros Hin.
  assert (Hc : is_conv pconv = true) by (cbn [In] in Hin; destruct Hin as [<-|[<-|[<-|[<-|[]]]]]; reflexivity).
  destruct hash.
  - apply (layout_is_c99 [35] WNone PNone pconv v eq_refl Hc I I). cbn [prec_of]. apply andb_false_r.
  - apply (layout_is_c99 [] WNone PNone pconv v eq_refl Hc I I). cbn [prec_of]. apply andb_false_r.
Qed.

Lemma digit_ok_8 b c : base_ok b -> digit_ok b c = false -> digit_ok 8 c = false.
Proof.
  intros Hb H. destruct (digit_ok 8 c) eqn:E; [|reflexivity]. exfalso.
  destruct Hb as [-> | [-> | ->]]; [congruence| |].
  - unfold digit_ok in *. change (8 =? 16) with false in E. change (10 =? 16) with false in H.
    change (10 =? 8) with false in H. cbv iota in E, H. cbn [andb negb] in H. rewrite andb_true_r in H.
    apply andb_prop in E. destruct E as [E1 _]. congruence.
  - unfold digit_ok in *. change (8 =? 16) with false in E. change (16 =? 16) with true in H.
    cbv iota in E, H. apply andb_prop in E. destruct E as [E1 _]. unfold isxdigit in H. rewrite E1 in H. discriminate.
Qed.

Ltac solve_bok := unfold base_ok; first [left; reflexivity | right; left; reflexivity | right; right; reflexivity].
Ltac zc1 := split; [reflexivity|]; split; [left; split; [solve_bok|split; [reflexivity|split; [reflexivity|discriminate]]]|];
            split; [constructor; [reflexivity|constructor]|]; split; [reflexivity|]; split; [left; reflexivity|discriminate].
Ltac zc2 := split; [reflexivity|]; split; [right; right; left; split; [reflexivity|split; reflexivity]|];
            split; [constructor|]; split; [reflexivity|]; split; [right; split; reflexivity|reflexivity].

(* what printf_Z prints is a number the matching conversion reads, with the value printed *)
Lemma printed_decomp hash pconv sconv z : In (hash, pconv, sconv) styles ->
  exists pre b ds,
    printf_Z (if hash then [35] else []) [] pconv z = (if z <? 0 then [45] else []) ++ pre ++ ds
    /\ prefix_ok (scan_pbase sconv) pre b ds /\ okd b ds
    /\ sgn (z <? 0) (horner b (map dval ds)) = z
    /\ (b = Z.abs (conv_base pconv) \/ (b = 8 /\ ds = []))
    /\ (pre = [48] -> ds = [] -> z = 0).
Proof.
  intros Hin.
  assert (Hpc : In pconv [100; 120; 88; 111]).
  { unfold styles in Hin. cbn [In] in Hin |- *.
    repeat (destruct Hin as [Hin|Hin]; [injection Hin as <- <- <-; tauto|]). contradiction. }
  rewrite (printf_plain hash pconv z Hpc).
  assert (Hbase : In (conv_base pconv) [10; 16; -16; 8]).
  { cbn [In] in Hpc |- *. destruct Hpc as [<-|[<-|[<-|[<-|[]]]]]; cbn; tauto. }
  assert (Hb2 : 2 <= Z.abs (conv_base pconv) <= 62).
  { cbn [In] in Hbase. destruct Hbase as [<-|[<-|[<-|[<-|[]]]]]; cbn; lia. }
  rewrite (c99_plain hash pconv z) by lia. cbv zeta.
  assert (Hsgn : forall a, a = Z.abs z -> sgn (z <? 0) a = z).
  { intros a ->. unfold sgn. destruct (Z.ltb_spec z 0); lia. }
  destruct (get_str_cases (conv_base pconv) (Z.abs (conv_base pconv)) Hb2 eq_refl (Z.abs z))
    as [[Ez EG]|(d & r & F & Hd0 & Hh & EG)].
  - (* zero *)
    assert (z = 0) by lia. subst z. rewrite EG. cbn [hd0]. change (48 =? 48) with true. cbn [negb].
    rewrite !andb_false_r. change (0 <? 0) with false. cbv iota. cbn [app].
    unfold styles in Hin. cbn [In] in Hin.
    repeat (destruct Hin as [Hin|Hin];
            [injection Hin as <- <- <-;
             first [ exists [], 10, [48]; zc1 | exists [], 16, [48]; zc1 | exists [], 8, [48]; zc1 | exists [48], 8, []; zc2 ]
            |]).
    contradiction.
  - (* non-zero *)
    destruct (Z.ltb_spec (Z.abs z) 0) as [|_]; [lia|]. cbn [app] in EG.
    destruct (dc_facts (conv_base pconv) _ (d :: r) Hbase eq_refl F) as (Hok & Hmap & Hhd).
    specialize (Hhd Hd0). rewrite <- EG in Hok, Hmap, Hhd.
    set (G := mpz_get_str (Z.abs z) (conv_base pconv)) in *.
    assert (HG : G <> []) by (rewrite EG; discriminate).
    assert (Hnz : (z =? 0) = false).
    { apply Z.eqb_neq. intros ->. change (Z.abs (Z.abs 0)) with 0 in Hh.
      pose proof (horner_lower (Z.abs (conv_base pconv)) d r ltac:(lia) F Hd0) as HL.
      assert (0 < Z.abs (conv_base pconv) ^ Z.of_nat (length r)) by (apply Z.pow_pos_nonneg; lia). lia. }
    assert (H48 : (hd0 G =? 48) = false) by (apply Z.eqb_neq; exact Hhd).
    rewrite Hnz, H48. cbn [negb]. rewrite !andb_true_r.
    assert (Hval : sgn (z <? 0) (horner (Z.abs (conv_base pconv)) (map dval G)) = z).
    { apply Hsgn. rewrite Hmap, Hh. apply Z.abs_involutive. }
    unfold styles in Hin. cbn [In] in Hin.
    assert (Hnz1 : forall b, (b = Z.abs (conv_base pconv)) ->
               (base_ok (scan_pbase sconv) /\ b = scan_pbase sconv) \/ (scan_pbase sconv = 0 /\ b = 10) ->
               exists pre b ds, (if z <? 0 then [45] else []) ++ [] ++ G = (if z <? 0 then [45] else []) ++ pre ++ ds
                 /\ prefix_ok (scan_pbase sconv) pre b ds /\ okd b ds /\ sgn (z <? 0) (horner b (map dval ds)) = z
                 /\ (b = Z.abs (conv_base pconv) \/ (b = 8 /\ ds = [])) /\ (pre = [48] -> ds = [] -> z = 0)).
    { intros b Eb Hcase. exists [], b, G. split; [reflexivity|]. split.
      { destruct Hcase as [[H1 H2]|[H1 H2]]; [left; tauto|right; left; tauto]. }
      rewrite Eb. split; [exact Hok|]. split; [exact Hval|]. split; [left; reflexivity|discriminate]. }
    assert (Hnz2 : forall x, (x = 120 \/ x = 88) -> scan_pbase sconv = 0 -> Z.abs (conv_base pconv) = 16 ->
               exists pre b ds, (if z <? 0 then [45] else []) ++ [48; x] ++ G = (if z <? 0 then [45] else []) ++ pre ++ ds
                 /\ prefix_ok (scan_pbase sconv) pre b ds /\ okd b ds /\ sgn (z <? 0) (horner b (map dval ds)) = z
                 /\ (b = Z.abs (conv_base pconv) \/ (b = 8 /\ ds = [])) /\ (pre = [48] -> ds = [] -> z = 0)).
    { intros x Hx Hs Eb. exists [48; x], 16, G. split; [reflexivity|]. split.
      { right; right; right. split; [exact Hs|]. split; [destruct Hx as [-> | ->]; tauto|]. tauto. }
      rewrite <- Eb. split; [exact Hok|]. split; [exact Hval|]. split; [left; reflexivity|discriminate]. }
    assert (Hnz3 : scan_pbase sconv = 0 -> Z.abs (conv_base pconv) = 8 ->
               exists pre b ds, (if z <? 0 then [45] else []) ++ [] ++ 48 :: G = (if z <? 0 then [45] else []) ++ pre ++ ds
                 /\ prefix_ok (scan_pbase sconv) pre b ds /\ okd b ds /\ sgn (z <? 0) (horner b (map dval ds)) = z
                 /\ (b = Z.abs (conv_base pconv) \/ (b = 8 /\ ds = [])) /\ (pre = [48] -> ds = [] -> z = 0)).
    { intros Hs Eb. exists [48], 8, G. split; [reflexivity|]. split; [right; right; left; tauto|].
      rewrite <- Eb. split; [exact Hok|]. split; [exact Hval|]. split; [left; reflexivity|]. intros _ E. contradiction. }
    clearbody G.
    repeat (destruct Hin as [Hin|Hin];
            [injection Hin as <- <- <-;
             first [ apply (Hnz1 _ eq_refl); first [left; split; [solve_bok|reflexivity] | right; split; reflexivity]
                   | apply (Hnz2 120); [left; reflexivity|reflexivity|reflexivity]
                   | apply (Hnz2 88); [right; reflexivity|reflexivity|reflexivity]
                   | apply Hnz3; reflexivity ]
            |]).
    contradiction.
Qed.

Lemma number_head pbase pre b ds (neg : bool) rest : prefix_ok pbase pre b ds -> okd b ds ->
  exists t0 T', (if neg then [45] else []) ++ pre ++ ds ++ rest = t0 :: T' /\ isspace t0 = false /\ t0 <> 0.
Proof.
  intros Hp F. pose proof (prefix_ok_base _ _ _ _ Hp) as Hb.
  destruct neg; [eexists 45, _; cbn [app]; split; [reflexivity|split; [reflexivity|lia]]|].
  cbn [app]. destruct pre as [|p0 pre'].
  - destruct ds as [|c ds'].
    + exfalso. destruct Hp as [(_ & _ & _ & H)|[(_ & _ & _ & H & _)|[(_ & H & _)|(_ & [H|H] & _)]]];
        try discriminate; contradiction.
    + inversion F as [|c' r' Hc Hrr]; subst c' r'.
      destruct (digit_facts_ok b c Hb Hc) as (H0 & Hsp & _).
      eexists c, _. cbn [app]. split; [reflexivity|tauto].
  - assert (p0 = 48).
    { destruct Hp as [(_ & H & _)|[(_ & H & _)|[(_ & H & _)|(_ & [H|H] & _)]]]; try discriminate; congruence. }
    subst p0. eexists 48, _. cbn [app]. split; [reflexivity|split; [reflexivity|lia]].
Qed.

(* (a) ROUND TRIP, integers.  hash: the '#' flag; pconv the printing conversion (d x X o), sconv the reading one
   (styles: d->d, d->i, x->x, X->x, x->X, X->X, o->o, #x->i, #X->i, #o->i).  The bytes printf_Z produces, followed by
   the end of the input or by a byte that is not a digit of the base (and, when a zero is read back with i, not x or X,
   which would turn the "0" into a hex indicator), are read back by "%Z<sconv>" as exactly z: one field assigned,
   exactly the printed bytes consumed.  The printed text is shorter than INT_MAX-1 bytes. *)
Theorem roundtrip_Z hash pconv sconv z rest :
  In (hash, pconv, sconv) styles -> bytes rest ->
  let printed := printf_Z (if hash then [35] else []) [] pconv z in
  digit_ok (Z.abs (conv_base pconv)) (fst (sget rest)) = false ->
  (sconv = 105 -> z = 0 -> fst (sget rest) <> 120 /\ fst (sget rest) <> 88) ->
  len printed < 2147483646 ->
  doscan tab [37; 90; sconv] (printed ++ rest) = (1, [SVZ z], len printed).
Proof.
  intros Hin Hr printed Hnext Hx Hlen.
  destruct (printed_decomp hash pconv sconv z Hin) as (pre & b & ds & E & Hp & Hok & Hval & Hb & Hz).
  fold printed in E.
  assert (Hcp : In (sconv, scan_pbase sconv) conv_pbase).
  { unfold styles in Hin. cbn [In] in Hin. unfold conv_pbase. cbn [In].
    repeat (destruct Hin as [Hin|Hin]; [injection Hin as _ _ <-; cbn; tauto|]). contradiction. }
  assert (Hbok : base_ok (Z.abs (conv_base pconv))).
  { unfold styles in Hin. cbn [In] in Hin.
    repeat (destruct Hin as [Hin|Hin]; [injection Hin as _ <- _; solve_bok|]). contradiction. }
  assert (Hs105 : scan_pbase sconv = 0 -> sconv = 105).
  { unfold scan_pbase. destruct (sconv =? 100); [discriminate|]. destruct (Z.eqb_spec sconv 105); [tauto|].
    destruct (sconv =? 111); discriminate. }
  assert (Hfol : follow_ok pre b ds rest).
  { split.
    - destruct Hb as [-> | [-> _]]; [exact Hnext|]. apply (digit_ok_8 _ _ Hbok Hnext).
    - intros Hpre Hds. apply Hx; [|exact (Hz Hpre Hds)]. apply Hs105.
      subst pre. destruct Hp as [(_ & H & _)|[(_ & H & _)|[(H & _)|(_ & [H|H] & _)]]]; try discriminate; exact H. }
  unfold doscan. rewrite (run_Z sconv (scan_pbase sconv) _ Hcp).
  rewrite E, <- !app_assoc.
  destruct (number_head (scan_pbase sconv) pre b ds (z <? 0) rest Hp Hok) as (t0 & T' & ET & Hsp & Ht0).
  assert (Hsw : skip_white ((if z <? 0 then [45] else []) ++ pre ++ ds ++ rest) 0
                = (0, (if z <? 0 then [45] else []) ++ pre ++ ds ++ rest)).
  { rewrite ET. cbn [skip_white]. destruct (Z.eqb_spec t0 0); [contradiction|]. rewrite Hsp. reflexivity. }
  rewrite Hsw.
  rewrite (gmpscan_fwd (scan_pbase sconv) (z <? 0) pre b ds rest false Hp Hok Hr Hfol) by (rewrite <- E; exact Hlen).
  set (L := len ((if z <? 0 then [45] else []) ++ pre ++ ds)).
  assert (HL : 0 <= L) by apply len_nonneg.
  destruct (Z.eqb_spec L (-3)); [lia|]. destruct (Z.eqb_spec L (-2)); [lia|]. destruct (Z.eqb_spec L (-1)); [lia|].
  unfold d_done. cbn [d_ret d_stores d_rest app]. rewrite Hval.
  f_equal. rewrite !len_app. unfold L. rewrite !len_app. lia.
Qed.

(* the hypotheses are satisfiable: -255 printed with %#Zx, followed by " rest", read back with %Zi *)
Example roundtrip_example :
  In (true, 120, 105) styles /\ bytes [32; 114] /\ digit_ok (Z.abs (conv_base 120)) (fst (sget [32; 114])) = false
  /\ printf_Z [35] [] 120 (-255) = [45; 48; 120; 102; 102]
  /\ doscan tab [37; 90; 105] (printf_Z [35] [] 120 (-255) ++ [32; 114]) = (1, [SVZ (-255)], 5).
Proof.
  split; [cbn; tauto|]. split; [repeat constructor; lia|]. split; [reflexivity|]. split; vm_compute; reflexivity.
Qed.

(* a mixed format evaluated in the model: "%Zd ,%Qi%n %*Zx %ld" on " 12,3/-4 ff -7": the denominator keeps its sign,
   the suppressed field stores nothing, %n is not counted *)
Example doscan_example :
  doscan tab [37; 90; 100; 32; 44; 37; 81; 105; 37; 110; 32; 37; 42; 90; 120; 32; 37; 108; 100]
             [32; 49; 50; 44; 51; 47; 45; 52; 32; 102; 102; 32; 45; 55]
  = (3, [SVZ 12; SVQ 3 (-4); SVN 8; SVL (-7)], 14).
Proof. vm_compute. reflexivity. Qed.

(* (b) for type Q, consumption only: the bytes taken from the input (numerator, '/', denominator) are a prefix of
   the input no longer than the width, and a non-negative return value is their number *)
Lemma finish_case w s j st cons ty pbase ignore seen : pinv w s j st cons ->
  exists ret s' v, gs_finish tab ty pbase w ignore seen st = (ret, s', v) /\ s = cons ++ s' /\ len cons <= w
    /\ (ret = -1 \/ ret = len cons).
Proof.
  intros Hp. destruct (gs_finish_spec w s j st cons ty pbase ignore seen Hp) as (s' & Es & Ef).
  assert (Hl : len cons <= w) by (destruct j; unfold pinv, jinv, inv in Hp; lia).
  rewrite Ef. destruct seen; cbn [negb]; eexists _, s', _; (split; [reflexivity|]); tauto.
Qed.

Theorem gmpscan_width_Q pbase pw ignore s : pbase_ok pbase -> 0 <= pw -> bytes s ->
  exists ret cons s' v, gmpscan tab 81 pbase pw ignore s = (ret, s', v)
    /\ s = cons ++ s' /\ len cons <= eff_width pw
    /\ ((ret = -2 /\ cons = [] /\ fst (sget s) = -1) \/ ret = -1 \/ ret = len cons).
Proof.
  intros Hpb Hpw Hs. unfold gmpscan.
  destruct (sget_spec s Hs) as (c & r & Eg & Eu & Hr & Hlen & Hc). rewrite Eg.
  destruct Hc as [->|[Hc Es]].
  - change (-1 =? -1) with true. cbv iota. exists (-2), [], s, None.
    split; [reflexivity|]. split; [reflexivity|]. split; [unfold eff_width; cbn; destruct (pw =? 0); lia|].
    left. cbn [fst]. tauto.
  - destruct (Z.eqb_spec c (-1)) as [|_]; [lia|].
    fold (eff_width pw).
    destruct (start_inv pw s c r Hpw Hr Hc Es) as [Hi Hm].
    destruct (gs_number_spec (eff_width pw) s pbase (S (length s)) _ [] Hpb Hi Hm)
      as (j & seen & st1 & sg & neg & pre & b & ds & E & _ & _ & _ & _ & Hp & _ & _ & Hm1).
    rewrite E. cbn [app] in Hp.
    assert (Hfin : forall j st cons seen, pinv (eff_width pw) s j st cons ->
              exists ret cons s' v, gs_finish tab 81 pbase (eff_width pw) ignore seen st = (ret, s', v)
                /\ s = cons ++ s' /\ len cons <= eff_width pw
                /\ ((ret = -2 /\ cons = [] /\ fst (c, r) = -1) \/ ret = -1 \/ ret = len cons)).
    { intros j0 st0 cons0 seen0 Hp0.
      destruct (finish_case _ _ _ _ _ 81 pbase ignore seen0 Hp0) as (ret & s' & v & Ef & H1 & H2 & H3).
      exists ret, cons0, s', v. tauto. }
    destruct (negb j && (81 =? 81) && (gc st1 =? 47)) eqn:Econd; [|apply (Hfin _ _ _ _ Hp)].
    apply andb_prop in Econd. destruct Econd as [Econd E47]. apply andb_prop in Econd. destruct Econd as [Ej _].
    destruct j; [discriminate|]. apply Z.eqb_eq in E47.
    destruct seen; cbn [negb]; [|apply (Hfin _ _ _ _ Hp)].
    unfold pinv in Hp.
    destruct (GET_spec _ s (STORE 47 st1) _ (inv_STORE _ _ _ _ 47 Hp)) as (j2 & st2 & EG & _ & Hp2 & Hm2 & _).
    { cbn [STORE gc]. lia. }
    rewrite EG. destruct j2; [apply (Hfin _ _ _ _ Hp2)|].
    unfold pinv in Hp2.
    destruct (gs_number_spec (eff_width pw) s pbase (S (length s)) st2 _ Hpb Hp2)
      as (j3 & seen3 & st3 & sg3 & neg3 & pre3 & b3 & ds3 & E3 & _ & _ & _ & _ & Hp3 & _).
    { change (meas (STORE 47 st1)) with (meas st1) in Hm2. lia. }
    rewrite E3. apply (Hfin _ _ _ _ Hp3).
Qed.

Print Assumptions gmpscan_width_Z.
Print Assumptions doscan_count.
Print Assumptions roundtrip_Z.
Print Assumptions gmpscan_width_Q.
