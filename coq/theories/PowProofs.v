(* PowProofs.v — proofs for C08: Montgomery reduction limb by limb, binvert_limb by Newton
   iteration, binary and fixed-window modular exponentiation, the recombination for even moduli,
   and the mpz_powm wrapper. *)
From Coq Require Import ZArith Znumtheory List Lia Bool.
From Mpir Require Import Word DivDefs GcdDefs GcdProofs PowDefs.
Import ListNotations.
Local Open Scope Z_scope.

(* ------------------------------------------------------------------------------------------ *)
(* generic modular facts                                                                      *)
(* ------------------------------------------------------------------------------------------ *)

Lemma pow_mod_base a e m : 0 <= e -> (a mod m) ^ e mod m = a ^ e mod m.
Proof.
  intros He. revert e He. apply natlike_ind.
  - rewrite !Z.pow_0_r. reflexivity.
  - intros e He IH. rewrite !Z.pow_succ_r by exact He.
    rewrite Zmult_mod, IH, Zmod_mod, <- Zmult_mod. reflexivity.
Qed.

Lemma one_plus_mult_mod c n : 1 < n -> (1 + c * n) mod n = 1.
Proof. intros Hn. rewrite Z_mod_plus_full. apply Z.mod_small. lia. Qed.

(* ------------------------------------------------------------------------------------------ *)
(* redc_1                                                                                     *)
(* ------------------------------------------------------------------------------------------ *)

Lemma redc_div_aux t t0 q m invm k1 k2 k3 b :
  t = b * k3 + t0 -> t0 * invm = b * k1 + q -> m * invm = b * k2 + (b - 1) ->
  t + q * m = (k3 + t0 + t0 * k2 - k1 * m) * b.
Proof.
  intros E3 E1 E2.
  assert (Eq : q = t0 * invm - b * k1) by lia.
  subst q. subst t.
  replace ((t0 * invm - b * k1) * m) with (t0 * (m * invm) - b * k1 * m) by ring.
  rewrite E2. ring.
Qed.

Lemma redc_step_div t m invm : (m * invm) mod B = B - 1 ->
  (t + ((t mod B) * invm mod B) * m) mod B = 0.
Proof.
  intros Hinv. pose proof B_pos as HB.
  pose proof (Z.div_mod t B ltac:(lia)) as E3.
  pose proof (Z.div_mod (t mod B * invm) B ltac:(lia)) as E1.
  pose proof (Z.div_mod (m * invm) B ltac:(lia)) as E2. rewrite Hinv in E2.
  rewrite (redc_div_aux _ _ _ _ _ _ _ _ _ E3 E1 E2).
  apply Z_mod_mult.
Qed.

Lemma redc_loop_inv m invm : (m * invm) mod B = B - 1 -> 0 <= m ->
  forall n t, 0 <= t ->
  exists Q, 0 <= Q < B ^ Z.of_nat n /\ redc_loop n t m invm * B ^ Z.of_nat n = t + Q * m.
Proof.
  intros Hinv Hm. pose proof B_pos as HB.
  induction n as [|k IH]; intros t Ht.
  - exists 0. cbn [redc_loop]. change (Z.of_nat 0) with 0. rewrite Z.pow_0_r. lia.
  - cbn [redc_loop].
    set (q := (t mod B * invm) mod B).
    assert (Hq : 0 <= q < B) by (apply Z.mod_pos_bound; exact HB).
    pose proof (redc_step_div t m invm Hinv) as Hdiv. fold q in Hdiv.
    apply (Z.div_exact _ B ltac:(lia)) in Hdiv.
    assert (Hnn : 0 <= t + q * m) by nia.
    assert (Ht' : 0 <= (t + q * m) / B) by (apply Z.div_pos; lia).
    set (t' := (t + q * m) / B) in *.
    destruct (IH t' Ht') as (Q' & HQ' & EQ').
    exists (q + B * Q').
    rewrite Nat2Z.inj_succ, Z.pow_succ_r by lia.
    set (P := B ^ Z.of_nat k) in *.
    split.
    + nia.
    + replace (redc_loop k t' m invm * (B * P)) with (B * (redc_loop k t' m invm * P)) by ring.
      rewrite EQ'. lia.
Qed.

Lemma redc_1_spec : forall t m n invm,
  0 < m < B ^ Z.of_nat n -> (m * invm) mod B = B - 1 -> 0 <= invm < B -> 0 <= t < B ^ Z.of_nat n * B ^ Z.of_nat n ->
  0 <= redc_1 t m n invm < B ^ Z.of_nat n
  /\ (redc_1 t m n invm * B ^ Z.of_nat n) mod m = t mod m.
Proof.
  intros t m n invm Hm Hinv Hi Ht.
  destruct (redc_loop_inv m invm Hinv ltac:(lia) n t ltac:(lia)) as (Q & HQ & EQ).
  unfold redc_1. set (r := redc_loop n t m invm) in *. set (P := B ^ Z.of_nat n) in *.
  assert (HP : 0 < P) by lia.
  assert (Hr0 : 0 <= r) by nia.
  assert (Hr1 : r < P + m) by nia.
  destruct (Z.leb_spec P r) as [Hge|Hlt].
  - split; [lia|].
    replace ((r - m) * P) with (r * P + (- P) * m) by ring.
    rewrite Z_mod_plus_full, EQ. apply Z_mod_plus_full.
  - split; [lia|]. rewrite EQ. apply Z_mod_plus_full.
Qed.

(* ------------------------------------------------------------------------------------------ *)
(* binvert_limb                                                                               *)
(* ------------------------------------------------------------------------------------------ *)

Lemma B_pow2 : B = 2 ^ 64.
Proof. rewrite B_val. reflexivity. Qed.

Lemma odd_sq_mod8 a : Z.odd a = true -> (a * (a mod 8)) mod 8 = 1.
Proof.
  intros Oa. apply Z.odd_spec in Oa. destruct Oa as (c & Ec).
  pose proof (Z.div_mod a 8 ltac:(lia)) as E.
  pose proof (Z.mod_pos_bound a 8 ltac:(lia)) as Hr.
  set (r := a mod 8) in *. set (q := a / 8) in *.
  assert (Hc : r = 1 \/ r = 3 \/ r = 5 \/ r = 7) by lia.
  rewrite E. replace ((8 * q + r) * r) with (r * r + (q * r) * 8) by ring.
  rewrite Z_mod_plus_full.
  destruct Hc as [Hc|[Hc|[Hc|Hc]]]; rewrite Hc; reflexivity.
Qed.

(* one Newton step doubles the number of correct low bits (capped at the limb size) *)
Lemma newton_step a x j i : (a * x) mod 2 ^ j = 1 -> 1 <= j -> 1 <= i <= 2 * j -> i <= 64 ->
  (a * ((x * (2 - a * x)) mod B)) mod 2 ^ i = 1.
Proof.
  intros Hx Hj Hi Hi64.
  assert (Hpj : 0 < 2 ^ j) by (apply Z.pow_pos_nonneg; lia).
  pose proof (Z.div_mod (a * x) (2 ^ j) ltac:(lia)) as E. rewrite Hx in E.
  set (k := a * x / 2 ^ j) in *.
  pose proof B_pos as HB.
  pose proof (Z.div_mod (x * (2 - a * x)) B ltac:(lia)) as Ey.
  set (y := x * (2 - a * x)) in *. set (d := y / B) in *.
  assert (Eym : y mod B = y - B * d) by lia.
  assert (Eay : a * y = 1 - 2 ^ (2 * j) * (k * k)).
  { unfold y. replace (a * (x * (2 - a * x))) with ((a * x) * (2 - a * x)) by ring.
    rewrite E. replace (2 * j) with (j + j) by lia. rewrite Z.pow_add_r by lia. ring. }
  assert (E2j : 2 ^ (2 * j) = 2 ^ (2 * j - i) * 2 ^ i).
  { rewrite <- Z.pow_add_r by lia. f_equal. lia. }
  assert (EB : B = 2 ^ (64 - i) * 2 ^ i).
  { rewrite B_pow2, <- Z.pow_add_r by lia. f_equal. lia. }
  assert (Hpi : 1 < 2 ^ i).
  { change 1 with (2 ^ 0). apply Z.pow_lt_mono_r; lia. }
  rewrite Eym.
  replace (a * (y - B * d)) with (a * y - a * d * B) by ring.
  rewrite Eay, E2j. rewrite EB at 1.
  set (p := 2 ^ i) in *.
  replace (1 - 2 ^ (2 * j - i) * p * (k * k) - a * d * (2 ^ (64 - i) * p))
    with (1 + (- (2 ^ (2 * j - i) * (k * k)) - a * d * 2 ^ (64 - i)) * p) by ring.
  apply one_plus_mult_mod. exact Hpi.
Qed.

Lemma binvert_limb_spec : forall a, 0 < a < B -> Z.odd a = true -> (a * binvert_limb a) mod B = 1.
Proof.
  intros a Ha Oa. unfold binvert_limb. cbn [newton_inv].
  pose proof (odd_sq_mod8 a Oa) as H0. change 8 with (2 ^ 3) in H0 at 2.
  set (x0 := a mod 8) in *.
  pose proof (newton_step a x0 3 6 H0 ltac:(lia) ltac:(lia) ltac:(lia)) as H1.
  set (x1 := (x0 * (2 - a * x0)) mod B) in *.
  pose proof (newton_step a x1 6 12 H1 ltac:(lia) ltac:(lia) ltac:(lia)) as H2.
  set (x2 := (x1 * (2 - a * x1)) mod B) in *.
  pose proof (newton_step a x2 12 24 H2 ltac:(lia) ltac:(lia) ltac:(lia)) as H3.
  set (x3 := (x2 * (2 - a * x2)) mod B) in *.
  pose proof (newton_step a x3 24 48 H3 ltac:(lia) ltac:(lia) ltac:(lia)) as H4.
  set (x4 := (x3 * (2 - a * x3)) mod B) in *.
  pose proof (newton_step a x4 48 64 H4 ltac:(lia) ltac:(lia) ltac:(lia)) as H5.
  set (x5 := (x4 * (2 - a * x4)) mod B) in *.
  pose proof (newton_step a x5 64 64 H5 ltac:(lia) ltac:(lia) ltac:(lia)) as H6.
  rewrite <- B_pow2 in H6. exact H6.
Qed.

(* ------------------------------------------------------------------------------------------ *)
(* exponentiation: binary and fixed window                                                    *)
(* ------------------------------------------------------------------------------------------ *)

(* value of a bit list (most significant first) pushed onto v *)
Definition valb (l : list bool) (v : Z) : Z :=
  fold_left (fun acc (x : bool) => 2 * acc + (if x then 1 else 0)) l v.

Lemma valb_nil v : valb [] v = v.
Proof. reflexivity. Qed.

Lemma valb_cons x l v : valb (x :: l) v = valb l (2 * v + (if x then 1 else 0)).
Proof. reflexivity. Qed.

Lemma valb_app l1 l2 v : valb (l1 ++ l2) v = valb l2 (valb l1 v).
Proof. unfold valb. apply fold_left_app. Qed.

Lemma valb_nonneg l : forall v, 0 <= v -> 0 <= valb l v.
Proof.
  induction l as [|x l IH]; intros v Hv; [exact Hv|].
  rewrite valb_cons. apply IH. destruct x; lia.
Qed.

Lemma valb_shift l : forall v, valb l v = v * 2 ^ Z.of_nat (length l) + valb l 0.
Proof.
  induction l as [|x l IH]; intros v.
  - cbn [length]. rewrite !valb_nil. change (Z.of_nat 0) with 0. rewrite Z.pow_0_r. lia.
  - rewrite !valb_cons. cbn [length]. rewrite Nat2Z.inj_succ, Z.pow_succ_r by lia.
    rewrite (IH (2 * v + _)), (IH (2 * 0 + _)). ring.
Qed.

Lemma bits_fuel_val : forall f e acc, 0 <= e < 2 ^ Z.of_nat f ->
  valb (bits_fuel f e acc) 0 = valb acc e.
Proof.
  induction f as [|f IH]; intros e acc He.
  - change (2 ^ Z.of_nat 0) with 1 in He. cbn [bits_fuel]. f_equal. lia.
  - cbn [bits_fuel]. destruct (Z.leb_spec e 0) as [Hle|Hgt].
    + f_equal. lia.
    + rewrite Nat2Z.inj_succ, Z.pow_succ_r in He by lia.
      rewrite IH.
      * rewrite valb_cons. f_equal.
        pose proof (Zdiv2_odd_eqn e) as E. rewrite Z.div2_div in E. lia.
      * split; [apply Z.div_pos; lia|]. apply Z.div_lt_upper_bound; lia.
Qed.

Lemma bits_val e : 0 <= e -> valb (bits e) 0 = e.
Proof.
  intros He. unfold bits. rewrite bits_fuel_val; [reflexivity|].
  split; [exact He|].
  pose proof (Z.log2_nonneg e) as Hl.
  rewrite Nat2Z.inj_succ, Z2Nat.id by lia.
  destruct (Z.eq_dec e 0) as [E0|N0].
  - subst e. reflexivity.
  - apply Z.log2_spec. lia.
Qed.

Lemma powm_bin_fold b m (Hm : 0 < m) : forall l v, 0 <= v ->
  fold_left (fun acc (bit : bool) => let s := (acc * acc) mod m in if bit then (s * b) mod m else s)
            l (b ^ v mod m) = b ^ valb l v mod m.
Proof.
  induction l as [|x l IH]; intros v Hv; [reflexivity|].
  cbn [fold_left]. rewrite valb_cons.
  assert (Esq : (b ^ v mod m * (b ^ v mod m)) mod m = b ^ (2 * v) mod m).
  { rewrite <- Zmult_mod. replace (2 * v) with (v + v) by lia.
    rewrite Z.pow_add_r by lia. reflexivity. }
  cbv zeta. rewrite Esq. destruct x.
  - rewrite Zmult_mod_idemp_l.
    replace (b ^ (2 * v) * b) with (b ^ (2 * v + 1)) by (rewrite Z.pow_add_r by lia; rewrite Z.pow_1_r; reflexivity).
    apply IH. lia.
  - replace (2 * v) with (2 * v + 0) at 1 by lia. apply IH. lia.
Qed.

Lemma powm_bin_spec b e m : 0 < m -> 0 <= e -> powm_bin b e m = b ^ e mod m.
Proof.
  intros Hm He. unfold powm_bin.
  replace (1 mod m) with (b ^ 0 mod m) by (rewrite Z.pow_0_r; reflexivity).
  pose proof (powm_bin_fold b m Hm (bits e) 0 ltac:(lia)) as H. cbv zeta in H.
  rewrite H, bits_val by exact He. reflexivity.
Qed.

Lemma take_bits_spec : forall k l acc w rest, take_bits k l acc = (w, rest) ->
  exists pre, l = pre ++ rest /\ w = valb pre acc /\ ((1 <= k)%nat -> l <> [] -> (1 <= length pre)%nat).
Proof.
  induction k as [|k IH]; intros l acc w rest E.
  - cbn [take_bits] in E. inversion E; subst. exists []. split; [reflexivity|]. split; [reflexivity|]. lia.
  - destruct l as [|x l].
    + cbn [take_bits] in E. inversion E; subst. exists []. split; [reflexivity|]. split; [reflexivity|].
      intros _ Hn. exfalso. apply Hn. reflexivity.
    + cbn [take_bits] in E. destruct (IH _ _ _ _ E) as (pre & El & Ew & _).
      exists (x :: pre). split; [rewrite El; reflexivity|]. split; [rewrite valb_cons; exact Ew|].
      intros _ _. cbn [length]. lia.
Qed.

Lemma sq_fold m (l : list nat) : forall x,
  fold_left (fun a (_ : nat) => (a * a) mod m) l (x mod m) = x ^ (2 ^ Z.of_nat (length l)) mod m.
Proof.
  induction l as [|y l IH]; intros x.
  - cbn [fold_left length]. change (2 ^ Z.of_nat 0) with 1. rewrite Z.pow_1_r. reflexivity.
  - cbn [fold_left length]. rewrite <- Zmult_mod, IH.
    rewrite Nat2Z.inj_succ, Z.pow_succ_r by lia.
    assert (Hp : 0 <= 2 ^ Z.of_nat (length l)) by (apply Z.pow_nonneg; lia).
    rewrite (Z.pow_mul_r x 2 _ ltac:(lia) Hp). rewrite Z.pow_2_r. reflexivity.
Qed.

Lemma win_loop_spec k b m (Hk : (1 <= k)%nat) (Hm : 0 < m) : forall fuel l v,
  (length l < fuel)%nat -> 0 <= v ->
  win_loop fuel k b m l (b ^ v mod m) = b ^ valb l v mod m.
Proof.
  induction fuel as [|f IH]; intros l v Hf Hv; [lia|].
  cbn [win_loop]. destruct l as [|x l']; [reflexivity|].
  set (l := x :: l') in *.
  destruct (take_bits k l 0) as [w rest] eqn:Etb.
  destruct (take_bits_spec _ _ _ _ _ Etb) as (pre & El & Ew & Hlen).
  specialize (Hlen Hk ltac:(discriminate)).
  assert (Eused : (length l - length rest)%nat = length pre).
  { rewrite El, app_length. lia. }
  rewrite Eused.
  rewrite (sq_fold m (seq 0 (length pre)) (b ^ v)), seq_length.
  assert (Hp : 0 <= 2 ^ Z.of_nat (length pre)) by (apply Z.pow_nonneg; lia).
  assert (Hw : 0 <= w) by (rewrite Ew; apply valb_nonneg; lia).
  rewrite <- Zmult_mod.
  rewrite <- (Z.pow_mul_r b v _ Hv Hp), <- Z.pow_add_r by nia.
  rewrite Ew, <- valb_shift.
  rewrite IH.
  - rewrite El. rewrite valb_app. reflexivity.
  - rewrite El, app_length in Hf. lia.
  - apply valb_nonneg. exact Hv.
Qed.

Lemma powm_window_spec k b e m : (1 <= k)%nat -> 0 < m -> 0 <= e -> powm_window k b e m = b ^ e mod m.
Proof.
  intros Hk Hm He. unfold powm_window.
  replace (1 mod m) with (b ^ 0 mod m) by (rewrite Z.pow_0_r; reflexivity).
  rewrite (win_loop_spec k b m Hk Hm) by lia.
  rewrite bits_val by exact He. reflexivity.
Qed.

Lemma powm_methods_spec : forall k b e m, 0 < m -> 0 <= e -> (1 <= k)%nat ->
  powm_bin b e m = b ^ e mod m /\ powm_window k b e m = b ^ e mod m.
Proof.
  intros k b e m Hm He Hk. split.
  - apply powm_bin_spec; assumption.
  - apply powm_window_spec; assumption.
Qed.

(* ------------------------------------------------------------------------------------------ *)
(* crt_even                                                                                   *)
(* ------------------------------------------------------------------------------------------ *)

Lemma crt_even_spec : forall x modd t, 0 < modd -> Z.odd modd = true -> 1 <= t ->
  crt_even (x mod modd) (x mod 2 ^ t) modd t = x mod (modd * 2 ^ t).
Proof.
  intros x modd t Hm Om Ht.
  assert (Hp : 1 < 2 ^ t).
  { change 1 with (2 ^ 0). apply Z.pow_lt_mono_r; lia. }
  unfold crt_even. set (p := 2 ^ t) in *.
  assert (Hg : Z.gcd modd p = 1).
  { rewrite Z.gcd_comm. apply gcd_pow2_odd; [lia|exact Om]. }
  assert (Hap : 1 < Z.abs p) by (rewrite Z.abs_eq; lia).
  destruct (invert_spec modd p Hap) as (Hnone & Hsome).
  destruct (mpz_invert modd p) as [i|] eqn:Ei.
  2:{ exfalso. apply (proj1 Hnone); [reflexivity|exact Hg]. }
  destruct (Hsome i eq_refl) as (Hi & Einv). rewrite Z.abs_eq in Hi, Einv by lia.
  pose proof (Z.div_mod x modd ltac:(lia)) as Ex1.
  pose proof (Z.div_mod x p ltac:(lia)) as Ex2.
  pose proof (Z.mod_pos_bound x modd Hm) as Hr1.
  set (r1 := x mod modd) in *. set (r2 := x mod p) in *.
  pose proof (Z.div_mod ((r2 - r1) * i) p ltac:(lia)) as Ey.
  pose proof (Z.mod_pos_bound ((r2 - r1) * i) p ltac:(lia)) as Hy.
  set (y := ((r2 - r1) * i) mod p) in *.
  pose proof (Z.div_mod (modd * i) p ltac:(lia)) as Ei2. rewrite Einv in Ei2.
  set (k1 := (r2 - r1) * i / p) in *. set (k2 := modd * i / p) in *.
  set (k3 := x / p) in *. set (k4 := x / modd) in *.
  set (r := r1 + modd * y).
  assert (Hr : 0 <= r < modd * p) by (unfold r; nia).
  assert (D1 : r - x = (y - k4) * modd) by (unfold r; lia).
  assert (D2 : (p | r - x)).
  { exists ((r2 - r1) * k2 - modd * k1 - k3).
    assert (Ey' : y = (r2 - r1) * i - p * k1) by lia.
    unfold r. rewrite Ey'.
    replace (modd * ((r2 - r1) * i - p * k1)) with ((r2 - r1) * (modd * i) - modd * p * k1) by ring.
    rewrite Ei2. rewrite Ex2 at 1. ring. }
  rewrite D1, Z.mul_comm in D2.
  apply Z.gauss in D2; [|rewrite Z.gcd_comm; exact Hg].
  destruct D2 as (d & Ed).
  apply Z.mod_unique with (q := - d); [left; exact Hr|].
  rewrite Ed in D1. lia.
Qed.

(* ------------------------------------------------------------------------------------------ *)
(* mpz_powm                                                                                   *)
(* ------------------------------------------------------------------------------------------ *)

Definition powm_go (m b e : Z) : res Z :=
  if b =? 0 then Ok 0
  else
    let M := Z.abs m in
    let t := ctz M in
    let modd := M / 2 ^ t in
    let ab := Z.abs b in
    let r1 := powm_bin ab e modd in
    let r := if t =? 0 then r1 else crt_even r1 (powm_bin ab e (2 ^ t)) modd t in
    Ok (if Z.odd e && (b <? 0) && negb (r =? 0) then M - r else r).

Lemma mpz_powm_unfold b e m :
  mpz_powm b e m =
  if m =? 0 then DivByZero
  else if e =? 0 then Ok (if Z.abs m =? 1 then 0 else 1)
  else if e <? 0 then
    match mpz_invert b m with
    | None => DivByZero
    | Some b' => powm_go m b' (- e)
    end
  else powm_go m b e.
Proof. reflexivity. Qed.

Lemma powm_abs_part m b e : m <> 0 -> 0 < e ->
  let M := Z.abs m in
  let t := ctz M in
  let modd := M / 2 ^ t in
  let ab := Z.abs b in
  let r1 := powm_bin ab e modd in
  (if t =? 0 then r1 else crt_even r1 (powm_bin ab e (2 ^ t)) modd t) = Z.abs b ^ e mod Z.abs m.
Proof.
  intros Hm He. cbv zeta.
  assert (HM : 0 < Z.abs m) by lia.
  destruct (strip2_spec (Z.abs m) HM) as (Ps & Os & Es & _).
  pose proof (ctz_nonneg (Z.abs m)) as Ht.
  change (Z.abs m / 2 ^ ctz (Z.abs m)) with (strip2 (Z.abs m)).
  set (M := Z.abs m) in *. set (t := ctz M) in *. set (modd := strip2 M) in *.
  destruct (Z.eqb_spec t 0) as [E0|N0].
  - assert (EM : M = modd) by (rewrite E0, Z.pow_0_r in Es; lia).
    rewrite powm_bin_spec by lia. rewrite EM. reflexivity.
  - assert (Hpt : 0 < 2 ^ t) by (apply Z.pow_pos_nonneg; lia).
    rewrite !powm_bin_spec by lia.
    rewrite crt_even_spec by (try assumption; lia).
    rewrite (Z.mul_comm modd), <- Es. reflexivity.
Qed.

Lemma powm_go_spec m b e : m <> 0 -> 0 < e -> powm_go m b e = Ok (b ^ e mod Z.abs m).
Proof.
  intros Hm He. unfold powm_go.
  destruct (Z.eqb_spec b 0) as [Eb|Nb].
  { subst b. rewrite Z.pow_0_l by exact He. rewrite Zmod_0_l. reflexivity. }
  pose proof (powm_abs_part m b e Hm He) as Hr. cbv zeta in Hr. cbv zeta. rewrite Hr. clear Hr.
  f_equal.
  assert (HM : 0 < Z.abs m) by lia.
  set (M := Z.abs m) in *. set (A := Z.abs b ^ e).
  destruct (Z.odd e) eqn:Oe; cbn [andb].
  - destruct (Z.ltb_spec b 0) as [Hlt|Hge]; cbn [andb].
    + assert (Eb : b ^ e = - A).
      { unfold A. rewrite <- Z.pow_opp_odd by (apply Z.odd_spec; exact Oe).
        f_equal. lia. }
      rewrite Eb.
      destruct (Z.eqb_spec (A mod M) 0) as [Ez|Nz]; cbn [negb].
      * rewrite Z.mod_opp_l_z by lia. exact Ez.
      * rewrite Z.mod_opp_l_nz by lia. reflexivity.
    + unfold A. rewrite Z.abs_eq by lia. reflexivity.
  - unfold A. destruct (Z.abs_spec b) as [[_ Ea]|[_ Ea]]; rewrite Ea; [reflexivity|].
    rewrite Z.pow_opp_even; [reflexivity|].
    apply Z.even_spec. rewrite <- Z.negb_odd, Oe. reflexivity.
Qed.

Lemma mpz_powm_spec : forall b e m,
  (m = 0 -> mpz_powm b e m = DivByZero)
  /\ (m <> 0 -> 0 <= e -> mpz_powm b e m = Ok (b ^ e mod Z.abs m))
  /\ (m <> 0 -> e < 0 -> 1 < Z.abs m -> Z.gcd b m = 1 ->
        exists r, mpz_powm b e m = Ok r /\ 0 <= r < Z.abs m /\ (r * b ^ (- e)) mod Z.abs m = 1)
  /\ (m <> 0 -> e < 0 -> Z.gcd b m <> 1 -> mpz_powm b e m = DivByZero)
  /\ mpz_pow_ui 0 0 = 1.
Proof.
  intros b e m. rewrite mpz_powm_unfold.
  split; [|split; [|split; [|split]]].
  - intros Em. subst m. reflexivity.
  - intros Hm He. destruct (Z.eqb_spec m 0) as [E0|_]; [contradiction|].
    destruct (Z.eqb_spec e 0) as [Ee|Ne].
    + subst e. rewrite Z.pow_0_r. f_equal.
      destruct (Z.eqb_spec (Z.abs m) 1) as [E1|N1].
      * rewrite E1. reflexivity.
      * symmetry. apply Z.mod_small. lia.
    + destruct (Z.ltb_spec e 0) as [Hlt|_]; [lia|].
      apply powm_go_spec; lia.
  - intros Hm He HM Hg. destruct (Z.eqb_spec m 0) as [E0|_]; [contradiction|].
    destruct (Z.eqb_spec e 0) as [Ee|_]; [lia|].
    destruct (Z.ltb_spec e 0) as [_|Hge]; [|lia].
    destruct (invert_spec b m HM) as (Hnone & Hsome).
    destruct (mpz_invert b m) as [b'|] eqn:Ei.
    2:{ exfalso. apply (proj1 Hnone); [reflexivity|exact Hg]. }
    destruct (Hsome b' eq_refl) as (Hb' & Einv).
    rewrite powm_go_spec by lia.
    exists (b' ^ (- e) mod Z.abs m). split; [reflexivity|].
    split; [apply Z.mod_pos_bound; lia|].
    rewrite Zmult_mod_idemp_l, <- Z.pow_mul_l, <- pow_mod_base by lia.
    rewrite (Z.mul_comm b'), Einv, Z.pow_1_l by lia.
    apply Z.mod_small. lia.
  - intros Hm He Hg. destruct (Z.eqb_spec m 0) as [E0|_]; [contradiction|].
    destruct (Z.eqb_spec e 0) as [Ee|_]; [lia|].
    destruct (Z.ltb_spec e 0) as [_|Hge]; [|lia].
    assert (HM : 1 < Z.abs m).
    { destruct (Z.eq_dec (Z.abs m) 1) as [E1|N1]; [|lia].
      exfalso. apply Hg. rewrite <- Z.gcd_abs_r, E1. apply Z.gcd_1_r. }
    destruct (invert_spec b m HM) as (Hnone & _).
    rewrite (proj2 Hnone Hg). reflexivity.
  - reflexivity.
Qed.

Lemma C08_example :
  mpz_powm 2 5 (3 * 2 ^ 64) = Ok 32 /\ mpz_powm 3 (-1) 7 = Ok 5 /\ mpz_powm (-2) 3 5 = Ok 2
  /\ redc_1 (5 * B) 7 1 (B - binvert_limb 7) mod 7 = 5.
Proof. repeat split; vm_compute; reflexivity. Qed.
