(* FftProofs.v — the (depth, w) chosen by the model of mpn_mul_fft_main's size
   selection always satisfies the safety predicate fft_ok of FftDefs.v. *)
From Coq Require Import ZArith List Lia Bool.
From Mpir Require Import FftDefs.
Import ListNotations.
Local Open Scope Z_scope.

(* ------------------------------------------------------------------ *)
(* powers of two                                                        *)

Lemma pow2_pos d : 0 <= d -> 0 < 2 ^ d.
Proof. intros H. apply Z.pow_pos_nonneg; lia. Qed.

Lemma pow2_split d k : 0 <= k <= d -> 2 ^ d = 2 ^ k * 2 ^ (d - k).
Proof. intros H. rewrite <- Z.pow_add_r by lia. f_equal. lia. Qed.

Lemma pow2_lin d : 4 <= d -> d + 3 <= 2 ^ d.
Proof.
  intros H. rewrite (pow2_split d 2) by lia. change (2 ^ 2) with 4.
  pose proof (Z.pow_gt_lin_r 2 (d - 2) ltac:(lia) ltac:(lia)) as G. lia.
Qed.

Lemma pow2_ge64 d : 6 <= d -> 2 ^ d = 64 * 2 ^ (d - 6) /\ 0 < 2 ^ (d - 6).
Proof.
  intros H. split; [|apply pow2_pos; lia].
  rewrite (pow2_split d 6) by lia. reflexivity.
Qed.

Lemma mod64_mul a : (64 * a) mod 64 = 0.
Proof. rewrite Z.mul_comm. apply Z.mod_mul. lia. Qed.

(* ------------------------------------------------------------------ *)
(* division helpers                                                     *)

Lemma div_add_le a b m : 0 < m -> a / m + b / m <= (a + b) / m.
Proof.
  intros Hm. apply Z.div_le_lower_bound; [exact Hm|].
  pose proof (Z.mul_div_le a m Hm). pose proof (Z.mul_div_le b m Hm). lia.
Qed.

Lemma div_chain a bits bits' m :
  0 <= a -> 0 < bits -> 0 < m -> m * bits <= bits' -> a / bits' <= a / bits / m.
Proof.
  intros Ha Hb Hm Hle. rewrite Z.div_div by lia.
  apply Z.div_le_compat_l; [exact Ha|]. split; [nia|lia].
Qed.

Lemma div_upper a b : 0 < b -> a <= b * (a / b) + b - 1.
Proof.
  intros Hb. pose proof (Z.div_mod a b ltac:(lia)). pose proof (Z.mod_pos_bound a b Hb). lia.
Qed.

(* ------------------------------------------------------------------ *)
(* bits                                                                 *)

Lemma bits_two depth w : 2 * fft_bits depth w <= 2 ^ depth * w - (depth + 1).
Proof. unfold fft_bits. apply Z.mul_div_le. lia. Qed.

Lemma bits_ge depth w : 0 <= depth -> 64 <= 2 ^ depth * w -> 1 <= w -> 1 <= fft_bits depth w.
Proof.
  intros Hd Hnw Hw. unfold fft_bits. apply Z.div_le_lower_bound; [lia|].
  destruct (Z_lt_le_dec depth 4) as [C|C]; [lia|].
  pose proof (pow2_lin depth C) as L.
  assert (2 ^ depth * 1 <= 2 ^ depth * w) by (apply Z.mul_le_mono_nonneg_l; lia).
  lia.
Qed.

(* ------------------------------------------------------------------ *)
(* the safety predicate from its arithmetic core                        *)

Lemma fft_ok_intro n1 n2 depth w :
  1 <= n1 -> 1 <= n2 -> 0 <= depth -> 1 <= w -> (2 ^ depth * w) mod 64 = 0 ->
  fft_trunc (n1 * 64) (n2 * 64) depth w <= 4 * 2 ^ depth ->
  fft_ok n1 n2 depth w.
Proof.
  intros H1 H2 Hd Hw Hm Ht. unfold fft_ok. cbv zeta.
  pose proof (pow2_pos depth Hd) as Hn.
  assert (Hnw : 64 <= 2 ^ depth * w).
  { assert (0 < 2 ^ depth * w) by (apply Z.mul_pos_pos; lia).
    apply Z.mod_divide in Hm; [|lia]. destruct Hm as [k Hk]. lia. }
  pose proof (bits_ge depth w Hd Hnw Hw) as Hb.
  pose proof (bits_two depth w) as Hb2.
  unfold fft_trunc in Ht.
  set (n := 2 ^ depth) in *.
  set (bits := fft_bits depth w) in *.
  unfold fft_j in *.
  assert (Hq1 : 0 <= (n1 * 64 - 1) / bits) by (apply Z.div_pos; lia).
  assert (Hq2 : 0 <= (n2 * 64 - 1) / bits) by (apply Z.div_pos; lia).
  set (q1 := (n1 * 64 - 1) / bits) in *.
  set (q2 := (n2 * 64 - 1) / bits) in *.
  split; [exact Hd|]. split; [exact Hw|]. split; [exact Hm|]. split; [exact Hb|].
  split; [exact Ht|].
  assert (HP : 2 <= 2 ^ bits).
  { change 2 with (2 ^ 1) at 1. apply Z.pow_le_mono_r; lia. }
  rewrite (Z.pow_2_r (2 ^ bits - 1)).
  set (P := 2 ^ bits) in *.
  assert (HQ : 0 <= (P - 1) * (P - 1) < P * P) by nia.
  assert (Hmin : 1 <= Z.min (q1 + 1) (q2 + 1) <= 2 * n) by lia.
  assert (HE : 2 * n * (P * P) <= 2 ^ (n * w)).
  { unfold n at 1, P. rewrite <- Z.pow_succ_r by lia. rewrite <- !Z.pow_add_r by lia.
    apply Z.pow_le_mono_r; lia. }
  set (Q := (P - 1) * (P - 1)) in *.
  assert (Z.min (q1 + 1) (q2 + 1) * Q <= 2 * n * Q)
    by (apply Z.mul_le_mono_nonneg_r; lia).
  assert (2 * n * Q < 2 * n * (P * P)) by (apply Z.mul_lt_mono_pos_l; lia).
  lia.
Qed.

(* ------------------------------------------------------------------ *)
(* table adjustment: depth - off, w * 4^off                             *)

Lemma tab_adjust b1 b2 d w off :
  1 <= b1 -> 1 <= b2 -> 6 <= d -> (w = 1 \/ w = 2) -> 0 <= off <= d - 2 ->
  fft_trunc b1 b2 d w <= 4 * 2 ^ d ->
  fft_trunc b1 b2 (d - off) (w * 2 ^ (2 * off)) <= 4 * 2 ^ (d - off).
Proof.
  intros Hb1 Hb2 Hd Hw Hoff Ht.
  pose proof (pow2_pos off ltac:(lia)) as Hm.
  pose proof (pow2_pos (d - off) ltac:(lia)) as Hn'.
  pose proof (pow2_split d off ltac:(lia)) as En.
  assert (Em : 2 ^ (2 * off) = 2 ^ off * 2 ^ off).
  { rewrite <- Z.pow_add_r by lia. f_equal. lia. }
  destruct (pow2_ge64 d Hd) as [E64 P64].
  assert (Hbits : 1 <= fft_bits d w).
  { apply bits_ge; [lia| |lia]. rewrite E64. destruct Hw; subst w; lia. }
  pose proof (bits_two d w) as Hb2'.
  assert (Hle : 2 ^ off * fft_bits d w <= fft_bits (d - off) (w * 2 ^ (2 * off))).
  { unfold fft_bits at 2. apply Z.div_le_lower_bound; [lia|].
    rewrite Em. rewrite En in Hb2'.
    set (m := 2 ^ off) in *. set (n' := 2 ^ (d - off)) in *.
    set (bits := fft_bits d w) in *.
    assert (m * (2 * bits) <= m * (m * n' * w - (d + 1)))
      by (apply Z.mul_le_mono_nonneg_l; lia).
    assert (d + 1 <= m * (d + 1)) by nia.
    lia. }
  unfold fft_trunc in *. unfold fft_j in *.
  rewrite En in Ht.
  set (m := 2 ^ off) in *. set (n' := 2 ^ (d - off)) in *.
  set (bits := fft_bits d w) in *.
  set (bits' := fft_bits (d - off) (w * 2 ^ (2 * off))) in *.
  pose proof (div_chain (b1 - 1) bits bits' m ltac:(lia) ltac:(lia) Hm Hle) as C1.
  pose proof (div_chain (b2 - 1) bits bits' m ltac:(lia) ltac:(lia) Hm Hle) as C2.
  assert (Hq1 : 0 <= (b1 - 1) / bits) by (apply Z.div_pos; lia).
  assert (Hq2 : 0 <= (b2 - 1) / bits) by (apply Z.div_pos; lia).
  set (q1 := (b1 - 1) / bits) in *. set (q2 := (b2 - 1) / bits) in *.
  pose proof (div_add_le q1 q2 m Hm) as C3.
  assert (C4 : (q1 + q2) / m < 4 * n').
  { apply Z.div_lt_upper_bound; [exact Hm|]. lia. }
  lia.
Qed.

(* ------------------------------------------------------------------ *)
(* MFA adjustment: depth - 1, 3 w                                       *)

Lemma mfa_adjust b1 b2 d w :
  1 <= b1 -> 1 <= b2 -> 11 <= d -> (w = 1 \/ w = 2) ->
  fft_trunc b1 b2 d w <= 3 * 2 ^ d ->
  fft_trunc b1 b2 (d - 1) (w * 3) <= 4 * 2 ^ (d - 1).
Proof.
  intros Hb1 Hb2 Hd Hw Ht.
  pose proof (pow2_pos (d - 1) ltac:(lia)) as Hm.
  assert (En : 2 ^ d = 2 * 2 ^ (d - 1)).
  { rewrite <- Z.pow_succ_r by lia. f_equal. lia. }
  destruct (pow2_ge64 d ltac:(lia)) as [E64 P64].
  assert (Hbits : 1 <= fft_bits d w).
  { apply bits_ge; [lia| |lia]. rewrite E64. destruct Hw; subst w; lia. }
  pose proof (bits_two d w) as Hb2'.
  assert (Hb' : 3 * 2 ^ (d - 1) * w - d - 1 <= 2 * fft_bits (d - 1) (w * 3)).
  { unfold fft_bits.
    pose proof (Z.div_mod (2 ^ (d - 1) * (w * 3) - (d - 1 + 1)) 2 ltac:(lia)) as DM.
    pose proof (Z.mod_pos_bound (2 ^ (d - 1) * (w * 3) - (d - 1 + 1)) 2 ltac:(lia)) as MB.
    lia. }
  unfold fft_trunc in *. unfold fft_j in *.
  rewrite En in Ht, Hb2'.
  set (m := 2 ^ (d - 1)) in *.
  set (bits := fft_bits d w) in *.
  set (bits' := fft_bits (d - 1) (w * 3)) in *.
  (* (3n+1) bits <= 2n bits' with n = 2m *)
  assert (Hkey : (6 * m + 1) * bits <= 4 * m * bits').
  { assert (K1 : (6 * m + 1) * (2 * bits) <= (6 * m + 1) * (2 * m * w - (d + 1)))
      by (apply Z.mul_le_mono_nonneg_l; lia).
    assert (K2 : 4 * m * (3 * m * w - d - 1) <= 4 * m * (2 * bits'))
      by (apply Z.mul_le_mono_nonneg_l; lia).
    destruct Hw; subst w; nia. }
  assert (Hbits' : 0 < bits') by nia.
  assert (Hq1 : 0 <= (b1 - 1) / bits) by (apply Z.div_pos; lia).
  assert (Hq2 : 0 <= (b2 - 1) / bits) by (apply Z.div_pos; lia).
  pose proof (div_upper (b1 - 1) bits ltac:(lia)) as U1.
  pose proof (div_upper (b2 - 1) bits ltac:(lia)) as U2.
  set (q1 := (b1 - 1) / bits) in *. set (q2 := (b2 - 1) / bits) in *.
  pose proof (Z.mul_div_le (b1 - 1) bits' Hbits') as L1.
  pose proof (Z.mul_div_le (b2 - 1) bits' Hbits') as L2.
  set (p1 := (b1 - 1) / bits') in *. set (p2 := (b2 - 1) / bits') in *.
  assert (S1 : (q1 + q2 + 2) * bits <= (6 * m + 1) * bits)
    by (apply Z.mul_le_mono_nonneg_r; lia).
  assert (S2 : (p1 + p2) * bits' < 4 * m * bits') by lia.
  destruct (Z_lt_le_dec (p1 + p2) (4 * m)) as [C|C]; [lia|exfalso].
  assert (4 * m * bits' <= (p1 + p2) * bits') by (apply Z.mul_le_mono_nonneg_r; lia).
  lia.
Qed.

(* ------------------------------------------------------------------ *)
(* the two loops                                                        *)

Lemma loop1_inv b1 b2 : forall fuel depth w d' w',
  fft_loop1 fuel b1 b2 depth w = Some (d', w') ->
  6 <= depth -> (w = 1 \/ w = 2) ->
  6 <= d' /\ (w' = 1 \/ w' = 2) /\ fft_trunc b1 b2 d' w' <= 4 * 2 ^ d'.
Proof.
  induction fuel as [|f IH]; intros depth w d' w' H Hd Hw; cbn [fft_loop1] in H.
  - destruct (Z.gtb_spec (fft_trunc b1 b2 depth w) (4 * 2 ^ depth)) as [C|C];
      [discriminate|].
    injection H as <- <-. split; [exact Hd|]. split; [exact Hw|exact C].
  - destruct (Z.gtb_spec (fft_trunc b1 b2 depth w) (4 * 2 ^ depth)) as [C|C].
    + destruct (Z.eqb_spec w 1) as [W|W].
      * apply (IH depth 2 d' w' H Hd). right. reflexivity.
      * apply (IH (depth + 1) 1 d' w' H); [lia|]. left. reflexivity.
    + injection H as <- <-. split; [exact Hd|]. split; [exact Hw|exact C].
Qed.

Definition loop2_I (b1 b2 depth wadj w : Z) : Prop :=
  fft_trunc b1 b2 depth w <= 4 * 2 ^ depth /\ wadj < w /\ (2 ^ depth * w) mod 64 = 0.

Lemma loop2_inv b1 b2 depth wadj : (2 ^ depth * wadj) mod 64 = 0 ->
  forall fuel w w'',
  fft_loop2 fuel b1 b2 depth w wadj = Some w'' ->
  loop2_I b1 b2 depth wadj w -> loop2_I b1 b2 depth wadj (w'' + wadj).
Proof.
  intros Hadj. induction fuel as [|f IH]; intros w w'' H HI; cbn [fft_loop2] in H.
  - destruct (_ && _); [discriminate|]. injection H as <-.
    replace (w - wadj + wadj) with w by lia. exact HI.
  - destruct (Z.leb_spec (fft_trunc b1 b2 depth (w - wadj)) (4 * 2 ^ depth)) as [C1|C1];
      [destruct (Z.gtb_spec (w - wadj) wadj) as [C2|C2]|]; cbn [andb] in H.
    + apply (IH (w - wadj) w'' H). split; [exact C1|]. split; [exact C2|].
      destruct HI as (_ & _ & HM).
      apply Z.mod_divide in HM; [|lia]. apply Z.mod_divide in Hadj; [|lia].
      apply Z.mod_divide; [lia|].
      rewrite Z.mul_sub_distr_l. apply Z.divide_sub_r; assumption.
    + injection H as <-. replace (w - wadj + wadj) with w by lia. exact HI.
    + injection H as <-. replace (w - wadj + wadj) with w by lia. exact HI.
Qed.

(* ------------------------------------------------------------------ *)
(* the tuning table                                                     *)

Lemma tab_of_bound t dd wi : tab_valid t = true -> 0 <= dd <= 4 ->
  0 <= tab_of t dd wi <= dd + 4.
Proof.
  intros Ht Hd. unfold tab_valid in Ht. apply andb_true_iff in Ht. destruct Ht as [_ Ht].
  rewrite forallb_forall in Ht.
  assert (Hin : In (Z.to_nat dd) (seq 0 5)) by (apply in_seq; lia).
  specialize (Ht (Z.to_nat dd) Hin). cbv zeta in Ht.
  rewrite !andb_true_iff, !Z.leb_le in Ht. rewrite Z2Nat.id in Ht by lia.
  unfold tab_of. destruct (wi =? 0); lia.
Qed.

(* ------------------------------------------------------------------ *)
(* main theorem                                                         *)

Theorem fft_params_safe : forall t n1 n2 c,
  tab_valid t = true -> 1 <= n1 -> 1 <= n2 ->
  fft_trunc (n1 * 64) (n2 * 64) 6 1 > 2 * 2 ^ 6 ->
  fft_params (tab_of t) n1 n2 = Some c -> choice_ok n1 n2 c.
Proof.
  intros t n1 n2 c Htab H1 H2 _.
  (* unfold in the goal (not in a hypothesis) and abstract the fuel at once: the kernel
     then compares [fft_params] against its own body without evaluating [fft_loop1 200] *)
  unfold fft_params. cbv zeta. generalize 200%nat. intros fuel Hp.
  destruct (fft_loop1 fuel (n1 * 64) (n2 * 64) 6 1) as [[depth w]|] eqn:L1; [|discriminate].
  apply loop1_inv in L1; [|lia|left; reflexivity]. destruct L1 as (Hd & Hw & Ht).
  assert (Hb1 : 1 <= n1 * 64) by lia. assert (Hb2 : 1 <= n2 * 64) by lia.
  assert (Hw1 : 1 <= w) by (destruct Hw; lia).
  destruct (Z.ltb_spec depth 11) as [C|C].
  - (* truncated sqrt2 FFT with the tuning-table adjustment *)
    pose proof (tab_of_bound t (depth - 6) (w - 1) Htab ltac:(lia)) as Hoff.
    set (off := tab_of t (depth - 6) (w - 1)) in *.
    pose proof (tab_adjust (n1 * 64) (n2 * 64) depth w off Hb1 Hb2 Hd Hw ltac:(lia) Ht)
      as Hadj.
    assert (Hw' : 1 <= w * 2 ^ (2 * off) /\ (2 ^ (depth - off) * (w * 2 ^ (2 * off))) mod 64 = 0).
    { pose proof (pow2_pos (2 * off) ltac:(lia)) as P2. split; [nia|].
      replace (2 * off) with (off + off) by lia. rewrite Z.pow_add_r by lia.
      replace (2 ^ (depth - off) * (w * (2 ^ off * 2 ^ off)))
        with ((2 ^ off * 2 ^ (depth - off)) * (w * 2 ^ off)) by ring.
      rewrite <- (pow2_split depth off) by lia.
      destruct (pow2_ge64 depth Hd) as [E64 _]. rewrite E64.
      rewrite <- Z.mul_assoc. apply mod64_mul. }
    destruct Hw' as [Hw'1 Hw'm].
    set (depth' := depth - off) in *.
    set (w' := w * 2 ^ (2 * off)) in *.
    assert (Hd' : 2 <= depth') by (unfold depth'; lia).
    set (wadj := if depth' <? 6 then 2 ^ (6 - depth') else 1) in *.
    assert (Hwadj : 1 <= wadj /\ (2 ^ depth' * wadj) mod 64 = 0).
    { unfold wadj. destruct (Z.ltb_spec depth' 6) as [D|D].
      - pose proof (pow2_pos (6 - depth') ltac:(lia)). split; [lia|].
        rewrite <- Z.pow_add_r by lia. replace (depth' + (6 - depth')) with 6 by lia.
        reflexivity.
      - split; [lia|]. destruct (pow2_ge64 depth' D) as [E64 _]. rewrite E64.
        rewrite Z.mul_1_r. apply mod64_mul. }
    destruct Hwadj as [Hwadj1 Hwadjm].
    destruct (Z.gtb_spec w' wadj) as [G|G].
    + destruct (fft_loop2 (Z.to_nat w') (n1 * 64) (n2 * 64) depth' w' wadj) as [w''|] eqn:L2;
        [|discriminate].
      injection Hp as <-. cbn [choice_ok].
      apply (loop2_inv (n1 * 64) (n2 * 64) depth' wadj Hwadjm) in L2;
        [|split; [exact Hadj|split; [exact G|exact Hw'm]]].
      destruct L2 as (I1 & I2 & I3).
      apply fft_ok_intro; try assumption; lia.
    + injection Hp as <-. cbn [choice_ok].
      apply fft_ok_intro; try assumption; lia.
  - (* MFA *)
    destruct (pow2_ge64 (depth - 1) ltac:(lia)) as [E64' _].
    destruct (pow2_ge64 depth ltac:(lia)) as [E64 _].
    destruct (Z.leb_spec (fft_trunc (n1 * 64) (n2 * 64) depth w) (3 * 2 ^ depth)) as [T|T].
    + injection Hp as <-. cbn [choice_ok].
      pose proof (mfa_adjust (n1 * 64) (n2 * 64) depth w Hb1 Hb2 C Hw T) as Hadj.
      apply fft_ok_intro; try assumption; try lia.
      rewrite E64', <- Z.mul_assoc. apply mod64_mul.
    + injection Hp as <-. cbn [choice_ok].
      apply fft_ok_intro; try assumption; try lia.
      rewrite E64, <- Z.mul_assoc. apply mod64_mul.
Qed.
