(* IoLoopDefs.v — loop-level models of the general (bit-packing) blocks of mpz/export.c and
   mpz/import.c, as coded.  The four (export) / three (import) fast paths for full aligned
   limbs are not modelled here.  Definitions only (the models and the two loop invariants); proofs in IoLoopProofs.v.

   Conventions: GMP_NUMB_BITS = 64, GMP_NAIL_BITS = 0, HOST_ENDIAN = -1.  The limb array
   {zp, zsize} is a list of limbs, least significant first.  The output (export) / input
   (import) byte buffer is addressed by a Z index that moves exactly as the C pointer dp:
   `dp -= endian` after each byte, `dp += woffset` after each word. *)
From Coq Require Import ZArith List Bool.
From Mpir Require Import Word Limbs IoDefs.
Import ListNotations.
Local Open Scope Z_scope.

(* ---------- machine operations ---------- *)

(* x << n on an mp_limb_t (the high bits fall off) *)
Definition shl64 (x n : Z) : Z := (x * 2 ^ n) mod 2 ^ 64.
(* x >> n on an mp_limb_t *)
Definition shr (x n : Z) : Z := x / 2 ^ n.
(* a store through an unsigned char pointer keeps the low eight bits *)
Definition to_uchar (v : Z) : Z := v mod 256.
(* the MASK argument of EXTRACT: `+ 0` (None) or `& wbitsmask` (Some wbitsmask) *)
Definition apply_mask (mask : option Z) (v : Z) : Z :=
  match mask with None => v | Some m => Z.land v m end.

(* ---------- export: the bit buffer ---------- *)

(* (limb, lbits, limbs not yet read = zp .. zend) *)
Definition bitbuf := (Z * Z * list Z)%type.

(* newlimb = (zp == zend ? 0 : *zp++) *)
Definition read_limb (zs : list Z) : Z * list Z :=
  match zs with [] => (0, []) | z :: r => (z, r) end.

(* EXTRACT (N, MASK): the byte stored through dp and the new buffer *)
Definition extract (N : Z) (mask : option Z) (s : bitbuf) : Z * bitbuf :=
  let '(lm, lbits, zs) := s in
  if N <=? lbits then
    (to_uchar (apply_mask mask lm), (shr lm N, lbits - N, zs))
  else
    let '(newlimb, zs') := read_limb zs in
    (to_uchar (apply_mask mask (Z.lor lm (shl64 newlimb lbits))),
     (shr newlimb (N - lbits), lbits + 64 - N, zs')).

(* the (N, MASK) pairs the code uses: (8, + 0) and (wbits, & wbitsmask) with wbitsmask = 2^wbits - 1 *)
Definition mask_ok (N : Z) (mask : option Z) : Prop :=
  (mask = None /\ N = 8) \/ (mask = Some (2 ^ N - 1) /\ 0 <= N <= 8).

(* The invariant of the bit buffer.  pos bits of X have been delivered; the buffer holds exactly
   the next lbits bits of X, and the limbs not yet read hold all the bits of X after those (X is
   zero-extended: when no limb is left, every further bit is zero). *)
Definition buf_inv (X pos : Z) (s : bitbuf) : Prop :=
  let '(lm, lbits, zs) := s in
  0 <= pos /\ 0 <= lbits < 64 /\ wf zs
  /\ lm = (X / 2 ^ pos) mod 2 ^ lbits
  /\ eval zs = X / 2 ^ (pos + lbits).

(* for (j = 0; j < wbytes; j++) EXTRACT (8, + 0): the bytes in the order they are produced *)
Fixpoint extract_bytes (n : nat) (s : bitbuf) : list Z * bitbuf :=
  match n with
  | O => ([], s)
  | S m => let '(b, s1) := extract 8 None s in
           let '(bs, s2) := extract_bytes m s1 in (b :: bs, s2)
  end.

(* the body of the loop over words, without the pointer: wbytes whole bytes, the partial byte
   if wbits != 0, then '\0' while j < size.  The bytes come least significant first. *)
Definition word_emit (size wbytes wbits wbitsmask : Z) (s : bitbuf) : list Z * bitbuf :=
  let '(bs, s1) := extract_bytes (Z.to_nat wbytes) s in
  let '(pb, s2, j) :=
    if wbits =? 0 then ([], s1, wbytes)
    else let '(b, s2) := extract wbits (Some wbitsmask) s1 in ([b], s2, wbytes + 1) in
  (bs ++ pb ++ repeat 0 (Z.to_nat (size - j)), s2).

(* the pointer: each byte is stored at dp, then dp -= endian.  Result: the stores (index, byte)
   in program order and the final dp. *)
Fixpoint place (bs : list Z) (dp endian : Z) : list (Z * Z) * Z :=
  match bs with
  | [] => ([], dp)
  | b :: t => let '(w, dp') := place t (dp - endian) endian in ((dp, b) :: w, dp')
  end.

(* for (i = 0; i < count; i++) { ...; dp += woffset; } *)
Fixpoint words_loop (count : nat) (size endian wbytes wbits wbitsmask woffset : Z)
    (s : bitbuf) (dp : Z) : list (Z * Z) * bitbuf * Z :=
  match count with
  | O => ([], s, dp)
  | S c =>
      let '(bs, s1) := word_emit size wbytes wbits wbitsmask s in
      let '(w, dp1) := place bs dp endian in
      let '(ws, s2, dp2) :=
        words_loop c size endian wbytes wbits wbitsmask woffset s1 (dp1 + woffset) in
      (w ++ ws, s2, dp2)
  end.

(* the output buffer as a function from index to byte; the stores applied in program order *)
Definition upd (f : Z -> Z) (k v : Z) : Z -> Z := fun i => if i =? k then v else f i.
Definition apply_writes (log : list (Z * Z)) (f : Z -> Z) : Z -> Z :=
  fold_left (fun g p => upd g (fst p) (snd p)) log f.

(* MPN_SIZEINBASE_2EXP (count, zp, zsize, numb) *)
Definition sizeinbase_2exp (ls : list Z) (numb : Z) : Z :=
  let totbits := len ls * 64 - clz (last ls 0) in (totbits + numb - 1) / numb.

Definition host_endian (endian : Z) : Z := if endian =? 0 then -1 else endian.

(* the general block of mpz_export on the limbs ls of |z| (zsize = length ls > 0):
   (stores in program order, final bit buffer, final dp, count) *)
Definition export_run (ls : list Z) (size order endian0 nail : Z)
    : list (Z * Z) * bitbuf * Z * Z :=
  let endian := host_endian endian0 in
  let numb := 8 * size - nail in
  let count := sizeinbase_2exp ls numb in
  let wbytes := numb / 8 in
  let wbits := numb mod 8 in
  let wbitsmask := shl64 1 wbits - 1 in
  let woffset := (if 0 <=? endian then size else - size) + (if order <? 0 then size else - size) in
  let dp := (if 0 <=? order then (count - 1) * size else 0) + (if 0 <=? endian then size - 1 else 0) in
  (words_loop (Z.to_nat count) size endian wbytes wbits wbitsmask woffset (0, 0, ls) dp, count).

(* mpz_export: zsize = 0 returns count 0 and stores nothing; otherwise the general block.
   init is the previous content of the buffer; the result is data[0 .. count*size). *)
Definition export_loop (init : Z -> Z) (ls : list Z) (size order endian nail : Z) : list Z * Z :=
  match ls with
  | [] => ([], 0)
  | _ =>
      let '(log, _, _, count) := export_run ls size order endian nail in
      let out := apply_writes log init in
      (map (fun k => out (Z.of_nat k)) (seq 0 (Z.to_nat (count * size))), count)
  end.

(* The same EXTRACT with the limbs in a memory that continues after zend with stale limbs:
   (limb, lbits, zp) with zp an index into mem and zend = zsize. *)
Definition read_limb_ptr (mem : list Z) (zend zp : nat) : Z * nat :=
  if Nat.eqb zp zend then (0, zp) else (nth zp mem 0, S zp).
Definition extract_ptr (mem : list Z) (zend : nat) (N : Z) (mask : option Z) (s : Z * Z * nat)
    : Z * (Z * Z * nat) :=
  let '(lm, lbits, zp) := s in
  if N <=? lbits then
    (to_uchar (apply_mask mask lm), (shr lm N, lbits - N, zp))
  else
    let '(newlimb, zp') := read_limb_ptr mem zend zp in
    (to_uchar (apply_mask mask (Z.lor lm (shl64 newlimb lbits))),
     (shr newlimb (N - lbits), lbits + 64 - N, zp')).
(* the list view of a pointer state *)
Definition view_ptr (mem : list Z) (zend : nat) (s : Z * Z * nat) : bitbuf :=
  let '(lm, lbits, zp) := s in (lm, lbits, skipn zp (firstn zend mem)).

(* ---------- import ---------- *)

(* (limb, lbits, limbs already stored through zp, least significant first) *)
Definition accbuf := (Z * Z * list Z)%type.

(* ACCUMULATE (N) with the given byte *)
Definition accumulate (N byte : Z) (s : accbuf) : accbuf :=
  let '(lm, lbits, zs) := s in
  let lm := Z.lor lm (shl64 byte lbits) in
  let lbits := lbits + N in
  if 64 <=? lbits then (shr byte (N - (lbits - 64)), lbits - 64, zs ++ [lm])
  else (lm, lbits, zs).

(* The invariant of ACCUMULATE.  pos bits, of value T, have been taken in; the limbs already stored
   hold the low 64*len bits and limb holds the remaining lbits < 64 bits (its two ASSERTs). *)
Definition acc_inv (T pos : Z) (s : accbuf) : Prop :=
  let '(lm, lbits, zs) := s in
  0 <= lbits < 64 /\ wf zs /\ 0 <= lm < 2 ^ lbits
  /\ pos = 64 * len zs + lbits
  /\ T = eval zs + 2 ^ (64 * len zs) * lm.

(* for (j = 0; j < wbytes; j++) { byte = *dp; dp -= endian; ACCUMULATE (8); } *)
Fixpoint accumulate_bytes (n : nat) (data : Z -> Z) (endian : Z) (s : accbuf) (dp : Z) : accbuf * Z :=
  match n with
  | O => (s, dp)
  | S m => accumulate_bytes m data endian (accumulate 8 (data dp) s) (dp - endian)
  end.

Definition import_word (data : Z -> Z) (endian wbytes wbits wbitsmask : Z) (s : accbuf) (dp : Z)
    : accbuf * Z :=
  let '(s1, dp1) := accumulate_bytes (Z.to_nat wbytes) data endian s dp in
  if wbits =? 0 then (s1, dp1)
  else (accumulate wbits (Z.land (data dp1) wbitsmask) s1, dp1 - endian).

Fixpoint import_words (count : nat) (data : Z -> Z) (endian wbytes wbits wbitsmask woffset : Z)
    (s : accbuf) (dp : Z) : accbuf * Z :=
  match count with
  | O => (s, dp)
  | S c =>
      let '(s1, dp1) := import_word data endian wbytes wbits wbitsmask s dp in
      import_words c data endian wbytes wbits wbitsmask woffset s1 (dp1 + woffset)
  end.

(* the general block of mpz_import: (limbs stored, final dp) *)
Definition import_run (bytes : list Z) (count size order endian0 nail : Z) : list Z * Z :=
  let endian := host_endian endian0 in
  let data := fun k => nth (Z.to_nat k) bytes 0 in
  let numb := 8 * size - nail in
  let wbytes := numb / 8 in
  let wbits := numb mod 8 in
  let wbitsmask := shl64 1 wbits - 1 in
  let woffset0 := (numb + 7) / 8 in
  let woffset := (if 0 <=? endian then woffset0 else - woffset0) + (if order <? 0 then size else - size) in
  let dp := (if 0 <=? order then (count - 1) * size else 0) + (if 0 <=? endian then size - 1 else 0) in
  let '(lm, lbits, zs, dp') :=
    import_words (Z.to_nat count) data endian wbytes wbits wbitsmask woffset (0, 0, []) dp in
  (if lbits =? 0 then zs else zs ++ [lm], dp').

(* the value of z after MPN_NORMALIZE (which does not change the value) *)
Definition import_loop (bytes : list Z) (count size order endian nail : Z) : Z :=
  eval (fst (import_run bytes count size order endian nail)).
