(* MpfDivProofs.v — proofs about the bit-exact models of mpf_div, mpf_mul_ui and mpf_div_ui of
   MpfDivDefs.v.  For operands of any length and every precision prec >= 1 limbs
   (p = mpf_get_prec = 64 (prec - 1) bits):
     mpf_div_accurate_sharp, mpf_mul_ui_accurate_sharp, mpf_div_ui_accurate_sharp:
       the result is well formed for prec, never above the exact result in magnitude (truncation
       toward zero), within relative error 2^(-p) of it (acc_ok (p + 2): two bits better than the
       certificate acc_ok p asks for) and equal to it EXACTLY WHEN nothing non-zero is lost
       (div_nothing_lost, mul_ui_nothing_lost, div_ui_nothing_lost: equivalences);
     mpf_div_accurate, mpf_mul_ui_accurate, mpf_div_ui_accurate: the certificate bound 2^(2-p);
     mpf_div_wf, mpf_mul_ui_wf, mpf_div_ui_wf; mpf_div_none_iff, mpf_div_ui_none_iff (the trap);
     mpf_div_exact_when_representable, mpf_div_ui_exact_when_representable: the result equals the
       exact quotient whenever that is a well-formed value of at most prec limbs (whatever the
       lengths of the operands); mpf_mul_ui_exact_when_representable;
     mul_ui_cin_spec: the carry-in loop of mul_ui.c computes exactly the high part of the product of
       the dropped limbs, so that (mpf_mul_ui_unfold) mpf_mul_ui delivers
       floor (fM u * k / B^excess): no error comes from dropping limbs of u before multiplying;
     mpf_div_ui_as_div: mpf_div_ui is mpf_div by the one-limb value k;
     mpf_div_sign, mpf_mul_ui_sign; mpf_mul_ui_recip_family: ceil (B^m / k) / B^m times k is 1;
   Examples for every path, tightness of the bound.  The models are compared bit for bit with the
   C functions on generated vectors in gen/MpfDivVectors.v. *)
From Coq Require Import ZArith List Lia Bool Psatz.
From Mpir Require Import Word DivDefs MpfDefs MpfProofs MpfAddDefs MpfAddProofs MpfSubDefs MpfSubProofs
  MpfDivDefs.
Import ListNotations.
Local Open Scope Z_scope.

(* ---------- integer division of a (vn + prec)-limb dividend by a vn-limb divisor ---------- *)

Lemma quot_bounds D vm vn prec :
  1 <= prec -> 1 <= vn -> B ^ (vn - 1) <= vm < B ^ vn ->
  B ^ (vn + prec - 1) <= D < B ^ (vn + prec) ->
  B ^ (prec - 1) <= D / vm < B ^ (prec + 1) /\ D / vm * vm <= D < (D / vm + 1) * vm.
Proof.
  intros Hp Hvn [Hvlo Hvhi] [HDlo HDhi].
  pose proof B_pos as HB0.
  pose proof (Bpow_pos (vn - 1) ltac:(lia)) as P1.
  assert (Hvm : 0 < vm) by lia.
  pose proof (Z.div_mod D vm ltac:(lia)) as Hdm.
  pose proof (Z.mod_pos_bound D vm Hvm) as Hmb.
  set (q := D / vm) in *. set (r := D mod vm) in *.
  assert (E1 : B ^ (vn + prec - 1) = B ^ (prec - 1) * B ^ vn) by (apply Bpow_split; lia).
  assert (E2 : B ^ (vn + prec) = B ^ (prec + 1) * B ^ (vn - 1)) by (apply Bpow_split; lia).
  pose proof (Bpow_pos (prec - 1) ltac:(lia)) as P2.
  pose proof (Bpow_pos (prec + 1) ltac:(lia)) as P3.
  set (K1 := B ^ (prec - 1)) in *. set (K2 := B ^ (prec + 1)) in *.
  set (V1 := B ^ (vn - 1)) in *. set (V2 := B ^ vn) in *.
  split; [split|].
  - destruct (Z_lt_le_dec q K1) as [Hlt|Hge]; [exfalso | exact Hge].
    assert ((q + 1) * vm <= K1 * vm) by (apply Z.mul_le_mono_nonneg_r; lia).
    assert (K1 * vm < K1 * V2) by (apply Z.mul_lt_mono_pos_l; lia). lia.
  - destruct (Z_lt_le_dec q K2) as [Hlt|Hge]; [exact Hlt | exfalso].
    assert (K2 * V1 <= K2 * vm) by (apply Z.mul_le_mono_nonneg_l; lia).
    assert (K2 * vm <= q * vm) by (apply Z.mul_le_mono_nonneg_r; lia). lia.
  - lia.
Qed.

(* dropping the c low limbs and appending z zero limbs *)
Lemma chop_pad_bounds um un c z :
  0 <= c -> 0 <= z -> c <= un - 1 -> B ^ (un - 1) <= um < B ^ un ->
  B ^ (un - c + z - 1) <= um / B ^ c * B ^ z < B ^ (un - c + z)
  /\ um / B ^ c * B ^ c <= um < (um / B ^ c + 1) * B ^ c.
Proof.
  intros Hc Hz Hcu [Hlo Hhi].
  pose proof B_pos as HB0.
  pose proof (Bpow_pos c Hc) as PC. pose proof (Bpow_pos z Hz) as PZ.
  destruct (div_mod_B um c Hc) as [E Hr].
  pose proof (Bpow_pos (un - 1) ltac:(lia)) as PU.
  pose proof (div_B_bounds um un c ltac:(lia) ltac:(lia)) as [_ Hahi].
  assert (Halo : B ^ (un - c - 1) <= um / B ^ c).
  { apply Z.div_le_lower_bound; [exact PC|]. rewrite <- Bpow_add by lia.
    replace (c + (un - c - 1)) with (un - 1) by lia. exact Hlo. }
  set (a := um / B ^ c) in *.
  split.
  - rewrite (Bpow_split (un - c + z - 1) (un - c - 1) z) by lia.
    rewrite (Bpow_split (un - c + z) (un - c) z) by lia.
    split; [apply Z.mul_le_mono_nonneg_r; lia | apply Z.mul_lt_mono_pos_r; lia].
  - set (C := B ^ c) in *. lia.
Qed.

(* the quotient as computed against the exact quotient um B^z / (vm B^c) *)
Lemma div_quot_core prec um un vm vn :
  1 <= prec -> 1 <= un -> 1 <= vn -> B ^ (un - 1) <= um < B ^ un -> B ^ (vn - 1) <= vm < B ^ vn ->
  let c := Z.max 0 (un - vn - prec) in
  let z := Z.max 0 (prec - un + vn) in
  let q := um / B ^ c * B ^ z / vm in
  B ^ (prec - 1) <= q < B ^ (prec + 1)
  /\ q * (vm * B ^ c) <= um * B ^ z < (q + 1) * (vm * B ^ c).
Proof.
  intros Hp Hun Hvn Hu Hv c z q.
  pose proof B_pos as HB0.
  assert (Hc : 0 <= c) by (unfold c; lia). assert (Hz : 0 <= z) by (unfold z; lia).
  assert (Hcz : c = 0 \/ z = 0) by (unfold c, z; lia).
  assert (Ht : un - c + z = vn + prec) by (unfold c, z; lia).
  destruct (chop_pad_bounds um un c z Hc Hz ltac:(unfold c; lia) Hu) as [HD Ha].
  rewrite Ht in HD.
  destruct (quot_bounds _ vm vn prec Hp Hvn Hv HD) as [Hq Hqd].
  fold q in Hq, Hqd.
  split; [exact Hq|].
  pose proof (Bpow_pos c Hc) as PC. pose proof (Bpow_pos z Hz) as PZ.
  pose proof (Bpow_pos (vn - 1) ltac:(lia)) as PV.
  pose proof (Bpow_pos (prec - 1) ltac:(lia)) as PK.
  assert (Hq0 : 0 <= q) by lia. assert (Hvm : 0 < vm) by lia.
  clearbody q.
  set (a := um / B ^ c) in *. clearbody a.
  split.
  - assert (H1 : q * vm * B ^ c <= a * B ^ z * B ^ c) by (apply Z.mul_le_mono_nonneg_r; lia).
    assert (H2 : a * B ^ c * B ^ z <= um * B ^ z) by (apply Z.mul_le_mono_nonneg_r; lia).
    replace (q * (vm * B ^ c)) with (q * vm * B ^ c) by ring.
    replace (a * B ^ z * B ^ c) with (a * B ^ c * B ^ z) in H1 by ring. lia.
  - destruct Hcz as [Z0|Z0]; rewrite Z0 in *; change (B ^ 0) with 1 in *.
    + rewrite !Z.mul_1_r in *. assert (um = a) by lia. subst a. lia.
    + rewrite !Z.mul_1_r in *.
      assert (H1 : (a + 1) * B ^ c <= (q + 1) * vm * B ^ c) by (apply Z.mul_le_mono_nonneg_r; lia).
      replace ((q + 1) * (vm * B ^ c)) with ((q + 1) * vm * B ^ c) by ring. lia.
Qed.

(* ---------- mpf_div on non-zero operands ---------- *)

Lemma mpf_div_unfold prec u v : fn v <> 0 -> fn u <> 0 ->
  mpf_div prec u v =
    let c := Z.max 0 (fn u - fn v - prec) in
    let z := Z.max 0 (prec - fn u + fn v) in
    let q := fM u / B ^ c * B ^ z / fM v in
    let hz := if top_limb q (prec + 1) =? 0 then 1 else 0 in
    Some (mkf (xorb (fneg u) (fneg v)) q (prec + 1 - hz) (fexp u - fexp v + 1 - hz)).
Proof.
  intros Hv Hu. unfold mpf_div.
  destruct (Z.eqb_spec (fn v) 0) as [Hc|_]; [contradiction|].
  destruct (Z.eqb_spec (fn u) 0) as [Hc|_]; [contradiction|].
  cbv zeta.
  replace (Z.max (- (prec + 1 - (fn u - fn v + 1))) 0) with (Z.max 0 (fn u - fn v - prec)) by lia.
  replace (prec + 1 - (fn u - fn v + 1) + Z.max 0 (fn u - fn v - prec))
    with (Z.max 0 (prec - fn u + fn v)) by lia.
  reflexivity.
Qed.

Lemma mpf_div_core prec u v :
  1 <= prec -> 0 < fM u -> fn u = nlimbs (fM u) -> 0 < fM v -> fn v = nlimbs (fM v) ->
  let c := Z.max 0 (fn u - fn v - prec) in
  let z := Z.max 0 (prec - fn u + fn v) in
  exists q hz,
    mpf_div prec u v = Some (mkf (xorb (fneg u) (fneg v)) q (prec + 1 - hz) (fexp u - fexp v + 1 - hz))
    /\ (hz = 0 \/ hz = 1) /\ 0 < q /\ prec + 1 - hz = nlimbs q /\ B ^ (prec - 1) <= q
    /\ q * (fM v * B ^ c) <= fM u * B ^ z < (q + 1) * (fM v * B ^ c).
Proof.
  intros Hp HMu Hnu HMv Hnv c z.
  pose proof B_pos as HB0.
  pose proof (nlimbs_spec (fM u) HMu) as HuB. rewrite <- Hnu in HuB.
  pose proof (nlimbs_spec (fM v) HMv) as HvB. rewrite <- Hnv in HvB.
  pose proof (nlimbs_pos (fM u) HMu) as Hnu1. rewrite <- Hnu in Hnu1.
  pose proof (nlimbs_pos (fM v) HMv) as Hnv1. rewrite <- Hnv in Hnv1.
  rewrite (mpf_div_unfold prec u v) by lia. cbv zeta. fold c z.
  destruct (div_quot_core prec (fM u) (fn u) (fM v) (fn v) Hp Hnu1 Hnv1 HuB HvB) as [Hq Hqe].
  cbv zeta in Hq, Hqe. fold c z in Hq, Hqe.
  set (q := fM u / B ^ c * B ^ z / fM v) in *.
  pose proof (Bpow_pos (prec - 1) ltac:(lia)) as PK.
  assert (Hq0 : 0 < q) by lia.
  exists q, (if top_limb q (prec + 1) =? 0 then 1 else 0).
  split; [reflexivity|].
  pose proof (top_limb_zero_iff q (prec + 1) ltac:(lia) ltac:(lia)) as Htz.
  replace (prec + 1 - 1) with prec in Htz by lia.
  destruct (Z.eqb_spec (top_limb q (prec + 1)) 0) as [Ez|Ez].
  - split; [auto|]. split; [exact Hq0|].
    split; [|split; [lia | exact Hqe]].
    symmetry. apply nlimbs_unique; [exact Hq0|].
    replace (prec + 1 - 1 - 1) with (prec - 1) by lia. replace (prec + 1 - 1) with prec by lia.
    split; [lia | apply Htz; exact Ez].
  - split; [auto|]. split; [exact Hq0|].
    split; [|split; [lia | exact Hqe]].
    symmetry. apply nlimbs_unique; [exact Hq0|].
    replace (prec + 1 - 0 - 1) with prec by lia. replace (prec + 1 - 0) with (prec + 1) by lia.
    split; [|lia].
    destruct (Z_lt_le_dec q (B ^ prec)) as [Hlt|Hge]; [|exact Hge].
    exfalso. apply Ez, Htz, Hlt.
Qed.

(* ---------- values as scaled integers ---------- *)

Lemma fnum_sgn v : 0 < fM v ->
  Z.sgn (fnum v) = sg (fneg v) /\ Z.abs (fnum v) = sg (fneg v) * fnum v.
Proof.
  intros HM. unfold fnum, sg. cbv zeta.
  pose proof B_pos as HB0.
  destruct (Z.leb_spec 0 (fexp v - fn v)) as [H|H].
  - pose proof (Bpow_pos _ H) as HP.
    assert (Ht : 0 < fM v * B ^ (fexp v - fn v)) by (apply Z.mul_pos_pos; assumption).
    replace (- fM v * B ^ (fexp v - fn v)) with (- (fM v * B ^ (fexp v - fn v))) by ring.
    set (t := fM v * B ^ (fexp v - fn v)) in *.
    destruct (fneg v); lia.
  - destruct (fneg v); lia.
Qed.

Lemma quot_cross nu nv rn du dv rd su sv Mu Mv q Au Av Ar Bu Bv Br C Z G :
  nu * Bu = su * Mu * Au * du -> nv * Bv = sv * Mv * Av * dv ->
  rn * Br = su * sv * q * Ar * rd -> (sv = 1 \/ sv = -1) ->
  Ar * Av * Bu * Z = G -> Au * Br * Bv * C = G ->
  (rn * (du * (sv * nv)) - nu * dv * sv * rd) * (Bu * Bv * Br * C * Z)
     = su * sv * (rd * du * dv * G) * (q * (Mv * C) - Mu * Z)
  /\ nu * dv * sv * rd * (Bu * Bv * Br * C * Z) = su * sv * (rd * du * dv * G) * (Mu * Z).
Proof.
  intros H1 H2 H3 Hs H4 H5. split.
  - transitivity (sv * ((rn * Br) * du * (nv * Bv) * Bu * C * Z - (nu * Bu) * dv * rd * Bv * Br * C * Z));
      [ring|].
    rewrite H1, H2, H3.
    transitivity (su * sv * (rd * du * dv) * ((sv * sv) * q * Mv * C * (Ar * Av * Bu * Z)
                                               - Mu * Z * (Au * Br * Bv * C))); [ring|].
    rewrite H4, H5. destruct Hs; subst sv; ring.
  - transitivity (sv * (nu * Bu) * dv * rd * Bv * Br * C * Z); [ring|].
    rewrite H1.
    transitivity (su * sv * (rd * du * dv) * (Mu * Z * (Au * Br * Bv * C))); [ring|].
    rewrite H5. ring.
Qed.

(* r = s q B^(fexp r - fn r) against u / v, where B^(fexp r - fn r) B^(fexp v - fn v) B^z
   = B^(fexp u - fn u) B^c *)
Lemma quot_reduce u v r c z :
  fneg r = xorb (fneg u) (fneg v) -> 0 < fM v -> 0 <= c -> 0 <= z ->
  (fexp r - fn r) + (fexp v - fn v) + z = (fexp u - fn u) + c ->
  exists Cc W s, 0 < Cc /\ 0 < W /\ (s = 1 \/ s = -1)
    /\ (fnum r * div_den u v - div_num u v * fden r) * W
         = s * Cc * (fM r * (fM v * B ^ c) - fM u * B ^ z)
    /\ div_num u v * fden r * W = s * Cc * (fM u * B ^ z).
Proof.
  intros Hneg HMv Hc Hz Hexp.
  pose proof B_pos as HB0.
  destruct (fnum_sgn v HMv) as [Esg Eabs].
  unfold div_num, div_den. rewrite Esg, Eabs.
  set (ku := Z.abs (fexp u - fn u)). set (kv := Z.abs (fexp v - fn v)).
  set (kr := Z.abs (fexp r - fn r)).
  assert (Hku : 0 <= ku) by lia. assert (Hkv : 0 <= kv) by lia. assert (Hkr : 0 <= kr) by lia.
  assert (Hau : 0 <= ku + (fexp u - fn u)) by lia.
  assert (Hav : 0 <= kv + (fexp v - fn v)) by lia.
  assert (Har : 0 <= kr + (fexp r - fn r)) by lia.
  pose proof (fden_pos u) as Pu. pose proof (fden_pos v) as Pv. pose proof (fden_pos r) as Pr.
  pose proof (Bpow_pos ku Hku) as Pku. pose proof (Bpow_pos kv Hkv) as Pkv.
  pose proof (Bpow_pos kr Hkr) as Pkr.
  pose proof (Bpow_pos _ Hau) as Pau. pose proof (Bpow_pos _ Hav) as Pav.
  pose proof (Bpow_pos _ Har) as Par.
  pose proof (Bpow_pos c Hc) as Pc. pose proof (Bpow_pos z Hz) as Pz.
  pose proof (fnum_scaled u ku Hku Hau) as Eu.
  pose proof (fnum_scaled v kv Hkv Hav) as Ev.
  pose proof (fnum_scaled r kr Hkr Har) as Er.
  rewrite Hneg, sg_xorb in Er.
  assert (E5 : B ^ (ku + (fexp u - fn u)) * B ^ kr * B ^ kv * B ^ c
               = B ^ (kr + (fexp r - fn r)) * B ^ (kv + (fexp v - fn v)) * B ^ ku * B ^ z).
  { rewrite !Bpow_mul4 by assumption. f_equal. lia. }
  destruct (quot_cross _ _ _ _ _ _ _ _ _ _ _ _ _ _ _ _ _ (B ^ c) (B ^ z) _
              Eu Ev Er (sg_cases (fneg v)) eq_refl E5) as [R1 R2].
  exists (fden r * fden u * fden v
          * (B ^ (kr + (fexp r - fn r)) * B ^ (kv + (fexp v - fn v)) * B ^ ku * B ^ z)).
  exists (B ^ ku * B ^ kv * B ^ kr * B ^ c * B ^ z).
  exists (sg (fneg u) * sg (fneg v)).
  split; [repeat apply Z.mul_pos_pos; assumption|].
  split; [repeat apply Z.mul_pos_pos; assumption|].
  split; [destruct (fneg u), (fneg v); simpl; auto|].
  split; [exact R1 | exact R2].
Qed.

(* ---------- mpf_div: the main theorems ---------- *)

Lemma div_den_pos u v : 0 < fM v -> 0 < div_den u v.
Proof.
  intros HMv. unfold div_den. pose proof (fden_pos u). pose proof (fnum_nonzero v HMv).
  apply Z.mul_pos_pos; lia.
Qed.

Lemma mpf_div_none_iff prec u v pv : mpf_wf pv v -> (mpf_div prec u v = None <-> fM v = 0).
Proof.
  intros (Hv0 & Hv1 & _). unfold mpf_div.
  destruct (Z.eqb_spec (fn v) 0) as [Hz|Hnz].
  - split; [intros _|reflexivity].
    destruct (Z.eq_dec (fM v) 0) as [E|NE]; [exact E|].
    destruct (Hv1 NE) as [Hn HM]. pose proof (nlimbs_pos _ HM). lia.
  - split.
    + destruct (fn u =? 0); discriminate.
    + intros E. destruct (Hv0 E). contradiction.
Qed.

(* an exact multiple *)
Lemma between_mod a q m : 0 < m -> q * m <= a < (q + 1) * m -> (a mod m = 0 <-> a = q * m).
Proof.
  intros Hm [Hlo Hhi]. split.
  - intros H0. pose proof (Z.div_mod a m ltac:(lia)) as E. rewrite H0 in E.
    assert (Hq : a / m = q).
    { symmetry. apply Z.div_unique with (r := a - q * m); [left; lia | lia]. }
    rewrite Hq in E. lia.
  - intros ->. apply Z.mod_mul. lia.
Qed.

(* mpf_div on well-formed operands (of ANY lengths), v <> 0, for every destination precision
   prec >= 1 limbs, p = mpf_get_prec = 64 (prec - 1):
   - the result is well formed for prec (prec or prec + 1 limbs, top limb non-zero, or zero);
   - truncation only: |r| <= |u / v|;
   - |r - u / v| < 2^(-p) |u / v|: two bits better than the certificate asks for;
   - r = u / v exactly when u / v is a multiple of the weight of the lowest quotient limb
     (div_nothing_lost), and only then. *)
Theorem mpf_div_accurate_sharp : forall prec u v pu pv,
  1 <= prec -> mpf_wf pu u -> mpf_wf pv v -> fM v <> 0 ->
  exists r, mpf_div prec u v = Some r
  /\ mpf_wf prec r
  /\ Z.abs (fnum r * div_den u v) <= Z.abs (div_num u v * fden r)
  /\ acc_ok (bits_of_prec prec + 2) (div_num u v) (div_den u v) (fnum r) (fden r) = true
  /\ (fnum r * div_den u v = div_num u v * fden r <-> div_nothing_lost prec u v).
Proof.
  intros prec u v pu pv Hp (Hu0 & Hu1 & _) (Hv0 & Hv1 & _) NZv.
  pose proof B_pos as HB0.
  destruct (Hv1 NZv) as [Hnv HMv].
  pose proof (nlimbs_pos (fM v) HMv) as Hnv1. rewrite <- Hnv in Hnv1.
  destruct (Z.eq_dec (fM u) 0) as [Zu|NZu].
  { destruct (Hu0 Zu) as [Hn _].
    exists (mkf false 0 0 0).
    assert (Hr : mpf_div prec u v = Some (mkf false 0 0 0)).
    { unfold mpf_div. destruct (Z.eqb_spec (fn v) 0) as [Hc|_]; [lia|]. rewrite Hn. reflexivity. }
    assert (Hen : div_num u v = 0) by (unfold div_num; rewrite (fnum_zero u Zu); ring).
    split; [exact Hr|]. split; [apply zero_wf; exact Hp|].
    rewrite Hen. split; [reflexivity|]. split; [reflexivity|].
    unfold div_nothing_lost. rewrite Zu. split; intros _; reflexivity. }
  destruct (Hu1 NZu) as [Hnu HMu].
  destruct (mpf_div_core prec u v Hp HMu Hnu HMv Hnv)
    as (q & hz & Hr & Hhz & Hq0 & Hnq & HqK & Hqlo & Hqhi).
  set (c := Z.max 0 (fn u - fn v - prec)) in *.
  set (z := Z.max 0 (prec - fn u + fn v)) in *.
  set (r := mkf (xorb (fneg u) (fneg v)) q (prec + 1 - hz) (fexp u - fexp v + 1 - hz)) in *.
  exists r. split; [exact Hr|].
  assert (Hc : 0 <= c) by (unfold c; lia). assert (Hz : 0 <= z) by (unfold z; lia).
  destruct (quot_reduce u v r c z eq_refl HMv Hc Hz ltac:(unfold r, c, z; cbn [fexp fn]; lia))
    as (Cc & W & s & HCc & HW & Hs & R1 & R2).
  cbn [fM r] in R1.
  pose proof (fden_pos r) as Prd.
  pose proof (Bpow_pos c Hc) as Pc. pose proof (Bpow_pos z Hz) as Pz.
  pose proof (Bpow_pos (prec - 1) ltac:(lia)) as PK.
  assert (HV : 0 < fM v * B ^ c) by (apply Z.mul_pos_pos; assumption).
  assert (HE : 0 < fM u * B ^ z) by (apply Z.mul_pos_pos; assumption).
  set (V := fM v * B ^ c) in *. set (E := fM u * B ^ z) in *.
  assert (HqV : B ^ (prec - 1) * V <= q * V) by (apply Z.mul_le_mono_nonneg_r; lia).
  split.
  { unfold mpf_wf, r. cbn [fM fn fexp]. split; [lia|]. split; [|lia].
    intros _. split; [exact Hnq | exact Hq0]. }
  split.
  { apply (abs_le_from_reduce _ _ W Cc s (q * V) E HW HCc Hs); [lia | | exact R2].
    replace (fnum r * div_den u v * W)
      with ((fnum r * div_den u v - div_num u v * fden r) * W + div_num u v * fden r * W) by ring.
    rewrite R1, R2. ring. }
  split.
  { unfold acc_ok.
    assert (Hen : div_num u v <> 0).
    { intros H0. rewrite H0 in R2. assert (s * Cc * E <> 0); [|lia].
      apply Z.neq_mul_0. split; [apply Z.neq_mul_0; lia | lia]. }
    destruct (Z.eqb_spec (div_num u v) 0) as [Hc0|_]; [contradiction|].
    apply Z.ltb_lt.
    replace (bits_of_prec prec + 2 - 2) with (bits_of_prec prec) by lia.
    rewrite (pow2_bits prec Hp).
    apply (acc_from_reduce _ _ _ W Cc s (q * V - E) E); try assumption; [lia|].
    replace (Z.abs (q * V - E)) with (E - q * V) by lia.
    assert (H1 : (E - q * V) * B ^ (prec - 1) <= V * B ^ (prec - 1))
      by (apply Z.mul_le_mono_nonneg_r; lia).
    destruct (Z.eq_dec (E - q * V) V) as [Eq|Ne]; [lia|].
    assert (H2 : (E - q * V) * B ^ (prec - 1) < V * B ^ (prec - 1))
      by (apply Z.mul_lt_mono_pos_r; lia).
    lia. }
  { unfold div_nothing_lost. fold c z V E.
    rewrite (between_mod E q V HV (conj Hqlo Hqhi)).
    split.
    - intros Heq.
      assert (HX0 : s * Cc * (q * V - E) = 0) by (rewrite <- R1, Heq; ring).
      assert (Hsc : s * Cc <> 0) by (apply Z.neq_mul_0; lia).
      apply Z.mul_eq_0 in HX0. destruct HX0 as [HX0|HX0]; [contradiction | lia].
    - intros Heq. rewrite Heq in R1.
      assert (HX0 : (fnum r * div_den u v - div_num u v * fden r) * W = 0) by (rewrite R1; ring).
      apply Z.mul_eq_0 in HX0. destruct HX0 as [HX0|HX0]; lia. }
Qed.

(* the certificate bound 2^(2-p), and exactness stated as a sufficient condition *)
Theorem mpf_div_accurate : forall prec u v pu pv,
  1 <= prec -> mpf_wf pu u -> mpf_wf pv v -> fM v <> 0 ->
  exists r, mpf_div prec u v = Some r
  /\ mpf_wf prec r
  /\ Z.abs (fnum r * div_den u v) <= Z.abs (div_num u v * fden r)
  /\ acc_ok (bits_of_prec prec) (div_num u v) (div_den u v) (fnum r) (fden r) = true
  /\ (div_nothing_lost prec u v -> fnum r * div_den u v = div_num u v * fden r).
Proof.
  intros prec u v pu pv Hp Hu Hv NZv.
  destruct (mpf_div_accurate_sharp prec u v pu pv Hp Hu Hv NZv) as (r & A0 & A1 & A2 & A3 & A4).
  exists r. split; [exact A0|]. split; [exact A1|]. split; [exact A2|].
  split; [|apply A4].
  apply acc_ok_weaken, acc_ok_weaken.
  replace (bits_of_prec prec + 1 + 1) with (bits_of_prec prec + 2) by lia. exact A3.
Qed.

Theorem mpf_div_wf : forall prec u v pu pv r,
  1 <= prec -> mpf_wf pu u -> mpf_wf pv v -> mpf_div prec u v = Some r -> mpf_wf prec r.
Proof.
  intros prec u v pu pv r Hp Hu Hv Hr.
  assert (NZv : fM v <> 0).
  { intros E. apply (mpf_div_none_iff prec u v pv Hv) in E. congruence. }
  destruct (mpf_div_accurate prec u v pu pv Hp Hu Hv NZv) as (r' & A0 & A1 & _).
  congruence.
Qed.

(* ---------- mpf_mul_ui: the carry-in from the dropped limbs ---------- *)

(* the high part of the product of the i low limbs by k: what an mpn_mul_1 over those limbs would
   return as its carry limb *)
Definition low_carry (um k i : Z) : Z := (um mod B ^ i) * k / B ^ i.

Lemma limb_at_bound M i : 0 <= limb_at M i < B.
Proof. unfold limb_at. apply Z.mod_pos_bound. exact B_pos. Qed.

Lemma mod_succ_limb um j : 0 <= j -> um mod B ^ (j + 1) = um mod B ^ j + B ^ j * limb_at um j.
Proof.
  intros Hj. pose proof B_pos as HB0. pose proof (Bpow_pos j Hj) as PW.
  rewrite Bpow_succ by exact Hj. unfold limb_at.
  apply Z.rem_mul_r; lia.
Qed.

Lemma low_carry_0 um k : low_carry um k 0 = 0.
Proof. unfold low_carry. change (B ^ 0) with 1. rewrite Z.mod_1_r. reflexivity. Qed.

Lemma low_carry_bound um k i : 0 <= i -> 0 <= k < B -> 0 <= low_carry um k i <= B - 2.
Proof.
  intros Hi Hk. unfold low_carry.
  pose proof B_pos as HB0. pose proof B_ge2 as HB2. pose proof (Bpow_pos i Hi) as PW.
  pose proof (Z.mod_pos_bound um (B ^ i) PW) as HL.
  set (L := um mod B ^ i) in *. set (W := B ^ i) in *.
  split.
  - apply Z.div_pos; [apply Z.mul_nonneg_nonneg; lia | exact PW].
  - assert (L * k / W < B - 1); [|lia].
    apply Z.div_lt_upper_bound; [exact PW|].
    assert (L * k <= L * (B - 1)) by (apply Z.mul_le_mono_nonneg_l; lia).
    assert (L * (B - 1) < W * (B - 1)) by (apply Z.mul_lt_mono_pos_r; lia). lia.
Qed.

(* the high limb of umul_ppmm *)
Lemma umul_hi_bound a k : 0 <= a < B -> 0 <= k < B -> 0 <= a * k / B <= B - 2.
Proof.
  intros Ha Hk. pose proof B_pos as HB0. pose proof B_ge2 as HB2.
  assert (Hp : 0 <= a * k <= (B - 1) * (B - 1)).
  { split; [apply Z.mul_nonneg_nonneg; lia|]. apply Z.mul_le_mono_nonneg; lia. }
  split; [apply Z.div_pos; lia|].
  assert (a * k / B < B - 1); [|lia]. apply Z.div_lt_upper_bound; [lia|].
  replace (B * (B - 1)) with ((B - 1) * (B - 1) + (B - 1)) by ring. lia.
Qed.

(* one more limb: umul_ppmm (hi, lo, up[j], vl) and the carry from below *)
Lemma low_carry_step um k j : 0 <= j ->
  low_carry um k (j + 1)
  = limb_at um j * k / B + ((limb_at um j * k) mod B + low_carry um k j) / B.
Proof.
  intros Hj. unfold low_carry.
  pose proof B_pos as HB0. pose proof (Bpow_pos j Hj) as PW.
  rewrite (mod_succ_limb um j Hj). rewrite Bpow_succ by exact Hj.
  set (p := limb_at um j * k). set (L := um mod B ^ j). set (W := B ^ j) in *.
  replace ((L + W * limb_at um j) * k) with (p * W + L * k) by (unfold p; ring).
  rewrite <- Z.div_div by lia.
  rewrite Z.div_add_l by lia.
  set (x := L * k / W).
  rewrite (Z.div_mod p B) at 1 by lia.
  replace (B * (p / B) + p mod B + x) with (p / B * B + (p mod B + x)) by ring.
  rewrite Z.div_add_l by lia. reflexivity.
Qed.

(* the loop finds the carry bit out of the product of the limbs below position i *)
Lemma mul_ui_carry_spec um k : 0 <= k < B ->
  forall fuel i lo cin, 0 <= i < Z.of_nat fuel -> 0 <= lo < B -> 0 <= cin <= B - 2 ->
  mul_ui_carry fuel um k i lo cin = cin + (lo + low_carry um k i) / B.
Proof.
  intros Hk. pose proof B_pos as HB0.
  induction fuel as [|f IH]; intros i lo cin Hi Hlo Hcin; [simpl in Hi; lia|].
  cbn [mul_ui_carry]. cbv zeta.
  destruct (Z.ltb_spec (i - 1) 0) as [Hneg|Hpos].
  - assert (i = 0) by lia. subst i. rewrite low_carry_0, Z.add_0_r, Z.div_small by lia. ring.
  - pose proof (low_carry_step um k (i - 1) Hpos) as Hstep.
    replace (i - 1 + 1) with i in Hstep by lia.
    pose proof (low_carry_bound um k (i - 1) Hpos Hk) as HF.
    pose proof (limb_at_bound um (i - 1)) as HL.
    set (p := limb_at um (i - 1) * k) in *.
    pose proof (umul_hi_bound _ k HL Hk) as Hhi. fold p in Hhi.
    pose proof (Z.mod_pos_bound p B HB0) as Hnlo.
    set (hi := p / B) in *. set (nlo := p mod B) in *.
    set (F' := low_carry um k (i - 1)) in *.
    (* the carry bit from below *)
    assert (Hg : (nlo + F') / B = 0 \/ (nlo + F') / B = 1).
    { assert (0 <= (nlo + F') / B) by (apply Z.div_pos; lia).
      assert ((nlo + F') / B < 2) by (apply Z.div_lt_upper_bound; lia). lia. }
    set (g := (nlo + F') / B) in *.
    rewrite Hstep. clear Hstep.
    pose proof (Z.div_mod (hi + lo) B ltac:(lia)) as Es.
    pose proof (Z.mod_pos_bound (hi + lo) B HB0) as Hsum.
    assert (Hcb : 0 <= (hi + lo) / B) by (apply Z.div_pos; lia).
    assert (Hcb1 : (hi + lo) / B < 2) by (apply Z.div_lt_upper_bound; lia).
    set (cbit := (hi + lo) / B) in *. set (sum := (hi + lo) mod B) in *.
    assert (Ecb : B * cbit = if cbit =? 0 then 0 else B).
    { destruct (Z.eqb_spec cbit 0) as [E|E]; [rewrite E; ring|].
      assert (cbit = 1) by lia. rewrite H. ring. }
    destruct (Z.eqb_spec sum (B - 1)) as [Emax|Nmax]; cbn [negb].
    + (* the carry from below propagates: sum = GMP_NUMB_MAX, no carry out yet *)
      assert (cbit = 0).
      { destruct (Z.eqb_spec cbit 0) as [E|E]; [exact E|]. exfalso. lia. }
      rewrite H, Z.add_0_r, (Z.mod_small cin B) by lia.
      rewrite IH by lia. fold F' g.
      rewrite H in Ecb. cbn [Z.eqb] in Ecb.
      replace (lo + (hi + g)) with (B - 1 + g) by lia.
      destruct Hg as [-> | ->].
      * rewrite Z.add_0_r, Z.div_small by lia. ring.
      * replace (B - 1 + 1) with B by ring. rewrite Z.div_same by lia. ring.
    + (* decided here *)
      rewrite Z.mod_small by lia.
      f_equal. apply Z.div_unique with (r := sum + g); [left; lia | lia].
Qed.

Lemma mul_ui_cin_spec um k e : 1 <= e -> 0 <= k < B -> mul_ui_cin um k e = low_carry um k e.
Proof.
  intros He Hk. pose proof B_pos as HB0. unfold mul_ui_cin. cbv zeta.
  pose proof (limb_at_bound um (e - 1)) as HL.
  set (p := limb_at um (e - 1) * k).
  pose proof (umul_hi_bound _ k HL Hk) as Hhi. fold p in Hhi.
  rewrite (mul_ui_carry_spec um k Hk) by (try apply Z.mod_pos_bound; lia).
  pose proof (low_carry_step um k (e - 1) ltac:(lia)) as Hstep.
  replace (e - 1 + 1) with e in Hstep by lia. rewrite Hstep. reflexivity.
Qed.

(* kept limbs times k plus the carry-in is the full product cut below position e *)
Lemma cut_product um k e : 0 <= e -> um / B ^ e * k + low_carry um k e = um * k / B ^ e.
Proof.
  intros He. unfold low_carry. pose proof (Bpow_pos e He) as PW.
  destruct (div_mod_B um e He) as [E _].
  rewrite E at 3.
  replace ((um / B ^ e * B ^ e + um mod B ^ e) * k) with (um / B ^ e * k * B ^ e + um mod B ^ e * k) by ring.
  rewrite Z.div_add_l by lia. reflexivity.
Qed.

(* cy_limb = mpn_mul_1 (rp, up, size, vl); __GMPN_ADD_1 (cbit, rp, rp, size, cin); cy_limb += cbit *)
Lemma mul_add_recombine up k cin size :
  0 <= size -> 0 <= up < B ^ size -> 0 <= k < B -> 0 <= cin < B ->
  let rp := (up * k) mod B ^ size in
  let cy := (up * k) / B ^ size in
  let cbit := (rp + cin) / B ^ size in
  let rp' := (rp + cin) mod B ^ size in
  let cy' := (cy + cbit) mod B in
  rp' + cy' * B ^ size = up * k + cin /\ cy' = (up * k + cin) / B ^ size.
Proof.
  intros Hs Hup Hk Hcin. pose proof B_pos as HB0. pose proof (Bpow_pos size Hs) as PS.
  cbv zeta.
  set (P := up * k). set (S := B ^ size) in *.
  assert (HP : 0 <= P) by (unfold P; apply Z.mul_nonneg_nonneg; lia).
  assert (HPhi : P + cin < B * S).
  { assert (P <= (S - 1) * (B - 1)) by (unfold P; apply Z.mul_le_mono_nonneg; lia).
    replace ((S - 1) * (B - 1)) with (B * S - S - B + 1) in H by ring. lia. }
  pose proof (Z.div_mod P S ltac:(lia)) as E1. pose proof (Z.mod_pos_bound P S PS) as B1.
  pose proof (Z.div_mod (P mod S + cin) S ltac:(lia)) as E2.
  pose proof (Z.mod_pos_bound (P mod S + cin) S PS) as B2.
  set (rp := P mod S) in *. set (cy := P / S) in *.
  set (cbit := (rp + cin) / S) in *. set (rp' := (rp + cin) mod S) in *.
  assert (Hq : (P + cin) / S = cy + cbit).
  { symmetry. apply Z.div_unique with (r := rp'); [left; lia | lia]. }
  assert (Hq0 : 0 <= (P + cin) / S) by (apply Z.div_pos; lia).
  assert (Hq1 : (P + cin) / S < B) by (apply Z.div_lt_upper_bound; lia).
  rewrite Hq in *. rewrite Z.mod_small by lia. split; [lia | reflexivity].
Qed.

(* ---------- mpf_mul_ui on a non-zero operand ---------- *)

Lemma mpf_mul_ui_unfold prec u k :
  1 <= prec -> 0 < k < B -> 0 < fM u -> fn u = nlimbs (fM u) ->
  mpf_mul_ui prec u k =
    let e := Z.max 0 (fn u - prec) in
    let R := fM u * k / B ^ e in
    let size := fn u - e in
    let cy := if R / B ^ size =? 0 then 0 else 1 in
    mkf (fneg u) R (size + cy) (fexp u + cy).
Proof.
  intros Hp Hk HMu Hnu. pose proof B_pos as HB0.
  pose proof (nlimbs_spec (fM u) HMu) as HuB. rewrite <- Hnu in HuB.
  pose proof (nlimbs_pos (fM u) HMu) as Hnu1. rewrite <- Hnu in Hnu1.
  unfold mpf_mul_ui.
  destruct (Z.eqb_spec k 0) as [Hc|_]; [lia|].
  destruct (Z.eqb_spec (fn u) 0) as [Hc|_]; [lia|].
  cbn [orb]. cbv zeta.
  destruct (Z.ltb_spec 0 (fn u - prec)) as [Hex|Hnex].
  - replace (Z.max 0 (fn u - prec)) with (fn u - prec) by lia.
    replace (fn u - (fn u - prec)) with prec by lia.
    set (e := fn u - prec) in *.
    rewrite (mul_ui_cin_spec (fM u) k e ltac:(lia) ltac:(lia)).
    pose proof (low_carry_bound (fM u) k e ltac:(lia) ltac:(lia)) as Hcin.
    pose proof (div_B_bounds (fM u) (fn u) e ltac:(lia) ltac:(lia)) as Hup.
    replace (fn u - e) with prec in Hup by (unfold e; lia).
    destruct (mul_add_recombine (fM u / B ^ e) k (low_carry (fM u) k e) prec
                ltac:(lia) Hup ltac:(lia) ltac:(lia)) as [E1 E2].
    cbv zeta in E1, E2. rewrite E1, E2.
    rewrite (cut_product (fM u) k e ltac:(lia)). reflexivity.
  - replace (Z.max 0 (fn u - prec)) with 0 by lia.
    replace (fn u - 0) with (fn u) by lia.
    change (B ^ 0) with 1. rewrite Z.div_1_r.
    destruct (mul_add_recombine (fM u) k 0 (fn u) ltac:(lia) ltac:(lia) ltac:(lia) ltac:(lia))
      as [E1 E2].
    cbv zeta in E1, E2. rewrite E1, E2. rewrite Z.add_0_r. reflexivity.
Qed.

Lemma mpf_mul_ui_core prec u k :
  1 <= prec -> 0 < k < B -> 0 < fM u -> fn u = nlimbs (fM u) ->
  let e := Z.max 0 (fn u - prec) in
  exists R cy,
    mpf_mul_ui prec u k = mkf (fneg u) R (fn u - e + cy) (fexp u + cy)
    /\ (cy = 0 \/ cy = 1) /\ 0 < R /\ fn u - e + cy = nlimbs R /\ fn u - e <= prec
    /\ B ^ (fn u - e - 1) <= R
    /\ R * B ^ e <= fM u * k < (R + 1) * B ^ e.
Proof.
  intros Hp Hk HMu Hnu e. pose proof B_pos as HB0.
  pose proof (nlimbs_spec (fM u) HMu) as HuB. rewrite <- Hnu in HuB.
  pose proof (nlimbs_pos (fM u) HMu) as Hnu1. rewrite <- Hnu in Hnu1.
  rewrite (mpf_mul_ui_unfold prec u k Hp Hk HMu Hnu). cbv zeta. fold e.
  assert (He : 0 <= e) by (unfold e; lia).
  assert (Hsz : 1 <= fn u - e) by (unfold e; lia).
  pose proof (Bpow_pos e He) as PE.
  set (size := fn u - e) in *.
  pose proof (Bpow_pos (size - 1) ltac:(lia)) as PS1.
  destruct (div_mod_B (fM u * k) e He) as [Edm Hr].
  (* bounds of the product *)
  assert (HPlo : B ^ (size - 1) * B ^ e <= fM u * k).
  { rewrite <- Bpow_add by lia. replace (size - 1 + e) with (fn u - 1) by (unfold size; lia).
    assert (fM u * 1 <= fM u * k) by (apply Z.mul_le_mono_nonneg_l; lia). lia. }
  assert (HPhi : fM u * k < B ^ (size + 1) * B ^ e).
  { rewrite <- Bpow_add by lia. replace (size + 1 + e) with (fn u + 1) by (unfold size; lia).
    rewrite Bpow_succ by lia.
    assert (fM u * k < B ^ fn u * k) by (apply Z.mul_lt_mono_pos_r; lia).
    assert (B ^ fn u * k <= B ^ fn u * B) by (apply Z.mul_le_mono_nonneg_l; lia). lia. }
  assert (HRlo : B ^ (size - 1) <= fM u * k / B ^ e) by (apply Z.div_le_lower_bound; lia).
  assert (HRhi : fM u * k / B ^ e < B ^ (size + 1)) by (apply Z.div_lt_upper_bound; lia).
  set (R := fM u * k / B ^ e) in *.
  exists R, (if R / B ^ size =? 0 then 0 else 1).
  split; [reflexivity|].
  assert (HR0 : 0 < R) by lia.
  pose proof (top_limb_zero_iff R (size + 1) ltac:(lia) ltac:(lia)) as Htz.
  unfold top_limb in Htz. replace (size + 1 - 1) with size in Htz by lia.
  assert (Hmain : R * B ^ e <= fM u * k < (R + 1) * B ^ e).
  { set (W := B ^ e) in *. set (P := fM u * k) in *. lia. }
  destruct (Z.eqb_spec (R / B ^ size) 0) as [Ez|Ez].
  - split; [auto|]. split; [exact HR0|]. split; [|split; [unfold size, e; lia | split; [exact HRlo | exact Hmain]]].
    symmetry. apply nlimbs_unique; [exact HR0|].
    replace (size + 0 - 1) with (size - 1) by lia. replace (size + 0) with size by lia.
    split; [exact HRlo | apply Htz; exact Ez].
  - split; [auto|]. split; [exact HR0|]. split; [|split; [unfold size, e; lia | split; [exact HRlo | exact Hmain]]].
    symmetry. apply nlimbs_unique; [exact HR0|].
    replace (size + 1 - 1) with size by lia.
    split; [|exact HRhi].
    destruct (Z_lt_le_dec R (B ^ size)) as [Hlt|Hge]; [|exact Hge].
    exfalso. apply Ez, Htz, Hlt.
Qed.

(* ---------- mpf_mul_ui: the main theorems ---------- *)

Lemma fnum_ui k : fnum (mkf false k 1 1) = k.
Proof.
  unfold fnum. cbn [fneg fM fn fexp]. change (1 - 1) with 0. change (0 <=? 0) with true.
  cbv iota. change (B ^ 0) with 1. ring.
Qed.

Lemma fden_ui k : fden (mkf false k 1 1) = 1.
Proof. reflexivity. Qed.

(* mpf_mul_ui on a well-formed operand (of ANY length) and 0 <= k < B, for every destination
   precision prec >= 1 limbs, p = mpf_get_prec = 64 (prec - 1):
   - the result is well formed for prec;
   - truncation only: |r| <= |u k|;
   - |r - u k| < 2^(-p) |u k|;
   - r = u k exactly when the limbs of fM u * k below the cut are zero (mul_ui_nothing_lost), and
     only then: the carry-in makes the result the full product cut to the top limbs, so no error
     comes from dropping limbs of u BEFORE the multiplication. *)
Theorem mpf_mul_ui_accurate_sharp : forall prec u k pu,
  1 <= prec -> mpf_wf pu u -> 0 <= k < B ->
  mpf_wf prec (mpf_mul_ui prec u k)
  /\ Z.abs (fnum (mpf_mul_ui prec u k) * fden u) <= Z.abs (fnum u * k * fden (mpf_mul_ui prec u k))
  /\ acc_ok (bits_of_prec prec + 2) (fnum u * k) (fden u)
            (fnum (mpf_mul_ui prec u k)) (fden (mpf_mul_ui prec u k)) = true
  /\ (fnum (mpf_mul_ui prec u k) * fden u = fnum u * k * fden (mpf_mul_ui prec u k)
      <-> mul_ui_nothing_lost prec u k).
Proof.
  intros prec u k pu Hp (Hu0 & Hu1 & _) Hk.
  pose proof B_pos as HB0.
  assert (Hzero : mpf_mul_ui prec u k = mkf false 0 0 0 -> fnum u * k = 0 -> fM u * k = 0 ->
    mpf_wf prec (mpf_mul_ui prec u k)
    /\ Z.abs (fnum (mpf_mul_ui prec u k) * fden u) <= Z.abs (fnum u * k * fden (mpf_mul_ui prec u k))
    /\ acc_ok (bits_of_prec prec + 2) (fnum u * k) (fden u)
              (fnum (mpf_mul_ui prec u k)) (fden (mpf_mul_ui prec u k)) = true
    /\ (fnum (mpf_mul_ui prec u k) * fden u = fnum u * k * fden (mpf_mul_ui prec u k)
        <-> mul_ui_nothing_lost prec u k)).
  { intros Hr Hen HM. rewrite Hr, Hen. split; [apply zero_wf; exact Hp|].
    split; [reflexivity|]. split; [reflexivity|].
    unfold mul_ui_nothing_lost. rewrite HM. split; intros _; reflexivity. }
  destruct (Z.eq_dec k 0) as [Zk|NZk].
  { apply Hzero; [| rewrite Zk; ring | rewrite Zk; ring].
    unfold mpf_mul_ui. rewrite Zk. reflexivity. }
  destruct (Z.eq_dec (fM u) 0) as [Zu|NZu].
  { destruct (Hu0 Zu) as [Hn _].
    apply Hzero; [| rewrite (fnum_zero u Zu); ring | rewrite Zu; ring].
    unfold mpf_mul_ui. rewrite Hn. rewrite orb_true_r. reflexivity. }
  clear Hzero.
  destruct (Hu1 NZu) as [Hnu HMu].
  destruct (mpf_mul_ui_core prec u k Hp ltac:(lia) HMu Hnu)
    as (R & cy & Hr & Hcy & HR0 & HnR & Hsz & HRlo & Hlo & Hhi).
  set (e := Z.max 0 (fn u - prec)) in *.
  rewrite Hr.
  set (r := mkf (fneg u) R (fn u - e + cy) (fexp u + cy)).
  assert (He : 0 <= e) by (unfold e; lia).
  set (v := mkf false k 1 1).
  destruct (value_reduce u v r e ltac:(unfold r, v; cbn [fneg]; rewrite xorb_false_r; reflexivity) He
              ltac:(unfold r, v; cbn [fexp fn]; lia))
    as (Cc & W & s & HCc & HW & Hs & R1 & R2).
  unfold v in R1, R2. rewrite fnum_ui in R1, R2. rewrite fden_ui, Z.mul_1_r in R1.
  cbn [fM r] in R1, R2.
  pose proof (fden_pos r) as Prd.
  pose proof (Bpow_pos e He) as PE.
  assert (HE : 0 < fM u * k) by (apply Z.mul_pos_pos; lia).
  set (E := fM u * k) in *.
  split.
  { unfold mpf_wf, r. cbn [fM fn fexp]. split; [lia|]. split; [|lia].
    intros _. split; [exact HnR | exact HR0]. }
  split.
  { apply (abs_le_from_reduce _ _ W Cc s (R * B ^ e) E HW HCc Hs); [lia | | exact R2].
    replace (fnum r * fden u * W)
      with ((fnum r * fden u - fnum u * k * fden r) * W + fnum u * k * fden r * W) by ring.
    rewrite R1, R2. ring. }
  split.
  { unfold acc_ok.
    assert (Hen : fnum u * k <> 0).
    { apply Z.neq_mul_0. split; [apply fnum_nonzero; exact HMu | exact NZk]. }
    destruct (Z.eqb_spec (fnum u * k) 0) as [Hc0|_]; [contradiction|].
    apply Z.ltb_lt.
    replace (bits_of_prec prec + 2 - 2) with (bits_of_prec prec) by lia.
    rewrite (pow2_bits prec Hp).
    apply (acc_from_reduce _ _ _ W Cc s (R * B ^ e - E) E); try assumption; [lia|].
    replace (Z.abs (R * B ^ e - E)) with (E - R * B ^ e) by lia.
    destruct (Z.eq_dec e 0) as [Ze|NZe].
    - rewrite Ze in *. change (B ^ 0) with 1 in *. replace (E - R * 1) with 0 by lia. lia.
    - assert (Hsize : fn u - e = prec) by (unfold e in *; lia).
      rewrite Hsize in HRlo.
      pose proof (Bpow_pos (prec - 1) ltac:(lia)) as PK.
      assert (H1 : (E - R * B ^ e) * B ^ (prec - 1) < B ^ e * B ^ (prec - 1))
        by (apply Z.mul_lt_mono_pos_r; lia).
      assert (H2 : B ^ e * B ^ (prec - 1) <= B ^ e * R) by (apply Z.mul_le_mono_nonneg_l; lia).
      lia. }
  { unfold mul_ui_nothing_lost. fold e E.
    rewrite (between_mod E R (B ^ e) PE (conj Hlo Hhi)).
    split.
    - intros Heq.
      assert (HX0 : s * Cc * (R * B ^ e - E) = 0) by (rewrite <- R1, Heq; ring).
      assert (Hsc : s * Cc <> 0) by (apply Z.neq_mul_0; lia).
      apply Z.mul_eq_0 in HX0. destruct HX0 as [HX0|HX0]; [contradiction | lia].
    - intros Heq. rewrite <- Heq in R1.
      assert (HX0 : (fnum r * fden u - fnum u * k * fden r) * W = 0) by (rewrite R1; ring).
      apply Z.mul_eq_0 in HX0. destruct HX0 as [HX0|HX0]; lia. }
Qed.

Theorem mpf_mul_ui_accurate : forall prec u k pu,
  1 <= prec -> mpf_wf pu u -> 0 <= k < B ->
  mpf_wf prec (mpf_mul_ui prec u k)
  /\ Z.abs (fnum (mpf_mul_ui prec u k) * fden u) <= Z.abs (fnum u * k * fden (mpf_mul_ui prec u k))
  /\ acc_ok (bits_of_prec prec) (fnum u * k) (fden u)
            (fnum (mpf_mul_ui prec u k)) (fden (mpf_mul_ui prec u k)) = true
  /\ (mul_ui_nothing_lost prec u k ->
      fnum (mpf_mul_ui prec u k) * fden u = fnum u * k * fden (mpf_mul_ui prec u k)).
Proof.
  intros prec u k pu Hp Hu Hk.
  destruct (mpf_mul_ui_accurate_sharp prec u k pu Hp Hu Hk) as (A1 & A2 & A3 & A4).
  split; [exact A1|]. split; [exact A2|]. split; [|apply A4].
  apply acc_ok_weaken, acc_ok_weaken.
  replace (bits_of_prec prec + 1 + 1) with (bits_of_prec prec + 2) by lia. exact A3.
Qed.

Theorem mpf_mul_ui_wf : forall prec u k pu,
  1 <= prec -> mpf_wf pu u -> 0 <= k < B -> mpf_wf prec (mpf_mul_ui prec u k).
Proof. intros prec u k pu Hp Hu Hk. exact (proj1 (mpf_mul_ui_accurate prec u k pu Hp Hu Hk)). Qed.

(* the product is exact whenever u has at most prec limbs, or its dropped limbs are zero *)
Theorem mpf_mul_ui_exact_when_representable : forall prec u k pu,
  1 <= prec -> mpf_wf pu u -> 0 <= k < B ->
  (fn u <= prec \/ fM u mod B ^ (fn u - prec) = 0) ->
  fnum (mpf_mul_ui prec u k) * fden u = fnum u * k * fden (mpf_mul_ui prec u k).
Proof.
  intros prec u k pu Hp Hu Hk Hfit.
  apply (proj2 (proj2 (proj2 (mpf_mul_ui_accurate prec u k pu Hp Hu Hk)))).
  unfold mul_ui_nothing_lost.
  destruct (Z_le_gt_dec (fn u) prec) as [Hle|Hgt].
  - replace (Z.max 0 (fn u - prec)) with 0 by lia. change (B ^ 0) with 1. apply Z.mod_1_r.
  - destruct Hfit as [Hc|Hz]; [lia|].
    replace (Z.max 0 (fn u - prec)) with (fn u - prec) by lia.
    pose proof (Bpow_pos (fn u - prec) ltac:(lia)) as PW.
    rewrite <- Z.mul_mod_idemp_l by lia. rewrite Hz. apply Z.mod_0_l. lia.
Qed.

(* ---------- mpf_div_ui is mpf_div by a one-limb divisor ---------- *)

Lemma mpf_div_ui_as_div prec u k : k <> 0 -> mpf_div_ui prec u k = mpf_div prec u (mkf false k 1 1).
Proof.
  intros Hk. unfold mpf_div_ui, mpf_div. cbn [fneg fM fn fexp].
  destruct (Z.eqb_spec k 0) as [Hc|_]; [contradiction|].
  change (1 =? 0) with false. cbv iota.
  destruct (Z.eqb_spec (fn u) 0) as [Hz|Hnz]; [reflexivity|].
  cbv zeta. rewrite xorb_false_r.
  replace (1 + prec) with (prec + 1) by lia.
  destruct (Z.ltb_spec (prec + 1) (fn u)) as [Hlong|Hshort].
  - replace (Z.max (- (prec + 1 - (fn u - 1 + 1))) 0) with (fn u - (prec + 1)) by lia.
    replace (prec + 1 - (fn u - 1 + 1) + (fn u - (prec + 1))) with 0 by lia.
    change (B ^ 0) with 1. rewrite Z.mul_1_r.
    set (q := fM u / B ^ (fn u - (prec + 1)) / k).
    destruct (top_limb q (prec + 1) =? 0); do 2 f_equal; lia.
  - replace (Z.max (- (prec + 1 - (fn u - 1 + 1))) 0) with 0 by lia.
    replace (prec + 1 - (fn u - 1 + 1) + 0) with (prec + 1 - fn u) by lia.
    change (B ^ 0) with 1. rewrite Z.div_1_r.
    set (q := fM u * B ^ (prec + 1 - fn u) / k).
    destruct (top_limb q (prec + 1) =? 0); do 2 f_equal; lia.
Qed.

Lemma ui_wf k : 0 < k < B -> mpf_wf 1 (mkf false k 1 1).
Proof.
  intros Hk. unfold mpf_wf. cbn [fM fn fexp]. split; [lia|]. split; [|lia].
  intros _. split; [|lia]. symmetry. apply nlimbs_unique; [lia|].
  change (B ^ (1 - 1)) with 1. rewrite Z.pow_1_r. lia.
Qed.

Lemma div_num_ui u k : 0 < k -> div_num u (mkf false k 1 1) = fnum u.
Proof.
  intros Hk. unfold div_num. rewrite fnum_ui, fden_ui, Z.sgn_pos by exact Hk. ring.
Qed.

Lemma div_den_ui u k : 0 < k -> div_den u (mkf false k 1 1) = fden u * k.
Proof. intros Hk. unfold div_den. rewrite fnum_ui, Z.abs_eq by lia. reflexivity. Qed.

Lemma mpf_div_ui_none_iff prec u k : mpf_div_ui prec u k = None <-> k = 0.
Proof.
  unfold mpf_div_ui. destruct (Z.eqb_spec k 0) as [Hz|Hnz].
  - split; [intros _; exact Hz | reflexivity].
  - split; [destruct (fn u =? 0); discriminate | contradiction].
Qed.

(* mpf_div_ui on a well-formed operand (of ANY length) and 0 < k < B, for every destination
   precision prec >= 1 limbs: well formed, truncation only, |r - u / k| < 2^(-p) |u / k|, and
   r = u / k exactly when u / k is a multiple of the weight of the lowest quotient limb. *)
Theorem mpf_div_ui_accurate_sharp : forall prec u k pu,
  1 <= prec -> mpf_wf pu u -> 0 < k < B ->
  exists r, mpf_div_ui prec u k = Some r
  /\ mpf_wf prec r
  /\ Z.abs (fnum r * (fden u * k)) <= Z.abs (fnum u * fden r)
  /\ acc_ok (bits_of_prec prec + 2) (fnum u) (fden u * k) (fnum r) (fden r) = true
  /\ (fnum r * (fden u * k) = fnum u * fden r <-> div_ui_nothing_lost prec u k).
Proof.
  intros prec u k pu Hp Hu Hk.
  rewrite (mpf_div_ui_as_div prec u k) by lia.
  destruct (mpf_div_accurate_sharp prec u (mkf false k 1 1) pu 1 Hp Hu (ui_wf k Hk)
              ltac:(cbn [fM]; lia)) as (r & A0 & A1 & A2 & A3 & A4).
  rewrite (div_num_ui u k) in A2, A3, A4 by lia.
  rewrite (div_den_ui u k) in A2, A3, A4 by lia.
  exists r. split; [exact A0|]. split; [exact A1|]. split; [exact A2|]. split; [exact A3|].
  exact A4.
Qed.

Theorem mpf_div_ui_accurate : forall prec u k pu,
  1 <= prec -> mpf_wf pu u -> 0 < k < B ->
  exists r, mpf_div_ui prec u k = Some r
  /\ mpf_wf prec r
  /\ Z.abs (fnum r * (fden u * k)) <= Z.abs (fnum u * fden r)
  /\ acc_ok (bits_of_prec prec) (fnum u) (fden u * k) (fnum r) (fden r) = true
  /\ (div_ui_nothing_lost prec u k -> fnum r * (fden u * k) = fnum u * fden r).
Proof.
  intros prec u k pu Hp Hu Hk.
  destruct (mpf_div_ui_accurate_sharp prec u k pu Hp Hu Hk) as (r & A0 & A1 & A2 & A3 & A4).
  exists r. split; [exact A0|]. split; [exact A1|]. split; [exact A2|].
  split; [|apply A4].
  apply acc_ok_weaken, acc_ok_weaken.
  replace (bits_of_prec prec + 1 + 1) with (bits_of_prec prec + 2) by lia. exact A3.
Qed.

Theorem mpf_div_ui_wf : forall prec u k pu r,
  1 <= prec -> mpf_wf pu u -> 0 <= k < B -> mpf_div_ui prec u k = Some r -> mpf_wf prec r.
Proof.
  intros prec u k pu r Hp Hu Hk Hr.
  assert (NZk : k <> 0).
  { intros E. apply (mpf_div_ui_none_iff prec u k) in E. congruence. }
  destruct (mpf_div_ui_accurate prec u k pu Hp Hu ltac:(lia)) as (r' & A0 & A1 & _).
  congruence.
Qed.

(* ---------- exactness when the quotient is representable ---------- *)

(* if Mu / Mv (up to a power of B) is an integer Mx of at most prec limbs, the quotient delivered
   loses nothing *)
Lemma repr_quot_multiple prec Mu nu Mv nv Mx nx a b :
  1 <= nu -> 1 <= nv -> 1 <= nx -> nx <= prec ->
  B ^ (nu - 1) <= Mu < B ^ nu -> B ^ (nv - 1) <= Mv < B ^ nv -> B ^ (nx - 1) <= Mx < B ^ nx ->
  0 <= a -> 0 <= b -> Mx * Mv * B ^ a = Mu * B ^ b ->
  (Mu * B ^ (Z.max 0 (prec - nu + nv))) mod (Mv * B ^ (Z.max 0 (nu - nv - prec))) = 0.
Proof.
  intros Hnu Hnv Hnx Hxp [Hulo Huhi] [Hvlo Hvhi] [Hxlo Hxhi] Ha Hb Heq.
  pose proof B_pos as HB0.
  pose proof (Bpow_pos (nu - 1) ltac:(lia)) as PU. pose proof (Bpow_pos (nv - 1) ltac:(lia)) as PV.
  pose proof (Bpow_pos (nx - 1) ltac:(lia)) as PX.
  pose proof (Bpow_pos a Ha) as PA. pose proof (Bpow_pos b Hb) as PB.
  (* a - b >= nu - nx - nv, from the sizes *)
  assert (Hd : nu - 1 + b < nx + nv + a).
  { apply Bpow_lt_inv; [lia|].
    rewrite (Bpow_add (nu - 1) b) by lia. rewrite (Bpow_add (nx + nv) a) by lia.
    rewrite (Bpow_add nx nv) by lia.
    assert (H1 : B ^ (nu - 1) * B ^ b <= Mu * B ^ b) by (apply Z.mul_le_mono_nonneg_r; lia).
    assert (H2 : Mx * Mv < B ^ nx * B ^ nv) by (apply Z.mul_lt_mono_nonneg; lia).
    assert (H3 : Mx * Mv * B ^ a < B ^ nx * B ^ nv * B ^ a) by (apply Z.mul_lt_mono_pos_r; lia).
    lia. }
  set (z := Z.max 0 (prec - nu + nv)). set (c := Z.max 0 (nu - nv - prec)).
  set (t := a - b + prec - nu + nv).
  assert (Ht : 0 <= t) by (unfold t; lia).
  assert (Hz : 0 <= z) by (unfold z; lia). assert (Hc : 0 <= c) by (unfold c; lia).
  assert (Hsum : a + z = t + c + b) by (unfold t, z, c; lia).
  assert (Hm : Mu * B ^ z = (Mx * B ^ t) * (Mv * B ^ c)).
  { apply (Z.mul_cancel_r _ _ (B ^ b)); [lia|].
    transitivity (Mu * B ^ b * B ^ z); [ring|]. rewrite <- Heq.
    transitivity (Mx * Mv * (B ^ a * B ^ z)); [ring|].
    rewrite <- Bpow_add by lia. rewrite Hsum. rewrite !Bpow_add by lia. ring. }
  rewrite Hm. apply Z.mod_mul.
  pose proof (Bpow_pos c Hc). assert (0 < Mv * B ^ c) by (apply Z.mul_pos_pos; lia). lia.
Qed.

Lemma quot_eq_cross nu nv nx du dv dx su sv sx Mu Mv Mx Au Av Ax Bu Bv Bx :
  nu * Bu = su * Mu * Au * du -> nv * Bv = sv * Mv * Av * dv -> nx * Bx = sx * Mx * Ax * dx ->
  (sv = 1 \/ sv = -1) ->
  nx * (du * (sv * nv)) = nu * dv * sv * dx ->
  (dx * du * dv) * (sx * (Mx * Mv * (Ax * Av * Bu))) = (dx * du * dv) * (su * sv * (Mu * (Au * Bx * Bv))).
Proof.
  intros H1 H2 H3 Hs H.
  assert (K : (nx * Bx) * du * sv * (nv * Bv) * Bu = (nu * Bu) * dv * sv * dx * Bx * Bv).
  { transitivity (nx * (du * (sv * nv)) * (Bx * Bv * Bu)); [ring|]. rewrite H. ring. }
  rewrite H1, H2, H3 in K.
  destruct Hs; subst sv; (etransitivity; [|etransitivity; [exact K|]]; ring).
Qed.

(* x = u / v as values: the mantissas agree up to powers of B *)
Lemma quot_value_eq u v x :
  0 < fM u -> 0 < fM v -> 0 < fM x -> fnum x * div_den u v = div_num u v * fden x ->
  exists a b, 0 <= a /\ 0 <= b /\ fM x * fM v * B ^ a = fM u * B ^ b.
Proof.
  intros HMu HMv HMx H.
  pose proof B_pos as HB0.
  destruct (fnum_sgn v HMv) as [Esg Eabs].
  unfold div_num, div_den in H. rewrite Esg, Eabs in H.
  set (ku := Z.abs (fexp u - fn u)). set (kv := Z.abs (fexp v - fn v)).
  set (kx := Z.abs (fexp x - fn x)).
  assert (Hku : 0 <= ku) by lia. assert (Hkv : 0 <= kv) by lia. assert (Hkx : 0 <= kx) by lia.
  assert (Hau : 0 <= ku + (fexp u - fn u)) by lia.
  assert (Hav : 0 <= kv + (fexp v - fn v)) by lia.
  assert (Hax : 0 <= kx + (fexp x - fn x)) by lia.
  pose proof (fden_pos u) as Pu. pose proof (fden_pos v) as Pv. pose proof (fden_pos x) as Px.
  pose proof (fnum_scaled u ku Hku Hau) as Eu.
  pose proof (fnum_scaled v kv Hkv Hav) as Ev.
  pose proof (fnum_scaled x kx Hkx Hax) as Ex.
  pose proof (quot_eq_cross _ _ _ _ _ _ _ _ _ _ _ _ _ _ _ _ _ _ Eu Ev Ex (sg_cases (fneg v)) H) as K.
  rewrite !Bpow_mul3 in K by assumption.
  set (a := kx + (fexp x - fn x) + (kv + (fexp v - fn v)) + ku) in *.
  set (b := ku + (fexp u - fn u) + kx + kv) in *.
  assert (Ha : 0 <= a) by (unfold a; lia). assert (Hb : 0 <= b) by (unfold b; lia).
  exists a, b. split; [exact Ha|]. split; [exact Hb|].
  pose proof (Bpow_pos a Ha) as PA. pose proof (Bpow_pos b Hb) as PB.
  assert (HD : 0 < fden x * fden u * fden v) by (repeat apply Z.mul_pos_pos; assumption).
  apply Z.mul_cancel_l in K; [|lia].
  assert (HX : 0 < fM x * fM v * B ^ a) by (repeat apply Z.mul_pos_pos; assumption).
  assert (HY : 0 < fM u * B ^ b) by (apply Z.mul_pos_pos; assumption).
  set (X := fM x * fM v * B ^ a) in *. set (Y := fM u * B ^ b) in *.
  destruct (sg_cases (fneg x)) as [Sx|Sx], (sg_cases (fneg u)) as [Su|Su],
           (sg_cases (fneg v)) as [Sv|Sv]; rewrite Sx, Su, Sv in K; lia.
Qed.

(* if the exact quotient u / v is a well-formed value x of at most prec limbs, mpf_div returns a
   value equal to x *)
Theorem mpf_div_exact_when_representable : forall prec u v x pu pv px,
  1 <= prec -> mpf_wf pu u -> mpf_wf pv v -> fM v <> 0 -> mpf_wf px x -> fn x <= prec ->
  fnum x * div_den u v = div_num u v * fden x ->
  exists r, mpf_div prec u v = Some r /\ fnum r * fden x = fnum x * fden r.
Proof.
  intros prec u v x pu pv px Hp Hu Hv NZv Hx Hfit Hval.
  pose proof B_pos as HB0.
  destruct (mpf_div_accurate_sharp prec u v pu pv Hp Hu Hv NZv) as (r & A0 & _ & _ & _ & A4).
  exists r. split; [exact A0|].
  destruct Hu as (Hu0 & Hu1 & _). destruct Hv as (Hv0 & Hv1 & _). destruct Hx as (Hx0 & Hx1 & _).
  destruct (Hv1 NZv) as [Hnv HMv].
  pose proof (div_den_pos u v HMv) as Ped.
  assert (Hnl : div_nothing_lost prec u v).
  { destruct (Z.eq_dec (fM u) 0) as [Zu|NZu].
    { unfold div_nothing_lost. rewrite Zu. reflexivity. }
    destruct (Hu1 NZu) as [Hnu HMu].
    assert (NZx : fM x <> 0).
    { intros Zx. rewrite (fnum_zero x Zx) in Hval.
      pose proof (fden_pos x) as Px. pose proof (fnum_nonzero u HMu) as Hn0.
      pose proof (fden_pos v) as Pv.
      destruct (fnum_sgn v HMv) as [Esg _].
      unfold div_num in Hval. rewrite Esg in Hval.
      assert (fnum u * fden v * sg (fneg v) * fden x <> 0); [|lia].
      apply Z.neq_mul_0; split; [|lia].
      apply Z.neq_mul_0; split; [|destruct (sg_cases (fneg v)); lia].
      apply Z.neq_mul_0; split; lia. }
    destruct (Hx1 NZx) as [Hnx HMx].
    destruct (quot_value_eq u v x HMu HMv HMx Hval) as (a & b & Ha & Hb & Heq).
    unfold div_nothing_lost.
    pose proof (nlimbs_spec _ HMu) as Bu. pose proof (nlimbs_spec _ HMv) as Bv.
    pose proof (nlimbs_spec _ HMx) as Bx.
    pose proof (nlimbs_pos _ HMu). pose proof (nlimbs_pos _ HMv). pose proof (nlimbs_pos _ HMx).
    rewrite <- Hnu in *. rewrite <- Hnv in *. rewrite <- Hnx in *.
    apply (repr_quot_multiple prec (fM u) (fn u) (fM v) (fn v) (fM x) (fn x) a b); assumption. }
  apply A4 in Hnl.
  (* r = u / v and x = u / v *)
  apply (Z.mul_cancel_r _ _ (div_den u v)); [lia|].
  transitivity (fnum r * div_den u v * fden x); [ring|]. rewrite Hnl.
  transitivity (div_num u v * fden x * fden r); [ring|]. rewrite <- Hval. ring.
Qed.

Theorem mpf_div_ui_exact_when_representable : forall prec u k x pu px,
  1 <= prec -> mpf_wf pu u -> 0 < k < B -> mpf_wf px x -> fn x <= prec ->
  fnum x * (fden u * k) = fnum u * fden x ->
  exists r, mpf_div_ui prec u k = Some r /\ fnum r * fden x = fnum x * fden r.
Proof.
  intros prec u k x pu px Hp Hu Hk Hx Hfit Hval.
  rewrite (mpf_div_ui_as_div prec u k) by lia.
  apply (mpf_div_exact_when_representable prec u (mkf false k 1 1) x pu 1 px Hp Hu (ui_wf k Hk)
           ltac:(cbn [fM]; lia) Hx Hfit).
  rewrite (div_num_ui u k), (div_den_ui u k) by lia. exact Hval.
Qed.

(* ---------- signs and exponents ---------- *)

(* the quotient of non-zero operands is non-zero, has the product sign, prec or prec + 1 limbs,
   and its exponent is fexp u - fexp v or one more *)
Theorem mpf_div_sign : forall prec u v pu pv,
  1 <= prec -> mpf_wf pu u -> mpf_wf pv v -> fM u <> 0 -> fM v <> 0 ->
  exists r, mpf_div prec u v = Some r /\ fM r <> 0 /\ fneg r = xorb (fneg u) (fneg v)
    /\ prec <= fn r <= prec + 1 /\ fexp u - fexp v <= fexp r <= fexp u - fexp v + 1.
Proof.
  intros prec u v pu pv Hp (_ & Hu1 & _) (_ & Hv1 & _) NZu NZv.
  destruct (Hu1 NZu) as [Hnu HMu]. destruct (Hv1 NZv) as [Hnv HMv].
  destruct (mpf_div_core prec u v Hp HMu Hnu HMv Hnv) as (q & hz & Hr & Hhz & Hq0 & _).
  eexists. split; [exact Hr|]. cbn [fM fneg fn fexp]. repeat split; lia.
Qed.

(* the product of a non-zero operand by k <> 0 is non-zero, has the sign of u, and its exponent is
   fexp u or one more *)
Theorem mpf_mul_ui_sign : forall prec u k pu,
  1 <= prec -> mpf_wf pu u -> fM u <> 0 -> 0 < k < B ->
  fM (mpf_mul_ui prec u k) <> 0 /\ fneg (mpf_mul_ui prec u k) = fneg u
  /\ fexp u <= fexp (mpf_mul_ui prec u k) <= fexp u + 1.
Proof.
  intros prec u k pu Hp (_ & Hu1 & _) NZu Hk.
  destruct (Hu1 NZu) as [Hnu HMu].
  destruct (mpf_mul_ui_core prec u k Hp Hk HMu Hnu) as (R & cy & Hr & Hcy & HR0 & _).
  rewrite Hr. cbn [fM fneg fexp]. repeat split; lia.
Qed.

(* ---------- the family u = ceil (B^m / k) / B^m: u * k returns exactly 1 ---------- *)

(* u is just above 1 / k and has m > prec limbs; the prec kept limbs of u times k are all B - 1, and
   the carry-in from the dropped limbs ripples through all of them: the result is the single limb 1
   above prec zero limbs, exponent 1 *)
Theorem mpf_mul_ui_recip_family : forall prec m k,
  1 <= prec -> prec < m -> 2 <= k < B ->
  mpf_mul_ui prec (mkf false ((B ^ m + k - 1) / k) m 0) k = mkf false (B ^ prec) (prec + 1) 1.
Proof.
  intros prec m k Hp Hm Hk.
  pose proof B_pos as HB0.
  pose proof (Bpow_pos m ltac:(lia)) as PM. pose proof (Bpow_pos (m - 1) ltac:(lia)) as PM1.
  pose proof (Bpow_pred m ltac:(lia)) as EM.
  set (M := (B ^ m + k - 1) / k).
  pose proof (Z.div_mod (B ^ m + k - 1) k ltac:(lia)) as Edm.
  pose proof (Z.mod_pos_bound (B ^ m + k - 1) k ltac:(lia)) as Hmb.
  fold M in Edm. set (t := (B ^ m + k - 1) mod k) in *.
  (* M k = B^m + rho, 0 <= rho < k *)
  assert (Hprod : M * k = B ^ m + (k - 1 - t)) by lia.
  assert (HMlo : B ^ (m - 1) <= M).
  { destruct (Z_lt_le_dec M (B ^ (m - 1))) as [Hlt|Hge]; [exfalso | exact Hge].
    assert (M * k <= B ^ (m - 1) * k) by (apply Z.mul_le_mono_nonneg_r; lia).
    assert (B ^ (m - 1) * k < B ^ (m - 1) * B) by (apply Z.mul_lt_mono_pos_l; lia). lia. }
  assert (HBm : B <= B ^ m).
  { rewrite <- (Z.pow_1_r B) at 1. apply Bpow_le. lia. }
  assert (HMhi : M < B ^ m).
  { destruct (Z_lt_le_dec M (B ^ m)) as [Hlt|Hge]; [exact Hlt | exfalso].
    assert (B ^ m * k <= M * k) by (apply Z.mul_le_mono_nonneg_r; lia).
    assert (B ^ m * 2 <= B ^ m * k) by (apply Z.mul_le_mono_nonneg_l; lia). lia. }
  assert (HM0 : 0 < M) by lia.
  set (u := mkf false M m 0).
  assert (Hnu : fn u = nlimbs (fM u)).
  { unfold u. cbn [fn fM]. symmetry. apply nlimbs_unique; [exact HM0 | split; assumption]. }
  rewrite (mpf_mul_ui_unfold prec u k Hp ltac:(lia) HM0 Hnu). cbv zeta.
  unfold u. cbn [fneg fM fn fexp].
  replace (Z.max 0 (m - prec)) with (m - prec) by lia.
  replace (m - (m - prec)) with prec by lia.
  pose proof (Bpow_pos (m - prec) ltac:(lia)) as PE. pose proof (Bpow_pos prec ltac:(lia)) as PP.
  assert (HBe : B <= B ^ (m - prec)).
  { rewrite <- (Z.pow_1_r B) at 1. apply Bpow_le. lia. }
  assert (HR : M * k / B ^ (m - prec) = B ^ prec).
  { symmetry. apply Z.div_unique with (r := k - 1 - t); [left; lia|].
    rewrite Hprod. rewrite <- Bpow_add by lia. replace (m - prec + prec) with m by lia. reflexivity. }
  rewrite HR. rewrite Z.div_same by lia. change (1 =? 0) with false. cbv iota.
  reflexivity.
Qed.

(* ---------- the paths on concrete operands ---------- *)

Definition div_exact (u v r : mpf) : bool := fnum r * div_den u v =? div_num u v * fden r.

(* u shorter than needed: padded with zero limbs; the high quotient limb is non-zero: prec + 1 = 3
   limbs (two of them zero: not normalised), exponent fexp u - fexp v + 1; signs *)
Example mpf_div_ex_pad :
  mpf_div 2 (mkf false 6 1 1) (mkf true 3 1 1) = Some (mkf true (2 * B ^ 2) 3 1).
Proof. vm_compute. reflexivity. Qed.

(* high quotient limb zero: stripped, prec limbs, exponent one less; 1/3 = 0.5555... 5555... *)
Example mpf_div_ex_high_zero :
  mpf_div 2 (mkf false 1 1 1) (mkf false 3 1 1) = Some (mkf false (B ^ 2 / 3) 2 0)
  /\ B ^ 2 / 3 = 6148914691236517205 * B + 6148914691236517205.
Proof. vm_compute. split; reflexivity. Qed.

(* u longer than needed: usize - vsize + 1 = 5 > prec + 1 = 3: the chop = 2 low limbs [6 5] of u are
   dropped; high limb 9 / 3 = 3 non-zero.  With the top limb 2 < 3 the high quotient limb is zero *)
Example mpf_div_ex_chop :
  mpf_div 2 (mkf true (9 * B ^ 4 + 8 * B ^ 3 + 7 * B ^ 2 + 6 * B + 5) 5 3) (mkf true 3 1 (-2))
    = Some (mkf false ((9 * B ^ 2 + 8 * B + 7) / 3) 3 6)
  /\ mpf_div 2 (mkf true (2 * B ^ 4 + 8 * B ^ 3 + 7 * B ^ 2 + 6 * B + 5) 5 3) (mkf true 3 1 (-2))
    = Some (mkf false ((2 * B ^ 2 + 8 * B + 7) / 3) 2 5).
Proof. vm_compute. split; reflexivity. Qed.

(* u of exactly the needed length (no padding, no chop); x / x = 1 with a full division; zero
   dividend; zero divisor *)
Example mpf_div_ex_misc :
  mpf_div 3 (mkf false (6 * B ^ 3) 4 4) (mkf false (2 * B) 2 1) = Some (mkf false (3 * B ^ 3) 4 4)
  /\ mpf_div 3 (mkf false (7 * B ^ 2 + 5 * B + 3) 3 4) (mkf false (7 * B ^ 2 + 5 * B + 3) 3 4)
       = Some (mkf false (B ^ 3) 4 1)
  /\ mpf_div 3 (mkf false 0 0 0) (mkf true 5 1 1) = Some (mkf false 0 0 0)
  /\ mpf_div 3 (mkf false 5 1 1) (mkf false 0 0 0) = None
  /\ mpf_div 3 (mkf false 0 0 0) (mkf false 0 0 0) = None.
Proof. vm_compute. repeat split; reflexivity. Qed.

(* exactness: (B^2 + 1) / 2 = [B/2 0 B/2] needs the limb below the two kept with prec = 1 (the low
   limb 1 of u is chopped) and the limb below the three kept with prec = 2 (nothing is chopped, the
   remainder of the division is 1): not exact, a unit in the last place low; exact with prec = 3 *)
Example mpf_div_ex_exactness :
  let u := mkf false (B ^ 2 + 1) 3 3 in let v := mkf false 2 1 1 in
  mpf_div 1 u v = Some (mkf false (B / 2) 1 2)
  /\ div_exact u v (mkf false (B / 2) 1 2) = false
  /\ mpf_div 2 u v = Some (mkf false (B / 2 * B) 2 2)
  /\ div_exact u v (mkf false (B / 2 * B) 2 2) = false
  /\ mpf_div 3 u v = Some (mkf false (B / 2 * B ^ 2 + B / 2) 3 2)
  /\ div_exact u v (mkf false (B / 2 * B ^ 2 + B / 2) 3 2) = true.
Proof. vm_compute. repeat split; reflexivity. Qed.

(* the error bound 2^(-p) cannot be improved by another bit: prec = 2 (p = 64),
   u = (B + 1)(B^2 - 1) - 1, v = B^2 - 1: the quotient B + 1 - 1/v is cut to B (high limb zero):
   the certificate holds at p + 2 = 66 and fails at p + 3 = 67 *)
Example mpf_div_ex_tight :
  let u := mkf false (B ^ 3 + B ^ 2 - B - 2) 4 0 in let v := mkf false (B ^ 2 - 1) 2 0 in
  let r := mkf false B 2 0 in
  mpf_div 2 u v = Some r /\ bits_of_prec 2 = 64
  /\ acc_ok 64 (div_num u v) (div_den u v) (fnum r) (fden r) = true
  /\ acc_ok 66 (div_num u v) (div_den u v) (fnum r) (fden r) = true
  /\ acc_ok 67 (div_num u v) (div_den u v) (fnum r) (fden r) = false.
Proof. vm_compute. repeat split; reflexivity. Qed.

(* mul_ui: u within prec limbs: the plain product, without and with a carry limb *)
Example mpf_mul_ui_ex_short :
  mpf_mul_ui 2 (mkf false 5 1 1) 3 = mkf false 15 1 1
  /\ mpf_mul_ui 2 (mkf true (B - 1) 1 1) 2 = mkf true (B + (B - 2)) 2 2
  /\ mpf_mul_ui 2 (mkf true (B - 1) 1 1) 0 = mkf false 0 0 0
  /\ mpf_mul_ui 2 (mkf false 0 0 0) 7 = mkf false 0 0 0.
Proof. vm_compute. repeat split; reflexivity. Qed.

(* mul_ui: u longer than prec.  One excess limb: cin is the high limb of up[0] * v (here
   (B - 1) * 4 = 3 B + (B - 4): cin = 3, 7 * 4 + 3 = 31).  Three excess limbs all B - 1: the same *)
Example mpf_mul_ui_ex_excess :
  mpf_mul_ui 1 (mkf false (7 * B + (B - 1)) 2 2) 4 = mkf false 31 1 2
  /\ mul_ui_cin (7 * B + (B - 1)) 4 1 = 3
  /\ mpf_mul_ui 1 (mkf false (7 * B ^ 3 + (B - 1) * B ^ 2 + (B - 1) * B + (B - 1)) 4 2) 4
       = mkf false 31 1 2.
Proof. vm_compute. repeat split; reflexivity. Qed.

(* the carry-in loop: excess = 2 and v = 2.  up[1] = B/2, up[0] = 0: sum = 0, decided at once,
   cin = hi (up[1] * 2) = 1.  up[1] = B/2 - 1, up[0] = B - 1: hi + lo = 1 + (B - 2) = GMP_NUMB_MAX,
   the loop goes on, runs out of limbs: cin = 0.  With v = 3 the same limbs give cin = 1.
   u = ceil (B^m / 3) = [5..5 ... 5..5 5..6]: every product up[i] * 3 but the lowest is
   (hi, lo) = (0, B - 1), the lowest is (1, 2): all sums are GMP_NUMB_MAX down to i = 0, where
   1 + (B - 1) carries: cbit = 1 reaches cin through excess - 1 limbs.  With the lowest limb 5..5
   the loop ends at i < 0 without a carry *)
Example mpf_mul_ui_ex_cin :
  mul_ui_cin (5 * B ^ 2 + (B / 2) * B) 2 2 = 1
  /\ mul_ui_cin (5 * B ^ 2 + (B / 2 - 1) * B + (B - 1)) 2 2 = 0
  /\ mul_ui_cin (5 * B ^ 2 + (B / 2 - 1) * B + (B - 1)) 3 2 = 1
  /\ mul_ui_cin ((B ^ 4 + 2) / 3) 3 2 = 1 /\ mul_ui_cin ((B ^ 4 + 2) / 3 - 1) 3 2 = 0
  /\ mul_ui_cin ((B ^ 8 + 2) / 3) 3 6 = 1 /\ mul_ui_cin ((B ^ 8 + 2) / 3 - 1) 3 6 = 0.
Proof. vm_compute. repeat split; reflexivity. Qed.

(* the family of mpf_mul_ui_recip_family: ceil (B^4 / 3) / B^4 times 3 is 1: the kept limbs give
   [B-1 B-1], cin = 1 ripples through both, cy_limb = 0 + cbit = 1.  One unit less in the last
   place of u and there is no carry: [B-1 B-1] at exponent 0.  Also k = B - 1, m = 6, prec = 3 *)
Example mpf_mul_ui_ex_ripple :
  mpf_mul_ui 2 (mkf false ((B ^ 4 + 2) / 3) 4 0) 3 = mkf false (B ^ 2) 3 1
  /\ mpf_mul_ui 2 (mkf false ((B ^ 4 + 2) / 3 - 1) 4 0) 3 = mkf false (B ^ 2 - 1) 2 0
  /\ mpf_mul_ui 3 (mkf false ((B ^ 6 + (B - 1) - 1) / (B - 1)) 6 0) (B - 1) = mkf false (B ^ 3) 4 1
  /\ fnum (mkf false (B ^ 2) 3 1) = fden (mkf false (B ^ 2) 3 1).
Proof. vm_compute. repeat split; reflexivity. Qed.

(* div_ui: u shorter than prec + 1 limbs (padded), high limb non-zero / zero; u longer (the two
   low limbs dropped); k = 0 *)
Example mpf_div_ui_ex :
  mpf_div_ui 2 (mkf false 6 1 1) 3 = Some (mkf false (2 * B ^ 2) 3 1)
  /\ mpf_div_ui 2 (mkf true 1 1 1) 3 = Some (mkf true (B ^ 2 / 3) 2 0)
  /\ mpf_div_ui 2 (mkf true (9 * B ^ 4 + 8 * B ^ 3 + 7 * B ^ 2 + 6 * B + 5) 5 3) 3
       = Some (mkf true ((9 * B ^ 2 + 8 * B + 7) / 3) 3 3)
  /\ mpf_div_ui 2 (mkf true (2 * B ^ 4 + 8 * B ^ 3 + 7 * B ^ 2 + 6 * B + 5) 5 3) 3
       = Some (mkf true ((2 * B ^ 2 + 8 * B + 7) / 3) 2 2)
  /\ mpf_div_ui 2 (mkf true 6 1 1) 0 = None
  /\ mpf_div_ui 2 (mkf false 0 0 0) 3 = Some (mkf false 0 0 0).
Proof. vm_compute. repeat split; reflexivity. Qed.

(* u = ceil (B^4 / 3) / B^4 divided by 3 and multiplied back; div_ui then mul_ui of 1 by 3 at
   prec = 2 gives [B-1 B-1 B-1] / B^3 : below 1 *)
Example mpf_div_ui_mul_ui_roundtrip :
  mpf_div_ui 2 (mkf false 1 1 1) 3 = Some (mkf false (B ^ 2 / 3) 2 0)
  /\ mpf_mul_ui 2 (mkf false (B ^ 2 / 3) 2 0) 3 = mkf false (B ^ 2 - 1) 2 0.
Proof. vm_compute. split; reflexivity. Qed.
