(* MpzProofs.v — the mpz models of MpzDefs.v return the exact signed result and a
   well-formed object. *)
From Coq Require Import ZArith List Lia Bool.
From Mpir Require Import Word Limbs MpnBasicDefs MpnBasicProofs MpzDefs.
Import ListNotations.
Local Open Scope Z_scope.

(* ------------------------------------------------------------------ *)
(* lists: length, last limb, normalisation                              *)

Lemma len_nonneg l : 0 <= len l.
Proof. unfold len. lia. Qed.

Lemma len_0_nil l : len l = 0 -> l = [].
Proof. destruct l as [|x r]; [reflexivity|]. unfold len. cbn [length]. lia. Qed.

Lemma len_eq_of_length a b : length a = length b -> len a = len b.
Proof. unfold len. intros H. rewrite H. reflexivity. Qed.

Lemma len_snoc a x : len (a ++ [x]) = len a + 1.
Proof. rewrite len_app. reflexivity. Qed.

Lemma eval_snoc a x : eval (a ++ [x]) = eval a + B ^ len a * x.
Proof. rewrite eval_app_len. cbn [eval]. ring. Qed.

Lemma normalized_nil : normalized [].
Proof. left. reflexivity. Qed.

Lemma normalized_snoc a x : x <> 0 -> normalized (a ++ [x]).
Proof. intros H. right. rewrite last_last. exact H. Qed.

Lemma normalized_cons x r : (r = [] -> x <> 0) -> normalized r -> normalized (x :: r).
Proof.
  intros H1 H2. right. destruct r as [|y s].
  - cbn [last]. apply H1. reflexivity.
  - destruct H2 as [H2|H2]; [discriminate|]. exact H2.
Qed.

Lemma normalized_app_r a b : b <> [] -> normalized b -> normalized (a ++ b).
Proof.
  intros Hb Nb. induction a as [|x a IH]; [exact Nb|].
  cbn [app]. apply normalized_cons; [|exact IH].
  intros E. apply app_eq_nil in E. destruct E as [_ E]. contradiction.
Qed.

Lemma normalized_lower l : wf l -> normalized l -> l <> [] -> B ^ (len l - 1) <= eval l.
Proof.
  intros Hw Hn Hne. destruct (exists_last Hne) as (a & x & E). subst l.
  destruct Hn as [Hn|Hn]; [contradiction|]. rewrite last_last in Hn.
  apply wf_app_inv in Hw. destruct Hw as [Ha Hx]. apply wf_inv in Hx. destruct Hx as [Hx _].
  rewrite len_snoc, eval_snoc. replace (len a + 1 - 1) with (len a) by lia.
  pose proof (eval_nonneg a Ha) as E0. pose proof (Bpow_len_pos a) as P. unfold limb in Hx.
  assert (B ^ len a * 1 <= B ^ len a * x) by (apply Z.mul_le_mono_nonneg_l; lia). lia.
Qed.

Lemma lower_normalized l : wf l -> l <> [] -> B ^ (len l - 1) <= eval l -> normalized l.
Proof.
  intros Hw Hne Hlow. destruct (exists_last Hne) as (a & x & E). subst l.
  apply wf_app_inv in Hw. destruct Hw as [Ha Hx].
  rewrite len_snoc, eval_snoc in Hlow. replace (len a + 1 - 1) with (len a) in Hlow by lia.
  apply normalized_snoc. intros Ex. subst x.
  pose proof (eval_lt a Ha). lia.
Qed.

Lemma shorter_lt up vp : wf up -> wf vp -> normalized up -> len vp < len up ->
  eval vp < eval up.
Proof.
  intros Hu Hv Nu Hl.
  assert (Hne : up <> []).
  { intros E. subst up. pose proof (len_nonneg vp). unfold len in Hl. cbn [length] in Hl. lia. }
  pose proof (normalized_lower up Hu Nu Hne) as L.
  pose proof (eval_lt vp Hv) as U.
  assert (B ^ len vp <= B ^ (len up - 1)).
  { apply Z.pow_le_mono_r; [exact B_pos|lia]. }
  lia.
Qed.

Lemma long_ge_B l : wf l -> normalized l -> 2 <= len l -> B <= eval l.
Proof.
  intros Hw Hn Hl.
  assert (Hne : l <> []) by (intros E; subst l; unfold len in Hl; cbn [length] in Hl; lia).
  pose proof (normalized_lower l Hw Hn Hne) as L.
  assert (B ^ 1 <= B ^ (len l - 1)) by (apply Z.pow_le_mono_r; [exact B_pos|lia]).
  rewrite Z.pow_1_r in *. lia.
Qed.

(* ------------------------------------------------------------------ *)
(* value of an mpz from its sign                                        *)

Lemma value_nonneg_sz s l : Z.abs s = len l -> 0 <= s -> value (mkz s l) = eval l.
Proof.
  intros Ha Hs. unfold value. cbn [sz d].
  destruct (Z.eq_dec s 0) as [E|E].
  - subst s. rewrite (len_0_nil l) by lia. reflexivity.
  - assert (Z.sgn s = 1) as -> by lia. lia.
Qed.

Lemma value_nonpos_sz s l : Z.abs s = len l -> s <= 0 -> value (mkz s l) = - eval l.
Proof.
  intros Ha Hs. unfold value. cbn [sz d].
  destruct (Z.eq_dec s 0) as [E|E].
  - subst s. rewrite (len_0_nil l) by lia. reflexivity.
  - assert (Z.sgn s = -1) as -> by lia. lia.
Qed.

Lemma mkz_pos w : wf w -> normalized w ->
  value (mkz (len w) w) = eval w /\ mpz_wf (mkz (len w) w).
Proof.
  intros Hw Hn. pose proof (len_nonneg w). split.
  - apply value_nonneg_sz; lia.
  - unfold mpz_wf. cbn [sz d]. split; [lia|]. split; assumption.
Qed.

Lemma mkz_neg w : wf w -> normalized w ->
  value (mkz (- len w) w) = - eval w /\ mpz_wf (mkz (- len w) w).
Proof.
  intros Hw Hn. pose proof (len_nonneg w). split.
  - apply value_nonpos_sz; lia.
  - unfold mpz_wf. cbn [sz d]. split; [lia|]. split; assumption.
Qed.

Lemma mk_norm_spec neg l : wf l ->
  value (mk_norm neg l) = (if neg then - eval l else eval l) /\ mpz_wf (mk_norm neg l).
Proof.
  intros Hw. unfold mk_norm. cbv zeta. rewrite <- (strip_eval l).
  pose proof (strip_wf l Hw) as Sw. pose proof (strip_normalized l) as Sn.
  destruct neg; [apply mkz_neg|apply mkz_pos]; assumption.
Qed.

Lemma mpz_wf_zero : mpz_wf (mkz 0 []).
Proof. unfold mpz_wf. cbn [sz d]. split; [reflexivity|]. split; [apply wf_nil|apply normalized_nil]. Qed.

Lemma mpz_wf_single s x : Z.abs s = 1 -> limb x -> x <> 0 -> mpz_wf (mkz s [x]).
Proof.
  intros Hs Hx Hne. unfold mpz_wf. cbn [sz d]. split; [exact Hs|].
  split; [apply wf_cons; [exact Hx|apply wf_nil]|]. right. exact Hne.
Qed.

Lemma eval_single x : eval [x] = x.
Proof. cbn [eval]. lia. Qed.

(* the result of an addition with carry-out, carry appended when set *)
Lemma carry_append w cy total : wf w -> (cy = 0 \/ cy = 1) ->
  eval w + B ^ len w * cy = total -> (w = [] \/ B ^ (len w - 1) <= total) ->
  eval (if cy =? 0 then w else w ++ [cy]) = total
  /\ wf (if cy =? 0 then w else w ++ [cy])
  /\ normalized (if cy =? 0 then w else w ++ [cy]).
Proof.
  intros Hw Hcy He Hlow. destruct Hcy as [Hcy|Hcy]; subst cy.
  - change (0 =? 0) with true. cbv iota.
    split; [lia|]. split; [assumption|].
    destruct Hlow as [E|L]; [subst w; apply normalized_nil|].
    destruct w as [|x r]; [apply normalized_nil|].
    apply lower_normalized; [assumption|discriminate|lia].
  - change (1 =? 0) with false. cbv iota.
    split; [rewrite eval_snoc; lia|].
    split; [apply wf_app; [assumption|apply wf_cons; [apply limb_1|apply wf_nil]]|].
    apply normalized_snoc. lia.
Qed.

(* subtractions that cannot borrow *)
Lemma sub_noborrow x y : wf x -> wf y -> (length y <= length x)%nat -> eval y <= eval x ->
  eval (fst (sub x y)) = eval x - eval y /\ wf (fst (sub x y)).
Proof.
  intros Hx Hy Hl Hle. destruct (sub_spec x y Hx Hy Hl) as (S1 & S2 & S3 & S4).
  split; [|assumption].
  pose proof (eval_lt _ S2) as U. rewrite (len_eq_of_length _ _ S3) in U.
  pose proof (eval_nonneg _ S2) as L.
  destruct S4 as [S4|S4]; rewrite S4 in S1; lia.
Qed.

Lemma sub_n_noborrow x y : wf x -> wf y -> length x = length y -> eval y <= eval x ->
  eval (fst (sub_n x y)) = eval x - eval y /\ wf (fst (sub_n x y)).
Proof.
  intros Hx Hy Hl Hle. destruct (sub_n_spec x y Hx Hy Hl) as (S1 & S2 & S3 & S4).
  split; [|assumption].
  pose proof (eval_lt _ S2) as U. rewrite (len_eq_of_length _ _ S3) in U.
  pose proof (eval_nonneg _ S2) as L.
  destruct S4 as [S4|S4]; rewrite S4 in S1; lia.
Qed.

Lemma sub_1_noborrow u v : wf u -> limb v -> u <> [] -> v <= eval u ->
  eval (fst (sub_1 u v)) = eval u - v /\ wf (fst (sub_1 u v)).
Proof.
  intros Hu Hv Hne Hle. destruct (sub_1_spec u v Hu Hv Hne) as (S1 & S2 & S3 & S4).
  split; [|assumption].
  pose proof (eval_lt _ S2) as U. rewrite (len_eq_of_length _ _ S3) in U.
  pose proof (eval_nonneg _ S2) as L.
  destruct S4 as [S4|S4]; rewrite S4 in S1; lia.
Qed.

(* ------------------------------------------------------------------ *)
(* mpz_of_Z                                                             *)

Lemma limbs_of_pos_spec : forall fuel x, 0 <= x < 2 ^ Z.of_nat fuel ->
  eval (limbs_of_pos fuel x) = x /\ wf (limbs_of_pos fuel x)
  /\ normalized (limbs_of_pos fuel x).
Proof.
  induction fuel as [|f IH]; intros x Hx.
  - cbn [limbs_of_pos eval]. change (2 ^ Z.of_nat 0) with 1 in Hx.
    split; [lia|]. split; [apply wf_nil|apply normalized_nil].
  - cbn [limbs_of_pos]. destruct (Z.leb_spec x 0) as [C|C].
    + cbn [eval]. split; [lia|]. split; [apply wf_nil|apply normalized_nil].
    + pose proof B_pos as HB. pose proof B_gt_1 as HB1.
      rewrite Nat2Z.inj_succ, Z.pow_succ_r in Hx by lia.
      assert (P : 0 < 2 ^ Z.of_nat f) by (apply Z.pow_pos_nonneg; lia).
      assert (Hq : 0 <= x / B < 2 ^ Z.of_nat f).
      { split; [apply Z.div_pos; lia|]. apply Z.div_lt_upper_bound; [lia|].
        assert (2 * 2 ^ Z.of_nat f <= B * 2 ^ Z.of_nat f)
          by (apply Z.mul_le_mono_nonneg_r; lia). lia. }
      destruct (IH (x / B) Hq) as (I1 & I2 & I3).
      pose proof (Z.div_mod x B ltac:(lia)) as D.
      pose proof (Z.mod_pos_bound x B HB) as M.
      cbn [eval]. rewrite I1.
      split; [lia|]. split; [apply wf_cons; assumption|].
      apply normalized_cons; [|assumption].
      intros E. rewrite E in I1. cbn [eval] in I1. rewrite <- I1 in D. lia.
Qed.

Lemma limbs_of_Z_spec x :
  eval (limbs_of_Z x) = Z.abs x /\ wf (limbs_of_Z x) /\ normalized (limbs_of_Z x).
Proof.
  unfold limbs_of_Z. apply limbs_of_pos_spec.
  split; [lia|].
  rewrite Nat2Z.inj_succ, Z2Nat.id by apply Z.log2_nonneg.
  destruct (Z.eq_dec (Z.abs x) 0) as [E|E].
  - rewrite E. reflexivity.
  - apply Z.log2_spec. lia.
Qed.

Lemma mpz_of_Z_spec : forall x, value (mpz_of_Z x) = x /\ mpz_wf (mpz_of_Z x).
Proof.
  intros x. unfold mpz_of_Z. cbv zeta.
  destruct (limbs_of_Z_spec x) as (E & W & N).
  set (l := limbs_of_Z x) in *. pose proof (len_nonneg l) as Hl.
  assert (Hnz : x <> 0 -> 0 < len l).
  { intros Hx. destruct l as [|a r]; [cbn [eval] in E; lia|]. unfold len. cbn [length]. lia. }
  assert (Hz : x = 0 -> len l = 0).
  { intros Hx. subst x. reflexivity. }
  destruct (Z.lt_trichotomy x 0) as [C|[C|C]].
  - assert (Z.sgn x = -1) as -> by lia.
    replace (-1 * len l) with (- len l) by lia.
    destruct (mkz_neg l W N) as [V1 V2]. split; [lia|assumption].
  - specialize (Hz C). subst x. cbn [Z.sgn]. replace (0 * len l) with 0 by lia.
    rewrite (len_0_nil l Hz). split; [reflexivity|apply mpz_wf_zero].
  - assert (Z.sgn x = 1) as -> by lia.
    replace (1 * len l) with (len l) by lia.
    destruct (mkz_pos l W N) as [V1 V2]. split; [lia|assumption].
Qed.

(* ------------------------------------------------------------------ *)
(* mpz_neg, mpz_abs, mpz_set, mpz_swap                                  *)

Lemma mpz_neg_spec u : mpz_wf u -> value (mpz_neg u) = - value u /\ mpz_wf (mpz_neg u).
Proof.
  intros (A & W & N). unfold mpz_neg, value, mpz_wf. cbn [sz d]. split.
  - rewrite Z.sgn_opp. ring.
  - split; [lia|]. split; assumption.
Qed.

Lemma mpz_neg_abs_set_swap_spec : forall u v, mpz_wf u -> mpz_wf v ->
  (value (mpz_neg u) = - value u /\ mpz_wf (mpz_neg u))
  /\ (value (mpz_abs u) = Z.abs (value u) /\ mpz_wf (mpz_abs u))
  /\ (value (mpz_set u) = value u /\ mpz_wf (mpz_set u))
  /\ (value (fst (mpz_swap u v)) = value v /\ value (snd (mpz_swap u v)) = value u).
Proof.
  intros u v Hu Hv. split; [apply mpz_neg_spec; exact Hu|].
  destruct Hu as (A & W & N). pose proof (eval_nonneg _ W) as E0.
  split; [|split].
  - unfold mpz_abs, value, mpz_wf. cbn [sz d]. split.
    + destruct (sz u) as [|p|p]; cbn [Z.sgn Z.abs]; lia.
    + split; [lia|]. split; assumption.
  - unfold mpz_set, value, mpz_wf. cbn [sz d]. split; [reflexivity|].
    split; [assumption|]. split; assumption.
  - unfold mpz_swap. cbn [fst snd]. split; reflexivity.
Qed.

(* ------------------------------------------------------------------ *)
(* mpz_add, mpz_sub                                                     *)

Definition aors_body (usize : Z) (up : list Z) (vsize : Z) (vp : list Z) : mpz :=
  if ((usize <? 0) && (0 <=? vsize)) || ((0 <=? usize) && (vsize <? 0)) then
    if negb (Z.abs usize =? Z.abs vsize) then
      mk_norm (usize <? 0) (fst (sub up vp))
    else if cmp up vp <? 0 then
      mk_norm (0 <=? usize) (fst (sub_n vp up))
    else
      mk_norm (usize <? 0) (fst (sub_n up vp))
  else
    let '(w, cy) := add up vp in
    let w' := if cy =? 0 then w else w ++ [cy] in
    mkz (if usize <? 0 then - len w' else len w') w'.

Lemma aors_unfold u v vneg :
  aors u v vneg =
  if Z.abs (sz u) <? Z.abs (if vneg then - sz v else sz v)
  then aors_body (if vneg then - sz v else sz v) (d v) (sz u) (d u)
  else aors_body (sz u) (d u) (if vneg then - sz v else sz v) (d v).
Proof.
  unfold aors, aors_body.
  destruct (Z.abs (sz u) <? Z.abs (if vneg then - sz v else sz v)); reflexivity.
Qed.

(* different signs: the result is the difference of the magnitudes *)
Lemma aors_diff us up vs vp (uneg : bool) :
  mpz_wf (mkz us up) -> mpz_wf (mkz vs vp) -> Z.abs vs <= Z.abs us ->
  let r :=
    if negb (Z.abs us =? Z.abs vs) then mk_norm uneg (fst (sub up vp))
    else if cmp up vp <? 0 then mk_norm (negb uneg) (fst (sub_n vp up))
    else mk_norm uneg (fst (sub_n up vp)) in
  value r = (if uneg then - (eval up - eval vp) else eval up - eval vp) /\ mpz_wf r.
Proof.
  intros (Au & Wu & Nu) (Av & Wv & Nv) Hle. cbn [sz d] in *. cbv zeta.
  destruct (Z.eqb_spec (Z.abs us) (Z.abs vs)) as [Eq|Ne]; cbn [negb].
  - assert (Hl : length up = length vp).
    { unfold len in *. lia. }
    rewrite (cmp_spec up vp Wu Wv Hl).
    destruct (Z.ltb_spec (Z.sgn (eval up - eval vp)) 0) as [C|C].
    + destruct (sub_n_noborrow vp up Wv Wu (eq_sym Hl) ltac:(lia)) as [S1 S2].
      destruct (mk_norm_spec (negb uneg) _ S2) as [M1 M2].
      split; [|assumption]. rewrite M1, S1. destruct uneg; cbn [negb]; lia.
    + destruct (sub_n_noborrow up vp Wu Wv Hl ltac:(lia)) as [S1 S2].
      destruct (mk_norm_spec uneg _ S2) as [M1 M2].
      split; [|assumption]. rewrite M1, S1. reflexivity.
  - assert (Hlt : len vp < len up) by lia.
    pose proof (shorter_lt up vp Wu Wv Nu Hlt) as Hev.
    assert (Hl : (length vp <= length up)%nat) by (unfold len in Hlt; lia).
    destruct (sub_noborrow up vp Wu Wv Hl ltac:(lia)) as [S1 S2].
    destruct (mk_norm_spec uneg _ S2) as [M1 M2].
    split; [|assumption]. rewrite M1, S1. reflexivity.
Qed.

(* same sign: the magnitudes are added *)
Lemma aors_same up vp : wf up -> wf vp -> normalized up -> (length vp <= length up)%nat ->
  let w' := if snd (add up vp) =? 0 then fst (add up vp)
            else fst (add up vp) ++ [snd (add up vp)] in
  eval w' = eval up + eval vp /\ wf w' /\ normalized w'.
Proof.
  intros Wu Wv Nu Hl. cbv zeta.
  destruct (add_spec up vp Wu Wv Hl) as (A1 & A2 & A3 & A4).
  apply carry_append; try assumption.
  - rewrite (len_eq_of_length _ _ A3). exact A1.
  - destruct up as [|x r].
    + left. destruct (fst (add [] vp)); [reflexivity|discriminate].
    + right. rewrite (len_eq_of_length _ _ A3).
      pose proof (normalized_lower (x :: r) Wu Nu ltac:(discriminate)) as L.
      pose proof (eval_nonneg vp Wv). lia.
Qed.

Lemma aors_body_spec us up vs vp :
  mpz_wf (mkz us up) -> mpz_wf (mkz vs vp) -> Z.abs vs <= Z.abs us ->
  value (aors_body us up vs vp) = value (mkz us up) + value (mkz vs vp)
  /\ mpz_wf (aors_body us up vs vp).
Proof.
  intros Hu Hv Hle.
  pose proof (aors_diff us up vs vp true Hu Hv Hle) as Dt.
  pose proof (aors_diff us up vs vp false Hu Hv Hle) as Df.
  cbv zeta in Dt, Df. cbn [negb] in Dt, Df.
  destruct Hu as (Au & Wu & Nu). destruct Hv as (Av & Wv & Nv). cbn [sz d] in *.
  assert (Hl : (length vp <= length up)%nat) by (unfold len in *; lia).
  pose proof (aors_same up vp Wu Wv Nu Hl) as Sm. cbv zeta in Sm.
  unfold aors_body.
  destruct (Z.ltb_spec us 0) as [U|U]; destruct (Z.leb_spec 0 us) as [U'|U']; try lia;
  destruct (Z.ltb_spec vs 0) as [V|V]; destruct (Z.leb_spec 0 vs) as [V'|V']; try lia;
  cbn [andb orb].
  - (* both negative *)
    rewrite (value_nonpos_sz us up Au) by lia. rewrite (value_nonpos_sz vs vp Av) by lia.
    destruct (add up vp) as [w cy]. cbn [fst snd] in Sm. destruct Sm as (E & W & N).
    destruct (mkz_neg _ W N) as [M1 M2]. split; [rewrite M1; lia|exact M2].
  - (* u negative, v non-negative *)
    rewrite (value_nonpos_sz us up Au) by lia. rewrite (value_nonneg_sz vs vp Av) by lia.
    destruct Dt as [D1 D2]. split; [rewrite D1; lia|exact D2].
  - (* u non-negative, v negative *)
    rewrite (value_nonneg_sz us up Au) by lia. rewrite (value_nonpos_sz vs vp Av) by lia.
    destruct Df as [D1 D2]. split; [rewrite D1; lia|exact D2].
  - (* both non-negative *)
    rewrite (value_nonneg_sz us up Au) by lia. rewrite (value_nonneg_sz vs vp Av) by lia.
    destruct (add up vp) as [w cy]. cbn [fst snd] in Sm. destruct Sm as (E & W & N).
    destruct (mkz_pos _ W N) as [M1 M2]. split; [rewrite M1; lia|exact M2].
Qed.

Lemma mpz_add_spec : forall u v, mpz_wf u -> mpz_wf v ->
  value (mpz_add u v) = value u + value v /\ mpz_wf (mpz_add u v).
Proof.
  intros [us up] [vs vp] Hu Hv. unfold mpz_add. rewrite aors_unfold. cbn [sz d].
  destruct (Z.ltb_spec (Z.abs us) (Z.abs vs)) as [C|C].
  - rewrite Z.add_comm. apply aors_body_spec; [assumption|assumption|lia].
  - apply aors_body_spec; [assumption|assumption|lia].
Qed.

Lemma mpz_sub_spec : forall u v, mpz_wf u -> mpz_wf v ->
  value (mpz_sub u v) = value u - value v /\ mpz_wf (mpz_sub u v).
Proof.
  intros u v Hu Hv. unfold mpz_sub.
  change (aors u v true) with (mpz_add u (mpz_neg v)).
  destruct (mpz_neg_spec v Hv) as [N1 N2].
  destruct (mpz_add_spec u (mpz_neg v) Hu N2) as [A1 A2].
  split; [rewrite A1, N1; ring|exact A2].
Qed.

(* ------------------------------------------------------------------ *)
(* mpz_add_ui, mpz_sub_ui                                               *)

Lemma add_1_carry up v : wf up -> normalized up -> up <> [] -> limb v ->
  let w' := if snd (add_1 up v) =? 0 then fst (add_1 up v)
            else fst (add_1 up v) ++ [snd (add_1 up v)] in
  eval w' = eval up + v /\ wf w' /\ normalized w'.
Proof.
  intros Wu Nu Hne Hv. cbv zeta.
  destruct (add_1_spec up v Wu Hv Hne) as (A1 & A2 & A3 & A4).
  apply carry_append; try assumption.
  - rewrite (len_eq_of_length _ _ A3). exact A1.
  - right. rewrite (len_eq_of_length _ _ A3).
    pose proof (normalized_lower up Wu Nu Hne) as L. unfold limb in Hv. lia.
Qed.

Lemma sub_1_norm up v neg : wf up -> normalized up -> up <> [] -> limb v -> v <= eval up ->
  value (mk_norm neg (fst (sub_1 up v))) = (if neg then - (eval up - v) else eval up - v)
  /\ mpz_wf (mk_norm neg (fst (sub_1 up v))).
Proof.
  intros Wu Nu Hne Hv Hle.
  destruct (sub_1_noborrow up v Wu Hv Hne Hle) as [S1 S2].
  destruct (mk_norm_spec neg _ S2) as [M1 M2]. rewrite S1 in M1. split; assumption.
Qed.

Lemma aors_ui_spec u v isub : mpz_wf u -> limb v ->
  value (aors_ui u v isub) = (if isub then value u - v else value u + v)
  /\ mpz_wf (aors_ui u v isub).
Proof.
  destruct u as [us up]. intros (Au & Wu & Nu) Hv. cbn [sz d] in *.
  unfold aors_ui. cbn [sz d]. cbv zeta.
  pose proof B_pos as HB.
  destruct (Z.eqb_spec (Z.abs us) 0) as [Z0|NZ].
  - (* u = 0 *)
    assert (us = 0) by lia. subst us.
    assert (up = []) by (apply len_0_nil; lia). subst up.
    unfold value at 2 3. cbn [sz d Z.sgn].
    destruct (Z.eqb_spec v 0) as [V0|VN].
    + subst v. split; [destruct isub; reflexivity|apply mpz_wf_zero].
    + split.
      * unfold value. cbn [sz d]. rewrite eval_single.
        destruct isub; cbn [Z.sgn]; lia.
      * apply mpz_wf_single; [destruct isub; reflexivity|assumption|assumption].
  - assert (Hne : up <> []).
    { intros E. subst up. unfold len in Au. cbn [length] in Au. lia. }
    assert (Hsame : forall neg : bool, (if neg then us < 0 else 0 < us) ->
       let '(w, cy) := add_1 up v in
       let w' := if cy =? 0 then w else w ++ [cy] in
       value (mkz (if neg then - len w' else len w') w')
         = (if neg then value (mkz us up) - v else value (mkz us up) + v)
       /\ mpz_wf (mkz (if neg then - len w' else len w') w')).
    { intros neg Hs. pose proof (add_1_carry up v Wu Nu Hne Hv) as Cx. cbv zeta in Cx.
      destruct (add_1 up v) as [w cy]. cbn [fst snd] in Cx. destruct Cx as (E & W & N).
      destruct neg.
      - rewrite (value_nonpos_sz us up Au) by lia.
        destruct (mkz_neg _ W N) as [M1 M2]. split; [rewrite M1; lia|exact M2].
      - rewrite (value_nonneg_sz us up Au) by lia.
        destruct (mkz_pos _ W N) as [M1 M2]. split; [rewrite M1; lia|exact M2]. }
    assert (Hopp : forall neg : bool, (if neg then us < 0 else 0 < us) -> v <= eval up ->
       value (mk_norm neg (fst (sub_1 up v)))
         = (if neg then value (mkz us up) + v else value (mkz us up) - v)
       /\ mpz_wf (mk_norm neg (fst (sub_1 up v)))).
    { intros neg Hs Hle.
      destruct (sub_1_norm up v neg Wu Nu Hne Hv Hle) as [M1 M2].
      split; [|exact M2]. rewrite M1. destruct neg.
      - rewrite (value_nonpos_sz us up Au) by lia. lia.
      - rewrite (value_nonneg_sz us up Au) by lia. lia. }
    destruct isub.
    + (* sub_ui *)
      destruct (Z.ltb_spec us 0) as [U|U].
      * pose proof (Hsame true U) as R. destruct (add_1 up v) as [w cy]. exact R.
      * cbn [negb]. assert (Up : 0 < us) by lia.
        destruct up as [|u0 [|u1 r]]; [congruence| |].
        -- destruct (Z.ltb_spec u0 v) as [C|C].
           ++ apply wf_inv in Wu. destruct Wu as [Hu0 _]. unfold limb in Hu0, Hv.
              rewrite (wrap_small (v - u0)) by lia. split.
              ** rewrite (value_nonneg_sz us [u0] Au) by lia.
                 unfold value. cbn [sz d Z.sgn]. rewrite !eval_single. lia.
              ** apply mpz_wf_single; [reflexivity|unfold limb; lia|lia].
           ++ apply (Hopp false); [exact Up|rewrite eval_single; lia].
        -- apply (Hopp false); [exact Up|].
           assert (B <= eval (u0 :: u1 :: r)).
           { apply long_ge_B; [assumption|assumption|]. unfold len. cbn [length]. lia. }
           unfold limb in Hv. lia.
    + (* add_ui *)
      destruct (Z.leb_spec 0 us) as [U|U].
      * assert (Up : 0 < us) by lia. pose proof (Hsame false Up) as R.
        destruct (add_1 up v) as [w cy]. exact R.
      * cbn [negb].
        destruct up as [|u0 [|u1 r]]; [congruence| |].
        -- destruct (Z.ltb_spec u0 v) as [C|C].
           ++ apply wf_inv in Wu. destruct Wu as [Hu0 _]. unfold limb in Hu0, Hv.
              rewrite (wrap_small (v - u0)) by lia. split.
              ** rewrite (value_nonpos_sz us [u0] Au) by lia.
                 unfold value. cbn [sz d Z.sgn]. rewrite !eval_single. lia.
              ** apply mpz_wf_single; [reflexivity|unfold limb; lia|lia].
           ++ apply (Hopp true); [exact U|rewrite eval_single; lia].
        -- apply (Hopp true); [exact U|].
           assert (B <= eval (u0 :: u1 :: r)).
           { apply long_ge_B; [assumption|assumption|]. unfold len. cbn [length]. lia. }
           unfold limb in Hv. lia.
Qed.

Lemma mpz_add_ui_spec : forall u v, mpz_wf u -> limb v ->
  value (mpz_add_ui u v) = value u + v /\ mpz_wf (mpz_add_ui u v).
Proof. intros u v Hu Hv. exact (aors_ui_spec u v false Hu Hv). Qed.

Lemma mpz_sub_ui_spec : forall u v, mpz_wf u -> limb v ->
  value (mpz_sub_ui u v) = value u - v /\ mpz_wf (mpz_sub_ui u v).
Proof. intros u v Hu Hv. exact (aors_ui_spec u v true Hu Hv). Qed.

(* ------------------------------------------------------------------ *)
(* mpz_ui_sub                                                           *)

Lemma mpz_ui_sub_spec : forall u v, limb u -> mpz_wf v ->
  value (mpz_ui_sub u v) = u - value v /\ mpz_wf (mpz_ui_sub u v).
Proof.
  intros u [vs vp] Hu (Av & Wv & Nv). cbn [sz d] in *.
  unfold mpz_ui_sub. cbn [sz d]. cbv zeta.
  pose proof B_pos as HB.
  destruct (Z.ltb_spec 1 vs) as [C1|C1].
  - (* v has at least two limbs *)
    rewrite (value_nonneg_sz vs vp Av) by lia.
    assert (Hne : vp <> []).
    { intros E. subst vp. unfold len in Av. cbn [length] in Av. lia. }
    assert (B <= eval vp) by (apply long_ge_B; [assumption|assumption|lia]).
    destruct (sub_1_norm vp u true Wv Nv Hne Hu ltac:(unfold limb in Hu; lia)) as [M1 M2].
    split; [rewrite M1; lia|exact M2].
  - destruct (Z.eqb_spec vs 1) as [C2|C2].
    + subst vs. rewrite (value_nonneg_sz 1 vp Av) by lia.
      destruct vp as [|v0 r].
      { unfold len in Av. cbn [length] in Av. lia. }
      assert (r = []).
      { apply len_0_nil. unfold len in *. cbn [length] in Av. lia. }
      subst r. rewrite eval_single.
      apply wf_inv in Wv. destruct Wv as [Hv0 _]. unfold limb in Hu, Hv0.
      destruct (Z.leb_spec v0 u) as [C|C].
      * rewrite (wrap_small (u - v0)) by lia.
        assert (W : wf [u - v0]) by (apply wf_cons; [unfold limb; lia|apply wf_nil]).
        destruct (mk_norm_spec false _ W) as [M1 M2].
        split; [rewrite M1, eval_single; reflexivity|exact M2].
      * rewrite (wrap_small (v0 - u)) by lia. split.
        -- unfold value. cbn [sz d Z.sgn]. rewrite eval_single. lia.
        -- apply mpz_wf_single; [reflexivity|unfold limb; lia|lia].
    + destruct (Z.eqb_spec vs 0) as [C3|C3].
      * subst vs. assert (vp = []) by (apply len_0_nil; lia). subst vp.
        assert (W : wf [u]) by (apply wf_cons; [assumption|apply wf_nil]).
        destruct (mk_norm_spec false _ W) as [M1 M2].
        split; [|exact M2]. rewrite M1, eval_single. unfold value. cbn [sz d Z.sgn]. lia.
      * (* v negative *)
        assert (Vn : vs < 0) by lia.
        rewrite (value_nonpos_sz vs vp Av) by lia.
        assert (Hne : vp <> []).
        { intros E. subst vp. unfold len in Av. cbn [length] in Av. lia. }
        pose proof (add_1_carry vp u Wv Nv Hne Hu) as Cx. cbv zeta in Cx.
        destruct (add_1 vp u) as [w cy]. cbn [fst snd] in Cx. destruct Cx as (E & W & N).
        destruct (mkz_pos _ W N) as [M1 M2]. split; [rewrite M1; lia|exact M2].
Qed.

(* ------------------------------------------------------------------ *)
(* mpz_mul_2exp                                                         *)

Lemma pow2_le_B c : 0 <= c <= 64 -> 2 ^ c <= B.
Proof.
  intros H. replace B with (2 ^ 64) by (rewrite B_val; reflexivity).
  apply Z.pow_le_mono_r; lia.
Qed.

Lemma lshift_hi_spec up c : wf up -> normalized up -> up <> [] -> 0 <= c < 64 ->
  let hi :=
    if negb (c =? 0) then
      let '(w, wlimb) := lshift up c in
      if negb (wlimb =? 0) then w ++ [wlimb] else w
    else up in
  eval hi = eval up * 2 ^ c /\ wf hi /\ normalized hi /\ hi <> [].
Proof.
  intros Wu Nu Hne Hc. cbv zeta.
  destruct (Z.eqb_spec c 0) as [C0|C0]; cbn [negb].
  - subst c. rewrite Z.pow_0_r. split; [lia|]. split; [assumption|]. split; assumption.
  - assert (Hc' : 1 <= c <= 63) by lia.
    destruct (lshift_spec up c Wu Hc') as (L1 & L2 & L3 & L4).
    destruct (lshift up c) as [w wl]. cbn [fst snd] in *.
    pose proof (len_eq_of_length _ _ L3) as Ll.
    pose proof (pow2_le_B c ltac:(lia)) as P.
    assert (Pc : 1 <= 2 ^ c) by (pose proof (Z.pow_pos_nonneg 2 c); lia).
    pose proof (normalized_lower up Wu Nu Hne) as Low.
    pose proof (eval_nonneg up Wu) as E0.
    assert (Hwne : w <> []) by (intros E; subst w; destruct up; [congruence|discriminate]).
    destruct (Z.eqb_spec wl 0) as [W0|W0]; cbn [negb].
    + subst wl. split; [lia|]. split; [assumption|]. split; [|assumption].
      apply lower_normalized; [assumption|assumption|].
      rewrite Ll. assert (eval up * 1 <= eval up * 2 ^ c) by (apply Z.mul_le_mono_nonneg_l; lia).
      lia.
    + split; [rewrite eval_snoc, Ll; lia|].
      split; [apply wf_app; [assumption|apply wf_cons; [unfold limb; lia|apply wf_nil]]|].
      split; [apply normalized_snoc; assumption|].
      intros E. apply app_eq_nil in E. destruct E as [_ E]. discriminate.
Qed.

Lemma Bpow_as_2pow q : 0 <= q -> B ^ q = 2 ^ (64 * q).
Proof.
  intros Hq. replace B with (2 ^ 64) by (rewrite B_val; reflexivity).
  rewrite <- Z.pow_mul_r by lia. reflexivity.
Qed.

Lemma mpz_mul_2exp_spec : forall u cnt, mpz_wf u -> 0 <= cnt ->
  value (mpz_mul_2exp u cnt) = value u * 2 ^ cnt /\ mpz_wf (mpz_mul_2exp u cnt).
Proof.
  intros [us up] cnt (Au & Wu & Nu) Hcnt. cbn [sz d] in *.
  unfold mpz_mul_2exp. cbn [sz d]. cbv zeta.
  destruct (Z.eqb_spec us 0) as [U0|U0].
  - subst us. split; [|apply mpz_wf_zero]. unfold value. cbn [sz d Z.sgn eval]. lia.
  - assert (Hne : up <> []).
    { intros E. subst up. unfold len in Au. cbn [length] in Au. lia. }
    pose proof (Z.div_mod cnt 64 ltac:(lia)) as D.
    pose proof (Z.mod_pos_bound cnt 64 ltac:(lia)) as M.
    assert (Hq : 0 <= cnt / 64) by (apply Z.div_pos; lia).
    set (q := cnt / 64) in *. set (c := cnt mod 64) in *.
    pose proof (lshift_hi_spec up c Wu Nu Hne M) as H. cbv zeta in H.
    set (hi := if negb (c =? 0) then _ else up) in *.
    destruct H as (H1 & H2 & H3 & H4).
    set (w := repeat 0 (Z.to_nat q) ++ hi).
    assert (Ew : eval w = eval up * 2 ^ cnt).
    { unfold w. rewrite eval_app_len, eval_repeat0. unfold len. rewrite repeat_length.
      rewrite Z2Nat.id by lia. rewrite Bpow_as_2pow by lia. rewrite H1, D.
      rewrite Z.pow_add_r by lia. ring. }
    assert (Ww : wf w).
    { unfold w. apply wf_app; [apply wf_repeat; apply limb_0|assumption]. }
    assert (Nw : normalized w).
    { unfold w. apply normalized_app_r; assumption. }
    destruct (Z.leb_spec 0 us) as [U|U].
    + rewrite (value_nonneg_sz us up Au) by lia.
      destruct (mkz_pos w Ww Nw) as [M1 M2]. split; [rewrite M1; exact Ew|exact M2].
    + rewrite (value_nonpos_sz us up Au) by lia.
      destruct (mkz_neg w Ww Nw) as [M1 M2]. split; [rewrite M1, Ew; ring|exact M2].
Qed.

(* ------------------------------------------------------------------ *)
(* concrete instance                                                    *)

Lemma C03_example :
  wf [B - 1; B - 1; B - 1] /\ add_n [B - 1; B - 1; B - 1] [1; 0; 0] = ([0; 0; 0], 1)
  /\ mpz_wf (mkz (-2) [0; 1]) /\ mpz_wf (mkz 1 [5])
  /\ value (mpz_add (mkz (-2) [0; 1]) (mkz 1 [5])) = - B + 5.
Proof.
  split; [apply wfb_wf; vm_compute; reflexivity|].
  split; [vm_compute; reflexivity|].
  split.
  { unfold mpz_wf. cbn [sz d]. split; [reflexivity|].
    split; [apply wfb_wf; vm_compute; reflexivity|]. right. cbn [last]. lia. }
  split.
  { unfold mpz_wf. cbn [sz d]. split; [reflexivity|].
    split; [apply wfb_wf; vm_compute; reflexivity|]. right. cbn [last]. lia. }
  vm_compute. reflexivity.
Qed.
