(* ApiRand.v — correspondence entry points for C19.  Definitions only. *)
From Coq Require Import ZArith List Bool.
From Mpir Require Import Word RandDefs ApiBasic.
From MpirGen Require Import Gen_Rand.
Import ListNotations.
Local Open Scope Z_scope.

Inductive gstate := GMT (s : mt_state) | GLC (s : lc_state).
Definition gget (g : gstate) (nbits : Z) : Z * gstate :=
  match g with
  | GMT s => let '(r, s') := randget_mt mt_N mt_M mt_MATRIX_A mt_MASK_1 mt_MASK_2 s nbits in (r, GMT s')
  | GLC s => let '(r, s') := randget_lc s nbits in (r, GLC s')
  end.
Definition mt_default : mt_state := mkmt mt_default_state (mt_WARM_UP mod mt_N).
Definition nl64 (x : Z) : Z := if x =? 0 then 0 else Z.log2 x / 64 + 1.
Definition fuelR : nat := 2000.
(* one call -> output tokens and the next state; None = the model's rejection loop ran out of fuel *)
Definition do_call (g : gstate) (code a b : Z) : list tok * gstate :=
  let opt (o : option (Z * gstate)) := match o with Some (r, g') => ([TZ r], g') | None => ([TZ (-1)], g) end in
  if code =? 1 then let '(r, g') := urandomb gstate gget g a in ([TZ r], g')
  else if code =? 2 then opt (mpz_urandomm gstate gget fuelR g a)
  else if code =? 3 then let '(r, g') := rrandomb gstate gget g a in ([TZ r], g')
  else if code =? 4 then let '(r, g') := urandomb gstate gget g a in ([TZ r], g')
  else if code =? 5 then opt (mpn_urandomm gstate gget fuelR g a)
  else if code =? 6 then let '(r, g') := urandomb_ui gstate gget g a in ([TZ r], g')
  else if code =? 7 then let '(r, g') := urandomm_ui gstate gget g a in ([TZ r], g')
  else if code =? 8 then opt (mpn_randomb gstate gget fuelR g a)
  else if code =? 9 then let '(r, g') := mpn_rrandom gstate gget g a in ([TZ r], g')
  else
    let prec := (Z.max 53 a + 2 * 64 - 1) / 64 in                     (* __GMPF_BITS_TO_PREC *)
    let '(m, nl, g') := mpf_urandomb gstate gget g prec b in
    let n' := nl64 m in ([TZ n'; TZ (- (nl - n')); TZ m], g').
Fixpoint do_calls (g : gstate) (l : list tok) (fuel : nat) : list tok :=
  match fuel with
  | O => []
  | S f =>
      match l with
      | c :: a :: b :: r => let '(o, g') := do_call g (tz c) (tz a) (tz b) in o ++ do_calls g' r f
      | _ => []
      end
  end.
(* rand K P1 P2 P3 SEEDMODE SEED COPYAT DUMP ncalls calls... (Mersenne Twister: unseeded only; seeded goes through rand_from_mt) *)
Definition api_rand : api := fun t =>
  let K := argz t 0 in let mode := argz t 4 in let seed := argz t 5 in
  let calls := skipn 9 t in
  let lcst (s : lc_state) := if mode =? 0 then s else lc_seed s (if mode =? 2 then seed mod 2 ^ 64 else seed) in
  if (K =? 0) || (K =? 3) then do_calls (GMT mt_default) calls (length calls)
  else if K =? 1 then do_calls (GLC (lcst (lc_init (argz t 1) (argz t 2 mod 2 ^ 64) (argz t 3)))) calls (length calls)
  else match lc_pick lc_schemes (argz t 1) with
       | Some (m, a, c) => do_calls (GLC (lcst (lc_init a c m))) calls (length calls)
       | None => [TB [78; 79; 45; 83; 67; 72; 69; 77; 69]]
       end.
(* rand_from_mt mti WORDS ncalls calls... : from a dumped Mersenne Twister state *)
Fixpoint words32 (n : nat) (w : Z) : list Z := match n with O => [] | S k => (w mod 2 ^ 32) :: words32 k (w / 2 ^ 32) end.
Definition api_rand_from_mt : api := fun t =>
  let calls := skipn 3 t in
  do_calls (GMT (mkmt (words32 (Z.to_nat mt_N) (argz t 1)) (argz t 0))) calls (length calls).
(* acceptance of observed frequencies: every count within five standard deviations of its mean *)
Definition api_biascheck : api := fun t =>
  let n := argz t 0 in
  [TZ (b2z (forallb (fun c => let d := 2 * tz c - n in d * d <=? 25 * n) (skipn 1 t)))].
Definition api_bucketcheck : api := fun t =>
  let n := argz t 0 in
  [TZ (b2z (forallb (fun c => let d := 8 * tz c - n in d * d <=? 25 * 7 * n) (skipn 1 t)))].
