(* ApiCxx.v — correspondence entry points for C20.  Definitions only. *)
From Coq Require Import ZArith List Bool.
From Mpir Require Import Word DivDefs RadixDefs PrintfDefs MpqDefs CxxDefs ApiBasic.
Import ListNotations.
Local Open Scope Z_scope.

(* prefix code of an expression: 0 v | 1 k | 2 op e | 3 op a b *)
Fixpoint parse_expr (fuel : nat) (l : list Z) : option (expr * list Z) :=
  match fuel with
  | O => None
  | S f =>
      match l with
      | 0 :: v :: r => Some (EVar (Z.to_nat v), r)
      | 1 :: k :: r => Some (EBuiltin k, r)
      | 2 :: op :: r => match parse_expr f r with Some (e, r') => Some (EUn op e, r') | None => None end
      | 3 :: op :: r =>
          match parse_expr f r with
          | Some (a, r1) => match parse_expr f r1 with Some (b, r2) => Some (EBin op a b, r2) | None => None end
          | None => None
          end
      | _ => None
      end
  end.
Fixpoint toksz (l : list tok) : list Z := match l with [] => [] | t :: r => tz t :: toksz r end.
(* built-in operands: 0 l, 1 u, 2 x (given as twice its value; the library truncates a double), then the compile-time constants *)
Definition builtin_value (l u xh k : Z) : Z :=
  if k =? 0 then l else if k =? 1 then u else if k =? 2 then Z.quot xh 2
  else nth (Z.to_nat (k - 3)) [0; 1; 2; 8; -4; 3; 16; 0; -1; 64] 0.
(* cxx tree dest A B C D l u xh cop code... : the four objects after "dest = expr" (dest 0..3), "dest op= expr" (4..7), or construction (8) *)
Definition api_cxx : api := fun t =>
  let dest := argz t 1 in
  let env0 (v : nat) := argz t (2 + v) in
  let blt := builtin_value (argz t 6) (argz t 7) (argz t 8) in
  let cop := argz t 9 in
  match parse_expr 4000 (toksz (skipn 10 t)) with
  | Some (e, _) =>
      let st : store Z := fun q => match q with Named v => env0 v | Tmp _ => 0 end in
      let zl (op a k : Z) := z_bin op a k in let zr (op k a : Z) := z_bin op k a in
      let x := Z.to_nat (if dest =? 8 then 0 else dest mod 4) in
      let st' := if (4 <=? dest) && (dest <? 8) then compound Z z_un z_bin zl zr blt cop x e st else assign Z z_un z_bin zl zr blt x e st in
      map (fun v => TZ (st' (Named v))) [0; 1; 2; 3]%nat
  | None => [TB [63]]
  end.
Definition sgnz (c : Z) : Z := if c <? 0 then -1 else if 0 <? c then 1 else 0.
Definition api_cxx_cmp : api := fun t =>
  let a := argz t 0 in let b := argz t 1 in let l := argz t 2 in let u := argz t 3 in let xh := argz t 4 in
  map (fun c : bool => TZ (b2z c))
    [a =? b; negb (a =? b); a <? b; a <=? b; b <? a; b <=? a] ++ [TZ (sgnz (a - b)); TZ (Z.sgn a)]
  ++ map (fun c : bool => TZ (b2z c)) [a =? l; a <? l; l <? a; l <? a; l =? a; a <=? l] ++ [TZ (sgnz (a - l))]
  ++ map (fun c : bool => TZ (b2z c)) [a =? u; a <? u; u <? a] ++ [TZ (sgnz (u - a))]
  ++ map (fun c : bool => TZ (b2z c)) [2 * a =? xh; 2 * a <? xh; xh <? 2 * a; xh <=? 2 * a] ++ [TZ (sgnz (2 * a - xh))]
  ++ map (fun c : bool => TZ (b2z c)) [true; (a <? a * 2); (a - b <? l)].
Definition fits (lo hi v : Z) : Z := b2z ((lo <=? v) && (v <=? hi)).
Definition api_cxx_conv : api := fun t =>
  let v := argz t 0 in let base := argz t 1 in
  [TB (mpz_get_str v base); TZ v; TZ 0; TZ v;
   TZ (fits (- 2 ^ 63) (2 ^ 63 - 1) v); TZ (fits 0 (2 ^ 64 - 1) v); TZ (fits (- 2 ^ 31) (2 ^ 31 - 1) v); TZ (fits 0 (2 ^ 32 - 1) v);
   TZ (fits (- 2 ^ 15) (2 ^ 15 - 1) v); TZ (fits 0 (2 ^ 16 - 1) v);
   TZ (Z.abs v mod 2 ^ 64)]
  ++ (if (- 2 ^ 63 <=? v) && (v <? 2 ^ 63) then [TZ v; TZ v] else [TZ 0; TZ 0]).
(* operator<< : parameters from the ios flags (cxx/osfuns.cc), precision -1 (cxx/osdoprnti.cc), then doprnt_integer *)
Definition api_cxx_io : api := fun t =>
  let v := argz t 0 in let fl := argz t 1 in let w := argz t 2 in
  let bit (k : Z) := Z.testbit fl k in
  let base := if bit 0 then (if bit 6 then -16 else 16) else if bit 1 then 8 else 10 in
  let just := if bit 4 then 1 else if bit 5 then 3 else 2 in
  let showbase := if bit 2 then (if bit 0 then 1 else 2) else 0 in
  let p := mkp base 42 just (-1) showbase (if bit 3 then 43 else 0) w false false in
  [TB (doprnt_integer p (mpz_get_str v base)); TZ v; TZ 0; TZ 5].

(* ---- mpq_class trees: carrier = canonical fractions; a built-in is given as twice its value (so that the exact value of a
   half-integral double is an integer); operators 0 + | 1 - | 2 * | 3 / | 10 << | 11 >>, unary 0 - | 2 abs ---- *)
Definition q_of_half (h : Z) : mpq := match mpq_canonicalize (mkq h 2) with Ok q => q | DivByZero => mkq 0 1 end.
Definition q_bin (op : Z) (x y : mpq) : mpq :=
  if op =? 0 then mpq_add x y else if op =? 1 then mpq_sub x y else if op =? 2 then mpq_mul x y false
  else match mpq_div x y with Ok q => q | DivByZero => x end.
Definition q_binl (op : Z) (x : mpq) (h : Z) : mpq :=
  if op =? 10 then mpq_mul_2exp x (h / 2) else if op =? 11 then mpq_div_2exp x (h / 2) else q_bin op x (q_of_half h).
Definition q_binr (op : Z) (h : Z) (y : mpq) : mpq := q_bin op (q_of_half h) y.
Definition q_un (op : Z) (x : mpq) : mpq := if op =? 0 then mpq_neg x else mpq_abs x.
Definition builtin_half (l u xh k : Z) : Z :=
  if k =? 0 then 2 * l else if k =? 1 then 2 * u else if k =? 2 then xh
  else 2 * nth (Z.to_nat (k - 3)) [0; 1; 2; 8; -4; 3; 16; 0; -1; 64] 0.
(* cxxq tree dest An Ad Bn Bd Cn Cd Dn Dd l u xh cop code... *)
Definition api_cxxq : api := fun t =>
  let dest := argz t 1 in
  let env0 (v : nat) := mkq (argz t (2 + 2 * v)) (argz t (3 + 2 * v)) in
  let blt := builtin_half (argz t 10) (argz t 11) (argz t 12) in
  let cop := argz t 13 in
  match parse_expr 4000 (toksz (skipn 14 t)) with
  | Some (e, _) =>
      let st : store mpq := fun q => match q with Named v => env0 v | Tmp _ => mkq 0 1 end in
      let x := Z.to_nat (if dest =? 8 then 0 else dest mod 4) in
      let st' := if (4 <=? dest) && (dest <? 8) then compound mpq q_un q_bin q_binl q_binr blt cop x e st else assign mpq q_un q_bin q_binl q_binr blt x e st in
      flat_map (fun v => [TZ (qn (st' (Named v))); TZ (qd (st' (Named v)))]) [0; 1; 2; 3]%nat
  | None => [TB [63]]
  end.
