(* ConvProofs.v — comparisons and conversions of ConvDefs.v agree with exact arithmetic. *)
From Coq Require Import ZArith Znumtheory List Lia Bool.
From Mpir Require Import Word Limbs MpnBasicDefs MpnBasicProofs MpzDefs MpzProofs ConvDefs MpqDefs.
Import ListNotations.
Local Open Scope Z_scope.

(* ------------------------------------------------------------------ *)
(* mpz_cmp at limb level                                                *)

Lemma mpz_wf_bounds z : mpz_wf z ->
  0 <= eval (d z) < B ^ Z.abs (sz z)
  /\ (sz z <> 0 -> B ^ (Z.abs (sz z) - 1) <= eval (d z)).
Proof.
  intros (Hl & Hw & Hn). rewrite Hl. split.
  - split; [apply eval_nonneg; exact Hw|apply eval_lt; exact Hw].
  - intros Hs. apply normalized_lower; [exact Hw|exact Hn|].
    intros E. rewrite E in Hl. unfold len in Hl. cbn [length] in Hl. lia.
Qed.

Lemma Bpow_le a b : 0 <= a <= b -> B ^ a <= B ^ b.
Proof. intros H. apply Z.pow_le_mono_r; [exact B_pos|lia]. Qed.

Lemma Bpow_pos' a : 0 <= a -> 0 < B ^ a.
Proof. intros H. apply Z.pow_pos_nonneg; [exact B_pos|exact H]. Qed.

(* a non-zero shorter operand is smaller *)
Lemma abs_size_lt u v : mpz_wf u -> mpz_wf v -> Z.abs (sz u) < Z.abs (sz v) ->
  eval (d u) < eval (d v).
Proof.
  intros Hu Hv Hlt.
  destruct (mpz_wf_bounds u Hu) as [[_ U] _].
  destruct (mpz_wf_bounds v Hv) as [_ L]. specialize (L ltac:(lia)).
  pose proof (Bpow_le (Z.abs (sz u)) (Z.abs (sz v) - 1) ltac:(lia)). lia.
Qed.

Lemma size_pos_eval_pos u : mpz_wf u -> sz u <> 0 -> 0 < eval (d u).
Proof.
  intros Hu Hs. destruct (mpz_wf_bounds u Hu) as [_ L]. specialize (L Hs).
  pose proof (Bpow_pos' (Z.abs (sz u) - 1) ltac:(lia)). lia.
Qed.

Lemma size_zero_eval_zero u : mpz_wf u -> sz u = 0 -> eval (d u) = 0.
Proof.
  intros Hu Hs. destruct (mpz_wf_bounds u Hu) as [[L U] _].
  rewrite Hs in U. cbn [Z.abs] in U. rewrite Z.pow_0_r in U. lia.
Qed.

Lemma sgn_cases s : (s < 0 /\ Z.sgn s = -1) \/ (s = 0 /\ Z.sgn s = 0) \/ (0 < s /\ Z.sgn s = 1).
Proof. destruct s; cbn [Z.sgn]; lia. Qed.

Lemma mpz_cmp_limbs_spec : forall u v, mpz_wf u -> mpz_wf v ->
  mpz_cmp_limbs u v = Z.sgn (value u - value v).
Proof.
  intros u v Hu Hv. unfold mpz_cmp_limbs, value.
  destruct (Z.eqb_spec (sz u) (sz v)) as [E|N]; cbn [negb].
  - (* equal sizes: compare limbs *)
    assert (Hlen : length (d u) = length (d v)).
    { destruct Hu as (Lu & _), Hv as (Lv & _). unfold len in *. rewrite E in Lu.
      apply Nat2Z.inj. lia. }
    pose proof (size_zero_eval_zero u Hu) as Zu.
    pose proof (size_zero_eval_zero v Hv) as Zv.
    destruct Hu as (_ & Wu & _), Hv as (_ & Wv & _).
    rewrite (cmp_spec (d u) (d v) Wu Wv Hlen). rewrite E.
    set (eu := eval (d u)) in *. set (ev := eval (d v)) in *. clearbody eu ev.
    destruct (Z.leb_spec 0 (sz v)) as [Hs|Hs].
    + destruct (sgn_cases (sz v)) as [[H1 ->]|[[H1 ->]|[H1 ->]]]; [lia| |].
      * (* size 0 on both sides *)
        rewrite (Zu ltac:(lia)), (Zv H1). reflexivity.
      * rewrite !Z.mul_1_l. reflexivity.
    + destruct (sgn_cases (sz v)) as [[H1 ->]|[[H1 ->]|[H1 ->]]]; [|lia|lia].
      replace (-1 * eu - -1 * ev) with (- (eu - ev)) by ring.
      rewrite Z.sgn_opp. reflexivity.
  - (* different sizes decide *)
    pose proof (eval_nonneg (d u) (proj1 (proj2 Hu))) as Pu.
    pose proof (eval_nonneg (d v) (proj1 (proj2 Hv))) as Pv.
    destruct (Z.ltb_spec (sz u) (sz v)) as [Hlt|Hge].
    + assert (Hgoal : Z.sgn (sz u) * eval (d u) < Z.sgn (sz v) * eval (d v)).
      { destruct (sgn_cases (sz u)) as [[U1 ->]|[[U1 ->]|[U1 ->]]];
        destruct (sgn_cases (sz v)) as [[V1 ->]|[[V1 ->]|[V1 ->]]]; try lia.
        - pose proof (abs_size_lt v u Hv Hu ltac:(lia)). lia.
        - pose proof (size_pos_eval_pos u Hu ltac:(lia)). lia.
        - pose proof (size_pos_eval_pos u Hu ltac:(lia)). lia.
        - pose proof (size_pos_eval_pos v Hv ltac:(lia)). lia.
        - pose proof (abs_size_lt u v Hu Hv ltac:(lia)). lia. }
      symmetry. apply Z.sgn_neg. lia.
    + assert (Hgoal : Z.sgn (sz v) * eval (d v) < Z.sgn (sz u) * eval (d u)).
      { destruct (sgn_cases (sz u)) as [[U1 ->]|[[U1 ->]|[U1 ->]]];
        destruct (sgn_cases (sz v)) as [[V1 ->]|[[V1 ->]|[V1 ->]]]; try lia.
        - pose proof (abs_size_lt u v Hu Hv ltac:(lia)). lia.
        - pose proof (size_pos_eval_pos v Hv ltac:(lia)). lia.
        - pose proof (size_pos_eval_pos v Hv ltac:(lia)). lia.
        - pose proof (size_pos_eval_pos u Hu ltac:(lia)). lia.
        - pose proof (abs_size_lt v u Hv Hu ltac:(lia)). lia. }
      symmetry. apply Z.sgn_pos. lia.
Qed.

(* ------------------------------------------------------------------ *)
(* value-level orders                                                   *)

Lemma sgn_le0 x : Z.sgn x <= 0 <-> x <= 0.
Proof. destruct x; cbn [Z.sgn]; lia. Qed.

Lemma sgn_eq0 x : Z.sgn x = 0 <-> x = 0.
Proof. destruct x; cbn [Z.sgn]; split; intros H; try reflexivity; discriminate. Qed.

Lemma order_spec : forall a b c,
  mpz_cmp a b = - mpz_cmp b a
  /\ (mpz_cmp a b <= 0 -> mpz_cmp b c <= 0 -> mpz_cmp a c <= 0)
  /\ (mpz_cmp a b = 0 <-> a = b)
  /\ mpz_cmpabs a b = mpz_cmp (Z.abs a) (Z.abs b) /\ mpz_sgn a = mpz_cmp a 0.
Proof.
  intros a b c. unfold mpz_cmp, mpz_cmpabs, mpz_sgn, sgnz.
  split; [|split; [|split; [|split]]].
  - replace (b - a) with (- (a - b)) by ring. rewrite Z.sgn_opp. lia.
  - rewrite !sgn_le0. lia.
  - rewrite sgn_eq0. lia.
  - reflexivity.
  - rewrite Z.sub_0_r. reflexivity.
Qed.

Lemma mpq_order_spec : forall n1 d1 n2 d2 n3 d3, 0 < d1 -> 0 < d2 -> 0 < d3 ->
  mpq_cmp n1 d1 n2 d2 = - mpq_cmp n2 d2 n1 d1
  /\ (mpq_cmp n1 d1 n2 d2 <= 0 -> mpq_cmp n2 d2 n3 d3 <= 0 -> mpq_cmp n1 d1 n3 d3 <= 0)
  /\ (qcanon (mkq n1 d1) -> qcanon (mkq n2 d2) -> (mpq_equal n1 d1 n2 d2 = true <-> mpq_cmp n1 d1 n2 d2 = 0)).
Proof.
  intros n1 d1 n2 d2 n3 d3 H1 H2 H3. unfold mpq_cmp, mpq_equal, sgnz.
  split; [|split].
  - replace (n2 * d1 - n1 * d2) with (- (n1 * d2 - n2 * d1)) by ring. rewrite Z.sgn_opp. lia.
  - rewrite !sgn_le0. intros A C.
    assert (A' : n1 * d2 * d3 <= n2 * d1 * d3) by (apply Z.mul_le_mono_nonneg_r; lia).
    assert (C' : n2 * d3 * d1 <= n3 * d2 * d1) by (apply Z.mul_le_mono_nonneg_r; lia).
    assert (D : d2 * (n1 * d3) <= d2 * (n3 * d1)).
    { replace (d2 * (n1 * d3)) with (n1 * d2 * d3) by ring.
      replace (d2 * (n3 * d1)) with (n3 * d2 * d1) by ring.
      replace (n2 * d1 * d3) with (n2 * d3 * d1) in A' by ring. lia. }
    apply Z.mul_le_mono_pos_l in D; [lia|exact H2].
  - intros [_ G1] [_ G2]. cbn [qn qd] in *.
    rewrite andb_true_iff, !Z.eqb_eq, sgn_eq0. split.
    + intros [-> ->]. ring.
    + intros E.
      assert (D12 : (d1 | d2)).
      { apply Z.gauss with (m := n1); [|rewrite Z.gcd_comm; exact G1].
        exists n2. lia. }
      assert (D21 : (d2 | d1)).
      { apply Z.gauss with (m := n2); [|rewrite Z.gcd_comm; exact G2].
        exists n1. lia. }
      assert (Ed : d1 = d2) by (apply Z.divide_antisym_nonneg; [lia|lia|assumption|assumption]).
      subst d2. split; [|reflexivity].
      apply Z.mul_reg_r with (p := d1); lia.
Qed.

(* ------------------------------------------------------------------ *)
(* comparison with a double                                             *)

Lemma cmp_d_spec : forall z bits,
  (forall neg m e, decode_double bits = DFin neg m e -> 0 <= e ->
     mpz_cmp_d z bits = COk (Z.sgn (z - (if neg then - m else m) * 2 ^ e)))
  /\ (forall neg m e, decode_double bits = DFin neg m e -> e < 0 ->
     mpz_cmp_d z bits = COk (Z.sgn (z * 2 ^ (- e) - (if neg then - m else m))))
  /\ (decode_double bits = DInf false -> mpz_cmp_d z bits = COk (-1))
  /\ (decode_double bits = DInf true -> mpz_cmp_d z bits = COk 1)
  /\ (decode_double bits = DNan -> mpz_cmp_d z bits = Invalid).
Proof.
  intros z bits. unfold mpz_cmp_d, sgnz. split; [|split; [|split; [|split]]].
  - intros neg m e Hd He. rewrite Hd.
    destruct (Z.leb_spec 0 e) as [_|C]; [reflexivity|lia].
  - intros neg m e Hd He. rewrite Hd.
    destruct (Z.leb_spec 0 e) as [C|_]; [lia|reflexivity].
  - intros Hd. rewrite Hd. reflexivity.
  - intros Hd. rewrite Hd. reflexivity.
  - intros Hd. rewrite Hd. reflexivity.
Qed.

(* ------------------------------------------------------------------ *)
(* fits / get                                                           *)

Lemma fits_u_iff bits z : fits_u bits z = true <-> 0 <= z < 2 ^ bits.
Proof. unfold fits_u. rewrite andb_true_iff, Z.leb_le, Z.ltb_lt. tauto. Qed.

Lemma fits_s_iff bits z : fits_s bits z = true <-> - 2 ^ (bits - 1) <= z < 2 ^ (bits - 1).
Proof. unfold fits_s. rewrite andb_true_iff, Z.leb_le, Z.ltb_lt. tauto. Qed.

Lemma get_si_sx_exact z : - 2 ^ 63 <= z < 2 ^ 63 -> mpz_get_si z = z /\ mpz_get_sx z = z.
Proof.
  intros Hz. unfold mpz_get_si, mpz_get_sx. cbv zeta. rewrite B_val.
  change (2 ^ 63) with 9223372036854775808 in *.
  assert (Ea : Z.abs z mod 18446744073709551616 = Z.abs z) by (apply Z.mod_small; lia).
  rewrite Ea. split.
  - destruct (Z.ltb_spec 0 z) as [Hp|Hnp].
    + rewrite Z.mod_small by lia. lia.
    + destruct (Z.ltb_spec z 0) as [Hn|Hnn]; [|lia].
      rewrite (Z.mod_small (Z.abs z - 1)) by lia.
      rewrite Z.mod_small by lia. lia.
  - destruct (Z.ltb_spec z 0) as [Hn|Hnn].
    + rewrite Z.mod_small by lia.
      destruct (Z.ltb_spec (18446744073709551616 - Z.abs z) 9223372036854775808) as [C|_]; lia.
    + destruct (Z.ltb_spec (Z.abs z) 9223372036854775808) as [_|C]; lia.
Qed.

Lemma fits_get_spec : forall z,
  (fits_u 64 z = true <-> 0 <= z < 2 ^ 64) /\ (fits_s 64 z = true <-> - 2 ^ 63 <= z < 2 ^ 63)
  /\ (fits_u 32 z = true <-> 0 <= z < 2 ^ 32) /\ (fits_s 32 z = true <-> - 2 ^ 31 <= z < 2 ^ 31)
  /\ (fits_u 16 z = true <-> 0 <= z < 2 ^ 16) /\ (fits_s 16 z = true <-> - 2 ^ 15 <= z < 2 ^ 15)
  /\ (0 <= z < 2 ^ 64 -> mpz_get_ui z = z)
  /\ (- 2 ^ 63 <= z < 2 ^ 63 -> mpz_get_si z = z /\ mpz_get_sx z = z)
  /\ mpz_get_ui z = Z.abs z mod 2 ^ 64.
Proof.
  intros z.
  split; [apply fits_u_iff|]. split; [apply (fits_s_iff 64)|].
  split; [apply fits_u_iff|]. split; [apply (fits_s_iff 32)|].
  split; [apply fits_u_iff|]. split; [apply (fits_s_iff 16)|].
  split; [|split].
  - intros Hz. unfold mpz_get_ui. rewrite B_val.
    change (2 ^ 64) with 18446744073709551616 in Hz.
    rewrite Z.abs_eq by lia. apply Z.mod_small. lia.
  - apply get_si_sx_exact.
  - unfold mpz_get_ui. rewrite B_val. reflexivity.
Qed.

(* ------------------------------------------------------------------ *)
(* mpz_set_d                                                            *)

Lemma set_d_spec : forall bits neg m e, decode_double bits = DFin neg m e -> 0 <= m ->
  exists t, mpz_set_d bits = COk t
    /\ (0 <= e -> t = (if neg then - m else m) * 2 ^ e)
    /\ (e < 0 -> t = Z.quot (if neg then - m else m) (2 ^ (- e))).
Proof.
  intros bits neg m e Hd Hm. unfold mpz_set_d. rewrite Hd. cbv zeta.
  eexists. split; [reflexivity|]. split.
  - intros He. destruct (Z.leb_spec 0 e) as [_|C]; [|lia]. destruct neg; ring.
  - intros He. destruct (Z.leb_spec 0 e) as [C|_]; [lia|].
    assert (P : 0 < 2 ^ (- e)) by (apply Z.pow_pos_nonneg; lia).
    destruct neg.
    + rewrite Z.quot_opp_l by lia. rewrite Z.quot_div_nonneg by lia. reflexivity.
    + rewrite Z.quot_div_nonneg by lia. reflexivity.
Qed.

(* ------------------------------------------------------------------ *)
(* mpz_get_d                                                            *)

(* unpacking sign | biased exponent | fraction *)
Lemma decode_pack (neg : bool) E man0 : 0 < E < 2047 -> 0 <= man0 < 2 ^ 52 ->
  decode_double ((if neg then 2 ^ 63 else 0) + E * 2 ^ 52 + man0)
  = DFin neg (man0 + 2 ^ 52) (E - 1075).
Proof.
  intros HE Hm. unfold decode_double. cbv zeta.
  set (bits := (if neg then 2 ^ 63 else 0) + E * 2 ^ 52 + man0).
  assert (A1 : Z.land (Z.shiftr bits 63) 1 = if neg then 1 else 0).
  { change 1 with (Z.ones 1) at 1. rewrite Z.land_ones by lia.
    rewrite Z.shiftr_div_pow2 by lia. unfold bits.
    change (2 ^ 63) with 9223372036854775808. change (2 ^ 52) with 4503599627370496 in *.
    change (2 ^ 1) with 2.
    destruct neg; Z.div_mod_to_equations; lia. }
  assert (A2 : Z.land (Z.shiftr bits 52) 2047 = E).
  { change 2047 with (Z.ones 11). rewrite Z.land_ones by lia.
    rewrite Z.shiftr_div_pow2 by lia. unfold bits.
    change (2 ^ 63) with 9223372036854775808. change (2 ^ 52) with 4503599627370496 in *.
    change (2 ^ 11) with 2048.
    destruct neg; Z.div_mod_to_equations; lia. }
  assert (A3 : Z.land bits (2 ^ 52 - 1) = man0).
  { change (2 ^ 52 - 1) with (Z.ones 52). rewrite Z.land_ones by lia. unfold bits.
    change (2 ^ 63) with 9223372036854775808. change (2 ^ 52) with 4503599627370496 in *.
    destruct neg; Z.div_mod_to_equations; lia. }
  rewrite A1, A2, A3.
  destruct (Z.eqb_spec E 2047) as [C|_]; [lia|].
  destruct (Z.eqb_spec E 0) as [C|_]; [lia|].
  destruct neg; reflexivity.
Qed.

(* the 53-bit significand cut out of mag *)
Lemma m53_bounds mag : 0 < mag ->
  let l := Z.log2 mag in
  let m53 := if 53 <=? l + 1 then mag / 2 ^ (l + 1 - 53) else mag * 2 ^ (53 - (l + 1)) in
  2 ^ 52 <= m53 < 2 ^ 53
  /\ (0 <= l - 52 -> m53 * 2 ^ (l - 52) <= mag < (m53 + 1) * 2 ^ (l - 52))
  /\ (l - 52 < 0 -> m53 = mag * 2 ^ (- (l - 52))).
Proof.
  intros Hmag. cbv zeta.
  pose proof (Z.log2_nonneg mag) as Hl0.
  destruct (Z.log2_spec mag Hmag) as [Lo Hi].
  set (l := Z.log2 mag) in *. clearbody l. unfold Z.succ in Hi.
  destruct (Z.leb_spec 53 (l + 1)) as [Hbig|Hsmall].
  - (* at least 53 bits: divide *)
    replace (l + 1 - 53) with (l - 52) by ring.
    set (k := l - 52) in *. assert (Hk : 0 <= k) by (unfold k; lia).
    assert (P : 0 < 2 ^ k) by (apply Z.pow_pos_nonneg; lia).
    assert (E1 : 2 ^ l = 2 ^ k * 2 ^ 52).
    { rewrite <- Z.pow_add_r by lia. f_equal. unfold k. ring. }
    assert (E2 : 2 ^ (l + 1) = 2 ^ k * 2 ^ 53).
    { rewrite <- Z.pow_add_r by lia. f_equal. unfold k. ring. }
    rewrite E1 in Lo. rewrite E2 in Hi. clearbody k.
    pose proof (Z.mul_div_le mag (2 ^ k) P) as D1.
    pose proof (Z.mul_succ_div_gt mag (2 ^ k) P) as D2. unfold Z.succ in D2.
    split; [split|split].
    + apply Z.div_le_lower_bound; [exact P|exact Lo].
    + apply Z.div_lt_upper_bound; [exact P|exact Hi].
    + intros _. lia.
    + intros C. lia.
  - (* fewer than 53 bits: shift up, exact *)
    replace (53 - (l + 1)) with (52 - l) by ring.
    replace (- (l - 52)) with (52 - l) by ring.
    set (k := 52 - l) in *. assert (Hk : 0 < k) by (unfold k; lia).
    assert (P : 0 < 2 ^ k) by (apply Z.pow_pos_nonneg; lia).
    assert (E1 : 2 ^ l * 2 ^ k = 2 ^ 52).
    { rewrite <- Z.pow_add_r by lia. f_equal. unfold k. ring. }
    assert (E2 : 2 ^ (l + 1) * 2 ^ k = 2 ^ 53).
    { rewrite <- Z.pow_add_r by lia. f_equal. unfold k. ring. }
    split; [split|split].
    + rewrite <- E1. apply Z.mul_le_mono_nonneg_r; lia.
    + rewrite <- E2. apply Z.mul_lt_mono_pos_r; lia.
    + intros C. lia.
    + intros _. reflexivity.
Qed.

Lemma decode_inf neg : decode_double (inf_bits neg) = DInf neg.
Proof. destruct neg; vm_compute; reflexivity. Qed.

Lemma get_d_truncates : forall z, z <> 0 ->
  (Z.log2 (Z.abs z) < 1024 ->
     exists m2 e2, decode_double (mpz_get_d z) = DFin (z <? 0) m2 e2 /\ 2 ^ 52 <= m2 < 2 ^ 53
       /\ (0 <= e2 -> m2 * 2 ^ e2 <= Z.abs z < (m2 + 1) * 2 ^ e2)
       /\ (e2 < 0 -> m2 = Z.abs z * 2 ^ (- e2)))
  /\ (1024 <= Z.log2 (Z.abs z) -> decode_double (mpz_get_d z) = DInf (z <? 0)).
Proof.
  intros z Hz. unfold mpz_get_d, get_d_bits.
  assert (Hmag : 0 < Z.abs z) by lia.
  destruct (Z.eqb_spec (Z.abs z) 0) as [C|_]; [lia|]. cbv zeta.
  destruct (m53_bounds (Z.abs z) Hmag) as (Hm & Hge & Hlt). cbv zeta in Hm, Hge, Hlt.
  pose proof (Z.log2_nonneg (Z.abs z)) as Hl0.
  set (mag := Z.abs z) in *. set (l := Z.log2 mag) in *.
  set (m53 := if 53 <=? l + 1 then mag / 2 ^ (l + 1 - 53) else mag * 2 ^ (53 - (l + 1))) in *.
  clearbody m53. replace (0 + (l + 1) - 1) with l by ring.
  split.
  - intros Hl.
    destruct (Z.leb_spec 1024 l) as [C|_]; [lia|].
    destruct (Z.leb_spec l (-1023)) as [C|_]; [lia|].
    exists m53, (l - 52).
    rewrite decode_pack by lia.
    split; [f_equal; ring|]. split; [exact Hm|]. split; assumption.
  - intros Hl.
    destruct (Z.leb_spec 1024 l) as [_|C]; [|lia].
    apply decode_inf.
Qed.

Lemma C11_example :
  decode_double 4607182418800017408 = DFin false (2 ^ 52) (-52)
  /\ mpz_set_d 4611686018427387904 = COk 2
  /\ mpz_get_d 3 = 4613937818241073152
  /\ mpz_get_d (2 ^ 53 + 1) = mpz_get_d (2 ^ 53)
  /\ mpz_cmp_d (2 ^ 53 + 1) (mpz_get_d (2 ^ 53)) = COk 1.
Proof. repeat split; vm_compute; reflexivity. Qed.
