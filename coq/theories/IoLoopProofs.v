(* IoLoopProofs.v — the loop-level models of mpz_export / mpz_import (IoLoopDefs) produce
   exactly the bytes / value of the byte-level specification (IoDefs).
   Main statements:
     extract_spec, buf_inv_always   the bit buffer of EXTRACT holds exactly the next lbits bits of the
                                    zero-extended |x| at every step (the guard zp == zend ? 0 : *zp++)
     extract_past_end               past the last limb only zero bits are delivered
     extract_ptr_spec               the same with the limbs in a memory that goes on after zend
     export_loop_eq_spec            export loop = IoDefs.mpz_export (bytes and count)
     export_final_asserts           the two ASSERTs after the export loop (zp == zend, final dp)
     accumulate_spec                the invariant (and ASSERTs) of ACCUMULATE
     import_run_spec, import_loop_eq_spec   import loop = IoDefs.mpz_import; number of limbs stored
     import_loop_export_loop        round trip through the two loops
     *_examples                     vm_compute examples *)
From Coq Require Import ZArith List Bool Lia.
From Mpir Require Import Word Limbs MpzDefs MpzProofs IoDefs IoProofs IoLoopDefs.
Import ListNotations.
Local Open Scope Z_scope.

(* ---------- powers of two ---------- *)

Lemma pow2_pos n : 0 <= n -> 0 < 2 ^ n.
Proof. intros. apply Z.pow_pos_nonneg; lia. Qed.

Lemma div_div_pow2 x a b : 0 <= a -> 0 <= b -> x / 2 ^ a / 2 ^ b = x / 2 ^ (a + b).
Proof.
  intros Ha Hb. rewrite Z.pow_add_r by lia.
  pose proof (pow2_pos a Ha). pose proof (pow2_pos b Hb).
  rewrite Z.div_div by lia. reflexivity.
Qed.

Lemma mod_split_pow2 x a b : 0 <= a -> 0 <= b ->
  x mod 2 ^ (a + b) = x mod 2 ^ a + 2 ^ a * ((x / 2 ^ a) mod 2 ^ b).
Proof.
  intros Ha Hb. rewrite Z.pow_add_r by lia.
  pose proof (pow2_pos a Ha). pose proof (pow2_pos b Hb).
  apply Z.rem_mul_r; lia.
Qed.

Lemma mod_mod_pow2 x a b : 0 <= a <= b -> (x mod 2 ^ b) mod 2 ^ a = x mod 2 ^ a.
Proof.
  intros H. replace b with (a + (b - a)) by lia.
  rewrite mod_split_pow2 by lia.
  pose proof (pow2_pos a ltac:(lia)).
  rewrite Z.mul_comm, Z.mod_add by lia. apply Z.mod_mod. lia.
Qed.

Lemma mod_div_pow2 x a b : 0 <= a <= b -> (x mod 2 ^ b) / 2 ^ a = (x / 2 ^ a) mod 2 ^ (b - a).
Proof.
  intros H. replace (2 ^ b) with (2 ^ (a + (b - a))) by (f_equal; lia).
  rewrite mod_split_pow2 by lia.
  pose proof (pow2_pos a ltac:(lia)).
  rewrite (Z.mul_comm (2 ^ a)), Z.div_add by lia.
  rewrite Z.div_small by (apply Z.mod_pos_bound; lia). lia.
Qed.

Lemma div_mod_recompose x a : 0 <= a -> x = x mod 2 ^ a + 2 ^ a * (x / 2 ^ a).
Proof.
  intros Ha. pose proof (pow2_pos a Ha).
  pose proof (Z.div_mod x (2 ^ a) ltac:(lia)). lia.
Qed.

(* (a + (b mod 2^64)) mod 2^n = (a + b) mod 2^n for n <= 64 *)
Lemma add_mod64_mod_pow2 a b n : 0 <= n <= 64 -> (a + b mod 2 ^ 64) mod 2 ^ n = (a + b) mod 2 ^ n.
Proof.
  intros H. rewrite <- (mod_mod_pow2 (a + b mod 2 ^ 64) n 64) by lia.
  rewrite Z.add_mod_idemp_r by (pose proof (pow2_pos 64); lia).
  apply mod_mod_pow2. lia.
Qed.

(* ---------- machine operations ---------- *)

Lemma land_mask v n : 0 <= n -> Z.land v (2 ^ n - 1) = v mod 2 ^ n.
Proof.
  intros Hn. rewrite <- Z.land_ones by lia. f_equal. rewrite Z.ones_equiv. lia.
Qed.

Lemma lor_disjoint a b k : 0 <= k -> 0 <= a < 2 ^ k -> Z.lor a (b * 2 ^ k) = a + b * 2 ^ k.
Proof.
  intros Hk Ha.
  assert (H0 : Z.land a (b * 2 ^ k) = 0); [|rewrite Z.add_nocarry_lxor, Z.lxor_lor by exact H0; reflexivity].
  apply Z.bits_inj'. intros n Hn. rewrite Z.land_spec, Z.bits_0.
  destruct (Z.lt_ge_cases n k) as [L|G].
  - rewrite Z.mul_pow2_bits_low by lia. apply andb_false_r.
  - rewrite <- (Z.mod_small a (2 ^ k)) by lia.
    rewrite Z.mod_pow2_bits_high by lia. reflexivity.
Qed.

(* (x * 2^k) mod 2^64 is a multiple of 2^k *)
Lemma shl64_multiple x k : 0 <= k <= 64 -> shl64 x k = (x mod 2 ^ (64 - k)) * 2 ^ k.
Proof.
  intros Hk. unfold shl64.
  replace (2 ^ 64) with (2 ^ (k + (64 - k))) by (f_equal; lia).
  rewrite mod_split_pow2 by lia.
  pose proof (pow2_pos k ltac:(lia)).
  rewrite Z.mod_mul by lia. rewrite Z.div_mul by lia. lia.
Qed.

Lemma wbitsmask_eq wbits : 0 <= wbits < 64 -> shl64 1 wbits - 1 = 2 ^ wbits - 1.
Proof.
  intros H. unfold shl64. rewrite Z.mul_1_l.
  rewrite Z.mod_small; [reflexivity|].
  split; [pose proof (pow2_pos wbits); lia|]. apply Z.pow_lt_mono_r; lia.
Qed.

(* the byte stored by EXTRACT: the mask and the unsigned char store keep the low N bits *)

Lemma mask_uchar N mask v : mask_ok N mask -> to_uchar (apply_mask mask v) = v mod 2 ^ N.
Proof.
  unfold to_uchar. change 256 with (2 ^ 8).
  intros [[-> ->]|[-> HN]]; cbn [apply_mask]; [reflexivity|].
  rewrite land_mask by lia. apply Z.mod_small.
  pose proof (Z.mod_pos_bound v (2 ^ N) (pow2_pos N ltac:(lia))).
  assert (2 ^ N <= 2 ^ 8) by (apply Z.pow_le_mono_r; lia). lia.
Qed.

(* ---------- EXTRACT: the bit buffer invariant ---------- *)

Lemma buf_inv_init ls : buf_inv (eval ls) 0 (0, 0, ls) <-> wf ls.
Proof.
  unfold buf_inv. cbn [Z.add]. rewrite Z.pow_0_r, Z.div_1_r, Z.mod_1_r. intuition lia.
Qed.

(* the guarded read: the next 64 bits of the zero-extended X, whether or not a limb is left *)
Lemma read_limb_spec zs V : wf zs -> eval zs = V ->
  fst (read_limb zs) = V mod 2 ^ 64 /\ eval (snd (read_limb zs)) = V / 2 ^ 64 /\ wf (snd (read_limb zs)).
Proof.
  intros Hwf <-. destruct zs as [|z r]; cbn [read_limb fst snd eval].
  - rewrite Z.mod_0_l, Z.div_0_l by (pose proof (pow2_pos 64); lia). repeat split; constructor.
  - apply wf_inv in Hwf. destruct Hwf as [Hz Hr]. unfold limb in Hz. change (2 ^ 64) with B.
    pose proof B_pos. repeat split; [| |exact Hr].
    + rewrite Z.mul_comm, Z.mod_add by lia. symmetry. apply Z.mod_small. exact Hz.
    + rewrite Z.mul_comm, Z.div_add by lia. rewrite Z.div_small by exact Hz. lia.
Qed.

Theorem extract_spec X pos N mask s : 1 <= N <= 8 -> mask_ok N mask -> buf_inv X pos s ->
  fst (extract N mask s) = (X / 2 ^ pos) mod 2 ^ N /\ buf_inv X (pos + N) (snd (extract N mask s)).
Proof.
  intros HN Hm. destruct s as [[lm lbits] zs]. intros (Hpos & Hlb & Hwf & Hlm & Hzs).
  unfold extract. destruct (Z.leb_spec N lbits) as [C|C]; cbn [fst snd].
  - (* enough bits in the buffer *)
    rewrite (mask_uchar N mask lm Hm). split.
    + rewrite Hlm. apply mod_mod_pow2. lia.
    + unfold buf_inv, shr. split; [lia|]. split; [lia|]. split; [exact Hwf|]. split.
      * rewrite Hlm, mod_div_pow2 by lia. rewrite div_div_pow2 by lia. reflexivity.
      * rewrite Hzs. f_equal. f_equal. lia.
  - (* refill: the guarded read *)
    set (V := X / 2 ^ (pos + lbits)) in *.
    destruct (read_limb_spec zs V Hwf Hzs) as (Hn & Hz' & Hwf').
    destruct (read_limb zs) as [newlimb zs']. cbn [fst snd] in Hn, Hz', Hwf'.
    cbn [fst snd]. rewrite (mask_uchar N mask _ Hm).
    set (Y := X / 2 ^ pos) in *.
    assert (HV : V = Y / 2 ^ lbits) by (unfold V, Y; rewrite div_div_pow2 by lia; reflexivity).
    pose proof (pow2_pos lbits ltac:(lia)) as Hp.
    assert (Hlmr : 0 <= lm < 2 ^ lbits) by (rewrite Hlm; apply Z.mod_pos_bound; exact Hp).
    split.
    + rewrite shl64_multiple by lia. rewrite lor_disjoint by lia.
      rewrite <- shl64_multiple by lia. unfold shl64.
      rewrite add_mod64_mod_pow2 by lia.
      rewrite Hn.
      (* lm + (V mod 2^64) * 2^lbits = Y mod 2^(lbits + 64) *)
      replace (lm + V mod 2 ^ 64 * 2 ^ lbits) with (Y mod 2 ^ (lbits + 64)).
      * apply mod_mod_pow2. lia.
      * rewrite mod_split_pow2 by lia. rewrite <- HV, <- Hlm. ring.
    + unfold buf_inv, shr. split; [lia|]. split; [lia|]. split; [exact Hwf'|]. split.
      * rewrite Hn. rewrite mod_div_pow2 by lia.
        unfold V. rewrite div_div_pow2 by lia.
        replace (pos + lbits + (N - lbits)) with (pos + N) by lia.
        replace (64 - (N - lbits)) with (lbits + 64 - N) by lia. reflexivity.
      * rewrite Hz'. unfold V. rewrite div_div_pow2 by lia. f_equal. f_equal. lia.
Qed.

(* whatever sequence of EXTRACTs is run from the initial state, the invariant holds at every step *)
Inductive reachable (ls : list Z) : bitbuf -> Prop :=
  | reach_init : reachable ls (0, 0, ls)
  | reach_step s N mask : reachable ls s -> 1 <= N <= 8 -> mask_ok N mask ->
      reachable ls (snd (extract N mask s)).

Theorem buf_inv_always ls s : wf ls -> reachable ls s -> exists pos, buf_inv (eval ls) pos s.
Proof.
  intros Hwf H. induction H as [|s N mask _ [pos IH] HN Hm].
  - exists 0. apply buf_inv_init. exact Hwf.
  - exists (pos + N). apply extract_spec; assumption.
Qed.

(* every step of the byte loop keeps the invariant *)
Lemma extract_bytes_spec n : forall X pos s, buf_inv X pos s ->
  fst (extract_bytes n s) = digits_le n 8 (X / 2 ^ pos)
  /\ buf_inv X (pos + 8 * Z.of_nat n) (snd (extract_bytes n s)).
Proof.
  induction n as [|n IH]; intros X pos s Hinv.
  - cbn [extract_bytes digits_le fst snd]. split; [reflexivity|].
    replace (pos + 8 * Z.of_nat 0) with pos by lia. exact Hinv.
  - cbn [extract_bytes].
    destruct (extract_spec X pos 8 None s ltac:(lia) ltac:(left; auto) Hinv) as [Hb Hi].
    destruct (extract 8 None s) as [b s1]. cbn [fst snd] in Hb, Hi.
    destruct (IH X (pos + 8) s1 Hi) as [Hbs Hi2].
    destruct (extract_bytes n s1) as [bs s2]. cbn [fst snd] in *.
    assert (Hpos : 0 <= pos) by (destruct s as [[? ?] ?]; apply Hinv).
    split.
    + rewrite digits_le_S, Hb, Hbs. rewrite div_div_pow2 by lia. reflexivity.
    + replace (pos + 8 * Z.of_nat (S n)) with (pos + 8 + 8 * Z.of_nat n) by lia. exact Hi2.
Qed.

(* ---------- digits ---------- *)

Lemma digits_le_app a b k x : 0 < k ->
  digits_le (a + b) k x = digits_le a k x ++ digits_le b k (x / 2 ^ (k * Z.of_nat a)).
Proof.
  intros Hk. revert x. induction a as [|a IH]; intros x.
  - cbn [Nat.add digits_le app]. replace (k * Z.of_nat 0) with 0 by lia.
    rewrite Z.pow_0_r, Z.div_1_r. reflexivity.
  - cbn [Nat.add]. rewrite !digits_le_S. cbn [app]. f_equal. rewrite IH.
    f_equal. f_equal. rewrite div_div_pow2 by lia. f_equal. f_equal. lia.
Qed.

Lemma digits_le_zero n k : 0 <= k -> digits_le n k 0 = repeat 0 n.
Proof.
  intros Hk. pose proof (pow2_pos k Hk).
  induction n as [|n IH]; [reflexivity|].
  rewrite digits_le_S. cbn [repeat]. rewrite Z.mod_0_l, Z.div_0_l, IH by lia. reflexivity.
Qed.

(* the low digits do not see a reduction mod 2^m that leaves them whole *)
Lemma digits_le_mod n : forall x m, 8 * Z.of_nat n <= m ->
  digits_le n 8 (x mod 2 ^ m) = digits_le n 8 x.
Proof.
  induction n as [|n IH]; intros x m Hm; [reflexivity|].
  rewrite !digits_le_S. rewrite mod_mod_pow2 by lia. f_equal.
  rewrite mod_div_pow2 by lia. apply IH. lia.
Qed.

Lemma nth_digits_le n k x i : 0 < k -> (i < n)%nat ->
  nth i (digits_le n k x) 0 = (x / 2 ^ (k * Z.of_nat i)) mod 2 ^ k.
Proof.
  intros Hk. revert x i. induction n as [|n IH]; intros x i Hi; [lia|].
  rewrite digits_le_S. destruct i as [|i]; cbn [nth].
  - replace (k * Z.of_nat 0) with 0 by lia. rewrite Z.pow_0_r, Z.div_1_r. reflexivity.
  - rewrite IH by lia. rewrite div_div_pow2 by lia. f_equal. f_equal. f_equal. lia.
Qed.

(* the size bytes of a word holding numb = 8 wbytes + wbits value bits, least significant
   first: wbytes whole bytes, the partial byte if wbits != 0, then zero bytes *)
Lemma word_digits Y size numb :
  1 <= size -> 1 <= numb <= 8 * size ->
  digits_le (Z.to_nat size) 8 (Y mod 2 ^ numb) =
  digits_le (Z.to_nat (numb / 8)) 8 Y
  ++ (if numb mod 8 =? 0 then [] else [(Y / 2 ^ (8 * (numb / 8))) mod 2 ^ (numb mod 8)])
  ++ repeat 0 (Z.to_nat (size - (if numb mod 8 =? 0 then numb / 8 else numb / 8 + 1))).
Proof.
  intros Hs Hn.
  pose proof (Z.div_mod numb 8 ltac:(lia)) as Hdm.
  pose proof (Z.mod_pos_bound numb 8 ltac:(lia)) as Hmb.
  set (wbytes := numb / 8) in *. set (wbits := numb mod 8) in *.
  assert (Hwb : 0 <= wbytes) by lia.
  replace (Z.to_nat size) with (Z.to_nat wbytes + Z.to_nat (size - wbytes))%nat by lia.
  rewrite digits_le_app by lia. rewrite Z2Nat.id by lia.
  rewrite digits_le_mod by lia. f_equal.
  rewrite mod_div_pow2 by lia. replace (numb - 8 * wbytes) with wbits by lia.
  set (T := Y / 2 ^ (8 * wbytes)).
  destruct (Z.eqb_spec wbits 0) as [E|E].
  - rewrite E, Z.pow_0_r, Z.mod_1_r. cbn [app]. apply digits_le_zero. lia.
  - replace (Z.to_nat (size - wbytes)) with (S (Z.to_nat (size - (wbytes + 1)))) by lia.
    rewrite digits_le_S. cbn [app].
    assert (Hb : 0 <= T mod 2 ^ wbits < 2 ^ 8).
    { pose proof (Z.mod_pos_bound T (2 ^ wbits) (pow2_pos wbits ltac:(lia))).
      assert (2 ^ wbits <= 2 ^ 8) by (apply Z.pow_le_mono_r; lia). lia. }
    rewrite Z.mod_small by exact Hb. rewrite Z.div_small by exact Hb.
    rewrite digits_le_zero by lia. reflexivity.
Qed.

(* the body of the word loop: one word of numb bits, as size bytes *)
Lemma word_emit_spec X pos size nail s :
  1 <= size -> 0 <= nail < 8 * size -> buf_inv X pos s ->
  let numb := 8 * size - nail in
  let r := word_emit size (numb / 8) (numb mod 8) (shl64 1 (numb mod 8) - 1) s in
  fst r = digits_le (Z.to_nat size) 8 ((X / 2 ^ pos) mod 2 ^ numb)
  /\ buf_inv X (pos + numb) (snd r).
Proof.
  intros Hs Hn Hinv numb. cbv zeta.
  assert (Hnb : 1 <= numb <= 8 * size) by (unfold numb; lia).
  pose proof (Z.div_mod numb 8 ltac:(lia)) as Hdm.
  pose proof (Z.mod_pos_bound numb 8 ltac:(lia)) as Hmb.
  rewrite (word_digits (X / 2 ^ pos) size numb Hs Hnb).
  set (wbytes := numb / 8) in *. set (wbits := numb mod 8) in *.
  assert (Hwb : 0 <= wbytes) by lia.
  assert (Hpos : 0 <= pos) by (destruct s as [[? ?] ?]; apply Hinv).
  unfold word_emit.
  destruct (extract_bytes_spec (Z.to_nat wbytes) X pos s Hinv) as [Hbs Hi1].
  destruct (extract_bytes (Z.to_nat wbytes) s) as [bs s1]. cbn [fst snd] in Hbs, Hi1.
  rewrite Z2Nat.id in Hi1 by lia.
  destruct (Z.eqb_spec wbits 0) as [E|E].
  - cbn [fst snd]. split; [rewrite Hbs; reflexivity|].
    replace (pos + numb) with (pos + 8 * wbytes) by lia. exact Hi1.
  - rewrite wbitsmask_eq by lia.
    destruct (extract_spec X (pos + 8 * wbytes) wbits (Some (2 ^ wbits - 1)) s1
                ltac:(lia) ltac:(right; split; [reflexivity|lia]) Hi1) as [Hb Hi2].
    destruct (extract wbits (Some (2 ^ wbits - 1)) s1) as [b s2]. cbn [fst snd] in *.
    split.
    + rewrite Hbs, Hb. rewrite div_div_pow2 by lia. reflexivity.
    + replace (pos + numb) with (pos + 8 * wbytes + wbits) by lia. exact Hi2.
Qed.

(* ---------- the pointer ---------- *)

Lemma place_spec bs : forall dp e,
  place bs dp e =
  (map (fun j => (dp - e * Z.of_nat j, nth j bs 0)) (seq 0 (length bs)), dp - e * Z.of_nat (length bs)).
Proof.
  induction bs as [|b t IH]; intros dp e.
  - cbn [place length seq map]. f_equal. lia.
  - cbn [place]. rewrite IH. cbn [length seq map]. f_equal.
    + f_equal; [f_equal; lia|].
      rewrite <- seq_shift, map_map. apply map_ext. intros j. cbn [nth]. f_equal. lia.
    + lia.
Qed.

(* the word of significance i *)
Definition wordval (X numb : Z) (i : nat) : Z := (X / 2 ^ (numb * Z.of_nat i)) mod 2 ^ numb.

(* the stores of the words i, i+1, ..., i+n-1: word i' starts at D - order*size*i' and its byte of
   significance j goes to that minus endian*j *)
Definition word_log (X size order endian numb D : Z) (i : nat) : list (Z * Z) :=
  map (fun j => (D - order * size * Z.of_nat i - endian * Z.of_nat j,
                 nth j (digits_le (Z.to_nat size) 8 (wordval X numb i)) 0))
      (seq 0 (Z.to_nat size)).

Lemma words_loop_spec X size order endian nail D n :
  1 <= size -> 0 <= nail < 8 * size ->
  let numb := 8 * size - nail in
  forall i s dp, buf_inv X (numb * Z.of_nat i) s -> dp = D - order * size * Z.of_nat i ->
  let r := words_loop n size endian (numb / 8) (numb mod 8) (shl64 1 (numb mod 8) - 1)
             (endian * size - order * size) s dp in
  fst (fst r) = flat_map (word_log X size order endian numb D) (seq i n)
  /\ buf_inv X (numb * Z.of_nat (i + n)) (snd (fst r))
  /\ snd r = D - order * size * Z.of_nat (i + n).
Proof.
  intros Hs Hn numb. induction n as [|n IH]; intros i s dp Hinv Hdp; cbv zeta.
  - cbn [words_loop fst snd seq flat_map]. rewrite Nat.add_0_r. auto.
  - cbn [words_loop].
    destruct (word_emit_spec X (numb * Z.of_nat i) size nail s Hs Hn Hinv) as [Hbs Hi1].
    fold numb in Hbs, Hi1.
    destruct (word_emit size (numb / 8) (numb mod 8) (shl64 1 (numb mod 8) - 1) s) as [bs s1].
    cbn [fst snd] in Hbs, Hi1.
    rewrite place_spec.
    assert (Hlen : length bs = Z.to_nat size) by (rewrite Hbs; apply digits_le_length).
    rewrite Hlen. rewrite Z2Nat.id by lia.
    specialize (IH (S i) s1 (dp - endian * size + (endian * size - order * size))).
    cbv zeta in IH.
    destruct IH as (H1 & H2 & H3).
    { replace (numb * Z.of_nat (S i)) with (numb * Z.of_nat i + numb) by lia. exact Hi1. }
    { rewrite Hdp. lia. }
    destruct (words_loop n size endian (numb / 8) (numb mod 8) (shl64 1 (numb mod 8) - 1)
                (endian * size - order * size) s1
                (dp - endian * size + (endian * size - order * size))) as [[ws s2] dp2].
    cbn [fst snd] in *.
    replace (i + S n)%nat with (S i + n)%nat by lia.
    split; [|split; assumption].
    cbn [seq flat_map]. rewrite H1. f_equal.
    unfold word_log. apply map_ext. intros j. rewrite Hbs, Hdp. reflexivity.
Qed.

(* ---------- the buffer ---------- *)

Lemma apply_writes_snoc log p f : apply_writes (log ++ [p]) f = upd (apply_writes log f) (fst p) (snd p).
Proof. unfold apply_writes. rewrite fold_left_app. reflexivity. Qed.

(* stores whose addresses are pairwise distinct: each address ends up with its own byte *)
Lemma apply_writes_inj {T} (g h : T -> Z) (ts : list T) f t0 :
  (forall t t', In t ts -> In t' ts -> g t = g t' -> t = t') -> In t0 ts ->
  apply_writes (map (fun t => (g t, h t)) ts) f (g t0) = h t0.
Proof.
  induction ts as [|a l IH] using rev_ind; intros Hinj Hin; [destruct Hin|].
  rewrite map_app. cbn [map]. rewrite apply_writes_snoc. cbn [fst snd]. unfold upd.
  destruct (Z.eqb_spec (g t0) (g a)) as [E|E].
  - f_equal. symmetry. apply Hinj; [exact Hin|apply in_or_app; right; left; reflexivity|exact E].
  - apply in_app_or in Hin. destruct Hin as [Hin|[<-|[]]]; [|congruence].
    apply IH; [|exact Hin].
    intros t t' Ht Ht'. apply Hinj; apply in_or_app; left; assumption.
Qed.

(* a store log that does not touch an address leaves it alone *)
Lemma apply_writes_other log f k : ~ In k (map fst log) -> apply_writes log f k = f k.
Proof.
  induction log as [|p l IH] using rev_ind; intros Hn; [reflexivity|].
  rewrite apply_writes_snoc. unfold upd.
  rewrite map_app, in_app_iff in Hn. cbn [map In] in Hn.
  destruct (Z.eqb_spec k (fst p)) as [E|E]; [exfalso; apply Hn; right; left; auto|].
  apply IH. tauto.
Qed.

Lemma flat_map_list_prod {A B C} (F : A -> B -> C) (l : list A) (l' : list B) :
  flat_map (fun a => map (F a) l') l = map (fun p => F (fst p) (snd p)) (list_prod l l').
Proof.
  induction l as [|a l IH]; [reflexivity|].
  cbn [flat_map list_prod]. rewrite map_app, map_map, IH. reflexivity.
Qed.

(* ---------- list positions ---------- *)

Lemma nth_flat_map_const (f : Z -> list Z) n : (forall w, length (f w) = n) ->
  forall ws q r, (r < n)%nat -> (q < length ws)%nat ->
  nth (n * q + r) (flat_map f ws) 0 = nth r (f (nth q ws 0)) 0.
Proof.
  intros Hf. induction ws as [|w ws IH]; intros q r Hr Hq; [cbn [length] in Hq; lia|].
  cbn [flat_map]. destruct q as [|q].
  - rewrite Nat.mul_0_r, Nat.add_0_l. cbn [nth]. apply app_nth1. rewrite Hf. exact Hr.
  - rewrite app_nth2 by (rewrite Hf; nia). rewrite Hf.
    replace (n * S q + r - n)%nat with (n * q + r)%nat by nia.
    cbn [nth]. apply IH; [exact Hr|cbn [length] in Hq; lia].
Qed.

Lemma nth_if_rev (b : bool) (l : list Z) k : (k < length l)%nat ->
  nth k (if b then rev l else l) 0 = nth (if b then (length l - S k)%nat else k) l 0.
Proof. intros Hk. destruct b; [apply rev_nth; exact Hk|reflexivity]. Qed.

Lemma nth_map_seq (F : nat -> Z) n k : (k < n)%nat -> nth k (map F (seq 0 n)) 0 = F k.
Proof.
  intros Hk. rewrite (nth_indep _ 0 (F 0%nat)) by (rewrite map_length, seq_length; exact Hk).
  rewrite map_nth, seq_nth by exact Hk. reflexivity.
Qed.

(* ---------- the stores against the specification ---------- *)

Lemma block_unique S a r a' r' : 0 <= r < S -> 0 <= r' < S -> S * a + r = S * a' + r' -> a = a' /\ r = r'.
Proof. intros Hr Hr' E. assert (a = a') by nia. subst a'. lia. Qed.

Lemma export_bytes_eq (init : Z -> Z) X size order e numb (cnt : nat) :
  1 <= size -> 0 < numb -> (order = 1 \/ order = -1) -> (e = 1 \/ e = -1) ->
  let D := (if 0 <=? order then (Z.of_nat cnt - 1) * size else 0) + (if 0 <=? e then size - 1 else 0) in
  let Dg := digits_le cnt numb X in
  map (fun k => apply_writes (flat_map (word_log X size order e numb D) (seq 0 cnt)) init (Z.of_nat k))
      (seq 0 (cnt * Z.to_nat size))
  = flat_map (word_bytes size e) (if 0 <? order then rev Dg else Dg).
Proof.
  intros Hs Hnb Ho He D Dg.
  set (sz := Z.to_nat size). assert (Hsz : size = Z.of_nat sz) by (unfold sz; lia).
  assert (Hsz1 : (1 <= sz)%nat) by lia.
  assert (HlenD : length Dg = cnt) by apply digits_le_length.
  set (ws := if 0 <? order then rev Dg else Dg).
  assert (Hlenws : length ws = cnt) by (unfold ws; destruct (0 <? order); [rewrite rev_length|]; exact HlenD).
  apply (nth_ext _ _ 0 0).
  - rewrite map_length, seq_length.
    rewrite (flat_map_length_const _ sz) by (intros w; apply word_bytes_length; lia). lia.
  - rewrite map_length, seq_length. intros k Hk. rewrite nth_map_seq by exact Hk.
    pose proof (Nat.div_mod k sz ltac:(lia)) as Hdm.
    pose proof (Nat.mod_upper_bound k sz ltac:(lia)) as Hr.
    set (q := (k / sz)%nat) in *. set (r := (k mod sz)%nat) in *.
    assert (Hq : (q < cnt)%nat) by nia.
    (* the specification at position k *)
    rewrite Hdm at 2.
    rewrite (nth_flat_map_const _ sz) by (try (intros w; apply word_bytes_length); lia).
    unfold ws at 1. rewrite nth_if_rev by lia. rewrite HlenD.
    set (i := if 0 <? order then (cnt - S q)%nat else q).
    assert (Hi : (i < cnt)%nat) by (unfold i; destruct (0 <? order); lia).
    unfold Dg. rewrite nth_digits_le by lia. fold (wordval X numb i).
    unfold word_bytes. cbv zeta. fold sz.
    rewrite nth_if_rev by (rewrite digits_le_length; exact Hr). rewrite digits_le_length.
    set (j := if 0 <? e then (sz - S r)%nat else r).
    assert (Hj : (j < sz)%nat) by (unfold j; destruct (0 <? e); lia).
    (* the stores *)
    unfold word_log. fold sz.
    rewrite (flat_map_list_prod
               (fun i j => (D - order * size * Z.of_nat i - e * Z.of_nat j,
                            nth j (digits_le sz 8 (wordval X numb i)) 0))).
    assert (Hk' : Z.of_nat k = D - order * size * Z.of_nat (fst (i, j)) - e * Z.of_nat (snd (i, j))).
    { cbn [fst snd]. unfold D, i, j. rewrite Hdm at 1. rewrite Hsz.
      destruct Ho as [-> | ->], He as [-> | ->]; cbn [Z.leb Z.ltb Z.compare]; nia. }
    rewrite Hk'.
    rewrite (apply_writes_inj
               (fun p => D - order * size * Z.of_nat (fst p) - e * Z.of_nat (snd p))
               (fun p => nth (snd p) (digits_le sz 8 (wordval X numb (fst p))) 0)).
    + reflexivity.
    + intros [i1 j1] [i2 j2] H1 H2. rewrite in_prod_iff, !in_seq in H1, H2. cbn [fst snd].
      intros E.
      assert (E' : size * (- order * Z.of_nat i1) + (if 0 <? e then size - 1 - Z.of_nat j1 else Z.of_nat j1)
                 = size * (- order * Z.of_nat i2) + (if 0 <? e then size - 1 - Z.of_nat j2 else Z.of_nat j2)).
      { destruct He as [-> | ->]; cbn [Z.ltb Z.compare]; lia. }
      apply block_unique in E'; [|destruct (0 <? e); lia|destruct (0 <? e); lia].
      destruct E' as [E1 E2].
      assert (i1 = i2) by (destruct Ho as [-> | ->]; lia).
      assert (j1 = j2) by (destruct (0 <? e); lia).
      subst i2 j2. reflexivity.
    + rewrite in_prod_iff, !in_seq. lia.
Qed.

(* ---------- MPN_SIZEINBASE_2EXP ---------- *)

Lemma log2_shift a m t : 0 <= m -> 0 <= a < 2 ^ m -> 0 < t -> Z.log2 (a + 2 ^ m * t) = m + Z.log2 t.
Proof.
  intros Hm Ha Ht. pose proof (Z.log2_nonneg t) as HL.
  destruct (Z.log2_spec t Ht) as [H1 H2].
  apply Z.log2_unique; [lia|].
  replace (Z.succ (m + Z.log2 t)) with (m + Z.succ (Z.log2 t)) by lia.
  rewrite !Z.pow_add_r by lia.
  set (P := 2 ^ m) in *. set (Q := 2 ^ Z.log2 t) in *. set (Q' := 2 ^ Z.succ (Z.log2 t)) in *.
  nia.
Qed.

Lemma B_pow n : B ^ Z.of_nat n = 2 ^ (64 * Z.of_nat n).
Proof. change B with (2 ^ 64). rewrite <- Z.pow_mul_r by lia. reflexivity. Qed.

Lemma log2_eval ls : wf ls -> ls <> [] -> last ls 0 <> 0 ->
  0 < eval ls /\ Z.log2 (eval ls) = 64 * (len ls - 1) + Z.log2 (last ls 0).
Proof.
  intros Hwf Hne Hl.
  rewrite (app_removelast_last 0 Hne) in Hwf |- * at 1 2.
  set (lo := removelast ls) in *. set (t := last ls 0) in *.
  apply wf_app_inv in Hwf. destruct Hwf as [Hlo Ht].
  apply wf_inv in Ht. destruct Ht as [Ht _]. unfold limb in Ht.
  pose proof (eval_bounds lo Hlo) as Hb.
  rewrite eval_app. cbn [eval]. rewrite Z.mul_0_r, Z.add_0_r.
  rewrite B_pow in *.
  assert (Hlen : len ls - 1 = Z.of_nat (length lo)).
  { unfold len. rewrite (app_removelast_last 0 Hne). fold lo. rewrite app_length. cbn [length]. lia. }
  rewrite Hlen. split.
  - pose proof (pow2_pos (64 * Z.of_nat (length lo)) ltac:(lia)). nia.
  - apply log2_shift; lia.
Qed.

Lemma sizeinbase_eq ls x size nails : wf ls -> ls <> [] -> last ls 0 <> 0 -> eval ls = Z.abs x ->
  sizeinbase_2exp ls (8 * size - nails) = export_count x size nails.
Proof.
  intros Hwf Hne Hl He. destruct (log2_eval ls Hwf Hne Hl) as [Hpos Hlog].
  unfold sizeinbase_2exp, export_count, clz. cbv zeta.
  destruct (Z.eqb_spec x 0) as [E|_]; [lia|].
  rewrite <- He, Hlog. f_equal. lia.
Qed.

(* ---------- export: the loop against the specification ---------- *)

Lemma host_endian_cases endian : (endian = 1 \/ endian = 0 \/ endian = -1) ->
  host_endian endian = 1 \/ host_endian endian = -1.
Proof. intros [ -> | [ -> | -> ] ]; cbv; auto. Qed.

Lemma woffset_eq size order e : (order = 1 \/ order = -1) -> (e = 1 \/ e = -1) ->
  (if 0 <=? e then size else - size) + (if order <? 0 then size else - size) = e * size - order * size.
Proof. intros [-> | ->] [-> | ->]; cbn [Z.leb Z.ltb Z.compare]; lia. Qed.

(* the run of the general block: the stores, the final bit buffer, the final pointer *)
Lemma export_run_spec ls size order endian nails :
  1 <= size -> 0 <= nails < 8 * size -> (order = 1 \/ order = -1) ->
  (endian = 1 \/ endian = 0 \/ endian = -1) -> wf ls ->
  let e := host_endian endian in
  let numb := 8 * size - nails in
  let count := sizeinbase_2exp ls numb in
  let D := (if 0 <=? order then (count - 1) * size else 0) + (if 0 <=? e then size - 1 else 0) in
  let '(log, s, dp, c) := export_run ls size order endian nails in
  c = count
  /\ log = flat_map (word_log (eval ls) size order e numb D) (seq 0 (Z.to_nat count))
  /\ buf_inv (eval ls) (numb * Z.of_nat (Z.to_nat count)) s
  /\ dp = D - order * size * Z.of_nat (Z.to_nat count).
Proof.
  intros Hs Hn Ho He Hwf e numb count D.
  pose proof (host_endian_cases endian He) as He'. fold e in He'.
  unfold export_run. cbv zeta. fold e numb count.
  rewrite (woffset_eq size order e Ho He'). fold D.
  pose proof (words_loop_spec (eval ls) size order e nails D (Z.to_nat count) Hs Hn) as H.
  cbv zeta in H. fold numb in H.
  specialize (H 0%nat (0, 0, ls) D).
  destruct H as (H1 & H2 & H3).
  { replace (numb * Z.of_nat 0) with 0 by lia. apply buf_inv_init. exact Hwf. }
  { lia. }
  destruct (words_loop (Z.to_nat count) size e (numb / 8) (numb mod 8) (shl64 1 (numb mod 8) - 1)
              (e * size - order * size) (0, 0, ls) D) as [[log s] dp].
  cbn [fst snd Nat.add] in *. auto.
Qed.

Theorem export_loop_eq_spec (init : Z -> Z) x ls size order endian nails :
  1 <= size -> 0 <= nails < 8 * size -> (order = 1 \/ order = -1) ->
  (endian = 1 \/ endian = 0 \/ endian = -1) ->
  wf ls -> normalized ls -> eval ls = Z.abs x ->
  export_loop init ls size order endian nails = mpz_export x size order endian nails.
Proof.
  intros Hs Hn Ho He Hwf Hnorm Hx.
  destruct ls as [|l0 lr].
  - cbn [eval] in Hx. assert (x = 0) by lia. subst x.
    rewrite mpz_export_eq, export_count_zero. cbn [export_loop Z.to_nat digits_le rev app].
    destruct (0 <? order); reflexivity.
  - unfold export_loop. cbv iota.
    assert (Hne : l0 :: lr <> []) by discriminate.
    set (ls := l0 :: lr) in *.
    assert (Hlast : last ls 0 <> 0) by (destruct Hnorm; [contradiction|assumption]).
    pose proof (export_run_spec ls size order endian nails Hs Hn Ho He Hwf) as H. cbv zeta in H.
    destruct (export_run ls size order endian nails) as [[[log s] dp] c].
    destruct H as (Hc & Hlog & _ & _).
    rewrite (sizeinbase_eq ls x size nails Hwf Hne Hlast Hx) in Hc, Hlog.
    rewrite mpz_export_eq. subst c. f_equal.
    set (cnt := export_count x size nails) in *.
    assert (Hcnt : 0 <= cnt) by (apply export_count_nonneg; lia).
    rewrite Hlog, Hx. rewrite Z2Nat.inj_mul by lia.
    pose proof (export_bytes_eq init (Z.abs x) size order (host_endian endian) (8 * size - nails)
                  (Z.to_nat cnt) Hs ltac:(lia) Ho (host_endian_cases endian He)) as H.
    cbv zeta in H. rewrite Z2Nat.id in H by lia. exact H.
Qed.

(* ====================================================================== *)
(* import                                                                  *)
(* ====================================================================== *)

(* ---------- ACCUMULATE: the invariant ---------- *)

Lemma acc_inv_init : acc_inv 0 0 (0, 0, []).
Proof. unfold acc_inv, len. cbn. repeat split; try lia. constructor. Qed.

Lemma pow2_split a b : 0 <= a -> 0 <= b -> 2 ^ (a + b) = 2 ^ a * 2 ^ b.
Proof. intros. apply Z.pow_add_r; lia. Qed.

Lemma accumulate_spec T pos N byte s : 1 <= N <= 8 -> 0 <= byte < 2 ^ N -> acc_inv T pos s ->
  acc_inv (T + 2 ^ pos * byte) (pos + N) (accumulate N byte s).
Proof.
  intros HN Hb. destruct s as [[lm lbits] zs]. intros (Hlb & Hwf & Hlm & Hpos & HT).
  unfold accumulate. cbv zeta.
  assert (Hlen : 0 <= len zs) by (unfold len; lia).
  pose proof (pow2_pos lbits ltac:(lia)) as Hp.
  rewrite shl64_multiple by lia. rewrite lor_disjoint by lia.
  set (K := 64 * len zs) in *.
  pose proof (pow2_pos K ltac:(lia)) as HK.
  assert (Hposs : 2 ^ pos = 2 ^ K * 2 ^ lbits) by (rewrite Hpos; apply pow2_split; lia).
  destruct (Z.leb_spec 64 (lbits + N)) as [C|C].
  - (* a limb is complete *)
    set (lo := byte mod 2 ^ (64 - lbits)). set (hi := byte / 2 ^ (64 - lbits)).
    pose proof (pow2_pos (64 - lbits) ltac:(lia)) as Hq.
    assert (Hbyte : byte = lo + 2 ^ (64 - lbits) * hi) by (apply div_mod_recompose; lia).
    assert (Hlo : 0 <= lo < 2 ^ (64 - lbits)) by (apply Z.mod_pos_bound; lia).
    assert (H64 : 2 ^ 64 = 2 ^ lbits * 2 ^ (64 - lbits)).
    { rewrite <- pow2_split by lia. f_equal. lia. }
    unfold acc_inv, shr.
    replace (N - (lbits + N - 64)) with (64 - lbits) by lia. fold hi.
    split; [lia|]. split.
    { apply wf_app; [exact Hwf|]. apply wf_cons; [|apply wf_nil]. unfold limb. change B with (2 ^ 64). nia. }
    split.
    { split; [apply Z.div_pos; lia|].
      apply Z.div_lt_upper_bound; [lia|].
      rewrite <- pow2_split by lia. replace (64 - lbits + (lbits + N - 64)) with N by lia. lia. }
    assert (Hl' : len (zs ++ [lm + lo * 2 ^ lbits]) = len zs + 1).
    { unfold len. rewrite app_length. cbn [length]. lia. }
    split; [rewrite Hl'; lia|].
    rewrite Hl'. rewrite eval_app. cbn [eval]. rewrite B_pow. fold (len zs). fold K.
    replace (64 * (len zs + 1)) with (K + 64) by lia.
    rewrite pow2_split by lia. change B with (2 ^ 64).
    rewrite HT, Hposs. rewrite Hbyte at 1. rewrite H64. ring.
  - unfold acc_inv.
    assert (Hbs : byte mod 2 ^ (64 - lbits) = byte).
    { apply Z.mod_small. split; [lia|].
      assert (2 ^ N <= 2 ^ (64 - lbits)) by (apply Z.pow_le_mono_r; lia). lia. }
    rewrite Hbs.
    split; [lia|]. split; [exact Hwf|]. split.
    { rewrite (Z.add_comm lbits N), pow2_split by lia.
      pose proof (pow2_pos N ltac:(lia)). nia. }
    split; [lia|]. rewrite HT, Hposs. fold K. ring.
Qed.

(* ---------- the bytes read by the pointer ---------- *)

Lemma val_le_app k l1 l2 : 0 <= k ->
  val_le k (l1 ++ l2) = val_le k l1 + 2 ^ (k * Z.of_nat (length l1)) * val_le k l2.
Proof.
  intros Hk. induction l1 as [|d l IH].
  - cbn [app length]. rewrite val_le_nil. replace (k * Z.of_nat 0) with 0 by lia.
    rewrite Z.pow_0_r. lia.
  - cbn [app length]. rewrite !val_le_cons, IH.
    replace (k * Z.of_nat (S (length l))) with (k + k * Z.of_nat (length l)) by lia.
    rewrite pow2_split by lia. ring.
Qed.

(* the bytes data[dp], data[dp - e], ..., n of them *)
Definition rd_le (data : Z -> Z) (dp e : Z) (n : nat) : list Z :=
  map (fun j => data (dp - e * Z.of_nat j)) (seq 0 n).

Lemma rd_le_S data dp e n : rd_le data dp e (S n) = data dp :: rd_le data (dp - e) e n.
Proof.
  unfold rd_le. cbn [seq map]. f_equal; [f_equal; lia|].
  rewrite <- seq_shift, map_map. apply map_ext. intros j. f_equal. lia.
Qed.

Lemma rd_le_length data dp e n : length (rd_le data dp e n) = n.
Proof. unfold rd_le. rewrite map_length. apply seq_length. Qed.

Lemma rd_le_bytes data dp e n : (forall k, 0 <= data k < 256) ->
  Forall (fun b => 0 <= b < 2 ^ 8) (rd_le data dp e n).
Proof.
  intros Hd. unfold rd_le. apply Forall_forall. intros b Hb. apply in_map_iff in Hb.
  destruct Hb as [j [<- _]]. change (2 ^ 8) with 256. apply Hd.
Qed.

Lemma accumulate_bytes_spec data e n : (forall k, 0 <= data k < 256) ->
  forall T pos s dp, 0 <= pos -> acc_inv T pos s ->
  let r := accumulate_bytes n data e s dp in
  acc_inv (T + 2 ^ pos * val_le 8 (rd_le data dp e n)) (pos + 8 * Z.of_nat n) (fst r)
  /\ snd r = dp - e * Z.of_nat n.
Proof.
  intros Hd. induction n as [|n IH]; intros T pos s dp Hpos Hinv; cbv zeta.
  - cbn [accumulate_bytes fst snd]. unfold rd_le. cbn [seq map]. rewrite val_le_nil.
    replace (T + 2 ^ pos * 0) with T by lia. replace (pos + 8 * Z.of_nat 0) with pos by lia.
    split; [exact Hinv|lia].
  - cbn [accumulate_bytes]. rewrite rd_le_S, val_le_cons.
    pose proof (accumulate_spec T pos 8 (data dp) s ltac:(lia) (Hd dp) Hinv) as H1.
    assert (Hpos8 : 0 <= pos + 8) by lia.
    specialize (IH _ _ _ (dp - e) Hpos8 H1). cbv zeta in IH. destruct IH as [IH1 IH2].
    split.
    + replace (pos + 8 * Z.of_nat (S n)) with (pos + 8 + 8 * Z.of_nat n) by lia.
      replace (T + 2 ^ pos * (data dp + 2 ^ 8 * val_le 8 (rd_le data (dp - e) e n)))
        with (T + 2 ^ pos * data dp + 2 ^ (pos + 8) * val_le 8 (rd_le data (dp - e) e n)).
      * exact IH1.
      * rewrite pow2_split by lia. ring.
    + rewrite IH2. lia.
Qed.

Lemma rd_le_app data e a : forall dp b,
  rd_le data dp e (a + b) = rd_le data dp e a ++ rd_le data (dp - e * Z.of_nat a) e b.
Proof.
  induction a as [|a IH]; intros dp b.
  - cbn [Nat.add]. unfold rd_le at 2. cbn [seq map app]. f_equal. lia.
  - cbn [Nat.add]. rewrite !rd_le_S, IH. cbn [app].
    replace (dp - e - e * Z.of_nat a) with (dp - e * Z.of_nat (S a)) by (rewrite Nat2Z.inj_succ; ring).
    reflexivity.
Qed.

Lemma low_mod_pow2 v1 v2 a b : 0 <= a -> 0 <= b -> 0 <= v1 < 2 ^ a ->
  (v1 + 2 ^ a * v2) mod 2 ^ (a + b) = v1 + 2 ^ a * (v2 mod 2 ^ b).
Proof.
  intros Ha Hb Hv. pose proof (pow2_pos a Ha).
  rewrite mod_split_pow2 by lia.
  rewrite (Z.mul_comm (2 ^ a) v2).
  rewrite Z.mod_add, Z.div_add by lia.
  rewrite Z.mod_small, Z.div_small by lia. rewrite Z.add_0_l. reflexivity.
Qed.

Lemma ceil8 numb : 0 <= numb -> (numb + 7) / 8 = numb / 8 + (if numb mod 8 =? 0 then 0 else 1).
Proof.
  intros Hn.
  pose proof (Z.div_mod numb 8 ltac:(lia)). pose proof (Z.mod_pos_bound numb 8 ltac:(lia)).
  pose proof (Z.div_mod (numb + 7) 8 ltac:(lia)). pose proof (Z.mod_pos_bound (numb + 7) 8 ltac:(lia)).
  destruct (Z.eqb_spec (numb mod 8) 0); lia.
Qed.

(* the value a word contributes: its size bytes, least significant first, less the nail bits *)
Lemma word_value data dp e size numb :
  (forall k, 0 <= data k < 256) -> 1 <= size -> 1 <= numb <= 8 * size ->
  val_le 8 (rd_le data dp e (Z.to_nat size)) mod 2 ^ numb =
  val_le 8 (rd_le data dp e (Z.to_nat (numb / 8)))
  + 2 ^ (8 * (numb / 8)) * (if numb mod 8 =? 0 then 0 else data (dp - e * (numb / 8)) mod 2 ^ (numb mod 8)).
Proof.
  intros Hd Hs Hn.
  pose proof (Z.div_mod numb 8 ltac:(lia)) as Hdm.
  pose proof (Z.mod_pos_bound numb 8 ltac:(lia)) as Hmb.
  set (wbytes := numb / 8) in *. set (wbits := numb mod 8) in *.
  assert (Hwb : 0 <= wbytes) by lia.
  replace (Z.to_nat size) with (Z.to_nat wbytes + Z.to_nat (size - wbytes))%nat by lia.
  rewrite rd_le_app, val_le_app by lia. rewrite rd_le_length. rewrite !Z2Nat.id by lia.
  pose proof (val_le_bound 8 (rd_le data dp e (Z.to_nat wbytes)) ltac:(lia)
                (rd_le_bytes data dp e _ Hd)) as Hb1.
  rewrite rd_le_length, Z2Nat.id in Hb1 by lia.
  replace numb with (8 * wbytes + wbits) at 1 by lia.
  rewrite low_mod_pow2 by lia. f_equal. f_equal.
  destruct (Z.eqb_spec wbits 0) as [E|E].
  - rewrite E, Z.pow_0_r. apply Z.mod_1_r.
  - replace (Z.to_nat (size - wbytes)) with (S (Z.to_nat (size - wbytes - 1))) by lia.
    rewrite rd_le_S, val_le_cons.
    replace (2 ^ 8) with (2 ^ (8 - wbits) * 2 ^ wbits) by (rewrite <- pow2_split by lia; f_equal; lia).
    rewrite <- Z.mul_assoc, (Z.mul_comm (2 ^ wbits)), Z.mul_assoc.
    apply Z.mod_add. pose proof (pow2_pos wbits ltac:(lia)). lia.
Qed.

Lemma import_word_spec data e size nail T pos s dp :
  (forall k, 0 <= data k < 256) -> 1 <= size -> 0 <= nail < 8 * size -> 0 <= pos ->
  acc_inv T pos s ->
  let numb := 8 * size - nail in
  let r := import_word data e (numb / 8) (numb mod 8) (shl64 1 (numb mod 8) - 1) s dp in
  acc_inv (T + 2 ^ pos * (val_le 8 (rd_le data dp e (Z.to_nat size)) mod 2 ^ numb)) (pos + numb) (fst r)
  /\ snd r = dp - e * ((numb + 7) / 8).
Proof.
  intros Hd Hs Hn Hpos Hinv numb. cbv zeta.
  assert (Hnb : 1 <= numb <= 8 * size) by (unfold numb; lia).
  rewrite (word_value data dp e size numb Hd Hs Hnb). rewrite ceil8 by lia.
  pose proof (Z.div_mod numb 8 ltac:(lia)) as Hdm.
  pose proof (Z.mod_pos_bound numb 8 ltac:(lia)) as Hmb.
  set (wbytes := numb / 8) in *. set (wbits := numb mod 8) in *.
  assert (Hwb : 0 <= wbytes) by lia.
  unfold import_word.
  pose proof (accumulate_bytes_spec data e (Z.to_nat wbytes) Hd T pos s dp Hpos Hinv) as H.
  cbv zeta in H. destruct H as [H1 H2].
  destruct (accumulate_bytes (Z.to_nat wbytes) data e s dp) as [s1 dp1]. cbn [fst snd] in H1, H2.
  rewrite Z2Nat.id in H1, H2 by lia.
  set (V := val_le 8 (rd_le data dp e (Z.to_nat wbytes))) in *.
  destruct (Z.eqb_spec wbits 0) as [E|E]; cbn [fst snd].
  - split; [|lia].
    replace (T + 2 ^ pos * (V + 2 ^ (8 * wbytes) * 0)) with (T + 2 ^ pos * V) by ring.
    replace (pos + numb) with (pos + 8 * wbytes) by lia. exact H1.
  - split; [|lia].
    rewrite wbitsmask_eq, land_mask by lia. rewrite H2.
    pose proof (accumulate_spec _ _ wbits (data (dp - e * wbytes) mod 2 ^ wbits) s1 ltac:(lia)
                  (Z.mod_pos_bound _ _ (pow2_pos wbits ltac:(lia))) H1) as H3.
    replace (pos + numb) with (pos + 8 * wbytes + wbits) by lia.
    replace (T + 2 ^ pos * (V + 2 ^ (8 * wbytes) * (data (dp - e * wbytes) mod 2 ^ wbits)))
      with (T + 2 ^ pos * V + 2 ^ (pos + 8 * wbytes) * (data (dp - e * wbytes) mod 2 ^ wbits)).
    + exact H3.
    + rewrite pow2_split by lia. ring.
Qed.

(* the value of the word of significance i: it starts at D - order*size*i *)
Definition import_wordval (data : Z -> Z) (size order e numb D : Z) (i : nat) : Z :=
  val_le 8 (rd_le data (D - order * size * Z.of_nat i) e (Z.to_nat size)) mod 2 ^ numb.

Lemma import_words_spec data size order e nail D n :
  (forall k, 0 <= data k < 256) -> 1 <= size -> 0 <= nail < 8 * size ->
  let numb := 8 * size - nail in
  forall i T s dp, acc_inv T (numb * Z.of_nat i) s -> dp = D - order * size * Z.of_nat i ->
  let r := import_words n data e (numb / 8) (numb mod 8) (shl64 1 (numb mod 8) - 1)
             (e * ((numb + 7) / 8) - order * size) s dp in
  acc_inv (T + 2 ^ (numb * Z.of_nat i) * val_le numb (map (import_wordval data size order e numb D) (seq i n)))
          (numb * Z.of_nat (i + n)) (fst r)
  /\ snd r = D - order * size * Z.of_nat (i + n).
Proof.
  intros Hd Hs Hn numb. induction n as [|n IH]; intros i T s dp Hinv Hdp; cbv zeta.
  - cbn [import_words fst snd seq map]. rewrite val_le_nil, Nat.add_0_r.
    replace (T + 2 ^ (numb * Z.of_nat i) * 0) with T by lia. auto.
  - cbn [import_words].
    pose proof (import_word_spec data e size nail T (numb * Z.of_nat i) s dp Hd Hs Hn
                  ltac:(unfold numb; nia) Hinv) as H.
    cbv zeta in H. fold numb in H. destruct H as [H1 H2].
    destruct (import_word data e (numb / 8) (numb mod 8) (shl64 1 (numb mod 8) - 1) s dp) as [s1 dp1].
    cbn [fst snd] in H1, H2.
    replace (numb * Z.of_nat i + numb) with (numb * Z.of_nat (S i)) in H1 by lia.
    specialize (IH (S i) _ s1 (dp1 + (e * ((numb + 7) / 8) - order * size)) H1 ltac:(lia)).
    cbv zeta in IH. destruct IH as [IH1 IH2].
    replace (i + S n)%nat with (S i + n)%nat by lia.
    split; [|exact IH2].
    cbn [seq map]. rewrite val_le_cons.
    unfold import_wordval at 1. rewrite <- Hdp.
    set (W := val_le 8 (rd_le data dp e (Z.to_nat size)) mod 2 ^ numb) in *.
    set (R := val_le numb (map (import_wordval data size order e numb D) (seq (S i) n))) in *.
    replace (T + 2 ^ (numb * Z.of_nat i) * (W + 2 ^ numb * R))
      with (T + 2 ^ (numb * Z.of_nat i) * W + 2 ^ (numb * Z.of_nat (S i)) * R).
    + exact IH1.
    + replace (numb * Z.of_nat (S i)) with (numb * Z.of_nat i + numb) by lia.
      rewrite pow2_split by (unfold numb; nia). ring.
Qed.

(* ---------- the chunks of the specification ---------- *)

Lemma skipn_skipn' {A} (a b : nat) (l : list A) : skipn a (skipn b l) = skipn (b + a) l.
Proof.
  revert l. induction b as [|b IH]; intros l; [reflexivity|].
  destruct l as [|z l]; [cbn [skipn Nat.add]; apply skipn_nil|]. cbn [skipn Nat.add]. apply IH.
Qed.

Lemma chunks_seq sz : (0 < sz)%nat -> forall cnt l, length l = (cnt * sz)%nat ->
  chunks cnt sz l = map (fun q => firstn sz (skipn (q * sz) l)) (seq 0 cnt).
Proof.
  intros Hsz. induction cnt as [|cnt IH]; intros l Hl; [reflexivity|].
  destruct l as [|z l]; [cbn [length] in Hl; nia|].
  cbn [chunks seq map]. f_equal.
  rewrite IH by (rewrite skipn_length, Hl; nia).
  rewrite <- seq_shift, map_map. apply map_ext. intros q.
  rewrite skipn_skipn'. reflexivity.
Qed.

Lemma nth_firstn_skipn (l : list Z) a n j : (j < n)%nat -> nth j (firstn n (skipn a l)) 0 = nth (a + j) l 0.
Proof.
  intros Hj. revert l. induction a as [|a IH]; intros l.
  - cbn [skipn Nat.add]. revert j Hj l. induction n as [|n IHn]; intros j Hj l; [lia|].
    destruct l as [|z l]; [destruct j; reflexivity|].
    destruct j as [|j]; [reflexivity|]. cbn [firstn nth]. apply IHn. lia.
  - destruct l as [|z l].
    + cbn [skipn]. rewrite firstn_nil. destruct j; destruct a; reflexivity.
    + cbn [skipn Nat.add nth]. apply IH.
Qed.

(* the bytes the pointer reads for the word of significance i are the chunk at stream
   position q (counted from the other end when order = 1), reversed when endian = 1 *)
Lemma rd_le_chunk (bytes : list Z) size order e (cnt i : nat) :
  1 <= size -> (order = 1 \/ order = -1) -> (e = 1 \/ e = -1) -> (i < cnt)%nat ->
  length bytes = (cnt * Z.to_nat size)%nat ->
  let D := (if 0 <=? order then (Z.of_nat cnt - 1) * size else 0) + (if 0 <=? e then size - 1 else 0) in
  let q := if 0 <? order then (cnt - S i)%nat else i in
  let c := firstn (Z.to_nat size) (skipn (q * Z.to_nat size) bytes) in
  rd_le (fun k => nth (Z.to_nat k) bytes 0) (D - order * size * Z.of_nat i) e (Z.to_nat size)
  = if 0 <? e then rev c else c.
Proof.
  intros Hs Ho He Hi Hlen D q c.
  set (sz := Z.to_nat size) in *. assert (Hsz : size = Z.of_nat sz) by (unfold sz; lia).
  assert (Hq : (q < cnt)%nat) by (unfold q; destruct (0 <? order); lia).
  assert (Hc : length c = sz).
  { unfold c. rewrite firstn_length, skipn_length, Hlen. nia. }
  apply (nth_ext _ _ 0 0).
  - rewrite rd_le_length. destruct (0 <? e); [rewrite rev_length|]; auto.
  - rewrite rd_le_length. intros j Hj. unfold rd_le. rewrite nth_map_seq by exact Hj.
    rewrite nth_if_rev by lia. rewrite Hc.
    set (j' := if 0 <? e then (sz - S j)%nat else j).
    assert (Hj' : (j' < sz)%nat) by (unfold j'; destruct (0 <? e); lia).
    unfold c. rewrite nth_firstn_skipn by exact Hj'. f_equal.
    unfold D, q, j'. rewrite Hsz.
    destruct Ho as [-> | ->], He as [-> | ->]; cbn [Z.leb Z.ltb Z.compare]; nia.
Qed.

Lemma woffset_eq' a size order e : (order = 1 \/ order = -1) -> (e = 1 \/ e = -1) ->
  (if 0 <=? e then a else - a) + (if order <? 0 then size else - size) = e * a - order * size.
Proof. intros [-> | ->] [-> | ->]; cbn [Z.leb Z.ltb Z.compare]; lia. Qed.

Lemma data_bytes (bytes : list Z) : Forall (fun b => 0 <= b < 256) bytes ->
  forall k, 0 <= nth (Z.to_nat k) bytes 0 < 256.
Proof.
  intros HF k. destruct (nth_in_or_default (Z.to_nat k) bytes 0) as [Hin | ->]; [|lia].
  rewrite Forall_forall in HF. apply HF. exact Hin.
Qed.

(* the run of the general block of mpz_import: the limbs stored hold the words, word i at bit
   numb*i; exactly ceil (count*numb / 64) limbs are stored (ASSERT (zp == PTR(z) + zsize)) *)
Lemma import_run_spec bytes count size order endian nails :
  1 <= size -> 0 <= nails < 8 * size -> (order = 1 \/ order = -1) ->
  (endian = 1 \/ endian = 0 \/ endian = -1) -> 0 <= count ->
  Forall (fun b => 0 <= b < 256) bytes ->
  let e := host_endian endian in
  let numb := 8 * size - nails in
  let D := (if 0 <=? order then (count - 1) * size else 0) + (if 0 <=? e then size - 1 else 0) in
  let data := fun k => nth (Z.to_nat k) bytes 0 in
  let r := import_run bytes count size order endian nails in
  eval (fst r) = val_le numb (map (import_wordval data size order e numb D) (seq 0 (Z.to_nat count)))
  /\ wf (fst r)
  /\ len (fst r) = (count * numb + 63) / 64
  /\ snd r = D - order * size * count.
Proof.
  intros Hs Hn Ho He Hc HF e numb D data r.
  pose proof (host_endian_cases endian He) as He'. fold e in He'.
  pose proof (data_bytes bytes HF) as Hd. fold data in Hd.
  unfold r, import_run. cbv zeta. fold e numb data.
  rewrite (woffset_eq' ((numb + 7) / 8) size order e Ho He'). fold D.
  pose proof (import_words_spec data size order e nails D (Z.to_nat count) Hd Hs Hn) as H.
  cbv zeta in H. fold numb in H.
  specialize (H 0%nat 0 (0, 0, []) D).
  destruct H as [H1 H2].
  { replace (numb * Z.of_nat 0) with 0 by lia. apply acc_inv_init. }
  { lia. }
  destruct (import_words (Z.to_nat count) data e (numb / 8) (numb mod 8) (shl64 1 (numb mod 8) - 1)
              (e * ((numb + 7) / 8) - order * size) (0, 0, []) D) as [[[lm lbits] zs] dp].
  cbn [fst snd Nat.add] in *.
  replace (numb * Z.of_nat 0) with 0 in H1 by lia. rewrite Z.pow_0_r, Z.mul_1_l, Z.add_0_l in H1.
  rewrite Z2Nat.id in H1, H2 by lia.
  destruct H1 as (Hlb & Hwf & Hlm & Hpos & HT).
  assert (Hlen : 0 <= len zs) by (unfold len; lia).
  destruct (Z.eqb_spec lbits 0) as [E|E].
  - rewrite E, Z.pow_0_r in Hlm. assert (lm = 0) by lia. subst lm lbits.
    split; [rewrite HT; lia|]. split; [exact Hwf|]. split; [|exact H2].
    rewrite (Z.mul_comm count numb), Hpos. apply (Z.div_unique _ _ _ 63); lia.
  - split; [|split; [|split; [|exact H2]]].
    + rewrite eval_app. cbn [eval]. rewrite B_pow. fold (len zs). rewrite HT. ring.
    + apply wf_app; [exact Hwf|]. apply wf_cons; [|apply wf_nil]. unfold limb. change B with (2 ^ 64).
      assert (2 ^ lbits <= 2 ^ 64) by (apply Z.pow_le_mono_r; lia). lia.
    + unfold len. rewrite app_length. cbn [length]. fold (len zs).
      rewrite (Z.mul_comm count numb), Hpos. apply (Z.div_unique _ _ _ (lbits - 1)); unfold len; lia.
Qed.

Theorem import_loop_eq_spec bytes count size order endian nails :
  1 <= size -> 0 <= nails < 8 * size -> (order = 1 \/ order = -1) ->
  (endian = 1 \/ endian = 0 \/ endian = -1) -> 0 <= count ->
  Z.of_nat (length bytes) = count * size -> Forall (fun b => 0 <= b < 256) bytes ->
  import_loop bytes count size order endian nails = mpz_import bytes count size order endian nails.
Proof.
  intros Hs Hn Ho He Hc Hlen HF.
  pose proof (import_run_spec bytes count size order endian nails Hs Hn Ho He Hc HF) as H.
  cbv zeta in H. destruct H as [H _]. unfold import_loop. rewrite H. clear H.
  pose proof (host_endian_cases endian He) as He'.
  unfold mpz_import. cbv zeta. fold (host_endian endian).
  set (e := host_endian endian) in *. set (numb := 8 * size - nails).
  set (cnt := Z.to_nat count). set (sz := Z.to_nat size).
  assert (Hlen' : length bytes = (cnt * sz)%nat) by (unfold cnt, sz; nia).
  rewrite firstn_all2 by (rewrite Z2Nat.inj_mul by lia; fold cnt sz; lia).
  rewrite (chunks_seq sz ltac:(unfold sz; lia) cnt bytes Hlen'). rewrite map_map.
  set (ws := map (fun q => bytes_word e (firstn sz (skipn (q * sz) bytes)) mod 2 ^ numb) (seq 0 cnt)).
  assert (Hws : length ws = cnt) by (unfold ws; rewrite map_length; apply seq_length).
  f_equal.
  apply (nth_ext _ _ 0 0).
  - rewrite map_length, seq_length. destruct (0 <? order); [rewrite rev_length|]; auto.
  - rewrite map_length, seq_length. intros i Hi. rewrite nth_map_seq by exact Hi.
    rewrite nth_if_rev by lia. rewrite Hws.
    set (q := if 0 <? order then (cnt - S i)%nat else i).
    assert (Hq : (q < cnt)%nat) by (unfold q; destruct (0 <? order); lia).
    unfold ws. rewrite nth_map_seq by exact Hq.
    unfold import_wordval, bytes_word. f_equal. f_equal.
    replace count with (Z.of_nat cnt) by (unfold cnt; lia).
    apply (rd_le_chunk bytes size order e cnt i Hs Ho He' Hi Hlen').
Qed.

(* ====================================================================== *)
(* export: the guard, the final ASSERTs, the pointer view                   *)
(* ====================================================================== *)

(* Past the last limb the guard delivers zero bits: with no limb left, all the remaining bits of
   X are in the buffer, and EXTRACT stores the low bits of the buffer alone. *)
Lemma extract_past_end X pos N mask lm lbits :
  1 <= N <= 8 -> mask_ok N mask -> buf_inv X pos (lm, lbits, []) ->
  X / 2 ^ pos = lm /\ fst (extract N mask (lm, lbits, [])) = lm mod 2 ^ N
  /\ buf_inv X (pos + N) (snd (extract N mask (lm, lbits, []))).
Proof.
  intros HN Hm Hinv.
  destruct (extract_spec X pos N mask _ HN Hm Hinv) as [H1 H2].
  destruct Hinv as (Hpos & Hlb & _ & Hlm & Hz). cbn [eval] in Hz.
  assert (E : X / 2 ^ pos = lm).
  { rewrite (div_mod_recompose (X / 2 ^ pos) lbits) by lia.
    rewrite div_div_pow2 by lia. rewrite <- Hz, <- Hlm. lia. }
  split; [exact E|]. split; [|exact H2]. rewrite H1, E. reflexivity.
Qed.

(* the limbs not yet read are always a tail of the limb array *)
Lemma extract_rest N mask s : exists k, snd (snd (extract N mask s)) = skipn k (snd s).
Proof.
  destruct s as [[lm lbits] zs]. unfold extract. destruct (N <=? lbits).
  - exists 0%nat. reflexivity.
  - exists 1%nat. destruct zs; reflexivity.
Qed.

Lemma skipn_skipn_ex {A} (l l1 l2 : list A) :
  (exists k, l1 = skipn k l) -> (exists k, l2 = skipn k l1) -> exists k, l2 = skipn k l.
Proof. intros [a ->] [b ->]. exists (a + b)%nat. apply skipn_skipn'. Qed.

Lemma extract_bytes_rest n : forall s, exists k, snd (snd (extract_bytes n s)) = skipn k (snd s).
Proof.
  induction n as [|n IH]; intros s.
  - exists 0%nat. reflexivity.
  - cbn [extract_bytes]. pose proof (extract_rest 8 None s) as H1.
    destruct (extract 8 None s) as [b s1]. specialize (IH s1).
    destruct (extract_bytes n s1) as [bs s2]. cbn [fst snd] in *.
    eapply skipn_skipn_ex; eassumption.
Qed.

Lemma word_emit_rest size wbytes wbits wbitsmask s :
  exists k, snd (snd (word_emit size wbytes wbits wbitsmask s)) = skipn k (snd s).
Proof.
  unfold word_emit. pose proof (extract_bytes_rest (Z.to_nat wbytes) s) as H1.
  destruct (extract_bytes (Z.to_nat wbytes) s) as [bs s1]. cbn [fst snd] in H1.
  destruct (wbits =? 0); [exact H1|].
  pose proof (extract_rest wbits (Some wbitsmask) s1) as H2.
  destruct (extract wbits (Some wbitsmask) s1) as [b s2]. cbn [fst snd] in *.
  eapply skipn_skipn_ex; eassumption.
Qed.

Lemma words_loop_rest n size endian wbytes wbits wbitsmask woffset : forall s dp,
  exists k, snd (snd (fst (words_loop n size endian wbytes wbits wbitsmask woffset s dp))) = skipn k (snd s).
Proof.
  induction n as [|n IH]; intros s dp.
  - exists 0%nat. reflexivity.
  - cbn [words_loop]. pose proof (word_emit_rest size wbytes wbits wbitsmask s) as H1.
    destruct (word_emit size wbytes wbits wbitsmask s) as [bs s1].
    destruct (place bs dp endian) as [w dp1].
    specialize (IH s1 (dp1 + woffset)).
    destruct (words_loop n size endian wbytes wbits wbitsmask woffset s1 (dp1 + woffset)) as [[ws s2] dp2].
    cbn [fst snd] in *. eapply skipn_skipn_ex; eassumption.
Qed.

Lemma last_skipn (l : list Z) : forall k, skipn k l <> [] -> last (skipn k l) 0 = last l 0.
Proof.
  induction l as [|z l IH]; intros k Hne.
  - rewrite skipn_nil in Hne. contradiction.
  - destruct k as [|k]; [reflexivity|]. cbn [skipn] in *. rewrite IH by exact Hne.
    destruct l; [rewrite skipn_nil in Hne; contradiction|reflexivity].
Qed.

(* The two ASSERTs after the loop: every limb has been read (zp == PTR(z) + ABSIZ(z)), and dp is
   the low byte of the word after the most significant one. *)
Theorem export_final_asserts x ls size order endian nails :
  1 <= size -> 0 <= nails < 8 * size -> (order = 1 \/ order = -1) ->
  (endian = 1 \/ endian = 0 \/ endian = -1) ->
  wf ls -> normalized ls -> ls <> [] -> eval ls = Z.abs x ->
  let '(_, s, dp, count) := export_run ls size order endian nails in
  snd s = []
  /\ dp = (if order <? 0 then count * size else - size)
          + (if 0 <=? host_endian endian then size - 1 else 0).
Proof.
  intros Hs Hn Ho He Hwf Hnorm Hne Hx.
  assert (Hlast : last ls 0 <> 0) by (destruct Hnorm; [contradiction|assumption]).
  pose proof (export_run_spec ls size order endian nails Hs Hn Ho He Hwf) as H. cbv zeta in H.
  pose proof (words_loop_rest (Z.to_nat (sizeinbase_2exp ls (8 * size - nails))) size (host_endian endian)
                ((8 * size - nails) / 8) ((8 * size - nails) mod 8) (shl64 1 ((8 * size - nails) mod 8) - 1)
                ((if 0 <=? host_endian endian then size else - size) + (if order <? 0 then size else - size))
                (0, 0, ls)
                ((if 0 <=? order then (sizeinbase_2exp ls (8 * size - nails) - 1) * size else 0)
                 + (if 0 <=? host_endian endian then size - 1 else 0))) as Hrest.
  unfold export_run in H, Hrest |- *. cbv zeta in H, Hrest |- *.
  destruct (words_loop _ _ _ _ _ _ _ _ _) as [[log s] dp].
  destruct H as (_ & _ & Hinv & Hdp). cbn [fst snd] in Hrest.
  rewrite (sizeinbase_eq ls x size nails Hwf Hne Hlast Hx) in *.
  set (cnt := export_count x size nails) in *.
  assert (Hcnt : 0 <= cnt) by (apply export_count_nonneg; lia).
  rewrite Z2Nat.id in Hinv, Hdp by lia.
  split.
  - destruct s as [[lm lbits] zs]. cbn [snd] in *. destruct Hrest as [k Hk].
    destruct Hinv as (_ & Hlb & Hwz & _ & Hz).
    destruct zs as [|z0 zr]; [reflexivity|exfalso].
    assert (Hzne : z0 :: zr <> []) by discriminate.
    assert (Hzl : last (z0 :: zr) 0 <> 0).
    { rewrite Hk. rewrite last_skipn by (rewrite <- Hk; exact Hzne). exact Hlast. }
    destruct (log2_eval (z0 :: zr) Hwz Hzne Hzl) as [Hpos _].
    rewrite Hz, Hx in Hpos.
    pose proof (abs_lt_pow_count x size nails ltac:(lia)) as Hlt. fold cnt in Hlt.
    rewrite Z.div_small in Hpos; [lia|]. split; [lia|].
    eapply Z.lt_le_trans; [exact Hlt|]. apply Z.pow_le_mono_r; lia.
  - rewrite Hdp. pose proof (host_endian_cases endian He) as He'.
    destruct Ho as [-> | ->], He' as [-> | ->]; cbn [Z.leb Z.ltb Z.compare]; lia.
Qed.

(* ---------- the pointer view: limbs in a memory that goes on after zend ---------- *)

Lemma skipn_nth_cons (l : list Z) : forall n, (n < length l)%nat -> skipn n l = nth n l 0 :: skipn (S n) l.
Proof.
  induction l as [|z l IH]; intros n Hn; [cbn [length] in Hn; lia|].
  destruct n as [|n]; [reflexivity|]. cbn [length] in Hn. cbn [skipn nth]. rewrite IH by lia. reflexivity.
Qed.

Lemma read_limb_ptr_view mem zend zp : (zp <= zend)%nat -> (zend <= length mem)%nat ->
  read_limb (skipn zp (firstn zend mem))
  = (fst (read_limb_ptr mem zend zp), skipn (snd (read_limb_ptr mem zend zp)) (firstn zend mem))
  /\ (snd (read_limb_ptr mem zend zp) <= zend)%nat.
Proof.
  intros Hz Hm. unfold read_limb_ptr.
  assert (HL : length (firstn zend mem) = zend) by (rewrite firstn_length; lia).
  destruct (Nat.eqb_spec zp zend) as [E|E]; cbn [fst snd].
  - split; [|lia]. rewrite skipn_all2 by lia. reflexivity.
  - split; [|lia]. rewrite skipn_nth_cons by lia. cbn [read_limb].
    pose proof (nth_firstn_skipn mem 0 zend zp ltac:(lia)) as Hnth. cbn [skipn Nat.add] in Hnth.
    rewrite Hnth. reflexivity.
Qed.

(* EXTRACT on the pointer state does what EXTRACT on the list of the limbs zp .. zend does *)
Lemma extract_ptr_view mem zend N mask s : (snd s <= zend)%nat -> (zend <= length mem)%nat ->
  fst (extract_ptr mem zend N mask s) = fst (extract N mask (view_ptr mem zend s))
  /\ view_ptr mem zend (snd (extract_ptr mem zend N mask s)) = snd (extract N mask (view_ptr mem zend s))
  /\ (snd (snd (extract_ptr mem zend N mask s)) <= zend)%nat.
Proof.
  destruct s as [[lm lbits] zp]. cbn [snd]. intros Hz Hm.
  unfold extract_ptr, extract, view_ptr.
  destruct (N <=? lbits); cbn [fst snd]; [auto|].
  destruct (read_limb_ptr_view mem zend zp Hz Hm) as [H1 H2]. rewrite H1.
  destruct (read_limb_ptr mem zend zp) as [v zp']. cbn [fst snd] in *. auto.
Qed.

(* hence the bit buffer invariant with X the value of the zsize limbs only: whatever lies in
   memory after zend is never seen *)
Theorem extract_ptr_spec mem zend pos N mask s :
  (snd s <= zend)%nat -> (zend <= length mem)%nat -> 1 <= N <= 8 -> mask_ok N mask ->
  let X := eval (firstn zend mem) in
  buf_inv X pos (view_ptr mem zend s) ->
  fst (extract_ptr mem zend N mask s) = (X / 2 ^ pos) mod 2 ^ N
  /\ buf_inv X (pos + N) (view_ptr mem zend (snd (extract_ptr mem zend N mask s)))
  /\ (snd (snd (extract_ptr mem zend N mask s)) <= zend)%nat.
Proof.
  intros Hz Hm HN Hmask X Hinv.
  destruct (extract_ptr_view mem zend N mask s Hz Hm) as (H1 & H2 & H3).
  destruct (extract_spec X pos N mask _ HN Hmask Hinv) as [H4 H5].
  rewrite H1, H2. auto.
Qed.

(* the same code with the guard one limb late (zp == zend + 1) does read the stale limb *)
Example guard_off_by_one :
  let mem := [1; 77] in
  let step := fun zend s => extract_ptr mem zend 8 None s in
  let run := fun zend => fst (step zend (snd (step zend (snd (step zend (snd (step zend (snd (step zend
              (snd (step zend (snd (step zend (snd (step zend (snd (step zend (0, 0, 0%nat)))))))))))))))))) in
  run 1%nat = 0 /\ run 2%nat = 77.
Proof. vm_compute. split; reflexivity. Qed.

(* ====================================================================== *)
(* the statements on the limbs of an integer, and examples                 *)
(* ====================================================================== *)

(* limbs_of_Z x is the limb array of |x| as mpz_t holds it (MpzDefs) *)
Corollary export_loop_eq_spec_Z (init : Z -> Z) x size order endian nails :
  1 <= size -> 0 <= nails < 8 * size -> (order = 1 \/ order = -1) ->
  (endian = 1 \/ endian = 0 \/ endian = -1) ->
  fst (export_loop init (limbs_of_Z x) size order endian nails) = fst (mpz_export x size order endian nails)
  /\ snd (export_loop init (limbs_of_Z x) size order endian nails) = snd (mpz_export x size order endian nails).
Proof.
  intros Hs Hn Ho He. destruct (limbs_of_Z_spec x) as (E & W & N).
  rewrite (export_loop_eq_spec init x (limbs_of_Z x) size order endian nails Hs Hn Ho He W N E). auto.
Qed.

(* export then import through the two loops gives |x| back *)
Corollary import_loop_export_loop (init : Z -> Z) x size order endian nails :
  1 <= size -> 0 <= nails < 8 * size -> (order = 1 \/ order = -1) ->
  (endian = 1 \/ endian = 0 \/ endian = -1) ->
  let '(bytes, count) := export_loop init (limbs_of_Z x) size order endian nails in
  import_loop bytes count size order endian nails = Z.abs x.
Proof.
  intros Hs Hn Ho He. destruct (limbs_of_Z_spec x) as (E & W & N).
  rewrite (export_loop_eq_spec init x (limbs_of_Z x) size order endian nails Hs Hn Ho He W N E).
  pose proof (import_export x size order endian nails Hs Hn Ho He) as H1.
  pose proof (export_count_spec x size order endian nails Hs Hn) as H2.
  rewrite mpz_export_eq in H1, H2 |- *.
  destruct H2 as (Hlen & HF & _ & _).
  rewrite import_loop_eq_spec; try assumption.
  apply export_count_nonneg. lia.
Qed.

Fixpoint list_eqb (a b : list Z) : bool :=
  match a, b with
  | [], [] => true
  | x :: a', y :: b' => (x =? y) && list_eqb a' b'
  | _, _ => false
  end.

(* one, two and three limb values *)
Definition ex_values : list Z :=
  [0x0123456789ABCDEF; 2 ^ 63 + 5; 2 ^ 64 - 1; 2 ^ 64 + 258; - (2 ^ 127 + 3 ^ 40); 3 ^ 100; 2 ^ 192 - 1].
Definition ex_sizes : list Z := [1; 2; 3; 5; 8; 16].
Definition ex_nails (size : Z) : list Z := filter (fun n => n <? 8 * size) [0; 1; 7; 8; 8 * size - 1].

Definition ex_all (chk : Z -> Z -> Z -> Z -> Z -> bool) : bool :=
  forallb (fun size => forallb (fun nails => forallb (fun order => forallb (fun endian =>
    forallb (fun x => chk x size order endian nails) ex_values) [1; 0; -1]) [1; -1])
    (ex_nails size)) ex_sizes.

(* the export loop on a buffer full of 255 against the specification *)
Definition chk_export (x size order endian nails : Z) : bool :=
  let '(b1, c1) := export_loop (fun _ => 255) (limbs_of_Z x) size order endian nails in
  let '(b2, c2) := mpz_export x size order endian nails in
  list_eqb b1 b2 && (c1 =? c2).

(* the import loop against the specification, on the exported bytes and on bytes with arbitrary
   nail bits; and the round trip *)
Definition chk_import (x size order endian nails : Z) : bool :=
  let '(b, c) := mpz_export x size order endian nails in
  let junk := map (fun v => (v * 7 + 13) mod 256) b in
  (import_loop b c size order endian nails =? mpz_import b c size order endian nails)
  && (import_loop junk c size order endian nails =? mpz_import junk c size order endian nails)
  && (import_loop b c size order endian nails =? Z.abs x).

Example export_loop_examples : ex_all chk_export = true.
Proof. vm_compute. reflexivity. Qed.

Example import_loop_examples : ex_all chk_import = true.
Proof. vm_compute. reflexivity. Qed.

Example loop_examples_explicit :
  export_loop (fun _ => 255) (limbs_of_Z (2 ^ 64 + 258)) 2 1 1 0 = ([0; 1; 0; 0; 0; 0; 0; 0; 1; 2], 5)
  /\ export_loop (fun _ => 255) (limbs_of_Z 0x123456) 3 (-1) (-1) 4 = ([86; 52; 2; 1; 0; 0], 2)
  /\ export_loop (fun _ => 255) (limbs_of_Z 0x123456) 3 1 1 4 = ([0; 0; 1; 2; 52; 86], 2)
  /\ export_loop (fun _ => 255) (limbs_of_Z (2 ^ 64 + 1)) 1 (-1) 0 7 = (repeat 1 1 ++ repeat 0 63 ++ [1], 65)
  /\ import_loop [86; 52; 242; 1; 0; 240] 2 3 (-1) (-1) 4 = 0x123456
  /\ fst (import_run [255; 255; 255; 255; 255; 255; 255; 255; 255] 9 1 1 1 1) = [2 ^ 63 - 1]
  /\ fst (import_run (repeat 255 10) 10 1 1 1 1) = [2 ^ 64 - 1; 63].
Proof. vm_compute. repeat split; reflexivity. Qed.
