(* GetDProofs.v — the as-coded conversions of GetDDefs.v return exactly the value-level
   specifications of ConvDefs.v. *)
From Coq Require Import ZArith List Lia Bool.
From Mpir Require Import Word Limbs MpnBasicDefs MpnBasicProofs MpzDefs MpzProofs ConvDefs ConvProofs GetDDefs.
Import ListNotations.
Local Open Scope Z_scope.

(* ------------------------------------------------------------------ *)
(* powers of two, shifts                                                *)

Lemma pow2_pos k : 0 <= k -> 0 < 2 ^ k.
Proof. intros H. apply Z.pow_pos_nonneg; lia. Qed.

Lemma pow2_add a b : 0 <= a -> 0 <= b -> 2 ^ (a + b) = 2 ^ a * 2 ^ b.
Proof. intros. apply Z.pow_add_r; assumption. Qed.

Lemma pow2_le a b : 0 <= a <= b -> 2 ^ a <= 2 ^ b.
Proof. intros H. apply Z.pow_le_mono_r; lia. Qed.

Lemma pow2_lt a b : 0 <= a < b -> 2 ^ a < 2 ^ b.
Proof. intros H. apply Z.pow_lt_mono_r; lia. Qed.

Lemma B_pow : B = 2 ^ 64.
Proof. rewrite B_val. reflexivity. Qed.

Lemma lsr64_div x n : 0 <= n < 64 -> lsr64 x n = x / 2 ^ n.
Proof. intros H. unfold lsr64. rewrite Z.mod_small by lia. apply Z.shiftr_div_pow2. lia. Qed.

Lemma lsl64_mul x n : 0 <= n < 64 -> lsl64 x n = (x * 2 ^ n) mod B.
Proof.
  intros H. unfold lsl64, wrap. rewrite (Z.mod_small n 64) by lia.
  rewrite Z.shiftl_mul_pow2 by lia. reflexivity.
Qed.

Lemma land_limb_max x : limb x -> Z.land x MP_LIMB_T_MAX = x.
Proof.
  intros [H0 H1]. unfold MP_LIMB_T_MAX. rewrite B_val in *.
  change (18446744073709551616 - 1) with (Z.ones 64). rewrite Z.land_ones by lia.
  change (2 ^ 64) with 18446744073709551616. apply Z.mod_small. lia.
Qed.

Lemma log2_sandwich mag a s t : 0 <= s -> 0 <= t ->
  a * 2 ^ s <= mag < (a + 1) * 2 ^ s -> 2 ^ t <= a < 2 ^ (t + 1) -> Z.log2 mag = s + t.
Proof.
  intros Hs Ht [M1 M2] [A1 A2]. apply Z.log2_unique; [lia|].
  pose proof (pow2_pos s Hs) as Ps.
  replace (Z.succ (s + t)) with (s + (t + 1)) by lia.
  rewrite (pow2_add t 1) in A2 by lia. rewrite !pow2_add by lia.
  change (2 ^ 1) with 2 in *. pose proof (pow2_pos t Ht) as Pt.
  set (P := 2 ^ s) in *. set (Q := 2 ^ t) in *. clearbody P Q. split; nia.
Qed.

(* ------------------------------------------------------------------ *)
(* count_leading_zeros                                                  *)

Lemma clz_bounds m : limb m -> m <> 0 ->
  0 <= clz m <= 63 /\ 2 ^ (63 - clz m) <= m < 2 ^ (64 - clz m).
Proof.
  intros [H0 H1] Hn. unfold clz. assert (Hp : 0 < m) by lia.
  destruct (Z.log2_spec m Hp) as [Lo Hi]. pose proof (Z.log2_nonneg m) as Hl.
  assert (Hl2 : Z.log2 m < 64).
  { apply Z.log2_lt_pow2; [exact Hp|]. rewrite <- B_pow. exact H1. }
  replace (63 - (63 - Z.log2 m)) with (Z.log2 m) by ring.
  replace (64 - (63 - Z.log2 m)) with (Z.succ (Z.log2 m)) by (unfold Z.succ; ring).
  lia.
Qed.

(* the normalisation step of mpn_get_d:  (m0 << lshift) | ((m1 >> rshift) & rmask) *)
Lemma get_d_norm m0 m1 : limb m0 -> m0 <> 0 -> limb m1 ->
  Z.lor (lsl64 m0 (clz m0))
        (Z.land (lsr64 m1 (64 - clz m0)) (if clz m0 =? 0 then 0 else MP_LIMB_T_MAX))
  = (m0 * B + m1) / 2 ^ (64 - clz m0).
Proof.
  intros Hm0 Hn Hm1. destruct (clz_bounds m0 Hm0 Hn) as (Hc & Lo & Hi).
  set (c := clz m0) in *. clearbody c. destruct Hm0 as [A0 A1], Hm1 as [C0 C1].
  destruct (Z.eqb_spec c 0) as [E|E].
  - subst c. rewrite Z.land_0_r, Z.lor_0_r. rewrite lsl64_mul by lia.
    change (2 ^ 0) with 1. rewrite Z.mul_1_r. change (64 - 0) with 64. rewrite <- B_pow.
    pose proof B_pos. rewrite Z.mod_small by lia.
    rewrite Z.div_add_l by lia. rewrite (Z.div_small m1) by lia. lia.
  - assert (Hk : 1 <= 64 - c <= 63) by lia.
    pose proof (B_split c ltac:(lia)) as HB.
    pose proof (pow2_pos (64 - c) ltac:(lia)) as Pk. pose proof (pow2_pos c ltac:(lia)) as Pc.
    rewrite lsl64_mul by lia. rewrite lsr64_div by lia.
    assert (Hq : 0 <= m1 / 2 ^ (64 - c) < 2 ^ c).
    { split; [apply Z.div_pos; lia|apply Z.div_lt_upper_bound; lia]. }
    rewrite land_limb_max by (unfold limb; nia).
    rewrite (Z.mod_small (m0 * 2 ^ c)) by nia.
    rewrite (lor_add_disjoint _ _ c) by (try lia; apply Z.mod_mul; lia).
    rewrite HB. replace (m0 * (2 ^ (64 - c) * 2 ^ c) + m1) with (m0 * 2 ^ c * 2 ^ (64 - c) + m1) by ring.
    rewrite Z.div_add_l by lia. reflexivity.
Qed.

Lemma get_d_norm_bounds m0 m1 : limb m0 -> m0 <> 0 -> limb m1 ->
  2 ^ 63 <= (m0 * B + m1) / 2 ^ (64 - clz m0) < 2 ^ 64.
Proof.
  intros Hm0 Hn Hm1. destruct (clz_bounds m0 Hm0 Hn) as (Hc & Lo & Hi).
  set (c := clz m0) in *. clearbody c. destruct Hm0 as [A0 A1], Hm1 as [C0 C1].
  pose proof (pow2_pos (64 - c) ltac:(lia)) as Pk.
  assert (E1 : 2 ^ (64 - c) * 2 ^ 63 = 2 ^ (63 - c) * B).
  { rewrite B_pow, <- !pow2_add by lia. f_equal. ring. }
  assert (E2 : 2 ^ (64 - c) * 2 ^ 64 = 2 ^ (64 - c) * B) by (rewrite B_pow; reflexivity).
  pose proof B_pos. split.
  - apply Z.div_le_lower_bound; [lia|]. rewrite E1. nia.
  - apply Z.div_lt_upper_bound; [lia|]. rewrite E2. nia.
Qed.

(* ------------------------------------------------------------------ *)
(* ptr[i] on lists                                                      *)

Lemma ptr_at_app lo hi i : 0 <= i -> ptr_at (lo ++ hi) (len lo + i) = ptr_at hi i.
Proof.
  intros Hi. unfold ptr_at, len. rewrite Z2Nat.inj_add by lia. rewrite Nat2Z.id.
  apply app_nth2_plus.
Qed.

Lemma last_snoc {A} (a : list A) x dflt : last (a ++ [x]) dflt = x.
Proof. apply last_last. Qed.

(* ------------------------------------------------------------------ *)
(* the bit length and the 53-bit cut of {ptr,size} from its two top limbs *)

Definition top_m0 (l : list Z) : Z := ptr_at l (len l - 1).
Definition top_m1 (l : list Z) : Z := if 2 <=? len l then ptr_at l (len l - 2) else 0.

Lemma top_facts l : wf l -> l <> [] -> last l 0 <> 0 ->
  let m0 := top_m0 l in let m1 := top_m1 l in let c := clz m0 in
  let M := (m0 * B + m1) / 2 ^ (64 - c) / 2 ^ 11 in
  limb m0 /\ m0 <> 0 /\ limb m1 /\ 0 < eval l
  /\ Z.log2 (eval l) + 1 = 64 * len l - c
  /\ (if 53 <=? Z.log2 (eval l) + 1 then eval l / 2 ^ (Z.log2 (eval l) + 1 - 53)
      else eval l * 2 ^ (53 - (Z.log2 (eval l) + 1))) = M.
Proof.
  intros Hwf Hne Htop. cbv zeta.
  destruct (exists_last Hne) as (l1 & a0 & E1). subst l.
  rewrite last_snoc in Htop.
  apply wf_app_inv in Hwf. destruct Hwf as [Hw1 Hw0]. apply wf_inv in Hw0. destruct Hw0 as [La0 _].
  assert (Em0 : top_m0 (l1 ++ [a0]) = a0).
  { unfold top_m0. rewrite len_snoc. replace (len l1 + 1 - 1) with (len l1 + 0) by ring.
    rewrite ptr_at_app by lia. reflexivity. }
  rewrite Em0. destruct (clz_bounds a0 La0 Htop) as (Hc & Lo & Hi).
  pose proof B_pos as HB.
  clear Hne. destruct l1 as [|x1 r1].
  - (* a single limb *)
    assert (Em1 : top_m1 ([] ++ [a0]) = 0) by reflexivity.
    rewrite Em1. cbn [app eval]. change (len [a0]) with 1.
    set (c := clz a0) in *. clearbody c. destruct La0 as [A0 A1].
    replace (a0 + B * 0) with a0 by ring. replace (a0 * B + 0) with (a0 * B) by ring.
    assert (Hlog : Z.log2 a0 = 63 - c).
    { apply Z.log2_unique; [lia|]. replace (Z.succ (63 - c)) with (64 - c) by lia. lia. }
    rewrite Hlog.
    split; [split; assumption|]. split; [assumption|]. split; [unfold limb; lia|].
    split; [lia|]. split; [ring|].
    pose proof (pow2_pos (64 - c) ltac:(lia)) as Pk.
    destruct (Z.leb_spec 53 (63 - c + 1)) as [Hbig|Hsmall].
    + (* c <= 11 *)
      replace (63 - c + 1 - 53) with (11 - c) by ring.
      rewrite Z.div_div by (try lia; apply pow2_pos; lia).
      rewrite <- pow2_add by lia. replace (64 - c + 11) with ((11 - c) + 64) by ring.
      rewrite pow2_add by lia. rewrite B_pow.
      rewrite Z.div_mul_cancel_r; [reflexivity| |lia].
      pose proof (pow2_pos (11 - c) ltac:(lia)). lia.
    + replace (53 - (63 - c + 1)) with (c - 11) by ring.
      rewrite Z.div_div by (try lia; apply pow2_pos; lia).
      rewrite <- pow2_add by lia. rewrite B_pow.
      replace 64 with ((c - 11) + (64 - c + 11)) at 1 by ring.
      rewrite pow2_add by lia. rewrite Z.mul_assoc.
      rewrite Z.div_mul; [reflexivity|]. pose proof (pow2_pos (64 - c + 11) ltac:(lia)). lia.
  - (* at least two limbs *)
    assert (Hne1 : x1 :: r1 <> []) by discriminate.
    set (l1 := x1 :: r1) in *. clearbody l1. clear x1 r1.
    destruct (exists_last Hne1) as (lo & a1 & E2). subst l1.
    apply wf_app_inv in Hw1. destruct Hw1 as [Hwlo Hw1]. apply wf_inv in Hw1. destruct Hw1 as [La1 _].
    rewrite <- app_assoc. cbn [app].
    assert (Hlen : len (lo ++ [a1; a0]) = len lo + 2).
    { rewrite len_app. reflexivity. }
    assert (Em1 : top_m1 (lo ++ [a1; a0]) = a1).
    { unfold top_m1. rewrite Hlen. pose proof (len_nonneg lo).
      destruct (Z.leb_spec 2 (len lo + 2)) as [_|C]; [|lia].
      replace (len lo + 2 - 2) with (len lo + 0) by ring. rewrite ptr_at_app by lia. reflexivity. }
    rewrite Em1, Hlen. rewrite eval_app_len. cbn [eval].
    replace (a1 + B * (a0 + B * 0)) with (a0 * B + a1) by ring.
    pose proof (len_nonneg lo) as Hq. set (q := len lo) in *.
    pose proof (eval_nonneg lo Hwlo) as R0. pose proof (eval_lt lo Hwlo) as R1. fold q in R1.
    set (r := eval lo) in *. clearbody r q.
    rewrite (Bpow_as_2pow q Hq) in *.
    set (c := clz a0) in *. clearbody c. destruct La0 as [A0 A1], La1 as [C0 C1].
    set (T := a0 * B + a1).
    pose proof (pow2_pos (64 * q) ltac:(lia)) as Pq.
    assert (T1 : 2 ^ (127 - c) <= T < 2 ^ (127 - c + 1)).
    { unfold T. replace (127 - c + 1) with ((64 - c) + 64) by ring.
      replace (127 - c) with ((63 - c) + 64) by ring. rewrite !pow2_add by lia.
      rewrite <- B_pow. split; nia. }
    assert (Hlog : Z.log2 (r + 2 ^ (64 * q) * T) = 64 * q + (127 - c)).
    { apply (log2_sandwich _ T); lia. }
    rewrite Hlog.
    split; [split; assumption|]. split; [assumption|]. split; [split; assumption|].
    assert (Tpos : 0 < T) by (pose proof (pow2_pos (127 - c) ltac:(lia)); lia).
    split; [nia|]. split; [ring|].
    destruct (Z.leb_spec 53 (64 * q + (127 - c) + 1)) as [_|C]; [|lia].
    replace (64 * q + (127 - c) + 1 - 53) with (64 * q + ((64 - c) + 11)) by ring.
    rewrite (pow2_add (64 * q)) by lia. rewrite (pow2_add (64 - c)) by lia.
    pose proof (pow2_pos (64 - c) ltac:(lia)) as Pk.
    rewrite <- Z.div_div by (try lia; nia).
    replace ((r + 2 ^ (64 * q) * T) / 2 ^ (64 * q)) with T.
    2:{ rewrite Z.mul_comm, Z.div_add by lia. rewrite Z.div_small by lia. reflexivity. }
    rewrite Z.div_div by lia. reflexivity.
Qed.

Lemma top_M_bounds m0 m1 : limb m0 -> m0 <> 0 -> limb m1 ->
  2 ^ 52 <= (m0 * B + m1) / 2 ^ (64 - clz m0) / 2 ^ 11 < 2 ^ 53.
Proof.
  intros H0 Hn H1. pose proof (get_d_norm_bounds m0 m1 H0 Hn H1) as [X0 X1].
  set (X := (m0 * B + m1) / 2 ^ (64 - clz m0)) in *. clearbody X.
  change (2 ^ 63) with (2 ^ 11 * 2 ^ 52) in X0. change (2 ^ 64) with (2 ^ 11 * 2 ^ 53) in X1.
  split; [apply Z.div_le_lower_bound|apply Z.div_lt_upper_bound]; lia.
Qed.

(* ------------------------------------------------------------------ *)
(* the union store                                                      *)

Lemma get_d_store_spec m E sign : 0 <= m < 2 ^ 53 -> 0 <= E + 1023 < 2048 ->
  get_d_store m E sign = (if sign <? 0 then 2 ^ 63 else 0) + (E + 1023) * 2 ^ 52 + m mod 2 ^ 52.
Proof.
  intros Hm HE. unfold get_d_store, ieee_pack. rewrite Z.shiftr_div_pow2 by lia.
  change (2 ^ 11) with 2048. rewrite (Z.mod_small (E + 1023)) by lia.
  assert (Es : b2z (sign <? 0) mod 2 * 2 ^ 63 = if sign <? 0 then 2 ^ 63 else 0).
  { destruct (sign <? 0); reflexivity. }
  rewrite Es.
  change (2 ^ 53) with 9007199254740992 in Hm. change (2 ^ 32) with 4294967296.
  change (2 ^ 20) with 1048576. change (2 ^ 52) with 4503599627370496.
  assert (Em : m mod 4294967296 + m / 4294967296 mod 1048576 * 4294967296 = m mod 4503599627370496).
  { Z.div_mod_to_equations. lia. }
  lia.
Qed.

Lemma get_d_store_inf sign : get_d_store 0 1024 sign = inf_bits (sign <? 0).
Proof. unfold get_d_store, inf_bits. destruct (sign <? 0); reflexivity. Qed.

(* ------------------------------------------------------------------ *)
(* the value-level function in terms of (M, e)                          *)

Lemma get_d_bits_unfold mag neg exp M e : mag <> 0 -> e = exp + Z.log2 mag ->
  (if 53 <=? Z.log2 mag + 1 then mag / 2 ^ (Z.log2 mag + 1 - 53)
   else mag * 2 ^ (53 - (Z.log2 mag + 1))) = M ->
  get_d_bits mag neg exp =
    let s := if neg then 2 ^ 63 else 0 in
    if 1024 <=? e then inf_bits neg
    else if e <=? -1023 then (if e <=? -1075 then 0 else s + M / 2 ^ (-1022 - e))
    else s + (e + 1023) * 2 ^ 52 + (M - 2 ^ 52).
Proof.
  intros Hn He HM. unfold get_d_bits. destruct (Z.eqb_spec mag 0) as [C|_]; [contradiction|].
  cbv zeta. rewrite HM. replace (exp + (Z.log2 mag + 1) - 1) with e by lia. reflexivity.
Qed.

(* ------------------------------------------------------------------ *)
(* MAIN THEOREM 1: mpn_get_d                                            *)

Theorem mpn_get_d_c_correct : forall l sign exp,
  wf l -> l <> [] -> last l 0 <> 0 -> len l < 2 ^ 57 -> - 2 ^ 63 <= exp < 2 ^ 63 ->
  mpn_get_d_c l (len l) sign exp = get_d_bits (eval l) (sign <? 0) exp.
Proof.
  intros l sign exp Hwf Hne Htop Hlen Hexp.
  destruct (top_facts l Hwf Hne Htop) as (L0 & N0 & L1 & Hpos & HL & HM). cbv zeta in HL, HM.
  pose proof (top_M_bounds _ _ L0 N0 L1) as HMb.
  pose proof (get_d_norm (top_m0 l) (top_m1 l) L0 N0 L1) as Hnorm.
  destruct (clz_bounds _ L0 N0) as (Hc & _).
  assert (Hlen0 : 0 < len l).
  { pose proof (len_nonneg l). destruct (Z.eq_dec (len l) 0) as [E|E]; [|lia].
    apply len_0_nil in E. contradiction. }
  rewrite (get_d_bits_unfold (eval l) (sign <? 0) exp _ (exp + 64 * len l - (clz (top_m0 l) + 1))
             ltac:(lia) ltac:(lia) HM).
  unfold mpn_get_d_c. fold (top_m0 l). fold (top_m1 l). cbv zeta.
  destruct (Z.eqb_spec (len l) 0) as [C|_]; [lia|].
  change (2 ^ 57) with 144115188075855872 in Hlen.
  change (2 ^ 63) with 9223372036854775808 in Hexp.
  unfold LONG_MAX. change (2 ^ 63 - 1) with 9223372036854775807.
  rewrite !wrap_small by (rewrite B_val; lia).
  set (e := exp + 64 * len l - (clz (top_m0 l) + 1)).
  destruct (Z.ltb_spec (9223372036854775807 - exp) (64 * len l)) as [Hov|Hok].
  - (* GMP_NUMB_BITS * size > LONG_MAX - exp: infinity *)
    rewrite get_d_store_inf.
    destruct (Z.leb_spec 1024 e) as [_|C]; [reflexivity|unfold e in C; lia].
  - rewrite Hnorm. rewrite (lsr64_div _ 11) by lia.
    set (M := (top_m0 l * B + top_m1 l) / 2 ^ (64 - clz (top_m0 l)) / 2 ^ 11) in *. clearbody M.
    destruct (Z.leb_spec 1024 e) as [Hinf|Hfin].
    + apply get_d_store_inf.
    + change (-1022 - 53) with (-1075).
      destruct (Z.leb_spec e (-1023)) as [Hden|Hnorm'].
      * destruct (Z.leb_spec e (-1075)) as [Hz|Hnz]; [reflexivity|].
        rewrite lsr64_div by lia.
        assert (P : 0 < 2 ^ (-1022 - e)) by (apply pow2_pos; lia).
        assert (Hd : 0 <= M / 2 ^ (-1022 - e) < 2 ^ 52).
        { split; [apply Z.div_pos; lia|]. apply Z.div_lt_upper_bound; [lia|].
          assert (2 <= 2 ^ (-1022 - e)).
          { change 2 with (2 ^ 1) at 1. apply pow2_le. lia. }
          change (2 ^ 53) with (2 * 2 ^ 52) in HMb. nia. }
        rewrite get_d_store_spec by (change (2 ^ 53) with (2 * 2 ^ 52); lia).
        rewrite Z.mod_small by lia. lia.
      * rewrite get_d_store_spec by lia.
        assert (Em : M mod 2 ^ 52 = M - 2 ^ 52).
        { symmetry. apply Z.mod_unique with (q := 1); [|ring].
          change (2 ^ 53) with (2 * 2 ^ 52) in HMb. lia. }
        rewrite Em. reflexivity.
Qed.

(* ------------------------------------------------------------------ *)
(* MAIN THEOREMS 2, 3: mpz_get_d and mpz_get_d_2exp                     *)

Lemma mpz_wf_nonzero z : mpz_wf z -> sz z <> 0 ->
  Z.abs (sz z) = len (d z) /\ wf (d z) /\ d z <> [] /\ last (d z) 0 <> 0 /\ 0 < eval (d z)
  /\ Z.abs (value z) = eval (d z) /\ (value z <? 0) = (sz z <? 0).
Proof.
  intros (Hl & Hw & Hn) Hs.
  assert (Hne : d z <> []).
  { intros E. rewrite E in Hl. change (len []) with 0 in Hl. lia. }
  assert (Hlast : last (d z) 0 <> 0) by (destruct Hn as [C|C]; [contradiction|exact C]).
  destruct (top_facts (d z) Hw Hne Hlast) as (_ & _ & _ & Hpos & _).
  split; [exact Hl|]. split; [exact Hw|]. split; [exact Hne|]. split; [exact Hlast|].
  split; [exact Hpos|]. unfold value.
  destruct (sgn_cases (sz z)) as [[S1 ->]|[[S1 ->]|[S1 ->]]]; [|lia|].
  - split; [lia|]. destruct (Z.ltb_spec (-1 * eval (d z)) 0), (Z.ltb_spec (sz z) 0); try reflexivity; lia.
  - split; [lia|]. destruct (Z.ltb_spec (1 * eval (d z)) 0), (Z.ltb_spec (sz z) 0); try reflexivity; lia.
Qed.

Theorem mpz_get_d_c_correct : forall z, mpz_wf z -> len (d z) < 2 ^ 57 ->
  mpz_get_d_c z = ConvDefs.mpz_get_d (value z).
Proof.
  intros z Hz Hlen. unfold mpz_get_d_c. cbv zeta.
  destruct (Z.eqb_spec (sz z) 0) as [E|N].
  - unfold value. rewrite E. reflexivity.
  - destruct (mpz_wf_nonzero z Hz N) as (Hl & Hw & Hne & Hlast & Hpos & Habs & Hsgn).
    rewrite Hl. rewrite mpn_get_d_c_correct by (try assumption; lia).
    unfold ConvDefs.mpz_get_d. rewrite Habs, Hsgn. reflexivity.
Qed.

Theorem mpz_get_d_2exp_c_correct : forall z, mpz_wf z -> len (d z) < 2 ^ 57 ->
  mpz_get_d_2exp_c z = ConvDefs.mpz_get_d_2exp (value z).
Proof.
  intros z Hz Hlen. unfold mpz_get_d_2exp_c, ConvDefs.mpz_get_d_2exp. cbv zeta.
  destruct (Z.eqb_spec (sz z) 0) as [E|N].
  - unfold value. rewrite E. reflexivity.
  - destruct (mpz_wf_nonzero z Hz N) as (Hl & Hw & Hne & Hlast & Hpos & Habs & Hsgn).
    destruct (Z.eqb_spec (value z) 0) as [C|_]; [rewrite C in Habs; cbn in Habs; lia|].
    destruct (top_facts (d z) Hw Hne Hlast) as (L0 & N0 & _ & _ & HL & _). cbv zeta in HL.
    destruct (clz_bounds _ L0 N0) as (Hc & _).
    rewrite Hl, Habs, Hsgn. fold (top_m0 (d z)). rewrite HL.
    replace (len (d z) * 64 - clz (top_m0 (d z))) with (64 * len (d z) - clz (top_m0 (d z))) by ring.
    assert (Hlen0 : 0 < len (d z)).
    { pose proof (len_nonneg (d z)). destruct (Z.eq_dec (len (d z)) 0) as [E|E]; [|lia].
      apply len_0_nil in E. contradiction. }
    change (2 ^ 57) with 144115188075855872 in Hlen.
    rewrite mpn_get_d_c_correct; [reflexivity|assumption|assumption|assumption| |].
    + change (2 ^ 57) with 144115188075855872. exact Hlen.
    + change (2 ^ 63) with 9223372036854775808. lia.
Qed.

(* ------------------------------------------------------------------ *)
(* the fields of a double                                               *)

Lemma land_ones_mod x n : 0 <= n -> Z.land x (2 ^ n - 1) = x mod 2 ^ n.
Proof.
  intros Hn. replace (2 ^ n - 1) with (Z.ones n) by (rewrite Z.ones_equiv; lia).
  apply Z.land_ones. exact Hn.
Qed.

Lemma ieee_fields bits : 0 <= bits < 2 ^ 64 ->
  ieee_manl bits = bits mod 2 ^ 32 /\ ieee_manh bits = (bits / 2 ^ 32) mod 2 ^ 20
  /\ ieee_exp bits = (bits / 2 ^ 52) mod 2 ^ 11 /\ ieee_sig bits = bits / 2 ^ 63
  /\ Z.land bits (2 ^ 63 - 1) = bits mod 2 ^ 63.
Proof.
  intros Hb. unfold ieee_manl, ieee_manh, ieee_exp, ieee_sig.
  rewrite !Z.shiftr_div_pow2 by lia.
  assert (Es : Z.land (bits / 2 ^ 63) 1 = bits / 2 ^ 63).
  { change 1 with (Z.ones 1). rewrite Z.land_ones by lia. change (2 ^ 1) with 2.
    change (2 ^ 64) with (2 ^ 63 * 2) in Hb.
    apply Z.mod_small. split; [apply Z.div_pos; lia|apply Z.div_lt_upper_bound; lia]. }
  rewrite Es. rewrite !land_ones_mod by lia. repeat split.
Qed.

Lemma decode_fields bits : 0 <= bits < 2 ^ 64 ->
  decode_double bits =
    let neg := 0 <? bits / 2 ^ 63 in
    let ex := (bits / 2 ^ 52) mod 2 ^ 11 in
    let man := bits mod 2 ^ 52 in
    if ex =? 2047 then (if man =? 0 then DInf neg else DNan)
    else if ex =? 0 then DFin neg man (-1074)
    else DFin neg (man + 2 ^ 52) (ex - 1075).
Proof.
  intros Hb. destruct (ieee_fields bits Hb) as (_ & _ & He & Hs & _).
  unfold ieee_exp, ieee_sig in He, Hs. unfold decode_double.
  change (2 ^ 11 - 1) with 2047 in He. cbv zeta. rewrite !He, !Hs. rewrite land_ones_mod by lia. reflexivity.
Qed.

(* manl = (1 << 63) | (manh << 43) | (manl << 11) *)
Lemma extract_manl a : 0 <= a < 2 ^ 63 ->
  Z.lor (Z.lor (lsl64 1 63) (lsl64 (ieee_manh a) 43)) (lsl64 (ieee_manl a) 11)
  = 2 ^ 63 + (a mod 2 ^ 52) * 2 ^ 11.
Proof.
  intros Ha. destruct (ieee_fields a ltac:(change (2 ^ 64) with (2 * 2 ^ 63); lia)) as (E1 & E2 & _).
  rewrite E1, E2. rewrite !lsl64_mul by lia. rewrite B_val.
  set (h := (a / 2 ^ 32) mod 2 ^ 20). set (w := a mod 2 ^ 32).
  assert (Hh : 0 <= h < 2 ^ 20) by (apply Z.mod_pos_bound; lia).
  assert (Hw : 0 <= w < 2 ^ 32) by (apply Z.mod_pos_bound; lia).
  assert (Em : a mod 2 ^ 52 = h * 2 ^ 32 + w).
  { unfold h, w. change (2 ^ 52) with 4503599627370496. change (2 ^ 32) with 4294967296.
    change (2 ^ 20) with 1048576. Z.div_mod_to_equations. lia. }
  rewrite Em. clearbody h w.
  change (2 ^ 20) with 1048576 in Hh. change (2 ^ 32) with 4294967296 in *.
  change (2 ^ 63) with 9223372036854775808. change (2 ^ 43) with 8796093022208.
  change (2 ^ 11) with 2048.
  rewrite !Z.mod_small by lia.
  rewrite (lor_add_disjoint (1 * 9223372036854775808) (h * 8796093022208) 63);
    [|lia|change (2 ^ 63) with 9223372036854775808; lia|reflexivity].
  rewrite (lor_add_disjoint _ (w * 2048) 43);
    [ring|lia|change (2 ^ 43) with 8796093022208; lia|].
  change (2 ^ 43) with 8796093022208. Z.div_mod_to_equations. lia.
Qed.

Lemma land_highbit v : limb v -> (Z.land v LIMB_HIGHBIT =? 0) = (v <? 2 ^ 63).
Proof.
  intros [H0 H1]. unfold LIMB_HIGHBIT. rewrite B_pow in H1.
  destruct (Z.ltb_spec v (2 ^ 63)) as [Hlt|Hge].
  - apply Z.eqb_eq. apply Z.bits_inj'. intros n Hn.
    rewrite Z.land_spec, Z.bits_0, Z.pow2_bits_eqb by lia.
    destruct (Z.eqb_spec 63 n) as [E|E]; [|apply andb_false_r].
    subst n. rewrite andb_true_r.
    destruct (Z.eq_dec v 0) as [Ev|Ev]; [subst v; apply Z.bits_0|].
    apply Z.bits_above_log2; [lia|]. apply Z.log2_lt_pow2; lia.
  - apply Z.eqb_neq. intros E.
    assert (T : Z.testbit (Z.land v (2 ^ 63)) 63 = true).
    { rewrite Z.land_spec, Z.pow2_bits_eqb, Z.eqb_refl, andb_true_r by lia.
      apply Z.testbit_true; [lia|].
      change (2 ^ 64) with (2 * 2 ^ 63) in H1.
      assert (Eq : v / 2 ^ 63 = 1).
      { symmetry. apply Z.div_unique with (r := v - 2 ^ 63); lia. }
      rewrite Eq. reflexivity. }
    rewrite E, Z.bits_0 in T. discriminate.
Qed.

(* the denormal loop shifts the non-zero low 63 bits y of manl up to bit 63 *)
Lemma denorm_loop_spec : forall fuel x exp, limb x -> x mod 2 ^ 63 <> 0 ->
  63 - Z.log2 (x mod 2 ^ 63) <= Z.of_nat fuel ->
  denorm_loop fuel x exp =
    ((x mod 2 ^ 63) * 2 ^ (63 - Z.log2 (x mod 2 ^ 63)), exp - (63 - Z.log2 (x mod 2 ^ 63))).
Proof.
  induction fuel as [|f IH]; intros x exp Hx Hy Hf.
  - exfalso. assert (Hyb : 0 <= x mod 2 ^ 63 < 2 ^ 63) by (apply Z.mod_pos_bound; lia).
    assert (Z.log2 (x mod 2 ^ 63) < 63) by (apply Z.log2_lt_pow2; lia).
    change (Z.of_nat 0) with 0 in Hf. lia.
  - set (y := x mod 2 ^ 63) in *.
    assert (Hyb : 0 < y < 2 ^ 63) by (pose proof (Z.mod_pos_bound x (2 ^ 63) ltac:(lia)); unfold y in *; lia).
    assert (Hlg : 0 <= Z.log2 y < 63).
    { split; [apply Z.log2_nonneg|apply Z.log2_lt_pow2; lia]. }
    destruct (Z.log2_spec y ltac:(lia)) as [Lo Hi].
    cbn [denorm_loop]. rewrite lsl64_mul by lia. change (2 ^ 1) with 2.
    assert (E2 : (x * 2) mod B = 2 * y).
    { unfold y. destruct Hx as [X0 X1]. rewrite B_val in *.
      change (2 ^ 63) with 9223372036854775808. Z.div_mod_to_equations. lia. }
    rewrite E2. change (2 ^ 63) with 9223372036854775808 in Hyb.
    rewrite land_highbit by (unfold limb; rewrite B_val; lia).
    destruct (Z.ltb_spec (2 * y) (2 ^ 63)) as [Hsm|Hbig].
    + (* another turn *)
      assert (Ey : (2 * y) mod 2 ^ 63 = 2 * y) by (apply Z.mod_small; lia).
      assert (El : Z.log2 (2 * y) = Z.log2 y + 1).
      { apply Z.log2_unique; [lia|]. unfold Z.succ in *.
        rewrite (pow2_add _ 1) in Hi by lia.
        rewrite !(pow2_add _ 1) by lia. change (2 ^ 1) with 2 in *. lia. }
      rewrite IH.
      * rewrite Ey, El. f_equal; [|ring].
        replace (63 - Z.log2 y) with ((63 - (Z.log2 y + 1)) + 1) by ring.
        rewrite (pow2_add _ 1) by lia. change (2 ^ 1) with 2. ring.
      * unfold limb. rewrite B_val. change (2 ^ 63) with 9223372036854775808 in Hsm. lia.
      * rewrite Ey. lia.
      * rewrite Ey, El. lia.
    + (* the high bit is reached *)
      assert (El : Z.log2 y = 62).
      { apply Z.log2_unique; [lia|]. change (2 ^ Z.succ 62) with (2 ^ 63).
        change (2 ^ 63) with (2 * 2 ^ 62) in Hbig.
        change (2 ^ 63) with 9223372036854775808. lia. }
      rewrite El. change (63 - 62) with 1. change (2 ^ 1) with 2. f_equal. ring.
Qed.

(* ------------------------------------------------------------------ *)
(* __gmp_extract_double                                                 *)

Lemma extract_shift manl sc : 2 ^ 63 <= manl < 2 ^ 64 -> 0 < sc < 64 ->
  limb (lsl64 manl sc) /\ limb (lsr64 manl (64 - sc)) /\ lsr64 manl (64 - sc) <> 0
  /\ lsl64 manl sc + B * lsr64 manl (64 - sc) = manl * 2 ^ sc.
Proof.
  intros Hm Hsc. rewrite lsl64_mul by lia. rewrite lsr64_div by lia.
  pose proof (B_split sc ltac:(lia)) as HB.
  pose proof (pow2_pos (64 - sc) ltac:(lia)) as Pk. pose proof (pow2_pos sc ltac:(lia)) as Ps.
  pose proof (pow2_le (64 - sc) 63 ltac:(lia)) as Pk63.
  pose proof (Z.div_mod manl (2 ^ (64 - sc)) ltac:(lia)) as Hdm.
  pose proof (Z.mod_pos_bound manl (2 ^ (64 - sc)) ltac:(lia)) as Hr.
  set (P := 2 ^ (64 - sc)) in *. set (Q := 2 ^ sc) in *.
  set (q := manl / P) in *. set (r := manl mod P) in *. clearbody q r P Q.
  rewrite <- B_pow in Hm. pose proof B_pos as HBp.
  assert (Hq : 0 < q < Q) by nia.
  assert (Em : (manl * Q) mod B = r * Q).
  { symmetry. apply Z.mod_unique with (q := q); [nia|]. rewrite Hdm, HB. ring. }
  rewrite Em. unfold limb. repeat split; try nia.
Qed.

Lemma extract_limbs_spec manl t m u0 : 2 ^ 63 <= manl < 2 ^ 64 -> manl = m * 2 ^ u0 -> 0 <= u0 ->
  -4096 < t < 4096 ->
  exists lo hi rn u, extract_limbs manl t = ([lo; hi], rn) /\ limb lo /\ limb hi /\ hi <> 0
    /\ 0 <= u /\ lo + B * hi = m * 2 ^ u /\ 64 * (rn - 2) + u = u0 + t - 64.
Proof.
  intros Hm Em Hu0 Ht. unfold extract_limbs. cbv zeta.
  change (64 * 64) with 4096. change (4096 / 64) with 64. change (2 ^ 32) with 4294967296.
  rewrite (Z.mod_small (t + 4096)) by lia.
  rewrite Z.quot_div_nonneg by lia.
  pose proof (Z.div_mod (t + 4096) 64 ltac:(lia)) as Hdm.
  pose proof (Z.mod_pos_bound (t + 4096) 64 ltac:(lia)) as Hsc.
  set (sc := (t + 4096) mod 64) in *. set (qq := (t + 4096) / 64) in *. clearbody sc qq.
  destruct (Z.eqb_spec sc 0) as [E0|N0]; cbn [negb].
  - exists 0, manl, (qq - 64 + 1 - 1), (u0 + 64). split; [reflexivity|].
    split; [unfold limb; pose proof B_pos; lia|]. split; [unfold limb; rewrite B_pow; lia|].
    split; [lia|]. split; [lia|]. split; [|lia].
    rewrite pow2_add by lia. rewrite <- B_pow. rewrite Em. ring.
  - destruct (extract_shift manl sc Hm ltac:(lia)) as (L1 & L2 & Hn & Es).
    exists (lsl64 manl sc), (lsr64 manl (64 - sc)), (qq - 64 + 1), (u0 + sc).
    split; [reflexivity|]. split; [exact L1|]. split; [exact L2|]. split; [exact Hn|].
    split; [lia|]. split; [|lia].
    rewrite Es, Em. rewrite pow2_add by lia. ring.
Qed.

Lemma extract_double_c_fields a : 0 < a < 2 ^ 63 ->
  let ex := a / 2 ^ 52 in let man := a mod 2 ^ 52 in
  let m := if ex =? 0 then man else man + 2 ^ 52 in
  let e := if ex =? 0 then -1074 else ex - 1075 in
  exists lo hi rn u, extract_double_c a = ([lo; hi], rn) /\ limb lo /\ limb hi /\ hi <> 0
    /\ 0 <= u /\ lo + B * hi = m * 2 ^ u /\ 64 * (rn - 2) + u = e.
Proof.
  intros Ha. cbv zeta.
  destruct (ieee_fields a ltac:(change (2 ^ 64) with (2 * 2 ^ 63); lia)) as (_ & _ & Ee & _ & El).
  assert (Hex : 0 <= a / 2 ^ 52 < 2 ^ 11).
  { split; [apply Z.div_pos; lia|apply Z.div_lt_upper_bound; [lia|]].
    change (2 ^ 52 * 2 ^ 11) with (2 ^ 63). lia. }
  rewrite (Z.mod_small (a / 2 ^ 52)) in Ee by lia.
  rewrite (Z.mod_small a (2 ^ 63)) in El by lia.
  unfold extract_double_c. rewrite El, Ee.
  destruct (Z.eqb_spec a 0) as [C|_]; [lia|]. cbv zeta.
  rewrite extract_manl by lia.
  pose proof (Z.mod_pos_bound a (2 ^ 52) ltac:(lia)) as Hman.
  pose proof (Z.div_mod a (2 ^ 52) ltac:(lia)) as Hdm.
  set (ex := a / 2 ^ 52) in *. set (man := a mod 2 ^ 52) in *.
  destruct (Z.eqb_spec ex 0) as [E0|N0].
  - (* denormal *)
    assert (Hman0 : 0 < man) by lia.
    assert (Ey : (2 ^ 63 + man * 2 ^ 11) mod 2 ^ 63 = man * 2 ^ 11).
    { change (2 ^ 63) with 9223372036854775808. change (2 ^ 11) with 2048.
      change (2 ^ 52) with 4503599627370496 in Hman. Z.div_mod_to_equations. lia. }
    assert (Elog : Z.log2 (man * 2 ^ 11) = 11 + Z.log2 man) by (apply Z.log2_mul_pow2; lia).
    assert (Hlg : 0 <= Z.log2 man < 52).
    { split; [apply Z.log2_nonneg|apply Z.log2_lt_pow2; lia]. }
    destruct (Z.log2_spec man Hman0) as [Lo Hi].
    rewrite denorm_loop_spec.
    + rewrite Ey, Elog.
      replace (63 - (11 + Z.log2 man)) with (52 - Z.log2 man) by ring.
      set (j := 52 - Z.log2 man).
      assert (E63 : 2 ^ 63 = 2 ^ Z.log2 man * 2 ^ 11 * 2 ^ j).
      { rewrite <- !pow2_add by (unfold j; lia). f_equal. unfold j. ring. }
      assert (E64 : 2 ^ 64 = 2 ^ Z.succ (Z.log2 man) * 2 ^ 11 * 2 ^ j).
      { rewrite <- !pow2_add by (unfold j; lia). f_equal. unfold j, Z.succ. ring. }
      pose proof (pow2_pos j ltac:(unfold j; lia)) as Pj.
      destruct (extract_limbs_spec (man * 2 ^ 11 * 2 ^ j) (1 - j - 1022) man (11 + j))
        as (lo & hi & rn & u & E & H1 & H2 & H3 & H4 & H5 & H6).
      * rewrite E63, E64. change (2 ^ 11) with 2048. nia.
      * rewrite pow2_add by (unfold j; lia). ring.
      * unfold j. lia.
      * unfold j. lia.
      * exists lo, hi, rn, u. split; [exact E|]. repeat (split; [assumption|]).
        unfold j in *. lia.
    + unfold limb. rewrite B_val. change (2 ^ 63) with 9223372036854775808.
      change (2 ^ 11) with 2048. change (2 ^ 52) with 4503599627370496 in Hman. lia.
    + rewrite Ey. change (2 ^ 11) with 2048. lia.
    + rewrite Ey, Elog. change (Z.of_nat 64) with 64. lia.
  - (* normal *)
    destruct (extract_limbs_spec (2 ^ 63 + man * 2 ^ 11) (ex - 1022) (man + 2 ^ 52) 11)
      as (lo & hi & rn & u & E & H1 & H2 & H3 & H4 & H5 & H6).
    + change (2 ^ 63) with 9223372036854775808. change (2 ^ 11) with 2048.
      change (2 ^ 64) with 18446744073709551616. change (2 ^ 52) with 4503599627370496 in Hman. lia.
    + change (2 ^ 63) with (2 ^ 52 * 2 ^ 11). ring.
    + lia.
    + change (2 ^ 11) with 2048 in Hex. lia.
    + exists lo, hi, rn, u. split; [exact E|]. repeat (split; [assumption|]). lia.
Qed.

(* MAIN THEOREM 4: __gmp_extract_double decomposes a positive finite double exactly:
   d = m * 2^e = {rp,2} * B^(rn-2), with the high limb non-zero; zero gives {0,0} and 0 *)
Theorem extract_double_c_correct : forall bits m e,
  0 <= bits < 2 ^ 63 -> decode_double bits = DFin false m e ->
  (m = 0 -> extract_double_c bits = ([0; 0], 0))
  /\ (m <> 0 -> exists lo hi rn u, extract_double_c bits = ([lo; hi], rn)
        /\ limb lo /\ limb hi /\ hi <> 0 /\ 0 <= u /\ eval [lo; hi] = m * 2 ^ u /\ e = 64 * (rn - 2) + u).
Proof.
  intros bits m e Hb Hd.
  rewrite decode_fields in Hd by (change (2 ^ 64) with (2 * 2 ^ 63); lia). cbv zeta in Hd.
  assert (Hex : 0 <= bits / 2 ^ 52 < 2 ^ 11).
  { split; [apply Z.div_pos; lia|apply Z.div_lt_upper_bound; [lia|]].
    change (2 ^ 52 * 2 ^ 11) with (2 ^ 63). lia. }
  rewrite (Z.mod_small (bits / 2 ^ 52)) in Hd by lia.
  pose proof (Z.mod_pos_bound bits (2 ^ 52) ltac:(lia)) as Hman.
  pose proof (Z.div_mod bits (2 ^ 52) ltac:(lia)) as Hdm.
  destruct (Z.eqb_spec (bits / 2 ^ 52) 2047) as [C|_].
  { destruct (bits mod 2 ^ 52 =? 0); discriminate. }
  split.
  - intros Hm0.
    assert (E0 : bits = 0).
    { destruct (Z.eqb_spec (bits / 2 ^ 52) 0) as [E0|N0]; inversion Hd; subst; lia. }
    subst bits. reflexivity.
  - intros Hmn.
    assert (Hpos : 0 < bits).
    { destruct (Z.eq_dec bits 0) as [E0|N0]; [|lia]. subst bits. cbn in Hd. inversion Hd. subst. lia. }
    destruct (extract_double_c_fields bits ltac:(lia)) as (lo & hi & rn & u & E & H1 & H2 & H3 & H4 & H5 & H6).
    cbv zeta in H5, H6.
    exists lo, hi, rn, u. split; [exact E|]. repeat (split; [assumption|]).
    cbn [eval]. replace (lo + B * (hi + B * 0)) with (lo + B * hi) by ring.
    destruct (Z.eqb_spec (bits / 2 ^ 52) 0) as [E0|N0]; inversion Hd; subst; split; lia.
Qed.

(* ------------------------------------------------------------------ *)
(* mpz_set_d                                                            *)

(* the limbs stored by the switch of mpz_set_d *)
Lemma set_d_limbs lo hi rn u m e : limb lo -> limb hi -> hi <> 0 -> 0 <= u -> 0 < m ->
  lo + B * hi = m * 2 ^ u -> 64 * (rn - 2) + u = e ->
  let rn' := if rn <=? 0 then 0 else rn in
  let rp := if rn' =? 0 then []
            else if rn' =? 1 then [hi]
            else if rn' =? 2 then [lo; hi]
            else repeat 0 (Z.to_nat (rn' - 2)) ++ [lo; hi] in
  0 <= rn' /\ len rp = rn' /\ wf rp /\ normalized rp
  /\ eval rp = (if 0 <=? e then m * 2 ^ e else m / 2 ^ (- e)).
Proof.
  intros Llo Lhi Hn Hu Hm Ev He. cbv zeta.
  assert (Hwf2 : wf [lo; hi]) by (apply wf_cons; [exact Llo|apply wf_cons; [exact Lhi|apply wf_nil]]).
  assert (Hnorm2 : normalized [lo; hi]) by (right; exact Hn).
  destruct Llo as [A0 A1], Lhi as [C0 C1]. rewrite B_val in *.
  pose proof (pow2_pos u Hu) as Pu.
  assert (Hrange : 2 ^ 64 <= m * 2 ^ u < 2 ^ 128).
  { change (2 ^ 64) with 18446744073709551616.
    change (2 ^ 128) with (18446744073709551616 * 18446744073709551616). lia. }
  assert (Hu128 : u < 128).
  { destruct (Z_lt_dec u 128) as [Y|N]; [exact Y|exfalso].
    pose proof (pow2_le 128 u ltac:(lia)). nia. }
  destruct (Z.leb_spec rn 0) as [Hle|Hgt].
  - (* everything below the radix point *)
    change (0 =? 0) with true. cbv iota.
    split; [lia|]. split; [reflexivity|]. split; [apply wf_nil|]. split; [left; reflexivity|].
    cbn [eval].
    destruct (Z.leb_spec 0 e) as [C|He0]; [lia|].
    symmetry. apply Z.div_small. split; [lia|].
    assert (Hp : 2 ^ (128 - u) <= 2 ^ (- e)) by (apply pow2_le; lia).
    assert (E128 : 2 ^ 128 = 2 ^ (128 - u) * 2 ^ u).
    { rewrite <- pow2_add by lia. f_equal. ring. }
    pose proof (pow2_pos (128 - u) ltac:(lia)). nia.
  - destruct (Z.eqb_spec rn 0) as [C|_]; [lia|].
    destruct (Z.eqb_spec rn 1) as [E1|N1].
    + (* one limb: the high limb of tp *)
      split; [lia|]. split; [subst rn; reflexivity|].
      split; [apply wf_cons; [unfold limb; rewrite B_val; lia|apply wf_nil]|].
      split; [right; exact Hn|]. cbn [eval]. rewrite B_val.
      assert (Ee : e = u - 64) by lia.
      destruct (Z.leb_spec 0 e) as [He0|He0].
      * assert (E2 : 2 ^ u = 2 ^ e * 18446744073709551616).
        { change 18446744073709551616 with (2 ^ 64). rewrite <- pow2_add by lia. f_equal. lia. }
        rewrite E2 in Ev. set (X := 2 ^ e) in *. clearbody X.
        assert (m * (X * 18446744073709551616) = (m * X) * 18446744073709551616) as E3 by ring.
        rewrite E3 in Ev. set (Y := m * X) in *. clearbody Y. lia.
      * assert (E2 : 18446744073709551616 = 2 ^ (- e) * 2 ^ u).
        { change 18446744073709551616 with (2 ^ 64). rewrite <- pow2_add by lia. f_equal. lia. }
        pose proof (pow2_pos (- e) ltac:(lia)) as Pe.
        assert (E3 : m / 2 ^ (- e) = (m * 2 ^ u) / (2 ^ (- e) * 2 ^ u)).
        { symmetry. apply Z.div_mul_cancel_r; lia. }
        rewrite E3, <- E2, <- Ev.
        replace (hi + 18446744073709551616 * 0) with hi by ring.
        apply Z.div_unique with (r := lo); lia.
    + destruct (Z.eqb_spec rn 2) as [E2|N2].
      * split; [lia|]. split; [subst rn; reflexivity|]. split; [exact Hwf2|]. split; [exact Hnorm2|].
        cbn [eval]. rewrite B_val.
        destruct (Z.leb_spec 0 e) as [He0|He0]; [|lia].
        replace e with u by lia. lia.
      * (* low zero limbs below the two limbs of tp *)
        assert (Hk : 0 < rn - 2) by lia.
        assert (Hlenr : len (repeat 0 (Z.to_nat (rn - 2))) = rn - 2).
        { unfold len. rewrite repeat_length. apply Z2Nat.id. lia. }
        split; [lia|]. split; [rewrite len_app, Hlenr; change (len [lo; hi]) with 2; ring|].
        split; [apply wf_app; [apply wf_repeat; exact limb_0|exact Hwf2]|].
        split; [apply normalized_app_r; [discriminate|exact Hnorm2]|].
        rewrite eval_app_len, eval_repeat0, Hlenr.
        rewrite (Bpow_as_2pow (rn - 2)) by lia. cbn [eval]. rewrite B_val.
        destruct (Z.leb_spec 0 e) as [He0|He0]; [|lia].
        replace e with (64 * (rn - 2) + u) by lia. rewrite pow2_add by lia.
        replace (lo + 18446744073709551616 * (hi + 18446744073709551616 * 0))
          with (lo + 18446744073709551616 * hi) by ring.
        rewrite Ev. ring.
Qed.

Lemma mpz_set_d_c_zero bits : 0 <= bits < 2 ^ 64 -> bits mod 2 ^ 63 = 0 -> ieee_exp bits <> 2047 ->
  mpz_set_d_c bits = COk (mkz 0 []).
Proof.
  intros Hb H0 Hex. destruct (ieee_fields bits Hb) as (_ & _ & _ & _ & El).
  unfold mpz_set_d_c. destruct (Z.eqb_spec (ieee_exp bits) 2047) as [C|_]; [contradiction|].
  rewrite El, H0. change (0 =? 0) with true. cbn [negb]. rewrite andb_false_r. cbv iota.
  unfold extract_double_c. rewrite El, H0. reflexivity.
Qed.

(* MAIN THEOREM 5: mpz_set_d *)
Theorem mpz_set_d_c_correct : forall bits, 0 <= bits < 2 ^ 64 ->
  match ConvDefs.mpz_set_d bits, mpz_set_d_c bits with
  | COk t, COk z => value z = t /\ mpz_wf z
  | Invalid, Invalid => True
  | _, _ => False
  end.
Proof.
  intros bits Hb. destruct (ieee_fields bits Hb) as (_ & _ & Ee & Es & El).
  pose proof (decode_fields bits Hb) as Hd. cbv zeta in Hd.
  assert (P63 : 2 ^ 63 = 9223372036854775808) by reflexivity.
  assert (P52 : 2 ^ 52 = 4503599627370496) by reflexivity.
  assert (P11 : 2 ^ 11 = 2048) by reflexivity.
  assert (P64 : 2 ^ 64 = 18446744073709551616) by reflexivity.
  set (low := bits mod 2 ^ 63) in *. set (sig := bits / 2 ^ 63) in *.
  set (ex := (bits / 2 ^ 52) mod 2 ^ 11) in *. set (man := bits mod 2 ^ 52) in *.
  assert (Hlow : 0 <= low < 2 ^ 63 /\ (sig = 0 \/ sig = 1) /\ bits = sig * 2 ^ 63 + low
                 /\ low / 2 ^ 52 = ex /\ low mod 2 ^ 52 = man /\ 0 <= man < 2 ^ 52 /\ 0 <= ex < 2048
                 /\ low = ex * 2 ^ 52 + man).
  { unfold low, sig, ex, man. rewrite P63, P52, P11. rewrite P64 in Hb.
    Z.div_mod_to_equations. lia. }
  destruct Hlow as (Hlow & Hsig & Hbits & Hlex & Hlman & Hman & Hex & Hlowv).
  unfold ConvDefs.mpz_set_d. rewrite Hd.
  destruct (Z.eqb_spec ex 2047) as [E2047|N2047].
  - (* infinities and NaNs *)
    unfold mpz_set_d_c. rewrite Ee, E2047. change (2047 =? 2047) with true. cbv iota.
    destruct (man =? 0); exact I.
  - destruct (Z.eq_dec low 0) as [L0|LN].
    + (* +0.0 and -0.0 *)
      rewrite mpz_set_d_c_zero by (try assumption; rewrite Ee; exact N2047).
      assert (ex = 0 /\ man = 0) as [-> ->] by lia.
      change (0 =? 0) with true. cbv iota beta zeta. change (0 <=? -1074) with false. cbv iota.
      rewrite Z.div_0_l by (apply Z.pow_nonzero; lia).
      split; [destruct (0 <? sig); reflexivity|apply mpz_wf_zero].
    + (* non-zero finite *)
      unfold mpz_set_d_c. rewrite Ee, Es, El.
      destruct (Z.eqb_spec ex 2047) as [C|_]; [contradiction|].
      destruct (Z.eqb_spec low 0) as [C|_]; [contradiction|]. cbn [negb]. rewrite andb_true_r.
      assert (Edabs : (if negb (sig =? 0) then low else bits) = low).
      { destruct Hsig as [S|S]; rewrite S; cbn [Z.eqb negb]; [lia|reflexivity]. }
      rewrite Edabs.
      destruct (extract_double_c_fields low ltac:(lia)) as (lo & hi & rn & u & E & H1 & H2 & H3 & H4 & H5 & H6).
      cbv zeta in H5, H6. rewrite Hlex, Hlman in H5. rewrite Hlex in H6. rewrite E. cbv beta iota zeta.
      change (ptr_at [lo; hi] 0) with lo. change (ptr_at [lo; hi] 1) with hi.
      set (m := if ex =? 0 then man else man + 2 ^ 52) in *.
      set (e := if ex =? 0 then -1074 else ex - 1075) in *.
      assert (Hmpos : 0 < m).
      { unfold m. destruct (Z.eqb_spec ex 0); lia. }
      pose proof (set_d_limbs lo hi rn u m e H1 H2 H3 H4 Hmpos H5 H6) as Hsl. cbv zeta in Hsl.
      set (rn' := if rn <=? 0 then 0 else rn) in *.
      set (rp := if rn' =? 0 then [] else if rn' =? 1 then [hi] else if rn' =? 2 then [lo; hi]
                 else repeat 0 (Z.to_nat (rn' - 2)) ++ [lo; hi]) in *.
      destruct Hsl as (Hrn & Hlen & Hwf & Hnorm & Hev). clearbody rp rn'.
      assert (Hspec : (if ex =? 0 then DFin (0 <? sig) man (-1074) else DFin (0 <? sig) (man + 2 ^ 52) (ex - 1075))
                      = DFin (0 <? sig) m e).
      { unfold m, e. destruct (ex =? 0); reflexivity. }
      rewrite Hspec. cbv beta iota zeta. rewrite <- Hev.
      destruct Hsig as [S|S]; rewrite S.
      * change (negb (0 =? 0)) with false. change (0 <? 0) with false. cbv iota.
        split; [apply value_nonneg_sz; lia|].
        split; [cbn [sz d]; lia|]. split; assumption.
      * change (negb (1 =? 0)) with true. change (0 <? 1) with true. cbv iota.
        split; [apply value_nonpos_sz; lia|].
        split; [cbn [sz d]; lia|]. split; assumption.
Qed.

(* ------------------------------------------------------------------ *)
(* mpq_get_d: value-level facts                                         *)

(* dropping low bits that are below the 53-bit cut does not change the double *)
Lemma get_d_bits_shift mag neg exp k : 0 <= k -> 2 ^ 52 <= mag / 2 ^ k ->
  get_d_bits mag neg exp = get_d_bits (mag / 2 ^ k) neg (exp + k).
Proof.
  intros Hk Hbig. pose proof (pow2_pos k Hk) as Pk.
  set (mag' := mag / 2 ^ k) in *.
  assert (Hmag' : 0 < mag') by (change (2 ^ 52) with 4503599627370496 in Hbig; lia).
  pose proof (Z.mul_div_le mag (2 ^ k) Pk) as D1.
  pose proof (Z.mul_succ_div_gt mag (2 ^ k) Pk) as D2. unfold Z.succ in D2. fold mag' in D1, D2.
  destruct (Z.log2_spec mag' Hmag') as [Lo Hi]. unfold Z.succ in Hi.
  set (t := Z.log2 mag') in *.
  assert (Ht : 52 <= t) by (apply Z.log2_le_pow2; lia).
  assert (Hlog : Z.log2 mag = k + t).
  { apply (log2_sandwich mag mag' k t); lia. }
  assert (Hmag : 0 < mag) by nia.
  set (M := mag' / 2 ^ (t - 52)).
  rewrite (get_d_bits_unfold mag neg exp M (exp + k + t)); [|lia|lia|].
  - rewrite (get_d_bits_unfold mag' neg (exp + k) M (exp + k + t)); [reflexivity|lia|fold t; lia|].
    fold t. destruct (Z.leb_spec 53 (t + 1)) as [_|C]; [|lia].
    replace (t + 1 - 53) with (t - 52) by ring. reflexivity.
  - rewrite Hlog. destruct (Z.leb_spec 53 (k + t + 1)) as [_|C]; [|lia].
    replace (k + t + 1 - 53) with (k + (t - 52)) by ring. rewrite pow2_add by lia.
    unfold M, mag'. rewrite Z.div_div by (try lia; apply pow2_pos; lia). reflexivity.
Qed.

Lemma div_scale X D k : 0 < D -> 0 <= k -> (X * 2 ^ k / D) / 2 ^ k = X / D.
Proof.
  intros HD Hk. pose proof (pow2_pos k Hk) as Pk.
  rewrite Z.div_div by lia. apply Z.div_mul_cancel_r; lia.
Qed.

Lemma qfl_shift N D a1 a2 : 0 < D -> a2 <= a1 -> qfl N D a2 = qfl N D a1 / 2 ^ (a1 - a2).
Proof.
  intros HD Hle. unfold qfl.
  destruct (Z.leb_spec 0 a1) as [H1|H1]; destruct (Z.leb_spec 0 a2) as [H2|H2]; try lia.
  - replace a1 with (a2 + (a1 - a2)) at 1 by ring. rewrite pow2_add by lia.
    rewrite Z.mul_assoc. rewrite div_scale by lia. reflexivity.
  - pose proof (pow2_pos a1 H1) as P1. pose proof (pow2_pos (- a2) ltac:(lia)) as P2.
    replace (a1 - a2) with (a1 + - a2) by ring. rewrite pow2_add by lia.
    rewrite Z.div_div by (try lia; nia).
    replace (D * (2 ^ a1 * 2 ^ (- a2))) with (D * 2 ^ (- a2) * 2 ^ a1) by ring.
    rewrite Z.div_mul_cancel_r by (try lia; nia). reflexivity.
  - pose proof (pow2_pos (- a1) ltac:(lia)) as P1. pose proof (pow2_pos (a1 - a2) ltac:(lia)) as P2.
    rewrite Z.div_div by (try lia; nia).
    rewrite <- Z.mul_assoc. rewrite <- pow2_add by lia.
    replace (- a1 + (a1 - a2)) with (- a2) by ring. reflexivity.
Qed.

(* two truncated quotients that both keep at least 53 bits give the same double *)
Lemma get_d_bits_qfl N D neg a1 a2 : 0 < D ->
  2 ^ 52 <= qfl N D a1 -> 2 ^ 52 <= qfl N D a2 ->
  get_d_bits (qfl N D a1) neg (- a1) = get_d_bits (qfl N D a2) neg (- a2).
Proof.
  intros HD H1 H2. destruct (Z_le_gt_dec a2 a1) as [Hle|Hgt].
  - rewrite (get_d_bits_shift (qfl N D a1) neg (- a1) (a1 - a2)); [|lia|].
    + rewrite <- qfl_shift by lia. f_equal. ring.
    + rewrite <- qfl_shift by lia. exact H2.
  - symmetry. rewrite (get_d_bits_shift (qfl N D a2) neg (- a2) (a2 - a1)); [|lia|].
    + rewrite <- qfl_shift by lia. f_equal. ring.
    + rewrite <- qfl_shift by lia. exact H1.
Qed.

(* the value-level mpq_get_d through qfl *)
Lemma mpq_get_d_qfl n dd : n <> 0 -> 0 < dd ->
  exists s, 0 <= s /\ 2 ^ 52 <= qfl (Z.abs n) dd s
    /\ ConvDefs.mpq_get_d n dd = get_d_bits (qfl (Z.abs n) dd s) (n <? 0) (- s).
Proof.
  intros Hn Hd. unfold ConvDefs.mpq_get_d. destruct (Z.eqb_spec n 0) as [C|_]; [contradiction|].
  cbv zeta. set (s := Z.max 0 (66 + Z.log2 dd - Z.log2 (Z.abs n))).
  exists s. assert (Hs : 0 <= s) by (unfold s; lia). split; [exact Hs|].
  unfold qfl. destruct (Z.leb_spec 0 s) as [_|C]; [|lia]. split; [|reflexivity].
  assert (HN : 0 < Z.abs n) by lia.
  destruct (Z.log2_spec (Z.abs n) HN) as [Lo _]. destruct (Z.log2_spec dd Hd) as [_ Hi].
  pose proof (Z.log2_nonneg (Z.abs n)) as Ln. pose proof (Z.log2_nonneg dd) as Ld.
  unfold Z.succ in Hi. set (ln := Z.log2 (Z.abs n)) in *. set (ld := Z.log2 dd) in *.
  apply Z.div_le_lower_bound; [exact Hd|].
  assert (Hp : 2 ^ (ld + 1) * 2 ^ 52 <= 2 ^ ln * 2 ^ s).
  { rewrite <- !pow2_add by lia. apply pow2_le. unfold s. lia. }
  pose proof (pow2_pos s Hs) as Ps. pose proof (pow2_pos ln Ln) as Pl.
  assert (2 ^ ln * 2 ^ s <= Z.abs n * 2 ^ s) by (apply Z.mul_le_mono_nonneg_r; lia).
  assert (dd * 2 ^ 52 <= 2 ^ (ld + 1) * 2 ^ 52) by (apply Z.mul_le_mono_nonneg_r; lia).
  lia.
Qed.

(* ------------------------------------------------------------------ *)
(* mpq_get_d: limb-level facts                                          *)

Lemma eval_skipn l c : wf l -> eval (skipn c l) = eval l / B ^ Z.of_nat (length (firstn c l)).
Proof.
  intros Hwf. rewrite (eval_firstn_skipn l c) at 1.
  pose proof (eval_bounds (firstn c l) (wf_firstn l c Hwf)) as Hb.
  pose proof (Bpow_pos (length (firstn c l))) as Hp.
  rewrite Z.mul_comm, Z.div_add by lia. rewrite Z.div_small by lia. reflexivity.
Qed.

Lemma limbs_n_3 Q : B <= Q < B * B * B ->
  let q0 := Q mod B in let q1 := (Q / B) mod B in let q2 := Q / B / B in
  limbs_n 3 Q = [q0; q1; q2] /\ limb q0 /\ limb q1 /\ limb q2
  /\ Q = q0 + B * (q1 + B * q2) /\ (q2 = 0 -> q1 <> 0).
Proof.
  intros HQ. cbv zeta. pose proof B_pos as HB. cbn [limbs_n].
  assert (H2 : 0 <= Q / B / B < B).
  { split; [apply Z.div_pos; [apply Z.div_pos|]; lia|].
    apply Z.div_lt_upper_bound; [lia|]. apply Z.div_lt_upper_bound; [lia|]. nia. }
  rewrite (Z.mod_small (Q / B / B)) by lia.
  pose proof (Z.mod_pos_bound Q B HB). pose proof (Z.mod_pos_bound (Q / B) B HB).
  pose proof (Z.div_mod Q B ltac:(lia)) as E1. pose proof (Z.div_mod (Q / B) B ltac:(lia)) as E2.
  split; [reflexivity|]. split; [assumption|]. split; [assumption|]. split; [exact H2|].
  split; [lia|]. intros E0. rewrite E0 in E2.
  assert (1 <= Q / B) by (apply Z.div_le_lower_bound; lia). lia.
Qed.

Lemma mpn_get_d_c_strip q0 q1 q2 sign exp :
  mpn_get_d_c [q0; q1; q2] 2 sign exp = mpn_get_d_c [q0; q1] 2 sign exp.
Proof. reflexivity. Qed.

(* the numerator handed to mpn_tdiv_qr: padded with low zero limbs or chopped, always dsize + 2 limbs *)
Lemma mpq_prep np ds : wf np -> np <> [] -> last np 0 <> 0 -> 1 <= ds ->
  let zeros := 3 - (len np - ds + 1) in
  let chop := Z.max (- zeros) 0 in
  let pr := if 0 <? zeros + chop
            then (repeat 0 (Z.to_nat (zeros + chop)) ++ skipn (Z.to_nat chop) np,
                  len np - chop + (zeros + chop))
            else (skipn (Z.to_nat chop) np, len np - chop) in
  snd pr = ds + 2
  /\ eval (fst pr) = (if 0 <=? zeros then eval np * 2 ^ (64 * zeros) else eval np / 2 ^ (64 * - zeros))
  /\ 2 ^ (64 * (ds + 1)) <= eval (fst pr) < 2 ^ (64 * (ds + 2)).
Proof.
  intros Hwf Hne Hlast Hds. cbv zeta.
  pose proof (len_nonneg np) as Hln.
  assert (Hlow : B ^ (len np - 1) <= eval np).
  { apply normalized_lower; [assumption|right; assumption|assumption]. }
  pose proof (eval_lt np Hwf) as Hup.
  assert (Hlen1 : 1 <= len np).
  { destruct (Z.eq_dec (len np) 0) as [E|E]; [apply len_0_nil in E; contradiction|lia]. }
  rewrite (Bpow_as_2pow (len np - 1)) in Hlow by lia. rewrite (Bpow_as_2pow (len np)) in Hup by lia.
  assert (Hlenat : len np = Z.of_nat (length np)) by reflexivity.
  set (ns := len np) in *. set (N := eval np) in *.
  set (zeros := 3 - (ns - ds + 1)) in *.
  destruct (Z.leb_spec 0 zeros) as [Hz|Hz].
  - (* zero padding *)
    rewrite Z.max_r by lia. change (Z.to_nat 0) with 0%nat. cbn [skipn].
    rewrite !Z.add_0_r, Z.sub_0_r.
    pose proof (pow2_pos (64 * zeros) ltac:(lia)) as Pz.
    assert (E1 : 2 ^ (64 * (ds + 1)) = 2 ^ (64 * (ns - 1)) * 2 ^ (64 * zeros)).
    { rewrite <- pow2_add by lia. f_equal. unfold zeros. ring. }
    assert (E2 : 2 ^ (64 * (ds + 2)) = 2 ^ (64 * ns) * 2 ^ (64 * zeros)).
    { rewrite <- pow2_add by lia. f_equal. unfold zeros. ring. }
    assert (Hb : 2 ^ (64 * (ds + 1)) <= N * 2 ^ (64 * zeros) < 2 ^ (64 * (ds + 2))).
    { rewrite E1, E2. split; [apply Z.mul_le_mono_nonneg_r; lia|apply Z.mul_lt_mono_pos_r; lia]. }
    destruct (Z.ltb_spec 0 zeros) as [Hp|Hnp]; cbn [fst snd].
    + split; [unfold zeros; ring|].
      assert (Hlr : len (repeat 0 (Z.to_nat zeros)) = zeros).
      { unfold len. rewrite repeat_length. apply Z2Nat.id. lia. }
      rewrite eval_app_len, eval_repeat0, Hlr. rewrite (Bpow_as_2pow zeros) by lia. fold N.
      replace (0 + 2 ^ (64 * zeros) * N) with (N * 2 ^ (64 * zeros)) by ring.
      split; [reflexivity|exact Hb].
    + assert (Ez : zeros = 0) by lia. rewrite Ez in *. change (64 * 0) with 0 in *.
      change (2 ^ 0) with 1 in *. rewrite Z.mul_1_r in *. fold N.
      split; [unfold zeros in Ez; lia|]. split; [reflexivity|exact Hb].
  - (* chopping low limbs *)
    rewrite Z.max_l by lia. replace (zeros + - zeros) with 0 by ring.
    change (0 <? 0) with false. cbv iota. cbn [fst snd].
    set (c := - zeros) in *. assert (Hc : 0 < c) by (unfold c; lia).
    assert (Hcn : c <= ns) by (unfold c, zeros; lia).
    split; [unfold c, zeros; ring|].
    rewrite eval_skipn by exact Hwf.
    rewrite firstn_length_le by (apply Nat2Z.inj_le; rewrite Z2Nat.id by lia; lia).
    rewrite Z2Nat.id by lia. rewrite (Bpow_as_2pow c) by lia. fold N.
    split; [reflexivity|].
    pose proof (pow2_pos (64 * c) ltac:(lia)) as Pc.
    assert (E1 : 2 ^ (64 * (ns - 1)) = 2 ^ (64 * c) * 2 ^ (64 * (ds + 1))).
    { rewrite <- pow2_add by lia. f_equal. unfold c, zeros. ring. }
    assert (E2 : 2 ^ (64 * ns) = 2 ^ (64 * c) * 2 ^ (64 * (ds + 2))).
    { rewrite <- pow2_add by lia. f_equal. unfold c, zeros. ring. }
    split; [apply Z.div_le_lower_bound; lia|apply Z.div_lt_upper_bound; lia].
Qed.

(* MAIN THEOREM 6: mpq_get_d (any numerator, positive denominator, canonical or not) *)
Theorem mpq_get_d_c_correct : forall num den, mpz_wf num -> mpz_wf den -> 0 < sz den ->
  len (d num) < 2 ^ 56 -> len (d den) < 2 ^ 56 ->
  mpq_get_d_c num den = ConvDefs.mpq_get_d (value num) (value den).
Proof.
  intros num den Hnum Hden Hdpos Hnl Hdl.
  unfold mpq_get_d_c. cbv zeta.
  destruct (Z.eqb_spec (sz num) 0) as [E|N].
  - unfold value at 1. rewrite E. reflexivity.
  - destruct (mpz_wf_nonzero num Hnum N) as (Hl & Hw & Hne & Hlast & Hpos & Habs & Hsgn).
    destruct (mpz_wf_nonzero den Hden ltac:(lia)) as (Hld & Hwd & Hned & Hlastd & Hposd & _ & _).
    assert (Evd : value den = eval (d den)).
    { unfold value. rewrite Z.sgn_pos by lia. ring. }
    assert (Hvn : value num <> 0) by lia.
    destruct (mpq_get_d_qfl (value num) (value den) Hvn ltac:(lia)) as (s & Hs & Hsb & Es).
    rewrite Es, Habs, Hsgn, Evd in *. clear Es.
    rewrite Hl, Hld. change (N_QLIMBS + 1) with 3.
    assert (Hds : 1 <= len (d den)).
    { pose proof (len_nonneg (d den)). destruct (Z.eq_dec (len (d den)) 0) as [E|E]; [apply len_0_nil in E; contradiction|lia]. }
    assert (Hns : 1 <= len (d num)).
    { pose proof (len_nonneg (d num)). destruct (Z.eq_dec (len (d num)) 0) as [E|E]; [apply len_0_nil in E; contradiction|lia]. }
    assert (HDlow : B ^ (len (d den) - 1) <= eval (d den)).
    { apply normalized_lower; [assumption|right; assumption|assumption]. }
    pose proof (eval_lt (d den) Hwd) as HDup.
    rewrite (Bpow_as_2pow (len (d den) - 1)) in HDlow by lia.
    rewrite (Bpow_as_2pow (len (d den))) in HDup by lia.
    destruct (mpq_prep (d num) (len (d den)) Hw Hne Hlast Hds) as (P1 & P2 & P3).
    cbv zeta in P1, P2, P3.
    set (ds := len (d den)) in *. set (D := eval (d den)) in *. set (Nn := eval (d num)) in *.
    set (zeros := 3 - (len (d num) - ds + 1)) in *.
    match goal with |- context [if 0 <? ?z then (?a, ?b) else (?c, ?dd)] =>
      set (pr := if 0 <? z then (a, b) else (c, dd)) in * end.
    destruct pr as [np2 ns2]. cbn [fst snd] in P1, P2, P3. subst ns2.
    unfold tdiv_q_limbs. replace (ds + 2 - ds + 1) with 3 by ring. change (Z.to_nat 3) with 3%nat.
    fold D. set (X := eval np2) in *.
    (* the quotient has two or three limbs *)
    assert (HQ : B <= X / D < B * B * B).
    { rewrite B_pow. pose proof (pow2_pos (64 * (ds - 1)) ltac:(lia)) as Pd.
      assert (E1 : 2 ^ (64 * (ds + 1)) = 2 ^ (64 * ds) * 2 ^ 64).
      { rewrite <- pow2_add by lia. f_equal. ring. }
      assert (E2 : 2 ^ (64 * (ds + 2)) = 2 ^ (64 * (ds - 1)) * (2 ^ 64 * 2 ^ 64 * 2 ^ 64)).
      { rewrite <- !pow2_add by lia. f_equal. ring. }
      assert (0 < 2 ^ 64) by (apply pow2_pos; lia).
      split; [apply Z.div_le_lower_bound; [lia|]|apply Z.div_lt_upper_bound; [lia|]].
      - apply Z.le_trans with (2 ^ (64 * ds) * 2 ^ 64); [nia|lia].
      - apply Z.lt_le_trans with (2 ^ (64 * (ds - 1)) * (2 ^ 64 * 2 ^ 64 * 2 ^ 64)); [lia|].
        apply Z.mul_le_mono_nonneg_r; [nia|lia]. }
    assert (HQ52 : 2 ^ 52 <= X / D).
    { apply Z.le_trans with B; [rewrite B_pow; apply pow2_le; lia|lia]. }
    (* the quotient is floor (N / D * 2^(64 zeros)) *)
    assert (HQfl : X / D = qfl Nn D (64 * zeros)).
    { unfold qfl. rewrite P2.
      destruct (Z.leb_spec 0 zeros) as [Hz|Hz]; destruct (Z.leb_spec 0 (64 * zeros)) as [Hz'|Hz']; try lia; try reflexivity.
      replace (- (64 * zeros)) with (64 * - zeros) by ring.
      rewrite Z.div_div by (try lia; apply pow2_pos; lia). f_equal. ring. }
    assert (Hexp : - 2 ^ 63 <= - zeros * 64 < 2 ^ 63).
    { change (2 ^ 56) with 72057594037927936 in *. change (2 ^ 63) with 9223372036854775808.
      unfold zeros. lia. }
    destruct (limbs_n_3 (X / D) HQ) as (Eq & L0 & L1 & L2 & EQ & Hq1). cbv zeta in Eq, L0, L1, L2, EQ, Hq1.
    rewrite Eq. set (q0 := (X / D) mod B) in *. set (q1 := (X / D / B) mod B) in *.
    set (q2 := X / D / B / B) in *.
    change (ptr_at [q0; q1; q2] (3 - 1)) with q2.
    replace (- zeros * 64) with (- (64 * zeros)) in * by ring.
    destruct (Z.eqb_spec q2 0) as [E2|N2].
    + (* high limb zero: two limbs *)
      change (3 - b2z true) with 2. rewrite mpn_get_d_c_strip.
      pose proof (mpn_get_d_c_correct [q0; q1] (sz num) (- (64 * zeros))) as Hc.
      change (len [q0; q1]) with 2 in Hc. rewrite Hc.
      * cbn [eval]. replace (q0 + B * (q1 + B * 0)) with (X / D) by (rewrite EQ at 1; rewrite E2; ring).
        rewrite HQfl. rewrite HQfl in HQ52. apply get_d_bits_qfl; [lia|exact HQ52|exact Hsb].
      * apply wf_cons; [exact L0|apply wf_cons; [exact L1|apply wf_nil]].
      * discriminate.
      * cbn [last]. apply Hq1. exact E2.
      * change (2 ^ 57) with 144115188075855872. lia.
      * exact Hexp.
    + change (3 - b2z false) with 3.
      pose proof (mpn_get_d_c_correct [q0; q1; q2] (sz num) (- (64 * zeros))) as Hc.
      change (len [q0; q1; q2]) with 3 in Hc. rewrite Hc.
      * cbn [eval]. replace (q0 + B * (q1 + B * (q2 + B * 0))) with (X / D) by (rewrite EQ at 1; ring).
        rewrite HQfl. rewrite HQfl in HQ52. apply get_d_bits_qfl; [lia|exact HQ52|exact Hsb].
      * apply wf_cons; [exact L0|apply wf_cons; [exact L1|apply wf_cons; [exact L2|apply wf_nil]]].
      * discriminate.
      * cbn [last]. exact N2.
      * change (2 ^ 57) with 144115188075855872. lia.
      * exact Hexp.
Qed.

(* mpq_get_d as coded is the truncation toward zero of the exact quotient: it is the double
   obtained from floor (|n| / d * 2^a) scaled by 2^-a for EVERY a that keeps at least 53 bits *)
Theorem mpq_get_d_c_truncates : forall num den a, mpz_wf num -> mpz_wf den -> 0 < sz den ->
  len (d num) < 2 ^ 56 -> len (d den) < 2 ^ 56 -> value num <> 0 ->
  2 ^ 52 <= qfl (Z.abs (value num)) (value den) a ->
  mpq_get_d_c num den = get_d_bits (qfl (Z.abs (value num)) (value den) a) (value num <? 0) (- a).
Proof.
  intros num den a Hnum Hden Hdpos Hnl Hdl Hn Ha.
  rewrite mpq_get_d_c_correct by assumption.
  assert (Hd : 0 < value den).
  { unfold value. rewrite Z.sgn_pos by lia.
    destruct (mpz_wf_nonzero den Hden ltac:(lia)) as (_ & _ & _ & _ & Hp & _). lia. }
  destruct (mpq_get_d_qfl (value num) (value den) Hn Hd) as (s & Hs & Hsb & Es).
  rewrite Es. apply get_d_bits_qfl; assumption.
Qed.

(* ------------------------------------------------------------------ *)
(* the hypotheses are satisfiable: evaluated instances                   *)

Example getd_example_limbs : list Z := [1; 2 ^ 64 - 1; 2 ^ 63 + 12345].

Example mpn_get_d_c_example :
  let l := getd_example_limbs in
  wfb l = true /\ negb (last l 0 =? 0) = true /\ (len l <? 2 ^ 57) = true
  /\ mpn_get_d_c l (len l) (-3) (-1200) = 9286422431637962758            (* denormal, negative *)
  /\ get_d_bits (eval l) true (-1200) = 9286422431637962758
  /\ mpn_get_d_c l (len l) 3 (-1262) = 8                                 (* 2^-1071 *)
  /\ mpn_get_d_c l (len l) 3 900 = inf_bits false                        (* overflow *)
  /\ mpn_get_d_c l (len l) 3 (2 ^ 63 - 1) = inf_bits false               (* the LONG_MAX guard *)
  /\ mpn_get_d_c l (len l) 3 (-1266) = 0.                                (* underflow *)
Proof. vm_compute. repeat split; reflexivity. Qed.

Example mpz_get_d_c_example :
  let z := mkz (-3) getd_example_limbs in
  mpz_get_d_c z = ConvDefs.mpz_get_d (value z) /\ mpz_get_d_c z = 14690741984482557958
  /\ mpz_get_d_2exp_c z = ConvDefs.mpz_get_d_2exp (value z)
  /\ mpz_get_d_2exp_c z = (13826050856027422726, 192).
Proof. vm_compute. repeat split; reflexivity. Qed.

Example mpz_set_d_c_example :
  extract_double_c 3 = ([0; 49152], -16)                                         (* 3 * 2^-1074 *)
  /\ extract_double_c 4607182418800017408 = ([0; 1], 1)                           (* 1.0 *)
  /\ mpz_set_d_c (2 ^ 63 + (1023 + 100) * 2 ^ 52 + 12345)
     = COk (mkz (-2) [3474808587493048320; 68719476736])
  /\ ConvDefs.mpz_set_d (2 ^ 63 + (1023 + 100) * 2 ^ 52 + 12345)
     = COk (value (mkz (-2) [3474808587493048320; 68719476736]))
  /\ mpz_set_d_c (2047 * 2 ^ 52) = Invalid                                        (* +infinity *)
  /\ mpz_set_d_c ((1023 + 51) * 2 ^ 52 + 1) = COk (mkz 1 [2 ^ 51]).              (* 2^51 + 1/2 *)
Proof. vm_compute. repeat split; reflexivity. Qed.

Example mpq_get_d_c_example :
  let n := - (2 ^ 200 + 12345) in let dd := 3 * 2 ^ 64 + 7 in
  mpq_get_d_c (mpz_of_Z n) (mpz_of_Z dd) = ConvDefs.mpq_get_d n dd
  /\ mpq_get_d_c (mpz_of_Z n) (mpz_of_Z dd) = 14435538005598229845
  /\ mpq_get_d_c (mpz_of_Z 1) (mpz_of_Z 3) = 4599676419421066581                  (* 0x3FD5555555555555 *)
  /\ mpq_get_d_c (mpz_of_Z 6) (mpz_of_Z 4) = 4609434218613702656.                 (* 1.5, not canonical *)
Proof. vm_compute. repeat split; reflexivity. Qed.
