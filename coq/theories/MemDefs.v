(* MemDefs.v — a flat limb memory and the index loops of the generic C routines
   acting on it *in the order of the C loads and stores*, so that source and
   destination may overlap.  Used for the overlap clauses of C03/C05. *)
From Coq Require Import ZArith List Bool.
From Mpir Require Import Word Limbs MpnBasicDefs.
Import ListNotations.
Local Open Scope Z_scope.

Definition mem := Z -> Z.
Definition upd (m : mem) (a v : Z) : mem := fun x => if x =? a then v else m x.
Fixpoint rd (m : mem) (a : Z) (n : nat) : list Z :=
  match n with O => [] | S k => m a :: rd m (a + 1) k end.

Definition outside (rp : Z) (n : nat) (a : Z) : Prop := a < rp \/ rp + Z.of_nat n <= a.
(* destination equal to, below, or disjoint from a source: the ascending loops *)
Definition asc_ok (rp sp : Z) (n : nat) : Prop := rp <= sp \/ sp + Z.of_nat n <= rp.
(* destination equal to, above, or disjoint from the source: the descending loops *)
Definition desc_ok (rp sp : Z) (n : nat) : Prop := sp <= rp \/ rp + Z.of_nat n <= sp.


(* mpn_add_n: ascending; each iteration loads up[i], vp[i], then stores rp[i] *)
Fixpoint add_n_mem (m : mem) (rp up vp : Z) (n : nat) (cy : Z) : mem * Z :=
  match n with
  | O => (m, cy)
  | S k =>
      let ul := m up in let vl := m vp in
      let sl := wrap (ul + vl) in
      let cy1 := b2z (sl <? ul) in
      let rl := wrap (sl + cy) in
      let cy2 := b2z (rl <? sl) in
      add_n_mem (upd m rp rl) (rp + 1) (up + 1) (vp + 1) k (Z.lor cy1 cy2)
  end.

Fixpoint sub_n_mem (m : mem) (rp up vp : Z) (n : nat) (cy : Z) : mem * Z :=
  match n with
  | O => (m, cy)
  | S k =>
      let ul := m up in let vl := m vp in
      let sl := wrap (ul - vl) in
      let cy1 := b2z (ul <? sl) in
      let rl := wrap (sl - cy) in
      let cy2 := b2z (sl <? rl) in
      sub_n_mem (upd m rp rl) (rp + 1) (up + 1) (vp + 1) k (Z.lor cy1 cy2)
  end.

(* MPN_COPY_INCR: ascending copy *)
Fixpoint copyi_mem (m : mem) (rp up : Z) (n : nat) : mem :=
  match n with
  | O => m
  | S k => copyi_mem (upd m rp (m up)) (rp + 1) (up + 1) k
  end.
(* MPN_COPY_DECR: descending copy; rp, up point one past the block still to copy *)
Fixpoint copyd_mem (m : mem) (rp up : Z) (n : nat) : mem :=
  match n with
  | O => m
  | S k => copyd_mem (upd m (rp - 1) (m (up - 1))) (rp - 1) (up - 1) k
  end.

(* mpn_lshift main loop: descending.  [up],[rp] point one past the limb to be
   handled next; [high] is high_limb of the C code.  [k] iterations remain;
   afterwards *--rp = high_limb. *)
Fixpoint lshift_loop (m : mem) (rp up : Z) (k : nat) (cnt high : Z) : mem :=
  match k with
  | O => upd m (rp - 1) high
  | S k' =>
      let low := m (up - 1) in
      let m' := upd m (rp - 1) (Z.lor high (Z.shiftr low (64 - cnt))) in
      lshift_loop m' (rp - 1) (up - 1) k' cnt (wrap (Z.shiftl low cnt))
  end.
Definition lshift_mem (m : mem) (rp up : Z) (n : nat) (cnt : Z) : mem * Z :=
  match n with
  | O => (m, 0)
  | S k =>
      let low := m (up + Z.of_nat k) in
      (lshift_loop m (rp + Z.of_nat n) (up + Z.of_nat k) k cnt (wrap (Z.shiftl low cnt)),
       Z.shiftr low (64 - cnt))
  end.

(* mpn_rshift main loop: ascending; [low] is low_limb of the C code *)
Fixpoint rshift_loop (m : mem) (rp up : Z) (k : nat) (cnt low : Z) : mem :=
  match k with
  | O => upd m rp low
  | S k' =>
      let high := m up in
      let m' := upd m rp (Z.lor low (wrap (Z.shiftl high (64 - cnt)))) in
      rshift_loop m' (rp + 1) (up + 1) k' cnt (Z.shiftr high cnt)
  end.
Definition rshift_mem (m : mem) (rp up : Z) (n : nat) (cnt : Z) : mem * Z :=
  match n with
  | O => (m, 0)
  | S k =>
      let high := m up in
      (rshift_loop m rp (up + 1) k cnt (Z.shiftr high cnt),
       wrap (Z.shiftl high (64 - cnt)))
  end.
