(* ThreadDefs.v — C15: concurrent use from several threads.
   (1) the classification of every object the library keeps in a writable section (the inventory itself is
       REGENERATED from the built libmpir.a: gen/Gen_Globals.v);
   (2) an abstract machine for the interleaving argument: a heap of locations, steps with a read and a write
       footprint, threads as lists of steps, interleavings as merges.
   Definitions only. *)
From Coq Require Import String Ascii ZArith List Bool.
Import ListNotations.
Local Open Scope string_scope.

(* ---- (1) writable objects of the library ---- *)
(* shared mutable state the manual documents (Reentrancy): memory function pointers, default mpf precision,
   the global state of the obsolete random functions; gmp_errno is set by the obsolete gmp_randinit and error paths *)
Definition documented_shared : list string :=
  ["__gmp_allocate_func"; "__gmp_reallocate_func"; "__gmp_free_func"; "__gmp_default_fp_limb_precision";
   "__gmp_rands"; "__gmp_rands_initialized"; "__gmp_errno"].
(* written only immediately before a deliberate trap (DIVIDE_BY_ZERO / SQRT_OF_NEGATIVE: __gmp_junk = 10 / __gmp_0) *)
Definition trap_only : list string := ["__gmp_junk"; "__gmp_0"].
(* tables and function-pointer records that live in .data only because they are not declared const: never written
   (claim checked at run time: their bytes are compared before and after the threaded battery) *)
Definition never_written : list string :=
  ["mulfunc"; "__gmp_fscanf_funs"; "__gmp_sscanf_funs"; "__gmp_fprintf_funs"; "__gmp_sprintf_funs"; "__gmp_snprintf_funs";
   "__gmp_asprintf_funs"; "__gmp_obstack_printf_funs"; "mod63"; "mod64"; "mod65"; "primes"; "addtab"; "den"; "x";
   "mpir_fft_tuning_table"; "mulmod_2expp1_table_n"; "revtab"; "__gmp_rand_lc_scheme"; "Linear_Congruential_Generator";
   "Mersenne_Twister_Generator"; "Mersenne_Twister_Generator_Noseed"; "__gmp_version"; "__mpir_version"].
(* the name of a static local without the compiler's numeric suffix: "x.0" -> "x" *)
Fixpoint before_dot (s : string) : string :=
  match s with
  | EmptyString => EmptyString
  | String c r => if Ascii.eqb c (Ascii.ascii_of_nat 46) then EmptyString else String c (before_dot r)
  end.
Definition classified (name : string) : bool :=
  let n := before_dot name in
  existsb (String.eqb n) documented_shared || existsb (String.eqb n) trap_only || existsb (String.eqb n) never_written.
Definition inventory_ok (inv : list (string * string * Z * string)) : bool :=
  forallb (fun g => classified (snd (fst (fst g)))) inv.

(* ---- (2) interleavings ---- *)
Local Open Scope Z_scope.
Definition heap := Z -> Z.
(* a step: a transformer with a footprint; [s_ok] says it writes only inside [wr] and depends only on [rd ++ wr] *)
Record step := mkstep { rd : list Z; wr : list Z; run : heap -> heap }.
Definition inl (x : Z) (l : list Z) : bool := existsb (Z.eqb x) l.
Definition agree_on (l : list Z) (h1 h2 : heap) : Prop := forall x, inl x l = true -> h1 x = h2 x.
Definition step_ok (s : step) : Prop :=
  (forall h x, inl x (wr s) = false -> run s h x = h x)
  /\ (forall h1 h2, agree_on (rd s ++ wr s) h1 h2 -> forall x, inl x (wr s) = true -> run s h1 x = run s h2 x).
Definition disjoint (a b : list Z) : bool := forallb (fun x => negb (inl x b)) a.
(* two steps do not interfere: neither writes what the other reads or writes *)
Definition indep (s t : step) : bool := disjoint (wr s) (rd t ++ wr t) && disjoint (wr t) (rd s ++ wr s).
Definition exec (p : list step) (h : heap) : heap := fold_left (fun h s => run s h) p h.
(* all merges of two programs that keep each program's own order *)
Inductive merge : list step -> list step -> list step -> Prop :=
  | merge_nil_l : forall q, merge [] q q
  | merge_nil_r : forall p, merge p [] p
  | merge_l : forall s p q r, merge p q r -> merge (s :: p) q (s :: r)
  | merge_r : forall s p q r, merge p q r -> merge p (s :: q) (s :: r).
(* interleavings of any number of threads *)
Inductive merges : list (list step) -> list step -> Prop :=
  | merges_nil : merges [] []
  | merges_cons : forall p ps r r', merges ps r -> merge p r r' -> merges (p :: ps) r'.
Definition heq (h1 h2 : heap) : Prop := forall x, h1 x = h2 x.
Definition prog_ok (p : list step) : Prop := Forall step_ok p.
Definition progs_indep (p q : list step) : Prop := Forall (fun s => Forall (fun t => indep s t = true) q) p.
Fixpoint all_indep (ps : list (list step)) : Prop :=
  match ps with [] => True | p :: r => Forall (progs_indep p) r /\ all_indep r end.
(* what a thread observes: the final values of the locations it writes *)
Definition footprint (p : list step) : list Z := flat_map wr p.
