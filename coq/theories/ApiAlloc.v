(* ApiAlloc.v — correspondence entry point for C04: a history of F-operations on a pool of
   variables; prints for every variable (alloc, value) or (-1, 0) when not live, then the allocator
   event trace as numbers (1 bytes | 2 old new | 3 bytes).  Definitions only. *)
From Coq Require Import ZArith List Bool.
From Mpir Require Import AllocDefs ApiBasic.
From MpirGen Require Import Gen_Tables.
Import ListNotations.
Local Open Scope Z_scope.

Definition nat_of (z : Z) : nat := Z.to_nat z.
(* numeric op codes: 1 init k | 2 init2 k bits | 3 clear k | 4 realloc2 k bits | 5 set w u | 6 set_ui w v |
   7 neg w u | 8 abs w u | 9 swap a b | 10 add w u v | 11 sub w u v | 12 add_ui w u v | 13 sub_ui w u v |
   14 mul_2exp w u cnt | 15 mul w u v *)
Fixpoint parse_ops (fuel : nat) (l : list Z) : list op :=
  match fuel with
  | O => []
  | S f =>
      match l with
      | 1 :: k :: r => OInit (nat_of k) :: parse_ops f r
      | 2 :: k :: b :: r => OInit2 (nat_of k) b :: parse_ops f r
      | 3 :: k :: r => OClear (nat_of k) :: parse_ops f r
      | 4 :: k :: b :: r => ORealloc2 (nat_of k) b :: parse_ops f r
      | 5 :: w :: u :: r => OSet (nat_of w) (nat_of u) :: parse_ops f r
      | 6 :: w :: v :: r => OSetUi (nat_of w) v :: parse_ops f r
      | 7 :: w :: u :: r => ONeg (nat_of w) (nat_of u) :: parse_ops f r
      | 8 :: w :: u :: r => OAbs (nat_of w) (nat_of u) :: parse_ops f r
      | 9 :: a :: b :: r => OSwap (nat_of a) (nat_of b) :: parse_ops f r
      | 10 :: w :: u :: v :: r => OAdd (nat_of w) (nat_of u) (nat_of v) :: parse_ops f r
      | 11 :: w :: u :: v :: r => OSub (nat_of w) (nat_of u) (nat_of v) :: parse_ops f r
      | 12 :: w :: u :: v :: r => OAddUi (nat_of w) (nat_of u) v :: parse_ops f r
      | 13 :: w :: u :: v :: r => OSubUi (nat_of w) (nat_of u) v :: parse_ops f r
      | 14 :: w :: u :: c :: r => OMul2exp (nat_of w) (nat_of u) c :: parse_ops f r
      | 15 :: w :: u :: v :: r => OMul (nat_of w) (nat_of u) (nat_of v) :: parse_ops f r
      | _ => []
      end
  end.
Definition ev_toks (e : event) : list tok :=
  match e with EAlloc b => [TZ 1; TZ b] | ERealloc o n => [TZ 2; TZ o; TZ n] | EFree b => [TZ 3; TZ b] end.
Definition kara_thr : Z := thr_MUL_KARATSUBA_THRESHOLD.
Definition api_histF : api := fun a =>
  let n := nat_of (argz a 0) in
  let l := map tz (tl a) in
  let ops := parse_ops (length l) l in
  let '(p, ev) := run kara_thr (repeat None n) ops in
  flat_map (fun x => match x with Some o => [TZ (zalloc o); TZ (zval o)] | None => [TZ (-1); TZ 0] end) p
  ++ flat_map ev_toks ev.
(* general histories: the specification of "no contract violation, no leak, every object well formed,
   values independent of the allocation history" is the constant verdict 0 *)
Definition api_histA : api := fun _ => [TZ 0].
