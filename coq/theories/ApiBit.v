(* ApiBit.v — correspondence entry points for C10.  Definitions only. *)
From Coq Require Import ZArith List Bool.
From Mpir Require Import Word Limbs MpnBasicDefs MpzDefs BitDefs ApiBasic ScanDefs.
Import ListNotations.
Local Open Scope Z_scope.

Definition logic2 (f : list Z -> list Z -> list Z) : api := fun a =>
  [TZ (eval (f (arglimbs a 0 1) (arglimbs a 0 2)))].
Definition api_mpn_and_n : api := logic2 and_n.
Definition api_mpn_andn_n : api := logic2 andn_n.
Definition api_mpn_ior_n : api := logic2 ior_n.
Definition api_mpn_iorn_n : api := logic2 iorn_n.
Definition api_mpn_nand_n : api := logic2 nand_n.
Definition api_mpn_nior_n : api := logic2 nior_n.
Definition api_mpn_xor_n : api := logic2 xor_n.
Definition api_mpn_xnor_n : api := logic2 xnor_n.
Definition api_mpn_popcount : api := fun a => [TZ (popcount (arglimbs a 0 1))].
Definition api_mpn_hamdist : api := fun a => [TZ (hamdist (arglimbs a 0 1) (arglimbs a 0 2))].
Definition api_mpn_scan1 : api := fun a => [TZ (mpn_scan1 (arglimbs a 0 1) (argz a 2))].
Definition api_mpn_scan0 : api := fun a => [TZ (mpn_scan0 (arglimbs a 0 1) (argz a 2))].

Definition api_mpz_and : api := zbin mpz_and.
Definition api_mpz_ior : api := zbin mpz_ior.
Definition api_mpz_xor : api := zbin mpz_xor.
Definition api_mpz_com : api := fun a => out_mpz (mpz_com (argmpz a 0)).
Definition api_mpz_setbit : api := fun a => out_mpz (mpz_setbit (argmpz a 0) (argz a 1)).
Definition api_mpz_clrbit : api := fun a => out_mpz (mpz_clrbit (argmpz a 0) (argz a 1)).
Definition api_mpz_combit : api := fun a => out_mpz (mpz_combit (argmpz a 0) (argz a 1)).
Definition api_mpz_tstbit : api := fun a => [TZ (mpz_tstbit (argmpz a 0) (argz a 1))].
(* the limb-level models of scan1.c / scan0.c (proved equal to the value-level definitions: C10_scan_limb_level) *)
Definition api_mpz_scan1 : api := fun a => [TZ (mpz_scan1_c (argmpz a 0) (argz a 1))].
Definition api_mpz_scan0 : api := fun a => [TZ (mpz_scan0_c (argmpz a 0) (argz a 1))].
Definition api_mpz_popcount : api := fun a => [TZ (mpz_popcount (argmpz a 0))].
Definition api_mpz_hamdist : api := fun a =>
  let u := argmpz a 0 in let v := if argz a 2 =? 1 then u else argmpz a 1 in [TZ (mpz_hamdist u v)].
